(* Proofs/BundleProofs.v — lemmas for property C10 (bundle flattening). *)
From Coq Require Import String Ascii Arith.
Require Import Hdl21.Base.PyInt Hdl21.Spec.BundleSpec Hdl21.Model.BundleFlat.
Open Scope string_scope.
Open Scope list_scope.
Open Scope Z_scope.

(* ---------- induction principle for the nested tree type ---------- *)
Section btree_ind'.
  Variable P : btree -> Prop.
  Hypothesis H : forall n c k r sigs subs, Forall P subs -> P (BT n c k r sigs subs).
  Fixpoint btree_ind' (t : btree) : P t :=
    match t with
    | BT n c k r sigs subs =>
        H n c k r sigs subs ((fix go (l : list btree) : Forall P l :=
                                match l with [] => Forall_nil _ | s :: l' => Forall_cons _ (btree_ind' s) (go l') end) subs)
    end.
End btree_ind'.

(* ---------- strings, paths, membership ---------- *)
Lemma append_assoc (a b c : string) : ((a ++ b) ++ c = a ++ (b ++ c))%string.
Proof. induction a; simpl; [reflexivity|]. f_equal. exact IHa. Qed.

Lemma append_nil_r (a : string) : (a ++ "")%string = a.
Proof. induction a; simpl; [reflexivity|]. f_equal. exact IHa. Qed.

Lemma length_append (a b : string) : String.length (a ++ b) = (String.length a + String.length b)%nat.
Proof. induction a; simpl; [reflexivity|]. f_equal. exact IHa. Qed.

Lemma underscores_length k : String.length (underscores k) = k.
Proof. induction k; simpl; [reflexivity|]. f_equal. exact IHk. Qed.

Lemma underscores_snoc k : (underscores k ++ "_")%string = underscores (S k).
Proof. induction k; simpl; [reflexivity|]. f_equal. exact IHk. Qed.

Lemma all_us_underscores k : all_us (underscores k) = true.
Proof. induction k; simpl; [reflexivity|]. exact IHk. Qed.

Lemma us_suffix_app b k : us_suffix b (b ++ underscores k) = Some k.
Proof.
  induction b as [|c b IH]; simpl.
  - rewrite all_us_underscores, underscores_length. reflexivity.
  - rewrite Ascii.eqb_refl. exact IH.
Qed.

Lemma all_us_eq s : all_us s = true -> s = underscores (String.length s).
Proof.
  induction s as [|c s IH]; simpl; [reflexivity|]. intros H. apply andb_prop in H. destruct H as [Hc Hs].
  apply Ascii.eqb_eq in Hc. subst c. f_equal. apply IH. exact Hs.
Qed.

Lemma us_suffix_sound b n k : us_suffix b n = Some k -> n = (b ++ underscores k)%string.
Proof.
  revert n. induction b as [|c b IH]; intros n; simpl.
  - destruct (all_us n) eqn:E; [|discriminate]. intros H. inversion H. apply all_us_eq. exact E.
  - destruct n as [|d n]; [discriminate|]. destruct (Ascii.eqb c d) eqn:E; [|discriminate].
    apply Ascii.eqb_eq in E. subst d. intros H. f_equal. apply IH. exact H.
Qed.

Lemma smem_In s l : smem s l = true <-> In s l.
Proof.
  induction l as [|x xs IH]; simpl; [split; [discriminate|tauto]|].
  rewrite orb_true_iff, IH, String.eqb_eq. tauto.
Qed.

Lemma smem_false s l : smem s l = false <-> ~ In s l.
Proof. rewrite <- smem_In. destruct (smem s l); split; congruence. Qed.

Lemma snodup_NoDup l : snodup l = true <-> NoDup l.
Proof.
  induction l as [|x xs IH]; simpl; [split; [constructor|reflexivity]|].
  rewrite andb_true_iff, negb_true_iff, smem_false, IH. split.
  - intros [A B]. constructor; assumption.
  - intros N. inversion N; subst. tauto.
Qed.

Lemma path_eqb_eq a b : path_eqb a b = true <-> a = b.
Proof.
  revert b. induction a as [|x a IH]; destruct b as [|y b]; simpl; try (split; [discriminate|congruence]); [tauto|].
  rewrite andb_true_iff, String.eqb_eq, IH. split; [intros [-> ->]; reflexivity|intros E; inversion E; tauto].
Qed.

Lemma path_eqb_refl a : path_eqb a a = true.
Proof. apply path_eqb_eq. reflexivity. Qed.

Lemma passoc_None {A} p (l : list (path * A)) : passoc p l = None <-> ~ In p (map fst l).
Proof.
  induction l as [|[q a] xs IH]; simpl; [tauto|].
  destruct (path_eqb q p) eqn:E.
  - apply path_eqb_eq in E. split; [discriminate|]. intros H. exfalso. apply H. left. exact E.
  - rewrite IH. split; [intros H [F|F]; [subst; rewrite path_eqb_refl in E; discriminate|tauto]|tauto].
Qed.

Lemma passoc_In {A} p (l : list (path * A)) a : passoc p l = Some a -> In (p, a) l.
Proof.
  induction l as [|[q b] xs IH]; simpl; [discriminate|].
  destruct (path_eqb q p) eqn:E.
  - apply path_eqb_eq in E. intros H. inversion H. subst. left. reflexivity.
  - intros H. right. apply IH. exact H.
Qed.

Lemma passoc_NoDup {A} p (l : list (path * A)) a : NoDup (map fst l) -> In (p, a) l -> passoc p l = Some a.
Proof.
  induction l as [|[q b] xs IH]; simpl; [tauto|]. intros N H. inversion N; subst.
  destruct H as [H|H].
  - inversion H; subst. rewrite path_eqb_refl. reflexivity.
  - destruct (path_eqb q p) eqn:E.
    + apply path_eqb_eq in E. subst. exfalso. apply H2. apply (in_map fst) in H. exact H.
    + apply IH; assumption.
Qed.

Lemma pmem_false {A} p (l : list (path * A)) : pmem p l = false <-> ~ In p (map fst l).
Proof. unfold pmem. rewrite <- passoc_None. destruct (passoc p l); split; congruence. Qed.

(* ---------- the flattening as a plain recursive function (no collision checks) ---------- *)
Definition mk_leaf (is_port flip_state : bool) (r : option role) (l : leaf) : path * fsig :=
  ([lname l], {| fname := lname l; fwidth := lwidth l;
                 fvis := fst (leaf_vis_dir is_port flip_state r l); fdir := snd (leaf_vis_dir is_port flip_state r l) |}).

Definition prefix_scope {A} (n : string) (sc : list (path * A)) : list (path * A) := map (fun e => (n :: fst e, snd e)) sc.

Fixpoint rflat (is_port flip_state : bool) (t : btree) : scope :=
  match t with
  | BT _ _ _ r sigs subs =>
      map (mk_leaf is_port flip_state r) sigs ++
      (fix go (l : list btree) : scope :=
         match l with
         | [] => []
         | s :: rest => prefix_scope (bname s) (rflat is_port (if inst_flipped s then negb flip_state else flip_state) s) ++ go rest
         end) subs
  end.

Definition rsubs (is_port flip_state : bool) (subs : list btree) : scope :=
  (fix go (l : list btree) : scope :=
     match l with
     | [] => []
     | s :: rest => prefix_scope (bname s) (rflat is_port (if inst_flipped s then negb flip_state else flip_state) s) ++ go rest
     end) subs.

Lemma rflat_eq is_port fs n c k r sigs subs :
  rflat is_port fs (BT n c k r sigs subs) = map (mk_leaf is_port fs r) sigs ++ rsubs is_port fs subs.
Proof. reflexivity. Qed.

Lemma rsubs_cons is_port fs s rest :
  rsubs is_port fs (s :: rest) =
  prefix_scope (bname s) (rflat is_port (if inst_flipped s then negb fs else fs) s) ++ rsubs is_port fs rest.
Proof. reflexivity. Qed.

Definition psubs (subs : list btree) : list path :=
  (fix go (l : list btree) : list path :=
     match l with [] => [] | s :: rest => map (cons (bname s)) (paths s) ++ go rest end) subs.

Lemma paths_eq n c k r sigs subs : paths (BT n c k r sigs subs) = map (fun l => [lname l]) sigs ++ psubs subs.
Proof. reflexivity. Qed.

Lemma psubs_cons s rest : psubs (s :: rest) = map (cons (bname s)) (paths s) ++ psubs rest.
Proof. reflexivity. Qed.

(* the flattened scope lists exactly the paths, in order *)
Lemma rflat_paths is_port t : forall fs, map fst (rflat is_port fs t) = paths t.
Proof.
  induction t as [n c k r sigs subs IH] using btree_ind'. intros fs.
  rewrite rflat_eq, paths_eq, map_app. f_equal.
  - rewrite map_map. reflexivity.
  - induction IH as [|s rest Hs _ IHrest]; [reflexivity|].
    rewrite rsubs_cons, psubs_cons, map_app, IHrest. f_equal.
    unfold prefix_scope. rewrite map_map. cbn [fst]. rewrite <- (Hs (if inst_flipped s then negb fs else fs)).
    rewrite map_map. reflexivity.
Qed.

Lemma paths_nonempty t p : In p (paths t) -> p <> [].
Proof.
  destruct t as [n c k r sigs subs]. rewrite paths_eq, in_app_iff. intros [H|H].
  - apply in_map_iff in H. destruct H as [l [<- _]]. discriminate.
  - induction subs as [|s rest IH]; [contradiction|]. rewrite psubs_cons, in_app_iff in H. destruct H as [H|H].
    + apply in_map_iff in H. destruct H as [q [<- _]]. discriminate.
    + apply IH. exact H.
Qed.

(* ---------- collision freedom: on a well-formed tree the model's checks never fire ---------- *)
Lemma passoc_app {A} p (a b : list (path * A)) :
  passoc p (a ++ b) = match passoc p a with Some x => Some x | None => passoc p b end.
Proof. induction a as [|[q x] a IH]; simpl; [reflexivity|]. destruct (path_eqb q p); [reflexivity|exact IH]. Qed.

Lemma add_sigs_ok is_port fs r sigs : forall sc,
  NoDup (map lname sigs) -> (forall l, In l sigs -> ~ In [lname l] (map fst sc)) ->
  add_sigs is_port fs r sigs sc = Ok (sc ++ map (mk_leaf is_port fs r) sigs).
Proof.
  induction sigs as [|l rest IH]; intros sc N F; cbn [add_sigs map].
  - rewrite app_nil_r. reflexivity.
  - inversion N; subst.
    assert (pmem [lname l] sc = false) as -> by (apply pmem_false; apply F; left; reflexivity).
    unfold mk_leaf at 1. destruct (leaf_vis_dir is_port fs r l) as [v d] eqn:E. cbn [fst snd].
    rewrite IH.
    + rewrite <- app_assoc. reflexivity.
    + assumption.
    + intros l' Hl'. rewrite map_app, in_app_iff. cbn [map fst]. intros [G|[G|[]]].
      * apply (F l'); [right; exact Hl'|exact G].
      * inversion G as [G']. apply H1. rewrite G'. apply in_map. exact Hl'.
Qed.

Lemma add_subscope_ok {A} n (sub : list (path * A)) : forall sc,
  NoDup (map fst sub) -> (forall q, In q (map fst sub) -> ~ In (n :: q) (map fst sc)) ->
  add_subscope n sub sc = Ok (sc ++ prefix_scope n sub).
Proof.
  induction sub as [|[q s] rest IH]; intros sc N F; cbn [add_subscope prefix_scope map].
  - rewrite app_nil_r. reflexivity.
  - cbn [map fst] in N. inversion N; subst.
    assert (pmem (n :: q) sc = false) as -> by (apply pmem_false; apply F; left; reflexivity).
    rewrite IH.
    + rewrite <- app_assoc. reflexivity.
    + assumption.
    + intros q' Hq'. rewrite map_app, in_app_iff. cbn [map fst]. intros [G|[G|[]]].
      * apply (F q'); [right; exact Hq'|exact G].
      * inversion G; subst. contradiction.
Qed.

(* a path "starts with n" when it has at least two segments, the first being n *)
Definition starts (n : string) (p : path) : Prop := match p with x :: _ :: _ => x = n | _ => False end.

Lemma wf_tree_eq n c k r sigs subs :
  wf_tree (BT n c k r sigs subs) = snodup (map lname sigs ++ map bname subs) && forallb wf_tree subs.
Proof.
  reflexivity.
Qed.

Lemma NoDup_app_iff {A} (a b : list A) : NoDup (a ++ b) <-> NoDup a /\ NoDup b /\ (forall x, In x a -> ~ In x b).
Proof.
  induction a as [|x a IH]; simpl.
  - split; [intros H; repeat split; [constructor|exact H|tauto]|tauto].
  - split.
    + intros H. inversion H; subst. apply IH in H3. destruct H3 as [Na [Nb F]]. rewrite in_app_iff in H2.
      repeat split; [constructor; tauto|exact Nb|]. intros y [->|Hy]; [tauto|apply F; exact Hy].
    + intros [Na [Nb F]]. inversion Na; subst. constructor.
      * rewrite in_app_iff. intros [G|G]; [tauto|]. apply (F x); [left; reflexivity|exact G].
      * apply IH. repeat split; [assumption|assumption|]. intros y Hy. apply F. right. exact Hy.
Qed.

Lemma NoDup_map_inj {A B} (f : A -> B) (l : list A) :
  (forall x y, f x = f y -> x = y) -> NoDup l -> NoDup (map f l).
Proof.
  intros Inj N. induction N; simpl; constructor; [|assumption].
  intros H'. apply in_map_iff in H'. destruct H' as [y [E Hy]]. apply Inj in E. subst. contradiction.
Qed.

Lemma psubs_in subs p : In p (psubs subs) -> exists s q, In s subs /\ p = bname s :: q /\ In q (paths s).
Proof.
  induction subs as [|s rest IH]; [contradiction|]. rewrite psubs_cons, in_app_iff. intros [H|H].
  - apply in_map_iff in H. destruct H as [q [<- Hq]]. exists s, q. split; [left; reflexivity|]. split; [reflexivity|exact Hq].
  - destruct (IH H) as [s' [q [Hs' E]]]. exists s', q. split; [right; exact Hs'|exact E].
Qed.

Lemma paths_NoDup t : wf_tree t = true -> NoDup (paths t).
Proof.
  induction t as [n c k r sigs subs IH] using btree_ind'. rewrite wf_tree_eq, paths_eq.
  intros W. apply andb_prop in W. destruct W as [W1 W2]. apply snodup_NoDup in W1.
  apply NoDup_app_iff in W1. destruct W1 as [Nsigs [Nsubs _]].
  apply NoDup_app_iff. repeat split.
  - rewrite <- (map_map lname (fun n => [n])). apply NoDup_map_inj; [intros a b E; inversion E; reflexivity|exact Nsigs].
  - clear Nsigs. induction IH as [|s rest Hs _ IHrest]; [constructor|].
    cbn [forallb] in W2. apply andb_prop in W2. destruct W2 as [Ws Wr]. cbn [map] in Nsubs. inversion Nsubs; subst.
    rewrite psubs_cons. apply NoDup_app_iff. repeat split.
    + apply NoDup_map_inj; [intros a b E; inversion E; reflexivity|apply Hs; exact Ws].
    + apply IHrest; assumption.
    + intros p Hp Hp'. apply in_map_iff in Hp. destruct Hp as [q [<- _]].
      destruct (psubs_in _ _ Hp') as [s' [q' [Hs' [E _]]]]. inversion E. apply H1. rewrite H0. apply in_map. exact Hs'.
  - intros p Hp Hp'. apply in_map_iff in Hp. destruct Hp as [l [<- _]].
    destruct (psubs_in _ _ Hp') as [s' [q' [_ [E Hq']]]]. inversion E. subst q'. eapply paths_nonempty; eauto.
Qed.

Definition flat_go (is_port flip_state : bool) :=
  fix go (l : list btree) (sc : scope) : result scope :=
    match l with
    | [] => Ok sc
    | sub :: rest =>
        let sub_flip := if inst_flipped sub then negb flip_state else flip_state in
        ss <- flat_helper is_port sub_flip sub ;;
        sc' <- add_subscope (bname sub) ss sc ;;
        go rest sc'
    end.

Lemma flat_helper_eq is_port fs n c k r sigs subs :
  flat_helper is_port fs (BT n c k r sigs subs) = (s0 <- add_sigs is_port fs r sigs [] ;; flat_go is_port fs subs s0).
Proof. reflexivity. Qed.

Lemma prefix_scope_fst {A} n (sc : list (path * A)) : map fst (prefix_scope n sc) = map (cons n) (map fst sc).
Proof. unfold prefix_scope. rewrite !map_map. reflexivity. Qed.

Lemma flat_go_ok is_port fs subs :
  Forall (fun s => wf_tree s = true -> forall fs', flat_helper is_port fs' s = Ok (rflat is_port fs' s)) subs ->
  forallb wf_tree subs = true -> NoDup (map bname subs) ->
  forall sc, (forall s q, In s subs -> q <> [] -> ~ In (bname s :: q) (map fst sc)) ->
  flat_go is_port fs subs sc = Ok (sc ++ rsubs is_port fs subs).
Proof.
  intros IH. induction IH as [|s rest Hs _ IHrest]; intros W N sc F.
  - cbn [flat_go]. unfold rsubs. rewrite app_nil_r. reflexivity.
  - cbn [forallb] in W. apply andb_prop in W. destruct W as [Ws Wr]. cbn [map] in N. inversion N; subst.
    cbn [flat_go]. rewrite (Hs Ws). cbn [bind].
    rewrite add_subscope_ok.
    + cbn [bind]. rewrite IHrest; [rewrite rsubs_cons, <- app_assoc; reflexivity|assumption|assumption|].
      intros s' q Hs' Hq. rewrite map_app, in_app_iff, prefix_scope_fst. intros [G|G].
      * apply (F s' q); [right; exact Hs'|exact Hq|exact G].
      * apply in_map_iff in G. destruct G as [q' [E _]]. inversion E. apply H1. rewrite H0. apply in_map. exact Hs'.
    + rewrite rflat_paths. apply paths_NoDup. exact Ws.
    + intros q Hq. rewrite rflat_paths in Hq. apply F; [left; reflexivity|eapply paths_nonempty; eauto].
Qed.

(* on a well-formed tree the model's collision errors are unreachable and the result is the plain recursive flattening *)
Lemma flat_helper_rflat is_port t : wf_tree t = true -> forall fs, flat_helper is_port fs t = Ok (rflat is_port fs t).
Proof.
  induction t as [n c k r sigs subs IH] using btree_ind'. rewrite wf_tree_eq. intros W fs.
  apply andb_prop in W. destruct W as [W1 W2]. apply snodup_NoDup in W1. apply NoDup_app_iff in W1.
  destruct W1 as [Nsigs [Nsubs _]].
  rewrite flat_helper_eq, add_sigs_ok; [|exact Nsigs|intros l _ []]. cbn [bind app].
  rewrite (flat_go_ok is_port fs subs IH W2 Nsubs); [rewrite rflat_eq; reflexivity|].
  intros s q _ Hq G. apply in_map_iff in G. destruct G as [[p f] [E G]]. apply in_map_iff in G.
  destruct G as [l [G _]]. unfold mk_leaf in G. inversion G; subst. cbn [fst] in E. inversion E. subst q. apply Hq. reflexivity.
Qed.

(* ---------- the flattened signals against path navigation ---------- *)
Definition dummy_bt : btree := BT "" false O None [] [].

(* direction for a leaf reached through insts (root first), the root having been entered with flip state fs *)
Definition gdir (is_port fs : bool) (insts : list btree) (l : leaf) : dir :=
  if is_port then
    if lport l then (if xorb fs (Nat.odd (flips_on (tl insts))) then dir_flipped (ldir l) else ldir l)
    else match brole (last insts dummy_bt) with
         | None => DNone
         | Some r => if role_is r (lsrc l) then DOut else if role_is r (ldest l) then DIn else DNone
         end
  else DNone.

Definition gsig (is_port fs : bool) (insts : list btree) (l : leaf) : fsig :=
  {| fname := lname l; fwidth := lwidth l; fvis := if is_port then VPort else VInternal; fdir := gdir is_port fs insts l |}.

Lemma find_leaf_In sigs l : NoDup (map lname sigs) -> In l sigs -> find_leaf (lname l) sigs = Some l.
Proof.
  induction sigs as [|x xs IH]; [contradiction|]. cbn [map find_leaf]. intros N [->|H].
  - rewrite String.eqb_refl. reflexivity.
  - inversion N; subst. destruct (String.eqb (lname x) (lname l)) eqn:E.
    + apply String.eqb_eq in E. exfalso. apply H2. rewrite E. apply in_map. exact H.
    + apply IH; assumption.
Qed.

Lemma find_sub_In subs s : NoDup (map bname subs) -> In s subs -> find_sub (bname s) subs = Some s.
Proof.
  induction subs as [|x xs IH]; [contradiction|]. cbn [map find_sub]. intros N [->|H].
  - rewrite String.eqb_refl. reflexivity.
  - inversion N; subst. destruct (String.eqb (bname x) (bname s)) eqn:E.
    + apply String.eqb_eq in E. exfalso. apply H2. rewrite E. apply in_map. exact H.
    + apply IH; assumption.
Qed.

Lemma inst_flipped_odd t : inst_flipped t = Nat.odd (inst_flips t).
Proof.
  unfold inst_flipped, inst_flips. destruct t as [n c k r sigs subs]. cbn [bcflip bnflip].
  induction k as [|k IH].
  - destruct c; reflexivity.
  - change (Nat.iter (S k) negb c) with (negb (Nat.iter k negb c)). rewrite IH. rewrite Nat.add_succ_r, Nat.odd_succ, <- Nat.negb_odd. reflexivity.
Qed.

Lemma rsubs_in is_port fs subs p f :
  In (p, f) (rsubs is_port fs subs) ->
  exists s q, In s subs /\ p = bname s :: q /\ In (q, f) (rflat is_port (if inst_flipped s then negb fs else fs) s).
Proof.
  induction subs as [|s rest IH]; [contradiction|]. rewrite rsubs_cons, in_app_iff. intros [H|H].
  - unfold prefix_scope in H. apply in_map_iff in H. destruct H as [[q g] [E Hq]]. cbn [fst snd] in E. inversion E; subst.
    exists s, q. split; [left; reflexivity|]. split; [reflexivity|exact Hq].
  - destruct (IH H) as [s' [q [Hs' E]]]. exists s', q. split; [right; exact Hs'|exact E].
Qed.

Lemma rflat_walk is_port t : wf_tree t = true -> forall fs p f, In (p, f) (rflat is_port fs t) ->
  exists rest l, walk p t = Some (t :: rest, l) /\ f = gsig is_port fs (t :: rest) l.
Proof.
  induction t as [n c k r sigs subs IH] using btree_ind'. rewrite wf_tree_eq. intros W fs p f H.
  apply andb_prop in W. destruct W as [W1 W2]. apply snodup_NoDup in W1. apply NoDup_app_iff in W1.
  destruct W1 as [Nsigs [Nsubs _]].
  rewrite rflat_eq, in_app_iff in H. destruct H as [H|H].
  - apply in_map_iff in H. destruct H as [l [E Hl]]. unfold mk_leaf in E. inversion E; subst. clear E.
    exists [], l. cbn [walk bsigs]. rewrite (find_leaf_In _ _ Nsigs Hl). split; [reflexivity|].
    unfold gsig, gdir, leaf_vis_dir. cbn [tl flips_on fold_right last brole Nat.odd]. rewrite xorb_false_r.
    destruct is_port; reflexivity.
  - destruct (rsubs_in _ _ _ _ _ H) as [s [q [Hs [-> Hq]]]].
    rewrite Forall_forall in IH. rewrite forallb_forall in W2.
    destruct (IH s Hs (W2 s Hs) _ _ _ Hq) as [rest [l [Hw ->]]].
    exists (s :: rest), l. split.
    + destruct q as [|x q]; [destruct s; discriminate|].
      change (walk (bname s :: x :: q) (BT n c k r sigs subs))
        with (match find_sub (bname s) subs with
              | Some s0 => match walk (x :: q) s0 with Some (is, l0) => Some (BT n c k r sigs subs :: is, l0) | None => None end
              | None => None end).
      rewrite (find_sub_In _ _ Nsubs Hs), Hw. reflexivity.
    + unfold gsig. f_equal. unfold gdir. cbn [tl].
      change (last (BT n c k r sigs subs :: s :: rest) dummy_bt) with (last (s :: rest) dummy_bt).
      destruct is_port; [|reflexivity]. destruct (lport l); [|reflexivity].
      cbn [flips_on fold_right]. fold (flips_on rest). rewrite Nat.odd_add, <- inst_flipped_odd.
      destruct (inst_flipped s), fs, (Nat.odd (flips_on rest)); reflexivity.
Qed.

(* every navigable path is listed (no well-formedness needed) *)
Lemma find_leaf_some n sigs l : find_leaf n sigs = Some l -> In l sigs /\ lname l = n.
Proof.
  induction sigs as [|x xs IH]; [discriminate|]. cbn [find_leaf]. destruct (String.eqb (lname x) n) eqn:E.
  - intros H. inversion H; subst. apply String.eqb_eq in E. split; [left; reflexivity|exact E].
  - intros H. destruct (IH H). split; [right; assumption|assumption].
Qed.

Lemma find_sub_some n subs s : find_sub n subs = Some s -> In s subs /\ bname s = n.
Proof.
  induction subs as [|x xs IH]; [discriminate|]. cbn [find_sub]. destruct (String.eqb (bname x) n) eqn:E.
  - intros H. inversion H; subst. apply String.eqb_eq in E. split; [left; reflexivity|exact E].
  - intros H. destruct (IH H). split; [right; assumption|assumption].
Qed.

Lemma psubs_intro subs s q : In s subs -> In q (paths s) -> In (bname s :: q) (psubs subs).
Proof.
  induction subs as [|x xs IH]; [contradiction|]. rewrite psubs_cons, in_app_iff. intros [->|H] Hq.
  - left. apply in_map. exact Hq.
  - right. apply IH; assumption.
Qed.

Lemma walk_paths t : forall p x, walk p t = Some x -> In p (paths t).
Proof.
  induction t as [n c k r sigs subs IH] using btree_ind'. intros p x H. rewrite paths_eq, in_app_iff.
  destruct p as [|a [|b q]]; [discriminate| |].
  - left. cbn [walk bsigs] in H. destruct (find_leaf a sigs) eqn:E; [|discriminate].
    apply find_leaf_some in E. destruct E as [Hl <-]. apply in_map_iff. exists l. split; [reflexivity|exact Hl].
  - right.
    change (walk (a :: b :: q) (BT n c k r sigs subs))
      with (match find_sub a subs with
            | Some s0 => match walk (b :: q) s0 with Some (is, l0) => Some (BT n c k r sigs subs :: is, l0) | None => None end
            | None => None end) in H.
    destruct (find_sub a subs) as [s|] eqn:E; [|discriminate]. apply find_sub_some in E. destruct E as [Hs <-].
    destruct (walk (b :: q) s) as [y|] eqn:Ew; [|discriminate].
    rewrite Forall_forall in IH. apply psubs_intro; [exact Hs|]. eapply IH; eauto.
Qed.

(* ---------- flatname ---------- *)
Lemma flatname_loop_spec fuel : forall name avoid maxlen nm,
  flatname_loop fuel name avoid maxlen = Ok nm ->
  exists k, nm = (name ++ underscores k)%string /\ smem nm avoid = false /\
            (forall j, (j < k)%nat -> smem (name ++ underscores j)%string avoid = true) /\
            Z.of_nat (String.length nm) <= maxlen.
Proof.
  induction fuel as [|f IH]; intros name avoid maxlen nm; cbn [flatname_loop]; [discriminate|].
  destruct (maxlen <? Z.of_nat (String.length name)) eqn:El; [discriminate|].
  destruct (smem name avoid) eqn:Em.
  - intros H. apply IH in H. destruct H as [k [E [Hf [Hm Hl]]]]. exists (S k).
    rewrite append_assoc in E. split; [exact E|]. split; [exact Hf|]. split; [|exact Hl].
    intros j Hj. destruct j as [|j].
    + cbn [underscores]. rewrite append_nil_r. exact Em.
    + cbn [underscores]. rewrite <- append_assoc. apply Hm. lia.
  - intros H. inversion H; subst. exists O. cbn [underscores]. rewrite append_nil_r.
    split; [reflexivity|]. split; [exact Em|]. split; [intros j Hj; lia|lia].
Qed.

(* the fuel never runs out: every iteration lengthens the name, and names longer than maxlen are rejected *)
Lemma flatname_loop_fuel fuel : forall name avoid maxlen,
  (0 < fuel)%nat -> Z.of_nat fuel + Z.of_nat (String.length name) > maxlen + 1 ->
  flatname_loop fuel name avoid maxlen <> Error EFuel.
Proof.
  induction fuel as [|f IH]; intros name avoid maxlen Hpos H; [lia|]. cbn [flatname_loop].
  destruct (maxlen <? Z.of_nat (String.length name)) eqn:El; [discriminate|].
  destruct (smem name avoid); [|discriminate].
  apply IH; rewrite ?length_append; cbn [String.length]; lia.
Qed.

Lemma flatname_no_fuel segs avoid maxlen : 0 <= maxlen -> flatname segs avoid maxlen <> Error EFuel.
Proof. intros H. unfold flatname. apply flatname_loop_fuel; lia. Qed.

(* no spurious failure: a free name that fits is returned as is *)
Lemma flatname_free segs avoid maxlen :
  0 <= maxlen -> smem (join_us segs) avoid = false -> Z.of_nat (String.length (join_us segs)) <= maxlen ->
  flatname segs avoid maxlen = Ok (join_us segs).
Proof.
  intros H0 Hf Hl. unfold flatname. destruct (Z.to_nat (maxlen + 2)) eqn:E; [lia|]. cbn [flatname_loop].
  assert (maxlen <? Z.of_nat (String.length (join_us segs)) = false) as -> by lia. rewrite Hf. reflexivity.
Qed.

Lemma join_us_cons inst p : p <> [] -> join_us [inst; to_name p] = base_name inst p.
Proof. unfold base_name, to_name. destruct p; [congruence|]. intros _. reflexivity. Qed.

Lemma Forall2_impl' {A B} (P Q : A -> B -> Prop) l l' : (forall a b, P a b -> Q a b) -> Forall2 P l l' -> Forall2 Q l l'.
Proof. intros H F. induction F; constructor; auto. Qed.

(* ---------- name_scope: the renaming loop of replace_bundle_inst ---------- *)
Definition renamed (inst : string) (taken : list string) (e e' : path * fsig) : Prop :=
  fst e' = fst e /\ fwidth (snd e') = fwidth (snd e) /\ fvis (snd e') = fvis (snd e) /\ fdir (snd e') = fdir (snd e) /\
  exists k, fname (snd e') = (join_us [inst; to_name (fst e)] ++ underscores k)%string /\
            ~ In (fname (snd e')) taken /\
            (forall j, (j < k)%nat -> In (join_us [inst; to_name (fst e)] ++ underscores j)%string taken).

(* each signal is named against the namespace extended by the names given before it *)
Inductive renamed_all (inst : string) : list string -> scope -> scope -> Prop :=
| RA_nil ns : renamed_all inst ns [] []
| RA_cons ns e e' sc sc' : renamed inst ns e e' -> renamed_all inst (ns ++ [fname (snd e')]) sc sc' ->
                           renamed_all inst ns (e :: sc) (e' :: sc').

Lemma name_scope_spec inst maxlen sc : forall ns acc out ns',
  name_scope inst maxlen sc ns acc = Ok (out, ns') ->
  exists sc', out = acc ++ sc' /\ renamed_all inst ns sc sc' /\ ns' = ns ++ map (fun e => fname (snd e)) sc'.
Proof.
  induction sc as [|[p f] rest IH]; intros ns acc out ns'; cbn [name_scope].
  - intros H. inversion H; subst. exists []. rewrite !app_nil_r. repeat split. constructor.
  - destruct (flatname [inst; to_name p] ns maxlen) as [nm|e] eqn:E; cbn [bind]; [|discriminate].
    intros H. apply IH in H. destruct H as [sc' [-> [R ->]]].
    unfold flatname in E. apply flatname_loop_spec in E. destruct E as [k [En [Hf [Hm _]]]].
    eexists (_ :: sc'). split; [rewrite <- app_assoc; reflexivity|]. split.
    + constructor; [|exact R]. cbn [fst snd fname fwidth fvis fdir]. repeat split. exists k.
      split; [exact En|]. split; [apply smem_false; exact Hf|]. intros j Hj. apply smem_In. apply Hm. exact Hj.
    + cbn [map snd fname]. rewrite <- app_assoc. reflexivity.
Qed.

Lemma renamed_all_fst inst ns sc sc' : renamed_all inst ns sc sc' -> map fst sc' = map fst sc.
Proof. induction 1; [reflexivity|]. cbn [map]. destruct H as [-> _]. f_equal. assumption. Qed.

Definition snames (sc : scope) : list string := map (fun e => fname (snd e)) sc.

Lemma renamed_all_fresh inst ns sc sc' : renamed_all inst ns sc sc' ->
  NoDup (snames sc') /\ (forall n, In n (snames sc') -> ~ In n ns).
Proof.
  induction 1 as [|ns e e' sc sc' R RA [N F]]; [split; [constructor|contradiction]|].
  destruct R as [_ [_ [_ [_ [k [_ [Hf _]]]]]]]. unfold snames in *. cbn [map]. split.
  - constructor; [|exact N]. intros G. apply (F _ G). apply in_or_app. right. left. reflexivity.
  - intros n [<-|G]; [exact Hf|]. intros G'. apply (F _ G). apply in_or_app. left. exact G'.
Qed.

(* order-independent reading: every shorter candidate is taken by the namespace or by another flattened name *)
Definition renamed_final (inst : string) (taken : list string) (e e' : path * fsig) : Prop :=
  fst e' = fst e /\ fwidth (snd e') = fwidth (snd e) /\ fvis (snd e') = fvis (snd e) /\ fdir (snd e') = fdir (snd e) /\
  exists k, fname (snd e') = (join_us [inst; to_name (fst e)] ++ underscores k)%string /\
            (forall j, (j < k)%nat -> In (join_us [inst; to_name (fst e)] ++ underscores j)%string taken).

Lemma renamed_all_minimal inst ns sc sc' : renamed_all inst ns sc sc' ->
  Forall2 (renamed_final inst (ns ++ snames sc')) sc sc'.
Proof.
  induction 1 as [|ns e e' sc sc' R RA IH]; [constructor|]. constructor.
  - destruct R as [R1 [R2 [R3 [R4 [k [En [_ Hm]]]]]]]. repeat split; try assumption. exists k. split; [exact En|].
    intros j Hj. apply in_or_app. left. apply Hm. exact Hj.
  - eapply Forall2_impl'; [|exact IH]. intros a b [R1 [R2 [R3 [R4 [k [En Hm]]]]]]. repeat split; try assumption.
    exists k. split; [exact En|].
    intros j Hj. specialize (Hm j Hj). unfold snames. cbn [map]. rewrite <- app_assoc in Hm. exact Hm.
Qed.

Lemma Forall2_in_r {A B} (R : A -> B -> Prop) l l' y : Forall2 R l l' -> In y l' -> exists x, In x l /\ R x y.
Proof.
  induction 1; [contradiction|]. intros [<-|Hy].
  - exists x. split; [left; reflexivity|assumption].
  - destruct (IHForall2 Hy) as [x' [Hx' Rx']]. exists x'. split; [right; assumption|assumption].
Qed.

(* ---------- the threaded flip state is the parity of the flips on the path; the role test is the specification's ---------- *)
Lemma gdir_spec port t rest l : gdir port (inst_flipped t) (t :: rest) l = spec_dir port (t :: rest) l.
Proof.
  unfold gdir, spec_dir. destruct port; [|reflexivity]. cbn [negb tl].
  destruct (lport l).
  - cbn [flips_on fold_right]. fold (flips_on rest). rewrite <- Nat.negb_odd, Nat.odd_add, <- inst_flipped_odd.
    destruct (xorb (inst_flipped t) (Nat.odd (flips_on rest))); cbn [negb]; destruct (ldir l); reflexivity.
  - change (BT "" false 0%nat None [] []) with dummy_bt.
    destruct (brole (last (t :: rest) dummy_bt)) as [r|]; [|reflexivity].
    unfold role_is, opt_is. destruct (lsrc l) as [x|], (ldest l) as [y|]; rewrite ?(String.eqb_sym r); reflexivity.
Qed.

(* ---------- replace_bundle_inst against the path specification ---------- *)
Lemma replace_bundle_inst_spec maxlen port t ns sc ns' :
  wf_tree t = true -> replace_bundle_inst maxlen port t ns = Ok (sc, ns') ->
  map fst sc = paths t /\ NoDup (snames sc) /\ (forall n, In n (snames sc) -> ~ In n ns) /\ ns' = ns ++ snames sc /\
  forall p f, In (p, f) sc ->
    exists rest l k, walk p t = Some (t :: rest, l) /\ fwidth f = lwidth l /\ fvis f = spec_vis port /\
                     fdir f = spec_dir port (t :: rest) l /\
                     fname f = (base_name (bname t) p ++ underscores k)%string /\
                     forall j, (j < k)%nat -> In (base_name (bname t) p ++ underscores j)%string (ns ++ snames sc).
Proof.
  intros W H. unfold replace_bundle_inst, flatten_bundle_inst in H. rewrite (flat_helper_rflat port t W) in H. cbn [bind] in H.
  apply name_scope_spec in H. destruct H as [sc' [E [RA ->]]]. cbn [app] in E. subst sc'.
  pose proof (renamed_all_fst _ _ _ _ RA) as Hfst. pose proof (renamed_all_fresh _ _ _ _ RA) as [N F].
  pose proof (renamed_all_minimal _ _ _ _ RA) as M.
  split; [rewrite Hfst; apply rflat_paths|]. split; [exact N|]. split; [exact F|]. split; [reflexivity|].
  intros p f Hin. destruct (Forall2_in_r _ _ _ _ M Hin) as [[p0 f0] [Hin0 [R1 [R2 [R3 [R4 [k [En Hm]]]]]]]].
  cbn [fst snd] in *. subst p0.
  destruct (rflat_walk port t W _ _ _ Hin0) as [rest [l [Hw ->]]].
  assert (Hp : p <> []) by (eapply paths_nonempty; eapply walk_paths; eauto).
  rewrite (join_us_cons _ _ Hp) in En, Hm.
  exists rest, l, k. split; [exact Hw|]. split; [exact R2|]. split; [rewrite R3; destruct port; reflexivity|].
  split; [rewrite R4; cbn [gsig fdir]; apply gdir_spec|]. split; [exact En|exact Hm].
Qed.

Lemma dir_eqb_refl d : dir_eqb d d = true. Proof. destruct d; reflexivity. Qed.
Lemma vis_eqb_refl v : vis_eqb v v = true. Proof. destruct v; reflexivity. Qed.
Lemma dir_eqb_eq a b : dir_eqb a b = true -> a = b. Proof. destruct a, b; simpl; congruence. Qed.
Lemma vis_eqb_eq a b : vis_eqb a b = true -> a = b. Proof. destruct a, b; simpl; congruence. Qed.

(* the model's output passes the executable specification that the correspondence run applies to the implementation *)
Lemma replace_bundle_inst_scope_ok maxlen port t ns sc ns' :
  wf_tree t = true -> replace_bundle_inst maxlen port t ns = Ok (sc, ns') -> scope_ok port t ns sc = true.
Proof.
  intros W H. destruct (replace_bundle_inst_spec _ _ _ _ _ _ W H) as [Hfst [N [F [_ L]]]].
  unfold scope_ok. fold (snames sc). rewrite !andb_true_iff. repeat split.
  - apply forallb_forall. intros p Hp. destruct (passoc p sc) eqn:E; [reflexivity|].
    apply passoc_None in E. rewrite Hfst in E. contradiction.
  - rewrite <- Hfst, map_length. apply Nat.eqb_refl.
  - apply snodup_NoDup. exact N.
  - apply forallb_forall. intros [p f] Hin. destruct (L p f Hin) as [rest [l [k [Hw [Hwd [Hv [Hd [Hn Hm]]]]]]]].
    unfold leaf_ok. rewrite Hw, Hwd, Hv, Hd, Z.eqb_refl, vis_eqb_refl, dir_eqb_refl, Hn, us_suffix_app. cbn [andb].
    rewrite andb_true_iff. split.
    + apply forallb_forall. intros j Hj. apply in_seq in Hj. apply smem_In. apply Hm. lia.
    + rewrite negb_true_iff. apply smem_false. rewrite <- Hn. apply F. unfold snames.
      apply (in_map (fun e => fname (snd e)) _ _ Hin).
Qed.

(* and the executable specification means what it says *)
Lemma scope_ok_sound port t taken sc : scope_ok port t taken sc = true ->
  (forall p, In p (paths t) -> exists f, passoc p sc = Some f) /\ length sc = length (paths t) /\ NoDup (snames sc) /\
  forall p f, In (p, f) sc ->
    exists insts l k, walk p t = Some (insts, l) /\ fwidth f = lwidth l /\ fvis f = spec_vis port /\
                      fdir f = spec_dir port insts l /\ fname f = (base_name (bname t) p ++ underscores k)%string /\
                      ~ In (fname f) taken /\
                      forall j, (j < k)%nat -> In (base_name (bname t) p ++ underscores j)%string (taken ++ snames sc).
Proof.
  unfold scope_ok. fold (snames sc). rewrite !andb_true_iff. intros [[[H1 H2] H3] H4]. repeat split.
  - intros p Hp. rewrite forallb_forall in H1. specialize (H1 p Hp). destruct (passoc p sc); [eauto|discriminate].
  - apply Nat.eqb_eq. exact H2.
  - apply snodup_NoDup. exact H3.
  - intros p f Hin. rewrite forallb_forall in H4. specialize (H4 _ Hin). unfold leaf_ok in H4.
    destruct (walk p t) as [[insts l]|]; [|discriminate]. rewrite !andb_true_iff in H4.
    destruct H4 as [[[[Hw Hv] Hd] Hn] Hf].
    destruct (us_suffix (base_name (bname t) p) (fname f)) as [k|] eqn:E; [|discriminate].
    exists insts, l, k. split; [reflexivity|]. split; [lia|]. split; [apply vis_eqb_eq; exact Hv|].
    split; [apply dir_eqb_eq; exact Hd|]. split; [apply us_suffix_sound; exact E|].
    split; [apply smem_false; apply negb_true_iff; exact Hf|].
    intros j Hj. rewrite forallb_forall in Hn. apply smem_In. apply Hn. apply in_seq. lia.
Qed.

(* ---------- connections ---------- *)
Lemma replace_bundle_conn_spec {A} (child : scope) (parent : list (path * A)) cs :
  replace_bundle_conn child parent = Ok cs ->
  Forall2 (fun e c => fst c = fname (snd e) /\ passoc (fst e) parent = Some (snd c)) child cs.
Proof.
  revert cs. induction child as [|[p f] rest IH]; intros cs; cbn [replace_bundle_conn].
  - intros H. inversion H. constructor.
  - destruct (passoc p parent) as [s|] eqn:E; [|discriminate].
    destruct (replace_bundle_conn rest parent) as [cs'|]; cbn [bind]; [|discriminate].
    intros H. inversion H; subst. constructor; [split; [reflexivity|exact E]|apply IH; reflexivity].
Qed.

Lemma replace_bundle_conn_total {A} (child : scope) (parent : list (path * A)) :
  (forall p, In p (map fst child) -> In p (map fst parent)) -> exists cs, replace_bundle_conn child parent = Ok cs.
Proof.
  induction child as [|[p f] rest IH]; intros H; cbn [replace_bundle_conn]; [eauto|].
  destruct (passoc p parent) as [s|] eqn:E.
  - destruct IH as [cs Hcs]; [intros q Hq; apply H; right; exact Hq|]. rewrite Hcs. cbn [bind]. eauto.
  - apply passoc_None in E. exfalso. apply E. apply H. left. reflexivity.
Qed.

Lemma replace_bundle_conn_missing {A} (child : scope) (parent : list (path * A)) p :
  In p (map fst child) -> ~ In p (map fst parent) -> replace_bundle_conn child parent = Error EMissing.
Proof.
  induction child as [|[q f] rest IH]; [contradiction|]. cbn [map fst replace_bundle_conn]. intros [->|H] Hn.
  - apply passoc_None in Hn. rewrite Hn. reflexivity.
  - destruct (passoc q parent); [|reflexivity]. rewrite (IH H Hn). reflexivity.
Qed.

(* the repaired connection step: members the port does not have are refused, everything else is the pairing *)
Lemma extra_members_nil {A} (child : scope) (parent : list (path * A)) :
  extra_members child parent = [] <-> (forall p, In p (map fst parent) -> In p (map fst child)).
Proof.
  unfold extra_members. split.
  - intros H p Hp. destruct (pmem p child) eqn:E.
    + unfold pmem in E. destruct (passoc p child) eqn:E2; [|discriminate].
      destruct (passoc_None p child) as [_ X]. destruct (in_dec (list_eq_dec String.string_dec) p (map fst child)) as [I|I]; [exact I|].
      rewrite (X I) in E2. discriminate.
    + exfalso. assert (In p (filter (fun p => negb (pmem p child)) (map fst parent))) by (apply filter_In; split; [exact Hp|rewrite E; reflexivity]).
      rewrite H in H0. exact H0.
  - intros H. destruct (filter (fun p => negb (pmem p child)) (map fst parent)) as [|q l] eqn:E; [reflexivity|].
    assert (Hq : In q (filter (fun p => negb (pmem p child)) (map fst parent))) by (rewrite E; left; reflexivity).
    apply filter_In in Hq. destruct Hq as [Hq1 Hq2]. apply H in Hq1. unfold pmem in Hq2.
    destruct (passoc q child) eqn:E2; [discriminate|]. apply passoc_None in E2. contradiction.
Qed.

Lemma replace_bundle_conn_checked_ok {A} (child : scope) (parent : list (path * A)) cs :
  replace_bundle_conn_checked child parent = Ok cs ->
  replace_bundle_conn child parent = Ok cs /\ (forall p, In p (map fst parent) -> In p (map fst child)).
Proof.
  unfold replace_bundle_conn_checked. destruct (extra_members child parent) eqn:E; [|discriminate].
  intros H. split; [exact H|apply extra_members_nil; exact E].
Qed.

Lemma replace_bundle_conn_checked_extra {A} (child : scope) (parent : list (path * A)) p :
  In p (map fst parent) -> ~ In p (map fst child) -> replace_bundle_conn_checked child parent = Error EExtra.
Proof.
  intros Hp Hn. unfold replace_bundle_conn_checked. destruct (extra_members child parent) eqn:E; [|reflexivity].
  exfalso. apply Hn. apply (proj1 (extra_members_nil child parent) E). exact Hp.
Qed.

Lemma replace_bundle_conn_checked_total {A} (child : scope) (parent : list (path * A)) :
  (forall p, In p (map fst child) <-> In p (map fst parent)) -> exists cs, replace_bundle_conn_checked child parent = Ok cs.
Proof.
  intros H. unfold replace_bundle_conn_checked.
  rewrite (proj2 (extra_members_nil child parent)) by (intros p Hp; apply H; exact Hp).
  apply replace_bundle_conn_total. intros p Hp. apply H. exact Hp.
Qed.

Lemma sassoc_NoDup k v (l : list (string * string)) : NoDup (map fst l) -> In (k, v) l -> sassoc k l = Some v.
Proof.
  induction l as [|[a b] xs IH]; [contradiction|]. cbn [map fst sassoc]. intros N [H|H].
  - inversion H; subst. rewrite String.eqb_refl. reflexivity.
  - inversion N; subst. destruct (String.eqb a k) eqn:E.
    + apply String.eqb_eq in E. subst. exfalso. apply H2. apply (in_map fst) in H. exact H.
    + apply IH; assumption.
Qed.

Lemma Forall2_length' {A B} (R : A -> B -> Prop) l l' : Forall2 R l l' -> length l = length l'.
Proof. induction 1; simpl; congruence. Qed.

Lemma Forall2_in_l {A B} (R : A -> B -> Prop) l l' x : Forall2 R l l' -> In x l -> exists y, In y l' /\ R x y.
Proof.
  induction 1; [contradiction|]. intros [<-|Hx].
  - exists y. split; [left; reflexivity|assumption].
  - destruct (IHForall2 Hx) as [y' [Hy' Ry']]. exists y'. split; [right; assumption|assumption].
Qed.

(* the model's connections pass the executable connection specification *)
Lemma replace_bundle_conn_conns_ok (child : scope) (parent : list (path * string)) cs :
  NoDup (snames child) -> replace_bundle_conn child parent = Ok cs -> conns_ok child parent cs = true.
Proof.
  intros N H. apply replace_bundle_conn_spec in H. unfold conns_ok. rewrite andb_true_iff. split.
  - assert (Hfst : map fst cs = snames child).
    { clear N. induction H as [|e c l l' [E _] _ IH]; [reflexivity|]. unfold snames in *. cbn [map]. rewrite E, IH. reflexivity. }
    apply forallb_forall. intros [p f] Hin. destruct (Forall2_in_l _ _ _ _ H Hin) as [[n s] [Hc [E1 E2]]].
    cbn [fst snd] in *. rewrite E2. subst n. rewrite (sassoc_NoDup (fname f) s cs); [apply String.eqb_refl| |exact Hc].
    rewrite Hfst. exact N.
  - apply Nat.eqb_eq. symmetry. eapply Forall2_length'; eauto.
Qed.

(* resolve_path to a sub-bundle: the sub-scope below `pre`, re-keyed relative to it *)
Lemma strip_prefix_app pre p : strip_prefix pre (pre ++ p) = Some p.
Proof. induction pre as [|x pre IH]; [reflexivity|]. cbn [app strip_prefix]. rewrite String.eqb_refl. exact IH. Qed.

Lemma strip_prefix_some pre p q : strip_prefix pre p = Some q -> p = pre ++ q.
Proof.
  revert p. induction pre as [|x pre IH]; intros p; cbn [strip_prefix].
  - intros H. inversion H. reflexivity.
  - destruct p as [|y p]; [discriminate|]. destruct (String.eqb x y) eqn:E; [|discriminate].
    apply String.eqb_eq in E. subst y. intros H. cbn [app]. f_equal. apply IH. exact H.
Qed.

Lemma subscope_passoc {A} pre (sc : list (path * A)) p : p <> [] -> passoc p (subscope pre sc) = passoc (pre ++ p) sc.
Proof.
  intros Hp. induction sc as [|[q a] rest IH]; [reflexivity|]. cbn [subscope passoc].
  destruct (strip_prefix pre q) as [[|x r]|] eqn:E.
  - apply strip_prefix_some in E. rewrite app_nil_r in E. subst q.
    destruct (path_eqb pre (pre ++ p)) eqn:E2; [|exact IH].
    apply path_eqb_eq in E2. rewrite <- (app_nil_r pre) in E2 at 1. apply app_inv_head in E2. congruence.
  - apply strip_prefix_some in E. subst q. cbn [passoc].
    destruct (path_eqb (x :: r) p) eqn:E2.
    + apply path_eqb_eq in E2. subst p. rewrite path_eqb_refl. reflexivity.
    + destruct (path_eqb (pre ++ x :: r) (pre ++ p)) eqn:E3; [|exact IH].
      apply path_eqb_eq in E3. apply app_inv_head in E3. subst p. rewrite path_eqb_refl in E2. discriminate.
  - destruct (path_eqb q (pre ++ p)) eqn:E2; [|exact IH].
    apply path_eqb_eq in E2. subst q. rewrite strip_prefix_app in E. discriminate.
Qed.

(* ---------- failure modes ---------- *)
Lemma flatname_loop_err fuel : forall name avoid maxlen e,
  flatname_loop fuel name avoid maxlen = Error e -> e = EName \/ e = EFuel.
Proof.
  induction fuel as [|f IH]; intros name avoid maxlen e; cbn [flatname_loop]; [intros H; inversion H; tauto|].
  destruct (maxlen <? Z.of_nat (String.length name)); [intros H; inversion H; tauto|].
  destruct (smem name avoid); [apply IH|discriminate].
Qed.

Lemma name_scope_err inst maxlen sc : 0 <= maxlen -> forall ns acc e,
  name_scope inst maxlen sc ns acc = Error e -> e = EName.
Proof.
  intros H0. induction sc as [|[p f] rest IH]; intros ns acc e; cbn [name_scope]; [discriminate|].
  destruct (flatname [inst; to_name p] ns maxlen) as [nm|e'] eqn:E; cbn [bind].
  - apply IH.
  - intros H. inversion H; subst. pose proof (flatname_no_fuel [inst; to_name p] ns maxlen H0) as NF.
    unfold flatname in E. destruct (flatname_loop_err _ _ _ _ _ E) as [->| ->]; [reflexivity|].
    exfalso. apply NF. exact E.
Qed.

Lemma replace_bundle_inst_err maxlen port t ns e :
  0 <= maxlen -> wf_tree t = true -> replace_bundle_inst maxlen port t ns = Error e -> e = EName.
Proof.
  intros H0 W H. unfold replace_bundle_inst, flatten_bundle_inst in H. rewrite (flat_helper_rflat port t W) in H.
  cbn [bind] in H. eapply name_scope_err; eauto.
Qed.

Definition by_path (sc : scope) : list (path * string) := map (fun e => (fst e, fname (snd e))) sc.

Lemma by_path_fst sc : map fst (by_path sc) = map fst sc.
Proof. unfold by_path. rewrite map_map. reflexivity. Qed.

Lemma by_path_passoc sc p : passoc p (by_path sc) = match passoc p sc with Some f => Some (fname f) | None => None end.
Proof.
  induction sc as [|[q f] rest IH]; [reflexivity|]. cbn [by_path map passoc fst snd]. destruct (path_eqb q p); [reflexivity|exact IH].
Qed.

(* two instances of the same definition (possibly in different modules, with different flips, roles, names) *)
Lemma connection_same_def maxlen tc tp pport nsc nsp csc psc nsc' nsp' :
  wf_tree tc = true -> wf_tree tp = true -> paths tc = paths tp ->
  replace_bundle_inst maxlen true tc nsc = Ok (csc, nsc') -> replace_bundle_inst maxlen pport tp nsp = Ok (psc, nsp') ->
  exists cs, replace_bundle_conn csc (by_path psc) = Ok cs /\ conns_ok csc (by_path psc) cs = true /\
             NoDup (map fst cs) /\
             forall p, In p (paths tc) -> exists fc fp, passoc p csc = Some fc /\ passoc p psc = Some fp /\ In (fname fc, fname fp) cs.
Proof.
  intros Wc Wp Hp Hc Hpp.
  destruct (replace_bundle_inst_spec _ _ _ _ _ _ Wc Hc) as [Hfc [Nc _]].
  destruct (replace_bundle_inst_spec _ _ _ _ _ _ Wp Hpp) as [Hfp _].
  destruct (replace_bundle_conn_total csc (by_path psc)) as [cs Hcs].
  { intros p Hin. rewrite by_path_fst, Hfp, <- Hp, <- Hfc. exact Hin. }
  exists cs. split; [exact Hcs|]. split; [apply replace_bundle_conn_conns_ok; assumption|].
  pose proof (replace_bundle_conn_spec _ _ _ Hcs) as F2.
  assert (Hfst : map fst cs = snames csc).
  { clear -F2. induction F2 as [|e c l l' [E _] _ IH]; [reflexivity|]. unfold snames in *. cbn [map]. rewrite E, IH. reflexivity. }
  split; [rewrite Hfst; exact Nc|].
  intros p Hin. rewrite <- Hfc in Hin. apply in_map_iff in Hin. destruct Hin as [[p' fc] [E Hin]]. cbn [fst] in E. subst p'.
  destruct (Forall2_in_l _ _ _ _ F2 Hin) as [[n s] [Hcin [E1 E2]]]. cbn [fst snd] in *.
  rewrite by_path_passoc in E2. destruct (passoc p psc) as [fp|] eqn:Ep; [|discriminate]. inversion E2; subst.
  exists fc, fp. split; [|split; [reflexivity|exact Hcin]].
  apply passoc_NoDup; [|exact Hin]. rewrite Hfc. apply paths_NoDup. exact Wc.
Qed.

(* every name produced respects the length limit *)
Lemma name_scope_len inst maxlen sc0 : forall ns acc out ns',
  name_scope inst maxlen sc0 ns acc = Ok (out, ns') ->
  (forall e, In e acc -> Z.of_nat (String.length (fname (snd e))) <= maxlen) ->
  forall e, In e out -> Z.of_nat (String.length (fname (snd e))) <= maxlen.
Proof.
  induction sc0 as [|[p f] rest IH]; intros ns acc out ns'; cbn [name_scope].
  - intros H. inversion H; subst. auto.
  - destruct (flatname [inst; to_name p] ns maxlen) as [nm|] eqn:E; cbn [bind]; [|discriminate].
    intros H Hacc. eapply IH; [exact H|]. intros e He. apply in_app_iff in He. destruct He as [He|[<-|[]]]; [auto|].
    cbn [snd fname]. unfold flatname in E. apply flatname_loop_spec in E. destruct E as [k [_ [_ [_ Hl]]]]. exact Hl.
Qed.

Lemma replace_bundle_inst_len maxlen port t ns sc ns' p f :
  replace_bundle_inst maxlen port t ns = Ok (sc, ns') -> In (p, f) sc -> Z.of_nat (String.length (fname f)) <= maxlen.
Proof.
  unfold replace_bundle_inst. destruct (flatten_bundle_inst port t) as [fl|]; cbn [bind]; [|discriminate].
  intros H Hin. apply (name_scope_len _ _ _ _ _ _ _ H (fun e (F : In e []) => match F with end) (p, f) Hin).
Qed.
