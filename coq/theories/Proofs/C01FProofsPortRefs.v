(* Proofs/C01FProofsPortRefs.v — STEP 1 of the extended ResolvePortRefs model on one valid module
   (Model/C01FElab.v:portrefs1_module).  Adapted from Proofs/C01EProofsPortRefs.v: the hypothesis frag_ok is gone, references may
   sit inside slices and concatenations; step 1 leaves those where they are, so the result is module_ok1 (leaves are signals
   or references) instead of module_ok, and the local target of a port bit may be a bit of another port.
   What a reference resolves to (the group's declared connection, or its implicit signal), what every port is connected
   to afterwards, all ports connected, no no-connect left. *)
From Coq Require Import String.
Require Import Hdl21.Base.PyInt Hdl21.Spec.PySlice Hdl21.Model.Slice Hdl21.Model.Resolve Hdl21.Base.Design
               Hdl21.Spec.Nets Hdl21.Spec.WfDesign Hdl21.Spec.C01ENets Hdl21.Model.C01EElab Hdl21.Model.C01FElab Hdl21.Spec.C01FNets Hdl21.Proofs.FunGraph
               Hdl21.Proofs.ResolveProofs Hdl21.Proofs.C01EProofsGraph Hdl21.Proofs.C01EProofsBase Hdl21.Proofs.C01EProofsPass
               Hdl21.Proofs.C01EProofsWfs Hdl21.Proofs.C01EProofsNames Hdl21.Proofs.C01FProofsGroups Hdl21.Proofs.C01FProofsPlan Hdl21.Proofs.C01FProofsWfs1.
Open Scope Z_scope.

Lemma refs_in_In m cx q : In q (refs_in m cx) <-> exists lw, In lw (sx_leaves cx) /\ assocN (fst lw) (m_leaves m) = Some (LRef (fst q) (snd q)).
Proof.
  unfold refs_in. rewrite in_flat_map. split.
  - intros [lw [Hin H]]. exists lw. split; [exact Hin|]. unfold leaf_ref in H.
    destruct (assocN (fst lw) (m_leaves m)) as [[s|i p|s]|]; [destruct H|destruct H as [<-|[]]; reflexivity|destruct H|destruct H].
  - intros [lw [Hin H]]. exists lw. split; [exact Hin|]. unfold leaf_ref. rewrite H. left. destruct q; reflexivity.
Qed.

Lemma as_ref_refs_in m cx q : as_ref m cx = Some q -> refs_in m cx = [q].
Proof.
  intros H. destruct (as_ref_shape _ _ _ H) as [id [w [-> Hl]]]. unfold refs_in. cbn [sx_leaves flat_map]. unfold leaf_ref. cbn [fst].
  rewrite Hl. destruct q; reflexivity.
Qed.

Lemma refs_to_pos m x c q : In x (m_insts m) -> In c (i_conns x) -> In q (refs_in m (snd c)) -> 0 < refs_to m (fst q) (snd q).
Proof.
  intros Hx Hc Hr. apply refs_in_In in Hr. destruct Hr as [[id w] [E Hl]]. cbn [fst] in Hl. unfold refs_to.
  assert (In (id, w) (filter (fun lw : N * Z => match assocN (fst lw) (m_leaves m) with
                            | Some (LRef i' p') => String.eqb (fst q) i' && String.eqb (snd q) p' | _ => false end)
             (concat (map (fun x0 : inst => concat (map (fun c0 : name * sx => sx_leaves (snd c0)) (i_conns x0))) (m_insts m))))) as Hin.
  { apply filter_In. split.
    - apply in_concat. exists (concat (map (fun c0 : name * sx => sx_leaves (snd c0)) (i_conns x))). split; [apply in_map_iff; eauto|].
      apply in_concat. exists (sx_leaves (snd c)). split; [apply in_map_iff; eauto|]. exact E.
    - cbn [fst]. rewrite Hl. rewrite !String.eqb_refl. reflexivity. }
  destruct (filter _ _) as [|y l]; [destruct Hin|]. unfold zlen. cbn [Datatypes.length]. lia.
Qed.

Section PRModule.
Variables (d : design) (ncn : list (N * name)) (km : nat) (m : module).
Hypothesis Hwm : wf_module d km m = Ok tt.
Hypothesis Hfrag : forall x c, In x (m_insts m) -> In c (i_conns x) -> conn_frag2 d m x c = true.
(* the ports of everything instantiated are at least one bit wide *)
Hypothesis Hpw : forall x ports pw, In x (m_insts m) -> target_ports d (i_of x) = Ok ports -> In pw ports -> 1 <= snd pw.
Variables (keys : list key) (allocs : list alloc) (names : list name).
Hypothesis Hkeys : all_keys d m = Ok keys.
Hypothesis Hplan : plan d ncn m keys (seeds2 m) [] = Ok allocs.
Hypothesis Hnames : alloc_names (map a_base allocs) (namespace m) = Ok names.

Let table := number_allocs (combine allocs names) (next_leaf m).

Lemma pr_find x : In x (m_insts m) -> find_inst (m_insts m) (i_name x) = Some x.
Proof. apply find_inst_unique. apply (g_insts_NoDup d km m Hwm). Qed.

Lemma pr_inst x : In x (m_insts m) -> exists ports, target_ports d (i_of x) = Ok ports /\ NoDup (map fst (i_conns x)) /\
  (forall c, In c (i_conns x) -> wf_conn d m x ports c = Ok tt) /\
  (forall pw, In pw ports -> assoc (fst pw) (i_conns x) = None -> 0 < refs_to m (i_name x) (fst pw)).
Proof.
  intros Hx. destruct (wf_module_inv _ _ _ Hwm) as [_ [_ [_ Hi]]]. destruct (wf_inst_inv _ _ _ _ (Hi x Hx)) as [_ H]. exact H.
Qed.

Lemma pr_assoc x c : In x (m_insts m) -> In c (i_conns x) -> assoc (fst c) (i_conns x) = Some (snd c).
Proof.
  intros Hx Hc. destruct (pr_inst x Hx) as [_ [_ [Hnd _]]]. destruct c as [p cx]. apply assoc_nodup_In'; assumption.
Qed.

(* a reference in a connection, at any depth: the referred port is in the universe of groups *)
Lemma pr_ref_target x c q : In x (m_insts m) -> In c (i_conns x) -> In q (refs_in m (snd c)) -> In q keys.
Proof.
  intros Hx Hc Hr. apply refs_in_In in Hr. destruct Hr as [lw [Hlw Hl]].
  destruct (pr_inst x Hx) as [ports [_ [_ [Hwc _]]]]. destruct (wf_conn_inv _ _ _ _ _ (Hwc c Hc)) as [w [_ [Hlv _]]].
  destruct (wf_leaf_inv _ _ _ (Hlv lw Hlw)) as [lf [Hlf Hk]]. rewrite Hl in Hlf. inversion Hlf; subst lf.
  destruct Hk as [x' [Hx' [Hn' Hw']]]. apply (keys_In d km m keys Hwm Hkeys). exists x', (snd lw).
  split; [exact Hx'|]. split; [unfold single; lia|exact Hw'].
Qed.

Lemma pr_mentioned q : In q (mentioned2 m) <-> exists x c, In x (m_insts m) /\ In c (i_conns x) /\ In q (refs_in m (snd c)).
Proof.
  unfold mentioned2. rewrite kdedupe_In. split.
  - intros [H _]. apply in_flat_map in H. destruct H as [x [Hx H]]. apply in_flat_map in H. destruct H as [c [Hc H]]. eauto.
  - intros [x [c [Hx [Hc Hr]]]]. split; [|intros []]. apply in_flat_map. exists x. split; [exact Hx|]. apply in_flat_map. exists c. split; [exact Hc|].
    exact Hr.
Qed.

Lemma pr_mentioned_whole x c q : In x (m_insts m) -> In c (i_conns x) -> as_ref m (snd c) = Some q -> In q (mentioned2 m).
Proof. intros Hx Hc Hr. apply pr_mentioned. exists x, c. split; [exact Hx|]. split; [exact Hc|]. rewrite (as_ref_refs_in _ _ _ Hr). left. reflexivity. Qed.

Lemma pr_insts_split x : In x (filter single (m_insts m) ++ filter (fun x => negb (single x)) (m_insts m)) <-> In x (m_insts m).
Proof.
  rewrite in_app_iff, !filter_In. split; [tauto|]. intros H. destruct (single x); [left|right]; auto.
Qed.

Lemma pr_seeds_ok : Forall (seed_ok m keys) (seeds2 m).
Proof.
  apply Forall_forall. intros s Hs. unfold seeds2 in Hs. apply in_flat_map in Hs. destruct Hs as [x [Hx Hs]]. apply pr_insts_split in Hx.
  unfold inst_seeds2 in Hs. apply in_app_or in Hs. destruct Hs as [Hs|Hs].
  - apply in_map_iff in Hs. destruct Hs as [q [<- Hq]]. apply filter_In in Hq. destruct Hq as [Hq _]. cbn [seed_ok].
    apply pr_mentioned in Hq. destruct Hq as [x' [c [Hx' [Hc Hr]]]]. eapply pr_ref_target; eassumption.
  - apply in_flat_map in Hs. destruct Hs as [c [Hc Hs]]. destruct (as_nc m (snd c)) as [site|] eqn:E; [|destruct Hs]. destruct Hs as [<-|[]].
    cbn [seed_ok]. split; [exact Hx|]. exists (snd c). split; [destruct c; exact Hc|exact E].
Qed.

Lemma pr_seed_ref q : In q (mentioned2 m) -> In (SRef q) (seeds2 m).
Proof.
  intros Hq. pose proof Hq as Hq'. apply pr_mentioned in Hq'. destruct Hq' as [x' [c [Hx' [Hc Hr]]]].
  pose proof (pr_ref_target x' c q Hx' Hc Hr) as Hk. apply (keys_In d km m keys Hwm Hkeys) in Hk. destruct Hk as [x [w [Hf _]]].
  destruct (find_inst_In _ _ _ Hf) as [Hx Hn]. unfold seeds2. apply in_flat_map. exists x. split; [apply pr_insts_split; exact Hx|].
  unfold inst_seeds2. apply in_or_app. left. apply in_map. apply filter_In. split; [exact Hq|]. rewrite Hn. apply String.eqb_refl.
Qed.

Lemma pr_seed_nc x c site : In x (m_insts m) -> In c (i_conns x) -> as_nc m (snd c) = Some site -> In (SNc x (fst c) site) (seeds2 m).
Proof.
  intros Hx Hc Hn. unfold seeds2. apply in_flat_map. exists x. split; [apply pr_insts_split; exact Hx|].
  unfold inst_seeds2. apply in_or_app. right. apply in_flat_map. exists c. split; [exact Hc|]. rewrite Hn. left. reflexivity.
Qed.

Definition plan_facts := plan_spec d ncn km m keys Hwm Hkeys (seeds2 m) [] allocs Hplan pr_seeds_ok.

(* ---- the table ---- *)
Lemma pr_names_len : Datatypes.length names = Datatypes.length allocs.
Proof. destruct (alloc_names_spec _ _ _ Hnames) as [H _]. rewrite map_length in H. exact H. Qed.

Lemma tbl_In id a nm : In (id, a, nm) table -> In a allocs /\ In nm names /\ (next_leaf m <= id)%N.
Proof.
  intros H. apply number_allocs_spec in H. destruct H as [H1 H2]. split; [eapply in_combine_l; exact H2|]. split; [eapply in_combine_r; exact H2|exact H1].
Qed.

Lemma tbl_of_alloc a : In a allocs -> exists id nm, In (id, a, nm) table.
Proof.
  intros Ha. destruct (combine_In_l' allocs names a (eq_sym pr_names_len) Ha) as [nm Hp].
  assert (In (a, nm) (map (fun e : N * alloc * name => (snd (fst e), snd e)) table)) as Hin by (unfold table; rewrite number_allocs_map; exact Hp).
  apply in_map_iff in Hin. destruct Hin as [[[id a'] nm'] [E Hin]]. cbn [fst snd] in E. inversion E; subst. eauto.
Qed.

Lemma tbl_names_NoDup : NoDup (map (fun e : N * alloc * name => snd e) table).
Proof.
  assert (map (fun e : N * alloc * name => snd e) table = names) as ->.
  { unfold table. replace (fun e : N * alloc * name => snd e) with (fun e : N * alloc * name => snd ((fun e => (snd (fst e), snd e)) e)) by reflexivity.
    rewrite <- map_map, number_allocs_map. apply map_snd_combine'. symmetry. exact pr_names_len. }
  apply (alloc_names_spec _ _ _ Hnames).
Qed.

Lemma tbl_name_fresh id a nm : In (id, a, nm) table -> ~ In nm (namespace m).
Proof. intros H. destruct (tbl_In _ _ _ H) as [_ [Hn _]]. apply (alloc_names_spec _ _ _ Hnames). exact Hn. Qed.

Definition leaves1 : list (N * leaf) := m_leaves m ++ map (fun e : N * alloc * name => (fst (fst e), LSig (snd e))) table.
Definition sigs1 : list (name * Z) := m_sigs m ++ map (fun e : N * alloc * name => (snd e, a_width (snd (fst e)))) table.

Lemma leaves1_old id lf : assocN id (m_leaves m) = Some lf -> assocN id leaves1 = Some lf.
Proof. intros H. unfold leaves1. rewrite assocN_app, H. reflexivity. Qed.

Lemma leaves1_new id a nm : In (id, a, nm) table -> assocN id leaves1 = Some (LSig nm).
Proof.
  intros H. unfold leaves1. rewrite assocN_app.
  assert (assocN id (m_leaves m) = None) as ->.
  { destruct (assocN id (m_leaves m)) as [lf|] eqn:E; [|reflexivity]. apply assocN_In in E. apply next_leaf_above in E.
    destruct (tbl_In _ _ _ H) as [_ [_ Hge]]. lia. }
  apply (assocN_map_unique (fun e : N * alloc * name => fst (fst e)) (fun e => LSig (snd e)) table (id, a, nm)); [|exact H].
  apply number_allocs_ids_NoDup.
Qed.

Definition sig_width1 (s : name) : option Z :=
  match assoc s (m_ports m) with Some w => Some w | None => assoc s sigs1 end.

Lemma sigw1_old s w : sig_width m s = Some w -> sig_width1 s = Some w.
Proof.
  unfold sig_width, sig_width1, sigs1. destruct (assoc s (m_ports m)); [tauto|]. intros H. rewrite assoc_app, H. reflexivity.
Qed.

Lemma sigw1_new id a nm : In (id, a, nm) table -> sig_width1 nm = Some (a_width a).
Proof.
  intros H. pose proof (tbl_name_fresh _ _ _ H) as Hf. unfold namespace in Hf. unfold sig_width1, sigs1.
  rewrite assoc_notin_None by (intros Hin; apply Hf; apply in_or_app; left; exact Hin).
  rewrite assoc_app. rewrite assoc_notin_None by (intros Hin; apply Hf; apply in_or_app; right; apply in_or_app; left; exact Hin).
  apply (assoc_map_unique (fun e : N * alloc * name => snd e) (fun e => a_width (snd (fst e))) table (id, a, nm) tbl_names_NoDup H).
Qed.

(* ---- groups that get an implicit signal ---- *)
Lemma members_In g x : In x (members m keys g) <-> In x keys /\ gid m keys x = Some g.
Proof.
  unfold members. rewrite filter_In. split; intros [H1 H2]; split; try exact H1.
  - destruct (gid m keys x) as [g'|]; [|discriminate]. apply key_eqb_eq in H2. congruence.
  - rewrite H2. apply key_eqb_eq. reflexivity.
Qed.

Lemma group_res_fresh g o namer : In g keys -> gid m keys g = Some g -> group_res m keys g = Ok (GFresh o namer) ->
  In o keys /\ conn key (nxt m) g o /\ In namer keys /\ conn key (nxt m) g namer.
Proof.
  intros Hg Hgg H. unfold group_res in H. destruct (attr_spec d km m keys Hwm Hkeys g Hg) as [Hr Cr].
  destruct (pconn m (attr m keys g)) as [cx|].
  - destruct (as_ref m cx).
    + destruct (members m keys g) as [|x t] eqn:Em; [discriminate|]. inversion H; subst o namer.
      split; [exact Hg|]. split; [apply c_refl|].
      pose proof (first_min_In x t) as Hin. rewrite <- Em in Hin. apply members_In in Hin. destruct Hin as [Hk Hgn].
      split; [exact Hk|]. apply (gid_spec d km m keys Hwm Hkeys _ _ Hk Hgn).
    + destruct (as_nc m cx); [discriminate|discriminate].
  - inversion H; subst o namer. auto.
Qed.

Lemma find_some_exists {A} (P : A -> bool) l x : In x l -> P x = true -> exists y, find P l = Some y.
Proof.
  induction l as [|z l IH]; intros Hin Hp; [destruct Hin|]. cbn [find]. destruct (P z) eqn:E; [eauto|].
  destruct Hin as [->|Hin]; [congruence|]. apply IH; assumption.
Qed.

(* a no-connected port is referred to by nothing, so no orbit of references ends in one *)
Lemma iter_reaches r : forall n q, In q keys -> Nat.iter n (nxt m) q = r -> q = r \/ exists q'', In q'' keys /\ next m q'' = Some r.
Proof.
  induction n as [|n IH]; intros q Hq H; [left; exact H|]. simpl in H.
  destruct (iter_keys d km m keys Hwm Hkeys n q Hq) as [Hz _]. set (z := Nat.iter n (nxt m) q) in *.
  unfold nxt in H. destruct (next m z) as [z'|] eqn:En; [subst z'; right; eauto|]. apply (IH q Hq). exact H.
Qed.

Lemma root_not_nc q r cx site : In q (mentioned2 m) -> In r keys -> conn key (nxt m) q r ->
  pconn m r = Some cx -> as_nc m cx = Some site -> False.
Proof.
  intros Hq Hr C Hp Hn. pose proof Hq as Hq2. apply pr_mentioned in Hq2. destruct Hq2 as [x0 [c0 [Hx0 [Hc0 Hr0]]]].
  pose proof (pr_ref_target x0 c0 q Hx0 Hc0 Hr0) as Hqk.
  assert (nxt m r = r) as Hfix.
  { unfold nxt, next. rewrite Hp. unfold as_ref, as_nc in *. destruct (leaf_at m cx) as [[s|i p|s]|]; try discriminate; reflexivity. }
  (* r is referred to *)
  assert (0 < refs_to m (fst r) (snd r)) as Hpos.
  { apply conn_meet in C. destruct C as [a [b E]]. rewrite (fixed_iter key (nxt m) r b Hfix) in E.
    destruct (iter_reaches r a q Hqk E) as [->|[q2 [Hq2 Hn2]]].
    - eapply refs_to_pos; eassumption.
    - apply (keys_In d km m keys Hwm Hkeys) in Hq2. destruct Hq2 as [x2 [w2 [Hf2 _]]]. destruct (find_inst_In _ _ _ Hf2) as [Hx2 _].
      unfold next, pconn in Hn2. rewrite Hf2 in Hn2. destruct (assoc (snd q2) (i_conns x2)) as [c2|] eqn:Ea; [|discriminate].
      apply (refs_to_pos m x2 (snd q2, c2) r Hx2 (assoc_In _ _ _ Ea)). cbn [snd]. rewrite (as_ref_refs_in _ _ _ Hn2). left. reflexivity. }
  (* but its own connection is a no-connect *)
  apply (keys_In d km m keys Hwm Hkeys) in Hr. destruct Hr as [xr [wr [Hfr _]]]. destruct (find_inst_In _ _ _ Hfr) as [Hxr Hnr].
  unfold pconn in Hp. rewrite Hfr in Hp. destruct (pr_inst xr Hxr) as [ports [_ [_ [Hc _]]]].
  specialize (Hc _ (assoc_In _ _ _ Hp)). destruct (wf_conn_inv _ _ _ _ _ Hc) as [w [_ [_ Hnc]]]. cbn [fst snd] in Hnc.
  rewrite <- as_nc_is_nc, Hn in Hnc. rewrite Hnr in Hnc. lia.
Qed.

(* what a reference to a port stands for after the pass *)
Inductive res_is (q : key) (g : key) (e : sx) : Prop :=
| res_src : pconn m (attr m keys g) = Some e -> as_ref m e = None -> as_nc m e = None -> res_is q g e
| res_fresh id a nm o : e = XSig id (a_width a) -> In (id, a, nm) table -> a_kind a = AGroup g o -> In o keys ->
    conn key (nxt m) g o -> key_width d m q = Ok (a_width a) -> res_is q g e.

Lemma pr_res q : In q (mentioned2 m) ->
  exists g e, In q keys /\ gid m keys q = Some g /\ In g keys /\ conn key (nxt m) g q /\ res m keys table q = Ok e /\ res_is q g e.
Proof.
  intros Hq. pose proof Hq as Hq2. apply pr_mentioned in Hq2. destruct Hq2 as [x0 [c0 [Hx0 [Hc0 Hr0]]]].
  pose proof (pr_ref_target x0 c0 q Hx0 Hc0 Hr0) as Hqk.
  destruct (gid_total d km m keys Hwm Hkeys q Hqk) as [g Hg]. destruct (gid_spec d km m keys Hwm Hkeys q g Hqk Hg) as [Hgk Cg].
  pose proof (gid_idem d km m keys Hwm Hkeys q g Hqk Hg) as Hgg.
  destruct (attr_spec d km m keys Hwm Hkeys g Hgk) as [Hrk Cr].
  assert (forall o namer, group_res m keys g = Ok (GFresh o namer) ->
            exists e, res m keys table q = Ok e /\ res_is q g e) as Hfresh.
  { intros o namer Hgr. destruct (group_res_fresh g o namer Hgk Hgg Hgr) as [Hok [Co [Hnk Cn]]].
    destruct plan_facts as [Hgood [_ [_ [Hcov _]]]].
    destruct (Hcov q g (pr_seed_ref q Hq) Hg) as [[]|[[cx Hsrc]|Hal]]; [congruence|].
    unfold alloc_groups in Hal. apply in_flat_map in Hal. destruct Hal as [a [Ha Hk]].
    destruct (a_kind a) as [g' o'|] eqn:Eka; [|destruct Hk]. destruct Hk as [->|[]].
    destruct (tbl_of_alloc a Ha) as [id [nm Ht]].
    destruct (find_some_exists (fun e : N * alloc * name => match a_kind (snd (fst e)) with AGroup g' _ => key_eqb g g' | ANc _ _ => false end) table (id, a, nm) Ht)
      as [[[id2 a2] nm2] Hfind]; [cbn [fst snd]; rewrite Eka; apply key_eqb_eq; reflexivity|].
    pose proof (find_some _ _ Hfind) as [Ht2 Hk2]. cbn [fst snd] in Hk2. destruct (a_kind a2) as [g2 o2|] eqn:Eka2; [|discriminate].
    apply key_eqb_eq in Hk2. subst g2. destruct (tbl_In _ _ _ Ht2) as [Ha2 _].
    rewrite Forall_forall in Hgood. pose proof (Hgood a2 Ha2) as G2. unfold alloc_good in G2. rewrite Eka2 in G2.
    destruct G2 as [_ [_ [namer2 [Hgr2 Hw2]]]]. rewrite Hgr in Hgr2. inversion Hgr2; subst o2 namer2.
    exists (XSig id2 (a_width a2)). split.
    - unfold res. rewrite Hg. cbn [ofopt bind]. rewrite Hgr. cbn [bind]. unfold find_group. rewrite Hfind. reflexivity.
    - eapply res_fresh; try eassumption; [reflexivity|].
      rewrite <- Hw2. apply (conn_width d km m keys Hwm Hkeys q namer Hqk Hnk). eapply c_trans; [apply c_sym; exact Cg|exact Cn]. }
  pose proof Hfresh as Hfresh'. unfold group_res in Hfresh'.
  destruct (pconn m (attr m keys g)) as [cx|] eqn:Ep.
  - destruct (as_ref m cx) as [q2|] eqn:Er.
    + destruct (members m keys g) as [|x t] eqn:Em.
      * exfalso. assert (In g (members m keys g)) as Hin by (apply members_In; auto). rewrite Em in Hin. destruct Hin.
      * destruct (Hfresh' _ _ eq_refl) as [e [He Hi]]. exists g, e. auto 10.
    + destruct (as_nc m cx) as [site|] eqn:En.
      * exfalso. apply (root_not_nc q (attr m keys g) cx site Hq Hrk); [eapply c_trans; [apply c_sym; exact Cg|exact Cr]|exact Ep|exact En].
      * exists g, cx. split; [exact Hqk|]. split; [exact Hg|]. split; [exact Hgk|]. split; [exact Cg|]. split.
        -- unfold res. rewrite Hg. cbn [ofopt bind]. unfold group_res. rewrite Ep, Er, En. reflexivity.
        -- apply res_src; assumption.
  - destruct (Hfresh' _ _ eq_refl) as [e [He Hi]]. exists g, e. auto 10.
Qed.

(* ---- every connection, after the pass ---- *)
Inductive conn1_is (x : inst) (c : name * sx) (e : sx) : Prop :=
| c1_ref q g : as_ref m (snd c) = Some q -> In q (mentioned2 m) -> In q keys -> gid m keys q = Some g -> In g keys ->
    conn key (nxt m) g q -> res m keys table q = Ok e -> res_is q g e -> conn1_is x c e
| c1_nc site id a nm w : as_ref m (snd c) = None -> as_nc m (snd c) = Some site -> e = XSig id (a_width a) ->
    In (id, a, nm) table -> a_kind a = ANc (i_name x) (fst c) -> port_width d x (fst c) = Ok w ->
    a_width a = (if single x then w else w * i_n x) -> conn1_is x c e
| c1_same : as_ref m (snd c) = None -> as_nc m (snd c) = None -> e = snd c -> conn1_is x c e.

Lemma pr_rewrite_conn x c : In x (m_insts m) -> In c (i_conns x) ->
  exists e, rewrite_conn m keys table x c = Ok (fst c, e) /\ conn1_is x c e.
Proof.
  intros Hx Hc. unfold rewrite_conn. destruct (as_ref m (snd c)) as [q|] eqn:Er.
  - assert (In q (mentioned2 m)) as Hq by (eapply pr_mentioned_whole; eassumption).
    destruct (pr_res q Hq) as [g [e [Hqk [Hg [Hgk [Cg [Hres Hi]]]]]]]. rewrite Hres. cbn [bind]. exists e. split; [reflexivity|].
    eapply c1_ref; eassumption.
  - destruct (as_nc m (snd c)) as [site|] eqn:En.
    + destruct plan_facts as [Hgood [_ [_ [_ Hcov]]]].
      destruct (Hcov x (fst c) site (pr_seed_nc x c site Hx Hc En)) as [a [Ha Hk]]. destruct (tbl_of_alloc a Ha) as [id [nm Ht]].
      destruct (find_some_exists (fun e : N * alloc * name => match a_kind (snd (fst e)) with
                    | ANc i' p' => String.eqb (i_name x) i' && String.eqb (fst c) p' | AGroup _ _ => false end) table (id, a, nm) Ht)
        as [[[id2 a2] nm2] Hfind]; [cbn [fst snd]; rewrite Hk, !String.eqb_refl; reflexivity|].
      pose proof (find_some _ _ Hfind) as [Ht2 Hk2]. cbn [fst snd] in Hk2. destruct (a_kind a2) as [|i2 p2] eqn:Eka2; [discriminate|].
      apply andb_prop in Hk2. destruct Hk2 as [E1 E2]. apply String.eqb_eq in E1. apply String.eqb_eq in E2. subst i2 p2.
      unfold find_nc. rewrite Hfind. cbn [ofopt bind fst snd]. exists (XSig id2 (a_width a2)). split; [reflexivity|].
      destruct (tbl_In _ _ _ Ht2) as [Ha2 _]. rewrite Forall_forall in Hgood. pose proof (Hgood a2 Ha2) as G2. unfold alloc_good in G2. rewrite Eka2 in G2.
      destruct G2 as [x' [w [cx [site' [Hf' [Hw [_ [_ Hwd]]]]]]]]. rewrite (pr_find x Hx) in Hf'. inversion Hf'; subst x'.
      eapply c1_nc; try eassumption. reflexivity.
    + exists (snd c). split; [destruct c; reflexivity|]. apply c1_same; auto.
Qed.

(* a port that is connected to nothing but referred to owns the implicit signal of its group *)
Lemma pr_added x p : In x (m_insts m) -> single x = true -> assoc p (i_conns x) = None -> In (i_name x, p) (mentioned2 m) ->
  exists id a nm g w, In (id, a, nm) table /\ a_kind a = AGroup g (i_name x, p) /\ port_width d x p = Ok w /\ a_width a = w /\
    gid m keys (i_name x, p) = Some g /\ In (p, XSig id (a_width a)) (added_conns table x).
Proof.
  intros Hx Hs Ha Hq. set (q := (i_name x, p)) in *.
  destruct (pr_res q Hq) as [g [e [Hqk [Hg [Hgk [Cg [Hres Hi]]]]]]].
  assert (pconn m q = None) as Hp by (unfold pconn, q; cbn [fst snd]; rewrite (pr_find x Hx); exact Ha).
  assert (nxt m q = q) as Hfix by (unfold nxt, next; rewrite Hp; reflexivity).
  pose proof (attr_fixed d km m keys Hwm Hkeys g q Hgk Hqk Hfix Cg) as Hattr.
  destruct Hi as [Hsrc _ _|id a nm o He Ht Hk Hok Co Hw]; [rewrite Hattr, Hp in Hsrc; discriminate|].
  (* the owner of the group's signal is q itself *)
  destruct (tbl_In _ _ _ Ht) as [Hal _]. destruct plan_facts as [Hgood _]. rewrite Forall_forall in Hgood.
  pose proof (Hgood a Hal) as G. unfold alloc_good in G. rewrite Hk in G. destruct G as [_ [_ [namer [Hgr _]]]].
  unfold group_res in Hgr. rewrite Hattr, Hp in Hgr. inversion Hgr; subst o namer.
  assert (exists w, port_width d x p = Ok w /\ a_width a = w) as [w [Hpw' Haw]].
  { unfold key_width in Hw. unfold q in Hw. cbn [fst snd] in Hw. rewrite (pr_find x Hx) in Hw. cbn [ofopt bind] in Hw. eauto. }
  exists id, a, nm, g, w. repeat (split; [assumption|]). unfold added_conns. apply in_flat_map. exists (id, a, nm). split; [exact Ht|].
  unfold added_one. cbn [fst snd]. rewrite Hk. unfold q. cbn [fst snd]. rewrite String.eqb_refl, Hs, Ha. left. reflexivity.
Qed.

Lemma refs_to_pos_inv i p : 0 < refs_to m i p -> exists x c, In x (m_insts m) /\ In c (i_conns x) /\ In (i, p) (refs_in m (snd c)).
Proof.
  unfold refs_to. intros H.
  destruct (filter _ _) as [|lw l] eqn:Ef; [unfold zlen in H; cbn in H; lia|].
  assert (In lw (lw :: l)) as Hin by (left; reflexivity). rewrite <- Ef in Hin. apply filter_In in Hin. destruct Hin as [Hin Hl].
  apply in_concat in Hin. destruct Hin as [l1 [Hl1 Hin]]. apply in_map_iff in Hl1. destruct Hl1 as [x [<- Hx]].
  apply in_concat in Hin. destruct Hin as [l2 [Hl2 Hin]]. apply in_map_iff in Hl2. destruct Hl2 as [c [<- Hc]].
  destruct (assocN (fst lw) (m_leaves m)) as [[s|i' p'|s]|] eqn:El; try discriminate.
  apply andb_prop in Hl. destruct Hl as [E1 E2]. apply String.eqb_eq in E1. apply String.eqb_eq in E2. subst i' p'.
  exists x, c. split; [exact Hx|]. split; [exact Hc|]. apply refs_in_In. exists lw. split; [exact Hin|exact El].
Qed.

(* ---- the module after the pass ---- *)
Variable insts1 : list inst.
Hypothesis Hins : Forall2 (fun x x1 => rewrite_inst m keys table x = Ok x1) (m_insts m) insts1.

Definition m1 : module :=
  {| m_name := m_name m; m_ports := m_ports m; m_sigs := sigs1; m_insts := insts1; m_leaves := leaves1 |}.

Lemma m1_sig_width s : sig_width m1 s = sig_width1 s.
Proof. reflexivity. Qed.

Lemma leaf_ok_m1 lw : leaf_ok m lw -> leaf_ok m1 lw.
Proof. intros [s [H1 H2]]. exists s. split; [apply leaves1_old; exact H1|rewrite m1_sig_width; apply sigw1_old; exact H2]. Qed.

Lemma leaf_ok_new id a nm : In (id, a, nm) table -> leaf_ok m1 (id, a_width a).
Proof. intros H. exists nm. cbn [fst snd]. split; [eapply leaves1_new; exact H|rewrite m1_sig_width; eapply sigw1_new; exact H]. Qed.

Lemma rewrite_inst_inv x x1 : rewrite_inst m keys table x = Ok x1 ->
  i_name x1 = i_name x /\ i_n x1 = i_n x /\ i_of x1 = i_of x /\
  exists cs, i_conns x1 = cs ++ added_conns table x /\ Forall2 (fun c c1 => rewrite_conn m keys table x c = Ok c1) (i_conns x) cs.
Proof.
  unfold rewrite_inst. intros H. apply bind_ok in H. destruct H as [cs [Hcs H]]. inversion H; subst. cbn. repeat split.
  exists cs. split; [reflexivity|]. apply traverse_Forall2. exact Hcs.
Qed.

Lemma find_inst1 i x : find_inst (m_insts m) i = Some x ->
  exists x1, find_inst insts1 i = Some x1 /\ rewrite_inst m keys table x = Ok x1 /\ i_n x1 = i_n x /\ i_of x1 = i_of x.
Proof.
  intros Hf. destruct (find_inst_Forall2 _ _ _ i x Hins) as [x1 [Hf1 Hr]]; [intros a b H; apply rewrite_inst_inv in H; symmetry; tauto|exact Hf|].
  exists x1. split; [exact Hf1|]. split; [exact Hr|]. apply rewrite_inst_inv in Hr. tauto.
Qed.

Lemma leaf_ok1_m1 lw : leaf_ok1 d m lw -> leaf_ok1 d m1 lw.
Proof.
  intros [H|[i [p [x [Hl [Hf [Hn Hw]]]]]]]; [left; apply leaf_ok_m1; exact H|]. right.
  destruct (find_inst1 i x Hf) as [x1 [Hf1 [_ [Hn1 Ho1]]]]. exists i, p, x1. split; [apply leaves1_old; exact Hl|]. split; [exact Hf1|].
  split; [lia|]. unfold port_width in *. rewrite Ho1. exact Hw.
Qed.

(* a connection that is not a no-connect mentions signals and ports of single instances only *)
Lemma pr_leaves_sig x c : In x (m_insts m) -> In c (i_conns x) -> as_nc m (snd c) = None ->
  Forall (leaf_ok1 d m) (sx_leaves (snd c)).
Proof.
  intros Hx Hc Hn. destruct (pr_inst x Hx) as [ports [_ [_ [Hwc _]]]]. destruct (wf_conn_inv _ _ _ _ _ (Hwc c Hc)) as [w [_ [Hlv Hnc]]].
  rewrite <- as_nc_is_nc, Hn in Hnc. destruct Hnc as [Hnone _].
  apply Forall_forall. intros lw Hin. destruct (wf_leaf_inv _ _ _ (Hlv lw Hin)) as [lf [Hlf Hk]].
  destruct lf as [s|i p|site].
  - left. exists s. auto.
  - right. destruct Hk as [x' [Hx' [Hn' Hw']]]. exists i, p, x'. auto.
  - exfalso. unfold has_nc_inside in Hnone. assert (existsb (fun lw0 : N * Z => match assocN (fst lw0) (m_leaves m) with Some (LNc _) => true | _ => false end) (sx_leaves (snd c)) = true) as Ht; [|congruence].
    apply existsb_exists. exists lw. split; [exact Hin|]. rewrite Hlf. reflexivity.
Qed.

Lemma alloc_width_pos a : In a allocs -> 1 <= a_width a.
Proof.
  intros Ha. destruct plan_facts as [Hgood _]. rewrite Forall_forall in Hgood. pose proof (Hgood a Ha) as G. unfold alloc_good in G.
  destruct (a_kind a) as [g o|i p].
  - destruct G as [_ [_ [namer [_ Hw]]]]. unfold key_width in Hw. destruct (find_inst (m_insts m) (fst namer)) as [xn|] eqn:Ef; cbn [ofopt bind] in Hw; [|discriminate].
    destruct (find_inst_In _ _ _ Ef) as [Hxn _]. unfold port_width in Hw. destruct (target_ports d (i_of xn)) as [ps|] eqn:Ep; cbn [bind] in Hw; [|discriminate].
    apply ofopt_ok in Hw. apply (Hpw xn ps (snd namer, a_width a) Hxn Ep (assoc_In _ _ _ Hw)).
  - destruct G as [x [w [cx [site [Hf [Hw [_ [_ Hwd]]]]]]]]. destruct (find_inst_In _ _ _ Hf) as [Hx _].
    unfold port_width in Hw. destruct (target_ports d (i_of x)) as [ps|] eqn:Ep; cbn [bind] in Hw; [|discriminate]. apply ofopt_ok in Hw.
    pose proof (Hpw x ps (p, w) Hx Ep (assoc_In _ _ _ Hw)) as H1. cbn [snd] in H1. rewrite Hwd. unfold single. destruct (i_n x <=? 0) eqn:E; [exact H1|nia].
Qed.

Lemma pr_conn_ok x c e ports w : In x (m_insts m) -> In c (i_conns x) -> target_ports d (i_of x) = Ok ports ->
  assoc (fst c) ports = Some w -> conn1_is x c e ->
  exists cw, 1 <= w /\ Forall (leaf_ok1 d m1) (sx_leaves e) /\ xwidth e = Ok cw /\ (cw = w \/ (0 < i_n x /\ cw = i_n x * w)) /\
             (forall q, as_ref m (snd c) = Some q -> key_width d m q = Ok cw).
Proof.
  intros Hx Hc Hp Hw Hi. pose proof (Hpw x ports (fst c, w) Hx Hp (assoc_In _ _ _ Hw)) as Hw1. cbn [snd] in Hw1.
  destruct (pr_inst x Hx) as [ports' [Hp' [_ [Hwc _]]]]. rewrite Hp in Hp'. inversion Hp'; subst ports'.
  destruct (wf_conn_inv _ _ _ _ _ (Hwc c Hc)) as [w' [Hw' [Hlv Hnc]]]. assert (w' = w) as -> by congruence.
  assert (port_width d x (fst c) = Ok w) as Hpwx by (unfold port_width; rewrite Hp; cbn [bind]; rewrite Hw; reflexivity).
  destruct Hi as [q g Hr Hq Hqk Hg Hgk Cg Hres Hri|site id a nm w2 Hr Hn He Ht Hk Hw2 Hwd|Hr Hn He].
  - (* a reference *)
    assert (next m (i_name x, fst c) = Some q) as Hnx by (unfold next, pconn; cbn [fst snd]; rewrite (pr_find x Hx), (pr_assoc x c Hx Hc); exact Hr).
    destruct (next_wf d km m keys Hwm Hkeys (i_name x, fst c) q x (pr_find x Hx) Hnx) as [w0 [wl [Hw0 [_ [Hkw [Hwl1 [Hcase _]]]]]]].
    cbn [snd] in Hw0. rewrite Hpwx in Hw0. inversion Hw0; subst w0. exists wl. split; [exact Hw1|].
    destruct Hri as [Hsrc Hre Hne|id a nm o He Ht Hk Hok Co Hkw2].
    + (* the group's declared connection: the connection of its root *)
      destruct (attr_spec d km m keys Hwm Hkeys g Hgk) as [Hrk Cr]. set (r := attr m keys g) in *.
      pose proof Hrk as Hrk2. apply (keys_In d km m keys Hwm Hkeys) in Hrk2. destruct Hrk2 as [xr [wr [Hfr [Hsr Hwr]]]].
      destruct (find_inst_In _ _ _ Hfr) as [Hxr _]. unfold pconn in Hsrc. rewrite Hfr in Hsrc.
      pose proof (assoc_In _ _ _ Hsrc) as Hcr. split; [|split].
      * eapply Forall_impl; [intros lw; apply leaf_ok1_m1|]. apply (pr_leaves_sig xr (snd r, e) Hxr Hcr Hne).
      * destruct (pr_inst xr Hxr) as [pr [Hpr [_ [Hwcr _]]]]. destruct (wf_conn_inv _ _ _ _ _ (Hwcr _ Hcr)) as [w3 [Hw3 [_ Hnc3]]]. cbn [fst snd] in *.
        rewrite <- as_nc_is_nc, Hne in Hnc3. destruct Hnc3 as [_ [cw [Hcw Hcase3]]]. rewrite Hcw. f_equal.
        assert (key_width d m r = Ok w3) as Hkr.
        { unfold key_width. rewrite Hfr. cbn [ofopt bind]. unfold port_width. rewrite Hpr. cbn [bind]. rewrite Hw3. reflexivity. }
        pose proof (conn_width d km m keys Hwm Hkeys q r Hqk Hrk (c_trans _ _ _ _ _ (c_sym _ _ _ _ Cg) Cr)) as Hcw2.
        rewrite Hkw, Hkr in Hcw2. inversion Hcw2; subst w3. unfold single in Hsr. destruct Hcase3 as [->|[Hpos _]]; [reflexivity|lia].
      * split; [exact Hcase|]. intros q0 Hq0. rewrite Hr in Hq0. inversion Hq0; subst q0. exact Hkw.
    + (* the group's implicit signal *)
      subst e. assert (a_width a = wl) as Haw by congruence. rewrite Haw in *. split; [|split].
      * constructor; [|constructor]. rewrite <- Haw. left. eapply leaf_ok_new. exact Ht.
      * cbn [xwidth]. destruct (wl <? 1) eqn:E; [lia|reflexivity].
      * split; [exact Hcase|]. intros q0 Hq0. rewrite Hr in Hq0. inversion Hq0; subst q0. exact Hkw.
  - (* a no-connect: a private signal *)
    subst e. rewrite Hpwx in Hw2. inversion Hw2; subst w2. destruct (tbl_In _ _ _ Ht) as [Ha _]. pose proof (alloc_width_pos a Ha) as Hap.
    exists (a_width a). split; [exact Hw1|]. split; [constructor; [left; eapply leaf_ok_new; exact Ht|constructor]|]. split.
    + cbn [xwidth]. destruct (a_width a <? 1) eqn:E; [lia|reflexivity].
    + split; [rewrite Hwd; unfold single; destruct (i_n x <=? 0) eqn:E; [left; reflexivity|right; split; lia]|].
      intros q0 Hq0. congruence.
  - (* untouched *)
    subst e. rewrite <- as_nc_is_nc, Hn in Hnc. destruct Hnc as [_ [cw [Hcw Hcase]]]. exists cw. split; [exact Hw1|].
    split; [eapply Forall_impl; [intros lw; apply leaf_ok1_m1|]; apply (pr_leaves_sig x c Hx Hc Hn)|]. split; [exact Hcw|]. split; [exact Hcase|].
    intros q0 Hq0. congruence.
Qed.

(* ---- the connections the pass adds ---- *)
Lemma pr_added_inv x p e : In x (m_insts m) -> In (p, e) (added_conns table x) ->
  exists id a nm g w, In (id, a, nm) table /\ a_kind a = AGroup g (i_name x, p) /\ e = XSig id (a_width a) /\
    single x = true /\ assoc p (i_conns x) = None /\ port_width d x p = Ok w /\ a_width a = w /\
    In g keys /\ gid m keys g = Some g /\ conn key (nxt m) g (i_name x, p) /\ In (i_name x, p) keys.
Proof.
  intros Hx Hin. unfold added_conns in Hin. apply in_flat_map in Hin. destruct Hin as [[[id a] nm] [Ht Hin]]. unfold added_one in Hin. cbn [fst snd] in Hin.
  destruct (a_kind a) as [g o|] eqn:Ek; [|destruct Hin].
  destruct (String.eqb (fst o) (i_name x)) eqn:E1; cbn [andb] in Hin; [|destruct Hin].
  destruct (single x) eqn:Es; cbn [andb] in Hin; [|destruct Hin].
  destruct (assoc (snd o) (i_conns x)) eqn:Ea; [destruct Hin|]. destruct Hin as [E|[]]. inversion E; subst p e.
  apply String.eqb_eq in E1. destruct o as [oi op]. cbn [fst snd] in *. subst oi.
  destruct (tbl_In _ _ _ Ht) as [Hal _]. destruct plan_facts as [Hgood _]. rewrite Forall_forall in Hgood.
  pose proof (Hgood a Hal) as G. unfold alloc_good in G. rewrite Ek in G. destruct G as [Hgk [Hgg [namer [Hgr Hkw]]]].
  destruct (group_res_fresh g (i_name x, op) namer Hgk Hgg Hgr) as [Hok [Co [Hnk Cn]]].
  pose proof (conn_width d km m keys Hwm Hkeys (i_name x, op) namer Hok Hnk (c_trans _ _ _ _ _ (c_sym _ _ _ _ Co) Cn)) as Hcw.
  rewrite Hkw in Hcw. unfold key_width in Hcw. cbn [fst snd] in Hcw. rewrite (pr_find x Hx) in Hcw. cbn [ofopt bind] in Hcw.
  exists id, a, nm, g, (a_width a). auto 12.
Qed.

Lemma NoDup_flat_map_label {A B C} (G : A -> list B) (K : A -> list C) (kap : B -> C) l :
  (forall e y, In e l -> In y (G e) -> G e = [y] /\ K e = [kap y]) -> NoDup (flat_map K l) -> NoDup (flat_map G l).
Proof.
  induction l as [|e l IH]; intros H Hnd; cbn [flat_map] in *; [constructor|].
  assert (NoDup (flat_map G l)) as IHl by (apply IH; [intros e' y He' Hy; apply H; [right; exact He'|exact Hy]|apply (NoDup_app_r _ _ Hnd)]).
  destruct (G e) as [|y t] eqn:Eg; [exact IHl|].
  destruct (H e y (or_introl eq_refl)) as [Ege Eke]; [rewrite Eg; left; reflexivity|]. rewrite Eg in Ege. inversion Ege; subst t. cbn [app].
  constructor; [|exact IHl]. intros Hin. apply in_flat_map in Hin. destruct Hin as [e' [He' Hy]].
  destruct (H e' y (or_intror He') Hy) as [_ Eke']. rewrite Eke in Hnd. cbn [app] in Hnd. inversion Hnd as [|? ? Hn _]; subst.
  apply Hn. apply in_flat_map. exists e'. split; [exact He'|]. rewrite Eke'. left. reflexivity.
Qed.

Lemma tbl_groups : flat_map (fun e : N * alloc * name => match a_kind (snd (fst e)) with AGroup g _ => [g] | ANc _ _ => [] end) table = alloc_groups allocs.
Proof.
  assert (map (fun e : N * alloc * name => snd (fst e)) table = allocs) as Hm.
  { replace (fun e : N * alloc * name => snd (fst e)) with (fun e : N * alloc * name => fst ((fun e => (snd (fst e), snd e)) e)) by reflexivity.
    rewrite <- map_map. unfold table. rewrite number_allocs_map. apply map_fst_combine'. symmetry. exact pr_names_len. }
  unfold alloc_groups. rewrite <- Hm. rewrite flat_map_concat_map, flat_map_concat_map, map_map. reflexivity.
Qed.

Lemma map_flat_map {A B C} (f : B -> C) (g : A -> list B) l : map f (flat_map g l) = flat_map (fun x => map f (g x)) l.
Proof. induction l as [|x l IH]; cbn [flat_map]; [reflexivity|]. rewrite map_app, IH. reflexivity. Qed.

Lemma pr_added_NoDup x : In x (m_insts m) -> NoDup (map fst (added_conns table x)).
Proof.
  intros Hx. unfold added_conns. rewrite map_flat_map.
  apply (NoDup_flat_map_label _ (fun e : N * alloc * name => match a_kind (snd (fst e)) with AGroup g _ => [g] | ANc _ _ => [] end)
           (fun p => match gid m keys (i_name x, p) with Some g => g | None => (i_name x, p) end)).
  - intros [[id a] nm] y He Hy. unfold added_one in *. cbn [fst snd] in *. destruct (a_kind a) as [g o|] eqn:Ek; [|destruct Hy].
    destruct (String.eqb (fst o) (i_name x) && single x && match assoc (snd o) (i_conns x) with None => true | Some _ => false end) eqn:Ec; [|destruct Hy].
    cbn [map fst] in *. destruct Hy as [<-|[]]. split; [reflexivity|].
    apply andb_prop in Ec. destruct Ec as [Ec _]. apply andb_prop in Ec. destruct Ec as [E1 _]. apply String.eqb_eq in E1.
    destruct (tbl_In _ _ _ He) as [Hal _]. destruct plan_facts as [Hgood _]. rewrite Forall_forall in Hgood.
    pose proof (Hgood a Hal) as G. unfold alloc_good in G. rewrite Ek in G. destruct G as [Hgk [Hgg [namer [Hgr _]]]].
    destruct (group_res_fresh g o namer Hgk Hgg Hgr) as [Hok [Co _]].
    assert ((i_name x, snd o) = o) as -> by (destruct o; cbn [fst snd] in *; congruence).
    rewrite <- (gid_conn d km m keys Hwm Hkeys g o Hgk Hok Co), Hgg. reflexivity.
  - rewrite tbl_groups. apply plan_facts.
Qed.

Lemma pr_inst_ok x x1 : In x (m_insts m) -> rewrite_inst m keys table x = Ok x1 -> inst_ok1 d km m1 x1.
Proof.
  intros Hx Hr. destruct (rewrite_inst_inv x x1 Hr) as [Hn [Hnn [Ho [cs [Hcs Fc]]]]].
  destruct (wf_module_inv _ _ _ Hwm) as [_ [_ [_ Hi]]]. destruct (wf_inst_inv _ _ _ _ (Hi x Hx)) as [Hlt [ports [Hp [Hnd [Hwc Hall]]]]].
  split; [rewrite Ho; exact Hlt|]. exists ports. split; [rewrite Ho; exact Hp|].
  assert (map fst cs = map fst (i_conns x)) as Hfst.
  { symmetry. eapply Forall2_map_eq; [exact Fc|]. intros c c1 Hc. unfold rewrite_conn in Hc.
    destruct (as_ref m (snd c)); [destruct (res m keys table k); cbn [bind] in Hc; inversion Hc; reflexivity|].
    destruct (as_nc m (snd c)); [destruct (find_nc table (i_name x) (fst c)); cbn [ofopt bind] in Hc; inversion Hc; reflexivity|inversion Hc; reflexivity]. }
  split; [|split].
  - rewrite Hcs, map_app, Hfst. apply NoDup_app_intro; [exact Hnd|apply pr_added_NoDup; exact Hx|].
    intros p H1 H2. apply in_map_iff in H2. destruct H2 as [[p' e] [<- Hin]]. cbn [fst] in H1.
    destruct (pr_added_inv x p' e Hx Hin) as [id [a [nm [g [w [_ [_ [_ [_ [Hnone _]]]]]]]]]]. apply (assoc_None_notin _ _ Hnone). exact H1.
  - rewrite Hcs. apply Forall_app. split.
    + apply Forall_forall. intros c1 Hc1. destruct (Forall2_In_r _ _ _ c1 Fc Hc1) as [c [Hc Hrc]].
      destruct (pr_rewrite_conn x c Hx Hc) as [e [Hre Hci]]. rewrite Hrc in Hre. inversion Hre; subst c1.
      destruct (wf_conn_inv _ _ _ _ _ (Hwc c Hc)) as [w [Hw _]].
      destruct (pr_conn_ok x c e ports w Hx Hc Hp Hw Hci) as [cw [H1 [H2 [H3 [H4 _]]]]].
      exists w, cw. cbn [fst snd]. rewrite Hnn. auto.
    + apply Forall_forall. intros [p e] Hin. destruct (pr_added_inv x p e Hx Hin) as [id [a [nm [g [w [Ht [Hk [-> [Hs [Hnone [Hpw' [Haw _]]]]]]]]]]]].
      assert (assoc p ports = Some w) as Hw by (unfold port_width in Hpw'; rewrite Hp in Hpw'; cbn [bind] in Hpw'; apply ofopt_ok in Hpw'; exact Hpw').
      pose proof (Hpw x ports (p, w) Hx Hp (assoc_In _ _ _ Hw)) as Hw1. cbn [snd] in Hw1.
      exists w, w. cbn [fst snd]. split; [exact Hw|]. split; [exact Hw1|]. rewrite Haw. split; [constructor; [rewrite <- Haw; left; eapply leaf_ok_new; exact Ht|constructor]|].
      split; [cbn [xwidth]; destruct (w <? 1) eqn:E; [lia|reflexivity]|left; reflexivity].
  - intros pw Hpwin. rewrite Hcs, assoc_app. destruct (assoc (fst pw) (i_conns x)) as [cx|] eqn:Ea.
    + destruct (assoc_Forall2 _ _ _ (fst pw) cx Fc) as [v' [Hv' _]]; [|exact Ea|rewrite Hv'; discriminate].
      intros c c1 Hc. apply (f_equal (fun l => l)) in Hfst. unfold rewrite_conn in Hc.
      destruct (as_ref m (snd c)); [destruct (res m keys table k); cbn [bind] in Hc; inversion Hc; reflexivity|].
      destruct (as_nc m (snd c)); [destruct (find_nc table (i_name x) (fst c)); cbn [ofopt bind] in Hc; inversion Hc; reflexivity|inversion Hc; reflexivity].
    + assert (assoc (fst pw) cs = None) as ->.
      { apply assoc_notin_None. rewrite Hfst. apply assoc_None_notin. exact Ea. }
      (* the port is referred to: it owns its group's implicit signal *)
      pose proof (Hall pw Hpwin Ea) as Hpos. destruct (refs_to_pos_inv _ _ Hpos) as [x' [c' [Hx' [Hc' Hr']]]].
      assert (In (i_name x, fst pw) (mentioned2 m)) as Hq by (apply pr_mentioned; eauto).
      pose proof (pr_ref_target x' c' _ Hx' Hc' Hr') as Hqk. apply (keys_In d km m keys Hwm Hkeys) in Hqk. destruct Hqk as [x2 [w2 [Hf2 [Hs2 _]]]].
      cbn [fst] in Hf2. rewrite (pr_find x Hx) in Hf2. inversion Hf2; subst x2.
      destruct (pr_added x (fst pw) Hx Hs2 Ea Hq) as [id [a [nm [g [w [_ [_ [_ [_ [_ Hin]]]]]]]]]].
      intros E. apply assoc_None_notin in E. apply E. apply (in_map fst) in Hin. exact Hin.
Qed.

Lemma pr_insts1_names : map i_name insts1 = map i_name (m_insts m).
Proof. symmetry. eapply Forall2_map_eq; [exact Hins|]. intros x x1 H. apply rewrite_inst_inv in H. symmetry. tauto. Qed.

Theorem pr_module_ok : module_ok1 d km m1.
Proof.
  destruct (wf_module_inv _ _ _ Hwm) as [Hn [Hnd [Hw Hi]]]. split; [exact Hn|]. split; [|split].
  - unfold mod_names. cbn [m1 m_ports m_sigs m_insts]. rewrite pr_insts1_names. unfold sigs1. rewrite map_app, map_map. cbn [fst].
    set (P := map fst (m_ports m)) in *. set (S := map fst (m_sigs m)) in *. set (I := map i_name (m_insts m)) in *.
    set (T := map (fun e : N * alloc * name => snd e) table).
    unfold mod_names in Hnd. fold P S I in Hnd.
    assert (forall nm, In nm T -> ~ In nm (P ++ S ++ I)) as Hfresh.
    { intros nm Hin. apply in_map_iff in Hin. destruct Hin as [[[id a] nm'] [<- Hin]]. apply (tbl_name_fresh _ _ _ Hin). }
    apply NoDup_app_intro; [apply (NoDup_app_l _ _ Hnd)| |].
    + apply NoDup_app_intro.
      * apply NoDup_app_intro; [apply (NoDup_app_l _ _ (NoDup_app_r _ _ Hnd))|exact tbl_names_NoDup|].
        intros x H1 H2. apply (Hfresh x H2). apply in_or_app. right. apply in_or_app. left. exact H1.
      * apply (NoDup_app_r _ _ (NoDup_app_r _ _ Hnd)).
      * intros x H1 H2. apply in_app_or in H1. destruct H1 as [H1|H1].
        -- apply (NoDup_app_disj _ _ x (NoDup_app_r _ _ Hnd) H1 H2).
        -- apply (Hfresh x H1). apply in_or_app. right. apply in_or_app. right. exact H2.
    + intros x H1 H2. apply in_app_or in H2. destruct H2 as [H2|H2].
      * apply in_app_or in H2. destruct H2 as [H2|H2].
        -- apply (NoDup_app_disj _ _ x Hnd H1). apply in_or_app. left. exact H2.
        -- apply (Hfresh x H2). apply in_or_app. left. exact H1.
      * apply (NoDup_app_disj _ _ x Hnd H1). apply in_or_app. right. exact H2.
  - cbn [m1 m_ports m_sigs]. unfold sigs1. rewrite app_assoc, forallb_app. rewrite Hw. cbn [andb]. apply forallb_forall.
    intros [nm w] Hin. apply in_map_iff in Hin. destruct Hin as [[[id a] nm'] [E Hin]]. inversion E; subst. cbn [snd].
    destruct (tbl_In _ _ _ Hin) as [Ha _]. pose proof (alloc_width_pos a Ha). lia.
  - apply Forall_forall. intros x1 Hx1. cbn [m1 m_insts] in Hx1. destruct (Forall2_In_r _ _ _ x1 Hins Hx1) as [x [Hx Hr]].
    eapply pr_inst_ok; eassumption.
Qed.

(* ---- looking a port up after the pass ---- *)
Lemma rewrite_conn_fst x c c1 : rewrite_conn m keys table x c = Ok c1 -> fst c1 = fst c.
Proof.
  unfold rewrite_conn. destruct (as_ref m (snd c)); [destruct (res m keys table k); cbn [bind]; intros H; inversion H; reflexivity|].
  destruct (as_nc m (snd c)); [destruct (find_nc table (i_name x) (fst c)); cbn [ofopt bind]; intros H; inversion H; reflexivity|intros H; inversion H; reflexivity].
Qed.

Lemma pr_lookup_conn x x1 port cx : In x (m_insts m) -> rewrite_inst m keys table x = Ok x1 -> assoc port (i_conns x) = Some cx ->
  exists e, assoc port (i_conns x1) = Some e /\ conn1_is x (port, cx) e.
Proof.
  intros Hx Hr Ha. destruct (rewrite_inst_inv x x1 Hr) as [_ [_ [_ [cs [Hcs Fc]]]]].
  destruct (assoc_Forall2 _ _ _ port cx Fc (fun c c1 H => eq_sym (rewrite_conn_fst x c c1 H)) Ha) as [e [He Hrc]].
  exists e. rewrite Hcs, assoc_app, He. split; [reflexivity|].
  destruct (pr_rewrite_conn x (port, cx) Hx (assoc_In _ _ _ Ha)) as [e2 [He2 Hi]]. cbn [fst] in He2. rewrite Hrc in He2. inversion He2; subst e2. exact Hi.
Qed.

Lemma pr_lookup_added x x1 port : In x (m_insts m) -> rewrite_inst m keys table x = Ok x1 -> single x = true ->
  assoc port (i_conns x) = None -> In (i_name x, port) (mentioned2 m) ->
  exists id a nm g w, assoc port (i_conns x1) = Some (XSig id (a_width a)) /\ In (id, a, nm) table /\
    a_kind a = AGroup g (i_name x, port) /\ port_width d x port = Ok w /\ a_width a = w /\ gid m keys (i_name x, port) = Some g /\
    res m keys table (i_name x, port) = Ok (XSig id (a_width a)).
Proof.
  intros Hx Hr Hs Ha Hq. destruct (rewrite_inst_inv x x1 Hr) as [_ [_ [_ [cs [Hcs Fc]]]]].
  assert (assoc port cs = None) as Hn.
  { apply assoc_notin_None. rewrite <- (Forall2_map_eq _ fst fst _ _ Fc (fun c c1 H => eq_sym (rewrite_conn_fst x c c1 H))). apply assoc_None_notin. exact Ha. }
  (* the entry that res uses for this port is the one added *)
  set (q := (i_name x, port)) in *.
  destruct (pr_res q Hq) as [g [e [Hqk [Hg [Hgk [Cg [Hres Hi]]]]]]].
  assert (pconn m q = None) as Hp by (unfold pconn, q; cbn [fst snd]; rewrite (pr_find x Hx); exact Ha).
  assert (nxt m q = q) as Hfix by (unfold nxt, next; rewrite Hp; reflexivity).
  pose proof (attr_fixed d km m keys Hwm Hkeys g q Hgk Hqk Hfix Cg) as Hattr.
  destruct Hi as [Hsrc _ _|id a nm o He Ht Hk Hok Co Hw]; [rewrite Hattr, Hp in Hsrc; discriminate|].
  destruct (tbl_In _ _ _ Ht) as [Hal _]. destruct plan_facts as [Hgood _]. rewrite Forall_forall in Hgood.
  pose proof (Hgood a Hal) as G. unfold alloc_good in G. rewrite Hk in G. destruct G as [_ [_ [namer [Hgr _]]]].
  unfold group_res in Hgr. rewrite Hattr, Hp in Hgr. inversion Hgr; subst o namer.
  assert (exists w, port_width d x port = Ok w /\ a_width a = w) as [w [Hpw' Haw]].
  { unfold key_width in Hw. unfold q in Hw. cbn [fst snd] in Hw. rewrite (pr_find x Hx) in Hw. cbn [ofopt bind] in Hw. eauto. }
  assert (In (port, XSig id (a_width a)) (added_conns table x)) as Hin.
  { unfold added_conns. apply in_flat_map. exists (id, a, nm). split; [exact Ht|].
    unfold added_one. cbn [fst snd]. rewrite Hk. unfold q. cbn [fst snd]. rewrite String.eqb_refl, Hs, Ha. left. reflexivity. }
  exists id, a, nm, g, w. split.
  - rewrite Hcs, assoc_app, Hn. apply assoc_nodup_In'; [apply pr_added_NoDup; exact Hx|exact Hin].
  - subst e. auto 10.
Qed.

(* the connection of a port that is referred to IS what a reference to it stands for *)
Lemma pr_target_conn q xq xq1 : In q (mentioned2 m) -> find_inst (m_insts m) (fst q) = Some xq -> rewrite_inst m keys table xq = Ok xq1 ->
  exists e, assoc (snd q) (i_conns xq1) = Some e /\ res m keys table q = Ok e.
Proof.
  intros Hq Hf Hr. destruct (find_inst_In _ _ _ Hf) as [Hx Hn].
  destruct (pr_res q Hq) as [g [e [Hqk [Hg [Hgk [Cg [Hres Hi]]]]]]].
  pose proof Hqk as Hqk2. apply (keys_In d km m keys Hwm Hkeys) in Hqk2. destruct Hqk2 as [x2 [w2 [Hf2 [Hs2 _]]]]. rewrite Hf in Hf2. inversion Hf2; subst x2.
  assert (q = (i_name xq, snd q)) as Eq by (destruct q; cbn [fst snd] in *; congruence).
  destruct (assoc (snd q) (i_conns xq)) as [cx|] eqn:Ea.
  - destruct (pr_lookup_conn xq xq1 (snd q) cx Hx Hr Ea) as [e1 [He1 Hci]]. exists e1. split; [exact He1|].
    destruct Hci as [q2 g2 Hr2 Hq2 Hq2k Hg2 Hg2k Cg2 Hres2 _|site id a nm w Hr2 Hn2 _ _ _ _ _|Hr2 Hn2 He].
    + (* q refers on to q2: the same group, hence the same resolution *)
      cbn [snd] in Hr2. assert (next m q = Some q2) as Hnx by (unfold next, pconn; rewrite Hf, Ea; exact Hr2).
      pose proof (gid_next d km m keys Hwm Hkeys q q2 Hqk Hnx) as Eg. unfold res in *. rewrite Eg. exact Hres2.
    + (* q no-connected but referred to: impossible *)
      exfalso. cbn [snd] in Hn2. apply (root_not_nc q q cx site Hq Hqk (c_refl _ _ _)); [unfold pconn; rewrite Hf; exact Ea|exact Hn2].
    + (* q has the group's declared connection: it is the root *)
      cbn [snd] in *. subst e1. assert (pconn m q = Some cx) as Hp by (unfold pconn; rewrite Hf; exact Ea).
      assert (nxt m q = q) as Hfix by (unfold nxt, next; rewrite Hp, Hr2; reflexivity).
      pose proof (attr_fixed d km m keys Hwm Hkeys g q Hgk Hqk Hfix Cg) as Hattr.
      unfold res. rewrite Hg. cbn [ofopt bind]. unfold group_res. rewrite Hattr, Hp, Hr2, Hn2. reflexivity.
  - rewrite Eq in Hq. destruct (pr_lookup_added xq xq1 (snd q) Hx Hr Hs2 Ea Hq) as [id [a [nm [g2 [w [He1 [_ [_ [_ [_ [_ Hres2]]]]]]]]]]].
    exists (XSig id (a_width a)). split; [exact He1|]. rewrite Eq. exact Hres2.
Qed.

(* ---- local targets after the pass ---- *)
Lemma m1_local x1 e port k w e1 : assoc port (i_conns x1) = Some e1 -> port_width d x1 port = Ok w -> 0 <= k < w ->
  elem_ok x1 e = true -> Forall (leaf_ok1 d m1) (sx_leaves e1) ->
  forall cw, xwidth e1 = Ok cw -> (cw = w \/ (0 < i_n x1 /\ cw = i_n x1 * w)) ->
  exists bits id j lf t, xbits e1 = Ok bits /\ zlen bits = cw /\ pick bits (conn_index x1 cw w e k) = Ok (id, j) /\
    assocN id leaves1 = Some lf /\ leaf_tgt lf j = Some t /\ t <> LtSelf /\ local_tgt d m1 x1 e port k = Ok t.
Proof.
  intros Ha Hw Hk He Hl cw Hcw Hcase. destruct (xwidth_ok_xbits _ _ Hcw) as [bits [Hb Hlen]].
  destruct (conn_bit_some d x1 e port k e1 bits w Ha Hb Hw Hk He) as [_ Hidx]; [rewrite Hlen; exact Hcase|].
  destruct (pick_ok _ _ Hidx) as [[id j] [Hpk _]]. pose proof (pick_In _ _ _ Hpk) as Hin.
  destruct (xbits_inside _ _ Hb _ _ Hin) as [wl [Hlv Hj]]. rewrite leaves_sx_leaves in Hlv.
  rewrite Forall_forall in Hl.
  assert (exists lf t, assocN id leaves1 = Some lf /\ leaf_tgt lf j = Some t /\ t <> LtSelf) as [lf [t [Hlf [Ht Hns]]]].
  { destruct (Hl _ Hlv) as [[s [Hs _]]|[i [p0 [xq [Hs _]]]]]; cbn [fst] in Hs.
    - exists (LSig s), (LtSig s j). split; [exact Hs|]. split; [reflexivity|discriminate].
    - exists (LRef i p0), (LtPort i p0 j). split; [exact Hs|]. split; [reflexivity|discriminate]. }
  exists bits, id, j, lf, t. split; [exact Hb|]. split; [exact Hlen|]. rewrite <- Hlen. split; [exact Hpk|]. split; [exact Hlf|].
  split; [exact Ht|]. split; [exact Hns|].
  apply (local_tgt_leaf d m1 x1 e port k w e1 bits id j lf t Ha Hb Hw Hk He); [rewrite Hlen; exact Hcase|exact Hpk|exact Hlf|exact Ht].
Qed.

(* the leaves of an untouched connection, or of a group's declared connection, are leaves of the old module *)
Lemma old_leaf x c id j bits : In x (m_insts m) -> In c (i_conns x) -> as_nc m (snd c) = None -> xbits (snd c) = Ok bits -> In (id, j) bits ->
  forall lf1, assocN id leaves1 = Some lf1 -> assocN id (m_leaves m) = Some lf1.
Proof.
  intros Hx Hc Hn Hb Hin lf1 Hlf1. destruct (xbits_inside _ _ Hb _ _ Hin) as [wl [Hlv _]]. rewrite leaves_sx_leaves in Hlv.
  pose proof (pr_leaves_sig x c Hx Hc Hn) as Hls. rewrite Forall_forall in Hls.
  destruct (Hls _ Hlv) as [[s0 [Hs0 _]]|[i0 [p0 [x0 [Hs0 _]]]]]; cbn [fst] in Hs0; pose proof (leaves1_old _ _ Hs0) as H1; congruence.
Qed.

Lemma pr_port_facts x port w : In x (m_insts m) -> port_width d x port = Ok w ->
  exists ports, target_ports d (i_of x) = Ok ports /\ assoc port ports = Some w.
Proof.
  intros Hx Hw. unfold port_width in Hw. destruct (target_ports d (i_of x)) as [ps|]; cbn [bind] in Hw; [|discriminate].
  apply ofopt_ok in Hw. eauto.
Qed.

(* old connections stay joined: a port that referred to another port by its whole connection now has the same target as that
   port; a reference inside a slice / concatenation is still there *)
Lemma pr_fwd x x1 e port k w t0 : In x (m_insts m) -> rewrite_inst m keys table x = Ok x1 -> elem_ok x e = true ->
  port_width d x port = Ok w -> 0 <= k < w -> local_tgt d m x e port k = Ok t0 ->
  match t0 with
  | LtSig s j => local_tgt d m1 x1 e port k = Ok (LtSig s j)
  | LtPort i' p' j =>
      local_tgt d m1 x1 e port k = Ok (LtPort i' p' j) \/
      exists xq xq1 t1 wq, find_inst (m_insts m) i' = Some xq /\ single xq = true /\ rewrite_inst m keys table xq = Ok xq1 /\
        port_width d xq p' = Ok wq /\ 0 <= j < wq /\ t1 <> LtSelf /\
        local_tgt d m1 x1 e port k = Ok t1 /\ local_tgt d m1 xq1 0 p' j = Ok t1
  | LtSelf => True
  end.
Proof.
  intros Hx Hr He Hw Hk Ht0. destruct (rewrite_inst_inv x x1 Hr) as [Hn1 [Hnn1 [Ho1 _]]].
  assert (port_width d x1 port = Ok w) as Hw1 by (unfold port_width in *; rewrite Ho1; exact Hw).
  assert (elem_ok x1 e = true) as He1 by (unfold elem_ok in *; rewrite Hnn1; exact He).
  destruct (pr_port_facts x port w Hx Hw) as [ports [Hp Hpw']].
  destruct (assoc port (i_conns x)) as [cx|] eqn:Ea.
  2:{ unfold local_tgt, conn_bit in Ht0. rewrite Ea in Ht0. cbn [bind] in Ht0. inversion Ht0. exact I. }
  pose proof (assoc_In _ _ _ Ea) as Hc.
  destruct (pr_lookup_conn x x1 port cx Hx Hr Ea) as [e1 [He1a Hci]].
  destruct (pr_conn_ok x (port, cx) e1 ports w Hx Hc Hp Hpw' Hci) as [cw [Hw1' [Hl1 [Hcw1 [Hcase1 Hkq]]]]].
  rewrite <- Hnn1 in Hcase1.
  destruct (m1_local x1 e port k w e1 He1a Hw1 Hk He1 Hl1 cw Hcw1 Hcase1) as [bits1 [id1 [j1 [lf1 [t1 [Hb1 [Hlen1 [Hpk1 [Hlf1 [Htg1 [Hns1 Hlt1]]]]]]]]]]].
  destruct Hci as [q g Hrq Hq Hqk Hg Hgk Cg Hres Hri|site id a nm w2 Hrq Hnq _ _ _ _ _|Hrq Hnq He1e].
  - (* a reference *)
    cbn [snd] in Hrq. destruct (as_ref_shape _ _ _ Hrq) as [idr [wl [-> Hlr]]].
    specialize (Hkq q Hrq). cbn [snd] in Hkq.
    assert (next m (i_name x, port) = Some q) as Hnx by (unfold next, pconn; cbn [fst snd]; rewrite (pr_find x Hx), Ea; exact Hrq).
    destruct (next_wf d km m keys Hwm Hkeys (i_name x, port) q x (pr_find x Hx) Hnx) as [w0 [wl' [Hw0 [_ [Hkw [Hwl1 [Hcase [idr' [Ea' _]]]]]]]]].
    cbn [snd] in Hw0, Ea'. rewrite Ea in Ea'. inversion Ea'; subst idr' wl'. rewrite Hw in Hw0. inversion Hw0; subst w0.
    assert (cw = wl) as -> by congruence. clear Hkq.
    (* the old target *)
    assert (xbits (XSig idr wl) = Ok (sig_bits idr wl)) as Hb0 by (cbn [xbits]; destruct (wl <? 1) eqn:E; [lia|reflexivity]).
    destruct (conn_bit_some d x e port k _ _ w Ea Hb0 Hw Hk He) as [Hcb0 Hidx0]; [rewrite sig_bits_len by lia; exact Hcase|].
    rewrite sig_bits_len in Hcb0, Hidx0 by lia. set (jj := conn_index x wl w e k) in *.
    assert (pick (sig_bits idr wl) jj = Ok (idr, jj)) as Hpk0.
    { unfold sig_bits. rewrite pick_map. destruct (pick_ok (iota (Z.to_nat wl) 0 1) jj) as [y [Hy Hny]]; [unfold zlen; rewrite iota_length; lia|].
      rewrite Hy. rewrite iota_nth in Hny by lia. inversion Hny; subst y. f_equal. f_equal. lia. }
    unfold local_tgt in Ht0. rewrite Hcb0, Hpk0 in Ht0. cbn [bind] in Ht0. rewrite Hlr in Ht0. cbn [ofopt bind] in Ht0. inversion Ht0; subst t0.
    (* the instance referred to *)
    pose proof Hqk as Hqk2. apply (keys_In d km m keys Hwm Hkeys) in Hqk2. destruct Hqk2 as [xq [wq [Hfq [Hsq Hwq]]]].
    destruct (find_inst_In _ _ _ Hfq) as [Hxq _]. destruct (Forall2_In_l _ _ _ xq Hins Hxq) as [xq1 [_ Hrq1]].
    assert (wq = wl) as -> by (unfold key_width in Hkw; rewrite Hfq in Hkw; cbn [ofopt bind] in Hkw; congruence).
    destruct (pr_target_conn q xq xq1 Hq Hfq Hrq1) as [e2 [He2 Hres2]]. rewrite Hres in Hres2. inversion Hres2; subst e2.
    destruct (rewrite_inst_inv xq xq1 Hrq1) as [_ [Hnnq [Hoq _]]].
    assert (port_width d xq1 (snd q) = Ok wl) as Hwq1 by (unfold port_width in *; rewrite Hoq; exact Hwq).
    assert (elem_ok xq1 0 = true) as Heq1 by (unfold elem_ok; rewrite Hnnq; unfold single in Hsq; rewrite Hsq; reflexivity).
    destruct (m1_local xq1 0 (snd q) jj wl e1 He2 Hwq1 ltac:(lia) Heq1 Hl1 wl Hcw1 (or_introl eq_refl))
      as [bits2 [id2 [j2 [lf2 [t2 [Hb2 [_ [Hpk2 [Hlf2 [Htg2 [_ Hlt2]]]]]]]]]]].
    rewrite Hb1 in Hb2. inversion Hb2; subst bits2.
    assert (conn_index xq1 wl wl 0 jj = jj) as Ej by (unfold conn_index; rewrite Z.eqb_refl; reflexivity). rewrite Ej in Hpk2.
    assert (conn_index x1 wl w e k = jj) as Ej1 by reflexivity. rewrite Ej1 in Hpk1. rewrite Hpk1 in Hpk2. inversion Hpk2; subst id2 j2.
    rewrite Hlf1 in Hlf2. inversion Hlf2; subst lf2. rewrite Htg1 in Htg2. inversion Htg2; subst t2.
    right. exists xq, xq1, t1, wl. repeat (split; [first [assumption|lia]|]). exact Hlt2.
  - (* a no-connect: the old target is the port itself *)
    cbn [snd] in *. destruct (is_nc_shape m cx site) as [idn [wn [-> Hln]]]; [rewrite <- as_nc_is_nc; exact Hnq|].
    pose proof (Hfrag x (port, XSig idn wn) Hx Hc) as Hfr. unfold conn_frag2 in Hfr. cbn [snd fst] in Hfr. rewrite Hln, Hw in Hfr. assert (wn = w) as -> by lia.
    assert (xbits (XSig idn w) = Ok (sig_bits idn w)) as Hb0 by (cbn [xbits]; destruct (w <? 1) eqn:E; [lia|reflexivity]).
    destruct (conn_bit_some d x e port k _ _ w Ea Hb0 Hw Hk He) as [Hcb0 Hidx0]; [left; apply sig_bits_len; lia|].
    destruct (pick_ok _ _ Hidx0) as [[id' j'] [Hpk0 _]]. unfold local_tgt in Ht0. rewrite Hcb0, Hpk0 in Ht0. cbn [bind] in Ht0.
    apply pick_In in Hpk0. unfold sig_bits in Hpk0. apply in_map_iff in Hpk0. destruct Hpk0 as [j'' [Ej _]]. inversion Ej; subst id'.
    rewrite Hln in Ht0. cbn [ofopt bind] in Ht0. inversion Ht0. exact I.
  - (* untouched: the same leaf, be it a signal or a reference inside the expression *)
    cbn [snd] in *. subst e1.
    pose proof (old_leaf x (port, cx) id1 j1 bits1 Hx Hc Hnq Hb1 (pick_In _ _ _ Hpk1) lf1 Hlf1) as Hold.
    assert (local_tgt d m x e port k = Ok t1) as Ht0'.
    { apply (local_tgt_leaf d m x e port k w cx bits1 id1 j1 lf1 t1 Ea Hb1 Hw Hk He); [rewrite Hlen1, <- Hnn1; exact Hcase1| |exact Hold|exact Htg1].
      rewrite Hlen1. unfold conn_index in *. exact Hpk1. }
    rewrite Ht0 in Ht0'. inversion Ht0'; subst t0.
    destruct t1 as [s j|i' p' j|]; [exact Hlt1|left; exact Hlt1|exact I].
Qed.

(* ---- the retraction: which port an invented signal bit stands for ---- *)
Definition owner_node (p : path) (s : name) (k : Z) : option node :=
  match find (fun e : N * alloc * name => String.eqb (snd e) s) table with
  | Some e =>
      match a_kind (snd (fst e)) with
      | AGroup _ o => Some (NPort p (fst o) 0 (snd o) k)
      | ANc i port =>
          match find_inst (m_insts m) i with
          | Some x => match port_width d x port with
                      | Ok w => Some (if single x then NPort p i 0 port k else NPort p i (k / w) port (k mod w))
                      | Error _ => None
                      end
          | None => None
          end
      end
  | None => None
  end.

Lemma find_by_name id a nm : In (id, a, nm) table -> find (fun e : N * alloc * name => String.eqb (snd e) nm) table = Some (id, a, nm).
Proof.
  intros Hin. pose proof tbl_names_NoDup as Hnd. clear - Hin Hnd. induction table as [|e l IH]; [destruct Hin|]. cbn [find map] in *.
  inversion Hnd as [|? ? Hn Hnd']; subst. destruct Hin as [->|Hin]; [cbn [snd]; rewrite String.eqb_refl; reflexivity|].
  destruct (String.eqb (snd e) nm) eqn:E; [|apply IH; assumption]. apply String.eqb_eq in E. exfalso. apply Hn. rewrite E.
  apply (in_map (fun e : N * alloc * name => snd e)) in Hin. exact Hin.
Qed.

Lemma fresh_not_sig id a nm : In (id, a, nm) table -> sig_width m nm = None.
Proof.
  intros H. pose proof (tbl_name_fresh _ _ _ H) as Hf. unfold namespace in Hf. unfold sig_width.
  rewrite assoc_notin_None by (intros Hin; apply Hf; apply in_or_app; left; exact Hin).
  apply assoc_notin_None. intros Hin. apply Hf. apply in_or_app. right. apply in_or_app. left. exact Hin.
Qed.

(* new connections join only what the old ones joined *)
Lemma pr_bwd p x x1 e port k w : In x (m_insts m) -> rewrite_inst m keys table x = Ok x1 -> elem_ok x e = true ->
  port_width d x port = Ok w -> 0 <= k < w ->
  exists t1, local_tgt d m1 x1 e port k = Ok t1 /\ t1 <> LtSelf /\
    ( local_tgt d m x e port k = Ok t1
    \/ (exists s1 j1, t1 = LtSig s1 j1 /\ sig_width m s1 = None /\ owner_node p s1 j1 = Some (NPort p (i_name x) e port k))
    \/ exists q jj wq, local_tgt d m x e port k = Ok (LtPort (fst q) (snd q) jj) /\ In q keys /\ key_width d m q = Ok wq /\ 0 <= jj < wq /\
          ( (exists r xr, In r keys /\ conn key (nxt m) q r /\ find_inst (m_insts m) (fst r) = Some xr /\
                          local_tgt d m xr 0 (snd r) jj = Ok t1)
          \/ (exists o s1, t1 = LtSig s1 jj /\ sig_width m s1 = None /\ In o keys /\ conn key (nxt m) q o /\
                         owner_node p s1 jj = Some (NPort p (fst o) 0 (snd o) jj)) ) ).
Proof.
  intros Hx Hr He Hw Hk. destruct (rewrite_inst_inv x x1 Hr) as [Hn1 [Hnn1 [Ho1 _]]].
  assert (port_width d x1 port = Ok w) as Hw1 by (unfold port_width in *; rewrite Ho1; exact Hw).
  assert (elem_ok x1 e = true) as He1 by (unfold elem_ok in *; rewrite Hnn1; exact He).
  destruct (pr_port_facts x port w Hx Hw) as [ports [Hp Hpw']].
  pose proof (Hpw x ports (port, w) Hx Hp (assoc_In _ _ _ Hpw')) as Hwpos. cbn [snd] in Hwpos.
  destruct (assoc port (i_conns x)) as [cx|] eqn:Ea.
  - pose proof (assoc_In _ _ _ Ea) as Hc.
    destruct (pr_lookup_conn x x1 port cx Hx Hr Ea) as [e1 [He1a Hci]].
    destruct (pr_conn_ok x (port, cx) e1 ports w Hx Hc Hp Hpw' Hci) as [cw [_ [Hl1 [Hcw1 [Hcase1 Hkq]]]]].
    rewrite <- Hnn1 in Hcase1.
    destruct (m1_local x1 e port k w e1 He1a Hw1 Hk He1 Hl1 cw Hcw1 Hcase1) as [bits1 [id1 [j1 [lf1 [t1 [Hb1 [Hlen1 [Hpk1 [Hlf1 [Htg1 [Hns1 Hlt1]]]]]]]]]]].
    exists t1. split; [exact Hlt1|]. split; [exact Hns1|].
    destruct Hci as [q g Hrq Hq Hqk Hg Hgk Cg Hres Hri|site id a nm w2 Hrq Hnq He1e Ht Hka Hw2 Hwd|Hrq Hnq He1e].
    + (* a reference *)
      right. right. cbn [snd] in Hrq. destruct (as_ref_shape _ _ _ Hrq) as [idr [wl [-> Hlr]]].
      specialize (Hkq q Hrq). cbn [snd] in Hkq.
      assert (next m (i_name x, port) = Some q) as Hnx by (unfold next, pconn; cbn [fst snd]; rewrite (pr_find x Hx), Ea; exact Hrq).
      destruct (next_wf d km m keys Hwm Hkeys (i_name x, port) q x (pr_find x Hx) Hnx) as [w0 [wl' [Hw0 [_ [Hkw [Hwl1 [Hcase [idr' [Ea' _]]]]]]]]].
      cbn [snd] in Hw0, Ea'. rewrite Ea in Ea'. inversion Ea'; subst idr' wl'. rewrite Hw in Hw0. inversion Hw0; subst w0.
      assert (cw = wl) as -> by congruence. clear Hkq.
      assert (xbits (XSig idr wl) = Ok (sig_bits idr wl)) as Hb0 by (cbn [xbits]; destruct (wl <? 1) eqn:E; [lia|reflexivity]).
      destruct (conn_bit_some d x e port k _ _ w Ea Hb0 Hw Hk He) as [Hcb0 Hidx0]; [rewrite sig_bits_len by lia; exact Hcase|].
      rewrite sig_bits_len in Hcb0, Hidx0 by lia. set (jj := conn_index x wl w e k) in *.
      assert (pick (sig_bits idr wl) jj = Ok (idr, jj)) as Hpk0.
      { unfold sig_bits. rewrite pick_map. destruct (pick_ok (iota (Z.to_nat wl) 0 1) jj) as [y [Hy Hny]]; [unfold zlen; rewrite iota_length; lia|].
        rewrite Hy. rewrite iota_nth in Hny by lia. inversion Hny; subst y. f_equal. f_equal. lia. }
      assert (local_tgt d m x e port k = Ok (LtPort (fst q) (snd q) jj)) as Ht0.
      { unfold local_tgt. rewrite Hcb0, Hpk0. cbn [bind]. rewrite Hlr. reflexivity. }
      assert (conn_index x1 wl w e k = jj) as Ej1 by reflexivity. rewrite Ej1 in Hpk1.
      exists q, jj, wl. split; [exact Ht0|]. split; [exact Hqk|]. split; [exact Hkw|]. split; [exact Hidx0|].
      destruct Hri as [Hsrc Hre Hne|id a nm o He1e Ht Hka Hok Co Hkw2].
      * (* the declared connection of the group's root *)
        left. destruct (attr_spec d km m keys Hwm Hkeys g Hgk) as [Hrk Cr]. set (r := attr m keys g) in *.
        pose proof Hrk as Hrk2. apply (keys_In d km m keys Hwm Hkeys) in Hrk2. destruct Hrk2 as [xr [wr [Hfr [Hsr Hwr]]]].
        destruct (find_inst_In _ _ _ Hfr) as [Hxr _]. unfold pconn in Hsrc. rewrite Hfr in Hsrc.
        exists r, xr. split; [exact Hrk|]. split; [eapply c_trans; [apply c_sym; exact Cg|exact Cr]|]. split; [exact Hfr|].
        assert (key_width d m r = Ok wl) as Hkr.
        { rewrite <- Hkw. symmetry. apply (conn_width d km m keys Hwm Hkeys q r Hqk Hrk). eapply c_trans; [apply c_sym; exact Cg|exact Cr]. }
        assert (wr = wl) as -> by (unfold key_width in Hkr; rewrite Hfr in Hkr; cbn [ofopt bind] in Hkr; congruence).
        assert (elem_ok xr 0 = true) as Her by (unfold elem_ok; unfold single in Hsr; rewrite Hsr; reflexivity).
        pose proof (old_leaf xr (snd r, e1) id1 j1 bits1 Hxr (assoc_In _ _ _ Hsrc) Hne Hb1 (pick_In _ _ _ Hpk1) lf1 Hlf1) as Hold.
        apply (local_tgt_leaf d m xr 0 (snd r) jj wl e1 bits1 id1 j1 lf1 t1 Hsrc Hb1 Hwr ltac:(lia) Her); [left; exact Hlen1| |exact Hold|exact Htg1].
        unfold conn_index. rewrite Hlen1, Z.eqb_refl. exact Hpk1.
      * (* the implicit signal of the group *)
        right. subst e1. cbn [xbits] in Hb1. destruct (a_width a <? 1) eqn:E; [discriminate|]. inversion Hb1; subst bits1.
        assert (a_width a = wl) as Haw by congruence.
        assert (pick (sig_bits id (a_width a)) jj = Ok (id, jj)) as Hpj.
        { unfold sig_bits. rewrite pick_map. destruct (pick_ok (iota (Z.to_nat (a_width a)) 0 1) jj) as [y [Hy Hny]]; [unfold zlen; rewrite iota_length; lia|].
          rewrite Hy. rewrite iota_nth in Hny by lia. inversion Hny; subst y. f_equal. f_equal. lia. }
        rewrite Hpj in Hpk1. inversion Hpk1; subst id1 j1.
        pose proof (leaves1_new _ _ _ Ht) as Hln. rewrite Hlf1 in Hln. inversion Hln; subst lf1. cbn [leaf_tgt] in Htg1. inversion Htg1; subst t1.
        exists o, nm. split; [reflexivity|]. split; [eapply fresh_not_sig; exact Ht|]. split; [exact Hok|].
        split; [eapply c_trans; [apply c_sym; exact Cg|exact Co]|]. unfold owner_node. rewrite (find_by_name _ _ _ Ht). cbn [fst snd]. rewrite Hka. reflexivity.
    + (* a no-connect: its private signal stands for the port itself *)
      right. left. cbn [fst snd] in *. subst e1. rewrite Hw in Hw2. inversion Hw2; subst w2.
      destruct (tbl_In _ _ _ Ht) as [Hal _]. pose proof (alloc_width_pos a Hal) as Hap.
      cbn [xbits] in Hb1. destruct (a_width a <? 1) eqn:E; [lia|]. inversion Hb1; subst bits1.
      cbn [xwidth] in Hcw1. rewrite E in Hcw1. assert (cw = a_width a) as -> by congruence.
      pose proof Hpk1 as Hpk1'. apply pick_In in Hpk1'. unfold sig_bits in Hpk1'. apply in_map_iff in Hpk1'. destruct Hpk1' as [jx [Ejx _]]. inversion Ejx; subst id1 jx.
      pose proof (leaves1_new _ _ _ Ht) as Hln. rewrite Hlf1 in Hln. inversion Hln; subst lf1. cbn [leaf_tgt] in Htg1. inversion Htg1; subst t1.
      exists nm, j1. split; [reflexivity|].
      split; [eapply fresh_not_sig; exact Ht|]. unfold owner_node. rewrite (find_by_name _ _ _ Ht). cbn [fst snd]. rewrite Hka, (pr_find x Hx), Hw.
      (* the index arithmetic *)
      assert (0 <= conn_index x1 (a_width a) w e k < a_width a) as Hidx.
      { destruct (conn_bit_some d x1 e port k _ _ w He1a ltac:(cbn [xbits]; rewrite E; reflexivity) Hw1 Hk He1) as [_ Hi]; [rewrite sig_bits_len by lia; exact Hcase1|].
        rewrite sig_bits_len in Hi by lia. exact Hi. }
      assert (j1 = conn_index x1 (a_width a) w e k) as ->.
      { unfold sig_bits in Hpk1. rewrite pick_map in Hpk1. destruct (pick_ok (iota (Z.to_nat (a_width a)) 0 1) (conn_index x1 (a_width a) w e k)) as [y [Hy Hny]]; [unfold zlen; rewrite iota_length; lia|].
        rewrite Hy in Hpk1. rewrite iota_nth in Hny by lia. inversion Hny; subst y. inversion Hpk1. lia. }
      unfold conn_index, elem_ok, single in *. rewrite Hwd. destruct (i_n x <=? 0) eqn:Es.
      * rewrite Z.eqb_refl. f_equal. f_equal. lia.
      * destruct (w * i_n x =? w) eqn:Ew.
        -- assert (i_n x = 1) by nia. assert (e = 0) by lia. subst e. f_equal. f_equal; [apply Z.div_small; lia|apply Z.mod_small; lia].
        -- f_equal. f_equal; [rewrite Z.div_add_l by lia; rewrite Z.div_small by lia; lia|rewrite Z.add_comm, Z.mod_add by lia; apply Z.mod_small; lia].
    + (* untouched *)
      left. cbn [snd] in *. subst e1.
      pose proof (old_leaf x (port, cx) id1 j1 bits1 Hx Hc Hnq Hb1 (pick_In _ _ _ Hpk1) lf1 Hlf1) as Hold.
      apply (local_tgt_leaf d m x e port k w cx bits1 id1 j1 lf1 t1 Ea Hb1 Hw Hk He); [rewrite Hlen1, <- Hnn1; exact Hcase1| |exact Hold|exact Htg1].
      rewrite Hlen1. unfold conn_index in *. exact Hpk1.
  - (* connected to nothing, but referred to: it owns the implicit signal of its group *)
    destruct (pr_inst x Hx) as [ports' [Hp' [_ [_ Hall]]]]. rewrite Hp in Hp'. inversion Hp'; subst ports'.
    pose proof (Hall (port, w) (assoc_In _ _ _ Hpw') Ea) as Hpos. cbn [fst] in Hpos.
    destruct (refs_to_pos_inv _ _ Hpos) as [x' [c' [Hx' [Hc' Hr']]]].
    assert (In (i_name x, port) (mentioned2 m)) as Hq by (apply pr_mentioned; eauto).
    pose proof (pr_ref_target x' c' _ Hx' Hc' Hr') as Hqk. apply (keys_In d km m keys Hwm Hkeys) in Hqk. destruct Hqk as [x2 [w2 [Hf2 [Hs2 _]]]].
    cbn [fst] in Hf2. rewrite (pr_find x Hx) in Hf2. inversion Hf2; subst x2.
    destruct (pr_lookup_added x x1 port Hx Hr Hs2 Ea Hq) as [id [a [nm [g [w3 [He1a [Ht [Hka [Hw3 [Haw _]]]]]]]]]].
    assert (w3 = w) as -> by congruence.
    assert (e = 0) as -> by (unfold elem_ok, single in *; rewrite Hs2 in He; lia).
    assert (Forall (leaf_ok1 d m1) (sx_leaves (XSig id (a_width a)))) as Hl1 by (constructor; [left; eapply leaf_ok_new; exact Ht|constructor]).
    assert (xwidth (XSig id (a_width a)) = Ok w) as Hcw1 by (cbn [xwidth]; rewrite Haw; destruct (w <? 1) eqn:E; [lia|reflexivity]).
    destruct (m1_local x1 0 port k w _ He1a Hw1 Hk He1 Hl1 w Hcw1 (or_introl eq_refl)) as [bits1 [id1 [j1 [lf1 [t1 [Hb1 [Hlen1 [Hpk1 [Hlf1 [Htg1 [Hns1 Hlt1]]]]]]]]]]].
    exists t1. split; [exact Hlt1|]. split; [exact Hns1|]. right. left.
    cbn [xbits] in Hb1. rewrite Haw in Hb1. destruct (w <? 1) eqn:E; [lia|]. inversion Hb1; subst bits1.
    unfold conn_index in Hpk1. rewrite Z.eqb_refl in Hpk1. unfold sig_bits in Hpk1. rewrite pick_map in Hpk1.
    destruct (pick_ok (iota (Z.to_nat w) 0 1) k) as [y [Hy Hny]]; [unfold zlen; rewrite iota_length; lia|].
    rewrite Hy in Hpk1. rewrite iota_nth in Hny by lia. inversion Hny; subst y. inversion Hpk1; subst id1 j1.
    pose proof (leaves1_new _ _ _ Ht) as Hln. rewrite Hlf1 in Hln. inversion Hln; subst lf1. cbn [leaf_tgt] in Htg1. inversion Htg1; subst t1.
    eexists. eexists. split; [reflexivity|].
    split; [eapply fresh_not_sig; exact Ht|]. unfold owner_node. rewrite (find_by_name _ _ _ Ht). cbn [fst snd]. rewrite Hka. cbn [fst snd].
    f_equal. f_equal. lia.
Qed.

(* an invented signal bit stands for a bit of a port of the module *)
Lemma owner_valid p id a nm k : In (id, a, nm) table -> 0 <= k < a_width a ->
  exists i e port kk x w, owner_node p nm k = Some (NPort p i e port kk) /\ find_inst (m_insts m) i = Some x /\
    elem_ok x e = true /\ port_width d x port = Ok w /\ 0 <= kk < w.
Proof.
  intros Ht Hk. unfold owner_node. rewrite (find_by_name _ _ _ Ht). cbn [fst snd].
  destruct (tbl_In _ _ _ Ht) as [Hal _]. destruct plan_facts as [Hgood _]. rewrite Forall_forall in Hgood.
  pose proof (Hgood a Hal) as G. unfold alloc_good in G. destruct (a_kind a) as [g o|i port] eqn:Eka.
  - destruct G as [Hgk [Hgg [namer [Hgr Hkw]]]]. destruct (group_res_fresh g o namer Hgk Hgg Hgr) as [Hok [Co [Hnk Cn]]].
    pose proof (conn_width d km m keys Hwm Hkeys o namer Hok Hnk (c_trans _ _ _ _ _ (c_sym _ _ _ _ Co) Cn)) as Hcw. rewrite Hkw in Hcw.
    apply (keys_In d km m keys Hwm Hkeys) in Hok. destruct Hok as [xo [wo [Hfo [Hso Hwo]]]].
    unfold key_width in Hcw. rewrite Hfo in Hcw. cbn [ofopt bind] in Hcw. assert (wo = a_width a) as -> by congruence.
    exists (fst o), 0, (snd o), k, xo, (a_width a). split; [reflexivity|]. split; [exact Hfo|]. split; [|auto].
    unfold elem_ok. unfold single in Hso. rewrite Hso. reflexivity.
  - destruct G as [x [w [cx [site [Hf [Hw [_ [_ Hwd]]]]]]]]. rewrite Hf, Hw.
    destruct (find_inst_In _ _ _ Hf) as [Hx _]. destruct (pr_port_facts x port w Hx Hw) as [ports [Hp Hpw']].
    pose proof (Hpw x ports (port, w) Hx Hp (assoc_In _ _ _ Hpw')) as Hwpos. cbn [snd] in Hwpos.
    unfold single in *. destruct (i_n x <=? 0) eqn:Es.
    + exists i, 0, port, k, x, w. split; [reflexivity|]. split; [exact Hf|]. split; [unfold elem_ok; rewrite Es; reflexivity|]. split; [exact Hw|lia].
    + exists i, (k / w), port, (k mod w), x, w. split; [reflexivity|]. split; [exact Hf|]. split; [|split; [exact Hw|apply Z.mod_pos_bound; lia]].
      unfold elem_ok. rewrite Es. assert (0 <= k / w) by (apply Z.div_pos; lia). assert (k / w < i_n x) by (apply Z.div_lt_upper_bound; nia). lia.
Qed.

(* an invented signal of the new module is in the table *)
Lemma fresh_sig_entry s w1 : sig_width m s = None -> sig_width1 s = Some w1 -> exists id a, In (id, a, s) table /\ a_width a = w1.
Proof.
  unfold sig_width, sig_width1, sigs1. destruct (assoc s (m_ports m)); [discriminate|]. intros Hn H. rewrite assoc_app, Hn in H.
  apply assoc_In in H. apply in_map_iff in H. destruct H as [[[id a] nm] [E Hin]]. cbn [fst snd] in E. inversion E; subst. eauto.
Qed.
End PRModule.
