(* Proofs/C01EProofsDfs.v — the depth-first export order (Model/C01EElab.v:dfs = ProtoExporter.export_module):
   every module is appended after everything it instantiates (definition before use), once, the fuel is never exhausted,
   and the external modules met on the way are declared once each. *)
From Coq Require Import String.
Require Import Hdl21.Base.PyInt Hdl21.Base.Design Hdl21.Spec.Nets Hdl21.Spec.WfDesign Hdl21.Base.Package
               Hdl21.Spec.PkgWf Hdl21.Spec.C01ENets Hdl21.Model.C01EElab Hdl21.Proofs.C01EProofsBase Hdl21.Proofs.C01EProofsWfs.
Open Scope Z_scope.

Definition child (d : design) (k k' : nat) : Prop :=
  exists m x, nth_mod d k = Ok m /\ In x (m_insts m) /\ i_of x = TMod k'.

Definition closed_order (d : design) (order : list nat) : Prop :=
  forall a k, nth_error order a = Some k -> forall k', child d k k' -> exists b, (b < a)%nat /\ nth_error order b = Some k'.

(* the external module declarations collected so far *)
Definition used_ext (xi : xinfo) (d : design) (e : pext) : Prop :=
  exists k m x dev ports v, nth_mod d k = Ok m /\ In x (m_insts m) /\ i_of x = TDev dev ports /\
                            assoc dev (x_devs xi) = Some v /\ dv_ext v = Some e.
Definition covers (xi : xinfo) (d : design) (order : list nat) (es : list pext) : Prop :=
  forall k m x dev ports v e, In k order -> nth_mod d k = Ok m -> In x (m_insts m) -> i_of x = TDev dev ports ->
    assoc dev (x_devs xi) = Some v -> dv_ext v = Some e -> ext_mem e es = true.

Record visit_inv (xi : xinfo) (d : design) (st : visit) : Prop := {
  vi_nodup : NoDup (fst st);
  vi_mods : forall k, In k (fst st) -> exists m, nth_mod d k = Ok m;
  vi_closed : closed_order d (fst st);
  vi_exts_nodup : nodup_exts (snd st) = true;
  vi_exts_from : forall e, In e (snd st) -> used_ext xi d e;
  vi_covers : covers xi d (fst st) (snd st) }.

Lemma NoDup_app_intro' {A} (a b : list A) : NoDup a -> NoDup b -> (forall x, In x a -> In x b -> False) -> NoDup (a ++ b).
Proof.
  induction a as [|x a IH]; intros Ha Hb H; cbn [app]; [exact Hb|]. inversion Ha; subst. constructor.
  - intros Hin. apply in_app_or in Hin. destruct Hin as [Hin|Hin]; [contradiction|]. apply (H x); [left; reflexivity|exact Hin].
  - apply IH; try assumption. intros y Hy. apply H. right. exact Hy.
Qed.

Lemma nth_error_Some_lt {A} (l : list A) n x : nth_error l n = Some x -> (n < Datatypes.length l)%nat.
Proof. intros H. apply nth_error_Some. congruence. Qed.

Lemma ext_mem_app e l r : ext_mem e l = true -> ext_mem e (l ++ r) = true.
Proof. unfold ext_mem. rewrite existsb_app. intros ->. reflexivity. Qed.

Lemma nodup_exts_snoc l e : nodup_exts l = true -> ext_mem e l = false -> nodup_exts (l ++ [e]) = true.
Proof.
  induction l as [|x l IH]; cbn [app nodup_exts]; intros H Hm; [reflexivity|].
  apply andb_prop in H. destruct H as [H1 H2]. unfold ext_mem in Hm. cbn [existsb] in Hm. apply orb_false_iff in Hm. destruct Hm as [Hm1 Hm2].
  rewrite IH by assumption. rewrite andb_true_r. rewrite existsb_app. apply negb_true_iff in H1. rewrite H1. cbn [existsb orb].
  rewrite orb_false_r. apply negb_true_iff.
  rewrite (String.eqb_sym (px_domain x)), (String.eqb_sym (px_name x)). exact Hm1.
Qed.

Section Dfs.
Variable xi : xinfo.
Variable d : design.
Hypothesis H_hier : forall k m x k', nth_mod d k = Ok m -> In x (m_insts m) -> i_of x = TMod k' ->
  (k' < k)%nat /\ exists m', nth_mod d k' = Ok m'.
Hypothesis H_devs : forall k m x dev ports, nth_mod d k = Ok m -> In x (m_insts m) -> i_of x = TDev dev ports ->
  exists v, assoc dev (x_devs xi) = Some v.

Definition visit_step (f : nat) (acc : result visit) (x : inst) : result visit :=
  s <- acc ;;
  match i_of x with
  | TMod k' => dfs xi d f k' s
  | TDev dev _ =>
      v <- ofopt EMissing (assoc dev (x_devs xi)) ;;
      match dv_ext v with
      | Some e => Ok (if ext_mem e (snd s) then s else (fst s, snd s ++ [e]))
      | None => Ok s
      end
  end.

Lemma dfs_unfold f k st : dfs xi d (S f) k st =
  if existsb (Nat.eqb k) (fst st) then Ok st else
  m <- nth_mod d k ;; st' <- fold_left (visit_step f) (m_insts m) (Ok st) ;; Ok (fst st' ++ [k], snd st').
Proof. reflexivity. Qed.

(* what one call adds: only indices below the bound, at the end; declarations are only added *)
Definition extends (b : nat) (st st' : visit) : Prop :=
  (exists ext, fst st' = fst st ++ ext /\ forall j, In j ext -> (j < b)%nat) /\
  (forall e, ext_mem e (snd st) = true -> ext_mem e (snd st') = true).

Lemma extends_refl b st : extends b st st.
Proof. split; [|auto]. exists []. rewrite app_nil_r. split; [reflexivity|]. intros j []. Qed.

Lemma extends_trans b b' st1 st2 st3 : (b' <= b)%nat -> extends b st1 st2 -> extends b' st2 st3 -> extends b st1 st3.
Proof.
  intros Hk [[e1 [H1 L1]] M1] [[e2 [H2 L2]] M2]. split; [|auto]. exists (e1 ++ e2). rewrite H2, H1, app_assoc. split; [reflexivity|].
  intros j Hj. apply in_app_or in Hj. destruct Hj as [Hj|Hj]; [apply L1; exact Hj|]. specialize (L2 j Hj). lia.
Qed.

Lemma extends_In b st st' j : extends b st st' -> In j (fst st) -> In j (fst st').
Proof. intros [[ext [E _]] _] Hj. rewrite E. apply in_or_app. left. exact Hj. Qed.

Lemma closed_order_app order ext : closed_order d order ->
  (forall a k, nth_error (order ++ ext) a = Some k -> (Datatypes.length order <= a)%nat ->
     forall k', child d k k' -> exists b, (b < a)%nat /\ nth_error (order ++ ext) b = Some k') ->
  closed_order d (order ++ ext).
Proof.
  intros Hc Hnew a k Ha k' Hch. destruct (Nat.lt_ge_cases a (Datatypes.length order)) as [Hlt|Hge].
  - rewrite nth_error_app1 in Ha by exact Hlt. destruct (Hc a k Ha k' Hch) as [b [Hb Hnb]]. exists b. split; [exact Hb|].
    rewrite nth_error_app1 by lia. exact Hnb.
  - apply (Hnew a k Ha Hge k' Hch).
Qed.

Lemma ext_mem_self e l : ext_mem e (l ++ [e]) = true.
Proof. unfold ext_mem. rewrite existsb_app. cbn [existsb]. rewrite !String.eqb_refl. cbn. apply orb_true_r. Qed.

(* one instance of the loop body *)
Lemma visit_step_spec f k m x s :
  (forall k' st, (k' < f)%nat -> (exists m, nth_mod d k' = Ok m) -> visit_inv xi d st ->
     exists st', dfs xi d f k' st = Ok st' /\ visit_inv xi d st' /\ extends (S k') st st' /\ In k' (fst st')) ->
  (k <= f)%nat -> nth_mod d k = Ok m -> In x (m_insts m) -> visit_inv xi d s ->
  exists s1, visit_step f (Ok s) x = Ok s1 /\ visit_inv xi d s1 /\ extends k s s1 /\
    (forall k', i_of x = TMod k' -> In k' (fst s1)) /\
    (forall dev ports v e, i_of x = TDev dev ports -> assoc dev (x_devs xi) = Some v -> dv_ext v = Some e -> ext_mem e (snd s1) = true).
Proof.
  intros IH Hf Hm Hx Hs. unfold visit_step. cbn [bind]. destruct (i_of x) as [k'|dev ports] eqn:Eo.
  - destruct (H_hier k m x k' Hm Hx Eo) as [Hlt Hm'].
    destruct (IH k' s ltac:(lia) Hm' Hs) as [s1 [Hd [Hi [He Hk']]]]. exists s1. split; [exact Hd|]. split; [exact Hi|].
    split; [apply (extends_trans k (S k') s s s1 ltac:(lia) (extends_refl k s) He)|].
    split; [intros k2 E2; inversion E2; subst; exact Hk'|intros; discriminate].
  - destruct (H_devs k m x dev ports Hm Hx Eo) as [v Hv]. rewrite Hv. cbn [ofopt bind].
    destruct (dv_ext v) as [e|] eqn:Ee.
    + destruct (ext_mem e (snd s)) eqn:Em.
      * exists s. split; [reflexivity|]. split; [exact Hs|]. split; [apply extends_refl|]. split; [intros; discriminate|].
        intros dev' ports' v' e' E1 E2 E3. inversion E1; subst. rewrite Hv in E2. inversion E2; subst. rewrite Ee in E3. inversion E3; subst. exact Em.
      * exists (fst s, snd s ++ [e]). split; [reflexivity|]. destruct Hs as [I1 I2 I3 I4 I5 I6]. split.
        { constructor; cbn [fst snd]; try assumption.
          - apply nodup_exts_snoc; assumption.
          - intros e' He'. apply in_app_or in He'. destruct He' as [He'|[<-|[]]]; [apply I5; exact He'|]. exists k, m, x, dev, ports, v. auto.
          - intros k0 m0 x0 dev0 ports0 v0 e0 H1 H2 H3 H4 H5 H6. apply ext_mem_app. eapply I6; eassumption. }
        split; [split; [exists []; cbn [fst]; rewrite app_nil_r; split; [reflexivity|intros j []]|intros e' He'; cbn [snd]; apply ext_mem_app; exact He']|].
        split; [intros; discriminate|].
        intros dev' ports' v' e' E1 E2 E3. inversion E1; subst. rewrite Hv in E2. inversion E2; subst. rewrite Ee in E3. inversion E3; subst.
        cbn [snd]. apply ext_mem_self.
    + exists s. split; [reflexivity|]. split; [exact Hs|]. split; [apply extends_refl|]. split; [intros; discriminate|].
      intros dev' ports' v' e' E1 E2 E3. inversion E1; subst. rewrite Hv in E2. inversion E2; subst. rewrite Ee in E3. discriminate.
Qed.

Lemma visit_loop_spec f k m :
  (forall k' st, (k' < f)%nat -> (exists m, nth_mod d k' = Ok m) -> visit_inv xi d st ->
     exists st', dfs xi d f k' st = Ok st' /\ visit_inv xi d st' /\ extends (S k') st st' /\ In k' (fst st')) ->
  (k <= f)%nat -> nth_mod d k = Ok m ->
  forall l s, (forall x, In x l -> In x (m_insts m)) -> visit_inv xi d s ->
    exists s', fold_left (visit_step f) l (Ok s) = Ok s' /\ visit_inv xi d s' /\ extends k s s' /\
      (forall x k', In x l -> i_of x = TMod k' -> In k' (fst s')) /\
      (forall x dev ports v e, In x l -> i_of x = TDev dev ports -> assoc dev (x_devs xi) = Some v ->
                               dv_ext v = Some e -> ext_mem e (snd s') = true).
Proof.
  intros IH Hf Hm. induction l as [|x l IHl]; intros s Hsub Hs; cbn [fold_left].
  - exists s. split; [reflexivity|]. split; [exact Hs|]. split; [apply extends_refl|]. split; [intros x k' []|intros x dev ports v e []].
  - assert (In x (m_insts m)) as Hx by (apply Hsub; left; reflexivity).
    destruct (visit_step_spec f k m x s IH Hf Hm Hx Hs) as [s1 [Hs1 [Hi1 [He1 [Hc1 Hd1]]]]]. rewrite Hs1.
    destruct (IHl s1 (fun y Hy => Hsub y (or_intror Hy)) Hi1) as [s' [Hf' [Hi' [He' [Hc' Hd']]]]].
    exists s'. split; [exact Hf'|]. split; [exact Hi'|]. split; [apply (extends_trans k k s s1 s' (Nat.le_refl k) He1 He')|]. split.
    + intros y k' [<-|Hy] Ey; [|eapply Hc'; eassumption]. eapply extends_In; [exact He'|]. apply Hc1. exact Ey.
    + intros y dev ports v e [<-|Hy] E1 E2 E3; [|eapply Hd'; eassumption]. destruct He' as [_ Hmono]. apply Hmono. eapply Hd1; eassumption.
Qed.

Theorem dfs_spec : forall fuel k st, (k < fuel)%nat -> (exists m, nth_mod d k = Ok m) -> visit_inv xi d st ->
  exists st', dfs xi d fuel k st = Ok st' /\ visit_inv xi d st' /\ extends (S k) st st' /\ In k (fst st').
Proof.
  induction fuel as [|f IH]; intros k st Hf [m Hm] Hinv; [lia|]. rewrite dfs_unfold.
  destruct (existsb (Nat.eqb k) (fst st)) eqn:Ein.
  - exists st. split; [reflexivity|]. split; [exact Hinv|]. split; [apply extends_refl|].
    apply existsb_exists in Ein. destruct Ein as [j [Hj E]]. apply Nat.eqb_eq in E. subst j. exact Hj.
  - rewrite Hm. cbn [bind].
    destruct (visit_loop_spec f k m IH ltac:(lia) Hm (m_insts m) st (fun x H => H) Hinv) as [s' [Hf' [Hi' [He' [Hc' Hd']]]]].
    rewrite Hf'. cbn [bind]. exists (fst s' ++ [k], snd s'). split; [reflexivity|].
    destruct He' as [[ext [Eext Lext]] Hmono]. destruct Hi' as [I1 I2 I3 I4 I5 I6].
    assert (~ In k (fst s')) as Hnk.
    { rewrite Eext. intros Hin. apply in_app_or in Hin. destruct Hin as [Hin|Hin].
      - assert (existsb (Nat.eqb k) (fst st) = true) as C; [|congruence]. apply existsb_exists. exists k. split; [exact Hin|apply Nat.eqb_refl].
      - specialize (Lext k Hin). lia. }
    split; [|split].
    + constructor; cbn [fst snd]; try assumption.
      * apply NoDup_app_intro'; [exact I1|constructor; [intros []|constructor]|]. intros j Hj [<-|[]]. contradiction.
      * intros j Hj. apply in_app_or in Hj. destruct Hj as [Hj|[<-|[]]]; [apply I2; exact Hj|eauto].
      * apply closed_order_app; [exact I3|]. intros a k0 Ha Hge k' Hch.
        assert (a = Datatypes.length (fst s')) as ->.
        { apply nth_error_Some_lt in Ha. rewrite app_length in Ha. cbn in Ha. lia. }
        rewrite nth_error_app2 in Ha by lia. rewrite Nat.sub_diag in Ha. cbn in Ha. inversion Ha; subst k0.
        destruct Hch as [m0 [x [Hm0 [Hx Ex]]]]. rewrite Hm in Hm0. inversion Hm0; subst m0.
        pose proof (Hc' x k' Hx Ex) as Hin. apply In_nth_error in Hin. destruct Hin as [b Hb].
        exists b. split; [apply nth_error_Some_lt in Hb; exact Hb|]. rewrite nth_error_app1; [exact Hb|apply nth_error_Some_lt in Hb; exact Hb].
      * intros k0 m0 x dev ports v e Hk0 Hm0 Hx E1 E2 E3. apply in_app_or in Hk0. destruct Hk0 as [Hk0|[<-|[]]].
        -- eapply I6; eassumption.
        -- rewrite Hm in Hm0. inversion Hm0; subst m0. eapply Hd'; eassumption.
    + split; [|exact Hmono]. exists (ext ++ [k]). cbn [fst]. rewrite Eext, app_assoc. split; [reflexivity|].
      intros j Hj. apply in_app_or in Hj. destruct Hj as [Hj|[<-|[]]]; [specialize (Lext j Hj); lia|lia].
    + cbn [fst]. apply in_or_app. right. left. reflexivity.
Qed.
End Dfs.
