Require Import Hdl21.Base.PyInt Hdl21.Spec.PySlice Hdl21.Model.Slice Hdl21.Model.Resolve Hdl21.Proofs.SliceProofs.

(* ---------- induction principle for the nested type ---------- *)
Section sx_ind'.
  Variable P : sx -> Prop.
  Hypothesis Hsig : forall id w, P (XSig id w).
  Hypothesis Hsl : forall p ix, P p -> P (XSlice p ix).
  Hypothesis Hcat : forall ps, Forall P ps -> P (XConcat ps).
  Fixpoint sx_ind' (x : sx) : P x :=
    match x with
    | XSig id w => Hsig id w
    | XSlice p ix => Hsl p ix (sx_ind' p)
    | XConcat ps => Hcat ps ((fix go (ps : list sx) : Forall P ps :=
                                match ps with [] => Forall_nil _ | p :: ps' => Forall_cons _ (sx_ind' p) (go ps') end) ps)
    end.
End sx_ind'.

(* ---------- generic lemmas on pick / select ---------- *)
Lemma pick_ok {A} (l : list A) i : 0 <= i < zlen l -> exists x, pick l i = Ok x /\ nth_error l (Z.to_nat i) = Some x.
Proof.
  intros H. unfold pick. destruct (i <? 0) eqn:E; [lia|].
  destruct (nth_error l (Z.to_nat i)) eqn:En; [eauto|].
  apply nth_error_None in En. unfold zlen in H. lia.
Qed.

Lemma pick_map {A B} (g : A -> B) (l : list A) i :
  pick (map g l) i = match pick l i with Ok x => Ok (g x) | Error e => Error e end.
Proof.
  unfold pick. destruct (i <? 0); [reflexivity|]. rewrite nth_error_map.
  destruct (nth_error l (Z.to_nat i)); reflexivity.
Qed.

Lemma select_map {A B} (g : A -> B) (l : list A) idxs :
  select (map g l) idxs = match select l idxs with Ok r => Ok (map g r) | Error e => Error e end.
Proof.
  unfold select. induction idxs as [|i is IH]; cbn [traverse]; [reflexivity|].
  rewrite pick_map. destruct (pick l i); cbn [bind]; [|reflexivity].
  rewrite IH. destruct (traverse (pick l) is); reflexivity.
Qed.

Lemma select_total {A} (l : list A) idxs :
  (forall y, In y idxs -> 0 <= y < zlen l) -> exists r, select l idxs = Ok r /\ length r = length idxs.
Proof.
  unfold select. induction idxs as [|i is IH]; intros H; cbn [traverse].
  - exists []. split; reflexivity.
  - destruct (pick_ok l i) as [x [Hx _]]; [apply H; left; reflexivity|].
    destruct IH as [r [Hr Hl]]; [intros y Hy; apply H; right; exact Hy|].
    rewrite Hx, Hr. cbn [bind]. exists (x :: r). split; [reflexivity|simpl; congruence].
Qed.

Lemma pick_In {A} (l : list A) i x : pick l i = Ok x -> In x l.
Proof.
  unfold pick. destruct (i <? 0); [discriminate|]. destruct (nth_error l (Z.to_nat i)) eqn:E; [|discriminate].
  intros H; inversion H; subst. eapply nth_error_In; eauto.
Qed.

Lemma select_Forall {A} (P : A -> Prop) (l : list A) idxs r : Forall P l -> select l idxs = Ok r -> Forall P r.
Proof.
  intros HP. unfold select. revert r. induction idxs as [|i is IH]; cbn [traverse]; intros r H.
  - inversion H. constructor.
  - destruct (pick l i) eqn:Ep; cbn [bind] in H; [|discriminate].
    destruct (traverse (pick l) is) eqn:Et; cbn [bind] in H; [|discriminate].
    inversion H; subst. constructor; [|apply IH; reflexivity].
    rewrite Forall_forall in HP. apply HP. eapply pick_In; eauto.
Qed.

(* selecting the positions b, b+1, .., b+n-1 of an arithmetic list *)
Lemma select_iota_gen {A} (g : Z -> A) m : forall n b, 0 <= b -> b + Z.of_nat n <= Z.of_nat m ->
  select (map g (iota m 0 1)) (iota n b 1) = Ok (map g (iota n b 1)).
Proof.
  induction n as [|n IH]; intros b Hb Hle; unfold select in *; cbn [iota traverse map]; [reflexivity|].
  rewrite pick_map. unfold pick at 1. destruct (b <? 0) eqn:E; [lia|].
  rewrite (iota_nth m 0 1 (Z.to_nat b)) by lia. cbn [bind].
  rewrite IH by lia. cbn [bind]. do 2 f_equal. f_equal. lia.
Qed.

Lemma select_id {A} (l : list A) : select l (iota (length l) 0 1) = Ok l.
Proof.
  assert (G : forall (pre : list A) l, select (pre ++ l) (iota (length l) (zlen pre) 1) = Ok l).
  { clear l. intros pre l. revert pre. induction l as [|x xs IH]; intros pre; unfold select in *; cbn [length iota traverse]; [reflexivity|].
    unfold pick at 1. destruct (zlen pre <? 0) eqn:E; [unfold zlen in E; lia|].
    unfold zlen at 1. rewrite Nat2Z.id. rewrite nth_error_app2 by lia. rewrite Nat.sub_diag. cbn [nth_error bind].
    specialize (IH (pre ++ [x])). rewrite <- app_assoc in IH. cbn [app] in IH.
    replace (zlen (pre ++ [x])) with (zlen pre + 1) in IH by (unfold zlen; rewrite app_length; simpl; lia).
    rewrite IH. reflexivity. }
  apply (G [] l).
Qed.

Lemma cat_results_map_ok {A B} (f : A -> result (list B)) (l : list A) (r : list B) :
  cat_results (map f l) = Ok r -> exists rs, traverse f l = Ok rs /\ r = concat rs.
Proof.
  revert r. induction l as [|x xs IH]; cbn [map cat_results traverse]; intros r H.
  - inversion H. exists []. split; reflexivity.
  - destruct (f x) eqn:Ef; cbn [bind] in *; [|discriminate].
    destruct (cat_results (map f xs)) eqn:Ec; cbn [bind] in *; [|discriminate].
    inversion H; subst. destruct (IH _ eq_refl) as [rs [Hrs ->]]. rewrite Hrs. cbn [bind].
    exists (a :: rs). split; reflexivity.
Qed.

(* ---------- width = number of bits; same acceptance ---------- *)
Lemma sig_bits_len id w : 1 <= w -> zlen (sig_bits id w) = w.
Proof. intros H. unfold zlen, sig_bits. rewrite map_length, iota_length. lia. Qed.

Lemma xwidth_xbits x :
  match xbits x with
  | Ok l => xwidth x = Ok (zlen l)
  | Error _ => exists e, xwidth x = Error e
  end.
Proof.
  induction x as [id w|p ix IH|ps IH] using sx_ind'; cbn [xbits xwidth].
  - destruct (w <? 1) eqn:E; [eauto|]. rewrite sig_bits_len by lia. reflexivity.
  - destruct (xbits p) as [pb|e]; cbn [bind].
    + rewrite IH. cbn [bind].
      pose proof (slice_inner_sel (zlen pb) ix ltac:(unfold zlen; lia)) as S.
      destruct (slice_inner (zlen pb) ix) as [r|e]; cbn [bind].
      * destruct S as [S [Hw _]]. rewrite S. cbn [bind].
        destruct (select_total pb (inner_bits r)) as [l [Hl Hlen]].
        { intros y Hy. eapply sel_in_range; eauto. unfold zlen; lia. }
        rewrite Hl. f_equal. rewrite Hw. unfold zlen. congruence.
      * destruct S as [e' S]. rewrite S. cbn [bind]. eauto.
    + destruct IH as [e' IH]. rewrite IH. cbn [bind]. eauto.
  - induction IH as [|p ps Hp _ IHps]; cbn [map cat_results sum_results]; [reflexivity|].
    destruct (xbits p) as [a|e]; cbn [bind].
    + rewrite Hp. cbn [bind]. destruct (cat_results (map xbits ps)) as [b|e]; cbn [bind].
      * rewrite IHps. cbn [bind]. f_equal. unfold zlen. rewrite app_length. lia.
      * destruct IHps as [e' ->]. cbn [bind]. eauto.
    + destruct Hp as [e' ->]. cbn [bind]. eauto.
Qed.

(* ---------- _list_bits ---------- *)
Definition fbit1 (f : flat) : bit := match f with FSig id _ => (id, 0) | FSl id _ b _ => (id, b) end.
Definition onebit_wf (f : flat) : Prop := flat_wf f = true /\ fbits f = [fbit1 f].

Lemma iota_map_shift n : forall a, iota n a 1 = map (fun k => k + a) (iota n 0 1).
Proof.
  induction n; intros a; cbn [iota map]; [reflexivity|]. f_equal. rewrite (IHn (a + 1)), (IHn (0 + 1)).
  rewrite map_map. apply map_ext. intros; lia.
Qed.

Lemma sig_bit_flats_spec id w : 1 <= w ->
  map fbit1 (sig_bit_flats id w) = sig_bits id w /\ Forall onebit_wf (sig_bit_flats id w).
Proof.
  intros Hw. unfold sig_bit_flats, sig_bits. destruct (w =? 1) eqn:E.
  - assert (w = 1) as -> by lia. split; [reflexivity|]. repeat constructor.
  - split.
    + rewrite map_map. reflexivity.
    + apply Forall_forall. intros f Hf. apply in_map_iff in Hf. destruct Hf as [k [<- Hk]].
      apply iota_in in Hk. destruct Hk as [j [Hj ->]]. split.
      * cbn [flat_wf]. lia.
      * cbn [fbits fbit1]. replace (0 + j * 1 + 1 - (0 + j * 1)) with 1 by lia. reflexivity.
Qed.

Lemma list_bits_spec x :
  match xbits x with
  | Ok bs => exists l, list_bits x = Ok l /\ bs = map fbit1 l /\ Forall onebit_wf l
  | Error _ => exists e, list_bits x = Error e
  end.
Proof.
  induction x as [id w|p ix IH|ps IH] using sx_ind'; cbn [xbits list_bits].
  - destruct (w <? 1) eqn:E; [eauto|]. destruct (sig_bit_flats_spec id w ltac:(lia)) as [H1 H2]. eauto.
  - pose proof (xwidth_xbits p) as W.
    destruct (xbits p) as [pb|e]; cbn [bind].
    + rewrite W. cbn [bind]. destruct IH as [lp [Hlp [-> Fp]]].
      pose proof (slice_inner_sel (zlen (map fbit1 lp)) ix ltac:(unfold zlen; lia)) as S.
      destruct (slice_inner (zlen (map fbit1 lp)) ix) as [r|e]; cbn [bind].
      * destruct S as [S _]. rewrite S, Hlp. cbn [bind]. rewrite select_map.
        destruct (select lp (inner_bits r)) as [l|e] eqn:El; [|eauto].
        exists l. repeat split. eapply select_Forall; eauto.
      * destruct S as [e' S]. rewrite S. cbn [bind]. eauto.
    + destruct W as [e' ->]. cbn [bind]. eauto.
  - induction IH as [|p ps Hp _ IHps]; cbn [map cat_results].
    + exists []. repeat split. constructor.
    + destruct (xbits p) as [a|e]; cbn [bind].
      * destruct Hp as [la [-> [-> Fa]]]. cbn [bind].
        destruct (cat_results (map xbits ps)) as [b|e]; cbn [bind].
        -- destruct IHps as [lb [-> [-> Fb]]]. cbn [bind]. exists (la ++ lb).
           repeat split; [rewrite map_app; reflexivity|apply Forall_app; split; assumption].
        -- destruct IHps as [e' ->]. cbn [bind]. eauto.
      * destruct Hp as [e' ->]. cbn [bind]. eauto.
Qed.

Lemma onebit_flats_bits l : Forall onebit_wf l -> flats_bits l = map fbit1 l.
Proof.
  unfold flats_bits. induction 1 as [|f l [_ Hf] _ IH]; cbn [map concat]; [reflexivity|].
  rewrite Hf, IH. reflexivity.
Qed.

Lemma onebit_wf_flat_wf l : Forall onebit_wf l -> Forall (fun f => flat_wf f = true) l.
Proof. apply Forall_impl. intros f [H _]. exact H. Qed.

(* ---------- facts on _slice_inner used by _list_slice ---------- *)
Lemma slice_inner_step1 w ix r : slice_inner w ix = Ok r -> step r = 1 -> top r = bot r + width r.
Proof.
  destruct ix as [i|a b os]; unfold slice_inner.
  - destruct ((w <=? i) || (i <? - w)); [discriminate|]. intros H; inversion H; subst; clear H. cbn. lia.
  - destruct (step_of os =? 0); [discriminate|].
    destruct (py_start_stop w a b (step_of os)) as [lo hi].
    destruct (py_len lo hi (step_of os) <? 1) eqn:En; [discriminate|].
    destruct (0 <? step_of os) eqn:Es; intros H; inversion H; subst; clear H; cbn [top bot step width]; intros Hs; lia.
Qed.

Lemma inner_bits_step1 w ix r : 0 <= w -> slice_inner w ix = Ok r -> step r = 1 ->
  inner_bits r = iota (Z.to_nat (width r)) (bot r) 1 /\ 0 <= bot r /\ bot r + width r <= w /\ 1 <= width r.
Proof.
  intros Hw H Hs. pose proof (slice_inner_step1 _ _ _ H Hs) as Ht.
  pose proof (slice_inner_sel w ix Hw) as S. rewrite H in S. destruct S as [S [Hwid H1]].
  assert (Hb : inner_bits r = iota (Z.to_nat (width r)) (bot r) 1).
  { unfold inner_bits, py_range. rewrite Hs. change (0 <? 1) with true. cbv iota. rewrite Ht.
    replace (bot r + width r) with (bot r + (width r - 1) * 1 + 1) by lia.
    rewrite py_len_pos_exact by lia. reflexivity. }
  split; [exact Hb|].
  assert (In (bot r) (inner_bits r)).
  { rewrite Hb. destruct (Z.to_nat (width r)) eqn:E; [lia|]. left. reflexivity. }
  assert (In (bot r + (width r - 1)) (inner_bits r)).
  { rewrite Hb. apply nth_error_In with (n := Z.to_nat (width r - 1)).
    rewrite iota_nth by lia. f_equal. lia. }
  pose proof (sel_in_range _ _ _ _ Hw S H0). pose proof (sel_in_range _ _ _ _ Hw S H2). lia.
Qed.

(* ---------- _list_sliceable / _list_slice ---------- *)
Lemma list_flat_spec x :
  match xbits x with
  | Ok bs => exists l, list_flat x = Ok l /\ flats_bits l = bs /\ Forall (fun f => flat_wf f = true) l
  | Error _ => exists e, list_flat x = Error e
  end.
Proof.
  induction x as [id w|p ix IH|ps IH] using sx_ind'; cbn [xbits list_flat].
  - destruct (w <? 1) eqn:E; [eauto|]. exists [FSig id w]. repeat split.
    + unfold flats_bits. cbn. apply app_nil_r.
    + repeat constructor. cbn. lia.
  - pose proof (xwidth_xbits p) as W. pose proof (list_bits_spec p) as B.
    destruct (xbits p) as [pb|e] eqn:Exp; cbn [bind].
    2:{ destruct W as [e' ->]. cbn [bind]. eauto. }
    rewrite W. cbn [bind]. destruct IH as [lp [Hlp [Hbits Fp]]].
    pose proof (slice_inner_sel (zlen pb) ix ltac:(unfold zlen; lia)) as S.
    destruct (slice_inner (zlen pb) ix) as [r|e] eqn:Esi; cbn [bind].
    2:{ destruct S as [e' ->]. cbn [bind]. eauto. }
    destruct S as [S [Hwid H1]]. rewrite S. cbn [bind].
    destruct (select_total pb (inner_bits r)) as [bs [Hsel _]].
    { intros y Hy. eapply sel_in_range; eauto. unfold zlen; lia. }
    rewrite Hsel.
    (* the bit-at-a-time fallback, shared by two branches *)
    assert (Fallback : exists l, (pb0 <- list_bits p ;; select pb0 (inner_bits r)) = Ok l /\
              flats_bits l = bs /\ Forall (fun f => flat_wf f = true) l).
    { destruct B as [lb [Hlb [Hpb Fb]]]. rewrite Hlb. cbn [bind].
      destruct (select_total lb (inner_bits r)) as [l [Hl _]].
      { intros y Hy. replace (zlen lb) with (zlen pb) by (rewrite Hpb; unfold zlen; rewrite map_length; reflexivity).
        eapply sel_in_range; eauto. unfold zlen; lia. }
      exists l. split; [exact Hl|]. assert (Fl : Forall onebit_wf l) by (eapply select_Forall; eauto).
      split; [|apply onebit_wf_flat_wf; exact Fl].
      rewrite onebit_flats_bits by exact Fl. rewrite Hpb, select_map, Hl in Hsel. congruence. }
    destruct ((step r =? 1) && (width r =? zlen pb)) eqn:Efull.
    + (* full-width, in-order: the parent itself *)
      exists lp. split; [exact Hlp|]. split; [|exact Fp].
      assert (Hz : 0 <= zlen pb) by (unfold zlen; lia). assert (Hs1 : step r = 1) by lia.
      destruct (inner_bits_step1 _ _ _ Hz Esi Hs1) as [Hb [Hb0 [Hbw _]]].
      assert (bot r = 0) by lia.
      rewrite Hb, H in Hsel.
      replace (Z.to_nat (width r)) with (length pb) in Hsel by (unfold zlen in *; lia).
      rewrite select_id in Hsel. congruence.
    + destruct (is_sig p) as [[id w]|] eqn:Esig.
      * destruct (step r =? 1) eqn:Es1.
        -- clear Hbits. destruct p; try discriminate. cbn in Esig. inversion Esig; subst; clear Esig.
           cbn [xbits] in Exp. destruct (w <? 1) eqn:Ew; [discriminate|]. inversion Exp; subst; clear Exp.
           rewrite sig_bits_len in * by lia.
           assert (Hz : 0 <= w) by lia. assert (Hs1 : step r = 1) by lia.
           destruct (inner_bits_step1 _ _ _ Hz Esi Hs1) as [Hb [Hb0 [Hbw Hw1]]].
           pose proof (slice_inner_step1 _ _ _ Esi Hs1) as Ht.
           exists [FSl id w (bot r) (top r)]. repeat split.
           ++ unfold flats_bits. cbn [map concat fbits]. rewrite app_nil_r. rewrite Hb in Hsel.
              unfold sig_bits in Hsel. replace (top r - bot r) with (width r) by lia.
              rewrite select_iota_gen in Hsel by lia. inversion Hsel. reflexivity.
           ++ repeat constructor. cbn [flat_wf]. lia.
        -- destruct Fallback as [l [Hl [Hbl Fl]]]. exists l. rewrite Hl. repeat split; assumption.
      * destruct Fallback as [l [Hl [Hbl Fl]]]. exists l. rewrite Hl. repeat split; assumption.
  - induction IH as [|p ps Hp _ IHps]; cbn [map cat_results].
    + exists []. repeat split. constructor.
    + destruct (xbits p) as [a|e]; cbn [bind].
      * destruct Hp as [la [-> [<- Fa]]]. cbn [bind].
        destruct (cat_results (map xbits ps)) as [b|e]; cbn [bind].
        -- destruct IHps as [lb [-> [<- Fb]]]. cbn [bind]. exists (la ++ lb).
           repeat split; [unfold flats_bits; rewrite map_app, concat_app; reflexivity|apply Forall_app; split; assumption].
        -- destruct IHps as [e' ->]. cbn [bind]. eauto.
      * destruct Hp as [e' ->]. cbn [bind]. eauto.
Qed.

(* every bit an expression denotes lies inside a signal that occurs in it *)
Fixpoint leaves (x : sx) : list (N * Z) :=
  match x with
  | XSig id w => [(id, w)]
  | XSlice p _ => leaves p
  | XConcat ps => concat (map leaves ps)
  end.

Lemma xbits_inside x : forall bs, xbits x = Ok bs ->
  forall id k, In (id, k) bs -> exists w, In (id, w) (leaves x) /\ 0 <= k < w.
Proof.
  induction x as [id0 w0|p ix IH|ps IH] using sx_ind'; cbn [xbits leaves]; intros bs H id k Hin.
  - destruct (w0 <? 1) eqn:E; [discriminate|]. inversion H; subst; clear H.
    unfold sig_bits in Hin. apply in_map_iff in Hin. destruct Hin as [j [Hj Hi]]. inversion Hj; subst.
    apply iota_in in Hi. destruct Hi as [m [Hm ->]]. exists w0. split; [left; reflexivity|lia].
  - destruct (xbits p) as [pb|e]; cbn [bind] in H; [|discriminate].
    destruct (sel (zlen pb) ix) as [idxs|e]; cbn [bind] in H; [|discriminate].
    apply (IH pb eq_refl id k).
    assert (F : Forall (fun b => In b pb) bs).
    { eapply select_Forall with (l := pb); [|exact H]. apply Forall_forall. auto. }
    rewrite Forall_forall in F. apply F. exact Hin.
  - revert bs H Hin. induction IH as [|p ps Hp _ IHps]; cbn [map cat_results concat]; intros bs H Hin.
    + inversion H; subst. destruct Hin.
    + destruct (xbits p) as [a|e]; cbn [bind] in H; [|discriminate].
      destruct (cat_results (map xbits ps)) as [b|e]; cbn [bind] in H; [|discriminate].
      inversion H; subst; clear H. apply in_app_or in Hin. destruct Hin as [Hin|Hin].
      * destruct (Hp a eq_refl id k Hin) as [w [Hw Hk]]. exists w. split; [apply in_or_app; left; exact Hw|exact Hk].
      * destruct (IHps b eq_refl Hin) as [w [Hw Hk]]. exists w. split; [apply in_or_app; right; exact Hw|exact Hk].
Qed.
