(* Proofs/C01GProofsAnon.v — flatten_anonymous_bundle (Model/BundleFlat.v:flatten_anon) read by PATH: when the member names of
   every anonymous bundle are pairwise distinct (Python keyword arguments / dict keys always are), looking a path up in the
   flattened scope is navigating the anonymous bundle member by member (anon_lookup).  No collision error is reachable then,
   and the `dict[path] = signal` overwrite of scalar members never overwrites anything. *)
From Coq Require Import String.
Require Import Hdl21.Base.PyInt.
Require Import Hdl21.Spec.BundleSpec Hdl21.Model.BundleFlat Hdl21.Proofs.BundleProofs.
Open Scope list_scope.

Section anon_ind'.
  Variable A : Type.
  Variable P : anon A -> Prop.
  Hypothesis HS : forall a, P (ASig a).
  Hypothesis HC : forall sc, P (AScope sc).
  Hypothesis HA : forall ms, Forall (fun na => P (snd na)) ms -> P (AAnon ms).
  Fixpoint anon_ind' (x : anon A) : P x :=
    match x with
    | ASig a => HS a
    | AScope sc => HC sc
    | AAnon ms => HA ms ((fix go (l : list (string * anon A)) : Forall (fun na => P (snd na)) l :=
                            match l with [] => Forall_nil _ | na :: l' => Forall_cons _ (anon_ind' (snd na)) (go l') end) ms)
    end.
End anon_ind'.

Fixpoint aassoc {A} (n : string) (l : list (string * A)) : option A :=
  match l with [] => None | (n', v) :: l' => if String.eqb n n' then Some v else aassoc n l' end.

(* navigation: member by member; a scalar member ends the path, a scope is looked up by the rest of the path *)
Fixpoint anon_lookup {A} (x : anon A) (q : path) : option A :=
  match x with
  | ASig a => match q with [] => Some a | _ :: _ => None end
  | AScope sc => passoc q sc
  | AAnon ms =>
      match q with
      | [] => None
      | n :: rest =>
          (fix go (l : list (string * anon A)) : option A :=
             match l with
             | [] => None
             | (n', sub) :: l' => if String.eqb n n' then anon_lookup sub rest else go l'
             end) ms
      end
  end.

Fixpoint anon_nodup {A} (x : anon A) : bool :=
  match x with
  | AAnon ms => snodup (map fst ms) &&
                (fix go (l : list (string * anon A)) : bool := match l with [] => true | (_, sub) :: l' => anon_nodup sub && go l' end) ms
  | _ => true
  end.

Definition fa_go {A} : list (string * anon A) -> list (path * A) -> result (list (path * A)) :=
  fix go (l : list (string * anon A)) (sc : list (path * A)) : result (list (path * A)) :=
    match l with
    | [] => Ok sc
    | (n, ASig a) :: rest => go rest (passign [n] a sc)
    | (n, sub) :: rest => ss <- flatten_anon sub ;; sc' <- add_subscope n ss sc ;; go rest sc'
    end.

Lemma flatten_anon_AAnon {A} (ms : list (string * anon A)) : flatten_anon (AAnon ms) = fa_go ms [].
Proof. reflexivity. Qed.

Definition al_go {A} (n : string) (rest : path) : list (string * anon A) -> option A :=
  fix go (l : list (string * anon A)) : option A :=
    match l with
    | [] => None
    | (n', sub) :: l' => if String.eqb n n' then anon_lookup sub rest else go l'
    end.

Lemma anon_lookup_AAnon {A} (ms : list (string * anon A)) n rest : anon_lookup (AAnon ms) (n :: rest) = al_go n rest ms.
Proof. reflexivity. Qed.

Lemma passoc_passign {A} p (a : A) l q : passoc q (passign p a l) = if path_eqb p q then Some a else passoc q l.
Proof.
  induction l as [|[r b] l IH]; cbn [passign passoc].
  - destruct (path_eqb p q); reflexivity.
  - destruct (path_eqb r p) eqn:E.
    + apply path_eqb_eq in E. subst r. cbn [passoc]. destruct (path_eqb p q); reflexivity.
    + cbn [passoc]. destruct (path_eqb r q) eqn:E2.
      * destruct (path_eqb p q) eqn:E3; [|reflexivity]. apply path_eqb_eq in E2, E3. subst. rewrite path_eqb_refl in E. discriminate.
      * exact IH.
Qed.

Lemma add_subscope_inv {A} n (sub : list (path * A)) : forall sc r, add_subscope n sub sc = Ok r -> r = sc ++ prefix_scope n sub.
Proof.
  induction sub as [|[q s] rest IH]; intros sc r; cbn [add_subscope prefix_scope map].
  - intros H. inversion H. rewrite app_nil_r. reflexivity.
  - destruct (pmem (n :: q) sc); [discriminate|]. intros H. apply IH in H. rewrite H, <- app_assoc. reflexivity.
Qed.

Lemma passoc_prefix {A} n (s : list (path * A)) q :
  passoc q (prefix_scope n s) = match q with n' :: rest => if String.eqb n n' then passoc rest s else None | [] => None end.
Proof.
  induction s as [|[p a] s IH]; cbn [prefix_scope map passoc fst snd].
  - destruct q as [|n' rest]; [reflexivity|]. destruct (String.eqb n n'); reflexivity.
  - destruct q as [|n' rest]; cbn [path_eqb]; [exact IH|].
    destruct (String.eqb n n') eqn:E; cbn [andb].
    + destruct (path_eqb p rest); [reflexivity|]. unfold prefix_scope in IH. rewrite IH. reflexivity.
    + unfold prefix_scope in IH. rewrite IH. reflexivity.
Qed.

Lemma aassoc_notin {A} n (l : list (string * A)) : ~ In n (map fst l) -> aassoc n l = None.
Proof.
  induction l as [|[n' v] l IH]; intros H; [reflexivity|]. cbn [aassoc]. cbn [map fst In] in H.
  destruct (String.eqb n n') eqn:E; [apply String.eqb_eq in E; subst; tauto|]. apply IH. tauto.
Qed.

Lemma al_go_notin {A} n rest (l : list (string * anon A)) : ~ In n (map fst l) -> al_go n rest l = None.
Proof.
  induction l as [|[n' v] l IH]; intros H; [reflexivity|]. cbn [al_go]. cbn [map fst In] in H.
  destruct (String.eqb n n') eqn:E; [apply String.eqb_eq in E; subst; tauto|]. apply IH. tauto.
Qed.

Section Lookup.
Variable A : Type.

(* the loop over the members *)
Lemma fa_go_spec (l : list (string * anon A)) :
  Forall (fun na => forall s, flatten_anon (snd na) = Ok s -> forall q, passoc q s = anon_lookup (snd na) q) l ->
  NoDup (map fst l) ->
  forall sc0 sc, (forall n rest, In n (map fst l) -> passoc (n :: rest) sc0 = None) ->
  fa_go l sc0 = Ok sc ->
  forall q, passoc q sc = match q with
                          | [] => passoc [] sc0
                          | n :: rest => if smem n (map fst l) then al_go n rest l else passoc q sc0
                          end.
Proof.
  induction l as [|[n sub] l IH]; intros HF ND sc0 sc Hfree H q.
  - cbn [fa_go] in H. inversion H; subst. destruct q; reflexivity.
  - inversion HF as [|? ? Hsub HF']; subst. cbn [map fst] in ND. inversion ND as [|? ? Hn ND']; subst. cbn [snd] in Hsub.
    assert (Hstep : exists sc1, fa_go l sc1 = Ok sc /\
              (forall q, passoc q sc1 = match q with
                                        | [] => passoc [] sc0
                                        | n' :: rest => if String.eqb n n' then anon_lookup sub rest else passoc q sc0
                                        end)).
    { destruct sub as [a|s|ms].
      - cbn [fa_go] in H. exists (passign [n] a sc0). split; [exact H|]. intros q'. rewrite passoc_passign.
        destruct q' as [|n' rest]; cbn [path_eqb]; [reflexivity|].
        destruct (String.eqb n n') eqn:E; cbn [andb anon_lookup]; [|reflexivity].
        apply String.eqb_eq in E. subst n'. destruct rest; [reflexivity|]. apply Hfree. left. reflexivity.
      - cbn [fa_go flatten_anon bind] in H.
        destruct (add_subscope n s sc0) as [sc1|] eqn:E1; cbn [bind] in H; [|discriminate].
        exists sc1. split; [exact H|]. apply add_subscope_inv in E1. subst sc1. intros q'. rewrite passoc_app, passoc_prefix.
        destruct q' as [|n' rest]; [destruct (passoc [] sc0); reflexivity|].
        destruct (String.eqb n n') eqn:E.
        + apply String.eqb_eq in E. subst n'. rewrite Hfree by (left; reflexivity). reflexivity.
        + destruct (passoc (n' :: rest) sc0); reflexivity.
      - change (fa_go ((n, AAnon ms) :: l) sc0) with (ss <- flatten_anon (AAnon ms) ;; sc' <- add_subscope n ss sc0 ;; fa_go l sc') in H.
        destruct (flatten_anon (AAnon ms)) as [ss|] eqn:E0; cbn [bind] in H; [|discriminate].
        destruct (add_subscope n ss sc0) as [sc1|] eqn:E1; cbn [bind] in H; [|discriminate].
        exists sc1. split; [exact H|]. apply add_subscope_inv in E1. subst sc1. intros q'. rewrite passoc_app, passoc_prefix.
        destruct q' as [|n' rest]; [destruct (passoc [] sc0); reflexivity|].
        destruct (String.eqb n n') eqn:E.
        + apply String.eqb_eq in E. subst n'. rewrite Hfree by (left; reflexivity). apply (Hsub ss eq_refl).
        + destruct (passoc (n' :: rest) sc0); reflexivity. }
    destruct Hstep as [sc1 [H1 Hsc1]].
    assert (Hfree1 : forall n' rest, In n' (map fst l) -> passoc (n' :: rest) sc1 = None).
    { intros n' rest Hin. rewrite Hsc1. destruct (String.eqb n n') eqn:E.
      - apply String.eqb_eq in E. subst n'. contradiction.
      - apply Hfree. right. exact Hin. }
    rewrite (IH HF' ND' sc1 sc Hfree1 H1 q). destruct q as [|n' rest]; [apply (Hsc1 [])|].
    cbn [map fst smem al_go]. rewrite (String.eqb_sym n' n).
    destruct (String.eqb n n') eqn:E; cbn [orb].
    + apply String.eqb_eq in E. subst n'.
      assert (smem n (map fst l) = false) as -> by (apply smem_false; exact Hn).
      rewrite Hsc1, String.eqb_refl. reflexivity.
    + destruct (smem n' (map fst l)); [reflexivity|]. rewrite Hsc1, E. reflexivity.
Qed.

Lemma al_go_smem n rest (l : list (string * anon A)) : smem n (map fst l) = false -> al_go n rest l = None.
Proof. intros H. apply al_go_notin. apply smem_false. exact H. Qed.

Theorem flatten_anon_lookup (x : anon A) : anon_nodup x = true -> forall sc, flatten_anon x = Ok sc ->
  forall q, passoc q sc = anon_lookup x q.
Proof.
  induction x as [a|s|ms IH] using anon_ind'; intros ND sc H q.
  - discriminate.
  - cbn [flatten_anon] in H. inversion H; subst. reflexivity.
  - rewrite flatten_anon_AAnon in H. cbn [anon_nodup] in ND. apply andb_prop in ND. destruct ND as [ND1 ND2].
    apply snodup_NoDup in ND1.
    assert (HF : Forall (fun na => forall s, flatten_anon (snd na) = Ok s -> forall q, passoc q s = anon_lookup (snd na) q) ms).
    { clear H ND1. induction IH as [|[n sub] l Hx _ IHl]; [constructor|].
      apply andb_prop in ND2. destruct ND2 as [N1 N2]. constructor; [|apply IHl; exact N2].
      cbn [snd] in *. intros s Hs q'. apply Hx; assumption. }
    rewrite (fa_go_spec ms HF ND1 [] sc (fun _ _ _ => eq_refl) H q).
    destruct q as [|n rest]; [reflexivity|]. rewrite anon_lookup_AAnon.
    destruct (smem n (map fst ms)) eqn:E; [reflexivity|]. symmetry. apply al_go_smem. exact E.
Qed.
End Lookup.
