Require Import Hdl21.Base.PyInt Hdl21.Spec.PySlice Hdl21.Model.Slice Hdl21.Model.Resolve Hdl21.Base.Design
               Hdl21.Base.Package Hdl21.Spec.WfDesign Hdl21.Spec.PkgWf.

Section ptarget_ind'.
  Variable P : ptarget -> Prop.
  Hypothesis Hsig : forall s, P (PSig s).
  Hypothesis Hsl : forall s t b, P (PSlice s t b).
  Hypothesis Hcat : forall ps, Forall P ps -> P (PConcat ps).
  Fixpoint ptarget_ind' (t : ptarget) : P t :=
    match t with
    | PSig s => Hsig s
    | PSlice s t b => Hsl s t b
    | PConcat ps => Hcat ps ((fix go (ps : list ptarget) : Forall P ps :=
                                match ps with [] => Forall_nil _ | p :: ps' => Forall_cons _ (ptarget_ind' p) (go ps') end) ps)
    end.
End ptarget_ind'.

Lemma check_ok b e : check b e = Ok tt -> b = true.
Proof. unfold check. destruct b; [reflexivity|discriminate]. Qed.

Lemma traverse_ok_in {A B} (f : A -> result B) l : forall r, traverse f l = Ok r -> forall x, In x l -> exists y, f x = Ok y.
Proof.
  induction l as [|a l IH]; cbn [traverse]; intros r H x Hx; [destruct Hx|].
  destruct (f a) eqn:Ea; cbn [bind] in H; [|discriminate].
  destruct (traverse f l) eqn:Et; cbn [bind] in H; [|discriminate].
  destruct Hx as [<-|Hx]; [eauto|]. eapply IH; eauto.
Qed.

Lemma all_ok_in {A} (f : A -> result unit) l : all_ok f l = Ok tt -> forall x, In x l -> f x = Ok tt.
Proof.
  unfold all_ok. intros H x Hx. destruct (traverse f l) as [r|e] eqn:Et; cbn [bind] in H; [|discriminate].
  destruct (traverse_ok_in f l r Et x Hx) as [[] Hy]. exact Hy.
Qed.

(* a strict reading only ever names bits inside declared signals *)
Lemma read_msb_inside sigs t : forall bits, read_target_msb sigs t = Ok bits ->
  forall s k, In (s, k) bits -> exists sw, assoc s sigs = Some sw /\ 0 <= k < sw.
Proof.
  induction t as [s0|s0 top bot|ps IH] using ptarget_ind'; cbn [read_target_msb]; intros bits H s k Hin.
  - destruct (assoc s0 sigs) as [w|] eqn:Ea; cbn [ofopt bind] in H; [|discriminate].
    destruct (w <? 1) eqn:Ew; [discriminate|]. inversion H; subst; clear H.
    apply in_rev in Hin. apply in_map_iff in Hin. destruct Hin as [j [Hj Hi]]. inversion Hj; subst.
    apply iota_in in Hi. destruct Hi as [m [Hm ->]]. exists w. split; [exact Ea|lia].
  - destruct (assoc s0 sigs) as [w|] eqn:Ea; cbn [ofopt bind] in H; [|discriminate].
    destruct ((0 <=? bot) && (bot <=? top) && (top <? w)) eqn:Ew; [|discriminate]. inversion H; subst; clear H.
    apply in_rev in Hin. apply in_map_iff in Hin. destruct Hin as [j [Hj Hi]]. inversion Hj; subst.
    apply iota_in in Hi. destruct Hi as [m [Hm ->]]. exists w. split; [exact Ea|lia].
  - revert bits H Hin. induction IH as [|p ps Hp _ IHps]; cbn [map cat_results]; intros bits H Hin.
    + inversion H; subst. destruct Hin.
    + destruct (read_target_msb sigs p) as [a|e]; cbn [bind] in H; [|discriminate].
      destruct (cat_results (map (read_target_msb sigs) ps)) as [b|e]; cbn [bind] in H; [|discriminate].
      inversion H; subst; clear H. apply in_app_or in Hin. destruct Hin as [Hin|Hin].
      * exact (Hp a eq_refl s k Hin).
      * exact (IHps b eq_refl Hin).
Qed.

Lemma read_inside sigs t bits : read_target sigs t = Ok bits ->
  forall s k, In (s, k) bits -> exists sw, assoc s sigs = Some sw /\ 0 <= k < sw.
Proof.
  unfold read_target. destruct (read_target_msb sigs t) as [r|e] eqn:E; cbn [bind]; [|discriminate].
  intros H s k Hin. inversion H; subst. apply in_rev in Hin. eapply read_msb_inside; eauto.
Qed.

Lemma wf_pmods_each prims p : forall ms earlier, wf_pmods prims p earlier ms = Ok tt ->
  forall pre m post, ms = pre ++ m :: post -> wf_pmodule prims p (earlier ++ pre) m = Ok tt.
Proof.
  induction ms as [|m0 ms IH]; intros earlier H pre m post E.
  - destruct pre; discriminate.
  - cbn [wf_pmods] in H. destruct (wf_pmodule prims p earlier m0) as [[]|e] eqn:E0; cbn [bind] in H; [|discriminate].
    destruct pre as [|x pre]; cbn [app] in E; inversion E; subst.
    + rewrite app_nil_r. exact E0.
    + specialize (IH _ H pre m post eq_refl). rewrite <- app_assoc in IH. exact IH.
Qed.

(* What a package accepted by wf_pkg guarantees, declaratively. *)
Definition conn_closed (m : pmodule) (ports : list (name * Z)) (c : name * ptarget) : Prop :=
  exists w bits, assoc (fst c) ports = Some w /\ read_target (pm_sigs m) (snd c) = Ok bits /\ zlen bits = w /\
    forall s k, In (s, k) bits -> exists sw, assoc s (pm_sigs m) = Some sw /\ 0 <= k < sw.

Theorem wf_pkg_closed prims p : wf_pkg prims p = Ok tt ->
  forall pre m post, pk_mods p = pre ++ m :: post ->
    (* unique module names, definition before use *)
    (forall m', In m' pre -> pm_name m' <> pm_name m) /\
    (* every port names a declared signal *)
    (forall pd, In pd (pm_ports m) -> exists w, assoc (fst pd) (pm_sigs m) = Some w) /\
    (* every instance refers to an EARLIER module, a declared external module or a known primitive; every
       connection names declared signals, stays inside their widths, has the width of its port; every port is connected *)
    (forall i, In i (pm_insts m) -> exists ports, ref_ports prims p pre (pi_ref i) = Ok ports /\
        (forall c, In c (pi_conns i) -> conn_closed m ports c) /\
        (forall pw, In pw ports -> exists t, assoc (fst pw) (pi_conns i) = Some t)).
Proof.
  unfold wf_pkg. intros H pre m post E.
  destruct (check (nodup_exts (pk_exts p)) EName) as [[]|]; cbn [bind] in H; [|discriminate].
  destruct (check _ EName) as [[]|]; cbn [bind] in H; [|discriminate].
  pose proof (wf_pmods_each prims p _ _ H pre m post E) as Hm. cbn [app] in Hm. clear H.
  unfold wf_pmodule in Hm.
  destruct (check (negb (String.eqb (pm_name m) "")) EName) as [[]|]; cbn [bind] in Hm; [|discriminate].
  destruct (check (negb (existsb (fun m' => String.eqb (pm_name m') (pm_name m)) pre)) EName) as [[]|] eqn:Huniq; cbn [bind] in Hm; [apply check_ok in Huniq|discriminate].
  destruct (check (nodup_names (map fst (pm_sigs m))) EName) as [[]|]; cbn [bind] in Hm; [|discriminate].
  destruct (check (nodup_names (map fst (pm_ports m))) EName) as [[]|]; cbn [bind] in Hm; [|discriminate].
  destruct (check (nodup_names (map pi_name (pm_insts m))) EName) as [[]|]; cbn [bind] in Hm; [|discriminate].
  destruct (check (forallb (fun sw => 1 <=? snd sw) (pm_sigs m)) EWidth) as [[]|]; cbn [bind] in Hm; [|discriminate].
  destruct (check (forallb (fun pd => match assoc (fst pd) (pm_sigs m) with Some _ => true | None => false end) (pm_ports m)) EMissing) as [[]|] eqn:Hports; cbn [bind] in Hm; [apply check_ok in Hports|discriminate].
  split; [|split].
  - intros m' Hin Heq. apply negb_true_iff in Huniq. assert (X : existsb (fun m'0 => String.eqb (pm_name m'0) (pm_name m)) pre = true).
    { apply existsb_exists. exists m'. split; [exact Hin|]. apply String.eqb_eq. exact Heq. }
    congruence.
  - intros pd Hin. rewrite forallb_forall in Hports. specialize (Hports pd Hin).
    destruct (assoc (fst pd) (pm_sigs m)) as [w|]; [eauto|discriminate].
  - intros i Hi. pose proof (all_ok_in _ _ Hm i Hi) as Hinst. unfold wf_pinst in Hinst.
    destruct (ref_ports prims p pre (pi_ref i)) as [ports|e]; cbn [bind] in Hinst; [|discriminate].
    exists ports. split; [reflexivity|].
    destruct (check (nodup_names (map fst (pi_conns i))) EExtra) as [[]|]; cbn [bind] in Hinst; [|discriminate].
    destruct (all_ok (wf_pconn m ports) (pi_conns i)) as [[]|] eqn:Hconns; cbn [bind] in Hinst; [|discriminate].
    split.
    + intros c Hcin. pose proof (all_ok_in _ _ Hconns c Hcin) as Hcc. unfold wf_pconn in Hcc.
      destruct (assoc (fst c) ports) as [w|] eqn:Ea; cbn [ofopt bind] in Hcc; [|discriminate].
      destruct (read_target (pm_sigs m) (snd c)) as [bits|e] eqn:Er; cbn [bind] in Hcc; [|discriminate].
      apply check_ok in Hcc. apply Z.eqb_eq in Hcc. unfold conn_closed. exists w, bits. split; [exact Ea|]. split; [exact Er|]. split; [exact Hcc|]. intros s k Hin. eapply read_inside; eauto.
    + intros pw Hpw. pose proof (all_ok_in _ _ Hinst pw Hpw) as Hp. cbv beta in Hp.
      destruct (assoc (fst pw) (pi_conns i)) as [t|]; [eauto|discriminate].
Qed.
