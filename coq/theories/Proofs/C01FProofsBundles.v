(* Proofs/C01FProofsBundles.v — composition of the lowering lemma of the bundle fragment (Props/C01B.v:C01B_lower_step,
   Proofs/C01BLowerProofs.v) with the end-to-end theorem of the extended pipeline model (Proofs/C01FProofsEnd.v).
   `bsame_net d x y` : the orbits of x and y under Spec/C01BNets.v:bstep meet - the relation `blabels` decides.
   A node is LIVE when every iterate of bstep from it exists and is a node of the design; that follows from two DECIDABLE
   checks on a computed orbit that contains it: every node on it is a node of the design (the hypothesis of
   C01B_lower_labels) and the orbit is closed under bstep (orbit_closed). *)
From Coq Require Import String.
Require Import Hdl21.Base.PyInt Hdl21.Spec.PySlice Hdl21.Model.Slice Hdl21.Model.Resolve Hdl21.Base.Design
               Hdl21.Spec.Nets Hdl21.Spec.WfDesign Hdl21.Base.Package Hdl21.Base.PrimTable Hdl21.Spec.PkgWf
               Hdl21.Base.C01BDesign Hdl21.Spec.C01BNets Hdl21.Spec.C01BWf Hdl21.Spec.C01BLower
               Hdl21.Spec.C01ENets Hdl21.Model.C01EElab Hdl21.Model.C01FElab Hdl21.Spec.C01FNets
               Hdl21.Proofs.C01BProofs Hdl21.Proofs.C01BLowerProofs
               Hdl21.Proofs.C01EProofsGraph Hdl21.Proofs.C01EProofsBase Hdl21.Proofs.C01EProofsPass Hdl21.Proofs.C01EProofsSim Hdl21.Proofs.C01EProofsEnd
               Hdl21.Proofs.C01FProofsEnd.
Open Scope Z_scope.

Definition bsame_net (d : bdesign) (x y : bnode) : Prop := meet_r (bstep d) x y.

(* every element of the (computed) orbit steps to an element of the orbit *)
Definition orbit_closed (d : bdesign) (o : list bnode) : bool :=
  forallb (fun a => match bstep d a with Ok z => existsb (bnode_eqb z) o | Error _ => false end) o.

Definition live (d : bdesign) (x : bnode) : Prop :=
  forall n, exists z, iter_r (bstep d) n x = Ok z /\ bnode_ok d z = true.

Lemma live_step d x : live d x -> exists y, bstep d x = Ok y /\ live d y.
Proof.
  intros H. destruct (H 1%nat) as [z [Hz _]]. cbn [iter_r] in Hz. destruct (bstep d x) as [y|] eqn:E; cbn [bind] in Hz; [|discriminate].
  exists y. split; [reflexivity|]. intros n. destruct (H (S n)) as [z' [Hz' Hok]]. cbn [iter_r] in Hz'. rewrite E in Hz'. cbn [bind] in Hz'. eauto.
Qed.

Lemma closed_orbit_live d o : forallb (bnode_ok d) o = true -> orbit_closed d o = true -> forall x, In x o -> live d x.
Proof.
  intros Hok Hcl. rewrite forallb_forall in Hok. unfold orbit_closed in Hcl. rewrite forallb_forall in Hcl.
  assert (forall n x, In x o -> exists z, iter_r (bstep d) n x = Ok z /\ In z o) as G.
  { induction n as [|n IH]; intros x Hx; cbn [iter_r]; [eauto|].
    specialize (Hcl x Hx). destruct (bstep d x) as [y|]; [|discriminate]. cbn [bind].
    apply existsb_exists in Hcl. destruct Hcl as [y' [Hy' E]]. apply bnode_eqb_eq in E. subst y'. apply IH. exact Hy'. }
  intros x Hx n. destruct (G n x Hx) as [z [Hz Hin]]. exists z. split; [exact Hz|apply Hok; exact Hin].
Qed.

Lemma borbit_head d fuel x o : borbit d fuel x = Ok o -> In x o.
Proof.
  destruct fuel as [|f]; cbn [borbit]; intros H.
  - inversion H. left. reflexivity.
  - destruct (bstep d x) as [n'|]; cbn [bind] in H; [|discriminate]. destruct (bnode_eqb n' x); [inversion H; left; reflexivity|].
    destruct (borbit d f n') as [r|]; cbn [bind] in H; [|discriminate]. inversion H. left. reflexivity.
Qed.

(* the lowering keeps "the orbits meet", both ways, on live nodes *)
Theorem lower_meet fl d x y : names_ok fl d = true -> pairs_ok d = true -> live d x -> live d y ->
  (bsame_net d x y <-> same_net (lower fl d) (C01BLower.phi fl x) (C01BLower.phi fl y)).
Proof.
  intros Hn Hp Hx Hy. rewrite same_net_meet_r. unfold bsame_net.
  apply (sim_meet bnode node (bstep d) (Nets.step (lower fl d)) (live d) (C01BLower.phi fl)).
  - intros a Ha. apply live_step. exact Ha.
  - intros a b Ha Hab. apply (C01BLowerProofs.lower_step fl d Hn Hp a b); [|exact Hab]. destruct (Ha 0%nat) as [z [Hz Hok]]. cbn [iter_r] in Hz. inversion Hz; subst. exact Hok.
  - intros a b Ha Hb E. apply (C01BLowerProofs.phi_inj fl d Hn a b); [| |exact E].
    + destruct (Ha 0%nat) as [z [Hz Hok]]. cbn [iter_r] in Hz. inversion Hz; subst. exact Hok.
    + destruct (Hb 0%nat) as [z [Hz Hok]]. cbn [iter_r] in Hz. inversion Hz; subst. exact Hok.
  - exact Hx.
  - exact Hy.
Qed.

(* ---- bundles end to end ---- *)
Theorem bundles_end_to_end fl xi d fuel ts os p tl :
  names_ok fl d = true -> pairs_ok d = true ->
  traverse (borbit d fuel) ts = Ok os -> forallb (forallb (bnode_ok d)) os = true -> forallb (orbit_closed d) os = true ->
  wf_design (lower fl d) = Ok tt -> frag_ok2 (lower fl d) = true -> xinfo_ok xi (lower fl d) = true ->
  terminals (lower fl d) = Ok tl -> forallb (fun t => existsb (node_eqb (C01BLower.phi fl t)) (map fst tl)) ts = true ->
  elab_export_model2 xi (lower fl d) = Ok p ->
  exists tn, top_name (lower fl d) = Ok tn /\
    forall t1 t2, In t1 ts -> In t2 ts ->
      (same_net_pkg p tn (term_map2 xi (lower fl d) (C01BLower.phi fl t1)) (term_map2 xi (lower fl d) (C01BLower.phi fl t2)) <-> bsame_net d t1 t2).
Proof.
  intros Hn Hp Hos Hok Hcl Hwf Hfr Hxi Htl Hin Hm.
  destruct (end_to_end2 xi (lower fl d) p Hwf Hfr Hxi Hm) as [tn [pd [Htn [Hpd [_ [Hs _]]]]]].
  exists tn. split; [exact Htn|]. intros t1 t2 H1 H2.
  assert (forall t, In t ts -> live d t /\ valid (lower fl d) (C01BLower.phi fl t)) as G.
  { intros t Ht. split.
    - apply traverse_Forall2 in Hos. destruct (Forall2_In_l _ _ _ t Hos Ht) as [o [Ho Hbo]].
      rewrite forallb_forall in Hok, Hcl. apply (closed_orbit_live d o (Hok o Ho) (Hcl o Ho)). eapply borbit_head. exact Hbo.
    - rewrite forallb_forall in Hin. specialize (Hin t Ht). apply existsb_exists in Hin. destruct Hin as [n [Hn' E]].
      apply NetsProofs.node_eqb_eq in E. subst n. apply in_map_iff in Hn'. destruct Hn' as [[n dev] [E Hnd]]. cbn [fst] in E. subst n.
      apply (terminals_valid xi (lower fl d) tl Hwf Hxi Htl (C01BLower.phi fl t) dev Hnd). }
  destruct (G t1 H1) as [L1 V1]. destruct (G t2 H2) as [L2 V2].
  rewrite (lower_meet fl d t1 t2 Hn Hp L1 L2). rewrite <- (Hs _ _ V1 V2). unfold same_net_pkg. split.
  - intros [pd' [Hpd' H]]. rewrite Hpd in Hpd'. inversion Hpd'; subst pd'. exact H.
  - intros H. exists pd. auto.
Qed.
