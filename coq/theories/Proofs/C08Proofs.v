(* Proofs/C08Proofs.v — lemmas about Model/C08PassFail.v (policy `repaired`) and Model/C08GenFail.v (cleanup = true). *)
Require Import Hdl21.Base.PyInt Hdl21.Model.C08PassFail Hdl21.Model.C08GenFail.
Open Scope list_scope.

(* ------------------------------------------------------------------ finite sets as lists *)
Lemma eqpm_true x y : eqpm x y = true <-> x = y.
Proof.
  destruct x as [a b], y as [c d]. unfold eqpm. cbn [fst snd]. rewrite andb_true_iff, !Nat.eqb_eq.
  split; [intros [-> ->]; reflexivity | intros H; inversion H; auto].
Qed.
Lemma eqpm_refl x : eqpm x x = true.
Proof. apply eqpm_true. reflexivity. Qed.
Lemma eqpm_false x y : eqpm x y = false <-> x <> y.
Proof. rewrite <- eqpm_true. destruct (eqpm x y); split; congruence. Qed.

Lemma remp_notin x l : memp x l = false -> remp x l = l.
Proof.
  induction l as [|y l IH]; cbn; [reflexivity|]. intros H. apply orb_false_iff in H. destruct H as [H1 H2].
  rewrite H1. cbn. f_equal. apply IH. exact H2.
Qed.
Lemma remp_head x l : memp x l = false -> remp x (x :: l) = l.
Proof. intros H. cbn. rewrite eqpm_refl. cbn. apply remp_notin. exact H. Qed.

Lemma memp_cons x y l : memp x (y :: l) = eqpm x y || memp x l.
Proof. reflexivity. Qed.

Lemma memn_app x a b : memn x (a ++ b) = memn x a || memn x b.
Proof. unfold memn. apply existsb_app. Qed.

(* ------------------------------------------------------------------ one pass, repaired policy *)
Section Pass.
Variable kids : nat -> option (list nat).
Variable p : pass.

Notation X m := (pid p, m).

Lemma visit_S f k s m :
  visit repaired kids f p (S k) s m =
  match rec_of m (failed s) with
  | Some c => (s, Some (CE c))
  | None =>
      if memp (X m) (done s) then (s, None) else
      if memp (X m) (pend s) then (s, Some (CCycle m)) else
      match kids m with
      | None => (s, Some (CNoMod m))
      | Some cs =>
          match fold_visit (visit repaired kids f p k) (add_pend (X m) s) cs with
          | (s2, Some e) => (unpend (X m) s2, Some e)
          | (s2, None) =>
              match f (pid p) m with
              | Some c => (unpend (X m) (if prw p then interrupted repaired m c s2 else s2), Some (CE c))
              | None => (set_done (X m) (pmk p) (unpend (X m) s2), None)
              end
          end
      end
  end.
Proof. reflexivity. Qed.

(* what every visit function of pass p guarantees about one call  v s m = (s', r) *)
Definition Good (v : pst -> nat -> pst * option cerr) : Prop :=
  forall s m s' r, v s m = (s', r) ->
    pend s' = pend s /\
    (forall y, memp y (done s) = true -> memp y (done s') = true) /\
    (forall x, memp (X x) (pend s) = true \/ memp (X x) (done s) = true -> rec_of x (failed s') = rec_of x (failed s)) /\
    (forall x, memp (X x) (pend s) = true -> memp (X x) (done s') = memp (X x) (done s)) /\
    (failed s' = failed s \/ exists m0 c, failed s' = (m0, c) :: failed s /\ r = Some (CE c)) /\
    (r = None -> failed s' = failed s /\ memp (X m) (done s') = true /\ rec_of m (failed s) = None) /\
    (forall x, rec_of x (failed s) <> None ->
       rec_of x (failed s') <> None /\ (forall q, memp (q, x) (done s') = memp (q, x) (done s)) /\
       memn x (elab s') = memn x (elab s)) /\
    (forall x, In x (half s') -> In x (half s) \/ rec_of x (failed s') <> None) /\
    (forall x, In x (half s) -> In x (half s')).

(* the same guarantees for a traversal of a list of modules *)
Definition GoodL (w : pst -> list nat -> pst * option cerr) : Prop :=
  forall s ms s' r, w s ms = (s', r) ->
    pend s' = pend s /\
    (forall y, memp y (done s) = true -> memp y (done s') = true) /\
    (forall x, memp (X x) (pend s) = true \/ memp (X x) (done s) = true -> rec_of x (failed s') = rec_of x (failed s)) /\
    (forall x, memp (X x) (pend s) = true -> memp (X x) (done s') = memp (X x) (done s)) /\
    (failed s' = failed s \/ exists m0 c, failed s' = (m0, c) :: failed s /\ r = Some (CE c)) /\
    (r = None -> failed s' = failed s /\ forall m, In m ms -> memp (X m) (done s') = true /\ rec_of m (failed s) = None) /\
    (forall x, rec_of x (failed s) <> None ->
       rec_of x (failed s') <> None /\ (forall q, memp (q, x) (done s') = memp (q, x) (done s)) /\
       memn x (elab s') = memn x (elab s)) /\
    (forall x, In x (half s') -> In x (half s) \/ rec_of x (failed s') <> None) /\
    (forall x, In x (half s) -> In x (half s')).

Lemma fold_good v : Good v -> GoodL (fold_visit v).
Proof.
  intros G s ms. revert s. induction ms as [|m ms IH]; intros s s' r H; cbn in H.
  - inversion H; subst. repeat split; auto; try discriminate; try (intros; contradiction); contradiction.
  - destruct (v s m) as [s1 r1] eqn:E. pose proof (G _ _ _ _ E) as (A1 & A2 & A3 & A4 & A5 & A6 & A7 & A8 & A9).
    destruct r1 as [e|].
    + inversion H; subst. split; [exact A1|]. split; [exact A2|]. split; [exact A3|]. split; [exact A4|].
      split; [exact A5|]. split; [discriminate|]. split; [exact A7|]. split; [exact A8 | exact A9].
    + destruct (A6 eq_refl) as (F1 & D1 & R1).
      pose proof (IH _ _ _ H) as (B1 & B2 & B3 & B4 & B5 & B6 & B7 & B8 & B9).
      split; [congruence|]. split; [auto|]. split.
      { intros x Hx. rewrite B3, A3; auto. rewrite A1. destruct Hx as [Hx|Hx]; [left; exact Hx | right; apply A2; exact Hx]. }
      split. { intros x Hx. rewrite B4, A4; auto. rewrite A1. exact Hx. }
      split. { rewrite <- F1. exact B5. }
      split.
      { intros ->. destruct (B6 eq_refl) as (F2 & D2). split; [congruence|]. intros m' [<-|Hm].
        - split; [apply B2; exact D1 | exact R1].
        - destruct (D2 _ Hm) as (D3 & R3). split; [exact D3 | rewrite <- F1; exact R3]. }
      split.
      { intros x Hx. destruct (A7 x Hx) as (C1 & C2 & C3). destruct (B7 x C1) as (E1 & E2 & E3).
        split; [exact E1|]. split; [intros q; rewrite E2, C2; reflexivity | congruence]. }
      split.
      { intros x Hx. destruct (B8 x Hx) as [Hx'|Hx']; [|right; exact Hx'].
        destruct (A8 x Hx') as [Hx''|Hx'']; [left; exact Hx''|]. right. apply B7. exact Hx''. }
      auto.
Qed.

Lemma rec_of_cons_ne x m c l : x <> m -> rec_of x ((m, c) :: l) = rec_of x l.
Proof. intros H. cbn. apply Nat.eqb_neq in H. rewrite H. reflexivity. Qed.

Lemma memp_X_ne q x m l : x <> m -> memp (q, x) ((pid p, m) :: l) = memp (q, x) l.
Proof.
  intros H. rewrite memp_cons. replace (eqpm (q, x) (X m)) with false; [reflexivity|].
  symmetry. apply eqpm_false. intros E. inversion E. congruence.
Qed.

Lemma visit_good f : forall k, Good (visit repaired kids f p k).
Proof.
  induction k as [|k IH]; intros s m s' r H.
  - cbn in H. inversion H; subst. repeat split; auto; try discriminate.
  - rewrite visit_S in H. destruct (rec_of m (failed s)) as [c|] eqn:ER.
    { inversion H; subst. repeat split; auto; try discriminate. }
    destruct (memp (X m) (done s)) eqn:ED.
    { inversion H; subst. repeat split; auto. }
    destruct (memp (X m) (pend s)) eqn:EP.
    { inversion H; subst. repeat split; auto; try discriminate. }
    destruct (kids m) as [cs|].
    2:{ inversion H; subst. repeat split; auto; try discriminate. }
    destruct (fold_visit (visit repaired kids f p k) (add_pend (X m) s) cs) as [s2 r2] eqn:EF.
    pose proof (fold_good _ IH _ _ _ _ EF) as (A1 & A2 & A3 & A4 & A5 & A6 & A7 & A8 & A9).
    cbn [add_pend pend done failed elab half] in *.
    assert (Hne : forall x, memp (X x) (pend s) = true \/ memp (X x) (done s) = true -> x <> m).
    { intros x [Hx|Hx] ->; congruence. }
    assert (Hpend : remp (X m) (pend s2) = pend s) by (rewrite A1; apply remp_head; exact EP).
    assert (Hmrec : rec_of m (failed s2) = None).
    { rewrite A3; [exact ER|]. left. rewrite memp_cons, eqpm_refl. reflexivity. }
    assert (Hmdone : memp (X m) (done s2) = false).
    { rewrite A4; [exact ED|]. rewrite memp_cons, eqpm_refl. reflexivity. }
    assert (Hrecne : forall x, rec_of x (failed s) <> None -> x <> m) by (intros x Hx ->; congruence).
    destruct r2 as [e|].
    + inversion H; subst. cbn [unpend pend done failed elab half].
      split; [exact Hpend|]. split; [exact A2|]. split.
      { intros x Hx. apply A3. destruct Hx as [Hx|Hx]; [left; rewrite memp_cons, Hx; apply orb_true_r | right; exact Hx]. }
      split. { intros x Hx. apply A4. rewrite memp_cons, Hx. apply orb_true_r. }
      split; [exact A5|]. split; [discriminate|]. split; [exact A7|]. split; [exact A8 | exact A9].
    + destruct (A6 eq_refl) as (F1 & D1).
      destruct (f (pid p) m) as [c|].
      * inversion H; subst. destruct (prw p); cbn [interrupted records repaired sticky sticky_base andb orb unpend pend done failed elab half].
        -- split; [exact Hpend|]. split; [exact A2|]. split.
           { intros x Hx. rewrite rec_of_cons_ne by (apply Hne; exact Hx). apply A3.
             destruct Hx as [Hx|Hx]; [left; rewrite memp_cons, Hx; apply orb_true_r | right; exact Hx]. }
           split. { intros x Hx. apply A4. rewrite memp_cons, Hx. apply orb_true_r. }
           split. { right. exists m, c. rewrite F1. split; reflexivity. }
           split; [discriminate|]. split.
           { intros x Hx. destruct (A7 x Hx) as (C1 & C2 & C3). split; [|split; assumption].
             rewrite rec_of_cons_ne by (apply Hrecne; exact Hx). exact C1. }
           split.
           { intros x [<-|Hx]; [right; cbn; rewrite Nat.eqb_refl; discriminate|].
             destruct (A8 x Hx) as [Hx'|Hx']; [left; exact Hx'|]. right.
             destruct (Nat.eq_dec x m) as [->|Hn]; [cbn; rewrite Nat.eqb_refl; discriminate|].
             rewrite rec_of_cons_ne by exact Hn. exact Hx'. }
           intros x Hx. right. apply A9. exact Hx.
        -- split; [exact Hpend|]. split; [exact A2|]. split.
           { intros x Hx. apply A3. destruct Hx as [Hx|Hx]; [left; rewrite memp_cons, Hx; apply orb_true_r | right; exact Hx]. }
           split. { intros x Hx. apply A4. rewrite memp_cons, Hx. apply orb_true_r. }
           split; [left; exact F1|]. split; [discriminate|]. split; [exact A7|]. split; [exact A8 | exact A9].
      * inversion H; subst. cbn [set_done unpend pend done failed elab half fst snd].
        split; [exact Hpend|]. split.
        { intros y Hy. rewrite memp_cons. rewrite (A2 y Hy). apply orb_true_r. }
        split.
        { intros x Hx. apply A3. destruct Hx as [Hx|Hx]; [left; rewrite memp_cons, Hx; apply orb_true_r | right; exact Hx]. }
        split.
        { intros x Hx. rewrite memp_X_ne by (apply Hne; left; exact Hx). apply A4. rewrite memp_cons, Hx. apply orb_true_r. }
        split; [left; exact F1|]. split.
        { intros _. split; [exact F1|]. split; [rewrite memp_cons, eqpm_refl; reflexivity | first [exact ER | reflexivity]]. }
        split.
        { intros x Hx. destruct (A7 x Hx) as (C1 & C2 & C3). split; [exact C1|]. split.
          - intros q. rewrite memp_X_ne by (apply Hrecne; exact Hx). apply C2.
          - destruct (pmk p); [|exact C3]. cbn. apply Hrecne in Hx. apply Nat.eqb_neq in Hx. rewrite Hx. exact C3. }
        split; [exact A8 | exact A9].
Qed.

(* ---- the pending set is restored by every visit, failing or not *)
Lemma visit_pend f k s m : pend (fst (visit repaired kids f p k s m)) = pend s.
Proof. destruct (visit repaired kids f p k s m) as [s' r] eqn:E. apply (visit_good f k _ _ _ _ E). Qed.

(* ---- a successful visit is stable: a module that is done and carries no record is skipped *)
Lemma visit_skip f k s m : rec_of m (failed s) = None -> memp (X m) (done s) = true ->
  visit repaired kids f p (S k) s m = (s, None).
Proof. intros H1 H2. rewrite visit_S, H1, H2. reflexivity. Qed.

Lemma fold_skip f k s ms : (forall m, In m ms -> rec_of m (failed s) = None /\ memp (X m) (done s) = true) ->
  fold_visit (visit repaired kids f p (S k)) s ms = (s, None).
Proof.
  induction ms as [|m ms IH]; intros H; [reflexivity|]. cbn [fold_visit].
  destruct (H m (or_introl eq_refl)) as [H1 H2]. rewrite (visit_skip f k s m H1 H2). apply IH.
  intros m' Hm. apply H. right. exact Hm.
Qed.

Lemma visit_fuel0_fails f s m : snd (visit repaired kids f p 0 s m) = Some CFuel.
Proof. reflexivity. Qed.

Lemma fold_ok_fuel f k s ms s' : fold_visit (visit repaired kids f p k) s ms = (s', None) -> ms = [] \/ exists k', k = S k'.
Proof. destruct ms as [|m ms]; [left; reflexivity|]. destruct k; [cbn; discriminate | right; eauto]. Qed.

(* ---- repeating a failed visit: same error, same state.  f' is the oracle of the repetition: every body that raised
        under f still raises under f' with the same error (the design was not repaired) *)
Section Retry.
Variables f f' : nat -> nat -> option Z.
Hypothesis Hf : forall m c, f (pid p) m = Some c -> f' (pid p) m = Some c.

Lemma unpend_add s2 s m : pend s2 = X m :: pend s -> memp (X m) (pend s) = false -> add_pend (X m) (unpend (X m) s2) = s2.
Proof.
  intros H1 H2. destruct s2 as [d pe fa el ha]. cbn in *. subst pe. unfold add_pend, unpend. cbn [done pend failed elab half].
  rewrite remp_head by exact H2. reflexivity.
Qed.

Lemma retry_fold k :
  (forall s m s' e, visit repaired kids f p k s m = (s', Some e) -> visit repaired kids f' p k s' m = (s', Some e)) ->
  forall ms s s' e, fold_visit (visit repaired kids f p k) s ms = (s', Some e) ->
                    fold_visit (visit repaired kids f' p k) s' ms = (s', Some e).
Proof.
  intros IHv. induction ms as [|m ms IH]; intros s s' e H; cbn in H; [discriminate|].
  destruct (visit repaired kids f p k s m) as [s1 r1] eqn:E. destruct r1 as [e1|].
  - inversion H; subst. cbn. rewrite (IHv _ _ _ _ E). reflexivity.
  - pose proof (visit_good f k _ _ _ _ E) as (A1 & A2 & A3 & A4 & A5 & A6 & A7 & A8 & A9).
    destruct (A6 eq_refl) as (F1 & D1 & R1).
    pose proof (fold_good _ (visit_good f k) _ _ _ _ H) as (B1 & B2 & B3 & B4 & B5 & B6 & B7 & B8 & B9).
    destruct k as [|k']; [cbn in E; discriminate|].
    cbn [fold_visit]. rewrite visit_skip.
    + apply (IH _ _ _ H).
    + rewrite B3; [rewrite F1; exact R1 | right; exact D1].
    + apply B2. exact D1.
Qed.

Lemma retry_visit : forall k s m s' e,
  visit repaired kids f p k s m = (s', Some e) -> visit repaired kids f' p k s' m = (s', Some e).
Proof.
  induction k as [|k IH]; intros s m s' e H.
  - cbn in H. inversion H; subst. reflexivity.
  - rewrite visit_S in H. destruct (rec_of m (failed s)) as [c|] eqn:ER.
    { inversion H; subst. rewrite visit_S, ER. reflexivity. }
    destruct (memp (X m) (done s)) eqn:ED; [discriminate|].
    destruct (memp (X m) (pend s)) eqn:EP.
    { inversion H; subst. rewrite visit_S, ER, ED, EP. reflexivity. }
    destruct (kids m) as [cs|] eqn:EK.
    2:{ inversion H; subst. rewrite visit_S, ER, ED, EP, EK. reflexivity. }
    destruct (fold_visit (visit repaired kids f p k) (add_pend (X m) s) cs) as [s2 r2] eqn:EF.
    pose proof (fold_good _ (visit_good f k) _ _ _ _ EF) as (A1 & A2 & A3 & A4 & A5 & A6 & A7 & A8 & A9).
    cbn [add_pend pend done failed elab half] in *.
    assert (Hmrec : rec_of m (failed s2) = None).
    { rewrite A3; [exact ER|]. left. rewrite memp_cons, eqpm_refl. reflexivity. }
    assert (Hmdone : memp (X m) (done s2) = false).
    { rewrite A4; [exact ED|]. rewrite memp_cons, eqpm_refl. reflexivity. }
    assert (Hpend : remp (X m) (pend s2) = pend s) by (rewrite A1; apply remp_head; exact EP).
    destruct r2 as [e2|].
    + inversion H; subst. rewrite visit_S. cbn [unpend pend done failed elab half].
      rewrite Hmrec, Hmdone, Hpend, EP, EK. rewrite (unpend_add s2 s m A1 EP).
      rewrite (retry_fold k IH _ _ _ _ EF). reflexivity.
    + destruct (A6 eq_refl) as (F1 & D1).
      destruct (f (pid p) m) as [c|] eqn:EB; [|discriminate].
      inversion H; subst. destruct (prw p) eqn:ERW.
      * rewrite visit_S. cbn [interrupted records repaired sticky sticky_base andb orb unpend pend done failed elab half rec_of].
        rewrite Nat.eqb_refl. reflexivity.
      * rewrite visit_S. cbn [unpend pend done failed elab half].
        rewrite Hmrec, Hmdone, Hpend, EP, EK. rewrite (unpend_add s2 s m A1 EP).
        assert (HS : fold_visit (visit repaired kids f' p k) s2 cs = (s2, None)).
        { destruct (fold_ok_fuel f k _ _ _ EF) as [->|[k' ->]]; [reflexivity|].
          apply fold_skip. intros m' Hm. destruct (D1 m' Hm) as [D2 R2]. split; [rewrite F1; exact R2 | exact D2]. }
        rewrite HS, (Hf _ _ EB), ERW. reflexivity.
Qed.
End Retry.
End Pass.

(* ------------------------------------------------------------------ whole calls (all passes), repaired policy *)
Definition Recorded (s : pst) (x : nat) : Prop := rec_of x (failed s) <> None.

Definition GoodC (s s' : pst) (r : option cerr) : Prop :=
  pend s' = pend s /\
  (forall y, memp y (done s) = true -> memp y (done s') = true) /\
  (failed s' = failed s \/ exists m0 c, failed s' = (m0, c) :: failed s /\ r = Some (CE c)) /\
  (r = None -> failed s' = failed s) /\
  (forall x, Recorded s x -> Recorded s' x /\ (forall q, memp (q, x) (done s') = memp (q, x) (done s)) /\
                             memn x (elab s') = memn x (elab s)) /\
  (forall x, In x (half s') -> In x (half s) \/ Recorded s' x) /\
  (forall x, In x (half s) -> In x (half s')).

Lemma goodC_refl s : GoodC s s None.
Proof. repeat split; auto. Qed.

Lemma goodC_trans s s1 s' r : GoodC s s1 None -> GoodC s1 s' r -> GoodC s s' r.
Proof.
  intros (A1 & A2 & A3 & A4 & A5 & A6 & A7) (B1 & B2 & B3 & B4 & B5 & B6 & B7).
  pose proof (A4 eq_refl) as F1. split; [congruence|]. split; [auto|]. split; [rewrite <- F1; exact B3|].
  split; [intros E; rewrite (B4 E); exact F1|]. split.
  { intros x Hx. destruct (A5 x Hx) as (C1 & C2 & C3). destruct (B5 x C1) as (E1 & E2 & E3).
    split; [exact E1|]. split; [intros q; rewrite E2, C2; reflexivity | congruence]. }
  split.
  { intros x Hx. destruct (B6 x Hx) as [Hx'|Hx']; [|right; exact Hx'].
    destruct (A6 x Hx') as [Hx''|Hx'']; [left; exact Hx''|]. right. apply B5. exact Hx''. }
  auto.
Qed.

Section Calls.
Variable kids : nat -> option (list nat).

Lemma fold_goodC f p k tops s s' r :
  fold_visit (visit repaired kids f p k) s tops = (s', r) -> GoodC s s' r.
Proof.
  intros H. pose proof (fold_good p _ (visit_good kids p f k) _ _ _ _ H) as (A1 & A2 & A3 & A4 & A5 & A6 & A7 & A8 & A9).
  split; [exact A1|]. split; [exact A2|]. split; [exact A5|]. split; [intros E; apply (A6 E)|].
  split; [exact A7|]. split; [exact A8 | exact A9].
Qed.

Lemma run_passes_goodC f fuel tops : forall ps s s' r,
  run_passes_on repaired kids f fuel ps tops s = (s', r) -> GoodC s s' r.
Proof.
  induction ps as [|p ps IH]; intros s s' r H; cbn in H.
  - inversion H; subst. apply goodC_refl.
  - destruct (fold_visit (visit repaired kids f p fuel) s tops) as [s1 r1] eqn:E. destruct r1 as [e|].
    + inversion H; subst. apply (fold_goodC _ _ _ _ _ _ _ E).
    + eapply goodC_trans; [apply (fold_goodC _ _ _ _ _ _ _ E) | apply (IH _ _ _ H)].
Qed.

(* after a successful elaboration every top is done for every pass of the list and carries no record *)
Lemma run_passes_ok f fuel tops : forall ps s s', run_passes_on repaired kids f fuel ps tops s = (s', None) ->
  forall p t, In p ps -> In t tops -> memp (pid p, t) (done s') = true /\ rec_of t (failed s') = None.
Proof.
  induction ps as [|p ps IH]; intros s s' H q t Hq Ht; [destruct Hq|]. cbn in H.
  destruct (fold_visit (visit repaired kids f p fuel) s tops) as [s1 r1] eqn:E. destruct r1 as [e|]; [discriminate|].
  pose proof (fold_good p _ (visit_good kids p f fuel) _ _ _ _ E) as (A1 & A2 & A3 & A4 & A5 & A6 & A7 & A8 & A9).
  destruct (A6 eq_refl) as (F1 & D1). pose proof (run_passes_goodC _ _ _ _ _ _ _ H) as (B1 & B2 & B3 & B4 & B5 & B6 & B7).
  destruct Hq as [<-|Hq].
  - destruct (D1 t Ht) as [D2 R2]. split; [apply B2; exact D2 | rewrite (B4 eq_refl), F1; exact R2].
  - apply (IH _ _ H q t Hq Ht).
Qed.

Lemma run_passes_nil f fuel : forall ps s, run_passes_on repaired kids f fuel ps [] s = (s, None).
Proof. induction ps as [|p ps IH]; intros s; cbn; [reflexivity | apply IH]. Qed.

Lemma run_passes_skip f k tops : forall ps s,
  (forall p t, In p ps -> In t tops -> memp (pid p, t) (done s) = true /\ rec_of t (failed s) = None) ->
  run_passes_on repaired kids f (S k) ps tops s = (s, None).
Proof.
  induction ps as [|p ps IH]; intros s H; cbn [run_passes_on]; [reflexivity|].
  rewrite (fold_skip kids p f k s tops).
  - apply IH. intros q t Hq Ht. apply H; [right; exact Hq | exact Ht].
  - intros t Ht. destruct (H p t (or_introl eq_refl) Ht). split; assumption.
Qed.

(* a successful elaboration repeated: nothing runs, nothing changes, whatever the oracle *)
Lemma run_passes_idem f f' fuel ps tops s s' :
  run_passes_on repaired kids f fuel ps tops s = (s', None) -> run_passes_on repaired kids f' fuel ps tops s' = (s', None).
Proof.
  intros H. destruct tops as [|t0 tops]; [apply run_passes_nil|].
  destruct ps as [|p0 ps]; [reflexivity|].
  destruct fuel as [|k]. { cbn in H. discriminate. }
  apply run_passes_skip. intros p t Hp Ht. apply (run_passes_ok _ _ _ _ _ _ H p t Hp Ht).
Qed.

Section RetryCall.
Variables f f' : nat -> nat -> option Z.
Hypothesis Hf : forall q m c, f q m = Some c -> f' q m = Some c.

Lemma tops_retry p k s' e base : forall ms,
  (forall t, In t ms -> memp (pid p, t) (done s') = true /\ rec_of t base = None) ->
  (failed s' = base \/ exists m0 c, failed s' = (m0, c) :: base /\ Some e = Some (CE c)) ->
  fold_visit (visit repaired kids f' p (S k)) s' ms = (s', None) \/
  fold_visit (visit repaired kids f' p (S k)) s' ms = (s', Some e).
Proof.
  induction ms as [|t ms IH]; intros H HF; [left; reflexivity|]. cbn [fold_visit].
  destruct (H t (or_introl eq_refl)) as [D R].
  assert (IH' := IH (fun t' Ht' => H t' (or_intror Ht')) HF).
  destruct HF as [HF|(m0 & c & HF & He)].
  - rewrite visit_skip; [exact IH' | rewrite HF; exact R | exact D].
  - destruct (Nat.eq_dec t m0) as [->|Hn].
    + right. rewrite visit_S, HF. cbn [rec_of]. rewrite Nat.eqb_refl. inversion He. reflexivity.
    + rewrite visit_skip; [exact IH' | rewrite HF, rec_of_cons_ne by exact Hn; exact R | exact D].
Qed.

Lemma retry_passes fuel tops : forall ps s s' e,
  run_passes_on repaired kids f fuel ps tops s = (s', Some e) -> run_passes_on repaired kids f' fuel ps tops s' = (s', Some e).
Proof.
  induction ps as [|p ps IH]; intros s s' e H; cbn in H; [discriminate|].
  destruct (fold_visit (visit repaired kids f p fuel) s tops) as [s1 r1] eqn:E. destruct r1 as [e1|].
  - inversion H; subst. cbn [run_passes_on].
    rewrite (retry_fold kids p f f' fuel (retry_visit kids p f f' (Hf (pid p)) fuel) _ _ _ _ E). reflexivity.
  - pose proof (fold_good p _ (visit_good kids p f fuel) _ _ _ _ E) as (A1 & A2 & A3 & A4 & A5 & A6 & A7 & A8 & A9).
    destruct (A6 eq_refl) as (F1 & D1). pose proof (run_passes_goodC _ _ _ _ _ _ _ H) as (B1 & B2 & B3 & B4 & B5 & B6 & B7).
    cbn [run_passes_on]. destruct (fold_ok_fuel kids p f fuel _ _ _ E) as [->|[k ->]].
    + cbn [fold_visit]. apply (IH _ _ _ H).
    + destruct (tops_retry p k s' e (failed s1) tops) as [HT|HT].
      * intros t Ht. destruct (D1 t Ht) as [D2 R2]. split; [apply B2; exact D2 | rewrite F1; exact R2].
      * destruct B3 as [B3|(m0 & c & B3 & B3')]; [left; exact B3 | right; exists m0, c; split; [exact B3 | exact B3']].
      * rewrite HT. apply (IH _ _ _ H).
      * rewrite HT. reflexivity.
Qed.
End RetryCall.

(* ---- the exporter never lists a module that carries a failure record *)
Lemma xvisit_norec s : forall fuel acc m acc' r,
  xvisit repaired kids s fuel acc m = (acc', r) ->
  (forall x, In x acc -> rec_of x (failed s) = None) -> forall x, In x acc' -> rec_of x (failed s) = None.
Proof.
  induction fuel as [|k IH]; intros acc m acc' r H Hacc; cbn in H.
  - inversion H; subst. exact Hacc.
  - destruct (memn m acc). { inversion H; subst. exact Hacc. }
    destruct (rec_of m (failed s)) as [c|] eqn:ER. { inversion H; subst. exact Hacc. }
    destruct (kids m) as [cs|]. 2:{ inversion H; subst. exact Hacc. }
    assert (HF : forall cs acc acc1 r1, fold_x (xvisit repaired kids s k) acc cs = (acc1, r1) ->
                 (forall x, In x acc -> rec_of x (failed s) = None) -> forall x, In x acc1 -> rec_of x (failed s) = None).
    { clear -IH. induction cs as [|c cs IHc]; intros acc acc1 r1 H Hacc; cbn in H.
      - inversion H; subst. exact Hacc.
      - destruct (xvisit repaired kids s k acc c) as [a1 r2] eqn:E. pose proof (IH _ _ _ _ E Hacc) as H1.
        destruct r2; [inversion H; subst; exact H1 | apply (IHc _ _ _ H H1)]. }
    destruct (fold_x (xvisit repaired kids s k) acc cs) as [a1 r1] eqn:E. pose proof (HF _ _ _ _ E Hacc) as H1.
    destruct r1 as [e|]; inversion H; subst; [exact H1|].
    intros x Hx. apply in_app_or in Hx. destruct Hx as [Hx|[<-|[]]]; [apply H1; exact Hx | exact ER].
Qed.

Lemma fold_x_norec s fuel : forall cs acc acc1 r1, fold_x (xvisit repaired kids s fuel) acc cs = (acc1, r1) ->
  (forall x, In x acc -> rec_of x (failed s) = None) -> forall x, In x acc1 -> rec_of x (failed s) = None.
Proof.
  induction cs as [|c cs IHc]; intros acc acc1 r1 H Hacc; cbn in H.
  - inversion H; subst. exact Hacc.
  - destruct (xvisit repaired kids s fuel acc c) as [a1 r2] eqn:E. pose proof (xvisit_norec s _ _ _ _ _ E Hacc) as H1.
    destruct r2; [inversion H; subst; exact H1 | apply (IHc _ _ _ H H1)].
Qed.

Lemma export_spec f fuel ps tops s s' r l :
  export repaired kids f fuel ps tops s = (s', r, l) ->
  GoodC s s' (match r with Some e => snd (run_passes repaired kids f fuel ps tops s) | None => None end) /\
  s' = fst (run_passes repaired kids f fuel ps tops s) /\
  forall x, In x l -> rec_of x (failed s') = None.
Proof.
  unfold export, run_passes. set (ms := starts repaired kids fuel tops).
  destruct (run_passes_on repaired kids f fuel ps ms s) as [s1 r1] eqn:E.
  pose proof (run_passes_goodC _ _ _ _ _ _ _ E) as G. destruct r1 as [e|].
  - intros H. inversion H; subst. cbn [snd fst]. split; [exact G|]. split; [reflexivity | intros x []].
  - destruct (fold_x (xvisit repaired kids s1 fuel) [] tops) as [a r2] eqn:EX. destruct r2 as [e|]; intros H; inversion H; subst; cbn [fst snd].
    + split; [|split; [reflexivity | intros x []]]. destruct G as (A1 & A2 & A3 & A4 & A5 & A6 & A7).
      split; [exact A1|]. split; [exact A2|]. split; [left; apply A4; reflexivity|]. split; [intros _; apply A4; reflexivity|].
      split; [exact A5|]. split; [exact A6 | exact A7].
    + split; [exact G|]. split; [reflexivity|]. apply (fold_x_norec _ _ _ _ _ _ EX). intros x [].
Qed.
End Calls.

(* ------------------------------------------------------------------ generator cache, policy GFinally *)
Section GenProofs.
Variable cached : nat -> bool.
Variable calls : nat -> list nat.
Variable gf : nat -> nat -> option (nat * nat).

Lemma grem_head k l : gmem k l = false -> grem k (k :: l) = l.
Proof.
  intros H. cbn. rewrite Nat.eqb_refl. cbn. induction l as [|y l IH]; [reflexivity|].
  cbn in *. apply orb_false_iff in H. destruct H as [H1 H2]. rewrite H1. cbn. f_equal. apply IH. exact H2.
Qed.

Definition GGood (r : gst -> nat -> gst * option gerr) : Prop :=
  forall s k s' o, r s k = (s', o) ->
    gpend s' = gpend s /\ gstack s' = gstack s /\ (forall x, gmem x (gdone s) = true -> gmem x (gdone s') = true) /\
    (o = None -> cached k = true -> gmem k (gdone s') = true) /\
    (forall x, gmem x (gpend s) = true -> gmem x (gdone s') = gmem x (gdone s)).

Lemma gfold_good r : GGood r -> forall ks s s' o, gfold r s ks = (s', o) ->
  gpend s' = gpend s /\ gstack s' = gstack s /\ (forall x, gmem x (gdone s) = true -> gmem x (gdone s') = true) /\
  (forall x, gmem x (gpend s) = true -> gmem x (gdone s') = gmem x (gdone s)).
Proof.
  intros G. induction ks as [|k ks IH]; intros s s' o H; cbn in H.
  - inversion H; subst. auto.
  - destruct (r s k) as [s1 o1] eqn:E. destruct (G _ _ _ _ E) as (A1 & A2 & A3 & _ & A5). destruct o1.
    + inversion H; subst. auto.
    + destruct (IH _ _ _ H) as (B1 & B2 & B3 & B5). split; [congruence|]. split; [congruence|]. split; [auto|].
      intros x Hx. rewrite B5, A5; auto. rewrite A1. exact Hx.
Qed.

Lemma gmem_cons x k l : gmem x (k :: l) = Nat.eqb x k || gmem x l.
Proof. reflexivity. Qed.

(* the traversal of the nested calls of k, seen from the state before the call *)
Lemma grun_inner n (IH : GGood (grun GFinally cached calls gf n)) s k :
  cached k && gmem k (gpend s) = false ->
  forall ks s2 o2, gfold (grun GFinally cached calls gf n) (start cached k (push k s)) ks = (s2, o2) ->
    gpend (pop (unp cached k s2)) = gpend s /\ gstack (pop (unp cached k s2)) = gstack s /\
    (forall x, gmem x (gdone s) = true -> gmem x (gdone s2) = true) /\
    (forall x, gmem x (gpend s) = true -> gmem x (gdone s2) = gmem x (gdone s)) /\
    (cached k = true -> gmem k (gdone s2) = gmem k (gdone s)).
Proof.
  intros EP ks s2 o2 E. destruct (gfold_good _ IH _ _ _ _ E) as (A1 & A2 & A3 & A5).
  cbn [start push gpend gstack gdone] in *. cbn [pop unp gpend gstack]. rewrite A1, A2. cbn [tl].
  destruct (cached k) eqn:EC; cbn [andb] in EP.
  - split; [apply grem_head; exact EP|]. split; [reflexivity|]. split; [exact A3|]. split.
    + intros x Hx. apply A5. rewrite gmem_cons, Hx. apply orb_true_r.
    + intros _. apply A5. rewrite gmem_cons, Nat.eqb_refl. reflexivity.
  - split; [reflexivity|]. split; [reflexivity|]. split; [exact A3|]. split; [exact A5 | discriminate].
Qed.

Lemma grun_good : forall fuel, GGood (grun GFinally cached calls gf fuel).
Proof.
  induction fuel as [|n IH]; intros s k s' o H; cbn [grun] in H.
  - inversion H; subst. repeat split; auto; discriminate.
  - destruct (cached k && gmem k (gdone s)) eqn:ED.
    { inversion H; subst. apply andb_true_iff in ED. destruct ED as [_ ED]. repeat split; auto. }
    destruct (cached k && gmem k (gpend s)) eqn:EP. { inversion H; subst. repeat split; auto; discriminate. }
    pose proof (grun_inner n IH s k EP) as W.
    destruct (gf k (gcount k (gruns s))) as [[i kind]|].
    + destruct (gfold (grun GFinally cached calls gf n) (start cached k (push k s)) (firstn i (calls k))) as [s2 o2] eqn:E.
      destruct (W _ _ _ E) as (W1 & W2 & W3 & W5 & _). unfold unwind in H.
      destruct o2; inversion H; subst; (split; [exact W1|]; split; [exact W2|]; split; [exact W3|]; split; [discriminate | exact W5]).
    + destruct (gfold (grun GFinally cached calls gf n) (start cached k (push k s)) (calls k)) as [s2 o2] eqn:E.
      destruct (W _ _ _ E) as (W1 & W2 & W3 & W5 & _). unfold unwind in H.
      destruct o2; inversion H; subst; cbn [finish gpend gstack gdone].
      * split; [exact W1|]. split; [exact W2|]. split; [exact W3|]. split; [discriminate | exact W5].
      * split; [exact W1|]. split; [exact W2|]. split.
        { intros x Hx. cbn [pop unp gdone]. destruct (cached k); [rewrite gmem_cons, (W3 x Hx); apply orb_true_r | exact (W3 x Hx)]. }
        split. { intros _ ->. rewrite gmem_cons, Nat.eqb_refl. reflexivity. }
        intros x Hx. cbn [pop unp gdone]. destruct (cached k) eqn:EC; [|exact (W5 x Hx)]. rewrite gmem_cons, (W5 x Hx).
        destruct (Nat.eqb x k) eqn:Exk; [|reflexivity]. apply Nat.eqb_eq in Exk. subst x. cbn [andb] in EP. congruence.
Qed.

(* a call that is neither cached nor pending executes its body: the log grows by k *)
Lemma grun_runs_body n s k : cached k && gmem k (gdone s) = false -> cached k && gmem k (gpend s) = false ->
  exists l, gruns (fst (grun GFinally cached calls gf (S n) s k)) = l ++ k :: gruns s.
Proof.
  intros ED EP. cbn [grun]. rewrite ED, EP.
  assert (W : forall r ks s0, (forall s k, exists l, gruns (fst (r s k)) = l ++ gruns s) ->
              exists l, gruns (fst (gfold r s0 ks)) = l ++ gruns s0).
  { intros r ks. induction ks as [|c ks IHk]; intros s0 Hr; cbn; [exists []; reflexivity|].
    destruct (r s0 c) as [s1 o1] eqn:E. destruct (Hr s0 c) as [l1 H1]. rewrite E in H1. cbn in H1. destruct o1.
    - exists l1. exact H1.
    - destruct (IHk s1 Hr) as [l2 H2]. exists (l2 ++ l1). rewrite H2, H1, app_assoc. reflexivity. }
  assert (R : forall m s k, exists l, gruns (fst (grun GFinally cached calls gf m s k)) = l ++ gruns s).
  { induction m as [|m IHm]; intros s0 k0; cbn [grun]; [exists []; reflexivity|].
    destruct (cached k0 && gmem k0 (gdone s0)); [exists []; reflexivity|].
    destruct (cached k0 && gmem k0 (gpend s0)); [exists []; reflexivity|].
    destruct (gf k0 (gcount k0 (gruns s0))) as [[i kind]|].
    - destruct (W (grun GFinally cached calls gf m) (firstn i (calls k0)) (start cached k0 (push k0 s0)) IHm) as [l H].
      destruct (gfold (grun GFinally cached calls gf m) (start cached k0 (push k0 s0)) (firstn i (calls k0))) as [s2 o2]. cbn in H.
      exists (l ++ [k0]). destruct o2; cbn; rewrite H, <- app_assoc; reflexivity.
    - destruct (W (grun GFinally cached calls gf m) (calls k0) (start cached k0 (push k0 s0)) IHm) as [l H].
      destruct (gfold (grun GFinally cached calls gf m) (start cached k0 (push k0 s0)) (calls k0)) as [s2 o2]. cbn in H.
      exists (l ++ [k0]). destruct o2; cbn; rewrite H, <- app_assoc; reflexivity. }
  destruct (gf k (gcount k (gruns s))) as [[i kind]|].
  - destruct (W (grun GFinally cached calls gf n) (firstn i (calls k)) (start cached k (push k s)) (R n)) as [l H].
    destruct (gfold (grun GFinally cached calls gf n) (start cached k (push k s)) (firstn i (calls k))) as [s2 o2]. cbn in H.
    exists l. destruct o2; cbn; exact H.
  - destruct (W (grun GFinally cached calls gf n) (calls k) (start cached k (push k s)) (R n)) as [l H].
    destruct (gfold (grun GFinally cached calls gf n) (start cached k (push k s)) (calls k)) as [s2 o2]. cbn in H.
    exists l. destruct o2; cbn; exact H.
Qed.

Lemma gen_rerun fuel n s k e :
  gpend s = [] ->
  snd (grun GFinally cached calls gf (S fuel) s k) = Some e ->
  let s' := fst (grun GFinally cached calls gf (S fuel) s k) in
  gpend s' = [] /\ gstack s' = gstack s /\ cached k && gmem k (gdone s') = false /\
  exists l, gruns (fst (grun GFinally cached calls gf (S n) s' k)) = l ++ k :: gruns s'.
Proof.
  intros HP HE s'. destruct (grun GFinally cached calls gf (S fuel) s k) as [s1 o] eqn:E. cbn [fst snd] in *. subst o s'.
  destruct (grun_good (S fuel) _ _ _ _ E) as (A1 & A2 & A3 & A4 & A5).
  assert (ED : cached k && gmem k (gdone s) = false).
  { destruct (cached k && gmem k (gdone s)) eqn:X; [|reflexivity]. cbn [grun] in E. rewrite X in E. discriminate. }
  assert (EP : cached k && gmem k (gpend s) = false) by (rewrite HP; cbn; apply andb_false_r).
  assert (ED1 : cached k && gmem k (gdone s1) = false).
  { destruct (cached k) eqn:EC; [|reflexivity]. cbn [andb] in *.
    cbn [grun] in E. rewrite EC in E. cbn [andb] in E. rewrite ED, EP in E.
    assert (W : forall ks s2 o2, gfold (grun GFinally cached calls gf fuel) (start cached k (push k s)) ks = (s2, o2) -> gmem k (gdone s2) = false).
    { intros ks s2 o2 EF. assert (EP' : cached k && gmem k (gpend s) = false) by (rewrite EC; exact EP).
      destruct (grun_inner fuel (grun_good fuel) s k EP' _ _ _ EF) as (_ & _ & _ & _ & B6). rewrite (B6 EC). exact ED. }
    destruct (gf k (gcount k (gruns s))) as [[i kind]|].
    - destruct (gfold (grun GFinally cached calls gf fuel) (start cached k (push k s)) (firstn i (calls k))) as [s2 o2] eqn:EF.
      pose proof (W _ _ _ EF) as W1. unfold unwind in E. destruct o2; inversion E; subst; exact W1.
    - destruct (gfold (grun GFinally cached calls gf fuel) (start cached k (push k s)) (calls k)) as [s2 o2] eqn:EF.
      pose proof (W _ _ _ EF) as W1. unfold unwind in E. destruct o2; inversion E; subst. exact W1. }
  split; [congruence|]. split; [exact A2|]. split; [exact ED1|].
  apply grun_runs_body; [exact ED1 | rewrite A1, HP; cbn; apply andb_false_r].
Qed.
End GenProofs.

(* ------------------------------------------------------------------ do_call and histories *)
Definition Inv (s : pst) : Prop := forall x, In x (half s) -> Recorded s x.

Lemma inv_init : Inv init.
Proof. intros x []. Qed.

Lemma do_call_goodC s c :
  exists r, GoodC s (fst (fst (do_call repaired s c))) r /\
            forall x, In x (snd (do_call repaired s c)) -> rec_of x (failed (fst (fst (do_call repaired s c)))) = None.
Proof.
  unfold do_call. destruct (c_export c).
  - destruct (export repaired (assoc_kids (c_kids c)) (assoc_fail (c_fail c)) (call_fuel c) (c_passes c) (c_tops c) s)
      as [[s' r] l] eqn:E. destruct (export_spec _ _ _ _ _ _ _ _ _ E) as (G & _ & N). cbn [fst snd]. eexists. split; [exact G | exact N].
  - unfold run_passes.
    destruct (run_passes_on repaired (assoc_kids (c_kids c)) (assoc_fail (c_fail c)) (call_fuel c) (c_passes c)
                (starts repaired (assoc_kids (c_kids c)) (call_fuel c) (c_tops c)) s)
      as [s' r] eqn:E. cbn [fst snd]. exists r. split; [apply (run_passes_goodC _ _ _ _ _ _ _ _ E) | intros x []].
Qed.

Lemma do_call_pend s c : pend (fst (fst (do_call repaired s c))) = pend s.
Proof. destruct (do_call_goodC s c) as (r & G & _). apply G. Qed.

Lemma run_hist_pend : forall cs s, pend (run_hist repaired s cs) = pend s.
Proof. induction cs as [|c cs IH]; intros s; cbn; [reflexivity|]. rewrite IH. apply do_call_pend. Qed.

Lemma do_call_inv s c : Inv s -> Inv (fst (fst (do_call repaired s c))).
Proof.
  intros I. destruct (do_call_goodC s c) as (r & G & _). destruct G as (A1 & A2 & A3 & A4 & A5 & A6 & A7).
  intros x Hx. destruct (A6 x Hx) as [H|H]; [apply A5, I, H | exact H].
Qed.

Lemma run_hist_inv : forall cs s, Inv s -> Inv (run_hist repaired s cs).
Proof. induction cs as [|c cs IH]; intros s I; cbn; [exact I|]. apply IH, do_call_inv, I. Qed.

Lemma do_call_sticky s c m : Inv s -> In m (half s) ->
  let r := do_call repaired s c in
  let s' := fst (fst r) in
  (forall q, memp (q, m) (done s') = memp (q, m) (done s)) /\ memn m (elab s') = memn m (elab s) /\
  ~ In m (snd r) /\ In m (half s') /\ Inv s'.
Proof.
  intros I Hm r s'. destruct (do_call_goodC s c) as (r0 & G & N). destruct G as (A1 & A2 & A3 & A4 & A5 & A6 & A7).
  destruct (A5 m (I m Hm)) as (C1 & C2 & C3). split; [exact C2|]. split; [exact C3|]. split.
  - intros Hin. apply C1. apply N. exact Hin.
  - split; [apply A7; exact Hm | apply do_call_inv; exact I].
Qed.

(* every call of a continuation, with the state it starts from *)
Fixpoint calls_from (s : pst) (cs : list call) : list (pst * call) :=
  match cs with
  | [] => []
  | c :: cs' => (s, c) :: calls_from (fst (fst (do_call repaired s c))) cs'
  end.

Lemma hist_sticky : forall cs s m, Inv s -> In m (half s) ->
  (forall q, memp (q, m) (done (run_hist repaired s cs)) = memp (q, m) (done s)) /\
  memn m (elab (run_hist repaired s cs)) = memn m (elab s) /\
  (forall sc, In sc (calls_from s cs) -> ~ In m (snd (do_call repaired (fst sc) (snd sc)))).
Proof.
  induction cs as [|c cs IH]; intros s m I Hm; cbn [run_hist calls_from].
  - repeat split. intros sc [].
  - destruct (do_call_sticky s c m I Hm) as (D1 & D2 & D3 & D4 & D5).
    destruct (IH _ m D5 D4) as (E1 & E2 & E3). split; [intros q; rewrite E1; apply D1|]. split; [congruence|].
    intros sc [<-|Hsc]; [exact D3 | apply E3; exact Hsc].
Qed.

(* repeating a failed call *)
Definition more_faults (c c' : call) : Prop :=
  c_kids c' = c_kids c /\ c_passes c' = c_passes c /\ c_tops c' = c_tops c /\ c_export c' = c_export c /\
  forall q m x, assoc_fail (c_fail c) q m = Some x -> assoc_fail (c_fail c') q m = Some x.

Lemma do_call_retry s c c' e : more_faults c c' ->
  snd (fst (do_call repaired s c)) = Some e ->
  do_call repaired (fst (fst (do_call repaired s c))) c' = (fst (fst (do_call repaired s c)), Some e, []).
Proof.
  intros (K & P & T & X & F). unfold do_call, call_fuel. rewrite K, P, T, X. destruct (c_export c).
  - unfold export, run_passes. set (ms := starts repaired (assoc_kids (c_kids c)) (S (length (c_kids c))) (c_tops c)).
    destruct (run_passes_on repaired (assoc_kids (c_kids c)) (assoc_fail (c_fail c)) (S (length (c_kids c))) (c_passes c) ms s)
      as [s1 r1] eqn:E. destruct r1 as [e1|].
    + cbn [fst snd]. intros H. inversion H; subst.
      rewrite (retry_passes _ _ _ F _ _ _ _ _ _ E). reflexivity.
    + destruct (fold_x (xvisit repaired (assoc_kids (c_kids c)) s1 (S (length (c_kids c)))) [] (c_tops c)) as [a r2] eqn:EX.
      destruct r2 as [e2|]; cbn [fst snd]; intros H; [|discriminate]. inversion H; subst.
      rewrite (run_passes_idem _ _ (assoc_fail (c_fail c')) _ _ _ _ _ E), EX. reflexivity.
  - unfold run_passes. set (ms := starts repaired (assoc_kids (c_kids c)) (S (length (c_kids c))) (c_tops c)).
    destruct (run_passes_on repaired (assoc_kids (c_kids c)) (assoc_fail (c_fail c)) (S (length (c_kids c))) (c_passes c) ms s)
      as [s1 r1] eqn:E. cbn [fst snd]. intros ->. rewrite (retry_passes _ _ _ F _ _ _ _ _ _ E). reflexivity.
Qed.

(* a module carrying a record reports it to whoever visits or exports it first *)
Lemma visit_recorded kids f p k s m c : rec_of m (failed s) = Some c ->
  visit repaired kids f p (S k) s m = (s, Some (CE c)).
Proof. intros H. rewrite visit_S, H. reflexivity. Qed.

(* ------------------------------------------------------------------ frame *)
Definition agree (R : nat -> bool) (s1 s2 : pst) : Prop :=
  forall x, R x = true ->
    (forall q, memp (q, x) (done s1) = memp (q, x) (done s2)) /\
    (forall q, memp (q, x) (pend s1) = memp (q, x) (pend s2)) /\
    rec_of x (failed s1) = rec_of x (failed s2) /\ memn x (elab s1) = memn x (elab s2).
Definition closed (kids : nat -> option (list nat)) (R : nat -> bool) : Prop :=
  forall x cs c, R x = true -> kids x = Some cs -> In c cs -> R c = true.

Lemma memp_remp z y l : memp z (remp y l) = negb (eqpm y z) && memp z l.
Proof.
  unfold memp, remp. induction l as [|w l IH]; cbn [filter existsb]; [rewrite andb_false_r; reflexivity|].
  destruct (eqpm y w) eqn:E1; cbn [negb existsb].
  - rewrite IH. apply eqpm_true in E1. subst w.
    destruct (eqpm z y) eqn:E2; [apply eqpm_true in E2; subst z; rewrite eqpm_refl; reflexivity | reflexivity].
  - rewrite IH. destruct (eqpm z w) eqn:E2; [|reflexivity]. apply eqpm_true in E2. subst w. rewrite E1. reflexivity.
Qed.

Section Frame.
Variable kids : nat -> option (list nat).
Variable f : nat -> nat -> option Z.
Variable p : pass.
Variable R : nat -> bool.
Hypothesis HC : closed kids R.

Lemma agree_add_pend y s1 s2 : agree R s1 s2 -> agree R (add_pend y s1) (add_pend y s2).
Proof.
  intros A x Hx. destruct (A x Hx) as (A1 & A2 & A3 & A4). cbn [add_pend done pend failed elab].
  split; [exact A1|]. split; [intros q; rewrite !memp_cons, A2; reflexivity|]. split; assumption.
Qed.
Lemma agree_unpend y s1 s2 : agree R s1 s2 -> agree R (unpend y s1) (unpend y s2).
Proof.
  intros A x Hx. destruct (A x Hx) as (A1 & A2 & A3 & A4). cbn [unpend done pend failed elab].
  split; [exact A1|]. split; [intros q; rewrite !memp_remp, A2; reflexivity|]. split; assumption.
Qed.
Lemma agree_interrupted m c s1 s2 : agree R s1 s2 -> agree R (interrupted repaired m c s1) (interrupted repaired m c s2).
Proof.
  intros A x Hx. destruct (A x Hx) as (A1 & A2 & A3 & A4). cbn [interrupted records repaired sticky sticky_base andb orb done pend failed elab].
  split; [exact A1|]. split; [exact A2|]. split; [cbn [rec_of]; rewrite A3; reflexivity | exact A4].
Qed.
Lemma agree_set_done y b s1 s2 : agree R s1 s2 -> agree R (set_done y b s1) (set_done y b s2).
Proof.
  intros A x Hx. destruct (A x Hx) as (A1 & A2 & A3 & A4). cbn [set_done done pend failed elab].
  split; [intros q; rewrite !memp_cons, A1; reflexivity|]. split; [exact A2|]. split; [exact A3|].
  destruct b; [|exact A4]. unfold memn in *. cbn [existsb]. rewrite A4. reflexivity.
Qed.

Lemma frame_fold v :
  (forall s1 s2 m, agree R s1 s2 -> R m = true -> snd (v s1 m) = snd (v s2 m) /\ agree R (fst (v s1 m)) (fst (v s2 m))) ->
  forall ms s1 s2, agree R s1 s2 -> (forall m, In m ms -> R m = true) ->
    snd (fold_visit v s1 ms) = snd (fold_visit v s2 ms) /\ agree R (fst (fold_visit v s1 ms)) (fst (fold_visit v s2 ms)).
Proof.
  intros Hv. induction ms as [|m ms IH]; intros s1 s2 A HR; cbn [fold_visit]; [split; [reflexivity | exact A]|].
  destruct (Hv s1 s2 m A (HR m (or_introl eq_refl))) as [E1 E2].
  destruct (v s1 m) as [a1 r1], (v s2 m) as [a2 r2]. cbn [fst snd] in *. subst r2. destruct r1 as [e|].
  - split; [reflexivity | exact E2].
  - apply IH; [exact E2 | intros m' Hm; apply HR; right; exact Hm].
Qed.

Lemma frame_visit : forall k s1 s2 m, agree R s1 s2 -> R m = true ->
  snd (visit repaired kids f p k s1 m) = snd (visit repaired kids f p k s2 m) /\
  agree R (fst (visit repaired kids f p k s1 m)) (fst (visit repaired kids f p k s2 m)).
Proof.
  induction k as [|k IH]; intros s1 s2 m A Hm; [split; [reflexivity | exact A]|].
  rewrite !visit_S. destruct (A m Hm) as (A1 & A2 & A3 & A4). rewrite <- A3, <- (A1 (pid p)), <- (A2 (pid p)).
  destruct (rec_of m (failed s1)); [split; [reflexivity | exact A]|].
  destruct (memp (pid p, m) (done s1)); [split; [reflexivity | exact A]|].
  destruct (memp (pid p, m) (pend s1)); [split; [reflexivity | exact A]|].
  destruct (kids m) as [cs|] eqn:EK; [|split; [reflexivity | exact A]].
  destruct (frame_fold _ IH cs _ _ (agree_add_pend (pid p, m) _ _ A) (fun c Hc => HC m cs c Hm EK Hc)) as [E1 E2].
  destruct (fold_visit (visit repaired kids f p k) (add_pend (pid p, m) s1) cs) as [a1 r1].
  destruct (fold_visit (visit repaired kids f p k) (add_pend (pid p, m) s2) cs) as [a2 r2].
  cbn [fst snd] in *. subst r2. destruct r1 as [e|]; cbn [fst snd].
  - split; [reflexivity | apply agree_unpend; exact E2].
  - destruct (f (pid p) m) as [c|]; cbn [fst snd].
    + split; [reflexivity|]. apply agree_unpend. destruct (prw p); [apply agree_interrupted; exact E2 | exact E2].
    + split; [reflexivity|]. apply agree_set_done, agree_unpend. exact E2.
Qed.
End Frame.

Lemma frame_passes kids f R fuel tops : closed kids R -> (forall t, In t tops -> R t = true) ->
  forall ps s1 s2, agree R s1 s2 ->
  snd (run_passes_on repaired kids f fuel ps tops s1) = snd (run_passes_on repaired kids f fuel ps tops s2) /\
  agree R (fst (run_passes_on repaired kids f fuel ps tops s1)) (fst (run_passes_on repaired kids f fuel ps tops s2)).
Proof.
  intros HC HT. induction ps as [|p ps IH]; intros s1 s2 A; cbn [run_passes_on]; [split; [reflexivity | exact A]|].
  destruct (frame_fold R _ (frame_visit kids f p R HC fuel) tops s1 s2 A HT) as [E1 E2].
  destruct (fold_visit (visit repaired kids f p fuel) s1 tops) as [a1 r1].
  destruct (fold_visit (visit repaired kids f p fuel) s2 tops) as [a2 r2]. cbn [fst snd] in *. subst r2.
  destruct r1 as [e|]; [split; [reflexivity | exact E2] | apply IH; exact E2].
Qed.

Lemma frame_xvisit kids R s1 s2 : closed kids R -> agree R s1 s2 ->
  forall fuel acc m, R m = true -> xvisit repaired kids s1 fuel acc m = xvisit repaired kids s2 fuel acc m.
Proof.
  intros HC A. induction fuel as [|k IH]; intros acc m Hm; [reflexivity|]. cbn [xvisit].
  destruct (A m Hm) as (_ & _ & A3 & _). cbn [repaired sticky]. rewrite <- A3.
  destruct (memn m acc); [reflexivity|]. destruct (rec_of m (failed s1)); [reflexivity|].
  destruct (kids m) as [cs|] eqn:EK; [|reflexivity].
  assert (HF : forall cs acc, (forall c, In c cs -> R c = true) ->
               fold_x (xvisit repaired kids s1 k) acc cs = fold_x (xvisit repaired kids s2 k) acc cs).
  { induction cs0 as [|c cs0 IHc]; intros acc0 Hcs; [reflexivity|]. cbn [fold_x].
    rewrite (IH acc0 c (Hcs c (or_introl eq_refl))). destruct (xvisit repaired kids s2 k acc0 c) as [a1 [e|]]; [reflexivity|].
    apply IHc. intros c' Hc'. apply Hcs. right. exact Hc'. }
  rewrite (HF cs acc (fun c Hc => HC m cs c Hm EK Hc)). reflexivity.
Qed.

(* everything a pass starts from lies in a child-closed set that contains the tops *)
Lemma reach_step_R kids R : closed kids R -> forall fuel seen m, (forall x, In x seen -> R x = true) -> R m = true ->
  forall x, In x (reach_step kids fuel seen m) -> R x = true.
Proof.
  intros HC. induction fuel as [|k IH]; intros seen m Hs Hm x Hx; cbn [reach_step] in Hx; [apply Hs; exact Hx|].
  destruct (memn m seen); [apply Hs; exact Hx|].
  destruct (kids m) as [cs|] eqn:EK.
  - assert (HF : forall cs0 seen0, (forall c, In c cs0 -> R c = true) -> (forall z, In z seen0 -> R z = true) ->
                 forall z, In z (fold_left (reach_step kids k) cs0 seen0) -> R z = true).
    { induction cs0 as [|a cs0 IHc]; intros seen0 Hc Hs0 y Hy; cbn [fold_left] in Hy; [apply Hs0; exact Hy|].
      apply (IHc (reach_step kids k seen0 a)); [intros c' Hc'; apply Hc; right; exact Hc' | | exact Hy].
      intros z Hz. apply (IH seen0 a Hs0 (Hc a (or_introl eq_refl)) z Hz). }
    apply (HF cs (m :: seen)); [intros c' Hc'; apply (HC m cs c' Hm EK Hc') | | exact Hx].
    intros z [<-|Hz]; [exact Hm | apply Hs; exact Hz].
  - destruct Hx as [<-|Hx]; [exact Hm | apply Hs; exact Hx].
Qed.

Lemma fold_reach_R kids R fuel : closed kids R -> forall tops seen, (forall t, In t tops -> R t = true) ->
  (forall x, In x seen -> R x = true) -> forall x, In x (fold_left (reach_step kids fuel) tops seen) -> R x = true.
Proof.
  intros HC. induction tops as [|t tops IH]; intros seen HT Hs x Hx; cbn [fold_left] in Hx; [apply Hs; exact Hx|].
  apply (IH (reach_step kids fuel seen t)); [intros t' Ht'; apply HT; right; exact Ht' | | exact Hx].
  intros z Hz. apply (reach_step_R kids R HC fuel seen t Hs (HT t (or_introl eq_refl)) z Hz).
Qed.

Lemma starts_R pol kids R fuel tops : closed kids R -> (forall t, In t tops -> R t = true) ->
  forall t, In t (starts pol kids fuel tops) -> R t = true.
Proof.
  intros HC HT t Ht. unfold starts in Ht. destruct (sweep pol); [|apply HT; exact Ht].
  apply in_app_or in Ht. destruct Ht as [Ht|Ht]; [apply HT; exact Ht|].
  unfold below in Ht. apply in_rev in Ht. apply (fold_reach_R kids R fuel HC tops [] HT (fun x (F : In x []) => match F with end) t Ht).
Qed.

Lemma frame_call R s1 s2 c :
  closed (assoc_kids (c_kids c)) R -> agree R s1 s2 -> (forall t, In t (c_tops c) -> R t = true) ->
  snd (do_call repaired s1 c) = snd (do_call repaired s2 c) /\
  snd (fst (do_call repaired s1 c)) = snd (fst (do_call repaired s2 c)) /\
  agree R (fst (fst (do_call repaired s1 c))) (fst (fst (do_call repaired s2 c))).
Proof.
  intros HC A HT. unfold do_call.
  pose proof (starts_R repaired _ R (call_fuel c) (c_tops c) HC HT) as HS.
  destruct (frame_passes _ (assoc_fail (c_fail c)) R (call_fuel c) _ HC HS (c_passes c) s1 s2 A) as [E1 E2].
  destruct (c_export c); unfold export, run_passes.
  - destruct (run_passes_on repaired (assoc_kids (c_kids c)) (assoc_fail (c_fail c)) (call_fuel c) (c_passes c)
                (starts repaired (assoc_kids (c_kids c)) (call_fuel c) (c_tops c)) s1) as [a1 r1].
    destruct (run_passes_on repaired (assoc_kids (c_kids c)) (assoc_fail (c_fail c)) (call_fuel c) (c_passes c)
                (starts repaired (assoc_kids (c_kids c)) (call_fuel c) (c_tops c)) s2) as [a2 r2].
    cbn [fst snd] in *. subst r2. destruct r1 as [e|]; cbn [fst snd]; [split; [reflexivity|]; split; [reflexivity | exact E2]|].
    assert (HX : forall ts acc, (forall t, In t ts -> R t = true) ->
                 fold_x (xvisit repaired (assoc_kids (c_kids c)) a1 (call_fuel c)) acc ts =
                 fold_x (xvisit repaired (assoc_kids (c_kids c)) a2 (call_fuel c)) acc ts).
    { induction ts as [|t ts IHt]; intros acc Hts; [reflexivity|]. cbn [fold_x].
      rewrite (frame_xvisit _ R a1 a2 HC E2 (call_fuel c) acc t (Hts t (or_introl eq_refl))).
      destruct (xvisit repaired (assoc_kids (c_kids c)) a2 (call_fuel c) acc t) as [xx [ee|]]; [reflexivity|].
      apply IHt. intros t' Ht'. apply Hts. right. exact Ht'. }
    rewrite (HX (c_tops c) [] HT).
    destruct (fold_x (xvisit repaired (assoc_kids (c_kids c)) a2 (call_fuel c)) [] (c_tops c)) as [xx [ee|]]; cbn [fst snd]; (split; [reflexivity|]; split; [reflexivity | exact E2]).
  - cbn [fst snd]. split; [reflexivity|]. split; [exact E1 | exact E2].
Qed.

(* ------------------------------------------------------------------ a module that instantiates a recorded module is
   never completed by any pass, never recorded itself, never marked: a parent built around a failed module after the
   failure stays exactly as it was built, so that pointing its instances at a re-created module later is elaborated as in a
   fresh process (frame) *)
Definition same_on (x : nat) (s s' : pst) : Prop :=
  (forall q, memp (q, x) (done s') = memp (q, x) (done s)) /\ rec_of x (failed s') = rec_of x (failed s) /\
  memn x (elab s') = memn x (elab s).

Lemma same_on_refl x s : same_on x s s.
Proof. repeat split. Qed.
Lemma same_on_trans x s s1 s2 : same_on x s s1 -> same_on x s1 s2 -> same_on x s s2.
Proof. intros (A1 & A2 & A3) (B1 & B2 & B3). split; [intros q; rewrite B1; apply A1|]. split; congruence. Qed.

Section Untouched.
Variable kids : nat -> option (list nat).
Variable f : nat -> nat -> option Z.
Variables (x b : nat) (cs : list nat).
Hypothesis Hk : kids x = Some cs.
Hypothesis Hb : In b cs.

Lemma fold_untouched p v : Good p v ->
  (forall s m s' r, v s m = (s', r) -> rec_of b (failed s) <> None -> same_on x s s') ->
  forall ms s s' r, fold_visit v s ms = (s', r) -> rec_of b (failed s) <> None -> same_on x s s'.
Proof.
  intros G Hv. induction ms as [|m ms IH]; intros s s' r H HB; cbn [fold_visit] in H.
  - inversion H; subst. apply same_on_refl.
  - destruct (v s m) as [s1 r1] eqn:E. pose proof (Hv _ _ _ _ E HB) as S1.
    destruct r1 as [e|]; [inversion H; subst; exact S1|].
    pose proof (G _ _ _ _ E) as (_ & _ & _ & _ & _ & _ & A7 & _).
    eapply same_on_trans; [exact S1 | apply (IH _ _ _ H)]. apply A7. exact HB.
Qed.

Lemma visit_untouched p : forall k s m s' r, visit repaired kids f p k s m = (s', r) ->
  rec_of b (failed s) <> None -> same_on x s s'.
Proof.
  induction k as [|k IH]; intros s m s' r H HB.
  - cbn in H. inversion H; subst. apply same_on_refl.
  - rewrite visit_S in H. destruct (rec_of m (failed s)) as [c|] eqn:ER.
    { inversion H; subst. apply same_on_refl. }
    destruct (memp (pid p, m) (done s)) eqn:ED. { inversion H; subst. apply same_on_refl. }
    destruct (memp (pid p, m) (pend s)) eqn:EP. { inversion H; subst. apply same_on_refl. }
    destruct (kids m) as [cm|] eqn:EK. 2:{ inversion H; subst. apply same_on_refl. }
    destruct (fold_visit (visit repaired kids f p k) (add_pend (pid p, m) s) cm) as [s2 r2] eqn:EF.
    pose proof (fold_untouched p _ (visit_good kids p f k) IH _ _ _ _ EF HB) as (S1 & S2 & S3).
    pose proof (fold_good p _ (visit_good kids p f k) _ _ _ _ EF) as (A1 & A2 & A3 & A4 & A5 & A6 & A7 & A8 & A9).
    cbn [add_pend pend done failed elab half] in *.
    (* the traversal of the children of x cannot succeed: b carries a record *)
    assert (Hne : r2 = None -> x <> m).
    { intros -> ->. destruct (A6 eq_refl) as (_ & D1). rewrite EK in Hk. inversion Hk; subst cm.
      destruct (D1 b Hb) as [_ R]. apply HB. exact R. }
    destruct r2 as [e|].
    + inversion H; subst. unfold same_on. cbn [unpend pend done failed elab half]. split; [exact S1|]. split; [exact S2 | exact S3].
    + pose proof (Hne eq_refl) as Hxm. destruct (f (pid p) m) as [c|].
      * inversion H; subst. unfold same_on. destruct (prw p); cbn [interrupted records repaired sticky sticky_base andb orb unpend pend done failed elab half].
        -- split; [exact S1|]. split; [rewrite rec_of_cons_ne by exact Hxm; exact S2 | exact S3].
        -- split; [exact S1|]. split; [exact S2 | exact S3].
      * inversion H; subst. unfold same_on. cbn [set_done unpend pend done failed elab half fst snd].
        split; [intros q; rewrite (memp_X_ne p q x m _ Hxm); apply S1|]. split; [exact S2|].
        destruct (pmk p); [|exact S3]. unfold memn in *. cbn [existsb]. apply Nat.eqb_neq in Hxm. rewrite Hxm. exact S3.
Qed.

Lemma passes_untouched fuel ms : forall ps s s' r, run_passes_on repaired kids f fuel ps ms s = (s', r) ->
  rec_of b (failed s) <> None -> same_on x s s'.
Proof.
  induction ps as [|p ps IH]; intros s s' r H HB; cbn [run_passes_on] in H.
  - inversion H; subst. apply same_on_refl.
  - destruct (fold_visit (visit repaired kids f p fuel) s ms) as [s1 r1] eqn:E.
    pose proof (fold_untouched p _ (visit_good kids p f fuel) (visit_untouched p fuel) _ _ _ _ E HB) as S1.
    destruct r1 as [e|]; [inversion H; subst; exact S1|].
    pose proof (fold_goodC kids f p fuel _ _ _ _ E) as (_ & _ & _ & _ & A5 & _).
    eapply same_on_trans; [exact S1 | apply (IH _ _ _ H)]. apply A5. exact HB.
Qed.
End Untouched.

Lemma do_call_state pol s c :
  fst (fst (do_call pol s c)) =
  fst (run_passes pol (assoc_kids (c_kids c)) (assoc_fail (c_fail c)) (call_fuel c) (c_passes c) (c_tops c) s).
Proof.
  unfold do_call. destruct (c_export c); [|reflexivity]. unfold export.
  destruct (run_passes pol (assoc_kids (c_kids c)) (assoc_fail (c_fail c)) (call_fuel c) (c_passes c) (c_tops c) s) as [s1 [e|]]; [reflexivity|].
  destruct (fold_x (xvisit pol (assoc_kids (c_kids c)) s1 (call_fuel c)) [] (c_tops c)) as [a [e|]]; reflexivity.
Qed.

Lemma do_call_untouched s c x b cs : assoc_kids (c_kids c) x = Some cs -> In b cs -> rec_of b (failed s) <> None ->
  same_on x s (fst (fst (do_call repaired s c))).
Proof.
  intros Hk Hb HB. rewrite do_call_state. unfold run_passes.
  destruct (run_passes_on repaired (assoc_kids (c_kids c)) (assoc_fail (c_fail c)) (call_fuel c) (c_passes c)
              (starts repaired (assoc_kids (c_kids c)) (call_fuel c) (c_tops c)) s) as [s1 r1] eqn:E.
  apply (passes_untouched _ _ x b cs Hk Hb _ _ _ _ _ _ E HB).
Qed.
