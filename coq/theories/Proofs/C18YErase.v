(* Proofs/C18YErase.v — lemmas behind Props/C18YE.v: a history with every Signal direction erased is the same history *)
Require Import Hdl21.Base.PyInt Hdl21.Spec.Namespace Hdl21.Model.Namespace Hdl21.Proofs.NamespaceProofs.
From Coq Require Import String Ascii.
Open Scope list_scope.
Open Scope Z_scope.

(* ------------------------------------------------------------------ erasing every direction changes nothing but the directions *)
Definition ek (k : vkind) : vkind := match k with KSignal p _ => KSignal p DNone | _ => k end.
Definition ev (v : value) : value := V (v_id v) (ek (v_kind v)) (v_name v).
Definition eo (o : op) : op :=
  match o with SetAttr n v => SetAttr n (ev v) | Add v on => Add (ev v) on | _ => o end.
Definition ea (l : assoc) : assoc := map (fun e => (fst e, ev (snd e))) l.

(* t is s with every direction erased *)
Definition SE (s t : state) : Prop :=
  st_ns t = ea (st_ns s) /\ (forall k, st_views t k = ea (st_views s k)) /\ st_elab t = st_elab s /\ st_owned t = st_owned s.

Lemma view_of_ek c k : view_of c (ek k) = view_of c k.
Proof. destruct c, k as [[|] d| | | | | |]; reflexivity. Qed.

Lemma is_attr_ek c k : is_attr c (ek k) = is_attr c k.
Proof. unfold is_attr. rewrite view_of_ek. reflexivity. Qed.

Lemma lookup_ea n l : lookup n (ea l) = option_map ev (lookup n l).
Proof. induction l as [|[m w] t IH]; simpl; [reflexivity|]. destruct (String.eqb n m); [reflexivity|exact IH]. Qed.

Lemma has_ea n l : has n (ea l) = has n l.
Proof. unfold has. rewrite lookup_ea. destruct (lookup n l); reflexivity. Qed.

Lemma upd_ea n v l : upd n (ev v) (ea l) = ea (upd n v l).
Proof. induction l as [|[m w] t IH]; simpl; [reflexivity|]. destruct (String.eqb n m); simpl; [reflexivity|]. rewrite IH. reflexivity. Qed.

Lemma rem_ea n l : rem n (ea l) = ea (rem n l).
Proof. induction l as [|[m w] t IH]; simpl; [reflexivity|]. destruct (String.eqb n m); simpl; [exact IH|]. rewrite IH. reflexivity. Qed.

Lemma existsb_pointwise {A} (f g : A -> bool) l : (forall x, f x = g x) -> existsb f l = existsb g l.
Proof. intros H. induction l as [|x t IH]; simpl; [reflexivity|]. rewrite H, IH. reflexivity. Qed.

Lemma do_add_erase c s t n v : SE s t ->
  match do_add c s n v, do_add c t n (ev v) with
  | Ok s', Ok t' => SE s' t'
  | Error _, Error _ => True
  | _, _ => False
  end.
Proof.
  intros [Hn [Hv [He Ho]]]. unfold do_add. rewrite He. destruct (st_elab s); [exact I|].
  destruct (reserved c n); [exact I|]. simpl v_kind. rewrite view_of_ek.
  destruct (view_of c (v_kind v)) as [k|]; [|exact I].
  assert (Hs : existsb (fun k' => negb (view_eqb k' k) && has n (st_views t k')) (views_of c) =
               existsb (fun k' => negb (view_eqb k' k) && has n (st_views s k')) (views_of c)).
  { apply existsb_pointwise. intros k'. rewrite Hv, has_ea. reflexivity. }
  rewrite Hs. clear Hs. unfold SE. simpl. repeat split.
  - rewrite Hn. change (store_name (ev v) n) with (ev (store_name v n)).
    destruct (existsb _ (views_of c)); [rewrite rem_ea|]; apply upd_ea.
  - intros k'. change (store_name (ev v) n) with (ev (store_name v n)).
    destruct (view_eqb k' k); [rewrite Hv; apply upd_ea | rewrite Hv; apply rem_ea].
  - rewrite Ho. reflexivity.
Qed.

Lemma step_erase c s t o : SE s t ->
  match step c s o, step c t (eo o) with
  | Ok s', Ok t' => SE s' t'
  | Error _, Error _ => True
  | _, _ => False
  end.
Proof.
  intros H. destruct o as [n v|v on|n|]; simpl.
  - destruct (is_private n); [exact H|]. destruct (mem n (banned_names c)); [exact I|].
    destruct (String.eqb n "name"%string).
    + destruct (v_kind v) as [p d| | | | | |]; simpl; try exact I. exact H.
    + destruct (is_bundle c && String.eqb n "roles"%string); [exact I|]. rewrite is_attr_ek.
      destruct (negb (is_attr c (v_kind v))); [exact I|]. apply do_add_erase. exact H.
  - rewrite is_attr_ek. destruct (negb (is_attr c (v_kind v))); [exact I|].
    destruct on as [n|], (v_name v) as [m|]; try exact I; apply do_add_erase; exact H.
  - exact I.
  - destruct H as [Hn [Hv [He Ho]]]. repeat split; simpl; auto.
Qed.

Lemma fold_erase c ops : forall s t, SE s t -> SE (fold_left (apply c) ops s) (fold_left (apply c) (map eo ops) t).
Proof.
  induction ops as [|o r IH]; simpl; intros s t H; [exact H|]. apply IH. unfold apply.
  pose proof (step_erase c s t o H) as HS. destruct (step c s o), (step c t (eo o)); try tauto.
Qed.

Lemma SE_init : SE init init.
Proof. repeat split. Qed.

Lemma keys_ea l : keys (ea l) = keys l.
Proof. unfold keys, ea. rewrite map_map. reflexivity. Qed.
