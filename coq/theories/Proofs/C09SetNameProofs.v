(* Proofs/C09SetNameProofs.v — the text written for a set-valued parameter does not depend on the iteration order of
   any set in it (Model/C09SetName.v). *)
Require Import Hdl21.Base.PyInt Hdl21.Model.ParamName Hdl21.Model.C09SetName.
From Coq Require Import String Ascii Permutation.
Open Scope string_scope.

(* ---------- String.leb is a total order (the library has antisymmetry and totality; transitivity here) ---------- *)
Lemma ascii_compare_refl a : Ascii.compare a a = Eq.
Proof. unfold Ascii.compare. apply N.compare_refl. Qed.

Lemma ascii_compare_lt_trans a b c : Ascii.compare a b = Lt -> Ascii.compare b c = Lt -> Ascii.compare a c = Lt.
Proof. unfold Ascii.compare. rewrite !N.compare_lt_iff. apply N.lt_trans. Qed.

Lemma string_compare_trans : forall a b c,
  String.compare a b <> Gt -> String.compare b c <> Gt -> String.compare a c <> Gt.
Proof.
  induction a as [|x a IH]; intros [|y b] [|z c]; simpl; try congruence.
  destruct (Ascii.compare x y) eqn:Exy; try congruence.
  - apply Ascii.compare_eq_iff in Exy. subst y.
    destruct (Ascii.compare x z) eqn:Exz; try congruence. apply IH.
  - destruct (Ascii.compare y z) eqn:Eyz; try congruence.
    + apply Ascii.compare_eq_iff in Eyz. subst z. rewrite Exy. congruence.
    + rewrite (ascii_compare_lt_trans _ _ _ Exy Eyz). congruence.
Qed.

Lemma leb_trans a b c : String.leb a b = true -> String.leb b c = true -> String.leb a c = true.
Proof.
  unfold String.leb. intros H1 H2.
  pose proof (string_compare_trans a b c) as T.
  destruct (String.compare a b); destruct (String.compare b c); destruct (String.compare a c); try discriminate; try reflexivity;
    exfalso; apply T; congruence.
Qed.

Lemma leb_false_flip a b : String.leb a b = false -> String.leb b a = true.
Proof. intros H. destruct (String.leb_total a b) as [T|T]; congruence. Qed.

(* ---------- inserting commutes, so sorting forgets the order of its input ---------- *)
Lemma insert_comm x y : forall l, insert x (insert y l) = insert y (insert x l).
Proof.
  induction l as [|a l IH]; simpl.
  - destruct (String.leb x y) eqn:Exy; destruct (String.leb y x) eqn:Eyx; try reflexivity.
    + rewrite (String.leb_antisym _ _ Exy Eyx). reflexivity.
    + apply leb_false_flip in Exy. congruence.
  - destruct (String.leb y a) eqn:Eya; destruct (String.leb x a) eqn:Exa; simpl.
    + destruct (String.leb x y) eqn:Exy; destruct (String.leb y x) eqn:Eyx; rewrite ?Eya, ?Exa; try reflexivity.
      * rewrite (String.leb_antisym _ _ Exy Eyx). reflexivity.
      * apply leb_false_flip in Exy. congruence.
    + destruct (String.leb x y) eqn:Exy.
      * rewrite (leb_trans _ _ _ Exy Eya) in Exa. discriminate.
      * rewrite Eya. simpl. rewrite Exa. reflexivity.
    + destruct (String.leb y x) eqn:Eyx.
      * rewrite (leb_trans _ _ _ Eyx Exa) in Eya. discriminate.
      * rewrite Exa. simpl. rewrite Eya. reflexivity.
    + rewrite Exa, Eya. rewrite IH. reflexivity.
Qed.

Lemma sort_perm : forall l l', Permutation l l' -> sort l = sort l'.
Proof.
  intros l l' P. induction P; simpl.
  - reflexivity.
  - rewrite IHP. reflexivity.
  - apply insert_comm.
  - congruence.
Qed.

(* one level: the text of a set is the same for every order in which its members are visited *)
Lemma enc_set_perm ms ms' : Permutation (map enc ms) (map enc ms') -> enc (SSet ms) = enc (SSet ms').
Proof. intros P. cbn [enc]. rewrite (sort_perm _ _ P). reflexivity. Qed.

(* every level: whatever order each set of the value iterates in *)
Lemma enc_shuffle pi : (forall l, Permutation l (pi l)) -> forall v, enc (shuffle pi v) = enc v.
Proof.
  intros Hpi. fix IH 1. intros v. destruct v as [z|s|ms]; try reflexivity.
  cbn [shuffle]. apply enc_set_perm.
  apply Permutation_sym. eapply Permutation_trans; [|apply Permutation_map; apply Hpi].
  assert (map enc (map (shuffle pi) ms) = map enc ms) as ->; [|apply Permutation_refl].
  induction ms as [|m ms IHl]; [reflexivity|]. simpl. rewrite IH, IHl. reflexivity.
Qed.
