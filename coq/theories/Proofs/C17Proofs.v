(* Proofs/C17Proofs.v — lemmas behind Props/C17.v: the model of the Sim exporter (Model/SimExport.v)
   against the specification of a complete and faithful SimInput (Spec/SimSpec.v). *)
From Coq Require Import String Ascii DecimalString DecimalN.
Require Import Hdl21.Base.PyInt Hdl21.Spec.SimSpec Hdl21.Model.SimExport.
Open Scope list_scope.
Open Scope Z_scope.

(* ------------------------------------------------------------------------------------------ *)
(* generic helpers                                                                             *)
(* ------------------------------------------------------------------------------------------ *)
Lemma bind_ok {A B} (r : result A) (k : A -> result B) y :
  bind r k = Ok y -> exists a, r = Ok a /\ k a = Ok y.
Proof. destruct r as [a|e]; simpl; intros H; [exists a; auto|discriminate]. Qed.

Ltac inv_bind H :=
  let a := fresh "r" in let E := fresh "E" in
  apply bind_ok in H; destruct H as [a [E H]].

Lemma and3 (a b : bool) : a = true -> b = true -> a && b = true.
Proof. intros -> ->. reflexivity. Qed.

Lemma forall2b_cons {A B} (f : A -> B -> bool) a l b l' :
  forall2b f (a :: l) (b :: l') = f a b && forall2b f l l'.
Proof. reflexivity. Qed.

Lemma forall2b_Forall2 {A B} (f : A -> B -> bool) l l' :
  forall2b f l l' = true <-> Forall2 (fun a b => f a b = true) l l'.
Proof.
  revert l'. induction l as [|a l IH]; intros [|b l']; simpl; split; intros H; try discriminate; try constructor;
    try (inversion H; fail).
  - apply andb_true_iff in H. tauto.
  - apply andb_true_iff in H. apply IH. tauto.
  - inversion H; subst. apply andb_true_iff. split; [assumption|]. apply IH. assumption.
Qed.

Lemma forall2b_length {A B} (f : A -> B -> bool) l l' : forall2b f l l' = true -> length l = length l'.
Proof. intros H. apply forall2b_Forall2 in H. induction H; simpl; congruence. Qed.

Lemma mem_str_In s l : mem_str s l = true <-> In s l.
Proof.
  unfold mem_str. rewrite existsb_exists. split.
  - intros [x [Hx E]]. apply String.eqb_eq in E. subst. assumption.
  - intros H. exists s. split; [assumption|apply String.eqb_refl].
Qed.

Lemma nodupb_NoDup l : nodupb l = true <-> NoDup l.
Proof.
  induction l as [|x l IH]; simpl; split; intros H; try constructor; auto.
  - apply andb_true_iff in H. destruct H as [H _]. intros Hin. apply mem_str_In in Hin. rewrite Hin in H. discriminate.
  - apply andb_true_iff in H. apply IH. tauto.
  - inversion H; subst. apply andb_true_iff. split; [|apply IH; assumption].
    destruct (mem_str x l) eqn:E; [|reflexivity]. apply mem_str_In in E. contradiction.
Qed.

Lemma nodup_app {A} (l1 l2 : list A) :
  NoDup l1 -> NoDup l2 -> (forall x, In x l1 -> ~ In x l2) -> NoDup (l1 ++ l2).
Proof.
  induction l1 as [|a l1 IH]; simpl; intros H1 H2 D; [assumption|].
  inversion H1; subst. constructor.
  - rewrite in_app_iff. intros [H|H]; [contradiction|]. exact (D a (or_introl eq_refl) H).
  - apply IH; auto.
Qed.

Lemma count_nodup s l : NoDup l -> In s l -> count_str s l = 1.
Proof.
  unfold count_str, zlen. induction l as [|x l IH]; simpl; intros ND Hin; [contradiction|].
  inversion ND; subst. destruct Hin as [->|Hin].
  - rewrite String.eqb_refl. simpl.
    assert (E : filter (String.eqb s) l = []).
    { clear -H1. induction l as [|y l IH]; simpl; [reflexivity|].
      destruct (String.eqb s y) eqn:E; [apply String.eqb_eq in E; subst; exfalso; apply H1; left; reflexivity|].
      apply IH. intros H. apply H1. right. assumption. }
    rewrite E. reflexivity.
  - destruct (String.eqb s x) eqn:E; [apply String.eqb_eq in E; subst; contradiction|]. apply IH; assumption.
Qed.

(* ------------------------------------------------------------------------------------------ *)
(* induction principles for the nested types                                                   *)
(* ------------------------------------------------------------------------------------------ *)
Section AnalysisInd.
  Variable P : analysis -> Prop.
  Hypothesis HOp : forall n, P (AOp n).
  Hypothesis HDc : forall v sw n, P (ADc v sw n).
  Hypothesis HAc : forall a b k n, P (AAc a b k n).
  Hypothesis HTran : forall t ts n, P (ATran t ts n).
  Hypothesis HNoise : forall o s a b k n, P (ANoise o s a b k n).
  Hypothesis HSweep : forall inner v sw n, Forall P inner -> P (ASweep inner v sw n).
  Hypothesis HMonte : forall inner k n, Forall P inner -> P (AMonte inner k n).
  Hypothesis HCustom : forall c n, P (ACustom c n).
  Fixpoint analysis_ind' (a : analysis) : P a :=
    match a with
    | AOp n => HOp n
    | ADc v sw n => HDc v sw n
    | AAc a b k n => HAc a b k n
    | ATran t ts n => HTran t ts n
    | ANoise o s a b k n => HNoise o s a b k n
    | ASweep inner v sw n =>
        HSweep inner v sw n ((fix go l : Forall P l :=
                                match l with [] => Forall_nil P | x :: l' => Forall_cons x (analysis_ind' x) (go l') end) inner)
    | AMonte inner k n =>
        HMonte inner k n ((fix go l : Forall P l :=
                             match l with [] => Forall_nil P | x :: l' => Forall_cons x (analysis_ind' x) (go l') end) inner)
    | ACustom c n => HCustom c n
    end.
End AnalysisInd.

Section HmodInd.
  Variable P : hmod -> Prop.
  Hypothesis H : forall i n kids, Forall P kids -> P (HMod i n kids).
  Fixpoint hmod_ind' (m : hmod) : P m :=
    match m with
    | HMod i n kids =>
        H i n kids ((fix go l : Forall P l :=
                       match l with [] => Forall_nil P | x :: l' => Forall_cons x (hmod_ind' x) (go l') end) kids)
    end.
End HmodInd.

(* ------------------------------------------------------------------------------------------ *)
(* rendering of the float fields: g says which field value stands for "float of m*10^e"        *)
(* ------------------------------------------------------------------------------------------ *)
Section MapF.
  Variable g : fnum -> fnum.
  Definition map_osweep (s : osweep) : osweep :=
    match s with
    | OLin a b c => OLin (g a) (g b) (g c)
    | OLog a b n => OLog (g a) (g b) (g n)
    | OPts l => OPts (map g l)
    end.
  Fixpoint map_oan (o : oan) : oan :=
    match o with
    | OOp n => OOp n
    | ODc n i sw => ODc n i (map_osweep sw)
    | OAc n a b k => OAc n (g a) (g b) k
    | OTran n a b => OTran n (g a) (g b)
    | ONoise n p q s a b k => ONoise n p q s (g a) (g b) k
    | OSweep n v sw l => OSweep n v (map_osweep sw) (map map_oan l)
    | OMonte n k sd l => OMonte n k sd (map map_oan l)
    | OCustom n c => OCustom n c
    end.
  Definition map_si (o : siminput) : siminput :=
    {| o_top := o_top o; o_pkg := o_pkg o; o_opts := o_opts o; o_an := map map_oan (o_an o); o_ctrls := o_ctrls o |}.
  Lemma oan_name_map o : oan_name (map_oan o) = oan_name o.
  Proof. destruct o; reflexivity. Qed.
End MapF.

(* the float image of the model's symbolic fields under a float function fl (float(Prefixed)) *)
Definition dbl_same (a b : dbl) : bool :=
  match a, b with
  | DFin n M E, DFin n' M' E' => Bool.eqb n n' && (M =? M') && (E =? E')
  | DInf n, DInf n' => Bool.eqb n n'
  | DNan, DNan => true
  | _, _ => false
  end.
Lemma dbl_same_eq a b : dbl_same a b = true <-> a = b.
Proof.
  destruct a, b; simpl; split; intros H; try discriminate; try reflexivity.
  - apply andb_true_iff in H. destruct H as [H H3]. apply andb_true_iff in H. destruct H as [H1 H2].
    apply Bool.eqb_prop in H1. apply Z.eqb_eq in H2. apply Z.eqb_eq in H3. subst. reflexivity.
  - inversion H; subst. rewrite Bool.eqb_reflx, !Z.eqb_refl. reflexivity.
  - apply Bool.eqb_prop in H. subst. reflexivity.
  - inversion H; subst. apply Bool.eqb_reflx.
Qed.
Definition conc (fl : Z -> Z -> dbl) (f : fnum) : fnum :=
  match f with FDec m e => FDbl (fl m e) | FDbl d => FDbl d end.
Definition frel_fl (fl : Z -> Z -> dbl) (m e : Z) (f : fnum) : bool :=
  match f with FDbl d => dbl_same d (fl m e) | FDec _ _ => false end.
Lemma frel_fl_conc fl m e : frel_fl fl m e (conc fl (FDec m e)) = true.
Proof. simpl. apply dbl_same_eq. reflexivity. Qed.

Lemma dec_eqb_refl m e : dec_eqb m e m e = true.
Proof. unfold dec_eqb. rewrite Z.leb_refl, Z.sub_diag, Z.pow_0_r, Z.mul_1_r. apply Z.eqb_refl. Qed.
Lemma frel_nearest_id m e : frel_nearest m e (FDec m e) = true.
Proof. apply dec_eqb_refl. Qed.

(* ------------------------------------------------------------------------------------------ *)
(* automatic analysis names                                                                    *)
(* ------------------------------------------------------------------------------------------ *)
Lemma string_of_N_inj a b : string_of_N a = string_of_N b -> a = b.
Proof.
  unfold string_of_N. intros H.
  assert (E : Some (N.to_uint a) = Some (N.to_uint b)).
  { rewrite <- !NilEmpty.usu. rewrite H. reflexivity. }
  inversion E as [E']. rewrite <- (DecimalN.Unsigned.of_to a), <- (DecimalN.Unsigned.of_to b), E'. reflexivity.
Qed.
(* for an ARBITRARY prefix: the spelling of the prefix is a regenerated table entry, distinctness does not depend on it *)
Lemma append_inj_l p a b : String.append p a = String.append p b -> a = b.
Proof. induction p as [|c p IH]; simpl; intros H; [assumption|]. inversion H. apply IH. assumption. Qed.
Lemma auto_name_of_inj p a b : auto_name_of p a = auto_name_of p b -> a = b.
Proof. unfold auto_name_of. intros H. apply append_inj_l in H. apply string_of_N_inj. assumption. Qed.
Lemma auto_name_inj a b : auto_name a = auto_name b -> a = b.
Proof. unfold auto_name. apply auto_name_of_inj. Qed.

(* k, k+1, ..., k+n-1 *)
Fixpoint nseq (k : N) (n : nat) : list N := match n with O => [] | S n' => k :: nseq (N.succ k) n' end.
Lemma nseq_app k a b : nseq k (a + b) = nseq k a ++ nseq (k + N.of_nat a)%N b.
Proof.
  revert k. induction a as [|a IH]; intros k; simpl Nat.add.
  - simpl. rewrite N.add_0_r. reflexivity.
  - cbn [nseq app]. rewrite IH. do 3 f_equal. lia.
Qed.
Lemma nseq_ge k n x : In x (nseq k n) -> (k <= x < k + N.of_nat n)%N.
Proof.
  revert k. induction n as [|n IH]; intros k; simpl; [tauto|]. intros [<-|H]; [lia|]. apply IH in H. lia.
Qed.
Lemma nseq_nodup k n : NoDup (nseq k n).
Proof.
  revert k. induction n as [|n IH]; intros k; simpl; constructor; [|apply IH].
  intros H. apply nseq_ge in H. lia.
Qed.
Lemma auto_names_nodup k n : NoDup (map auto_name (nseq k n)).
Proof.
  assert (G : forall l, NoDup l -> NoDup (map auto_name l)).
  { induction l as [|x l IH]; simpl; intros H; constructor; inversion H; subst; auto.
    rewrite in_map_iff. intros [y [E Hy]]. apply auto_name_inj in E. subst. contradiction. }
  apply G, nseq_nodup.
Qed.

(* ------------------------------------------------------------------------------------------ *)
(* unfolding equations of the nested fixpoints                                                 *)
(* ------------------------------------------------------------------------------------------ *)
Lemma thread_cons {A B S} (f : A -> S -> result (B * S)) x l s :
  thread f (x :: l) s = (r1 <- f x s ;; r2 <- thread f l (snd r1) ;; Ok (fst r1 :: fst r2, snd r2)).
Proof. reflexivity. Qed.
Lemma seq_fold_cons {A S} (f : A -> S -> result S) x l s :
  seq_fold f (x :: l) s = (s' <- f x s ;; seq_fold f l s').
Proof. reflexivity. Qed.
Lemma xan_sweep inner v sw n k :
  xan (ASweep inner v sw n) k =
  (let '(nm, k1) := pick_name n k in
   sw' <- xsweep sw ;; r <- thread xan inner k1 ;; Ok (OSweep nm (xvar v) sw' (fst r), snd r)).
Proof. reflexivity. Qed.
Lemma xan_monte inner np n k :
  xan (AMonte inner np n) k =
  (let '(nm, k1) := pick_name n k in
   r <- thread xan inner k1 ;; _ <- chk (in_i64 np) ;; Ok (OMonte nm np 0 (fst r), snd r)).
Proof. reflexivity. Qed.
Lemma an_ok_sweep frel inner v sw n nm var osw oans :
  an_ok frel (ASweep inner v sw n) (OSweep nm var osw oans) =
  name_ok n nm && String.eqb var (var_name v) && sweep_ok frel sw osw && forall2b (an_ok frel) inner oans.
Proof. reflexivity. Qed.
Lemma an_ok_monte frel inner k n nm k' sd oans :
  an_ok frel (AMonte inner k n) (OMonte nm k' sd oans) = name_ok n nm && (k =? k') && forall2b (an_ok frel) inner oans.
Proof. reflexivity. Qed.
Definition inv_head (n : option string) (nm : string) : list string :=
  match user_name n with None => [nm] | Some _ => [] end.
Lemma invented_sweep inner v sw n nm var osw oans :
  invented (ASweep inner v sw n) (OSweep nm var osw oans) = inv_head n nm ++ map2cat invented inner oans.
Proof. reflexivity. Qed.
Lemma invented_monte inner k n nm k' sd oans :
  invented (AMonte inner k n) (OMonte nm k' sd oans) = inv_head n nm ++ map2cat invented inner oans.
Proof. reflexivity. Qed.
Lemma map2cat_cons {A B C} (f : A -> B -> list C) a l b l' : map2cat f (a :: l) (b :: l') = f a b ++ map2cat f l l'.
Proof. reflexivity. Qed.
Definition sum_an (l : list analysis) : Z := fold_right (fun x acc => an_count x + acc) 0 l.
Definition sum_oan (l : list oan) : Z := fold_right (fun x acc => oan_count x + acc) 0 l.
Lemma an_count_sweep inner v sw n : an_count (ASweep inner v sw n) = 1 + sum_an inner.
Proof. reflexivity. Qed.
Lemma an_count_monte inner k n : an_count (AMonte inner k n) = 1 + sum_an inner.
Proof. reflexivity. Qed.
Lemma oan_count_sweep n v sw l : oan_count (OSweep n v sw l) = 1 + sum_oan l.
Proof. reflexivity. Qed.
Lemma oan_count_monte n k sd l : oan_count (OMonte n k sd l) = 1 + sum_oan l.
Proof. reflexivity. Qed.

(* ------------------------------------------------------------------------------------------ *)
(* analyses: fields, nesting, invented names                                                   *)
(* ------------------------------------------------------------------------------------------ *)
Lemma pick_head n k nm k1 : pick_name n k = (nm, k1) ->
  name_ok n nm = true /\
  exists h, k1 = (k + N.of_nat h)%N /\ inv_head n nm = map auto_name (nseq k h).
Proof.
  unfold pick_name, name_ok, inv_head. destruct (user_name n) as [s|]; intros H; inversion H; subst; split.
  - apply String.eqb_refl.
  - exists 0%nat. split; [simpl; lia|reflexivity].
  - reflexivity.
  - exists 1%nat. split; [simpl; lia|reflexivity].
Qed.

Lemma head_join k h n (hd tl : list string) k1 k' :
  k1 = (k + N.of_nat h)%N -> hd = map auto_name (nseq k h) ->
  k' = (k1 + N.of_nat n)%N -> tl = map auto_name (nseq k1 n) ->
  exists n', k' = (k + N.of_nat n')%N /\ hd ++ tl = map auto_name (nseq k n').
Proof.
  intros -> -> -> ->. exists (h + n)%nat. split; [lia|]. rewrite nseq_app, map_app. reflexivity.
Qed.

Section Analyses.
  Variable frel : Z -> Z -> fnum -> bool.
  Variable g : fnum -> fnum.
  Hypothesis Hg : forall m e, frel m e (g (FDec m e)) = true.

  Lemma xf_ok x f : xf x = Ok f -> num_ok frel x (g f) = true.
  Proof. destruct x; simpl; intros H; inversion H; subst. apply Hg. Qed.
  Lemma xf_opt_ok x f : xf_opt x = Ok f -> onum_ok frel x (g f) = true.
  Proof. destruct x as [y|]; simpl; intros H; [apply xf_ok; assumption|inversion H; apply Hg]. Qed.
  Lemma xf_list_ok l : forall l', traverse xf l = Ok l' -> forall2b (num_ok frel) l (map g l') = true.
  Proof.
    induction l as [|x l IH]; simpl; intros l' H; [inversion H; reflexivity|].
    inv_bind H. inv_bind H. inversion H; subst. simpl. rewrite (xf_ok _ _ E), (IH _ E0). reflexivity.
  Qed.
  Lemma xsweep_ok s o : xsweep s = Ok o -> sweep_ok frel s (map_osweep g o) = true.
  Proof.
    destruct s; simpl; intros H.
    - inv_bind H. inv_bind H. inv_bind H. inversion H; subst. simpl.
      rewrite (xf_ok _ _ E), (xf_ok _ _ E0), (xf_ok _ _ E1). reflexivity.
    - inv_bind H. inv_bind H. inversion H; subst. simpl.
      rewrite (xf_ok _ _ E), (xf_ok _ _ E0). unfold xf_int. rewrite Hg. reflexivity.
    - inv_bind H. inversion H; subst. simpl. apply xf_list_ok. assumption.
  Qed.
  Lemma xnout_ok o p : xnout o = Ok p -> nout_ok o (fst p) (snd p) = true.
  Proof.
    destruct o as [l|s|s|]; simpl; intros H; try discriminate.
    - destruct l as [|[a|] [|[b|] [|c l]]]; try discriminate. inversion H; subst. simpl. rewrite !String.eqb_refl. reflexivity.
    - inversion H; subst. simpl. rewrite !String.eqb_refl. reflexivity.
    - inversion H; subst. simpl. rewrite !String.eqb_refl. reflexivity.
  Qed.

  Definition an_good (a : analysis) : Prop :=
    forall k o k', xan a k = Ok (o, k') ->
      an_ok frel a (map_oan g o) = true /\
      (exists n, k' = (k + N.of_nat n)%N /\ invented a (map_oan g o) = map auto_name (nseq k n)) /\
      oan_count o = an_count a.

  Definition list_good (l : list analysis) : Prop :=
    forall k os k', thread xan l k = Ok (os, k') ->
      forall2b (an_ok frel) l (map (map_oan g) os) = true /\
      (exists n, k' = (k + N.of_nat n)%N /\ map2cat invented l (map (map_oan g) os) = map auto_name (nseq k n)) /\
      sum_oan os = sum_an l.

  Lemma thread_good l : Forall an_good l -> list_good l.
  Proof.
    induction 1 as [|a l Ha _ IH]; intros k os k' H.
    - simpl in H. inversion H; subst. simpl. repeat split. exists 0%nat. split; [simpl; lia|reflexivity].
    - rewrite thread_cons in H. inv_bind H. inv_bind H. inversion H; subst. destruct r as [o ka]. destruct r0 as [os kb].
      simpl in *. destruct (Ha _ _ _ E) as [A1 [[n1 [A2 A3]] A4]]. destruct (IH _ _ _ E0) as [B1 [[n2 [B2 B3]] B4]].
      split; [|split].
      + rewrite A1, B1. reflexivity.
      + eapply head_join; [exact A2|exact A3|exact B2|exact B3].
      + unfold sum_oan, sum_an in *. simpl. rewrite A4, B4. reflexivity.
  Qed.

  Ltac leaf EP :=
    destruct (pick_head _ _ _ _ EP) as [HN [h [Hk Hh]]];
    split; [|split; [exists h; split; [exact Hk|simpl; unfold inv_head in Hh; simpl in Hh; rewrite app_nil_r; exact Hh]|reflexivity]].

  Lemma xan_good a : an_good a.
  Proof.
    induction a using analysis_ind'; intros k0 oo k' HX.
    - simpl in HX. destruct (pick_name n k0) as [nm k1] eqn:EP. inversion HX; subst. leaf EP. exact HN.
    - simpl in HX. destruct (pick_name n k0) as [nm k1] eqn:EP. inv_bind HX. inversion HX; subst. leaf EP.
      simpl. rewrite HN, String.eqb_refl, (xsweep_ok _ _ E). reflexivity.
    - simpl in HX. destruct (pick_name n k0) as [nm k1] eqn:EP. inv_bind HX. inv_bind HX. inv_bind HX. inversion HX; subst. leaf EP.
      simpl. rewrite HN, (xf_ok _ _ E), (xf_ok _ _ E0), Z.eqb_refl. reflexivity.
    - simpl in HX. destruct (pick_name n k0) as [nm k1] eqn:EP. inv_bind HX. inv_bind HX. inversion HX; subst. leaf EP.
      simpl. rewrite HN, (xf_ok _ _ E), (xf_opt_ok _ _ E0). reflexivity.
    - simpl in HX. destruct (pick_name n k0) as [nm k1] eqn:EP. inv_bind HX. inv_bind HX. inv_bind HX. inv_bind HX. inversion HX; subst. leaf EP.
      simpl. rewrite HN, (xnout_ok _ _ E), (xf_ok _ _ E0), (xf_ok _ _ E1), String.eqb_refl, Z.eqb_refl. reflexivity.
    - rewrite xan_sweep in HX. destruct (pick_name n k0) as [nm k1] eqn:EP. inv_bind HX. inv_bind HX. inversion HX; subst.
      destruct r0 as [os kb]. simpl fst in *. simpl snd in *.
      destruct (pick_head _ _ _ _ EP) as [HN [h [Hk Hh]]].
      destruct (thread_good _ H _ _ _ E0) as [B1 [[n2 [B2 B3]] B4]].
      cbn [map_oan]. split; [|split].
      + rewrite an_ok_sweep, HN, (xsweep_ok _ _ E), B1. unfold xvar, var_name. rewrite String.eqb_refl. reflexivity.
      + rewrite invented_sweep. eapply head_join; [exact Hk|exact Hh|exact B2|exact B3].
      + rewrite oan_count_sweep, an_count_sweep, B4. reflexivity.
    - rewrite xan_monte in HX. destruct (pick_name n k0) as [nm k1] eqn:EP. inv_bind HX. inv_bind HX. inversion HX; subst.
      destruct r as [os kb]. simpl fst in *. simpl snd in *.
      destruct (pick_head _ _ _ _ EP) as [HN [h [Hk Hh]]].
      destruct (thread_good _ H _ _ _ E) as [B1 [[n2 [B2 B3]] B4]].
      cbn [map_oan]. split; [|split].
      + rewrite an_ok_monte, HN, B1, Z.eqb_refl. reflexivity.
      + rewrite invented_monte. eapply head_join; [exact Hk|exact Hh|exact B2|exact B3].
      + rewrite oan_count_monte, an_count_monte, B4. reflexivity.
    - simpl in HX. destruct (pick_name n k0) as [nm k1] eqn:EP. inversion HX; subst. leaf EP.
      simpl. rewrite HN, String.eqb_refl. reflexivity.
  Qed.

  Lemma xan_list_good l : list_good l.
  Proof. apply thread_good. apply Forall_forall. intros a _. apply xan_good. Qed.
End Analyses.

(* ------------------------------------------------------------------------------------------ *)
(* controls and options                                                                        *)
(* ------------------------------------------------------------------------------------------ *)
Lemma xsave_ok t o : xsave t = Ok o -> starg_ok t o = true.
Proof.
  destruct t as [m|s|l|s|l]; simpl; intros H; try (inversion H; subst; simpl; apply String.eqb_refl).
  destruct m; inversion H; reflexivity.
Qed.
Lemma xsave_total t : t <> TMode MSelected -> exists o, xsave t = Ok o.
Proof. destruct t as [m|s|l|s|l]; simpl; intros H; eauto. destruct m; eauto. congruence. Qed.
Lemma xpnum_ok v p : xpnum v = Ok p -> pval_num_ok v p = true.
Proof.
  destruct v; simpl; intros H.
  - inversion H; subst. apply dec_eqb_refl.
  - inversion H; subst. apply String.eqb_refl.
Qed.
Lemma xctrl_ok c o : xctrl c = Ok o -> ctrl_ok c o = true.
Proof.
  destruct c; simpl; intros H.
  - inversion H; subst. apply String.eqb_refl.
  - inversion H; subst. simpl. rewrite !String.eqb_refl. reflexivity.
  - apply xsave_ok. assumption.
  - inversion H; subst. simpl. rewrite !String.eqb_refl. reflexivity.
  - inv_bind H. inversion H; subst. simpl. rewrite String.eqb_refl, (xpnum_ok _ _ E). reflexivity.
  - inversion H; subst. apply String.eqb_refl.
Qed.
Lemma xoval_ok v p : xoval v = Ok p -> oval_ok v p = true.
Proof.
  destruct v; simpl; intros H.
  - inversion H; subst. apply Z.eqb_refl.
  - destruct x; simpl in *.
    + inversion H; subst. apply dec_eqb_refl.
    + inversion H; subst. apply String.eqb_refl.
Qed.

(* export of one option entry *)
Definition xopt (x : string * oval) : result (string * pval) := p <- xoval (snd x) ;; Ok (fst x, p).

(* ------------------------------------------------------------------------------------------ *)
(* the attribute list: partition into three lists, each the export of the attributes of its kind *)
(* ------------------------------------------------------------------------------------------ *)
Lemma xattrs_partition l : forall k os ans cs, xattrs l k = Ok (os, ans, cs) ->
  (exists k', thread xan (ans_of l) k = Ok (ans, k')) /\
  traverse xctrl (ctrls_of l) = Ok cs /\
  traverse xopt (opts_of l) = Ok os.
Proof.
  induction l as [|a l IH]; intros k os ans cs H.
  - simpl in H. inversion H; subst. simpl. split; [exists k; reflexivity|split; reflexivity].
  - destruct a as [a|c|n v]; simpl in H.
    + inv_bind H. inv_bind H. destruct r0 as [[os' ans'] cs']. inversion H; subst.
      destruct (IH _ _ _ _ E0) as [[k' A] [B C]]. split; [|split; assumption].
      exists k'. change (ans_of (AtAn a :: l)) with (a :: ans_of l). rewrite thread_cons, E. simpl. rewrite A. reflexivity.
    + inv_bind H. inv_bind H. destruct r0 as [[os' ans'] cs']. inversion H; subst.
      destruct (IH _ _ _ _ E0) as [A [B C]]. split; [assumption|split; [|assumption]].
      change (ctrls_of (AtCtrl c :: l)) with (c :: ctrls_of l). simpl. rewrite E. simpl. rewrite B. reflexivity.
    + inv_bind H. inv_bind H. destruct r0 as [[os' ans'] cs']. inversion H; subst.
      destruct (IH _ _ _ _ E0) as [A [B C]]. split; [assumption|split; [assumption|]].
      change (opts_of (AtOpt n v :: l)) with ((n, v) :: opts_of l). simpl. unfold xopt at 1. simpl. rewrite E. simpl. rewrite C. reflexivity.
Qed.

(* and conversely: when every attribute of each kind is exportable, so is the list *)
Lemma xattrs_complete l : forall k ans k' cs os,
  thread xan (ans_of l) k = Ok (ans, k') -> traverse xctrl (ctrls_of l) = Ok cs -> traverse xopt (opts_of l) = Ok os ->
  xattrs l k = Ok (os, ans, cs).
Proof.
  induction l as [|a l IH]; intros k ans k' cs os A B C.
  - simpl in *. inversion A; inversion B; inversion C; subst. reflexivity.
  - destruct a as [a|c|n v].
    + change (ans_of (AtAn a :: l)) with (a :: ans_of l) in A. rewrite thread_cons in A. inv_bind A. inv_bind A.
      inversion A; subst. destruct r0 as [ans' kk]. simpl in *. rewrite E. simpl. rewrite (IH _ _ _ _ _ E0 B C). reflexivity.
    + change (ctrls_of (AtCtrl c :: l)) with (c :: ctrls_of l) in B. simpl in B. inv_bind B. inv_bind B.
      inversion B; subst. simpl. rewrite E. simpl. rewrite (IH _ _ _ _ _ A E0 C). reflexivity.
    + change (opts_of (AtOpt n v :: l)) with ((n, v) :: opts_of l) in C. simpl in C. inv_bind C. inv_bind C.
      inversion C; subst. unfold xopt in E. simpl in E. inv_bind E. inversion E; subst. simpl. rewrite E1. simpl.
      rewrite (IH _ _ _ _ _ A B E0). reflexivity.
Qed.

Lemma thread_length {A B S} (f : A -> S -> result (B * S)) l : forall s r, thread f l s = Ok r -> length (fst r) = length l.
Proof.
  induction l as [|x l IH]; intros s r H.
  - simpl in H. inversion H; reflexivity.
  - rewrite thread_cons in H. inv_bind H. inv_bind H. inversion H; subst. simpl. f_equal. eapply IH. eassumption.
Qed.

Lemma traverse_forall2b {A B} (f : A -> result B) (ok : A -> B -> bool) :
  (forall a b, f a = Ok b -> ok a b = true) -> forall l l', traverse f l = Ok l' -> forall2b ok l l' = true.
Proof.
  intros Hf. induction l as [|x l IH]; simpl; intros l' H; [inversion H; reflexivity|].
  inv_bind H. inv_bind H. inversion H; subst. simpl. rewrite (Hf _ _ E), (IH _ E0). reflexivity.
Qed.

Lemma xopt_ok x o : xopt x = Ok o -> opt_ok x o = true.
Proof.
  unfold xopt, opt_ok. intros H. inv_bind H. inversion H; subst. simpl. rewrite String.eqb_refl, (xoval_ok _ _ E). reflexivity.
Qed.

Section Attrs.
  Variable frel : Z -> Z -> fnum -> bool.
  Variable g : fnum -> fnum.
  Hypothesis Hg : forall m e, frel m e (g (FDec m e)) = true.

  Lemma xattrs_rel l k os ans cs : xattrs l k = Ok (os, ans, cs) ->
    forall2b (an_ok frel) (ans_of l) (map (map_oan g) ans) = true /\
    forall2b ctrl_ok (ctrls_of l) cs = true /\
    forall2b opt_ok (opts_of l) os = true /\
    exists n, map2cat invented (ans_of l) (map (map_oan g) ans) = map auto_name (nseq k n).
  Proof.
    intros H. destruct (xattrs_partition _ _ _ _ _ H) as [[k' A] [B C]].
    destruct (xan_list_good frel g Hg _ _ _ _ A) as [A1 [[n [_ A2]] _]].
    split; [exact A1|]. split; [exact (traverse_forall2b _ _ xctrl_ok _ _ B)|].
    split; [exact (traverse_forall2b _ _ xopt_ok _ _ C)|]. exists n. exact A2.
  Qed.
End Attrs.

(* ------------------------------------------------------------------------------------------ *)
(* co-export of the testbench hierarchies: what a successful run adds to the package           *)
(* ------------------------------------------------------------------------------------------ *)
Lemma xmod_eq id name kids st :
  xmod (HMod id name kids) st =
  if existsb (fun e => N.eqb (fst e) id) (done st) then Ok st
  else if mem_str name (reserved st) then Error EName
  else st2 <- seq_fold xmod kids {| reserved := name :: reserved st; done := done st |} ;;
       Ok {| reserved := reserved st2; done := done st2 ++ [(id, name)] |}.
Proof. reflexivity. Qed.

Record grows (st st' : pst) (src : list (N * string)) (added : list (N * string)) : Prop := {
  g_done : done st' = done st ++ added;
  g_res : forall x, In x (reserved st') <-> In x (pkg_names added) \/ In x (reserved st);
  g_nodup : NoDup (pkg_names added);
  g_fresh : forall x, In x (pkg_names added) -> ~ In x (reserved st);
  g_src : incl added src }.

Definition mod_grows (m : hmod) : Prop :=
  forall st st', xmod m st = Ok st' ->
    exists added, grows st st' (flat_mods m) added /\ exists nm, In (mod_id m, nm) (done st').
Definition mods_grow (l : list hmod) : Prop :=
  forall st st', seq_fold xmod l st = Ok st' ->
    exists added, grows st st' (flat_map flat_mods l) added /\ forall m, In m l -> exists nm, In (mod_id m, nm) (done st').

Lemma mods_grow_of l : Forall mod_grows l -> mods_grow l.
Proof.
  induction 1 as [|m l Hm _ IH]; intros st st' H.
  - simpl in H. inversion H; subst. exists []. split; [|intros m []].
    constructor; simpl; [symmetry; apply app_nil_r|tauto|constructor|tauto|intros x []].
  - rewrite seq_fold_cons in H. inv_bind H. rename r into sa.
    destruct (Hm _ _ E) as [a1 [G1 [nm1 M1]]]. destruct (IH _ _ H) as [a2 [G2 M2]].
    destruct G1 as [D1 R1 N1 F1 S1]. destruct G2 as [D2 R2 N2 F2 S2].
    exists (a1 ++ a2). split.
    + constructor.
      * rewrite D2, D1, app_assoc. reflexivity.
      * intros x. unfold pkg_names. rewrite map_app, in_app_iff. fold (pkg_names a1). fold (pkg_names a2).
        rewrite R2, R1. tauto.
      * unfold pkg_names. rewrite map_app. apply nodup_app; [exact N1|exact N2|].
        intros x H1 H2. apply (F2 x H2). apply R1. left. exact H1.
      * intros x. unfold pkg_names. rewrite map_app, in_app_iff. intros [Hx|Hx]; [apply F1; exact Hx|].
        intros Hr. apply (F2 x Hx). apply R1. right. exact Hr.
      * simpl. apply incl_app; [apply incl_appl; exact S1|apply incl_appr; exact S2].
    + intros m' [<-|Hin]; [|apply M2; exact Hin]. exists nm1. rewrite D2. apply in_or_app. left. exact M1.
Qed.

Lemma xmod_grows m : mod_grows m.
Proof.
  induction m as [id name kids IHk] using hmod_ind'. intros st st' H. rewrite xmod_eq in H.
  destruct (existsb (fun e => N.eqb (fst e) id) (done st)) eqn:EX.
  - inversion H; subst. exists []. split.
    + constructor; simpl; [symmetry; apply app_nil_r|tauto|constructor|tauto|intros x []].
    + apply existsb_exists in EX. destruct EX as [[i nm] [Hin Hi]]. simpl in Hi. apply N.eqb_eq in Hi. subst.
      exists nm. exact Hin.
  - destruct (mem_str name (reserved st)) eqn:EM; [discriminate|].
    assert (NR : ~ In name (reserved st)). { intros Hn. apply mem_str_In in Hn. congruence. }
    inv_bind H. rename r into st2. inversion H; subst. clear H.
    destruct (mods_grow_of _ IHk _ _ E) as [ak [[D R N F S] _]]. simpl in D, R, F.
    exists (ak ++ [(id, name)]). split.
    + constructor; simpl.
      * rewrite D, app_assoc. reflexivity.
      * intros x. unfold pkg_names. rewrite map_app, in_app_iff. fold (pkg_names ak). rewrite R. simpl. tauto.
      * unfold pkg_names. rewrite map_app. apply nodup_app; [exact N|simpl; constructor; [intros []|constructor]|].
        intros x Hx [<-|[]]. apply (F _ Hx). left. reflexivity.
      * intros x. unfold pkg_names. rewrite map_app, in_app_iff. intros [Hx|[<-|[]]]; [|exact NR].
        intros Hr. apply (F _ Hx). right. exact Hr.
      * apply incl_app; [apply incl_tl; exact S|]. intros x [<-|[]]. left. reflexivity.
    + exists name. simpl. apply in_or_app. right. left. reflexivity.
Qed.

Lemma flat_map_map {A B C} (f : B -> list C) (h : A -> B) l : flat_map f (map h l) = flat_map (fun x => f (h x)) l.
Proof. induction l as [|x l IH]; simpl; [reflexivity|rewrite IH; reflexivity]. Qed.

Lemma ids_functional_spec U : ids_functional U = true ->
  forall a b, In a U -> In b U -> fst a = fst b -> snd a = snd b.
Proof.
  unfold ids_functional. intros H a b Ha Hb E. rewrite forallb_forall in H. specialize (H a Ha).
  rewrite forallb_forall in H. specialize (H b Hb). rewrite E, N.eqb_refl in H. simpl in H. apply String.eqb_eq. exact H.
Qed.

Definition universe (l : list sim) : list (N * string) := flat_map (fun s => flat_mods (tb_mod (s_tb s))) l.

Lemma head_in_flat m : In (mod_id m, mod_name m) (flat_mods m).
Proof. destruct m. simpl. left. reflexivity. Qed.

Lemma package_ok l st : ids_functional (universe l) = true ->
  seq_fold xmod (map (fun s => tb_mod (s_tb s)) l) {| reserved := []; done := [] |} = Ok st ->
  NoDup (pkg_names (done st)) /\ incl (done st) (universe l) /\
  forall s, In s l -> In (mod_id (tb_mod (s_tb s)), mod_name (tb_mod (s_tb s))) (done st).
Proof.
  intros HF H.
  assert (G : mods_grow (map (fun s => tb_mod (s_tb s)) l)).
  { apply mods_grow_of. apply Forall_forall. intros m _. apply xmod_grows. }
  destruct (G _ _ H) as [added [[D R N F S] M]]. simpl in D. subst added.
  rewrite flat_map_map in S. fold (universe l) in S.
  split; [exact N|]. split; [exact S|]. intros s Hs.
  destruct (M (tb_mod (s_tb s))) as [nm Hn]. { apply in_map_iff. exists s. split; [reflexivity|exact Hs]. }
  assert (HU : In (mod_id (tb_mod (s_tb s)), mod_name (tb_mod (s_tb s))) (universe l)).
  { unfold universe. apply in_flat_map. exists s. split; [exact Hs|apply head_in_flat]. }
  pose proof (ids_functional_spec _ HF _ _ (S _ Hn) HU eq_refl) as E. simpl in E. subst. exact Hn.
Qed.

Lemma tb_rel_ok t o : o_top o = mod_name (tb_mod t) -> NoDup (pkg_names (o_pkg o)) ->
  In (mod_id (tb_mod t), mod_name (tb_mod t)) (o_pkg o) -> tb_rel t o = true.
Proof.
  intros ET ND Hin. unfold tb_rel. rewrite ET, String.eqb_refl. simpl.
  rewrite (count_nodup _ _ ND).
  - simpl. apply existsb_exists. exists (mod_id (tb_mod t), mod_name (tb_mod t)). split; [exact Hin|].
    simpl. rewrite N.eqb_refl, String.eqb_refl. reflexivity.
  - unfold pkg_names. apply in_map_iff. exists (mod_id (tb_mod t), mod_name (tb_mod t)). split; [reflexivity|exact Hin].
Qed.

Section Export.
  Variable frel : Z -> Z -> fnum -> bool.
  Variable g : fnum -> fnum.
  Hypothesis Hg : forall m e, frel m e (g (FDec m e)) = true.

  Lemma export_one_rel pkg s o : NoDup (pkg_names pkg) ->
    In (mod_id (tb_mod (s_tb s)), mod_name (tb_mod (s_tb s))) pkg ->
    export_one pkg s = Ok o ->
    one_scalar_port (tb_ports (s_tb s)) = true /\ o_pkg o = pkg /\ rel frel s (map_si g o) = true.
  Proof.
    intros ND Hin H. unfold export_one in H. destruct (one_scalar_port (tb_ports (s_tb s))) eqn:EP; simpl in H; [|discriminate].
    inv_bind H. destruct r as [[os ans] cs]. inversion H; subst. clear H. split; [reflexivity|]. split; [reflexivity|].
    destruct (xattrs_rel frel g Hg _ _ _ _ _ E) as [A [B [C [n D]]]].
    unfold rel. cbn [map_si o_top o_pkg o_opts o_an o_ctrls].
    rewrite A, B, C, D. rewrite tb_rel_ok; [|reflexivity|exact ND|exact Hin]. simpl.
    apply nodupb_NoDup, auto_names_nodup.
  Qed.

  Lemma export_all_rel l outs : ids_functional (universe l) = true -> export_all l = Ok outs ->
    forallb (fun s => one_scalar_port (tb_ports (s_tb s))) l = true /\
    forall2b (rel frel) l (map (map_si g) outs) = true.
  Proof.
    intros HF H. unfold export_all in H. inv_bind H. rename r into st.
    destruct (package_ok _ _ HF E) as [ND [_ M]].
    assert (G : forall l', incl l' l -> forall outs', traverse (export_one (done st)) l' = Ok outs' ->
              forallb (fun s => one_scalar_port (tb_ports (s_tb s))) l' = true /\
              forall2b (rel frel) l' (map (map_si g) outs') = true).
    { induction l' as [|s l' IH]; intros Hi outs' HT; simpl in HT.
      - inversion HT; subst. split; reflexivity.
      - inv_bind HT. inv_bind HT. inversion HT; subst.
        destruct (export_one_rel _ _ _ ND (M s (Hi s (or_introl eq_refl))) E0) as [P [_ R]].
        destruct (IH (fun x Hx => Hi x (or_intror Hx)) _ E1) as [P' R'].
        simpl. rewrite P, P', R, R'. split; reflexivity. }
    apply (G l (incl_refl l) outs H).
  Qed.
End Export.

(* ------------------------------------------------------------------------------------------ *)
(* acceptance: inputs the specification says must be accepted are exported                     *)
(* ------------------------------------------------------------------------------------------ *)
Lemma xf_accepts x : num_fin x = true -> exists f, xf x = Ok f.
Proof. destruct x; simpl; intros H; [eauto|discriminate]. Qed.
Lemma xf_list_accepts l : forallb num_fin l = true -> exists l', traverse xf l = Ok l'.
Proof.
  induction l as [|x l IH]; simpl; intros H; [eauto|]. apply andb_true_iff in H. destruct H as [H1 H2].
  destruct (xf_accepts _ H1) as [f ->]. destruct (IH H2) as [l' ->]. simpl. eauto.
Qed.
Lemma xsweep_accepts s : sweep_fin s = true -> exists o, xsweep s = Ok o.
Proof.
  destruct s; simpl; intros H.
  - apply andb_true_iff in H. destruct H as [H H3]. apply andb_true_iff in H. destruct H as [H1 H2].
    destruct (xf_accepts _ H1) as [? ->]. destruct (xf_accepts _ H2) as [? ->]. destruct (xf_accepts _ H3) as [? ->]. simpl. eauto.
  - apply andb_true_iff in H. destruct H as [H1 H2].
    destruct (xf_accepts _ H1) as [? ->]. destruct (xf_accepts _ H2) as [? ->]. simpl. eauto.
  - destruct (xf_list_accepts _ H) as [? ->]. simpl. eauto.
Qed.

Definition an_accepts (a : analysis) : Prop := an_fin a = true -> forall k, exists r, xan a k = Ok r.
Lemma thread_accepts l : Forall an_accepts l -> forallb an_fin l = true -> forall k, exists r, thread xan l k = Ok r.
Proof.
  induction 1 as [|a l Ha _ IH]; intros HF k; [simpl; eauto|].
  simpl in HF. apply andb_true_iff in HF. destruct HF as [H1 H2].
  rewrite thread_cons. destruct (Ha H1 k) as [r1 ->]. simpl. destruct (IH H2 (snd r1)) as [r2 ->]. simpl. eauto.
Qed.
Lemma an_fin_sweep inner v sw n : an_fin (ASweep inner v sw n) = sweep_fin sw && forallb an_fin inner.
Proof. reflexivity. Qed.
Lemma an_fin_monte inner k n : an_fin (AMonte inner k n) = in_i64 k && forallb an_fin inner.
Proof. reflexivity. Qed.

Lemma xan_accepts a : an_accepts a.
Proof.
  induction a using analysis_ind'; intros HF k0.
  - simpl. destruct (pick_name n k0). eauto.
  - simpl in *. destruct (pick_name n k0). destruct (xsweep_accepts _ HF) as [? ->]. simpl. eauto.
  - simpl in *. destruct (pick_name n k0). apply andb_true_iff in HF. destruct HF as [HF H3]. apply andb_true_iff in HF. destruct HF as [H1 H2].
    destruct (xf_accepts _ H1) as [? ->]. destruct (xf_accepts _ H2) as [? ->]. rewrite H3. simpl. eauto.
  - simpl in *. destruct (pick_name n k0). apply andb_true_iff in HF. destruct HF as [H1 H2].
    destruct (xf_accepts _ H1) as [? ->]. simpl. destruct ts as [tsx|]; simpl; [|eauto].
    destruct (xf_accepts _ H2) as [? ->]. simpl. eauto.
  - simpl in *. destruct (pick_name n k0). apply andb_true_iff in HF. destruct HF as [HF H4]. apply andb_true_iff in HF. destruct HF as [HF H3].
    apply andb_true_iff in HF. destruct HF as [H1 H2].
    assert (HO : exists p, xnout o = Ok p).
    { destruct o as [l|so1|so2|]; simpl; eauto; try discriminate. destruct l as [|[x1|] [|[y1|] [|z1 l]]]; try discriminate. eauto. }
    destruct HO as [? ->]. destruct (xf_accepts _ H1) as [? ->]. destruct (xf_accepts _ H2) as [? ->]. rewrite H3. simpl. eauto.
  - rewrite an_fin_sweep in HF. apply andb_true_iff in HF. destruct HF as [H1 H2]. rewrite xan_sweep.
    destruct (pick_name n k0) as [nm k1]. destruct (xsweep_accepts _ H1) as [? ->]. simpl.
    destruct (thread_accepts _ H H2 k1) as [? ->]. simpl. eauto.
  - rewrite an_fin_monte in HF. apply andb_true_iff in HF. destruct HF as [H1 H2]. rewrite xan_monte.
    destruct (pick_name n k0) as [nm k1]. destruct (thread_accepts _ H H2 k1) as [? ->]. simpl. rewrite H1. simpl. eauto.
  - simpl. destruct (pick_name n k0). eauto.
Qed.

Lemma xpnum_accepts v : pnum_fin v = true -> exists p, xpnum v = Ok p.
Proof. destruct v; intros H; simpl; eauto. Qed.
Lemma xctrl_accepts c : ctrl_fin c = true -> exists o, xctrl c = Ok o.
Proof.
  destruct c; simpl; intros H; eauto.
  - apply xsave_total. intros ->. discriminate.
  - destruct (xpnum_accepts _ H) as [? ->]. simpl. eauto.
Qed.
Lemma xattrs_accepts l : forallb attr_fin l = true -> forall k, exists r, xattrs l k = Ok r.
Proof.
  induction l as [|a l IH]; intros HF k; [simpl; eauto|].
  simpl in HF. apply andb_true_iff in HF. destruct HF as [H1 H2]. destruct a as [a|c|n v]; simpl.
  - destruct (xan_accepts a H1 k) as [r1 ->]. simpl. destruct (IH H2 (snd r1)) as [[[os ans] cs] ->]. simpl. eauto.
  - destruct (xctrl_accepts _ H1) as [? ->]. simpl. destruct (IH H2 k) as [[[os ans] cs] ->]. simpl. eauto.
  - assert (HV : exists p, xoval v = Ok p).
    { destruct v; simpl; [eauto|]. apply xpnum_accepts. exact H1. }
    destruct HV as [? ->]. simpl. destruct (IH H2 k) as [[[os ans] cs] ->]. simpl. eauto.
Qed.

(* the module exporter accepts every hierarchy whose names are consistent *)
Lemma names_consistent_spec U : names_consistent U = true ->
  forall a b, In a U -> In b U -> snd a = snd b -> fst a = fst b.
Proof.
  unfold names_consistent. intros H a b Ha Hb E. rewrite forallb_forall in H. specialize (H a Ha).
  rewrite forallb_forall in H. specialize (H b Hb). rewrite E, String.eqb_refl in H.
  apply Bool.eqb_prop in H. apply N.eqb_eq. exact H.
Qed.
Lemma names_consistent_functional U : names_consistent U = true -> ids_functional U = true.
Proof.
  unfold names_consistent, ids_functional. intros H. apply forallb_forall. intros a Ha. apply forallb_forall. intros b Hb.
  rewrite forallb_forall in H. specialize (H a Ha). rewrite forallb_forall in H. specialize (H b Hb).
  apply Bool.eqb_prop in H. rewrite H. destruct (String.eqb (snd a) (snd b)); reflexivity.
Qed.

Record acc_pre (U : list (N * string)) (src : list (N * string)) (st : pst) (stack : list (N * string)) : Prop := {
  a_src : incl src U;
  a_done : incl (done st) U;
  a_stack : incl stack U;
  a_res : forall x, In x (reserved st) -> In x (pkg_names (done st)) \/ In x (pkg_names stack);
  a_anc : forall a, In a stack -> ~ In (fst a) (map fst src) }.
Record acc_post (U : list (N * string)) (st st' : pst) (stack : list (N * string)) : Prop := {
  p_done : incl (done st') U;
  p_mono : incl (done st) (done st');
  p_res : forall x, In x (reserved st') -> In x (pkg_names (done st')) \/ In x (pkg_names stack) }.

Definition mod_accepts (m : hmod) : Prop :=
  forall U st stack, names_consistent U = true -> acyclic m = true -> acc_pre U (flat_mods m) st stack ->
    exists st', xmod m st = Ok st' /\ acc_post U st st' stack.
Definition mods_accept (l : list hmod) : Prop :=
  forall U st stack, names_consistent U = true -> forallb acyclic l = true -> acc_pre U (flat_map flat_mods l) st stack ->
    exists st', seq_fold xmod l st = Ok st' /\ acc_post U st st' stack.

Lemma mods_accept_of l : Forall mod_accepts l -> mods_accept l.
Proof.
  induction 1 as [|m l Hm _ IH]; intros U st stack HC HA [S D K R A].
  - exists st. split; [reflexivity|]. constructor; [exact D|apply incl_refl|exact R].
  - simpl in HA. apply andb_true_iff in HA. destruct HA as [HA1 HA2]. simpl in S, A.
    destruct (Hm U st stack HC HA1) as [sa [E [D1 M1 R1]]].
    { constructor; [intros x Hx; apply S; apply in_or_app; left; exact Hx|exact D|exact K|exact R|].
      intros a Ha Hin. apply (A a Ha). rewrite map_app. apply in_or_app. left. exact Hin. }
    destruct (IH U sa stack HC HA2) as [st' [E' [D2 M2 R2]]].
    { constructor; [intros x Hx; apply S; apply in_or_app; right; exact Hx|exact D1|exact K|exact R1|].
      intros a Ha Hin. apply (A a Ha). rewrite map_app. apply in_or_app. right. exact Hin. }
    exists st'. split; [rewrite seq_fold_cons, E; simpl; exact E'|].
    constructor; [exact D2|eapply incl_tran; eassumption|exact R2].
Qed.

Lemma acyclic_eq i n kids :
  acyclic (HMod i n kids) = negb (existsb (N.eqb i) (map fst (flat_map flat_mods kids))) && forallb acyclic kids.
Proof. reflexivity. Qed.

Lemma xmod_accepts m : mod_accepts m.
Proof.
  induction m as [id name kids IHk] using hmod_ind'. intros U st stack HC HA [S D K R A].
  rewrite xmod_eq. destruct (existsb (fun e => N.eqb (fst e) id) (done st)) eqn:EX.
  - exists st. split; [reflexivity|]. constructor; [exact D|apply incl_refl|exact R].
  - rewrite acyclic_eq in HA. apply andb_true_iff in HA. destruct HA as [HA1 HA2].
    assert (HU : In (id, name) U). { apply S. simpl. left. reflexivity. }
    assert (EM : mem_str name (reserved st) = false).
    { destruct (mem_str name (reserved st)) eqn:EM; [|reflexivity]. exfalso. apply mem_str_In in EM.
      destruct (R _ EM) as [Hd|Hs]; unfold pkg_names in *; apply in_map_iff in Hd || apply in_map_iff in Hs.
      - destruct Hd as [e [He Hin]]. pose proof (names_consistent_spec _ HC e (id, name) (D _ Hin) HU He) as Ei. simpl in Ei.
        assert (X : existsb (fun e => N.eqb (fst e) id) (done st) = true).
        { apply existsb_exists. exists e. split; [exact Hin|apply N.eqb_eq; exact Ei]. }
        congruence.
      - destruct Hs as [e [He Hin]]. pose proof (names_consistent_spec _ HC e (id, name) (K _ Hin) HU He) as Ei. simpl in Ei.
        apply (A e Hin). rewrite Ei. simpl. left. reflexivity. }
    rewrite EM.
    destruct (mods_accept_of _ IHk U {| reserved := name :: reserved st; done := done st |} ((id, name) :: stack) HC HA2)
      as [st2 [E [D2 M2 R2]]].
    { constructor; simpl.
      - intros x Hx. apply S. simpl. right. exact Hx.
      - exact D.
      - intros x [<-|Hx]; [exact HU|apply K; exact Hx].
      - intros x [<-|Hx]; [right; left; reflexivity|]. destruct (R _ Hx) as [H1|H1]; [left; exact H1|right; right; exact H1].
      - intros a [<-|Ha] Hin.
        + simpl in Hin. apply negb_true_iff in HA1.
          assert (X : existsb (N.eqb id) (map fst (flat_map flat_mods kids)) = true).
          { apply existsb_exists. exists id. split; [exact Hin|apply N.eqb_refl]. }
          congruence.
        + apply (A a Ha). simpl. right. exact Hin. }
    rewrite E. simpl. eexists. split; [reflexivity|]. simpl in *. constructor; simpl.
    + intros x Hx. apply in_app_or in Hx. destruct Hx as [Hx|[<-|[]]]; [apply D2; exact Hx|exact HU].
    + intros x Hx. apply in_or_app. left. apply M2. exact Hx.
    + intros x Hx. unfold pkg_names. rewrite map_app, in_app_iff. simpl.
      destruct (R2 _ Hx) as [H1|[<-|H1]]; [left; left; exact H1|left; right; left; reflexivity|right; exact H1].
Qed.

Lemma export_all_accepts l : must_accept_all l = true -> forallb (fun s => acyclic (tb_mod (s_tb s))) l = true ->
  exists outs, export_all l = Ok outs.
Proof.
  unfold must_accept_all. intros HM HA. apply andb_true_iff in HM. destruct HM as [HM HC].
  fold (universe l) in HC. unfold export_all.
  destruct (mods_accept_of (map (fun s => tb_mod (s_tb s)) l)
              (proj2 (Forall_forall _ _) (fun m _ => xmod_accepts m))
              (universe l) {| reserved := []; done := [] |} [] HC) as [st [E _]].
  - rewrite forallb_forall. intros m Hm. apply in_map_iff in Hm. destruct Hm as [s [<- Hs]].
    rewrite forallb_forall in HA. apply HA. exact Hs.
  - constructor; simpl; try (intros x []). rewrite flat_map_map. apply incl_refl.
  - rewrite E. simpl. clear E HA HC.
    induction l as [|s l IH]; simpl; [eauto|]. simpl in HM. apply andb_true_iff in HM. destruct HM as [H1 H2].
    unfold must_accept in H1. apply andb_true_iff in H1. destruct H1 as [P F].
    unfold export_one at 1. rewrite P. simpl. destruct (xattrs_accepts _ F 0%N) as [[[os ans] cs] ->]. simpl.
    destruct (IH H2) as [outs ->]. simpl. eauto.
Qed.

(* ------------------------------------------------------------------------------------------ *)
(* the identity rendering, rejections, the shared package, class-style construction            *)
(* ------------------------------------------------------------------------------------------ *)
Section OanInd.
  Variable P : oan -> Prop.
  Hypothesis HOp : forall n, P (OOp n).
  Hypothesis HDc : forall n i sw, P (ODc n i sw).
  Hypothesis HAc : forall n a b k, P (OAc n a b k).
  Hypothesis HTran : forall n a b, P (OTran n a b).
  Hypothesis HNoise : forall n p q s a b k, P (ONoise n p q s a b k).
  Hypothesis HSweep : forall n v sw l, Forall P l -> P (OSweep n v sw l).
  Hypothesis HMonte : forall n k sd l, Forall P l -> P (OMonte n k sd l).
  Hypothesis HCustom : forall n c, P (OCustom n c).
  Fixpoint oan_ind' (o : oan) : P o :=
    match o with
    | OOp n => HOp n
    | ODc n i sw => HDc n i sw
    | OAc n a b k => HAc n a b k
    | OTran n a b => HTran n a b
    | ONoise n p q s a b k => HNoise n p q s a b k
    | OSweep n v sw l =>
        HSweep n v sw l ((fix go l : Forall P l :=
                            match l with [] => Forall_nil P | x :: l' => Forall_cons x (oan_ind' x) (go l') end) l)
    | OMonte n k sd l =>
        HMonte n k sd l ((fix go l : Forall P l :=
                            match l with [] => Forall_nil P | x :: l' => Forall_cons x (oan_ind' x) (go l') end) l)
    | OCustom n c => HCustom n c
    end.
End OanInd.

Lemma map_id_forall {A} (f : A -> A) l : Forall (fun x => f x = x) l -> map f l = l.
Proof. induction 1; simpl; congruence. Qed.
Lemma map_osweep_id s : map_osweep (fun f => f) s = s.
Proof. destruct s; simpl; try reflexivity. rewrite map_id. reflexivity. Qed.
Lemma map_oan_id o : map_oan (fun f => f) o = o.
Proof.
  induction o using oan_ind'; cbn [map_oan]; rewrite ?map_osweep_id; try reflexivity.
  - rewrite (map_id_forall _ _ H). reflexivity.
  - rewrite (map_id_forall _ _ H). reflexivity.
Qed.
Lemma map_oan_id_list l : map (map_oan (fun f => f)) l = l.
Proof. apply map_id_forall. apply Forall_forall. intros o _. apply map_oan_id. Qed.

Lemma traverse_error {A B} (f : A -> result B) l x : In x l -> (exists e, f x = Error e) -> exists e, traverse f l = Error e.
Proof.
  induction l as [|y l IH]; simpl; intros Hin [e He]; [contradiction|]. destruct Hin as [->|Hin].
  - rewrite He. simpl. eauto.
  - destruct (f y); simpl; [|eauto]. destruct (IH Hin (ex_intro _ e He)) as [e' ->]. simpl. eauto.
Qed.

Lemma export_all_rejects l s : In s l -> one_scalar_port (tb_ports (s_tb s)) = false -> exists e, export_all l = Error e.
Proof.
  intros Hin HP. unfold export_all. destruct (seq_fold xmod _ _) as [st|e]; simpl; [|eauto].
  apply (traverse_error _ _ s Hin). unfold export_one. rewrite HP. simpl. eauto.
Qed.

Lemma export_all_pkg l outs : ids_functional (universe l) = true -> export_all l = Ok outs ->
  exists pkg, NoDup (pkg_names pkg) /\ incl pkg (universe l) /\
    Forall2 (fun s o => o_pkg o = pkg /\ o_top o = mod_name (tb_mod (s_tb s)) /\
                        count_str (o_top o) (pkg_names pkg) = 1 /\ In (mod_id (tb_mod (s_tb s)), o_top o) pkg) l outs.
Proof.
  intros HF H. unfold export_all in H. inv_bind H. rename r into st. exists (done st).
  destruct (package_ok _ _ HF E) as [ND [HI M]]. split; [exact ND|]. split; [exact HI|].
  assert (G : forall l', incl l' l -> forall outs', traverse (export_one (done st)) l' = Ok outs' ->
            Forall2 (fun s o => o_pkg o = done st /\ o_top o = mod_name (tb_mod (s_tb s)) /\
                                count_str (o_top o) (pkg_names (done st)) = 1 /\
                                In (mod_id (tb_mod (s_tb s)), o_top o) (done st)) l' outs').
  { induction l' as [|s l' IH]; intros Hi outs' HT; simpl in HT.
    - inversion HT; subst. constructor.
    - inv_bind HT. inv_bind HT. inversion HT; subst. constructor; [|apply IH; [intros x Hx; apply Hi; right; exact Hx|exact E1]].
      pose proof (M s (Hi s (or_introl eq_refl))) as Hin.
      unfold export_one in E0. destruct (one_scalar_port (tb_ports (s_tb s))); simpl in E0; [|discriminate].
      inv_bind E0. destruct r1 as [[os ans] cs]. inversion E0; subst. simpl.
      split; [reflexivity|]. split; [reflexivity|]. split; [|exact Hin].
      apply count_nodup; [exact ND|]. unfold pkg_names. apply in_map_iff. eexists. split; [|exact Hin]. reflexivity. }
  apply (G l (incl_refl l) outs H).
Qed.

(* shape of an exported sweep / Monte-Carlo analysis: the inner analyses are the exports of the inner list *)
Lemma xan_sweep_inv inner v sw n k o k' : xan (ASweep inner v sw n) k = Ok (o, k') ->
  exists sw' os, o = OSweep (fst (pick_name n k)) (xvar v) sw' os /\ xsweep sw = Ok sw' /\
                 thread xan inner (snd (pick_name n k)) = Ok (os, k') /\ List.length os = List.length inner.
Proof.
  rewrite xan_sweep. destruct (pick_name n k) as [nm k1]. intros H. inv_bind H. inv_bind H. inversion H; subst.
  destruct r0 as [os kb]. simpl. exists r, os. repeat split; try assumption.
  apply (thread_length _ _ _ _ E0).
Qed.
Lemma xan_monte_inv inner np n k o k' : xan (AMonte inner np n) k = Ok (o, k') ->
  exists os, o = OMonte (fst (pick_name n k)) np 0 os /\
             thread xan inner (snd (pick_name n k)) = Ok (os, k') /\ List.length os = List.length inner.
Proof.
  rewrite xan_monte. destruct (pick_name n k) as [nm k1]. intros H. inv_bind H. inv_bind H. inversion H; subst.
  destruct r as [os kb]. simpl. exists os. repeat split; try assumption.
  apply (thread_length _ _ _ _ E).
Qed.

Lemma partition_lengths l :
  (List.length (ans_of l) + List.length (ctrls_of l) + List.length (opts_of l))%nat = List.length l.
Proof. induction l as [|[a|c|n v] l IH]; simpl; lia. Qed.

(* the attributes of a class-style definition: the SimAttr-valued entries in definition order, named after their keys *)
Definition class_attr (e : string * centry) : list attr :=
  if (String.eqb (fst e) "tb" || String.eqb (fst e) "Tb" || String.eqb (fst e) "name")%bool then []
  else match snd e with
       | CeAttr a => [if String.eqb (fst e) "_" then a else set_name (fst e) a]
       | _ => []
       end.
Lemma class_scan_attrs es : forall tb acc r, class_scan es tb acc = Ok r -> snd r = acc ++ flat_map class_attr es.
Proof.
  induction es as [|[key v] es IH]; intros tb acc r H; cbn [class_scan] in H.
  - inversion H; subst. simpl. symmetry. apply app_nil_r.
  - destruct (mem_str key protected_names); [discriminate|].
    unfold class_attr at 1. cbn [flat_map fst snd].
    destruct (String.eqb key "tb" || String.eqb key "Tb")%bool eqn:ET.
    + destruct v; try discriminate. simpl. apply (IH _ _ _ H).
    + simpl. destruct (String.eqb key "name") eqn:EN; [simpl; apply (IH _ _ _ H)|].
      destruct v; simpl; try apply (IH _ _ _ H).
      rewrite (IH _ _ _ H), <- app_assoc. reflexivity.
Qed.
Lemma construct_class es s : construct (BClass es) = Ok s ->
  s_attrs s = flat_map class_attr es /\ one_scalar_port (tb_pre_ports (s_tb s)) = true.
Proof.
  simpl. intros H. inv_bind H. destruct (fst r) as [t|] eqn:ET; [|discriminate].
  destruct (one_scalar_port (tb_pre_ports t)) eqn:EP; [|discriminate]. inversion H; subst. simpl.
  split; [|exact EP]. rewrite (class_scan_attrs _ _ _ _ E). reflexivity.
Qed.
