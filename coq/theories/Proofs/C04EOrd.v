(* Proofs/C04EOrd.v — the ORDER of an instance's `conns` dict leaves no electrical trace either:
   Model/C04EOrd.v:design_ord (connections in dict order) and Model/C04EBridge.v:design_of (slot order) give every port the
   same connection, hence the same one-step map Spec/Nets.v:step on ALL nodes, hence the same nets. *)
From Coq Require Import String.
Require Import Hdl21.Base.PyInt Hdl21.Spec.PySlice Hdl21.Model.Slice Hdl21.Model.Resolve Hdl21.Base.Design
               Hdl21.Spec.Nets Hdl21.Spec.WfDesign Hdl21.Base.Package Hdl21.Spec.C01ENets
               Hdl21.Model.C04ConnOps Hdl21.Spec.C04LastWrite Hdl21.Proofs.C04Proofs
               Hdl21.Model.C01EElab Hdl21.Model.C01FElab Hdl21.Spec.C01FNets Hdl21.Proofs.C01EProofsBase Hdl21.Proofs.C01FProofsEnd
               Hdl21.Model.C04EBridge Hdl21.Model.C04EPipe Hdl21.Model.C04EOrd Hdl21.Proofs.C04EProofs Hdl21.Proofs.C04EEnd.
Require Hdl21.Props.C04 Hdl21.Props.C01F.
Open Scope Z_scope.

(* ---------------------------------------------------------------------------------------------- same connection per port *)
Lemma assoc_app {A} k (l1 l2 : list (name * A)) :
  assoc k (l1 ++ l2) = match assoc k l1 with Some v => Some v | None => assoc k l2 end.
Proof.
  induction l1 as [|[k' v] l1 IH]; cbn [app assoc]; [reflexivity|]. destruct (String.eqb k k'); [reflexivity|exact IH].
Qed.

Section Assoc.
Variables (u : universe) (x : uinst).
Hypothesis ND : NoDup (map us_name (ui_slots x)).

Definition slot_named (nm : name) : option uslot := find (fun s => String.eqb (us_name s) nm) (ui_slots x).

Lemma lane_entry_notin e nm : forall l, ~ In nm (map us_name l) -> assoc nm (flat_map (lane_entry u e) l) = None.
Proof.
  induction l as [|t l IH]; cbn [map flat_map]; intros Hn; [reflexivity|]. rewrite assoc_app.
  assert (nm <> us_name t) as Hne by (intros E; apply Hn; left; symmetry; exact E).
  assert (assoc nm (lane_entry u e t) = None) as ->.
  { unfold lane_entry. destruct (us_port t =? snd (fst e)); [|reflexivity]. cbn [assoc]. apply String.eqb_neq in Hne. rewrite Hne. reflexivity. }
  apply IH. intros H. apply Hn. right. exact H.
Qed.

Lemma assoc_lane_entry e nm : forall l, NoDup (map us_name l) ->
  assoc nm (flat_map (lane_entry u e) l) =
  match find (fun s => String.eqb (us_name s) nm) l with
  | Some s => if us_port s =? snd (fst e) then Some (conn_sx u (snd e) s) else None
  | None => None
  end.
Proof.
  induction l as [|t l IH]; cbn [map flat_map find]; intros N; [reflexivity|]. inversion N as [|? ? Hn N']; subst.
  rewrite assoc_app. destruct (String.eqb (us_name t) nm) eqn:E.
  - apply String.eqb_eq in E. subst nm. unfold lane_entry at 1. destruct (us_port t =? snd (fst e)).
    + cbn [assoc]. rewrite String.eqb_refl. reflexivity.
    + cbn [assoc]. apply lane_entry_notin. exact Hn.
  - assert (assoc nm (lane_entry u e t) = None) as ->.
    { unfold lane_entry. destruct (us_port t =? snd (fst e)); [|reflexivity]. cbn [assoc]. rewrite String.eqb_sym, E. reflexivity. }
    apply IH. exact N'.
Qed.

Lemma assoc_canon m nm :
  assoc nm (flat_map (slot_conn u m x) (ui_slots x)) =
  match slot_named nm with
  | Some s => match m (ui_id x, us_port s) with Some c => Some (conn_sx u c s) | None => None end
  | None => None
  end.
Proof.
  unfold slot_named. destruct (find _ (ui_slots x)) as [s|] eqn:F.
  - apply find_some in F. destruct F as [Hin E]. apply String.eqb_eq in E. subst nm. apply (assoc_slots u m x s _ ND Hin).
  - apply assoc_slots_notin. intros Hin. apply in_map_iff in Hin. destruct Hin as [s [E Hs]].
    pose proof (find_none _ _ F s Hs) as Hf. cbv beta in Hf. rewrite E, String.eqb_refl in Hf. discriminate.
Qed.

Lemma assoc_ord nm : forall l,
  assoc nm (flat_map (entry_conns u x) l) =
  match slot_named nm with
  | Some s => match lookup (ui_id x, us_port s) l with Some c => Some (conn_sx u c s) | None => None end
  | None => None
  end.
Proof.
  induction l as [|[q c] l IH]; cbn [flat_map lookup].
  - destruct (slot_named nm); reflexivity.
  - rewrite assoc_app, IH. clear IH. unfold entry_conns. cbn [fst snd]. unfold pid_eqb. cbn [fst snd].
    rewrite (Z.eqb_sym (fst q) (ui_id x)).
    destruct (ui_id x =? fst q).
    + rewrite (assoc_lane_entry (q, c) nm _ ND). fold (slot_named nm). cbn [fst snd].
      destruct (slot_named nm) as [s|]; [|reflexivity]. cbn [andb]. destruct (us_port s =? snd q); reflexivity.
    + cbn [assoc andb]. reflexivity.
Qed.

Lemma conns_same l nm :
  assoc nm (i_conns (inst_ord u l x)) = assoc nm (i_conns (inst_of u (fun q => lookup q l) x)).
Proof. cbn [inst_ord inst_of i_conns]. rewrite assoc_ord, assoc_canon. reflexivity. Qed.
End Assoc.

(* ---------------------------------------------------------------------------------------------- same one-step map *)
Section SameStep.
Variables (lib : list module) (T1 T2 : module).
Let L := Datatypes.length lib.
Let d1 := {| d_mods := lib ++ [T1]; d_top := L |}.
Let d2 := {| d_mods := lib ++ [T2]; d_top := L |}.
Hypothesis Hports : m_ports T1 = m_ports T2.
Hypothesis Hleaves : m_leaves T1 = m_leaves T2.
Definition inst_rel (x1 x2 : inst) : Prop :=
  i_n x1 = i_n x2 /\ i_of x1 = i_of x2 /\ (forall nm, assoc nm (i_conns x1) = assoc nm (i_conns x2)) /\
  match i_of x1 with TMod k => (k < L)%nat | TDev _ _ => True end.
Hypothesis Hinst : forall i, match find_inst (m_insts T1) i, find_inst (m_insts T2) i with
                             | Some x1, Some x2 => inst_rel x1 x2
                             | None, None => True
                             | _, _ => False
                             end.
Hypothesis Hlib : forall j mj x, nth_error lib j = Some mj -> In x (m_insts mj) ->
  match i_of x with TMod k => (k < L)%nat | TDev _ _ => True end.

Definition InLib (m : module) : Prop := exists j, nth_error lib j = Some m.

Lemma nth_mod_lt k : (k < L)%nat -> nth_mod d1 k = nth_mod d2 k /\ forall m, nth_mod d1 k = Ok m -> InLib m.
Proof.
  intros Hk. unfold nth_mod, d1, d2. cbn [d_mods]. rewrite !nth_error_app1 by exact Hk. split; [reflexivity|].
  intros m H. destruct (nth_error lib k) as [m'|] eqn:E; cbn [ofopt] in H; inversion H; subst. exists k. exact E.
Qed.

Lemma nth_mod_top : nth_mod d1 L = Ok T1 /\ nth_mod d2 L = Ok T2.
Proof.
  unfold nth_mod, d1, d2. cbn [d_mods]. rewrite !nth_error_app2 by apply Nat.le_refl. unfold L. rewrite Nat.sub_diag. split; reflexivity.
Qed.

Lemma mod_down_lib : forall p m, InLib m ->
  mod_down d1 m p = mod_down d2 m p /\ forall m', mod_down d1 m p = Ok m' -> InLib m'.
Proof.
  induction p as [|[i e] p IH]; intros m Hm; cbn [mod_down].
  - split; [reflexivity|]. intros m' H. inversion H; subst. exact Hm.
  - destruct (find_inst (m_insts m) i) as [x|] eqn:F; cbn [ofopt bind]; [|split; [reflexivity|discriminate]].
    destruct Hm as [j Hj]. destruct (find_inst_In _ _ _ F) as [Hin _]. pose proof (Hlib j m x Hj Hin) as Hk.
    destruct (i_of x) as [k|dv ps]; [|split; [reflexivity|discriminate]].
    destruct (nth_mod_lt k Hk) as [E Hl]. rewrite <- E. destruct (nth_mod d1 k) as [m''|er] eqn:N; cbn [bind]; [|split; [reflexivity|discriminate]].
    apply IH. apply Hl. reflexivity.
Qed.

Lemma port_width_same x1 x2 port : i_of x1 = i_of x2 -> match i_of x1 with TMod k => (k < L)%nat | TDev _ _ => True end ->
  port_width d1 x1 port = port_width d2 x2 port.
Proof.
  intros E Hk. unfold port_width, target_ports. rewrite <- E. destruct (i_of x1) as [k|dv ps]; [|reflexivity].
  destruct (nth_mod_lt k Hk) as [En _]. rewrite En. reflexivity.
Qed.

Lemma conn_bit_same x1 x2 e port k : inst_rel x1 x2 -> conn_bit d1 x1 e port k = conn_bit d2 x2 e port k.
Proof.
  intros [En [Eo [Ea Hk]]]. unfold conn_bit. rewrite <- Ea, <- En, (port_width_same x1 x2 port Eo Hk). reflexivity.
Qed.

Lemma mod_at_cases p :
  (mod_at d1 p = Ok T1 /\ mod_at d2 p = Ok T2) \/
  (mod_at d1 p = mod_at d2 p /\ forall m, mod_at d1 p = Ok m -> InLib m).
Proof.
  unfold mod_at. cbn [d_top d1 d2]. destruct nth_mod_top as [N1 N2]. fold d1 d2. rewrite N1, N2. cbn [bind].
  destruct (rev p) as [|[i e] q]; cbn [mod_down]; [left; split; reflexivity|]. right.
  pose proof (Hinst i) as Hi. destruct (find_inst (m_insts T1) i) as [x1|], (find_inst (m_insts T2) i) as [x2|];
    [|destruct Hi|destruct Hi|]; cbn [ofopt bind]; [|split; [reflexivity|discriminate]].
  destruct Hi as [En [Eo [Ea Hk]]]. rewrite <- Eo.
  destruct (i_of x1) as [k|dv ps]; [|split; [reflexivity|discriminate]].
  destruct (nth_mod_lt k Hk) as [E Hl]. rewrite <- E. destruct (nth_mod d1 k) as [m''|er] eqn:N; cbn [bind]; [|split; [reflexivity|discriminate]].
  apply mod_down_lib. apply Hl. reflexivity.
Qed.

Lemma inst_rel_lib m x : InLib m -> In x (m_insts m) -> inst_rel x x.
Proof. intros [j Hj] Hin. split; [reflexivity|]. split; [reflexivity|]. split; [reflexivity|]. exact (Hlib j m x Hj Hin). Qed.

Theorem step_same n : Nets.step d1 n = Nets.step d2 n.
Proof.
  destruct n as [p s k|p i e port k|p site k]; cbn [Nets.step]; [| |reflexivity].
  - destruct p as [|[i e] p']; [reflexivity|]. destruct (mod_at_cases (@cons pelem (i, e) p')) as [[A1 A2]|[E Hl]].
    + rewrite A1, A2. cbn [bind]. unfold is_port. rewrite Hports. reflexivity.
    + rewrite E. reflexivity.
  - destruct (mod_at_cases p) as [[A1 A2]|[E Hl]].
    + rewrite A1, A2. cbn [bind]. pose proof (Hinst i) as Hi.
      destruct (find_inst (m_insts T1) i) as [x1|], (find_inst (m_insts T2) i) as [x2|]; [|destruct Hi|destruct Hi|]; cbn [ofopt bind]; [|reflexivity].
      rewrite (conn_bit_same x1 x2 e port k Hi). rewrite Hleaves. reflexivity.
    + rewrite <- E. destruct (mod_at d1 p) as [m|er] eqn:M; cbn [bind]; [|reflexivity].
      destruct (find_inst (m_insts m) i) as [x|] eqn:F; cbn [ofopt bind]; [|reflexivity].
      destruct (find_inst_In _ _ _ F) as [Hin _].
      rewrite (conn_bit_same x x e port k (inst_rel_lib m x (Hl m eq_refl) Hin)). reflexivity.
Qed.

Lemma iter_step_same n : forall x, iter_step d1 n x = iter_step d2 n x.
Proof.
  induction n as [|n IH]; intros x; cbn [iter_step]; [reflexivity|]. rewrite step_same.
  destruct (Nets.step d2 x); cbn [bind]; [apply IH|reflexivity].
Qed.

Theorem same_net_same x y : same_net d1 x y <-> same_net d2 x y.
Proof.
  unfold same_net. split; intros [m [n [z [H1 H2]]]]; exists m, n, z.
  - rewrite <- !iter_step_same. auto.
  - rewrite !iter_step_same. auto.
Qed.
End SameStep.

(* ---------------------------------------------------------------------------------------------- the two designs of a state *)
Lemma find_inst_map2 {A} (f g : A -> inst) i : (forall a, i_name (f a) = i_name (g a)) -> forall xs,
  match find_inst (map f xs) i, find_inst (map g xs) i with
  | Some a, Some b => exists x, In x xs /\ a = f x /\ b = g x
  | None, None => True
  | _, _ => False
  end.
Proof.
  intros Hn. induction xs as [|x xs IH]; cbn [map find_inst]; [exact I|]. rewrite <- Hn.
  destruct (String.eqb (i_name (f x)) i).
  - exists x. split; [left; reflexivity|split; reflexivity].
  - destruct (find_inst (map f xs) i), (find_inst (map g xs) i); try exact IH.
    destruct IH as [y [Hy E]]. exists y. split; [right; exact Hy|exact E].
Qed.

Theorem same_net_ord u l x y : u_ok u = true -> wf_design (design_ord u l) = Ok tt ->
  (same_net (design_ord u l) x y <-> same_net (design_of u (fun q => lookup q l)) x y).
Proof.
  intros Hu Hwf. destruct (wf_design_inv _ Hwf) as [_ [_ Hm]].
  assert (forall j mj, nth_error (d_mods (design_ord u l)) j = Some mj -> forall z, In z (m_insts mj) ->
          match i_of z with TMod k => (k < j)%nat | TDev _ _ => True end) as Hall.
  { intros j mj Hj z Hz. pose proof (Hm j mj Hj) as Hw. destruct (wf_module_inv _ _ _ Hw) as [_ [_ [_ Hi]]].
    destruct (wf_inst_inv _ _ _ _ (Hi z Hz)) as [Hk _]. exact Hk. }
  unfold design_ord, design_of.
  apply (same_net_same (u_lib u) (top_ord u l) (top_of u (fun q => lookup q l))); try reflexivity.
  - intros i. cbn [top_ord top_of m_insts].
    pose proof (find_inst_map2 (inst_ord u l) (inst_of u (fun q => lookup q l)) i (fun a => eq_refl) (u_insts u)) as H.
    destruct (find_inst (map (inst_ord u l) (u_insts u)) i) as [a|], (find_inst (map (inst_of u (fun q => lookup q l)) (u_insts u)) i) as [b|];
      try exact H. destruct H as [z [Hz [-> ->]]].
    split; [reflexivity|]. split; [reflexivity|]. split.
    + intros nm. apply conns_same. exact (u_slotnames u Hu z Hz).
    + assert (nth_error (d_mods (design_ord u l)) (Datatypes.length (u_lib u)) = Some (top_ord u l)) as Hn.
      { unfold design_ord. cbn [d_mods]. rewrite nth_error_app2 by apply Nat.le_refl. rewrite Nat.sub_diag. reflexivity. }
      assert (In (inst_ord u l z) (m_insts (top_ord u l))) as Hin by (cbn [top_ord m_insts]; apply in_map; exact Hz).
      exact (Hall _ _ Hn _ Hin).
  - intros j mj z Hj Hz.
    assert (j < Datatypes.length (u_lib u))%nat as Hlt by (apply nth_error_Some; rewrite Hj; discriminate).
    assert (nth_error (d_mods (design_ord u l)) j = Some mj) as Hn by (unfold design_ord; cbn [d_mods]; rewrite nth_error_app1 by exact Hlt; exact Hj).
    pose proof (Hall _ _ Hn z Hz) as Hk. destruct (i_of z); [lia|exact I].
Qed.

Lemma design_of_state_final u ops : design_of u (fun q => lookup q (st_conns (run ops))) = design_of u (fun q => final q ops).
Proof. exact (state_design_final u ops). Qed.

(* END TO END on the design in dict order: the nets of the exported package are those of the design of the FINAL mapping *)
Theorem end_to_end_ord xi u ops p ts :
  u_ok u = true ->
  wf_design (state_design_ord u (run ops)) = Ok tt -> frag_ok2 (state_design_ord u (run ops)) = true ->
  xinfo_ok xi (state_design_ord u (run ops)) = true ->
  pkg_of_state_ord xi u (run ops) = Ok p -> terminals (state_design_ord u (run ops)) = Ok ts ->
  let dord := state_design_ord u (run ops) in
  exists tn, top_name dord = Ok tn /\
    (forall t1 t2 dev1 dev2, In (t1, dev1) ts -> In (t2, dev2) ts ->
       (same_net_pkg p tn (term_map2 xi dord t1) (term_map2 xi dord t2) <-> same_net (design_of u (fun q => final q ops)) t1 t2)) /\
    (forall t dev, In (t, dev) ts ->
       exists pd, design_of_pkg Hdl21.Base.PrimTable.prims_ext p tn = Ok pd /\ valid pd (term_map2 xi dord t) /\ dev_at pd (term_map2 xi dord t) = Ok dev).
Proof.
  intros Hu Hwf Hfr Hxi Hp Hts. unfold pkg_of_state_ord in Hp.
  destruct (Hdl21.Props.C01F.C01F_end_to_end_partial xi _ p ts Hwf Hfr Hxi Hp Hts) as [tn [Htn [Hn Hd]]].
  exists tn. split; [exact Htn|]. split; [|exact Hd].
  intros t1 t2 dev1 dev2 H1 H2. rewrite (Hn t1 t2 dev1 dev2 H1 H2). unfold state_design_ord.
  rewrite (same_net_ord u (st_conns (run ops)) t1 t2 Hu Hwf), design_of_state_final. reflexivity.
Qed.

(* NO TRACE, with the order of `conns` taken into account: the packages may differ (order and names of invented signals), their
   nets on common terminals do not *)
Theorem no_trace_ord xi u ops1 ops2 p1 p2 ts1 ts2 :
  u_ok u = true -> (forall q, In q (upids u) -> final q ops1 = final q ops2) ->
  wf_design (state_design_ord u (run ops1)) = Ok tt -> frag_ok2 (state_design_ord u (run ops1)) = true ->
  xinfo_ok xi (state_design_ord u (run ops1)) = true ->
  wf_design (state_design_ord u (run ops2)) = Ok tt -> frag_ok2 (state_design_ord u (run ops2)) = true ->
  xinfo_ok xi (state_design_ord u (run ops2)) = true ->
  pkg_of_state_ord xi u (run ops1) = Ok p1 -> pkg_of_state_ord xi u (run ops2) = Ok p2 ->
  terminals (state_design_ord u (run ops1)) = Ok ts1 -> terminals (state_design_ord u (run ops2)) = Ok ts2 ->
  exists tn1 tn2, top_name (state_design_ord u (run ops1)) = Ok tn1 /\ top_name (state_design_ord u (run ops2)) = Ok tn2 /\
    forall t1 t2 dev1 dev2 dev1' dev2', In (t1, dev1) ts1 -> In (t2, dev2) ts1 -> In (t1, dev1') ts2 -> In (t2, dev2') ts2 ->
      (same_net_pkg p1 tn1 (term_map2 xi (state_design_ord u (run ops1)) t1) (term_map2 xi (state_design_ord u (run ops1)) t2) <->
       same_net_pkg p2 tn2 (term_map2 xi (state_design_ord u (run ops2)) t1) (term_map2 xi (state_design_ord u (run ops2)) t2)).
Proof.
  intros Hu Hf W1 F1 X1 W2 F2 X2 P1 P2 T1 T2.
  destruct (end_to_end_ord xi u ops1 p1 ts1 Hu W1 F1 X1 P1 T1) as [tn1 [N1 [S1 _]]].
  destruct (end_to_end_ord xi u ops2 p2 ts2 Hu W2 F2 X2 P2 T2) as [tn2 [N2 [S2 _]]].
  exists tn1, tn2. split; [exact N1|]. split; [exact N2|].
  intros t1 t2 dev1 dev2 dev1' dev2' A1 A2 B1 B2. rewrite (S1 t1 t2 dev1 dev2 A1 A2), (S2 t1 t2 dev1' dev2' B1 B2).
  rewrite (design_of_ext u (fun q => final q ops1) (fun q => final q ops2) Hf). reflexivity.
Qed.
