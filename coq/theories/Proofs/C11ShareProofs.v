(* Proofs/C11ShareProofs.v — C11, strengthening round: rt_ref is import followed by export; an importer that shares Calls is
   the model rt_pkg exactly when the key it shares by implies identical export; Python equality is not such a key. *)
Require Import Hdl21.Base.PyInt Hdl21.Base.Design Hdl21.Base.Package Hdl21.Base.Dec Hdl21.Model.C11RoundTrip Hdl21.Model.C11Share
               Hdl21.Proofs.C11Proofs.
Require Import Hdl21Gen.PrefixTable Hdl21Gen.PrefixMaps Hdl21Gen.Primitives Hdl21Gen.C11Maps.
From Coq Require Import String Ascii.
Open Scope string_scope.
Open Scope Z_scope.

(* ------------------------------------------------------------------------------------------ equality up to the error value *)
(* the two halves report the FIRST error in a different order than the fused function; the property and the correspondence
   only see accepted / refused and the accepted result *)
Definition same_ok {A} (x y : result A) : Prop :=
  match x, y with
  | Ok a, Ok b => a = b
  | Error _, Error _ => True
  | _, _ => False
  end.

Lemma same_ok_refl {A} (x : result A) : same_ok x x.
Proof. destruct x; simpl; auto. Qed.

Lemma same_ok_sym {A} (x y : result A) : same_ok x y -> same_ok y x.
Proof. destruct x, y; simpl; auto. Qed.

Lemma same_ok_trans {A} (x y z : result A) : same_ok x y -> same_ok y z -> same_ok x z.
Proof. destruct x, y, z; simpl; try tauto; congruence. Qed.

Lemma same_ok_bind {A B} (x y : result A) (f g : A -> result B) :
  same_ok x y -> (forall a, same_ok (f a) (g a)) -> same_ok (bind x f) (bind y g).
Proof. destruct x, y; simpl; try tauto. intros ->. auto. Qed.

Lemma same_ok_iff {A} (x y : result A) : same_ok x y -> forall a, x = Ok a <-> y = Ok a.
Proof. destruct x as [u|u], y as [v|v]; simpl; intros H w; try tauto; try (split; discriminate). subst. tauto. Qed.

Lemma same_ok_eq {A} (x y : result A) : x = y -> same_ok x y.
Proof. intros ->. apply same_ok_refl. Qed.

Lemma traverse_fuse {A B C} (f : A -> result B) (g : B -> result C) (h : A -> result C) :
  (forall a, same_ok (h a) (b <- f a ;; g b)) ->
  forall l, same_ok (traverse h l) (bs <- traverse f l ;; traverse g bs).
Proof.
  intros H l. induction l as [|a l IH]; [simpl; reflexivity|].
  cbn [traverse]. specialize (H a).
  destruct (f a) as [b|e]; cbn [bind] in *.
  - destruct (traverse f l) as [bs|e]; cbn [bind traverse] in *.
    + apply same_ok_bind; [exact H|]. intros c. apply same_ok_bind; [exact IH|]. intros; apply same_ok_refl.
    + destruct (h a); cbn [bind]; [|exact I]. destruct (traverse h l); cbn [bind] in *; [contradiction|exact I].
  - destruct (h a); cbn [bind] in *; [contradiction|exact I].
Qed.

(* ------------------------------------------------------------------------------------------ rt_ref = export after import *)
Lemma rt_value_split (kv : name * pvalue) :
  same_ok (v <- rt_value (snd kv) ;; Ok (fst kv, v))
          (b <- (h <- import_value (snd kv) ;; Ok (fst kv, h)) ;;
           o <- export_value (snd b) ;; v <- ofopt EOther o ;; Ok (fst b, v)).
Proof.
  unfold rt_value. destruct (import_value (snd kv)) as [h|e]; cbn [bind fst snd]; [|exact I].
  destruct (export_value h) as [o|e]; cbn [bind]; [|exact I]. destruct (ofopt EOther o); cbn [bind]; [reflexivity|exact I].
Qed.

Lemma rt_dict_params_split ps : same_ok (rt_dict_params ps) (hs <- import_dict_params ps ;; export_dict_params hs).
Proof.
  unfold rt_dict_params, import_dict_params, export_dict_params.
  destruct (chk (snodup (map fst ps)) EName); cbn [bind]; [|exact I].
  apply traverse_fuse. intros kv. apply rt_value_split.
Qed.

Lemma rt_prim_split h ps : same_ok (rt_prim h ps) (c <- imp_prim h ps ;; exp_call c).
Proof.
  unfold rt_prim, imp_prim, exp_call, rt_prim_params.
  destruct (schema_of h) as [sc|e] eqn:E; cbn [bind]; [|exact I].
  destruct (import_prim_params sc ps) as [st|e]; cbn [bind]; [|exact I].
  destruct (prim_ports_of h) as [pp|e]; cbn [bind ic_target ic_params ic_ports].
  - rewrite E. cbn [bind]. destruct (export_prim_params sc st); cbn [bind]; [|exact I].
    destruct (export_prim_ref h); cbn [bind]; [reflexivity|exact I].
  - destruct (export_prim_params sc st); cbn [bind]; [|exact I]. destruct (export_prim_ref h); cbn [bind]; exact I.
Qed.

Lemma rt_ref_split_ok exts earlier r ps : same_ok (rt_ref exts earlier r ps) (rt_ref_split exts earlier r ps).
Proof.
  unfold rt_ref_split. destruct r as [nm|dom nm]; cbn [rt_ref imp_ref].
  - destruct (ofopt EMissing (find_c11mod earlier nm)) as [m|e]; cbn [bind]; [|exact I].
    destruct ps; cbn [chk bind exp_call ic_target ic_ports]; [reflexivity|exact I].
  - destruct (String.eqb dom "vlsir.primitives").
    + destruct (ofopt EBadKind (assoc nm prim_map_import)) as [h|e]; cbn [bind]; [|exact I].
      destruct (lookup_prim h) as [h'|e]; cbn [bind]; [|exact I]. apply rt_prim_split.
    + destruct (String.eqb dom "hdl21.primitives" || String.eqb dom "hdl21.ideal").
      * destruct (lookup_prim nm) as [h|e]; cbn [bind]; [|exact I]. apply rt_prim_split.
      * destruct (ofopt EMissing (find_c11ext exts dom nm)) as [x|e]; cbn [bind]; [|exact I].
        pose proof (rt_dict_params_split ps) as H.
        destruct (rt_dict_params ps) as [ps'|e]; destruct (import_dict_params ps) as [hs|e']; cbn [bind] in *; try contradiction; try exact I.
        -- unfold exp_call; cbn [ic_target ic_params ic_ports]. destruct (export_dict_params hs); cbn [bind] in *; simpl in H; [subst; reflexivity|contradiction].
        -- unfold exp_call; cbn [ic_target ic_params ic_ports]. destruct (export_dict_params hs); cbn [bind] in *; simpl in H; [contradiction|exact I].
Qed.

Lemma rt_inst_unfold exts earlier sigs i :
  rt_inst exts earlier sigs i = (rpp <- rt_ref exts earlier (ci_ref i) (ci_params i) ;; finish_inst sigs i rpp).
Proof. reflexivity. Qed.

(* ------------------------------------------------------------------------------------------ sharing by a key that implies identical export *)
Ltac so := cbn [same_ok bind fst snd] in *; try contradiction; try exact I.

Section Sound.
  Variable keq : icall -> icall -> bool.
  Hypothesis keq_export : forall a b, keq a b = true -> exp_call a = exp_call b.

  Lemma share_exp cc c : exp_call (fst (share keq cc c)) = exp_call c.
  Proof.
    unfold share. destruct (find (fun c' => keq c' c) cc) as [c'|] eqn:F; cbn [fst]; [|reflexivity].
    apply find_some in F. destruct F as [_ F]. apply keq_export; exact F.
  Qed.

  Lemma rt_inst_s_ok exts earlier sigs cc i :
    same_ok (r <- rt_inst_s keq exts earlier sigs cc i ;; Ok (fst r)) (rt_inst exts earlier sigs i).
  Proof.
    rewrite rt_inst_unfold. unfold rt_inst_s.
    pose proof (rt_ref_split_ok exts earlier (ci_ref i) (ci_params i)) as H. unfold rt_ref_split in H.
    destruct (imp_ref exts earlier (ci_ref i) (ci_params i)) as [c|e]; cbn [bind] in *.
    - rewrite share_exp.
      destruct (rt_ref exts earlier (ci_ref i) (ci_params i)) as [rpp|e]; destruct (exp_call c) as [rpp'|e']; so.
      subst. destruct (finish_inst sigs i rpp'); so; reflexivity.
    - destruct (rt_ref exts earlier (ci_ref i) (ci_params i)); so.
  Qed.

  Lemma rt_insts_s_ok exts earlier sigs l : forall cc,
    same_ok (r <- rt_insts_s keq exts earlier sigs cc l ;; Ok (fst r)) (traverse (rt_inst exts earlier sigs) l).
  Proof.
    induction l as [|i l IH]; intros cc; [simpl; reflexivity|].
    cbn [rt_insts_s traverse].
    pose proof (rt_inst_s_ok exts earlier sigs cc i) as H.
    destruct (rt_inst_s keq exts earlier sigs cc i) as [[i' cc1]|e]; destruct (rt_inst exts earlier sigs i) as [y|e'];
      so.
    subst. specialize (IH cc1).
    destruct (rt_insts_s keq exts earlier sigs cc1 l) as [[l' cc2]|e]; destruct (traverse (rt_inst exts earlier sigs) l) as [ys|e'];
      so.
    subst. so; reflexivity.
  Qed.

  Lemma rt_mod_s_ok exts earlier cc m :
    same_ok (r <- rt_mod_s keq exts earlier cc m ;; Ok (fst r)) (rt_mod exts earlier m).
  Proof.
    unfold rt_mod_s, rt_mod.
    destruct (chk (negb (existsb (fun m' => String.eqb (cm_name m') (cm_name m)) earlier)) EName); cbn [bind]; [|exact I].
    destruct (import_sigs (cm_sigs m) (cm_ports m)) as [hs|e]; cbn [bind]; [|exact I].
    destruct (chk (snodup (map ci_name (cm_insts m))) EName); cbn [bind]; [|exact I].
    pose proof (rt_insts_s_ok exts earlier (cm_sigs m) (cm_insts m) cc) as H.
    destruct (rt_insts_s keq exts earlier (cm_sigs m) cc (cm_insts m)) as [[l' cc']|e];
      destruct (traverse (rt_inst exts earlier (cm_sigs m)) (cm_insts m)) as [ys|e']; so.
    subst. destruct (export_ports hs); so; reflexivity.
  Qed.

  Lemma rt_mods_s_ok exts ms : forall earlier cc,
    same_ok (r <- rt_mods_s keq exts earlier cc ms ;; Ok (fst r)) (rt_mods exts earlier ms).
  Proof.
    induction ms as [|m ms IH]; intros earlier cc; [simpl; reflexivity|].
    cbn [rt_mods_s rt_mods].
    pose proof (rt_mod_s_ok exts earlier cc m) as H.
    destruct (rt_mod_s keq exts earlier cc m) as [[m' cc1]|e]; destruct (rt_mod exts earlier m) as [y|e'];
      so.
    subst. specialize (IH (earlier ++ [m])%list cc1).
    destruct (rt_mods_s keq exts (earlier ++ [m]) cc1 ms) as [[l' cc2]|e]; destruct (rt_mods exts (earlier ++ [m]) ms) as [ys|e'];
      so.
    subst. so; reflexivity.
  Qed.

  Lemma rt_pkg_s_ok p : same_ok (rt_pkg_s keq p) (rt_pkg p).
  Proof.
    unfold rt_pkg_s, rt_pkg.
    destruct (chk (nodup_ext_names (ck_exts p)) EName); cbn [bind]; [|exact I].
    destruct (traverse rt_ext (ck_exts p)) as [xs|e]; cbn [bind]; [|exact I].
    pose proof (rt_mods_s_ok (ck_exts p) (ck_mods p) [] []) as H.
    destruct (rt_mods_s keq (ck_exts p) [] [] (ck_mods p)) as [[l cc]|e]; destruct (rt_mods (ck_exts p) [] (ck_mods p)) as [ms|e'];
      so.
    subst. so; reflexivity.
  Qed.

  Theorem sharing_sound p q : rt_pkg_s keq p = Ok q <-> rt_pkg p = Ok q.
  Proof. apply same_ok_iff. apply rt_pkg_s_ok. Qed.
End Sound.

(* the importer that never shares is the model *)
Corollary no_sharing_is_rt_pkg p q : rt_pkg_s (fun _ _ => false) p = Ok q <-> rt_pkg p = Ok q.
Proof. apply sharing_sound. intros a b H; discriminate. Qed.

(* ------------------------------------------------------------------------------------------ sharing by a key that does NOT imply identical export *)
Lemma finish_inst_ref sigs i rpp i' : finish_inst sigs i rpp = Ok i' -> (ci_ref i', ci_params i') = (fst (fst rpp), snd (fst rpp)).
Proof.
  destruct rpp as [[r ps] ports]. unfold finish_inst.
  destruct (chk (forallb (fun c : name * ptarget => smem (fst c) ports) (ci_conns i)) EExtra); cbn [bind]; [|discriminate].
  destruct (chk (snodup (map fst (ci_conns i))) EExtra); cbn [bind]; [|discriminate].
  destruct (traverse (fun c : name * ptarget => t <- rt_target sigs (snd c) ;; Ok (fst c, t)) (ci_conns i)); cbn [bind]; [|discriminate].
  intros H; inversion H; reflexivity.
Qed.

(* Two instances whose Calls the importer identifies (the second takes the Call of the first), the first of which survives
   the round trip on its own: the second comes back with the reference and the parameters of the FIRST. *)
Theorem sharing_takes_first keq exts earlier sigs i1 i2 c1 c2 l cc' :
  imp_ref exts earlier (ci_ref i1) (ci_params i1) = Ok c1 ->
  imp_ref exts earlier (ci_ref i2) (ci_params i2) = Ok c2 ->
  keq c1 c2 = true ->
  rt_inst exts earlier sigs i1 = Ok i1 ->
  rt_insts_s keq exts earlier sigs [] [i1; i2] = Ok (l, cc') ->
  exists i2', l = [i1; i2'] /\ (ci_ref i2', ci_params i2') = (ci_ref i1, ci_params i1).
Proof.
  intros H1 H2 K R1 S.
  (* the first instance alone: exp_call c1 returns its own reference and parameters *)
  rewrite rt_inst_unfold in R1.
  pose proof (rt_ref_split_ok exts earlier (ci_ref i1) (ci_params i1)) as Hs. unfold rt_ref_split in Hs. rewrite H1 in Hs. cbn [bind] in Hs.
  destruct (rt_ref exts earlier (ci_ref i1) (ci_params i1)) as [rpp|e]; cbn [bind] in R1; [|discriminate].
  destruct (exp_call c1) as [rpp1|e] eqn:E1; cbn in Hs; [|contradiction]. subst rpp1.
  pose proof (finish_inst_ref _ _ _ _ R1) as F1.
  (* the list of two *)
  cbn [rt_insts_s] in S. unfold rt_inst_s in S. rewrite H1, H2 in S. cbn [bind] in S.
  assert (Sh1 : share keq [] c1 = (c1, [c1])) by reflexivity. rewrite Sh1 in S. cbn [fst snd] in S.
  rewrite E1 in S. cbn [bind] in S. rewrite R1 in S. cbn [bind fst snd] in S.
  assert (Sh2 : share keq [c1] c2 = (c1, [c1])) by (unfold share; cbn [find]; rewrite K; reflexivity).
  rewrite Sh2 in S. cbn [fst snd] in S. rewrite E1 in S. cbn [bind] in S.
  destruct (finish_inst sigs i2 rpp) as [i2'|e] eqn:F2; cbn [bind fst snd] in S; [|discriminate].
  inversion S; subst. exists i2'. split; [reflexivity|].
  pose proof (finish_inst_ref _ _ _ _ F2) as F2'. rewrite F2', <- F1. reflexivity.
Qed.

Theorem sharing_unsound keq exts earlier sigs i1 i2 c1 c2 cc' :
  imp_ref exts earlier (ci_ref i1) (ci_params i1) = Ok c1 ->
  imp_ref exts earlier (ci_ref i2) (ci_params i2) = Ok c2 ->
  keq c1 c2 = true ->
  rt_inst exts earlier sigs i1 = Ok i1 ->
  (ci_ref i2, ci_params i2) <> (ci_ref i1, ci_params i1) ->
  rt_insts_s keq exts earlier sigs [] [i1; i2] <> Ok ([i1; i2], cc').
Proof.
  intros H1 H2 K R1 D S.
  destruct (sharing_takes_first _ _ _ _ _ _ _ _ _ _ H1 H2 K R1 S) as [i2' [L E]].
  inversion L; subst. apply D; exact E.
Qed.

(* ------------------------------------------------------------------------------------------ structural equality is a sound key *)
Lemma list_eqb_eq {A} (f : A -> A -> bool) : (forall x y, f x y = true -> x = y) -> forall a b, list_eqb f a b = true -> a = b.
Proof.
  intros Hf a. induction a as [|x a IH]; destruct b as [|y b]; simpl; intros H; try discriminate; [reflexivity|].
  apply andb_true_iff in H. destruct H as [H1 H2]. rewrite (Hf _ _ H1), (IH _ H2). reflexivity.
Qed.

Lemma dec_eqb_eq a b : dec_eqb a b = true -> a = b.
Proof.
  destruct a as [s c e], b as [s' c' e']. unfold dec_eqb; cbn [dsign dcoef dexp]. intros H.
  apply andb_true_iff in H. destruct H as [H H3]. apply andb_true_iff in H. destruct H as [H1 H2].
  apply Bool.eqb_prop in H1. apply N.eqb_eq in H2. apply Z.eqb_eq in H3. subst. reflexivity.
Qed.

Lemma hvalue_eqb_eq a b : hvalue_eqb a b = true -> a = b.
Proof.
  destruct a, b; simpl; intros H; try discriminate; try reflexivity;
    try (apply String.eqb_eq in H; subst; reflexivity); try (apply Z.eqb_eq in H; subst; reflexivity).
  apply andb_true_iff in H. destruct H as [H1 H2]. apply dec_eqb_eq in H1. apply Z.eqb_eq in H2. subst. reflexivity.
Qed.

Lemma ctarget_eqb_eq a b : ctarget_eqb a b = true -> a = b.
Proof.
  destruct a, b; simpl; intros H; try discriminate.
  - apply String.eqb_eq in H; subst; reflexivity.
  - apply andb_true_iff in H. destruct H as [H1 H2]. apply String.eqb_eq in H1. apply String.eqb_eq in H2. subst. reflexivity.
  - apply String.eqb_eq in H; subst; reflexivity.
Qed.

Lemma call_struct_eqb_eq a b : call_struct_eqb a b = true -> a = b.
Proof.
  destruct a as [t ps pp], b as [t' ps' pp']. unfold call_struct_eqb; cbn [ic_target ic_params ic_ports]. intros H.
  apply andb_true_iff in H. destruct H as [H H3]. apply andb_true_iff in H. destruct H as [H1 H2].
  apply ctarget_eqb_eq in H1.
  apply (list_eqb_eq (pair_eqb String.eqb hvalue_eqb)) in H2.
  - apply (list_eqb_eq String.eqb) in H3; [subst; reflexivity|]. intros x y E; apply String.eqb_eq; exact E.
  - intros [k v] [k' v']. unfold pair_eqb; cbn [fst snd]. intros E. apply andb_true_iff in E. destruct E as [E1 E2].
    apply String.eqb_eq in E1. apply hvalue_eqb_eq in E2. subst. reflexivity.
Qed.

Theorem struct_sharing_harmless p q : rt_pkg_s call_struct_eqb p = Ok q <-> rt_pkg p = Ok q.
Proof. apply sharing_sound. intros a b H. apply call_struct_eqb_eq in H. subst. reflexivity. Qed.

(* ------------------------------------------------------------------------------------------ Python equality is not *)
Definition twin_ext : c11ext :=
  {| cx_domain := "pdk"; cx_name := "cell"; cx_sigs := [("a", 1); ("b", 1)]; cx_ports := [("a", "INOUT"); ("b", "INOUT")];
     cx_spicetype := "SUBCKT" |}.

Definition twin_inst (nm : name) (ps : params) : c11inst :=
  {| ci_name := nm; ci_ref := PExt "pdk" "cell"; ci_params := ps; ci_conns := [("a", PSig "a"); ("b", PSig "b")] |}.

(* the package of the seeded demonstration: one cell in a leaf; in the top the same cell with the same numbers written
   differently (the double 2.0 for the integer 2; 1.5 UNIT for 1500 MILLI), and once more exactly as in the leaf *)
Definition twin_pkg : c11pkg :=
  {| ck_domain := "c11_demo";
     ck_exts := [twin_ext];
     ck_mods := [{| cm_name := "m.Leaf"; cm_sigs := [("a", 1); ("b", 1)]; cm_ports := [("a", "INOUT"); ("b", "INOUT")];
                    cm_insts := [twin_inst "x0" [("m", VInt 2); ("w", VPre "MILLI" (NInt 1500)); ("mode", VLit "fast")]];
                    cm_literals := [] |};
                 {| cm_name := "m.Top"; cm_sigs := [("a", 1); ("b", 1)]; cm_ports := [];
                    cm_insts := [{| ci_name := "leaf"; ci_ref := PLocal "m.Leaf"; ci_params := [];
                                    ci_conns := [("a", PSig "a"); ("b", PSig "b")] |};
                                 twin_inst "x1" [("m", VDbl "0x1.0000000000000p+1"); ("w", VPre "MILLI" (NInt 1500)); ("mode", VLit "fast")];
                                 twin_inst "x2" [("m", VInt 2); ("w", VPre "UNIT" (NDec (mkDec false 15 (-1)))); ("mode", VLit "fast")];
                                 twin_inst "x3" [("m", VInt 2); ("w", VPre "MILLI" (NInt 1500)); ("mode", VLit "fast")]];
                    cm_literals := [] |}] |}.

Lemma twin_pkg_fixed : rt_pkg twin_pkg = Ok twin_pkg.
Proof. vm_compute. reflexivity. Qed.

Lemma twin_pkg_py_shared :
  match rt_pkg_s call_py_eq twin_pkg with
  | Ok q => c11pkg_eqb q twin_pkg = false /\
            match ck_mods q with
            | [_; top] => map ci_params (cm_insts top) =
                          [[]; [("m", VInt 2); ("w", VPre "MILLI" (NInt 1500)); ("mode", VLit "fast")];
                               [("m", VInt 2); ("w", VPre "MILLI" (NInt 1500)); ("mode", VLit "fast")];
                               [("m", VInt 2); ("w", VPre "MILLI" (NInt 1500)); ("mode", VLit "fast")]]
            | _ => False
            end
  | Error _ => False
  end.
Proof. vm_compute. split; reflexivity. Qed.

Theorem py_sharing_refuted : exists p, rt_pkg p = Ok p /\ rt_pkg_s call_py_eq p <> Ok p.
Proof.
  exists twin_pkg. split; [exact twin_pkg_fixed|]. intros H. pose proof twin_pkg_py_shared as T. rewrite H in T.
  destruct T as [T _]. vm_compute in T. discriminate.
Qed.

(* Python-equal Calls with different exports, of every kind the package can hold: int / double, int / prefixed,
   prefixed with another prefix, prefixed with trailing zeros, the two zeros of a double *)
Definition call_of (ps : params) : result icall := imp_ref [twin_ext] [] (PExt "pdk" "cell") ps.

Definition py_twin (pa pb : params) : bool :=
  match call_of pa, call_of pb with
  | Ok a, Ok b =>
      call_py_eq a b && call_py_eq b a &&
      match exp_call a, exp_call b with
      | Ok (_, qa, _), Ok (_, qb, _) =>
          list_eqb (pair_eqb String.eqb pvalue_eqb) qa pa && list_eqb (pair_eqb String.eqb pvalue_eqb) qb pb &&
          negb (list_eqb (pair_eqb String.eqb pvalue_eqb) pa pb)
      | _, _ => false
      end
  | _, _ => false
  end.

Definition py_twin_witnesses : list (params * params) :=
  [([("m", VInt 2)], [("m", VDbl "0x1.0000000000000p+1")]);
   ([("m", VInt 2)], [("m", VPre "UNIT" (NInt 2))]);
   ([("m", VInt 2)], [("m", VPre "KILO" (NDec (mkDec false 2 (-3))))]);
   ([("w", VPre "MILLI" (NInt 1500))], [("w", VPre "UNIT" (NDec (mkDec false 15 (-1))))]);
   ([("w", VPre "UNIT" (NDec (mkDec false 15 (-1))))], [("w", VPre "UNIT" (NDec (mkDec false 150 (-2))))]);
   ([("w", VPre "UNIT" (NInt 2))], [("w", VPre "MILLI" (NInt 2000))]);
   ([("z", VDbl "0x0.0p+0")], [("z", VDbl "-0x0.0p+0")]);
   ([("z", VInt 0)], [("z", VDbl "-0x0.0p+0")]);
   ([("a", VInt 1); ("b", VLit "x"); ("c", VPre "NANO" (NInt 5))], [("a", VDbl "0x1.0000000000000p+0"); ("b", VLit "x"); ("c", VPre "PICO" (NInt 5000))])].

Lemma py_twins_all : forallb (fun w => py_twin (fst w) (snd w)) py_twin_witnesses = true.
Proof. vm_compute. reflexivity. Qed.

Theorem py_eq_not_export_sound : exists a b, call_py_eq a b = true /\ exp_call a <> exp_call b.
Proof.
  destruct (call_of [("m", VInt 2)]) as [a|] eqn:A; [|vm_compute in A; discriminate].
  destruct (call_of [("m", VDbl "0x1.0000000000000p+1")]) as [b|] eqn:B; [|vm_compute in B; discriminate].
  exists a, b. vm_compute in A. vm_compute in B. inversion A; inversion B; subst. split; [vm_compute; reflexivity|].
  vm_compute. discriminate.
Qed.

(* and it does not matter that this was Python's equality: for ANY key, a pair of Calls it identifies although they are
   exported differently breaks a two-instance module (sharing_unsound above) *)
