(* Proofs/NamingProofs.v — injectivity of generated module names.
   The hashed form is treated relative to three Section hypotheses about functions Coq does not model:
   md5 has no collision, a hex digest contains no '=', json.dumps with hdl21_naming_encoder is injective
   on validated parameter values.  They appear as explicit premises of the closed theorems. *)
Require Import Hdl21.Base.PyInt Hdl21.Model.ParamName Hdl21.Model.GenCache Hdl21.Model.GenUniverse
               Hdl21.Proofs.ParamNameProofs Hdl21.Proofs.GenCacheProofs.
From Coq Require Import String Ascii.
Open Scope string_scope.

Lemma key_eqb_eq (a b : key) : key_eqb a b = true <-> a = b.
Proof.
  destruct a as [g vs], b as [g' ws]. unfold key_eqb. simpl.
  rewrite andb_true_iff, Nat.eqb_eq, pvals_eqb_eq. split; [intros [-> ->]; reflexivity|intros E; inversion E; auto].
Qed.

(* splitting at the first occurrence of a character *)
Lemma split_first_char c : forall r r' t t', has_char c r = false -> has_char c r' = false ->
  r ++ String c t = r' ++ String c t' -> r = r' /\ t = t'.
Proof.
  induction r as [|x r IH]; destruct r' as [|x' r']; simpl; intros t t' H1 H2 H.
  - inversion H. auto.
  - inversion H as [[Hc Ht]]. subst x'. rewrite Ascii.eqb_refl in H2. discriminate.
  - inversion H as [[Hc Ht]]. subst x. rewrite Ascii.eqb_refl in H1. discriminate.
  - inversion H as [[Hc Ht]]. subst x'.
    apply orb_false_iff in H1. apply orb_false_iff in H2.
    destruct (IH r' t t') as [-> ->]; tauto.
Qed.

(* base(suffix) determines base and suffix when the bases hold no '(' *)
Lemma full_name_inj b1 b2 s1 s2 : has_char "(" b1 = false -> has_char "(" b2 = false ->
  b1 ++ "(" ++ s1 ++ ")" = b2 ++ "(" ++ s2 ++ ")" -> b1 = b2 /\ s1 = s2.
Proof.
  intros H1 H2 H. apply split_first_char in H; try assumption. destruct H as [-> H]. split; [reflexivity|].
  apply (append_inv_tail_char ")"). assumption.
Qed.

Lemma paren_name_neq b1 b2 s : has_char "(" b2 = false -> b1 ++ "(" ++ s ++ ")" <> b2.
Proof.
  intros H E. rewrite <- E, has_char_app in H. simpl in H. rewrite orb_true_r in H. discriminate.
Qed.

(* calls built by param_call carry validated parameters *)
Lemma mk_key_typed U c k : mk_key U c = Ok k ->
  typed_all (map f_dtype (g_fields (gen_of U k))) (snd k) = true.
Proof.
  unfold mk_key. destruct (nth_error U (fst c)) as [g|] eqn:N; [|discriminate].
  destruct (norm_args (g_fields g) (snd c)) as [vs|] eqn:A; simpl; [|discriminate].
  intros H. inversion H. subst k. unfold gen_of. simpl.
  rewrite (nth_error_nth _ _ _ N). eapply norm_args_typed. eassumption.
Qed.

Section Hashed.
Variable md5hex : string -> string.
Variable json : list field -> list pval -> string.
Hypothesis md5_collision_free : forall a b, md5hex a = md5hex b -> a = b.
Hypothesis md5_hex : forall a, has_char "=" (md5hex a) = false.
Hypothesis json_injective : forall fs vs ws,
  typed_all (map f_dtype fs) vs = true -> typed_all (map f_dtype fs) ws = true -> json fs vs = json fs ws -> vs = ws.

(* _unique_name as a string *)
Definition suffix_str (fs : list field) (vs : list pval) : result string :=
  u <- unique_name fs vs ;;
  Ok (match u with Readable s => s | Hashed => md5hex (json fs vs) end).

Lemma unique_name_typed fs vs u : unique_name fs vs = Ok u -> typed_all (map f_dtype fs) vs = true.
Proof. unfold unique_name. destruct (typed_all (map f_dtype fs) vs); [reflexivity|discriminate]. Qed.

Lemma unique_name_readable fs vs s : unique_name fs vs = Ok (Readable s) -> s = readable (map f_name fs) vs.
Proof.
  unfold unique_name. destruct (negb _); [discriminate|]. destruct (_ && _); [|discriminate].
  destruct (_ <? _)%Z; [|discriminate]. intros H. inversion H. reflexivity.
Qed.

Lemma readable_injective fs vs ws s :
  unique_name fs vs = Ok (Readable s) -> unique_name fs ws = Ok (Readable s) -> vs = ws.
Proof.
  unfold unique_name. intros Hv Hw.
  destruct (typed_all (map f_dtype fs) vs) eqn:Tv; [|discriminate].
  destruct (typed_all (map f_dtype fs) ws) eqn:Tw; [|discriminate]. cbn [negb] in Hv, Hw.
  destruct (forallb scalar_dtype (map f_dtype fs)) eqn:Sc; [|discriminate]. cbn [andb] in Hv, Hw.
  destruct (forallb plain vs) eqn:Pv; [|discriminate]. destruct (forallb plain ws) eqn:Pw; [|discriminate].
  destruct (strlen (readable (map f_name fs) vs) <? _)%Z; [|discriminate].
  destruct (strlen (readable (map f_name fs) ws) <? _)%Z; [|discriminate].
  inversion Hv as [Hv']. inversion Hw as [Hw']. rewrite <- Hw' in Hv'.
  eapply (readable_inj (map f_name fs) (map f_dtype fs)); try eassumption. rewrite !map_length. reflexivity.
Qed.

Lemma suffix_injective fs vs ws s : fs <> [] ->
  suffix_str fs vs = Ok s -> suffix_str fs ws = Ok s -> vs = ws.
Proof.
  intros NE Hv Hw. unfold suffix_str in *.
  destruct (unique_name fs vs) as [u|] eqn:Uv; simpl in Hv; [|discriminate].
  destruct (unique_name fs ws) as [w|] eqn:Uw; simpl in Hw; [|discriminate].
  pose proof (unique_name_typed _ _ _ Uv) as Tv. pose proof (unique_name_typed _ _ _ Uw) as Tw.
  assert (forall xs x, unique_name fs xs = Ok (Readable x) -> has_char "=" x = true) as RE.
  { intros xs x U. rewrite (unique_name_readable _ _ _ U). apply readable_has_eq.
    - destruct fs; [congruence|discriminate].
    - apply unique_name_typed in U. apply typed_all_length in U. rewrite map_length in U.
      destruct xs; [|discriminate]. destruct fs; [congruence|discriminate]. }
  destruct u as [a|], w as [b|]; inversion Hv as [Ha]; inversion Hw as [Hb].
  - subst. eapply readable_injective; eassumption.
  - exfalso. pose proof (RE _ _ Uv) as Q. rewrite Ha, <- Hb, md5_hex in Q. discriminate.
  - exfalso. pose proof (RE _ _ Uw) as Q. rewrite Hb, <- Ha, md5_hex in Q. discriminate.
  - apply (json_injective fs); try assumption. apply md5_collision_free. congruence.
Qed.

(* ---------- names of the modules of a design ---------- *)
Variable U : list gen.
Variable T : list entry.

Definition suffix_h (k : key) : string :=
  match suffix_str (g_fields (gen_of U k)) (snd k) with Ok s => s | Error _ => "" end.

Definition cname_h := created_name (prog_of U T) (gen_name_of U) (has_params_of U) suffix_h.
Definition run_hist_h := run_hist key_eqb (prog_of U T) (gen_name_of U) (has_params_of U) suffix_h.

Definition base_of (c : key) : string :=
  match b_ret (prog_of U T c) with RFresh (Some n) => n | _ => gen_name_of U c end.

(* what the designer owes: module / generator names are identifiers, distinct generators use distinct names,
   and the calls carry validated parameters *)
Definition creators_ok (cs : list key) : Prop :=
  (forall c, In c cs -> exists o, b_ret (prog_of U T c) = RFresh o) /\
  (forall c, In c cs -> has_char "(" (base_of c) = false) /\
  (forall c1 c2, In c1 cs -> In c2 cs -> base_of c1 = base_of c2 -> fst c1 = fst c2) /\
  (forall c, In c cs -> typed_all (map f_dtype (g_fields (gen_of U c))) (snd c) = true).

Lemma typed_all_nil vs : typed_all [] vs = true -> vs = [].
Proof. destruct vs; [reflexivity|discriminate]. Qed.

Lemma cname_injective cs c1 c2 : creators_ok cs -> In c1 cs -> In c2 cs -> cname_h c1 = cname_h c2 -> c1 = c2.
Proof.
  intros [F [P [D Ty]]] I1 I2 E.
  destruct (F _ I1) as [o1 R1]. destruct (F _ I2) as [o2 R2].
  pose proof (P _ I1) as P1. pose proof (P _ I2) as P2.
  unfold cname_h, created_name in E. rewrite R1, R2 in E. unfold fresh_name in E.
  assert (match o1 with Some n => n | None => gen_name_of U c1 end = base_of c1) as B1
    by (unfold base_of; rewrite R1; reflexivity).
  assert (match o2 with Some n => n | None => gen_name_of U c2 end = base_of c2) as B2
    by (unfold base_of; rewrite R2; reflexivity).
  rewrite B1, B2 in E.
  assert (forall c, In c cs -> has_params_of U c = true ->
          suffix_str (g_fields (gen_of U c)) (snd c) = Ok (suffix_h c) /\ g_fields (gen_of U c) <> []) as SU.
  { intros c Ic Hp. pose proof (Ty _ Ic) as Tc. unfold suffix_h, suffix_str, unique_name. rewrite Tc. cbn [negb].
    split.
    - destruct (_ && _); [destruct (_ <? _)%Z|]; reflexivity.
    - unfold has_params_of in Hp. destruct (g_fields (gen_of U c)); [discriminate|congruence]. }
  destruct c1 as [g1 v1], c2 as [g2 v2].
  destruct (has_params_of U (g1, v1)) eqn:H1; destruct (has_params_of U (g2, v2)) eqn:H2.
  - apply full_name_inj in E; try assumption. destruct E as [Eb Es].
    pose proof (D _ _ I1 I2 Eb) as Eg. simpl in Eg. subst g2. f_equal.
    destruct (SU _ I1 H1) as [S1 NE]. destruct (SU _ I2 H2) as [S2 _]. rewrite <- Es in S2.
    unfold gen_of in *. simpl in *. eapply suffix_injective; eassumption.
  - exfalso. eapply paren_name_neq; [|exact E]. assumption.
  - exfalso. symmetry in E. eapply paren_name_neq; [|exact E]. assumption.
  - pose proof (D _ _ I1 I2 E) as Eg. simpl in Eg. subst g2. f_equal.
    pose proof (Ty _ I1) as T1. pose proof (Ty _ I2) as T2.
    unfold has_params_of in H1. unfold gen_of in *. simpl in *.
    destruct (g_fields (nth g1 U {| g_name := ""; g_fields := [] |})); [|discriminate].
    simpl in T1, T2. rewrite (typed_all_nil _ T1), (typed_all_nil _ T2). reflexivity.
Qed.

(* no two generated modules of a design share a name *)
Lemma design_names_unique fuel ks st ms m1 m2 g1 g2 : run_hist_h fuel ks = Ok (st, ms) ->
  creators_ok (map m_creator (heap st)) ->
  nth_error (heap st) m1 = Some g1 -> nth_error (heap st) m2 = Some g2 -> m_name g1 = m_name g2 -> m1 = m2.
Proof.
  intros H C G1 G2 E.
  eapply (heap_names_unique key key_eqb key_eqb_eq); try eassumption.
  intros c1 c2 I1 I2 Ec. eapply cname_injective; eassumption.
Qed.

End Hashed.

(* ====================================================================================================
   Appended for the C09 extension (number-like parameter values: h.Scalar / Prefixed / Decimal fields).
   ==================================================================================================== *)

(* ---------- the cache key of a call is the implementation's dict key ---------- *)
Lemma canon_all_total : forall ds vs, valid_all ds vs = true -> existsb has_mut vs = false -> exists r, canon_all vs = Ok r.
Proof.
  induction ds as [|d ds IH]; intros [|v vs] H M; simpl in H; try discriminate.
  - exists []. reflexivity.
  - apply andb_true_iff in H. destruct H as [Hv Hvs]. simpl in M. apply orb_false_iff in M. destruct M as [M0 M].
    destruct (canon_total _ _ Hv M0) as [y Y]. destruct (IH _ Hvs M) as [r R].
    exists (y :: r). simpl. rewrite Y. simpl. rewrite R. reflexivity.
Qed.

(* two calls whose validated parameter instances are found equal by the dict lookup (hash equal and ==) have the
   same key, and conversely - for ALL values *)
Lemma key_is_lookup fs a1 a2 v1 v2 : validate_args fs a1 = Ok v1 -> validate_args fs a2 = Ok v2 ->
  existsb has_mut v1 = false -> existsb has_mut v2 = false ->
  (lookup_hit v1 v2 = true <-> norm_args fs a1 = norm_args fs a2).
Proof.
  intros V1 V2 M1 M2.
  destruct (canon_all_total _ _ (validate_args_valid _ _ _ V1) M1) as [r R].
  destruct (canon_all_total _ _ (validate_args_valid _ _ _ V2) M2) as [s S].
  assert (norm_args fs a1 = Ok r) as N1 by (apply norm_args_split; exists v1; auto).
  assert (norm_args fs a2 = Ok s) as N2 by (apply norm_args_split; exists v2; auto).
  rewrite N1, N2, (lookup_hit_key v1 v2 r s R S). split; [intros ->; reflexivity|intros H; inversion H; reflexivity].
Qed.

(* ... and whenever no Prefixed number has more than EPSILON decimal places, == alone decides *)
Lemma key_is_eq fs a1 a2 v1 v2 : validate_args fs a1 = Ok v1 -> validate_args fs a2 = Ok v2 ->
  existsb has_mut v1 = false -> existsb has_mut v2 = false ->
  fine_all v1 = true -> fine_all v2 = true ->
  (insts_eqb v1 v2 = true <-> norm_args fs a1 = norm_args fs a2).
Proof.
  intros V1 V2 M1 M2 F1 F2.
  destruct (canon_all_total _ _ (validate_args_valid _ _ _ V1) M1) as [r R].
  destruct (canon_all_total _ _ (validate_args_valid _ _ _ V2) M2) as [s S].
  assert (norm_args fs a1 = Ok r) as N1 by (apply norm_args_split; exists v1; auto).
  assert (norm_args fs a2 = Ok s) as N2 by (apply norm_args_split; exists v2; auto).
  rewrite N1, N2. split.
  - intros E. f_equal. eapply insts_eqb_key; eassumption.
  - intros H. inversion H. subst s. eapply insts_eqb_of_key; eassumption.
Qed.

Lemma mk_key_of_args U g fs a1 a2 : nth_error U g = Some fs -> norm_args (g_fields fs) a1 = norm_args (g_fields fs) a2 ->
  mk_key U (g, a1) = mk_key U (g, a2).
Proof. intros N H. unfold mk_key. simpl. rewrite N, H. reflexivity. Qed.

(* ---------- the hashed form through the encoded JSON value (Model/ParamName.v: json_tree) ----------
   What stays a premise: md5 is collision-free on the texts met and a hex digest holds no '='; the TEXT serialisation
   json.dumps(.., indent=4) of the encoded value of one parameter class loses nothing (string escaping, float repr,
   and: the values of distinct enum members and the names written for distinct referenced objects are distinct). *)
Section HashedTree.
Variable md5hex : string -> string.
Variable dumps : jv -> string.
Hypothesis md5_collision_free : forall a b, md5hex a = md5hex b -> a = b.
Hypothesis md5_hex : forall a, has_char "=" (md5hex a) = false.
Hypothesis dumps_faithful : forall fs vs ws,
  typed_all (map f_dtype fs) vs = true -> typed_all (map f_dtype fs) ws = true ->
  dumps (json_tree fs vs) = dumps (json_tree fs ws) -> json_tree fs vs = json_tree fs ws.

Definition json_text (fs : list field) (vs : list pval) : string := dumps (json_tree fs vs).

Lemma json_text_injective fs vs ws :
  typed_all (map f_dtype fs) vs = true -> typed_all (map f_dtype fs) ws = true -> json_text fs vs = json_text fs ws -> vs = ws.
Proof. intros Tv Tw H. apply (json_tree_inj fs); try assumption. apply dumps_faithful; assumption. Qed.

Lemma suffix_injective_tree fs vs ws s : fs <> [] ->
  suffix_str md5hex json_text fs vs = Ok s -> suffix_str md5hex json_text fs ws = Ok s -> vs = ws.
Proof. exact (suffix_injective md5hex json_text md5_collision_free md5_hex json_text_injective fs vs ws s). Qed.

Lemma design_names_unique_tree U T fuel ks st ms m1 m2 g1 g2 : run_hist_h md5hex json_text U T fuel ks = Ok (st, ms) ->
  creators_ok U T (map m_creator (heap st)) ->
  nth_error (heap st) m1 = Some g1 -> nth_error (heap st) m2 = Some g2 -> m_name g1 = m_name g2 -> m1 = m2.
Proof. exact (design_names_unique md5hex json_text md5_collision_free md5_hex json_text_injective U T fuel ks st ms m1 m2 g1 g2). Qed.
End HashedTree.
