(* Proofs/C12Proofs.v — lemmas for Props/C12.v: the rewriting loops over back-reference sets (Model/C12Order.v)
   have closed forms that depend on the visited SET only (repaired) / on the set up to the order of the appended
   tail (pinned), and the repaired namer is the minimum of a total order. *)
Require Import Hdl21.Base.PyInt Hdl21.Spec.C12Repro Hdl21.Model.C12Order.
From Coq Require Import String Ascii Permutation OrderedTypeEx.
Open Scope string_scope.
Open Scope list_scope.

(* ------------------------------------------------------------------ generic list facts *)
Lemma nodup_app_inv {A} (l1 l2 : list A) :
  NoDup (l1 ++ l2) -> NoDup l1 /\ NoDup l2 /\ (forall x, In x l1 -> ~ In x l2).
Proof.
  induction l1 as [|a l1 IH]; simpl; intros H.
  - repeat split; [constructor | exact H | tauto].
  - inversion H as [|? ? Hn Hd]; subst. destruct (IH Hd) as [A1 [A2 A3]]. repeat split.
    + constructor; [|exact A1]. intro Hi. apply Hn. apply in_or_app. left; exact Hi.
    + exact A2.
    + intros x [<-|Hx] Hx2; [apply Hn; apply in_or_app; right; exact Hx2 | exact (A3 x Hx Hx2)].
Qed.

Lemma nodup_app_intro {A} (l1 l2 : list A) :
  NoDup l1 -> NoDup l2 -> (forall x, In x l1 -> ~ In x l2) -> NoDup (l1 ++ l2).
Proof.
  induction l1 as [|a l1 IH]; simpl; intros H1 H2 H3. { exact H2. }
  inversion H1; subst. constructor.
  - intro Hi. apply in_app_or in Hi. destruct Hi as [Hi|Hi]; [tauto | exact (H3 a (or_introl eq_refl) Hi)].
  - apply IH; [assumption | assumption |]. intros x Hx. apply H3. right; exact Hx.
Qed.

Lemma mem_In k l : mem k l = true <-> In k l.
Proof.
  unfold mem. rewrite existsb_exists. split.
  - intros [x [Hx He]]. apply String.eqb_eq in He. subst. exact Hx.
  - intros H. exists k. split; [exact H | apply String.eqb_refl].
Qed.

Lemma mem_false k l : mem k l = false <-> ~ In k l.
Proof.
  split; intros H.
  - intro Hi. apply mem_In in Hi. congruence.
  - destruct (mem k l) eqn:E; [|reflexivity]. apply mem_In in E. tauto.
Qed.

Lemma mem_app k l1 l2 : mem k (l1 ++ l2) = mem k l1 || mem k l2.
Proof. unfold mem. apply existsb_app. Qed.

Lemma mem_perm k l1 l2 : Permutation l1 l2 -> mem k l1 = mem k l2.
Proof.
  intros HP. destruct (mem k l1) eqn:E1; symmetry.
  - apply mem_In. apply (Permutation_in _ HP). apply mem_In; exact E1.
  - apply mem_false. intro Hi. apply mem_false in E1. apply E1. apply (Permutation_in _ (Permutation_sym HP)); exact Hi.
Qed.

Lemma keys_app (a b : conns) : keys (a ++ b) = keys a ++ keys b.
Proof. unfold keys. apply map_app. Qed.

(* ------------------------------------------------------------------ dict operations on a split dict *)
Lemma mem_split pre k v post : mem k (keys (pre ++ (k, v) :: post)) = true.
Proof. apply mem_In. rewrite keys_app. apply in_or_app. right. left. reflexivity. Qed.

Lemma remove_key_split pre k v post : ~ In k (keys pre) -> remove_key k (pre ++ (k, v) :: post) = pre ++ post.
Proof.
  induction pre as [|[k' v'] pre IH]; simpl; intros H.
  - rewrite String.eqb_refl. reflexivity.
  - destruct (String.eqb k k') eqn:E.
    + apply String.eqb_eq in E. subst. tauto.
    + rewrite IH; [reflexivity|tauto].
Qed.

Lemma lookup_split pre k v post : ~ In k (keys pre) -> lookup k (pre ++ (k, v) :: post) = Some v.
Proof.
  induction pre as [|[k' v'] pre IH]; simpl; intros H.
  - rewrite String.eqb_refl. reflexivity.
  - destruct (String.eqb k k') eqn:E.
    + apply String.eqb_eq in E. subst. tauto.
    + apply IH. tauto.
Qed.

Lemma after_split pre k v post : ~ In k (keys pre) -> after k (keys (pre ++ (k, v) :: post)) = keys post.
Proof.
  induction pre as [|[k' v'] pre IH]; simpl; intros H.
  - rewrite String.eqb_refl. reflexivity.
  - destruct (String.eqb k k') eqn:E.
    + apply String.eqb_eq in E. subst. tauto.
    + apply IH. tauto.
Qed.

Lemma assign_fresh k v c : ~ In k (keys c) -> assign k v c = c ++ [(k, v)].
Proof.
  induction c as [|[k' v'] c IH]; simpl; intros H. { reflexivity. }
  destruct (String.eqb k k') eqn:E.
  - apply String.eqb_eq in E. subst. tauto.
  - rewrite IH; [reflexivity|tauto].
Qed.

Lemma assign_all_fresh new : forall c,
  NoDup (keys new) -> (forall x, In x (keys new) -> ~ In x (keys c)) -> assign_all new c = c ++ new.
Proof.
  unfold assign_all. induction new as [|[k v] new IH]; simpl; intros c Hn Hf.
  - rewrite app_nil_r. reflexivity.
  - inversion Hn as [|? ? Hk Hn']; subst. rewrite assign_fresh by (apply Hf; left; reflexivity).
    rewrite IH; [rewrite <- app_assoc; reflexivity | exact Hn' |].
    intros x Hx Hi. rewrite keys_app in Hi. apply in_app_or in Hi. destruct Hi as [Hi|[<-|[]]].
    + exact (Hf x (or_intror Hx) Hi).
    + exact (Hk Hx).
Qed.

Lemma move_all_split post : forall pre acc,
  (forall n, In n (keys post) -> ~ In n (keys pre)) ->
  move_all (keys post) (pre ++ post ++ acc) = Ok (pre ++ acc ++ post).
Proof.
  induction post as [|[n w] post IH]; simpl; intros pre acc H.
  - rewrite app_nil_r. reflexivity.
  - unfold move_to_end. rewrite lookup_split by (apply H; left; reflexivity).
    rewrite remove_key_split by (apply H; left; reflexivity). simpl.
    replace ((pre ++ post ++ acc) ++ [(n, w)]) with (pre ++ post ++ (acc ++ [(n, w)])) by (repeat rewrite <- app_assoc; reflexivity).
    rewrite IH by (intros m Hm; apply H; right; exact Hm).
    repeat rewrite <- app_assoc. reflexivity.
Qed.

Lemma step_repaired_split f pre k v post new :
  f k = Ok new -> ~ In k (keys pre) -> (forall n, In n (keys post) -> ~ In n (keys pre)) ->
  NoDup (keys new) -> (forall x, In x (keys new) -> ~ In x (keys (pre ++ post))) ->
  step_repaired f (pre ++ (k, v) :: post) k = Ok (pre ++ new ++ post).
Proof.
  intros Hf Hk Hp Hn Hfr. unfold step_repaired. rewrite mem_split, Hf, remove_key_split, after_split by assumption.
  rewrite assign_all_fresh by assumption. rewrite <- app_assoc. apply move_all_split. exact Hp.
Qed.

Lemma step_pinned_split f pre k v post new :
  f k = Ok new -> ~ In k (keys pre) ->
  NoDup (keys new) -> (forall x, In x (keys new) -> ~ In x (keys (pre ++ post))) ->
  step_pinned f (pre ++ (k, v) :: post) k = Ok ((pre ++ post) ++ new).
Proof.
  intros Hf Hk Hn Hfr. unfold step_pinned. rewrite mem_split, Hf, remove_key_split by assumption.
  rewrite assign_all_fresh by assumption. reflexivity.
Qed.

Lemma keys_split (c : conns) k : In k (keys c) -> NoDup (keys c) ->
  exists pre v post, c = pre ++ (k, v) :: post /\ ~ In k (keys pre) /\ ~ In k (keys post).
Proof.
  induction c as [|[k' v'] c IH]; simpl; intros Hi Hn. { tauto. } inversion Hn as [|? ? Hk Hn']; subst.
  destruct (String.eqb k k') eqn:E.
  - apply String.eqb_eq in E. subst. exists [], v', c. simpl. repeat split; tauto.
  - assert (k' <> k) by (intro; subst; rewrite String.eqb_refl in E; discriminate).
    destruct Hi as [Hi|Hi]; [congruence|]. destruct (IH Hi Hn') as [pre [v [post [-> [A B]]]]].
    exists ((k', v') :: pre), v, post. simpl. repeat split; [|exact B]. intros [?|?]; [congruence|tauto].
Qed.

(* ------------------------------------------------------------------ closed forms *)
Definition fo (f : flat_fn) (k : key) : conns := match f k with Ok l => l | Error _ => [] end.
Definition subst (f : flat_fn) (P : list key) (c : conns) : conns :=
  flatten_in_place (fun k => mem k P) (fo f) c.
Definition filt (P : list key) (c : conns) : conns := filter (fun kv => negb (mem (fst kv) P)) c.

(* well-formedness of a loop: f, the dict at loop entry, the back-reference set D *)
Record WF (f : flat_fn) (c : conns) (D : list key) : Prop := {
  wf_keys : NoDup (keys c);
  wf_D : NoDup D;
  wf_in : forall k, In k D -> In k (keys c);
  wf_nodup : forall k, In k D -> NoDup (keys (fo f k));
  wf_fresh : forall k x, In k D -> In x (keys (fo f k)) -> ~ In x (keys c);
  wf_disj : forall k1 k2 x, In k1 D -> In k2 D -> k1 <> k2 -> In x (keys (fo f k1)) -> ~ In x (keys (fo f k2))
}.

Lemma subst_app f P a b : subst f P (a ++ b) = subst f P a ++ subst f P b.
Proof. unfold subst, flatten_in_place. apply flat_map_app. Qed.

Lemma subst_ext f P Q c : (forall x, In x (keys c) -> mem x P = mem x Q) -> subst f P c = subst f Q c.
Proof.
  unfold subst, flatten_in_place. induction c as [|[k v] c IH]; simpl; intros H. { reflexivity. }
  rewrite (H k) by (left; reflexivity). rewrite IH; [reflexivity|]. intros x Hx. apply H. right; exact Hx.
Qed.

Lemma subst_nil f c : subst f [] c = c.
Proof. unfold subst, flatten_in_place. induction c as [|[k v] c IH]; simpl; [reflexivity | f_equal; exact IH]. Qed.

Lemma keys_subst_in f P c x : In x (keys (subst f P c)) ->
  (In x (keys c) /\ ~ In x P) \/ (exists k, In k (keys c) /\ In k P /\ In x (keys (fo f k))).
Proof.
  unfold subst, flatten_in_place. induction c as [|[k v] c IH]; simpl; intros H. { tauto. }
  rewrite keys_app in H. apply in_app_or in H. destruct H as [H|H].
  - destruct (mem k P) eqn:E.
    + right. exists k. apply mem_In in E. auto.
    + simpl in H. destruct H as [<-|[]]. left. apply mem_false in E. auto.
  - destruct (IH H) as [[A B]|[k' [A [B C]]]]; [left; auto | right; exists k'; auto].
Qed.

Lemma keys_filt_in P c x : In x (keys (filt P c)) -> In x (keys c).
Proof.
  unfold filt, keys. rewrite in_map_iff. intros [kv [<- Hi]]. apply filter_In in Hi. apply in_map. tauto.
Qed.

Lemma nodup_keys_subst f P c :
  NoDup (keys c) -> (forall k, In k P -> NoDup (keys (fo f k))) ->
  (forall k x, In k P -> In x (keys (fo f k)) -> ~ In x (keys c)) ->
  (forall k1 k2 x, In k1 P -> In k2 P -> k1 <> k2 -> In x (keys (fo f k1)) -> ~ In x (keys (fo f k2))) ->
  NoDup (keys (subst f P c)).
Proof.
  induction c as [|[k v] c IH]; intros Hc H2 H3 H4. { constructor. }
  change ((k, v) :: c) with ([(k, v)] ++ c). rewrite subst_app, keys_app.
  simpl in Hc. inversion Hc as [|? ? Hk Hc']; subst.
  assert (IHc : NoDup (keys (subst f P c))).
  { apply IH; auto. intros k' x A B C. apply (H3 k' x A B). right; exact C. }
  unfold subst at 1, flatten_in_place. simpl. rewrite app_nil_r. destruct (mem k P) eqn:E.
  - apply mem_In in E. apply nodup_app_intro; [apply H2; exact E | exact IHc |].
    intros x Hx Hx2. apply keys_subst_in in Hx2. destruct Hx2 as [[A B]|[k' [A [B C]]]].
    + apply (H3 k x E Hx). right; exact A.
    + assert (k <> k') by (intro; subst; tauto). exact (H4 k k' x E B H Hx C).
  - apply mem_false in E. simpl. constructor; [|exact IHc]. intro Hx2.
    apply keys_subst_in in Hx2. destruct Hx2 as [[A B]|[k' [A [B C]]]]; [tauto|].
    apply (H3 k' k B C). left; reflexivity.
Qed.

Lemma wf_perm f c D D' : Permutation D D' -> WF f c D -> WF f c D'.
Proof.
  intros HP [A B C E F G]. pose proof (Permutation_sym HP) as HP'.
  constructor; [exact A | exact (Permutation_NoDup HP B) | | | | ];
    intros; eauto using Permutation_in.
Qed.

(* the repaired loop: after visiting `done`, the dict is the in-place flattening of `done` *)
Lemma run_repaired_closed f c : forall pi done,
  WF f c (done ++ pi) -> (forall k, In k pi -> exists l, f k = Ok l) ->
  run_repaired f pi (subst f done c) = Ok (subst f (done ++ pi) c).
Proof.
  induction pi as [|k pi IH]; intros done W Hok.
  - rewrite app_nil_r. reflexivity.
  - destruct W as [A B C E F G]. destruct (nodup_app_inv _ _ B) as [B1 [B2 B3]].
    assert (HkD : In k (done ++ k :: pi)) by (apply in_or_app; right; left; reflexivity).
    assert (Hkd : ~ In k done) by (intro Hi; apply (B3 k Hi); left; reflexivity).
    destruct (keys_split c k (C k HkD) A) as [pre [v [post [-> [Hpre Hpost]]]]].
    destruct (Hok k (or_introl eq_refl)) as [new Hnew].
    assert (Hfo : fo f k = new) by (unfold fo; rewrite Hnew; reflexivity).
    assert (ND : NoDup (keys (subst f done (pre ++ (k, v) :: post)))).
    { apply nodup_keys_subst; [exact A | intros k0 H0; apply E; apply in_or_app; left; exact H0
        | intros k0 x H0; apply F; apply in_or_app; left; exact H0
        | intros k1 k2 x H1 H2; apply G; apply in_or_app; left; assumption ]. }
    cbn [run_repaired run_loop]. fold (run_repaired f).
    rewrite subst_app in *. change ((k, v) :: post) with ([(k, v)] ++ post) in *. rewrite subst_app in *.
    assert (S1 : subst f done [(k, v)] = [(k, v)]).
    { unfold subst, flatten_in_place. simpl. apply mem_false in Hkd. rewrite Hkd. reflexivity. }
    rewrite S1 in *. simpl app in *.
    rewrite keys_app in ND. destruct (nodup_app_inv _ _ ND) as [N1 [N2 N3]]. simpl in N2. apply NoDup_cons_iff in N2. destruct N2 as [N4 N5].
    rewrite (step_repaired_split f _ k v _ new Hnew).
    + simpl. replace (subst f done pre ++ new ++ subst f done post) with (subst f (done ++ [k]) (pre ++ [(k, v)] ++ post)).
      * replace (done ++ k :: pi) with ((done ++ [k]) ++ pi) by (rewrite <- app_assoc; reflexivity).
        apply IH.
        -- rewrite <- app_assoc. simpl. constructor; auto.
        -- intros k' Hk'. apply Hok. right; exact Hk'.
      * repeat rewrite subst_app. f_equal; [|f_equal].
        -- apply subst_ext. intros x Hx. rewrite mem_app. simpl. rewrite orb_false_r.
           destruct (String.eqb x k) eqn:Exk; [apply String.eqb_eq in Exk; subst; tauto | rewrite orb_false_r; reflexivity].
        -- unfold subst, flatten_in_place. simpl. rewrite mem_app. simpl. rewrite String.eqb_refl, orb_true_r, app_nil_r. exact Hfo.
        -- apply subst_ext. intros x Hx. rewrite mem_app. simpl. rewrite orb_false_r.
           destruct (String.eqb x k) eqn:Exk; [apply String.eqb_eq in Exk; subst; tauto | rewrite orb_false_r; reflexivity].
    + intro Hi. apply (N3 k Hi). left; reflexivity.
    + intros n Hn Hn2. apply (N3 n Hn2). right; exact Hn.
    + rewrite <- Hfo. apply E. exact HkD.
    + intros x Hx Hx2. rewrite <- Hfo in Hx. rewrite <- subst_app in Hx2. apply keys_subst_in in Hx2.
      destruct Hx2 as [[P1 P2]|[k' [P1 [P2 P3]]]].
      * apply (F k x HkD Hx). rewrite keys_app in *. simpl. apply in_app_or in P1. apply in_or_app. simpl. tauto.
      * assert (k' <> k) by (intro; subst; tauto).
        apply (G k' k x); auto. apply in_or_app. left; exact P2.
Qed.

(* the pinned loop: the visited entries leave their place, their flattenings pile up at the end in visiting order *)
Lemma filt_app P a b : filt P (a ++ b) = filt P a ++ filt P b.
Proof. unfold filt. apply filter_app. Qed.

Lemma filt_ext P Q c : (forall x, In x (keys c) -> mem x P = mem x Q) -> filt P c = filt Q c.
Proof.
  intros H. unfold filt. apply filter_ext_in. intros [k v] Hi. simpl. rewrite (H k); [reflexivity|].
  unfold keys. apply in_map_iff. exists (k, v). auto.
Qed.

Lemma filt_nil c : filt [] c = c.
Proof. unfold filt. induction c as [|kv c IH]; simpl; [reflexivity | f_equal; exact IH]. Qed.

Lemma keys_flat_map_in f D x : In x (keys (flat_map (fo f) D)) -> exists k, In k D /\ In x (keys (fo f k)).
Proof.
  unfold keys. rewrite in_map_iff. intros [kv [<- Hi]]. apply in_flat_map in Hi. destruct Hi as [k [A B]].
  exists k. split; [exact A | apply in_map; exact B].
Qed.

Lemma run_pinned_closed f c : forall pi done,
  WF f c (done ++ pi) -> (forall k, In k pi -> exists l, f k = Ok l) ->
  run_pinned f pi (filt done c ++ flat_map (fo f) done) = Ok (filt (done ++ pi) c ++ flat_map (fo f) (done ++ pi)).
Proof.
  induction pi as [|k pi IH]; intros done W Hok.
  - rewrite app_nil_r. reflexivity.
  - destruct W as [A B C E F G]. destruct (nodup_app_inv _ _ B) as [B1 [B2 B3]].
    assert (HkD : In k (done ++ k :: pi)) by (apply in_or_app; right; left; reflexivity).
    assert (Hkd : ~ In k done) by (intro Hi; apply (B3 k Hi); left; reflexivity).
    destruct (keys_split c k (C k HkD) A) as [pre [v [post [-> [Hpre Hpost]]]]].
    destruct (Hok k (or_introl eq_refl)) as [new Hnew].
    assert (Hfo : fo f k = new) by (unfold fo; rewrite Hnew; reflexivity).
    cbn [run_pinned run_loop]. fold (run_pinned f).
    rewrite filt_app. change ((k, v) :: post) with ([(k, v)] ++ post). rewrite filt_app.
    assert (S1 : filt done [(k, v)] = [(k, v)]).
    { unfold filt. simpl. apply mem_false in Hkd. rewrite Hkd. reflexivity. }
    rewrite S1. simpl app. rewrite <- app_assoc. simpl app.
    rewrite (step_pinned_split f _ k v _ new Hnew).
    + replace ((filt done pre ++ filt done post ++ flat_map (fo f) done) ++ new)
        with (filt (done ++ [k]) (pre ++ [(k, v)] ++ post) ++ flat_map (fo f) (done ++ [k])).
      * replace (done ++ k :: pi) with ((done ++ [k]) ++ pi) by (rewrite <- app_assoc; reflexivity).
        apply IH.
        -- rewrite <- app_assoc. simpl. constructor; auto.
        -- intros k' Hk'. apply Hok. right; exact Hk'.
      * assert (S2 : filt (done ++ [k]) [(k, v)] = []).
        { unfold filt. simpl. rewrite mem_app. simpl. rewrite String.eqb_refl, orb_true_r. reflexivity. }
        repeat rewrite filt_app. rewrite S2. rewrite flat_map_app. cbn [flat_map]. rewrite app_nil_r, Hfo. cbn [app].
        repeat rewrite <- app_assoc. f_equal; [|f_equal].
        -- apply filt_ext. intros x Hx. rewrite mem_app. simpl. rewrite orb_false_r.
           destruct (String.eqb x k) eqn:Exk; [apply String.eqb_eq in Exk; subst; tauto | rewrite orb_false_r; reflexivity].
        -- apply filt_ext. intros x Hx. rewrite mem_app. simpl. rewrite orb_false_r.
           destruct (String.eqb x k) eqn:Exk; [apply String.eqb_eq in Exk; subst; tauto | rewrite orb_false_r; reflexivity].
    + intro Hi. apply Hpre. exact (keys_filt_in _ _ _ Hi).
    + rewrite <- Hfo. apply E. exact HkD.
    + intros x Hx Hx2. rewrite <- Hfo in Hx. repeat rewrite keys_app in Hx2.
      apply in_app_or in Hx2. destruct Hx2 as [P1|P1]; [|apply in_app_or in P1; destruct P1 as [P1|P1]].
      * apply (F k x HkD Hx). rewrite keys_app. apply in_or_app. left. exact (keys_filt_in _ _ _ P1).
      * apply (F k x HkD Hx). rewrite keys_app. apply in_or_app. right. right. exact (keys_filt_in _ _ _ P1).
      * apply keys_flat_map_in in P1. destruct P1 as [k' [Q1 Q2]].
        assert (k' <> k) by (intro; subst; tauto).
        apply (G k' k x); auto. apply in_or_app. left; exact Q1.
Qed.

(* ------------------------------------------------------------------ errors: every failure is the same failure *)
Lemma move_all_err ns : forall c e, move_all ns c = Error e -> e = EMissing.
Proof.
  induction ns as [|n ns IH]; simpl; intros c e H. { discriminate. }
  unfold move_to_end in H. destruct (lookup n c); simpl in H; [exact (IH _ _ H) | inversion H; reflexivity].
Qed.

Lemma step_repaired_err f c k e : step_repaired f c k = Error e -> e = EMissing.
Proof.
  unfold step_repaired. destruct (mem k (keys c)); [|intros H; inversion H; reflexivity].
  destruct (f k); [apply move_all_err | intros H; inversion H; reflexivity].
Qed.

Lemma step_pinned_err f c k e : step_pinned f c k = Error e -> e = EMissing.
Proof.
  unfold step_pinned. destruct (mem k (keys c)); [|intros H; inversion H; reflexivity].
  destruct (f k); intros H; inversion H; reflexivity.
Qed.

Lemma run_loop_err step (Hs : forall c k e, step c k = Error e -> e = EMissing) pi :
  forall c e, run_loop step pi c = Error e -> e = EMissing.
Proof.
  induction pi as [|k pi IH]; simpl; intros c e H. { discriminate. }
  destruct (step c k) eqn:E; simpl in H; [exact (IH _ _ H) | inversion H; subst; exact (Hs _ _ _ E)].
Qed.

Lemma run_loop_bad step k (Hb : forall c, exists e, step c k = Error e) pi :
  In k pi -> forall c, exists e, run_loop step pi c = Error e.
Proof.
  induction pi as [|k' pi IH]; simpl; intros Hi c. { tauto. }
  destruct (step c k') eqn:E; simpl; [|eauto]. destruct Hi as [->|Hi]; [|exact (IH Hi _)].
  destruct (Hb c) as [e He]. congruence.
Qed.

Lemma step_repaired_bad f k e : f k = Error e -> forall c, exists e', step_repaired f c k = Error e'.
Proof. intros H c. unfold step_repaired. rewrite H. destruct (mem k (keys c)); eauto. Qed.

Lemma step_pinned_bad f k e : f k = Error e -> forall c, exists e', step_pinned f c k = Error e'.
Proof. intros H c. unfold step_pinned. rewrite H. destruct (mem k (keys c)); eauto. Qed.

(* ------------------------------------------------------------------ boolean well-formedness *)
Fixpoint nodupb (l : list key) : bool :=
  match l with [] => true | x :: t => negb (mem x t) && nodupb t end.

Lemma nodupb_spec l : nodupb l = true -> NoDup l.
Proof.
  induction l as [|x l IH]; simpl; intros H; constructor; apply andb_prop in H; destruct H as [A B].
  - apply mem_false. destruct (mem x l); [discriminate|reflexivity].
  - exact (IH B).
Qed.

Definition wf_loop (f : flat_fn) (c : conns) (D : list key) : bool :=
  nodupb (keys c) && nodupb D &&
  forallb (fun k => mem k (keys c) && nodupb (keys (fo f k)) &&
                    forallb (fun x => negb (mem x (keys c))) (keys (fo f k)) &&
                    forallb (fun k2 => String.eqb k k2 || forallb (fun x => negb (mem x (keys (fo f k2)))) (keys (fo f k))) D) D.

Lemma wf_loop_spec f c D : wf_loop f c D = true -> WF f c D.
Proof.
  unfold wf_loop. intros H. apply andb_prop in H. destruct H as [H H3]. apply andb_prop in H. destruct H as [H1 H2].
  rewrite forallb_forall in H3.
  assert (P : forall k, In k D -> In k (keys c) /\ NoDup (keys (fo f k)) /\
               (forall x, In x (keys (fo f k)) -> ~ In x (keys c)) /\
               (forall k2 x, In k2 D -> k <> k2 -> In x (keys (fo f k)) -> ~ In x (keys (fo f k2)))).
  { intros k Hk. specialize (H3 k Hk). apply andb_prop in H3. destruct H3 as [H3 Q4]. apply andb_prop in H3.
    destruct H3 as [H3 Q3]. apply andb_prop in H3. destruct H3 as [Q1 Q2]. repeat split.
    - apply mem_In; exact Q1.
    - apply nodupb_spec; exact Q2.
    - intros x Hx. rewrite forallb_forall in Q3. specialize (Q3 x Hx). apply mem_false. destruct (mem x (keys c)); [discriminate|reflexivity].
    - intros k2 x Hk2 Hne Hx. rewrite forallb_forall in Q4. specialize (Q4 k2 Hk2). apply orb_prop in Q4. destruct Q4 as [Q4|Q4].
      + apply String.eqb_eq in Q4. tauto.
      + rewrite forallb_forall in Q4. specialize (Q4 x Hx). apply mem_false. destruct (mem x (keys (fo f k2))); [discriminate|reflexivity]. }
  constructor.
  - apply nodupb_spec; exact H1.
  - apply nodupb_spec; exact H2.
  - intros k Hk. apply (P k Hk).
  - intros k Hk. apply (P k Hk).
  - intros k x Hk. apply (P k Hk).
  - intros k1 k2 x Hk1 Hk2. apply (P k1 Hk1); exact Hk2.
Qed.

(* ------------------------------------------------------------------ the theorems about the loops *)
Lemma all_ok_dec (f : flat_fn) (pi : list key) : (forall k, In k pi -> exists l, f k = Ok l) \/ (exists k e, In k pi /\ f k = Error e).
Proof.
  induction pi as [|k pi IH]. { left. intros k []. }
  destruct (f k) eqn:E.
  - destruct IH as [IH|[k' [e [A B]]]]; [left | right; exists k', e; split; [right; exact A | exact B]].
    intros k' [<-|Hk]; eauto.
  - right. exists k, e. split; [left; reflexivity | exact E].
Qed.

Lemma repaired_is_flatten f c pi : WF f c pi -> (forall k, In k pi -> exists l, f k = Ok l) ->
  run_repaired f pi c = Ok (flatten_in_place (fun k => mem k pi) (fo f) c).
Proof.
  intros W Hok. pose proof (run_repaired_closed f c pi [] W Hok) as H. rewrite subst_nil in H. exact H.
Qed.

Lemma repaired_order_irrelevant f c pi1 pi2 : WF f c pi1 -> Permutation pi1 pi2 ->
  run_repaired f pi1 c = run_repaired f pi2 c.
Proof.
  intros W HP. destruct (all_ok_dec f pi1) as [Hok|[k [e [Hk He]]]].
  - rewrite (repaired_is_flatten f c pi1 W Hok).
    rewrite (repaired_is_flatten f c pi2 (wf_perm _ _ _ _ HP W)).
    + f_equal. apply (subst_ext f pi1 pi2 c). intros x _. apply mem_perm. exact HP.
    + intros k Hk. apply Hok. apply (Permutation_in _ (Permutation_sym HP)). exact Hk.
  - destruct (run_loop_bad (step_repaired f) k (step_repaired_bad f k e He) pi1 Hk c) as [e1 H1].
    destruct (run_loop_bad (step_repaired f) k (step_repaired_bad f k e He) pi2 (Permutation_in _ HP Hk) c) as [e2 H2].
    unfold run_repaired. rewrite H1, H2.
    rewrite (run_loop_err _ (step_repaired_err f) _ _ _ H1), (run_loop_err _ (step_repaired_err f) _ _ _ H2). reflexivity.
Qed.

Lemma pinned_closed f c pi : WF f c pi -> (forall k, In k pi -> exists l, f k = Ok l) ->
  run_pinned f pi c = Ok (filt pi c ++ flat_map (fo f) pi).
Proof.
  intros W Hok. pose proof (run_pinned_closed f c pi [] W Hok) as H. simpl in H. rewrite filt_nil, app_nil_r in H. exact H.
Qed.

Lemma pinned_partition f c pi1 pi2 : WF f c pi1 -> Permutation pi1 pi2 ->
  match run_pinned f pi1 c, run_pinned f pi2 c with
  | Ok r1, Ok r2 => Permutation r1 r2
  | Error e1, Error e2 => e1 = e2
  | _, _ => False
  end.
Proof.
  intros W HP. destruct (all_ok_dec f pi1) as [Hok|[k [e [Hk He]]]].
  - rewrite (pinned_closed f c pi1 W Hok). rewrite (pinned_closed f c pi2 (wf_perm _ _ _ _ HP W)).
    + replace (filt pi2 c) with (filt pi1 c) by (apply filt_ext; intros x _; apply mem_perm; exact HP).
      apply Permutation_app_head. apply Permutation_flat_map. exact HP.
    + intros k Hk. apply Hok. apply (Permutation_in _ (Permutation_sym HP)). exact Hk.
  - destruct (run_loop_bad (step_pinned f) k (step_pinned_bad f k e He) pi1 Hk c) as [e1 H1].
    destruct (run_loop_bad (step_pinned f) k (step_pinned_bad f k e He) pi2 (Permutation_in _ HP Hk) c) as [e2 H2].
    unfold run_pinned. rewrite H1, H2.
    rewrite (run_loop_err _ (step_pinned_err f) _ _ _ H1), (run_loop_err _ (step_pinned_err f) _ _ _ H2). reflexivity.
Qed.

(* ------------------------------------------------------------------ the namer of a reference group *)
Lemma cmp_lt_trans a b c : String.compare a b = Lt -> String.compare b c = Lt -> String.compare a c = Lt.
Proof.
  intros H1 H2. apply String_as_OT.cmp_lt. apply String_as_OT.cmp_lt in H1. apply String_as_OT.cmp_lt in H2.
  exact (String_as_OT.lt_trans _ _ _ H1 H2).
Qed.

Lemma cmp_eq a b : String.compare a b = Eq -> a = b.
Proof. apply String.compare_eq_iff. Qed.

Lemma cmp_refl a : String.compare a a = Eq.
Proof. apply String_as_OT.cmp_eq. reflexivity. Qed.

Lemma sleb_trans a b c : String.leb a b = true -> String.leb b c = true -> String.leb a c = true.
Proof.
  unfold String.leb. destruct (String.compare a b) eqn:E1; try discriminate; intros _;
    destruct (String.compare b c) eqn:E2; try discriminate; intros _.
  - apply cmp_eq in E1. subst. rewrite E2. reflexivity.
  - apply cmp_eq in E1. subst. rewrite E2. reflexivity.
  - apply cmp_eq in E2. subst. rewrite E1. reflexivity.
  - rewrite (cmp_lt_trans _ _ _ E1 E2). reflexivity.
Qed.

Lemma pref_leb_refl a : pref_leb a a = true.
Proof. unfold pref_leb, String.leb. rewrite !cmp_refl. reflexivity. Qed.

Lemma pref_leb_total a b : pref_leb a b = true \/ pref_leb b a = true.
Proof.
  unfold pref_leb. rewrite (String.compare_antisym (pr_inst b) (pr_inst a)).
  destruct (String.compare (pr_inst a) (pr_inst b)); simpl; auto.
  destruct (String.leb_total (pr_port a) (pr_port b)); auto.
Qed.

Lemma pref_leb_trans a b c : pref_leb a b = true -> pref_leb b c = true -> pref_leb a c = true.
Proof.
  unfold pref_leb.
  destruct (String.compare (pr_inst a) (pr_inst b)) eqn:E1; try discriminate;
    destruct (String.compare (pr_inst b) (pr_inst c)) eqn:E2; try discriminate; intros H1 H2.
  - apply cmp_eq in E1. apply cmp_eq in E2. rewrite E1, E2, cmp_refl. exact (sleb_trans _ _ _ H1 H2).
  - apply cmp_eq in E1. rewrite E1, E2. reflexivity.
  - apply cmp_eq in E2. rewrite <- E2, E1. reflexivity.
  - rewrite (cmp_lt_trans _ _ _ E1 E2). reflexivity.
Qed.

Lemma pref_leb_antisym a b : pref_leb a b = true -> pref_leb b a = true ->
  pr_inst a = pr_inst b /\ pr_port a = pr_port b.
Proof.
  unfold pref_leb. rewrite (String.compare_antisym (pr_inst b) (pr_inst a)).
  destruct (String.compare (pr_inst a) (pr_inst b)) eqn:E; simpl; try discriminate.
  apply cmp_eq in E. intros H1 H2. split; [exact E | exact (String.leb_antisym _ _ H1 H2)].
Qed.

Definition name_key (p : pref) : string * string := (pr_inst p, pr_port p).

Lemma first_min_spec : forall t x,
  In (first_min pref_ltb x t) (x :: t) /\ forall y, In y (x :: t) -> pref_leb (first_min pref_ltb x t) y = true.
Proof.
  unfold first_min. induction t as [|a t IH]; intros x.
  - simpl. split; [left; reflexivity|]. intros y [<-|[]]. apply pref_leb_refl.
  - cbn [fold_left]. set (x' := if pref_ltb a x then a else x).
    destruct (IH x') as [I1 I2].
    assert (Hx : pref_leb x' x = true /\ pref_leb x' a = true /\ (x' = x \/ x' = a)).
    { unfold x', pref_ltb. destruct (pref_leb x a) eqn:E; simpl.
      - repeat split; [apply pref_leb_refl | exact E | left; reflexivity].
      - destruct (pref_leb_total x a) as [H|H]; [congruence|]. repeat split; [exact H | apply pref_leb_refl | right; reflexivity]. }
    destruct Hx as [X1 [X2 X3]]. split.
    + destruct I1 as [I1|I1]; [|right; right; exact I1]. rewrite <- I1. destruct X3 as [->| ->]; [left | right; left]; reflexivity.
    + intros y [<-|[<-|Hy]].
      * apply (pref_leb_trans _ x'); [apply I2; left; reflexivity | exact X1].
      * apply (pref_leb_trans _ x'); [apply I2; left; reflexivity | exact X2].
      * apply I2. right; exact Hy.
Qed.

Lemma key_inj g a b : NoDup (map name_key g) -> In a g -> In b g -> name_key a = name_key b -> a = b.
Proof.
  induction g as [|x g IH]; simpl; intros Hn Ha Hb He. { tauto. }
  inversion Hn as [|? ? Hx Hn']; subst. destruct Ha as [<-|Ha]; destruct Hb as [<-|Hb].
  - reflexivity.
  - exfalso. apply Hx. rewrite He. apply in_map. exact Hb.
  - exfalso. apply Hx. rewrite <- He. apply in_map. exact Ha.
  - exact (IH Hn' Ha Hb He).
Qed.

Lemma perm_filter {A} (p : A -> bool) l1 l2 : Permutation l1 l2 -> Permutation (filter p l1) (filter p l2).
Proof.
  induction 1; simpl.
  - constructor.
  - destruct (p x); [constructor|]; assumption.
  - destruct (p x), (p y); try apply perm_swap; try apply Permutation_refl.
  - eapply Permutation_trans; eassumption.
Qed.

Lemma which_repaired_in g m : which_repaired g = Ok m -> In m g.
Proof.
  unfold which_repaired, which_with. destruct (unconnected g) as [|x [|y r]] eqn:E; intros H.
  - destruct g as [|x t]; [discriminate|]. inversion H. apply first_min_spec.
  - inversion H; subst. assert (Hi : In m (unconnected g)) by (rewrite E; left; reflexivity).
    unfold unconnected in Hi. apply filter_In in Hi. tauto.
  - discriminate.
Qed.

Lemma which_repaired_namer g m : which_repaired g = Ok m -> is_namer g m.
Proof.
  intros H. split; [exact (which_repaired_in g m H)|]. revert H.
  unfold which_repaired, which_with. destruct (unconnected g) as [|x [|y r]] eqn:E; intros H.
  - right. assert (Hall : forall x, In x g -> pr_conn x = true).
    { intros x Hx. destruct (pr_conn x) eqn:Ec; [reflexivity|]. assert (Hi : In x (unconnected g)).
      { unfold unconnected. apply filter_In. rewrite Ec. auto. } rewrite E in Hi. destruct Hi. }
    split; [exact Hall|]. destruct g as [|x t]; [discriminate|]. inversion H. apply first_min_spec.
  - left. inversion H; subst. assert (Hi : In m (unconnected g)) by (rewrite E; left; reflexivity).
    unfold unconnected in Hi. apply filter_In in Hi. destruct Hi as [_ Hc]. split.
    + destruct (pr_conn m); [discriminate|reflexivity].
    + intros x Hx Hc'. assert (Hi : In x (unconnected g)) by (unfold unconnected; apply filter_In; rewrite Hc'; auto).
      rewrite E in Hi. destruct Hi as [<-|[]]. reflexivity.
  - discriminate.
Qed.

Lemma which_repaired_perm g1 g2 : Permutation g1 g2 -> NoDup (map name_key g1) -> which_repaired g1 = which_repaired g2.
Proof.
  intros HP Hn. pose proof (perm_filter (fun p => negb (pr_conn p)) _ _ HP) as HF.
  fold (unconnected g1) in HF. fold (unconnected g2) in HF.
  unfold which_repaired, which_with.
  destruct (unconnected g1) as [|x1 [|y1 r1]] eqn:E1.
  - apply Permutation_nil in HF. rewrite HF.
    destruct g1 as [|a1 t1]; [apply Permutation_nil in HP; rewrite HP; reflexivity|].
    destruct g2 as [|a2 t2]; [apply Permutation_sym in HP; apply Permutation_nil in HP; discriminate|].
    f_equal. destruct (first_min_spec t1 a1) as [I1 M1]. destruct (first_min_spec t2 a2) as [I2 M2].
    set (m1 := first_min pref_ltb a1 t1) in *. set (m2 := first_min pref_ltb a2 t2) in *.
    assert (I2' : In m2 (a1 :: t1)) by (apply (Permutation_in _ (Permutation_sym HP)); exact I2).
    assert (I1' : In m1 (a2 :: t2)) by (apply (Permutation_in _ HP); exact I1).
    destruct (pref_leb_antisym m1 m2 (M1 _ I2') (M2 _ I1')) as [A B].
    apply (key_inj (a1 :: t1)); auto. unfold name_key. rewrite A, B. reflexivity.
  - destruct (unconnected g2) as [|x2 [|y2 r2]] eqn:E2.
    + apply Permutation_sym in HF. apply Permutation_nil in HF. discriminate.
    + apply Permutation_length_1 in HF. rewrite HF. reflexivity.
    + apply Permutation_length in HF. simpl in HF. discriminate.
  - destruct (unconnected g2) as [|x2 [|y2 r2]] eqn:E2.
    + apply Permutation_sym in HF. apply Permutation_nil in HF. discriminate.
    + apply Permutation_length in HF. simpl in HF. discriminate.
    + reflexivity.
Qed.

(* ------------------------------------------------------------------ update_ref_deps; small helpers for Props *)
Lemma keys_assign k v c : keys (assign k v c) = if mem k (keys c) then keys c else keys c ++ [k].
Proof.
  induction c as [|[k' v'] c IH]; simpl. { reflexivity. }
  destruct (String.eqb k k') eqn:E; simpl.
  - apply String.eqb_eq in E. subst. reflexivity.
  - rewrite IH. fold (mem k (keys c)). destruct (mem k (keys c)); reflexivity.
Qed.

Lemma replace_keeps_keys v pi : forall c c', run_loop (step_replace v) pi c = Ok c' -> keys c' = keys c.
Proof.
  induction pi as [|k pi IH]; simpl; intros c c' H. { inversion H; reflexivity. }
  unfold step_replace in H. destruct (mem k (keys c)) eqn:E; simpl in H; [|discriminate].
  rewrite (IH _ _ H), keys_assign, E. reflexivity.
Qed.

Fixpoint nodup_pairs (l : list (string * string)) : bool :=
  match l with
  | [] => true
  | (a, b) :: t => negb (existsb (fun y => String.eqb a (fst y) && String.eqb b (snd y)) t) && nodup_pairs t
  end.

Lemma nodup_pairs_spec l : nodup_pairs l = true -> NoDup l.
Proof.
  induction l as [|[a b] l IH]; simpl; intros H; constructor; apply andb_prop in H; destruct H as [A B].
  - intro Hi. destruct (existsb (fun y => String.eqb a (fst y) && String.eqb b (snd y)) l) eqn:E; [discriminate|].
    assert (X : existsb (fun y => String.eqb a (fst y) && String.eqb b (snd y)) l = true).
    { apply existsb_exists. exists (a, b). simpl. rewrite !String.eqb_refl. auto. }
    congruence.
  - exact (IH B).
Qed.

Fixpoint Corr_eq (a b : list string) : bool :=
  match a, b with
  | [], [] => true
  | x :: a', y :: b' => String.eqb x y && Corr_eq a' b'
  | _, _ => false
  end.

(* ------------------------------------------------------------------ same key -> value map *)
Lemma lookup_in (r : conns) k v : NoDup (keys r) -> (lookup k r = Some v <-> In (k, v) r).
Proof.
  induction r as [|[k' v'] r IH]; simpl; intros Hn. { split; [discriminate|tauto]. }
  inversion Hn as [|? ? Hk Hn']; subst. destruct (String.eqb k k') eqn:E.
  - apply String.eqb_eq in E. subst k'. split.
    + intros H. inversion H. left; reflexivity.
    + intros [H|H]; [inversion H; reflexivity|]. exfalso. apply Hk. apply (in_map fst) in H. exact H.
  - rewrite (IH Hn'). split; [tauto|]. intros [H|H]; [|exact H].
    inversion H; subst. rewrite String.eqb_refl in E. discriminate.
Qed.

Lemma lookup_perm (r1 r2 : conns) : NoDup (keys r1) -> Permutation r1 r2 -> forall k, lookup k r1 = lookup k r2.
Proof.
  intros Hn HP k. assert (Hn2 : NoDup (keys r2)) by (apply (Permutation_NoDup (Permutation_map fst HP)); exact Hn).
  destruct (lookup k r1) as [v|] eqn:E1.
  - symmetry. apply (lookup_in r2 k v Hn2). apply (Permutation_in _ HP). apply (lookup_in r1 k v Hn). exact E1.
  - destruct (lookup k r2) as [v|] eqn:E2; [|reflexivity].
    apply (lookup_in r2 k v Hn2) in E2. apply (Permutation_in _ (Permutation_sym HP)) in E2.
    apply (lookup_in r1 k v Hn) in E2. congruence.
Qed.

Lemma nodup_keys_filt P (c : conns) : NoDup (keys c) -> NoDup (keys (filt P c)).
Proof.
  induction c as [|[k v] c IH]; simpl; intros Hn. { constructor. }
  inversion Hn as [|? ? Hk Hn']; subst. unfold filt. simpl. destruct (negb (mem k P)); simpl.
  - constructor; [|exact (IH Hn')]. intro Hi. apply Hk. exact (keys_filt_in _ _ _ Hi).
  - exact (IH Hn').
Qed.

Lemma nodup_pinned_result f c pi : WF f c pi -> NoDup (keys (filt pi c ++ flat_map (fo f) pi)).
Proof.
  intros [A B C E F G]. rewrite keys_app. apply nodup_app_intro.
  - apply nodup_keys_filt. exact A.
  - clear C F. induction pi as [|k pi IH]; simpl. { constructor. }
    inversion B as [|? ? Bk B']; subst. rewrite keys_app. apply nodup_app_intro.
    + apply E. left; reflexivity.
    + apply IH; [exact B' | intros; apply E; right; assumption | intros k1 k2 x H1 H2; apply G; right; assumption].
    + intros x Hx Hx2. apply keys_flat_map_in in Hx2. destruct Hx2 as [k' [Q1 Q2]].
      assert (k <> k') by (intro; subst; tauto).
      exact (G k k' x (or_introl eq_refl) (or_intror Q1) H Hx Q2).
  - intros x Hx Hx2. apply keys_flat_map_in in Hx2. destruct Hx2 as [k [Q1 Q2]].
    apply (F k x Q1 Q2). exact (keys_filt_in _ _ _ Hx).
Qed.

Lemma pinned_same_map f c pi1 pi2 r1 r2 : WF f c pi1 -> Permutation pi1 pi2 ->
  run_pinned f pi1 c = Ok r1 -> run_pinned f pi2 c = Ok r2 -> forall k, lookup k r1 = lookup k r2.
Proof.
  intros W HP H1 H2. pose proof (pinned_partition f c pi1 pi2 W HP) as HPP. rewrite H1, H2 in HPP.
  apply lookup_perm; [|exact HPP].
  destruct (all_ok_dec f pi1) as [Hok|[k [e [Hk He]]]].
  - rewrite (pinned_closed f c pi1 W Hok) in H1. inversion H1; subst. apply nodup_pinned_result. exact W.
  - destruct (run_loop_bad (step_pinned f) k (step_pinned_bad f k e He) pi1 Hk c) as [e1 X].
    unfold run_pinned in H1. congruence.
Qed.

(* ------------------------------------------------------------------ module level: PortRefs of several instances *)
Definition msubst (f : string -> flat_fn) (D : list bref) (m : mstate) : mstate :=
  map (fun ic => (fst ic, subst (f (fst ic)) (ports_of (fst ic) D) (snd ic))) m.

Lemma ports_of_app i a b : ports_of i (a ++ b) = ports_of i a ++ ports_of i b.
Proof. unfold ports_of. rewrite filter_app, map_app. reflexivity. Qed.

Lemma ports_of_perm i a b : Permutation a b -> Permutation (ports_of i a) (ports_of i b).
Proof. intros H. unfold ports_of. apply Permutation_map. apply perm_filter. exact H. Qed.

Lemma wf_prefix f c A B : WF f c (A ++ B) -> WF f c A.
Proof.
  intros [H1 H2 H3 H4 H5 H6]. destruct (nodup_app_inv _ _ H2) as [N1 _].
  constructor.
  - exact H1.
  - exact N1.
  - intros k Hk. apply H3. apply in_or_app; left; exact Hk.
  - intros k Hk. apply H4. apply in_or_app; left; exact Hk.
  - intros k x Hk. apply H5. apply in_or_app; left; exact Hk.
  - intros k1 k2 x Hk1 Hk2. apply H6; apply in_or_app; left; assumption.
Qed.

(* per-instance well-formedness of a module-level loop *)
Definition MWF (f : string -> flat_fn) (m : mstate) (D : list bref) : Prop :=
  NoDup (map fst m) /\ (forall r, In r D -> In (fst r) (map fst m)) /\
  forall i c, In (i, c) m -> WF (f i) c (ports_of i D).

Lemma upd_inst_hit i g : forall (m : mstate) c c', NoDup (map fst m) -> In (i, c) m -> g c = Ok c' ->
  upd_inst i g m = Ok (map (fun jc => if String.eqb i (fst jc) then (fst jc, c') else jc) m).
Proof.
  induction m as [|[j d] m IH]; simpl; intros c c' Hn Hi Hg. { tauto. }
  inversion Hn as [|? ? Hj Hn']; subst. destruct (String.eqb i j) eqn:E.
  - apply String.eqb_eq in E. subst j. destruct Hi as [Hi|Hi].
    + inversion Hi; subst. rewrite Hg. simpl. f_equal. f_equal.
      rewrite <- (map_id m) at 1. apply map_ext_in. intros [j d'] Hjd. simpl.
      destruct (String.eqb i j) eqn:E2; [|reflexivity]. apply String.eqb_eq in E2. subst.
      exfalso. apply Hj. apply (in_map fst) in Hjd. exact Hjd.
    + exfalso. apply Hj. apply (in_map fst) in Hi. exact Hi.
  - destruct Hi as [Hi|Hi]; [inversion Hi; subst; rewrite String.eqb_refl in E; discriminate|].
    rewrite (IH c c' Hn' Hi Hg). reflexivity.
Qed.

Lemma mrun_repaired_closed f m : forall pi done,
  MWF f m (done ++ pi) -> (forall r, In r pi -> exists l, f (fst r) (snd r) = Ok l) ->
  mrun step_repaired f pi (msubst f done m) = Ok (msubst f (done ++ pi) m).
Proof.
  induction pi as [|[i k] pi IH]; intros done W Hok.
  - rewrite app_nil_r. reflexivity.
  - destruct W as [W1 [W2 W3]]. cbn [mrun].
    assert (Hi : In i (map fst m)) by (apply (W2 (i, k)); apply in_or_app; right; left; reflexivity).
    apply in_map_iff in Hi. destruct Hi as [[i' c] [Hi1 Hi2]]. simpl in Hi1. subst i'.
    assert (Wc : WF (f i) c (ports_of i done ++ k :: ports_of i pi)).
    { pose proof (W3 i c Hi2) as Wc. rewrite ports_of_app in Wc. unfold ports_of at 2 in Wc.
      cbn [filter fst] in Wc. rewrite String.eqb_refl in Wc. cbn [map snd] in Wc. exact Wc. }
    assert (Wc1 : WF (f i) c (ports_of i done ++ [k])).
    { replace (ports_of i done ++ k :: ports_of i pi) with ((ports_of i done ++ [k]) ++ ports_of i pi) in Wc
        by (rewrite <- app_assoc; reflexivity). exact (wf_prefix _ _ _ _ Wc). }
    assert (Hstep : step_repaired (f i) (subst (f i) (ports_of i done) c) k = Ok (subst (f i) (ports_of i done ++ [k]) c)).
    { pose proof (run_repaired_closed (f i) c [k] (ports_of i done) Wc1) as H.
      cbn [run_repaired run_loop] in H.
      destruct (step_repaired (f i) (subst (f i) (ports_of i done) c) k) eqn:E; simpl in H.
      - apply H. intros k' [<-|[]]. exact (Hok (i, k) (or_introl eq_refl)).
      - assert (X : Error e = Ok (subst (f i) (ports_of i done ++ [k]) c)); [|discriminate].
        apply H. intros k' [<-|[]]. exact (Hok (i, k) (or_introl eq_refl)). }
    unfold mstep. cbn [fst snd].
    assert (Hin : In (i, subst (f i) (ports_of i done) c) (msubst f done m)).
    { unfold msubst. apply in_map_iff. exists (i, c). split; [reflexivity | exact Hi2]. }
    assert (Hnd : NoDup (map fst (msubst f done m))).
    { unfold msubst. rewrite map_map. simpl. exact W1. }
    rewrite (upd_inst_hit i _ _ _ _ Hnd Hin Hstep). simpl.
    replace (map _ (msubst f done m)) with (msubst f (done ++ [(i, k)]) m).
    + replace (done ++ (i, k) :: pi) with ((done ++ [(i, k)]) ++ pi) by (rewrite <- app_assoc; reflexivity).
      apply IH.
      * rewrite <- app_assoc. exact (conj W1 (conj W2 W3)).
      * intros r Hr. apply Hok. right; exact Hr.
    + unfold msubst. rewrite map_map. apply map_ext_in. intros [j d] Hjd. simpl.
      rewrite ports_of_app. destruct (String.eqb i j) eqn:E.
      * apply String.eqb_eq in E. subst j.
        assert (d = c). { clear -W1 Hjd Hi2. induction m as [|[a b] m IH]; simpl in *; [tauto|].
          inversion W1; subst. destruct Hjd as [H|H]; destruct Hi2 as [H'|H'].
          - congruence.
          - inversion H; subst. exfalso. apply H1. apply (in_map fst) in H'. exact H'.
          - inversion H'; subst. exfalso. apply H1. apply (in_map fst) in H. exact H.
          - auto. }
        subst d. unfold ports_of at 2. simpl. rewrite String.eqb_refl. reflexivity.
      * unfold ports_of at 2. simpl. rewrite E. simpl. rewrite app_nil_r. reflexivity.
Qed.

Lemma msubst_nil f m : msubst f [] m = m.
Proof.
  unfold msubst. rewrite <- (map_id m) at 2. apply map_ext. intros [i c]. simpl.
  unfold ports_of. simpl. rewrite subst_nil. reflexivity.
Qed.

Lemma msubst_perm f D1 D2 m : Permutation D1 D2 -> msubst f D1 m = msubst f D2 m.
Proof.
  intros HP. unfold msubst. apply map_ext. intros [i c]. simpl. f_equal.
  apply subst_ext. intros x _. apply mem_perm. apply ports_of_perm. exact HP.
Qed.

Lemma mwf_perm f m D1 D2 : Permutation D1 D2 -> MWF f m D1 -> MWF f m D2.
Proof.
  intros HP [A [B C]]. split; [|split].
  - exact A.
  - intros r Hr. apply B. apply (Permutation_in _ (Permutation_sym HP)). exact Hr.
  - intros j c Hic. apply (wf_perm _ _ (ports_of j D1)); [apply ports_of_perm; exact HP | exact (C j c Hic)].
Qed.

Lemma upd_inst_err i g (Hg : forall c e, g c = Error e -> e = EMissing) :
  forall (m : mstate) e, upd_inst i g m = Error e -> e = EMissing.
Proof.
  induction m as [|[j c] m IH]; simpl; intros e H. { inversion H; reflexivity. }
  destruct (String.eqb i j).
  - destruct (g c) eqn:E; simpl in H; [discriminate | inversion H; subst; exact (Hg _ _ E)].
  - destruct (upd_inst i g m) eqn:E; simpl in H; [discriminate | inversion H; subst; exact (IH _ eq_refl)].
Qed.

Lemma upd_inst_bad i g (Hg : forall c, exists e, g c = Error e) :
  forall (m : mstate), exists e, upd_inst i g m = Error e.
Proof.
  induction m as [|[j c] m IH]; simpl. { eauto. }
  destruct (String.eqb i j).
  - destruct (Hg c) as [e He]. rewrite He. simpl. eauto.
  - destruct IH as [e He]. rewrite He. simpl. eauto.
Qed.

Lemma mrun_err f pi : forall m e, mrun step_repaired f pi m = Error e -> e = EMissing.
Proof.
  induction pi as [|r pi IH]; simpl; intros m e H. { discriminate. }
  destruct (mstep step_repaired f m r) eqn:E; simpl in H; [exact (IH _ _ H)|].
  inversion H; subst. unfold mstep in E. apply (upd_inst_err _ _ (fun c e => step_repaired_err (f (fst r)) c (snd r) e) _ _ E).
Qed.

Lemma mrun_bad f r e pi : f (fst r) (snd r) = Error e -> In r pi ->
  forall m, exists e', mrun step_repaired f pi m = Error e'.
Proof.
  intros He. induction pi as [|r' pi IH]; simpl; intros Hi m. { tauto. }
  destruct (mstep step_repaired f m r') eqn:E; simpl; [|eauto].
  destruct Hi as [->|Hi]; [|exact (IH Hi _)].
  unfold mstep in E. destruct (upd_inst_bad (fst r) _ (step_repaired_bad (f (fst r)) (snd r) e He) m) as [e' He'].
  congruence.
Qed.

Lemma mall_ok_dec (f : string -> flat_fn) (pi : list (string * key)) :
  (forall r, In r pi -> exists l, f (fst r) (snd r) = Ok l) \/ (exists r e, In r pi /\ f (fst r) (snd r) = Error e).
Proof.
  induction pi as [|r pi IH]. { left. intros r []. }
  destruct (f (fst r) (snd r)) eqn:E.
  - destruct IH as [IH|[r' [e [A B]]]]; [left | right; exists r', e; split; [right; exact A | exact B]].
    intros r' [<-|Hr]; eauto.
  - right. exists r, e. split; [left; reflexivity | exact E].
Qed.

Lemma mrepaired_order_irrelevant f m pi1 pi2 : MWF f m pi1 -> Permutation pi1 pi2 ->
  mrun step_repaired f pi1 m = mrun step_repaired f pi2 m.
Proof.
  intros W HP. destruct (mall_ok_dec f pi1) as [Hok|[r [e [Hr He]]]].
  - pose proof (mrun_repaired_closed f m pi1 [] W Hok) as H1. rewrite msubst_nil in H1. simpl in H1.
    assert (Hok2 : forall r, In r pi2 -> exists l, f (fst r) (snd r) = Ok l).
    { intros r Hr. apply Hok. apply (Permutation_in _ (Permutation_sym HP)). exact Hr. }
    pose proof (mrun_repaired_closed f m pi2 [] (mwf_perm _ _ _ _ HP W) Hok2) as H2. rewrite msubst_nil in H2. simpl in H2.
    rewrite H1, H2. f_equal. apply msubst_perm. exact HP.
  - destruct (mrun_bad f r e pi1 He Hr m) as [e1 H1].
    destruct (mrun_bad f r e pi2 He (Permutation_in _ HP Hr) m) as [e2 H2].
    rewrite H1, H2, (mrun_err _ _ _ _ H1), (mrun_err _ _ _ _ H2). reflexivity.
Qed.

Definition mwf (f : string -> flat_fn) (m : mstate) (D : list (string * key)) : bool :=
  nodupb (map fst m) && forallb (fun r => mem (fst r) (map fst m)) D &&
  forallb (fun ic => wf_loop (f (fst ic)) (snd ic) (ports_of (fst ic) D)) m.

Lemma mwf_spec f m D : mwf f m D = true -> MWF f m D.
Proof.
  unfold mwf. intros H. apply andb_prop in H. destruct H as [H H3]. apply andb_prop in H. destruct H as [H1 H2].
  rewrite forallb_forall in H2, H3. split; [|split].
  - apply nodupb_spec. exact H1.
  - intros r Hr. apply mem_In. exact (H2 r Hr).
  - intros j c Hic. apply wf_loop_spec. exact (H3 (j, c) Hic).
Qed.
