(* Proofs/C09FailProofs.v — the invariant of the generator cache over ALL histories, including calls that raise
   (Model/C09GenFail.v, policy StoreNamed = the code). *)
Require Import Hdl21.Base.PyInt Hdl21.Model.GenCache Hdl21.Model.C09GenFail Hdl21.Proofs.GenCacheProofs.
From Coq Require Import String.
Open Scope list_scope.

Section ProofsF.
Variable K : Type.
Variable keqb : K -> K -> bool.
Hypothesis keqb_eq : forall a b, keqb a b = true <-> a = b.
Variable prog : K -> body K.
Variable gen_name : K -> string.
Variable has_params : K -> bool.
Variable suffix : K -> option string.

Notation runf := (run_f keqb prog gen_name has_params suffix StoreNamed).
Notation histf := (hist_f keqb prog gen_name has_params suffix StoreNamed).
Notation hist_fromf := (hist_from keqb prog gen_name has_params suffix StoreNamed).
Notation lookup := (lookup keqb).
Notation memk := (memk keqb).
Notation removek := (removek keqb).
Notation cname := (created_name prog gen_name has_params (sfx suffix)).
Notation Origin := (Origin prog).
Notation nameok := (name_ok has_params suffix).
Notation nruns := (nruns keqb).
Notation Doomed := (Doomed prog has_params suffix).
Notation Calls := (Calls prog).
Notation CallsPlus := (CallsPlus prog).
Notation Bad := (Bad prog has_params suffix).

Let krefl := keqb_refl K keqb keqb_eq.
Let kneq := keqb_neq K keqb keqb_eq.
Let lk_None := lookup_None K keqb keqb_eq prog gen_name has_params (sfx suffix).
Let lk_in := lookup_Some_in K keqb keqb_eq prog gen_name has_params (sfx suffix).
Let mem_false := memk_false K keqb keqb_eq prog gen_name has_params (sfx suffix).
Let rem_head := removek_head K keqb keqb_eq prog gen_name has_params (sfx suffix).

Lemma in_lookup k l : In k (map fst l) -> exists m, lookup k l = Some m.
Proof.
  intros H. destruct (lookup k l) as [m|] eqn:E; [exists m; reflexivity|]. apply lk_None in E. contradiction.
Qed.

Lemma nruns_cons_other k k0 st : k <> k0 -> nruns k (enter k0 st) = nruns k st.
Proof.
  intros N. unfold C09GenFail.nruns, enter. cbn [runs]. simpl. apply kneq in N. rewrite N. reflexivity.
Qed.

Lemma nruns_cons_same k st : nruns k (enter k st) = S (nruns k st).
Proof. unfold C09GenFail.nruns, enter. cbn [runs]. simpl. rewrite krefl. reflexivity. Qed.

(* ---------- the invariant ---------- *)
Record InvF (st : state K) : Prop := {
  F_runs : forall k, In k (map fst (done st)) \/ In k (pending st) -> In k (runs st);
  F_disj : forall k, In k (pending st) -> ~ In k (map fst (done st));
  F_done : forall k m, lookup k (done st) = Some m ->
           exists gm, nth_error (heap st) m = Some gm /\ Origin k (m_creator gm);
  F_name : forall m gm, nth_error (heap st) m = Some gm ->
           m_name gm = cname (m_creator gm) /\ nameok (m_creator gm) = true /\ exists o, b_ret (prog (m_creator gm)) = RFresh o;
  F_creat : NoDup (map m_creator (heap st));
  F_creat_done : forall gm, In gm (heap st) -> In (m_creator gm) (map fst (done st));
  (* the cache is filled in completion order: a call completes after the calls its body makes, and once *)
  F_order : forall l1 k m l2, done st = l1 ++ (k, m) :: l2 ->
            (forall k', Calls k k' -> In k' (map fst l2)) /\ ~ In k (map fst l2);
  F_fresh_ok : forall k o, In k (map fst (done st)) -> b_ret (prog k) = RFresh o -> nameok k = true;
  F_pass_ok : forall k i, In k (map fst (done st)) -> b_ret (prog k) = RPass i -> nth_error (b_calls (prog k)) i <> None
}.

Definition ExtF (st st' : state K) : Prop :=
  (forall k m, lookup k (done st) = Some m -> lookup k (done st') = Some m) /\
  (exists l, heap st' = heap st ++ l) /\
  (exists l, runs st' = l ++ runs st) /\
  (forall k, In k (map fst (done st)) -> nruns k st' = nruns k st).

Lemma ExtF_refl st : ExtF st st.
Proof. repeat split; auto; exists []; [rewrite app_nil_r|]; reflexivity. Qed.

Lemma ExtF_in a b k : ExtF a b -> In k (map fst (done a)) -> In k (map fst (done b)).
Proof. intros [D _] H. destruct (in_lookup _ _ H) as [m L]. apply D in L. eapply lk_in. eassumption. Qed.

Lemma ExtF_trans a b c : ExtF a b -> ExtF b c -> ExtF a c.
Proof.
  intros E1 E2. pose proof (fun k => ExtF_in a b k E1) as In1.
  destruct E1 as [D1 [[h1 H1] [[r1 R1] N1]]]. destruct E2 as [D2 [[h2 H2] [[r2 R2] N2]]]. repeat split.
  - auto.
  - exists (h1 ++ h2). rewrite H2, H1, app_assoc. reflexivity.
  - exists (r2 ++ r1). rewrite R2, R1, app_assoc. reflexivity.
  - intros k H. rewrite N2, N1; auto.
Qed.

Definition PostF (st : state K) (k : K) (st' : state K) (o : outcome) : Prop :=
  InvF st' /\ pending st' = pending st /\ stack st' = stack st /\ ExtF st st' /\
  match o with Ret m => lookup k (done st') = Some m | Raise _ => True end.

Definition GoodF (r : state K -> K -> state K * outcome) : Prop :=
  forall st k st' o, InvF st -> r st k = (st', o) -> PostF st k st' o.

Lemma fold_goodF r : GoodF r -> forall ks st st' fo, InvF st -> fold_f r st ks = (st', fo) ->
  InvF st' /\ pending st' = pending st /\ stack st' = stack st /\ ExtF st st' /\
  match fo with FRet ms => Forall2 (fun k m => lookup k (done st') = Some m) ks ms | FRaise _ => True end.
Proof.
  intros G. induction ks as [|k ks IH]; intros st st' fo I H; simpl in H.
  - inversion H; subst. split5; auto using ExtF_refl.
  - destruct (r st k) as [st1 [m|e]] eqn:R.
    + destruct (G _ _ _ _ I R) as [I1 [P1 [S1 [E1 L1]]]].
      destruct (fold_f r st1 ks) as [st2 [ms|e]] eqn:F; inversion H; subst; clear H;
        destruct (IH _ _ _ I1 F) as [I2 [P2 [S2 [E2 F2]]]]; (split5; [assumption|congruence|congruence|eapply ExtF_trans; eassumption|]).
      * constructor; [|assumption]. destruct E2 as [D2 _]. apply D2. assumption.
      * constructor.
    + inversion H; subst. destruct (G _ _ _ _ I R) as [I1 [P1 [S1 [E1 _]]]]. split5; auto.
Qed.

Lemma inv_enterF st k : InvF st -> lookup k (done st) = None -> InvF (enter k st).
Proof.
  intros I L. destruct I. constructor; unfold enter; cbn [done pending stack heap runs]; try assumption.
  - intros k' [H|[H|H]]; [right; apply F_runs0; auto|left; assumption|right; apply F_runs0; auto].
  - intros k' [<-|H]; [apply lk_None; assumption|auto].
Qed.

Lemma ExtF_enter st k : lookup k (done st) = None -> ExtF st (enter k st).
Proof.
  intros L. unfold ExtF, enter. cbn [done heap runs]. repeat split; auto.
  - exists []. rewrite app_nil_r. reflexivity.
  - exists [k]. reflexivity.
  - intros k' H. apply (nruns_cons_other k' k st). intros ->. apply lk_None in L. contradiction.
Qed.

(* leaving without a result: only the bookkeeping changes *)
Lemma inv_leaveF st2 k p : InvF st2 -> pending st2 = k :: p -> ~ In k p -> InvF (leave keqb k st2) /\ pending (leave keqb k st2) = p.
Proof.
  intros I P N. assert (removek k (pending st2) = p) as RP by (rewrite P; apply rem_head; assumption).
  split; [|exact RP]. destruct I. constructor; unfold leave; cbn [done pending stack heap runs]; try assumption.
  - intros k' [H|H]; apply F_runs0; [auto|]. right. rewrite RP in H. rewrite P. right. assumption.
  - intros k' H. apply F_disj0. rewrite RP in H. rewrite P. right. assumption.
Qed.

Lemma ExtF_leave st2 k : ExtF st2 (leave keqb k st2).
Proof.
  unfold ExtF, leave. cbn [done heap runs]. repeat split; auto; exists []; [rewrite app_nil_r|]; reflexivity.
Qed.

Lemma ExtF_store st2 k m hp l : hp = heap st2 ++ l -> ~ In k (map fst (done st2)) -> ExtF st2 (store keqb k m hp st2).
Proof.
  intros -> ND. unfold ExtF, store. cbn [done heap runs]. repeat split; auto.
  - intros k' m' H'. simpl. destruct (keqb k' k) eqn:E; [|assumption].
    apply keqb_eq in E. subst. apply lk_in in H'. contradiction.
  - exists l. reflexivity.
  - exists []. reflexivity.
Qed.

Lemma done_split_cons (k : K) (m : nat) (d : list (K * nat)) l1 k0 m0 l2 :
  (k, m) :: d = l1 ++ (k0, m0) :: l2 -> (l1 = [] /\ k0 = k /\ m0 = m /\ l2 = d) \/ (exists l1', l1 = (k, m) :: l1' /\ d = l1' ++ (k0, m0) :: l2).
Proof.
  destruct l1 as [|x l1']; simpl; intros H; inversion H; subst; [left; auto|right; eauto].
Qed.

Lemma run_goodF : forall fuel, GoodF (runf fuel).
Proof.
  induction fuel as [|f IHf]; intros st k st' oc I H; simpl in H.
  { inversion H; subst. split5; auto using ExtF_refl. }
  destruct (lookup k (done st)) as [m0|] eqn:L.
  { inversion H; subst. split5; auto using ExtF_refl. }
  destruct (memk k (pending st)) eqn:M.
  { inversion H; subst. split5; auto using ExtF_refl. }
  pose proof (inv_enterF st k I L) as I1.
  assert (~ In k (pending st)) as NP by (apply mem_false; assumption).
  destruct (fold_f (runf f) (enter k st) (b_calls (prog k))) as [st2 fo] eqn:F.
  destruct (fold_goodF _ IHf _ _ _ _ I1 F) as [I2 [P2 [S2 [E2 F2]]]].
  unfold enter in P2, S2. cbn [pending stack] in P2, S2.
  pose proof (ExtF_trans _ _ _ (ExtF_enter st k L) E2) as E02.
  assert (~ In k (map fst (done st2))) as ND.
  { apply (F_disj _ I2). rewrite P2. left. reflexivity. }
  (* the three ways to leave without a result *)
  assert (forall e, PostF st k (leave keqb k st2) (Raise e)) as Leave.
  { intros e. destruct (inv_leaveF st2 k (pending st) I2 P2 NP) as [I3 P3]. split5; [exact I3|exact P3| |eapply ExtF_trans; [exact E02|apply ExtF_leave]|constructor].
    unfold leave. cbn [stack]. rewrite S2. reflexivity. }
  destruct fo as [ms|e]; [|inversion H; subst; apply Leave].
  assert (forall k', Calls k k' -> In k' (map fst (done st2))) as Callees.
  { intros k' Hk'. unfold C09GenFail.Calls in Hk'. apply In_nth_error in Hk'. destruct Hk' as [n Hn].
    destruct (nth_error ms n) as [mn|] eqn:Mn.
    - eapply lk_in. eapply (Forall2_nth _ _ _ F2); eassumption.
    - exfalso. apply Forall2_len in F2. apply nth_error_None in Mn. assert (nth_error (b_calls (prog k)) n <> None) as Q by congruence.
      apply nth_error_Some in Q. lia. }
  assert (removek k (pending st2) = pending st) as RP by (rewrite P2; apply rem_head; assumption).
  (* what storing a result preserves, whatever the module *)
  assert (forall m hp,
            (forall k' m', lookup k' ((k, m) :: done st2) = Some m' -> exists gm, nth_error hp m' = Some gm /\ Origin k' (m_creator gm)) ->
            (forall m' gm, nth_error hp m' = Some gm ->
               m_name gm = cname (m_creator gm) /\ nameok (m_creator gm) = true /\ exists o, b_ret (prog (m_creator gm)) = RFresh o) ->
            NoDup (map m_creator hp) ->
            (forall gm, In gm hp -> In (m_creator gm) (map fst ((k, m) :: done st2))) ->
            (forall o, b_ret (prog k) = RFresh o -> nameok k = true) ->
            (forall i, b_ret (prog k) = RPass i -> nth_error (b_calls (prog k)) i <> None) ->
            InvF (store keqb k m hp st2)) as Store.
  { intros m hp Hdone Hname Hcreat Hcd Hfresh Hpass. destruct I2.
    constructor; unfold store; cbn [done pending stack heap runs]; try assumption.
    - rewrite RP. intros k' [[E|Hx]|Hx].
      + simpl in E. subst k'. apply F_runs0. right. rewrite P2. left. reflexivity.
      + apply F_runs0. left. assumption.
      + apply F_runs0. right. rewrite P2. right. assumption.
    - rewrite RP. intros k' Hk' [E|Hd]; [simpl in E; congruence|].
      apply (F_disj0 k'); [rewrite P2; right; assumption|assumption].
    - intros l1 k0 m0 l2 Hs. apply done_split_cons in Hs. destruct Hs as [[-> [-> [-> ->]]]|[l1' [-> Hs]]].
      + split; assumption.
      + apply (F_order0 _ _ _ _ Hs).
    - intros k' o [E|Hd] R'; [simpl in E; subst k'; eapply Hfresh; eassumption|eapply F_fresh_ok0; eassumption].
    - intros k' i [E|Hd] R'; [simpl in E; subst k'; apply Hpass; assumption|eapply F_pass_ok0; eassumption]. }
  destruct (b_ret (prog k)) as [o|i] eqn:R.
  - (* the body created its module *)
    destruct (nameok k) eqn:NK; [|inversion H; subst; apply Leave].
    inversion H; subst; clear H.
    set (gm := {| m_name := fresh_name gen_name has_params (sfx suffix) k o; m_creator := k |}).
    split5.
    + apply Store.
      * intros k' m' H'. simpl in H'. destruct (keqb k' k) eqn:E.
        -- apply keqb_eq in E. inversion H'; subst. exists gm. split.
           ++ rewrite nth_error_app2 by lia. rewrite Nat.sub_diag. reflexivity.
           ++ eapply O_fresh. eassumption.
        -- destruct (F_done _ I2 _ _ H') as [g [Hg Og]]. exists g. split; [apply nth_error_app_old; assumption|assumption].
      * intros m' g Hg. destruct (Nat.lt_ge_cases m' (List.length (heap st2))) as [Hl|Hl].
        -- rewrite nth_error_app1 in Hg by assumption. apply (F_name _ I2 _ _ Hg).
        -- rewrite nth_error_app2 in Hg by assumption.
           destruct (m' - List.length (heap st2))%nat as [|n]; simpl in Hg; [|destruct n; discriminate].
           inversion Hg as [Hg']. unfold gm. cbn [m_name m_creator]. unfold created_name. rewrite R. eauto.
      * rewrite map_app. simpl. apply NoDup_snoc.
        -- apply (F_creat _ I2).
        -- intros Hin. apply in_map_iff in Hin. destruct Hin as [g [Eg Hg]]. apply (F_creat_done _ I2) in Hg.
           rewrite Eg in Hg. contradiction.
      * intros g Hg. apply in_app_or in Hg. destruct Hg as [Hg|[<-|[]]].
        -- right. apply (F_creat_done _ I2). assumption.
        -- left. reflexivity.
      * intros o' _. reflexivity.
      * intros i' Q. discriminate.
    + unfold store. cbn [pending]. exact RP.
    + unfold store. cbn [stack]. rewrite S2. reflexivity.
    + eapply ExtF_trans; [exact E02|eapply ExtF_store; [reflexivity|assumption]].
    + unfold store. cbn [done]. simpl. rewrite krefl. reflexivity.
  - (* the module of the i-th nested call, handed on *)
    destruct (nth_error ms i) as [mi|] eqn:N; [|inversion H; subst; apply Leave].
    inversion H; subst; clear H.
    destruct (Forall2_nth_right _ _ _ F2 _ _ N) as [ki [Nk Lk]].
    split5.
    + apply Store.
      * intros k' m' H'. simpl in H'. destruct (keqb k' k) eqn:E.
        -- apply keqb_eq in E. inversion H'; subst.
           destruct (F_done _ I2 _ _ Lk) as [g [Hg Og]]. exists g. split; [assumption|].
           eapply O_pass; eassumption.
        -- apply (F_done _ I2 _ _ H').
      * apply (F_name _ I2).
      * apply (F_creat _ I2).
      * intros g Hg. right. apply (F_creat_done _ I2). assumption.
      * intros o Q. discriminate.
      * intros i' Q. inversion Q; subst. congruence.
    + unfold store. cbn [pending]. exact RP.
    + unfold store. cbn [stack]. rewrite S2. reflexivity.
    + eapply ExtF_trans; [exact E02|]. apply (ExtF_store st2 k mi (heap st2) []); [symmetry; apply app_nil_r|assumption].
    + unfold store. cbn [done]. simpl. rewrite krefl. reflexivity.
Qed.

(* ---------- histories ---------- *)
Lemma InvF_init : InvF init.
Proof.
  constructor; simpl.
  - intros k [[]|[]].
  - intros k [].
  - intros k m H. discriminate.
  - intros m gm H. destruct m; discriminate.
  - constructor.
  - intros gm [].
  - intros l1 k m l2 H. destruct l1; discriminate.
  - intros k o [].
  - intros k i [].
Qed.

(* what a history establishes from any good state; the outcomes are positionwise *)
Lemma hist_from_inv fuel : forall ks st st' os, InvF st -> hist_fromf fuel st ks = (st', os) ->
  InvF st' /\ pending st' = pending st /\ stack st' = stack st /\ ExtF st st' /\ List.length os = List.length ks /\
  (forall i k m, nth_error ks i = Some k -> nth_error os i = Some (Ret m) -> lookup k (done st') = Some m).
Proof.
  induction ks as [|k ks IH]; intros st st' os I H; simpl in H.
  - inversion H; subst. split; [assumption|]. split; [reflexivity|]. split; [reflexivity|]. split; [apply ExtF_refl|].
    split; [reflexivity|]. intros i k m Hk. destruct i; discriminate.
  - destruct (runf fuel st k) as [st1 o] eqn:R. cbn [fst snd] in H.
    destruct (hist_fromf fuel st1 ks) as [st2 os2] eqn:Hh. cbn [fst snd] in H. inversion H; subst; clear H.
    destruct (run_goodF fuel _ _ _ _ I R) as [I1 [P1 [S1 [E1 L1]]]].
    destruct (IH _ _ _ I1 Hh) as [I2 [P2 [S2 [E2 [Len Hpos]]]]].
    split; [assumption|]. split; [congruence|]. split; [congruence|]. split; [eapply ExtF_trans; eassumption|].
    split; [simpl; congruence|].
    intros i k' m Hk Ho. destruct i as [|i]; simpl in Hk, Ho.
    + inversion Hk; inversion Ho; subst. destruct E2 as [D2 _]. apply D2. exact L1.
    + eapply Hpos; eassumption.
Qed.

Lemma histf_inv fuel ks st os : histf fuel ks = (st, os) ->
  InvF st /\ pending st = [] /\ stack st = [] /\ List.length os = List.length ks /\
  (forall i k m, nth_error ks i = Some k -> nth_error os i = Some (Ret m) -> lookup k (done st) = Some m).
Proof.
  intros H. destruct (hist_from_inv fuel _ _ _ _ InvF_init H) as [I [P [S [_ [Len Hp]]]]]. auto.
Qed.

(* splitting a history at a position *)
Lemma hist_from_app fuel : forall ks1 ks2 st,
  hist_fromf fuel st (ks1 ++ ks2) =
  (fst (hist_fromf fuel (fst (hist_fromf fuel st ks1)) ks2), snd (hist_fromf fuel st ks1) ++ snd (hist_fromf fuel (fst (hist_fromf fuel st ks1)) ks2)).
Proof.
  induction ks1 as [|k ks1 IH]; intros ks2 st; simpl.
  - destruct (hist_fromf fuel st ks2); reflexivity.
  - rewrite IH. reflexivity.
Qed.

(* 1. the bookkeeping of the cache is restored by EVERY call of every history, failed ones included *)
Lemma clean_after fuel ks st os : histf fuel ks = (st, os) -> pending st = [] /\ stack st = [].
Proof. intros H. destruct (histf_inv _ _ _ _ H) as [_ [P [S _]]]. auto. Qed.

(* 2. equal parameters -> the identical module, whatever failed in between *)
Lemma memo_sameF fuel ks st os i j k mi mj : histf fuel ks = (st, os) ->
  nth_error ks i = Some k -> nth_error ks j = Some k ->
  nth_error os i = Some (Ret mi) -> nth_error os j = Some (Ret mj) -> mi = mj.
Proof.
  intros H Ki Kj Oi Oj. destruct (histf_inv _ _ _ _ H) as [_ [_ [_ [_ Hp]]]].
  pose proof (Hp _ _ _ Ki Oi) as A. pose proof (Hp _ _ _ Kj Oj) as B. congruence.
Qed.

Lemma nth_error_app_r {A} (l1 l2 : list A) j : nth_error (l1 ++ l2) (List.length l1 + j) = nth_error l2 j.
Proof. rewrite nth_error_app2 by lia. f_equal. lia. Qed.

(* 3. once a call has returned a module, every later call with equal parameters returns that module: it is never
      refused later, and its body is not run again *)
Lemma accepted_stays fuel ks st os i j k m : histf fuel ks = (st, os) -> (0 < fuel)%nat -> (i <= j)%nat ->
  nth_error ks i = Some k -> nth_error ks j = Some k -> nth_error os i = Some (Ret m) -> nth_error os j = Some (Ret m).
Proof.
  intros H Fu Le Ki Kj Oi.
  (* cut the history before position j *)
  assert (exists ks1 ks2, ks = ks1 ++ k :: ks2 /\ List.length ks1 = j) as [ks1 [ks2 [Eks Lj]]].
  { apply nth_error_split in Kj. destruct Kj as [l1 [l2 [E Ln]]]. eauto. }
  unfold hist_f in H. rewrite Eks, hist_from_app in H.
  destruct (hist_fromf fuel init ks1) as [sta osa] eqn:Ha. cbn [fst snd] in H.
  destruct (hist_from_inv fuel _ _ _ _ InvF_init Ha) as [Ia [_ [_ [_ [Lena Hpa]]]]].
  simpl in H. destruct (runf fuel sta k) as [stb ob] eqn:Rb. cbn [fst snd] in H.
  inversion H as [[Hst Hos]]. clear H.
  assert (nth_error os j = Some ob) as Oj.
  { rewrite <- Hos, <- Lj, <- Lena. replace (List.length osa) with (List.length osa + 0)%nat by lia. rewrite nth_error_app_r. reflexivity. }
  rewrite Hos, Oj. f_equal.
  destruct (Nat.eq_dec i j) as [->|Nij]; [congruence|].
  assert (i < List.length ks1)%nat as Li by lia.
  assert (nth_error ks1 i = Some k) as Ki1.
  { rewrite Eks in Ki. rewrite nth_error_app1 in Ki by assumption. assumption. }
  assert (nth_error osa i = Some (Ret m)) as Oi1.
  { rewrite <- Hos in Oi. rewrite nth_error_app1 in Oi by lia. assumption. }
  pose proof (Hpa _ _ _ Ki1 Oi1) as Lk.
  destruct fuel as [|f]; [lia|]. simpl in Rb. rewrite Lk in Rb. inversion Rb. reflexivity.
Qed.

(* 4. every module a history hands out carries the name given by its creating call, and naming that call did not fail:
      a module of a parametric generator never lacks its parameter suffix *)
Lemma returned_moduleF fuel ks st os i k m : histf fuel ks = (st, os) ->
  nth_error ks i = Some k -> nth_error os i = Some (Ret m) ->
  exists gm, nth_error (heap st) m = Some gm /\ Origin k (m_creator gm) /\ m_name gm = cname (m_creator gm) /\
             nameok (m_creator gm) = true.
Proof.
  intros H Ki Oi. destruct (histf_inv _ _ _ _ H) as [I [_ [_ [_ Hp]]]].
  pose proof (Hp _ _ _ Ki Oi) as L. destruct (F_done _ I _ _ L) as [gm [Hg Og]]. exists gm.
  destruct (F_name _ I _ _ Hg) as [A [B _]]. auto.
Qed.

(* 5. doomed calls are never in the cache ... *)
Lemma doomed_not_done st k : InvF st -> Doomed k -> ~ In k (map fst (done st)).
Proof.
  intros I D. induction D as [k o R N|k i R N|k k' C D IH]; intros H.
  - rewrite (F_fresh_ok _ I _ _ H R) in N. discriminate.
  - apply (F_pass_ok _ I _ _ H R). assumption.
  - apply IH. apply in_split in H. destruct H as [l1 [l2 E]].
    assert (exists m, In (k, m) (done st)) as [m Hm].
    { clear -E. revert l1 l2 E. induction (done st) as [|[a b] d IHd]; intros l1 l2 E; [destruct l1; discriminate|].
      destruct l1 as [|x l1]; simpl in E; inversion E; subst; [exists b; left; reflexivity|].
      destruct (IHd _ _ H1) as [m Hm]. exists m. right. assumption. }
    apply in_split in Hm. destruct Hm as [d1 [d2 Ed]].
    destruct (F_order _ I _ _ _ _ Ed) as [Cl _]. specialize (Cl _ C).
    rewrite Ed, map_app. apply in_or_app. right. right. assumption.
Qed.

(* ... so a doomed call is refused at every position of every history: refused, and refused again *)
Lemma doomed_refused fuel ks st os i k : histf fuel ks = (st, os) -> Doomed k -> nth_error ks i = Some k ->
  exists e, nth_error os i = Some (Raise e).
Proof.
  intros H D Ki. destruct (histf_inv _ _ _ _ H) as [I [_ [_ [Len Hp]]]].
  destruct (nth_error os i) as [[m|e]|] eqn:Oi.
  - exfalso. apply (doomed_not_done st k I D). eapply lk_in. eapply Hp; eassumption.
  - eauto.
  - exfalso. apply nth_error_None in Oi. assert (nth_error ks i <> None) as Q by congruence. apply nth_error_Some in Q. lia.
Qed.

(* 6. the name of the module returned for a call is the same in every history, whatever else was called or refused *)
Lemma name_history_freeF f1 f2 ks1 ks2 st1 st2 os1 os2 i j k m1 m2 g1 g2 :
  histf f1 ks1 = (st1, os1) -> histf f2 ks2 = (st2, os2) ->
  nth_error ks1 i = Some k -> nth_error ks2 j = Some k ->
  nth_error os1 i = Some (Ret m1) -> nth_error os2 j = Some (Ret m2) ->
  nth_error (heap st1) m1 = Some g1 -> nth_error (heap st2) m2 = Some g2 ->
  m_name g1 = m_name g2.
Proof.
  intros H1 H2 K1 K2 M1 M2 G1 G2.
  destruct (returned_moduleF _ _ _ _ _ _ _ H1 K1 M1) as [a [Ga [Oa [Na _]]]].
  destruct (returned_moduleF _ _ _ _ _ _ _ H2 K2 M2) as [b [Gb [Ob [Nb _]]]].
  rewrite G1 in Ga. rewrite G2 in Gb. inversion Ga; inversion Gb; subst.
  rewrite Na, Nb. f_equal. eapply (Origin_fun K prog); eassumption.
Qed.

(* 7. two calls return the same module exactly when their hand-on chains end at the same creating call *)
Lemma same_module_iffF fuel ks st os i j ki kj mi mj ci cj : histf fuel ks = (st, os) ->
  nth_error ks i = Some ki -> nth_error ks j = Some kj ->
  nth_error os i = Some (Ret mi) -> nth_error os j = Some (Ret mj) ->
  Origin ki ci -> Origin kj cj -> (mi = mj <-> ci = cj).
Proof.
  intros H Ki Kj Mi Mj Oi Oj.
  destruct (returned_moduleF _ _ _ _ _ _ _ H Ki Mi) as [gi [Gi [Oi' _]]].
  destruct (returned_moduleF _ _ _ _ _ _ _ H Kj Mj) as [gj [Gj [Oj' _]]].
  pose proof (Origin_fun K prog _ _ Oi _ Oi') as Ei. pose proof (Origin_fun K prog _ _ Oj _ Oj') as Ej.
  destruct (histf_inv _ _ _ _ H) as [I _]. split.
  - intros <-. rewrite Gi in Gj. inversion Gj; subst. congruence.
  - intros E. eapply (NoDup_map_nth m_creator); [apply (F_creat _ I)|eassumption|eassumption|congruence].
Qed.

(* 8. if the naming function is injective on the calls that create modules, no two modules of a history share a name *)
Lemma heap_names_uniqueF fuel ks st os m1 m2 g1 g2 : histf fuel ks = (st, os) ->
  (forall c1 c2, In c1 (map m_creator (heap st)) -> In c2 (map m_creator (heap st)) -> cname c1 = cname c2 -> c1 = c2) ->
  nth_error (heap st) m1 = Some g1 -> nth_error (heap st) m2 = Some g2 -> m_name g1 = m_name g2 -> m1 = m2.
Proof.
  intros H Inj G1 G2 E. destruct (histf_inv _ _ _ _ H) as [I _].
  destruct (F_name _ I _ _ G1) as [N1 _]. destruct (F_name _ I _ _ G2) as [N2 _]. rewrite N1, N2 in E.
  eapply (NoDup_map_nth m_creator); [apply (F_creat _ I)|eassumption|eassumption|].
  apply Inj; try assumption; apply in_map; eapply nth_error_In; eassumption.
Qed.

(* 9. a body is not run again once its call is in the cache: the number of executions of a cached call never changes *)
Lemma cached_not_rerun fuel ks1 ks2 k :
  In k (map fst (done (fst (histf fuel ks1)))) ->
  nruns k (fst (histf fuel (ks1 ++ ks2))) = nruns k (fst (histf fuel ks1)).
Proof.
  intros H. unfold hist_f in *. rewrite hist_from_app. cbn [fst].
  destruct (hist_fromf fuel init ks1) as [sta osa] eqn:Ha. cbn [fst] in *.
  destruct (hist_from_inv fuel _ _ _ _ InvF_init Ha) as [Ia _].
  destruct (hist_fromf fuel sta ks2) as [stb osb] eqn:Hb. cbn [fst].
  destruct (hist_from_inv fuel _ _ _ _ Ia Hb) as [_ [_ [_ [[_ [_ [_ N]]] _]]]]. apply N. assumption.
Qed.

(* ---------- the failing-call model extends Model/GenCache.v: an answered call is answered alike, with the same state ---------- *)
Lemma fold_refines (rf : state K -> K -> state K * outcome) (r : state K -> K -> result (state K * nat)) :
  (forall st k st' m, rf st k = (st', Ret m) -> r st k = Ok (st', m)) ->
  forall ks st st' ms, fold_f rf st ks = (st', FRet ms) -> fold_calls r st ks = Ok (st', ms).
Proof.
  intros Hr. induction ks as [|k ks IH]; intros st st' ms H; simpl in H |- *.
  - inversion H. reflexivity.
  - destruct (rf st k) as [st1 [m|e]] eqn:R; [|discriminate]. rewrite (Hr _ _ _ _ R). simpl.
    destruct (fold_f rf st1 ks) as [st2 [ms2|e]] eqn:F; inversion H; subst. rewrite (IH _ _ _ F). reflexivity.
Qed.

Lemma run_f_refines : forall fuel st k st' m, runf fuel st k = (st', Ret m) ->
  run keqb prog gen_name has_params (sfx suffix) fuel st k = Ok (st', m).
Proof.
  induction fuel as [|f IHf]; intros st k st' m H; simpl in H |- *; [discriminate|].
  destruct (lookup k (done st)) as [m0|]; [inversion H; reflexivity|].
  destruct (memk k (pending st)); [discriminate|].
  fold (enter k st).
  destruct (fold_f (runf f) (enter k st) (b_calls (prog k))) as [st2 [ms|e]] eqn:F; [|discriminate].
  rewrite (fold_refines _ _ IHf _ _ _ _ F). simpl.
  destruct (b_ret (prog k)) as [o|i].
  - destruct (nameok k); [|discriminate]. inversion H; subst. reflexivity.
  - destruct (nth_error ms i); [|discriminate]. inversion H; subst. reflexivity.
Qed.

End ProofsF.
