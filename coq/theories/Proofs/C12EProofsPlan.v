(* Proofs/C12EProofsPlan.v — ResolvePortRefs with oracle-ordered set iteration (Model/C12EOrdered.v) IS the fixed-order model
   (Model/C01FElab.v) on every valid module, for every oracle that only permutes:
     plan_g / res_g / rewrite_inst_g instantiated with gid / group_res are plan / res / rewrite_inst (by unfolding);
     they depend on the two parameters only at the references the module mentions (extensionality);
     every group `discover` finds is a component, each port once, and every mentioned reference is in one of them;
     hence gid_o = gid and gres_o = group_res where it matters (Proofs/C12EProofsGroups.v). *)
From Coq Require Import String Permutation.
Require Import Hdl21.Base.PyInt Hdl21.Spec.PySlice Hdl21.Model.Slice Hdl21.Model.Resolve Hdl21.Base.Design
               Hdl21.Spec.Nets Hdl21.Spec.WfDesign Hdl21.Spec.C01ENets Hdl21.Model.C01EElab Hdl21.Model.C01FElab Hdl21.Spec.C01FNets
               Hdl21.Proofs.FunGraph Hdl21.Proofs.ResolveProofs Hdl21.Proofs.C01EProofsBase Hdl21.Proofs.C01FProofsGroups
               Hdl21.Proofs.C01FProofsPlan Hdl21.Proofs.C01FProofsPortRefs Hdl21.Model.C12EOrdered Hdl21.Proofs.C12EProofsDfs
               Hdl21.Proofs.C12EProofsGroups.
Open Scope Z_scope.

Lemma traverse_ext_in' {A B} (f g : A -> result B) l : (forall x, In x l -> f x = g x) -> traverse f l = traverse g l.
Proof.
  induction l as [|a l IH]; intros H; cbn [traverse]; [reflexivity|].
  rewrite (H a (or_introl eq_refl)). rewrite IH; [reflexivity|]. intros x Hx. apply H. right. exact Hx.
Qed.

(* ------------------------------------------------------------------------------------------------ the reference instance *)
Section Ref.
Variables (d : design) (ncn : list (N * name)) (m : module) (keys : list key).

Lemma plan_g_ref ss : forall done, plan_g d ncn m (gid m keys) (group_res m keys) ss done = plan d ncn m keys ss done.
Proof.
  induction ss as [|[q|x p s] r IH]; intros done; cbn [plan_g plan]; [reflexivity| |].
  - destruct (gid m keys q) as [g|]; cbn [ofopt bind]; [|reflexivity]. destruct (kmem g done); [apply IH|].
    destruct (group_res m keys g) as [[cx|ow nm]|e]; cbn [bind]; [apply IH| |reflexivity].
    destruct (key_width d m nm); cbn [bind]; [|reflexivity]. rewrite IH. reflexivity.
  - destruct (port_width d x p); cbn [bind]; [|reflexivity]. rewrite IH. reflexivity.
Qed.

Lemma rewrite_inst_g_ref table x : rewrite_inst_g m (gid m keys) (group_res m keys) table x = rewrite_inst m keys table x.
Proof. reflexivity. Qed.
End Ref.

(* ------------------------------------------------------------------------------------------------ extensionality *)
Section Ext.
Variables (d : design) (ncn : list (N * name)) (m : module).
Variables (gid1 gid2 : key -> option key) (gres1 gres2 : key -> result gres).

Definition agree_at (q : key) : Prop := gid1 q = gid2 q /\ forall g, gid2 q = Some g -> gres1 g = gres2 g.

Lemma plan_g_ext ss : (forall q, In (SRef q) ss -> agree_at q) ->
  forall done, plan_g d ncn m gid1 gres1 ss done = plan_g d ncn m gid2 gres2 ss done.
Proof.
  induction ss as [|[q|x p s] r IH]; intros H done; cbn [plan_g]; [reflexivity| |].
  - destruct (H q (or_introl eq_refl)) as [E1 E2]. rewrite E1. destruct (gid2 q) as [g|]; cbn [ofopt bind]; [|reflexivity].
    assert (forall dn, plan_g d ncn m gid1 gres1 r dn = plan_g d ncn m gid2 gres2 r dn) as IH' by (apply IH; intros q' Hq'; apply H; right; exact Hq').
    destruct (kmem g done); [apply IH'|]. rewrite (E2 g eq_refl).
    destruct (gres2 g) as [[cx|ow nm]|e]; cbn [bind]; [apply IH'| |reflexivity].
    destruct (key_width d m nm); cbn [bind]; [|reflexivity]. rewrite IH'. reflexivity.
  - destruct (port_width d x p); cbn [bind]; [|reflexivity]. rewrite IH; [reflexivity|]. intros q' Hq'. apply H. right; exact Hq'.
Qed.

Lemma rewrite_inst_g_ext table x : (forall c q, In c (i_conns x) -> as_ref m (snd c) = Some q -> agree_at q) ->
  rewrite_inst_g m gid1 gres1 table x = rewrite_inst_g m gid2 gres2 table x.
Proof.
  intros H. unfold rewrite_inst_g.
  assert (traverse (rewrite_conn_g m gid1 gres1 table x) (i_conns x) = traverse (rewrite_conn_g m gid2 gres2 table x) (i_conns x)) as ->; [|reflexivity].
  apply traverse_ext_in'. intros c Hc. unfold rewrite_conn_g. destruct (as_ref m (snd c)) as [q|] eqn:Er; [|reflexivity].
  destruct (H c q Hc Er) as [E1 E2]. unfold res_g. rewrite E1. destruct (gid2 q) as [g|]; cbn [ofopt bind]; [|reflexivity].
  rewrite (E2 g eq_refl). reflexivity.
Qed.
End Ext.

(* ------------------------------------------------------------------------------------------------ a valid module *)
Section Module.
Variables (o : orders) (d : design) (ncn : list (N * name)) (km : nat) (m : module).
Hypothesis Hord : ord_ok o.
Hypothesis Hwm : wf_module d km m = Ok tt.
Hypothesis Hfrag : forall x c, In x (m_insts m) -> In c (i_conns x) -> conn_frag2 d m x c = true.
Hypothesis Hpw : forall x ports pw, In x (m_insts m) -> target_ports d (i_of x) = Ok ports -> In pw ports -> 1 <= snd pw.
Variable keys : list key.
Hypothesis Hkeys : all_keys d m = Ok keys.

Notation cn := (conn key (nxt m)).

(* the traversal from a port of the universe ends within the model's fuel, and collects that port's component *)
Lemma discover_group_ok q : In q keys -> exists L, discover_group o m keys q = Ok L /\ is_comp m L q.
Proof.
  intros Hq. unfold discover_group, follow_fuel.
  destruct (follow_total o m Hord (keys ++ conn_keys m)) with (fuel := S (Datatypes.length (keys ++ conn_keys m))) (q := q) (g := @nil key) as [L HL].
  - intros u y Hu Hn. apply in_or_app. left.
    assert (exists x, find_inst (m_insts m) (fst u) = Some x) as [x Hf].
    { unfold next, pconn in Hn. destruct (find_inst (m_insts m) (fst u)) as [x|]; [eauto|discriminate]. }
    destruct (next_wf d km m keys Hwm Hkeys u y x Hf Hn) as [_ [_ [_ [Hy _]]]]. exact Hy.
  - intros u k _ Hk. apply in_or_app. right. apply back_In in Hk. exact (proj1 Hk).
  - apply in_or_app. left. exact Hq.
  - pose proof (missing_le (keys ++ conn_keys m) []). lia.
  - exists L. rewrite HL. split; [reflexivity|]. apply (follow_component o m Hord _ q L HL).
Qed.

Definition groups_ok (gs : list (list key)) : Prop := forall L, In L gs -> exists q0, In q0 keys /\ is_comp m L q0.
Definition covered (gs : list (list key)) (q : key) : Prop := existsb (kmem q) gs = true.

Lemma covered_app gs L q : covered gs q -> covered (gs ++ [L]) q.
Proof. unfold covered. rewrite existsb_app. intros ->. reflexivity. Qed.

Lemma discover_ok : forall ss acc, Forall (seed_ok m keys) ss -> groups_ok acc ->
  exists gs, discover o m keys ss acc = Ok gs /\ groups_ok gs /\
             (forall q, covered acc q -> covered gs q) /\ (forall q, In (SRef q) ss -> covered gs q).
Proof.
  induction ss as [|[q|x p s] r IH]; intros acc Hss Hacc; cbn [discover].
  - exists acc. split; [reflexivity|]. split; [exact Hacc|]. split; [auto|intros q []].
  - inversion Hss as [|? ? Hs Hr]; subst. cbn [seed_ok] in Hs. destruct (existsb (kmem q) acc) eqn:Ec.
    + destruct (IH acc Hr Hacc) as [gs [E [G [C1 C2]]]]. exists gs. split; [exact E|]. split; [exact G|]. split; [exact C1|].
      intros q' [Hq'|Hq']; [inversion Hq'; subst q'; apply C1; exact Ec|apply C2; exact Hq'].
    + destruct (discover_group_ok q Hs) as [L [EL HL]]. rewrite EL. cbn [bind].
      assert (groups_ok (acc ++ [L])) as Hacc'.
      { intros L' HL'. apply in_app_or in HL'. destruct HL' as [HL'|[<-|[]]]; [apply Hacc; exact HL'|]. exists q. split; assumption. }
      destruct (IH (acc ++ [L]) Hr Hacc') as [gs [E [G [C1 C2]]]]. exists gs. split; [exact E|]. split; [exact G|]. split.
      * intros q' Hq'. apply C1. apply covered_app. exact Hq'.
      * intros q' [Hq'|Hq']; [|apply C2; exact Hq']. inversion Hq'; subst q'. apply C1. unfold covered. rewrite existsb_app.
        cbn [existsb]. assert (kmem q L = true) as -> by (apply kmem_In, (proj2 HL), c_refl). rewrite orb_true_r. reflexivity.
  - inversion Hss as [|? ? Hs Hr]; subst. destruct (IH acc Hr Hacc) as [gs [E [G [C1 C2]]]]. exists gs. split; [exact E|]. split; [exact G|].
    split; [exact C1|]. intros q' [Hq'|Hq']; [discriminate|apply C2; exact Hq'].
Qed.

(* looking a covered port up in valid groups *)
Lemma group_of_covered gs q : groups_ok gs -> covered gs q -> exists L, group_of gs q = Some L /\ In q L /\ is_comp m L q.
Proof.
  intros G C. unfold covered in C. unfold group_of. destruct (find (kmem q) gs) as [L|] eqn:Ef.
  - apply find_some in Ef. destruct Ef as [HL Hq]. apply kmem_In in Hq. exists L. split; [reflexivity|]. split; [exact Hq|].
    destruct (G L HL) as [q0 [_ Hc]]. apply (is_comp_shift m L q0 q Hc Hq).
  - exfalso. apply existsb_exists in C. destruct C as [L [HL Hq]]. pose proof (find_none _ _ Ef L HL) as Hn. cbv beta in Hn. congruence.
Qed.

Lemma agree_covered gs q : groups_ok gs -> In q keys -> covered gs q ->
  agree_at (gid_o keys gs) (gid m keys) (gres_o m keys gs) (group_res m keys) q.
Proof.
  intros G Hq C. destruct (group_of_covered gs q G C) as [L [EL [HqL Hc]]]. split.
  - unfold gid_o. rewrite EL. apply (canon_eq d km m keys Hwm Hkeys L q Hq HqL Hc).
  - intros g Hg. destruct (gid_spec d km m keys Hwm Hkeys q g Hq Hg) as [Hgk Cg].
    pose proof (gid_idem d km m keys Hwm Hkeys q g Hq Hg) as Hgg.
    assert (covered gs g) as Cg'.
    { unfold covered. apply existsb_exists. exists L. unfold group_of in EL. apply find_some in EL. split; [exact (proj1 EL)|].
      apply kmem_In. apply (proj2 Hc). apply c_sym. exact Cg. }
    destruct (group_of_covered gs g G Cg') as [L' [EL' [HgL' Hc']]]. unfold gres_o. rewrite EL'. cbn [ofopt bind].
    apply (group_res_o_eq d km m keys Hwm Hkeys g L' Hgk Hgg Hc').
Qed.

Theorem portrefs1_module_o_eq : portrefs1_module_o o d ncn m = portrefs1_module d ncn m.
Proof.
  unfold portrefs1_module_o, portrefs1_module, pr_table2. rewrite Hkeys. cbn [bind].
  pose proof (pr_seeds_ok d km m Hwm Hfrag Hpw keys Hkeys) as Hss.
  destruct (discover_ok (seeds2 m) [] Hss) as [gs [E [G [_ C]]]]; [intros L []|]. rewrite E. cbn [bind].
  assert (forall q, In (SRef q) (seeds2 m) -> agree_at (gid_o keys gs) (gid m keys) (gres_o m keys gs) (group_res m keys) q) as Hag.
  { intros q Hq. apply (agree_covered gs q G); [|apply C; exact Hq]. rewrite Forall_forall in Hss. apply (Hss (SRef q) Hq). }
  rewrite (plan_g_ext d ncn m _ _ _ _ (seeds2 m) Hag []). rewrite plan_g_ref.
  destruct (plan d ncn m keys (seeds2 m) []) as [allocs|e]; cbn [bind]; [|reflexivity].
  destruct (alloc_names (map a_base allocs) (namespace m)) as [names|e]; cbn [bind fst snd]; [|reflexivity].
  assert (traverse (rewrite_inst_g m (gid_o keys gs) (gres_o m keys gs) (number_allocs (combine allocs names) (next_leaf m))) (m_insts m) =
          traverse (rewrite_inst m keys (number_allocs (combine allocs names) (next_leaf m))) (m_insts m)) as ->; [|reflexivity].
  apply traverse_ext_in'. intros x Hx. rewrite <- rewrite_inst_g_ref. apply rewrite_inst_g_ext. intros c q Hc Hr.
  apply Hag. apply (pr_seed_ref d km m Hwm Hfrag Hpw keys Hkeys). eapply pr_mentioned_whole; eassumption.
Qed.

Theorem portrefs2_module_o_eq : portrefs2_module_o o d ncn m = portrefs2_module d ncn m.
Proof. unfold portrefs2_module_o, portrefs2_module. rewrite portrefs1_module_o_eq. reflexivity. Qed.
End Module.
