(* Proofs/C19EProofsNames.v — the terminal correspondence term_map2 spelled out for the Series design, for every n:
   ResolvePortRefs (both steps of Model/C01FElab.v) leaves the design as it is (no reference, no no-connect), so element e
   of the array becomes the single instance whose name is the e-th name ArrayFlattener's naming function (name_elems:
   flatname [units; str(e)] avoiding the growing namespace) yields; port and bit stay. *)
Require Import Hdl21.Base.PyInt Hdl21.Spec.PySlice Hdl21.Model.Slice Hdl21.Model.Resolve Hdl21.Base.Design
               Hdl21.Spec.Nets Hdl21.Spec.WfDesign Hdl21.Spec.C01ENets Hdl21.Base.Package Hdl21.Base.PrimTable
               Hdl21.Model.C01EElab Hdl21.Model.C01FElab Hdl21.Spec.C01FNets Hdl21.Proofs.C01EProofsBase Hdl21.Proofs.C01FProofsEnd
               Hdl21.Spec.C19Topology Hdl21.Model.C19Series Hdl21.Proofs.C19Proofs
               Hdl21.Model.C19EDesign Hdl21.Proofs.C19EProofsStep Hdl21.Proofs.C19EProofsTopo Hdl21.Proofs.C19EProofsWf.
From Coq Require String.
Open Scope string_scope.
Open Scope Z_scope.

Lemma flat_map_nil {A B} (f : A -> list B) l : (forall x, In x l -> f x = []) -> flat_map f l = [].
Proof.
  induction l as [|x t IH]; intros H; [reflexivity|]. cbn [flat_map]. rewrite (H x (or_introl eq_refl)).
  rewrite IH; [reflexivity|]. intros y Hy. apply H. right. exact Hy.
Qed.

Lemma traverse_same {A} (f : A -> result A) l : (forall x, In x l -> f x = Ok x) -> traverse f l = Ok l.
Proof.
  induction l as [|x t IH]; intros H; [reflexivity|]. cbn [traverse]. rewrite (H x (or_introl eq_refl)). cbn [bind].
  rewrite IH; [reflexivity|]. intros y Hy. apply H. right. exact Hy.
Qed.

(* a connection all of whose leaves are declared signals *)
Definition sig_leaves (m : module) (cx : sx) : Prop :=
  forall lw, In lw (sx_leaves cx) -> exists s, assocN (fst lw) (m_leaves m) = Some (LSig s).

Lemma sig_leaves_as_ref m cx : sig_leaves m cx -> as_ref m cx = None.
Proof.
  intros H. unfold as_ref, leaf_at. destruct cx as [id w|q ix|ps]; try reflexivity.
  destruct (H (id, w) (or_introl eq_refl)) as [s Hs]. cbn [fst] in Hs. rewrite Hs. reflexivity.
Qed.

Lemma sig_leaves_as_nc m cx : sig_leaves m cx -> as_nc m cx = None.
Proof.
  intros H. unfold as_nc, leaf_at. destruct cx as [id w|q ix|ps]; try reflexivity.
  destruct (H (id, w) (or_introl eq_refl)) as [s Hs]. cbn [fst] in Hs. rewrite Hs. reflexivity.
Qed.

Lemma sig_leaves_refs_in m cx : sig_leaves m cx -> refs_in m cx = [].
Proof.
  intros H. unfold refs_in. apply flat_map_nil. intros lw Hin. unfold leaf_ref. destruct (H lw Hin) as [s ->]. reflexivity.
Qed.

Section Names.
Variables (nm : snames) (io : list (name * Z)) (a b : name) (w n : Z).
Hypothesis Hok : series_ok nm io a b w n = true.
Let iw := (n - 1) * w.
Let iid := N.of_nat (List.length io).
Let d := series_design nm io a b w n.
Let top := series_top nm io a b n iw.
Let x := series_inst nm io a b n iw.

Lemma series_sig_leaves c : In c (i_conns x) -> sig_leaves top (snd c).
Proof.
  intros Hc. change (i_conns x) with (map (series_conn_w iid iw a b) (number io 0%N)) in Hc.
  destruct (conn_of_number _ io c Hc) as [id [p [wp [Ec [Hid Hin]]]]].
  intros lw Hl. destruct (series_leaves nm io a b w n Hok c id p wp Ec Hid Hin lw Hl) as [s [H1 _]]. eauto.
Qed.

(* re-parenting a connection of the stack: nothing to substitute *)
Lemma series_reparent fuel c : In c (i_conns x) -> reparent top fuel (snd c) = Ok (snd c).
Proof.
  intros Hc. pose proof (series_sig_leaves c Hc) as Hs.
  change (i_conns x) with (map (series_conn_w iid iw a b) (number io 0%N)) in Hc.
  destruct (conn_of_number _ io c Hc) as [id [p [wp [Ec _]]]]. subst c.
  assert (forall i v, In (i, v) (sx_leaves (snd (series_conn_w iid iw a b (id, (p, wp))))) ->
          ref_leaf top i = None) as Hr.
  { intros i v Hin. destruct (Hs (i, v) Hin) as [s H]. cbn [fst] in H. unfold ref_leaf. rewrite H. reflexivity. }
  revert Hr. cbn [series_conn_w snd].
  destruct (String.eqb p b); [|destruct (String.eqb p a)]; cbn [sx_leaves map concat app]; intros Hr.
  - destruct fuel; cbn [reparent sx_subst]; rewrite (Hr iid iw), (Hr id wp); cbn [In]; auto.
  - destruct fuel; cbn [reparent sx_subst]; rewrite (Hr id wp), (Hr iid iw); cbn [In]; auto.
  - destruct fuel; cbn [reparent sx_subst]; rewrite (Hr id wp); cbn [In]; auto.
Qed.

Lemma series_portrefs2_module ncn : portrefs2_module d ncn top = Ok top.
Proof.
  destruct (series_ok_inv _ _ _ _ _ _ Hok) as [_ [_ [_ [_ [_ [_ [_ [_ [_ Hn]]]]]]]]].
  assert (single x = false) as Hsx by (unfold single; cbn [i_n x series_inst]; lia).
  assert (all_keys d top = Ok []) as Hkeys.
  { unfold all_keys. change (m_insts top) with [x]. cbn [map]. rewrite Hsx. reflexivity. }
  assert (seeds2 top = []) as Hseeds.
  { unfold seeds2. change (m_insts top) with [x]. cbn [filter]. rewrite Hsx. cbn [negb app flat_map].
    rewrite app_nil_r. unfold inst_seeds2.
    assert (mentioned2 top = []) as ->.
    { unfold mentioned2. change (m_insts top) with [x]. cbn [flat_map]. rewrite app_nil_r.
      rewrite (flat_map_nil (fun c : name * sx => refs_in top (snd c)) (i_conns x)); [reflexivity|].
      intros c Hc. apply sig_leaves_refs_in. exact (series_sig_leaves c Hc). }
    cbn [filter map app]. apply flat_map_nil. intros c Hc. rewrite (sig_leaves_as_nc top (snd c) (series_sig_leaves c Hc)). reflexivity. }
  unfold portrefs2_module, portrefs1_module, pr_table2. rewrite Hkeys. cbn [bind]. rewrite Hseeds.
  cbn [plan bind map alloc_names combine number_allocs fst snd].
  change (m_insts top) with [x]. cbn [traverse].
  assert (rewrite_inst top [] [] x = Ok x) as ->.
  { unfold rewrite_inst. rewrite (traverse_same (rewrite_conn top [] [] x) (i_conns x)).
    - cbn [bind]. unfold added_conns. cbn [flat_map]. rewrite app_nil_r. reflexivity.
    - intros c Hc. unfold rewrite_conn. rewrite (sig_leaves_as_ref top (snd c) (series_sig_leaves c Hc)).
      rewrite (sig_leaves_as_nc top (snd c) (series_sig_leaves c Hc)). reflexivity. }
  cbn [bind fst snd]. unfold reparent_module, module1. cbn [m_insts map m_name m_ports m_sigs m_leaves traverse].
  assert (reparent_inst (module1 top [] [x]) (ref_fuel []) x = Ok x) as Hri.
  { unfold reparent_inst.
    rewrite (traverse_same (fun c : name * sx => e <- reparent (module1 top [] [x]) (ref_fuel []) (snd c) ;; Ok (fst c, e)) (i_conns x)).
    - reflexivity.
    - intros c Hc.
      assert (reparent (module1 top [] [x]) (ref_fuel []) (snd c) = reparent top (ref_fuel []) (snd c)) as ->.
      { unfold module1. cbn [map]. rewrite !app_nil_r. reflexivity. }
      rewrite (series_reparent (ref_fuel []) c Hc). cbn [bind]. destruct c; reflexivity. }
  unfold module1 in Hri. cbn [map] in Hri. rewrite Hri. cbn [bind]. rewrite !app_nil_r. reflexivity.
Qed.

Lemma series_portrefs2_design xi : portrefs2_design xi d = Ok d.
Proof.
  unfold portrefs2_design, map_modules. change (d_mods d) with [top]. cbn [traverse].
  rewrite series_portrefs2_module. reflexivity.
Qed.

(* element e of the array becomes the e-th name of ArrayFlattener's naming function; port and bit stay *)
Theorem series_term_map_units xi nms e p k :
  name_elems (sn_units nm) (Z.to_nat n) 0%N
             (remove_name (sn_units nm) (map fst io ++ [sn_i nm] ++ [sn_units nm])) = Ok nms ->
  term_map2 xi d (NPort [] (sn_units nm) e p k) = NPort [] (nth (Z.to_nat e) nms (sn_units nm)) 0 p k.
Proof.
  intros Hnm. unfold term_map2. rewrite series_portrefs2_design.
  cbn [Hdl21.Proofs.C01EProofsSim.phi]. change (vmod_at d []) with (Ok top).
  unfold Hdl21.Proofs.C01EProofsSim.tr_path. change (nth_mod d (d_top d)) with (Ok top).
  cbn [rev Hdl21.Proofs.C01EProofsSim.tr_down].
  assert (single x = false) as Hsx.
  { destruct (series_ok_inv _ _ _ _ _ _ Hok) as [_ [_ [_ [_ [_ [_ [_ [_ [_ Hn]]]]]]]]]. unfold single. cbn [i_n x series_inst]. lia. }
  assert (elem_rename top (sn_units nm, e) = (nth (Z.to_nat e) nms (sn_units nm), 0)) as ->.
  { unfold elem_rename, dissolved. change (m_insts top) with [x]. cbn [filter]. rewrite Hsx. cbn [negb rev app array_names].
    change (namespace top) with (map fst io ++ [sn_i nm] ++ [sn_units nm]).
    change (i_name x) with (sn_units nm). change (i_n x) with n. rewrite Hnm. cbn [bind combine find fst snd].
    change (i_name x) with (sn_units nm). rewrite String.eqb_refl. reflexivity. }
  reflexivity.
Qed.
End Names.

Require Import Hdl21.Proofs.C19EProofsEnd Hdl21.Proofs.C19EProofsTerms.

(* whenever the pipeline model exports the design, ArrayFlattener's naming function has produced the element names *)
Lemma series_names_exist nm io a b w n xi p : series_ok nm io a b w n = true ->
  elab_export_model2 xi (series_design nm io a b w n) = Ok p ->
  exists nms, name_elems (sn_units nm) (Z.to_nat n) 0%N
                (remove_name (sn_units nm) (map fst io ++ [sn_i nm] ++ [sn_units nm])) = Ok nms.
Proof.
  intros Hok H. destruct (series_ok_inv _ _ _ _ _ _ Hok) as [_ [_ [_ [_ [_ [_ [_ [_ [_ Hn]]]]]]]]].
  unfold elab_export_model2, elab_model2 in H. apply bind_ok in H. destruct H as [d3 [H _]].
  rewrite (series_portrefs2_design nm io a b w n Hok xi) in H. cbn [bind] in H.
  apply bind_ok in H. destruct H as [d2 [H _]]. unfold arrays_design, map_modules in H.
  change (d_mods (series_design nm io a b w n)) with [series_top nm io a b n ((n - 1) * w)] in H. cbn [traverse] in H.
  apply bind_ok in H. destruct H as [ms [H _]]. apply bind_ok in H. destruct H as [m' [H _]].
  unfold arrays_module in H. apply bind_ok in H. destruct H as [tbl [H _]].
  unfold dissolved in H. change (m_insts (series_top nm io a b n ((n - 1) * w))) with [series_inst nm io a b n ((n - 1) * w)] in H.
  cbn [filter] in H.
  assert (single (series_inst nm io a b n ((n - 1) * w)) = false) as Hsx by (unfold single; cbn [i_n series_inst]; lia).
  rewrite Hsx in H. cbn [negb rev app array_names] in H.
  change (namespace (series_top nm io a b n ((n - 1) * w))) with (map fst io ++ [sn_i nm] ++ [sn_units nm]) in H.
  change (i_name (series_inst nm io a b n ((n - 1) * w))) with (sn_units nm) in H.
  change (i_n (series_inst nm io a b n ((n - 1) * w))) with n in H.
  apply bind_ok in H. destruct H as [nms [H _]]. exists nms. exact H.
Qed.

(* THE EXPORTED PACKAGE, with nothing left abstract: unit e is the single instance named nth e nms (nms = the names
   ArrayFlattener's naming function yields), the stack's port bits are themselves *)
Theorem series_exported_explicit nm io a b w n xi p :
  series_ok nm io a b w n = true ->
  xinfo_ok xi (series_design nm io a b w n) = true -> elab_export_model2 xi (series_design nm io a b w n) = Ok p ->
  exists pd nms, design_of_pkg prims_ext p (sn_mod nm) = Ok pd /\
    name_elems (sn_units nm) (Z.to_nat n) 0%N (remove_name (sn_units nm) (map fst io ++ [sn_i nm] ++ [sn_units nm])) = Ok nms /\
    let U e q k := NPort [] (nth (Z.to_nat e) nms (sn_units nm)) 0 q k in
    (forall e1 q1 w1 k1 e2 q2 w2 k2, In (q1, w1) io -> 0 <= k1 < w1 -> 0 <= e1 < n -> In (q2, w2) io -> 0 <= k2 < w2 -> 0 <= e2 < n ->
       (same_net pd (U e1 q1 k1) (U e2 q2 k2) <-> series_key n a b e1 q1 k1 = series_key n a b e2 q2 k2)) /\
    (forall e1 q1 w1 k1 q2 w2 k2, In (q1, w1) io -> 0 <= k1 < w1 -> 0 <= e1 < n -> In (q2, w2) io -> 0 <= k2 < w2 ->
       (same_net pd (U e1 q1 k1) (NSig [] q2 k2) <-> series_key n a b e1 q1 k1 = KPort q2 k2)) /\
    (forall q1 w1 k1 q2 w2 k2, In (q1, w1) io -> 0 <= k1 < w1 -> In (q2, w2) io -> 0 <= k2 < w2 ->
       (same_net pd (NSig [] q1 k1) (NSig [] q2 k2) <-> (q1 = q2 /\ k1 = k2))) /\
    (forall e q wq k, In (q, wq) io -> 0 <= k < wq -> 0 <= e < n -> dev_at pd (U e q k) = Ok (sn_dev nm)).
Proof.
  intros Hok Hxi Hp. destruct (series_exported nm io a b w n Hok xi p Hxi Hp) as [pd [Hpd [_ [Hs Hd]]]].
  destruct (series_names_exist nm io a b w n xi p Hok Hp) as [nms Hnm].
  exists pd, nms. split; [exact Hpd|]. split; [exact Hnm|]. cbv zeta.
  pose proof (fun e q k => series_term_map_units nm io a b w n Hok xi nms e q k Hnm) as TU.
  split; [|split; [|split]].
  - intros e1 q1 w1 k1 e2 q2 w2 k2 I1 K1 E1 I2 K2 E2.
    pose proof (Hs _ _ (unit_term nm io n e1 q1 w1 k1 I1 K1 E1) (unit_term nm io n e2 q2 w2 k2 I2 K2 E2)) as H.
    rewrite !TU in H. exact H.
  - intros e1 q1 w1 k1 q2 w2 k2 I1 K1 E1 I2 K2.
    pose proof (Hs _ _ (unit_term nm io n e1 q1 w1 k1 I1 K1 E1) (port_term nm io n q2 w2 k2 I2 K2)) as H.
    rewrite TU, term_map2_top_sig in H. exact H.
  - intros q1 w1 k1 q2 w2 k2 I1 K1 I2 K2.
    pose proof (Hs _ _ (port_term nm io n q1 w1 k1 I1 K1) (port_term nm io n q2 w2 k2 I2 K2)) as H.
    rewrite !term_map2_top_sig in H. rewrite H. cbn [series_node_key]. split.
    + intros E. injection E as -> ->. auto.
    + intros [-> ->]. reflexivity.
  - intros e q wq k I K E. pose proof (Hd _ (ex_intro _ e (ex_intro _ q (ex_intro _ wq (ex_intro _ k (conj eq_refl (conj I (conj K E)))))))) as H.
    rewrite TU in H. exact H.
Qed.

(* ---------------- Wrapper: no array, the inner instance keeps its name ---------------- *)
Require Import Hdl21.Proofs.C19EProofsWrap.

Section WNames.
Variables (nm : snames) (io : list (name * Z)).
Hypothesis Hok : wrapper_ok nm io = true.
Let d := wrapper_design nm io.
Let top := wrapper_top nm io.
Let x := wrapper_inst nm io.

Lemma wrapper_sig_leaves c : In c (i_conns x) -> sig_leaves top (snd c).
Proof.
  intros Hc. change (i_conns x) with (map wrapper_conn (number io 0%N)) in Hc.
  destruct (conn_of_number _ io c Hc) as [id [p [wp [Ec [Hid Hin]]]]].
  intros lw Hl. destruct (wrapper_leaves nm io Hok c id p wp Ec Hid Hin lw Hl) as [s [H1 _]]. eauto.
Qed.

Lemma wrapper_reparent fuel c : In c (i_conns x) -> reparent top fuel (snd c) = Ok (snd c).
Proof.
  intros Hc. pose proof (wrapper_sig_leaves c Hc) as Hs.
  change (i_conns x) with (map wrapper_conn (number io 0%N)) in Hc.
  destruct (conn_of_number _ io c Hc) as [id [p [wp [Ec _]]]]. subst c. cbn [wrapper_conn fst snd] in *.
  destruct (Hs (id, wp) (or_introl eq_refl)) as [s H]. cbn [fst] in H.
  destruct fuel; cbn [reparent sx_subst]; unfold ref_leaf; rewrite H; reflexivity.
Qed.

Lemma wrapper_portrefs2_module ncn : portrefs2_module d ncn top = Ok top.
Proof.
  assert (single x = true) as Hsx by reflexivity.
  assert (exists keys, all_keys d top = Ok keys) as [keys Hkeys].
  { unfold all_keys. change (m_insts top) with [x]. cbn [map]. rewrite Hsx. cbn [i_of x wrapper_inst target_ports bind cat_results]. eauto. }
  assert (seeds2 top = []) as Hseeds.
  { unfold seeds2. change (m_insts top) with [x]. cbn [filter]. rewrite Hsx. cbn [negb app flat_map].
    rewrite app_nil_r. unfold inst_seeds2.
    assert (mentioned2 top = []) as ->.
    { unfold mentioned2. change (m_insts top) with [x]. cbn [flat_map]. rewrite app_nil_r.
      rewrite (flat_map_nil (fun c : name * sx => refs_in top (snd c)) (i_conns x)); [reflexivity|].
      intros c Hc. apply sig_leaves_refs_in. exact (wrapper_sig_leaves c Hc). }
    cbn [filter map app]. apply flat_map_nil. intros c Hc. rewrite (sig_leaves_as_nc top (snd c) (wrapper_sig_leaves c Hc)). reflexivity. }
  unfold portrefs2_module, portrefs1_module, pr_table2. rewrite Hkeys. cbn [bind]. rewrite Hseeds.
  cbn [plan bind map alloc_names combine number_allocs fst snd].
  change (m_insts top) with [x]. cbn [traverse].
  assert (rewrite_inst top keys [] x = Ok x) as ->.
  { unfold rewrite_inst. rewrite (traverse_same (rewrite_conn top keys [] x) (i_conns x)).
    - cbn [bind]. unfold added_conns. cbn [flat_map]. rewrite app_nil_r. reflexivity.
    - intros c Hc. unfold rewrite_conn. rewrite (sig_leaves_as_ref top (snd c) (wrapper_sig_leaves c Hc)).
      rewrite (sig_leaves_as_nc top (snd c) (wrapper_sig_leaves c Hc)). reflexivity. }
  cbn [bind fst snd]. unfold reparent_module, module1. cbn [m_insts map m_name m_ports m_sigs m_leaves traverse].
  assert (reparent_inst (module1 top [] [x]) (ref_fuel keys) x = Ok x) as Hri.
  { unfold reparent_inst.
    rewrite (traverse_same (fun c : name * sx => e <- reparent (module1 top [] [x]) (ref_fuel keys) (snd c) ;; Ok (fst c, e)) (i_conns x)).
    - reflexivity.
    - intros c Hc.
      assert (reparent (module1 top [] [x]) (ref_fuel keys) (snd c) = reparent top (ref_fuel keys) (snd c)) as ->.
      { unfold module1. cbn [map]. rewrite !app_nil_r. reflexivity. }
      rewrite (wrapper_reparent (ref_fuel keys) c Hc). cbn [bind]. destruct c; reflexivity. }
  unfold module1 in Hri. cbn [map] in Hri. rewrite Hri. cbn [bind]. rewrite !app_nil_r. reflexivity.
Qed.

Lemma wrapper_portrefs2_design xi : portrefs2_design xi d = Ok d.
Proof.
  unfold portrefs2_design, map_modules. change (d_mods d) with [top]. cbn [traverse].
  rewrite wrapper_portrefs2_module. reflexivity.
Qed.

Theorem wrapper_term_map_inner xi p k : term_map2 xi d (NPort [] (sn_units nm) 0 p k) = NPort [] (sn_units nm) 0 p k.
Proof.
  unfold term_map2. rewrite wrapper_portrefs2_design.
  cbn [Hdl21.Proofs.C01EProofsSim.phi]. change (vmod_at d []) with (Ok top).
  unfold Hdl21.Proofs.C01EProofsSim.tr_path. change (nth_mod d (d_top d)) with (Ok top).
  cbn [rev Hdl21.Proofs.C01EProofsSim.tr_down]. reflexivity.
Qed.

(* the exported wrapper, nothing abstract: bit k of port q of the inner instance is on the net of bit k of port q of the
   wrapper and on no other *)
Theorem wrapper_exported_explicit xi p : xinfo_ok xi d = true -> elab_export_model2 xi d = Ok p ->
  exists pd, design_of_pkg prims_ext p (sn_mod nm) = Ok pd /\
    (forall q1 w1 k1 q2 w2 k2, In (q1, w1) io -> 0 <= k1 < w1 -> In (q2, w2) io -> 0 <= k2 < w2 ->
       (same_net pd (NPort [] (sn_units nm) 0 q1 k1) (NSig [] q2 k2) <-> (q1 = q2 /\ k1 = k2)) /\
       (same_net pd (NPort [] (sn_units nm) 0 q1 k1) (NPort [] (sn_units nm) 0 q2 k2) <-> (q1 = q2 /\ k1 = k2)) /\
       (same_net pd (NSig [] q1 k1) (NSig [] q2 k2) <-> (q1 = q2 /\ k1 = k2))).
Proof.
  intros Hxi Hp. destruct (wrapper_exported nm io Hok xi p Hxi Hp) as [pd [Hpd [_ Hs]]].
  exists pd. split; [exact Hpd|]. intros q1 w1 k1 q2 w2 k2 I1 K1 I2 K2.
  assert (wrapper_term nm io (NPort [] (sn_units nm) 0 q1 k1)) as T1 by (right; exists q1, w1, k1; auto).
  assert (wrapper_term nm io (NPort [] (sn_units nm) 0 q2 k2)) as T2 by (right; exists q2, w2, k2; auto).
  assert (wrapper_term nm io (NSig [] q1 k1)) as P1 by (left; exists q1, w1, k1; auto).
  assert (wrapper_term nm io (NSig [] q2 k2)) as P2 by (left; exists q2, w2, k2; auto).
  assert (forall u v : name, forall i j : Z, KPort u i = KPort v j <-> (u = v /\ i = j)) as KP.
  { intros u v i j. split; [intros E; injection E as -> ->; auto|intros [-> ->]; reflexivity]. }
  split; [|split].
  - pose proof (Hs _ _ T1 P2) as H. rewrite wrapper_term_map_inner, term_map2_top_sig in H. rewrite H. apply KP.
  - pose proof (Hs _ _ T1 T2) as H. rewrite !wrapper_term_map_inner in H. rewrite H. apply KP.
  - pose proof (Hs _ _ P1 P2) as H. rewrite !term_map2_top_sig in H. rewrite H. apply KP.
Qed.
End WNames.
