(* Proofs/C19EProofsWrap.v — Wrapper (and Series with nser = 1) as a written design: valid, inside the fragment, its
   exported package has every port of the inner instance on the same-named port of the wrapper and nothing else;
   the bridge from Model/C19Series.v (the design carries exactly the connections the model of generators.py states, for
   every width of the series ports); and: what the PINNED generators.py built for series ports wider than one bit (private
   bus of width n-1; repaired by fixes/C19W-1) is not a valid design. *)
Require Import Hdl21.Base.PyInt Hdl21.Spec.PySlice Hdl21.Model.Slice Hdl21.Model.Resolve Hdl21.Base.Design
               Hdl21.Spec.Nets Hdl21.Spec.WfDesign Hdl21.Spec.C01ENets Hdl21.Base.Package Hdl21.Base.PrimTable
               Hdl21.Model.C01EElab Hdl21.Model.C01FElab Hdl21.Spec.C01FNets
               Hdl21.Proofs.C01EProofsBase Hdl21.Proofs.C01FProofsEnd
               Hdl21.Spec.C19Topology Hdl21.Model.C19Series Hdl21.Proofs.ResolveProofs Hdl21.Proofs.C19Proofs
               Hdl21.Model.C19EDesign Hdl21.Proofs.C19EProofsStep Hdl21.Proofs.C19EProofsTopo Hdl21.Proofs.C19EProofsWf.
From Coq Require String.
Open Scope string_scope.
Open Scope Z_scope.

Section Wrapper.
Variables (nm : snames) (io : list (name * Z)).
Hypothesis Hok : wrapper_ok nm io = true.
Let d := wrapper_design nm io.
Let top := wrapper_top nm io.
Let x := wrapper_inst nm io.

Lemma wrapper_leaves c id p wp : c = wrapper_conn (id, (p, wp)) -> In (id, (p, wp)) (number io 0%N) -> In (p, wp) io ->
  forall lw, In lw (sx_leaves (snd c)) ->
     exists s, assocN (fst lw) (m_leaves top) = Some (LSig s) /\ Design.sig_width top s = Some (snd lw).
Proof.
  destruct (wrapper_ok_inv _ _ Hok) as [Hw [Hnd [Hu Hm]]].
  intros -> Hid Hin lw. cbn [wrapper_conn snd fst sx_leaves In]. intros [<-|[]]. cbn [fst snd]. exists p. split.
  - exact (leaf_of_port0 io id p wp Hid).
  - unfold Design.sig_width. cbn [m_ports top wrapper_top]. rewrite (assoc_In_nodup io p wp Hnd Hin). reflexivity.
Qed.

Lemma wrapper_wf_inst : wf_inst d 0 top x = Ok tt.
Proof.
  destruct (wrapper_ok_inv _ _ Hok) as [Hw [Hnd [Hu Hm]]].
  unfold wf_inst. cbn [i_of x wrapper_inst target_ports bind].
  change (i_conns x) with (map wrapper_conn (number io 0%N)).
  rewrite (map_key_number wrapper_conn io (fun e => eq_refl) 0%N).
  rewrite nodup_names_same, Hnd. cbn [check bind].
  rewrite (all_ok_intro (wf_conn d top x io)).
  2:{ intros c Hc. destruct (conn_of_number _ io c Hc) as [id [p [wp [Ec [Hid Hin]]]]].
      apply (wf_conn_sigs d top x io c wp wp).
      - rewrite Ec. cbn [wrapper_conn fst snd]. exact (assoc_In_nodup io p wp Hnd Hin).
      - exact (wrapper_leaves c id p wp Ec Hid Hin).
      - rewrite Ec. cbn [wrapper_conn fst snd xwidth]. pose proof (Hw p wp Hin). destruct (wp <? 1) eqn:E; [lia|]. reflexivity.
      - left. reflexivity. }
  cbn [bind]. apply all_ok_intro. intros [p wp] Hin. cbn [fst].
  destruct (wrapper_conn_lookup io p wp Hnd Hin) as [id [_ ->]]. reflexivity.
Qed.

Lemma wrapper_wf_design : wf_design d = Ok tt.
Proof.
  destruct (wrapper_ok_inv _ _ Hok) as [Hw [Hnd [Hu Hm]]].
  unfold wf_design. change (d_mods d) with [top]. change (d_top d) with 0%nat.
  cbn [List.length Nat.ltb Nat.leb check bind map WfDesign.nodup_names existsb negb andb wf_mods].
  unfold wf_module. cbn [m_name m_ports m_sigs m_insts top wrapper_top map fst app].
  assert (String.eqb (sn_mod nm) "" = false) as -> by (apply String.eqb_neq; exact Hm). cbn [negb check bind].
  change (i_name (wrapper_inst nm io)) with (sn_units nm).
  rewrite nodup_names_app.
  2:{ rewrite nodup_names_same. exact Hnd. }
  2:{ reflexivity. }
  2:{ intros y Hy [<-|[]]. contradiction. }
  cbn [check bind]. rewrite app_nil_r.
  assert (forallb (fun pw : name * Z => 1 <=? snd pw) io = true) as ->.
  { apply forallb_forall. intros [p wp] Hin. cbn [snd]. pose proof (Hw p wp Hin). lia. }
  cbn [check bind].
  rewrite (all_ok_intro (wf_inst d 0 top) [wrapper_inst nm io]); [reflexivity|].
  intros y [<-|[]]. exact wrapper_wf_inst.
Qed.

Lemma wrapper_frag_ok : frag_ok d = true.
Proof.
  unfold frag_ok. change (d_mods d) with [top]. cbn [forallb]. change (m_insts top) with [x]. cbn [forallb].
  rewrite !andb_true_r. apply forallb_forall. intros c Hc.
  change (i_conns x) with (map wrapper_conn (number io 0%N)) in Hc.
  destruct (conn_of_number _ io c Hc) as [id [p [wp [Ec [Hid Hin]]]]].
  apply conn_frag_sigs. intros lw Hl. destruct (wrapper_leaves c id p wp Ec Hid Hin lw Hl) as [s [H1 _]]. eauto.
Qed.

Lemma wrapper_frag_ok2 : frag_ok2 d = true.
Proof. exact (frag_ok_frag_ok2 d wrapper_frag_ok). Qed.

Lemma wrapper_valid t : wrapper_term nm io t -> valid d t.
Proof.
  destruct (wrapper_ok_inv _ _ Hok) as [Hw [Hnd [Hu Hm]]].
  intros [[p [wp [k [-> [Hin Hk]]]]]|[p [wp [k [-> [Hin Hk]]]]]].
  - exists top, wp. split; [reflexivity|]. split; [|exact Hk].
    unfold Design.sig_width. cbn [m_ports top wrapper_top]. rewrite (assoc_In_nodup io p wp Hnd Hin). reflexivity.
  - exists top, x, wp. split; [reflexivity|]. split.
    { cbn [m_insts top wrapper_top find_inst]. change (i_name (wrapper_inst nm io)) with (sn_units nm).
      rewrite String.eqb_refl. reflexivity. }
    split; [reflexivity|].
    split; [|exact Hk]. unfold port_width. cbn [i_of x wrapper_inst target_ports bind].
    rewrite (assoc_In_nodup io p wp Hnd Hin). reflexivity.
Qed.

Theorem wrapper_exported xi p : xinfo_ok xi d = true -> elab_export_model2 xi d = Ok p ->
  exists pd, design_of_pkg prims_ext p (sn_mod nm) = Ok pd /\
    (forall t, wrapper_term nm io t -> valid pd (term_map2 xi d t)) /\
    (forall t1 t2, wrapper_term nm io t1 -> wrapper_term nm io t2 ->
       (same_net pd (term_map2 xi d t1) (term_map2 xi d t2) <-> wrapper_node_key t1 = wrapper_node_key t2)).
Proof.
  intros Hxi Hp. destruct (end_to_end2 xi d p wrapper_wf_design wrapper_frag_ok2 Hxi Hp) as [tn [pd [Htn [Hpd [Hv [Hs Hd]]]]]].
  change (top_name d) with (Ok (sn_mod nm)) in Htn. injection Htn as <-.
  exists pd. split; [exact Hpd|]. split.
  - intros t Ht. apply Hv. exact (wrapper_valid t Ht).
  - intros t1 t2 H1 H2. rewrite (Hs t1 t2 (wrapper_valid t1 H1) (wrapper_valid t2 H2)).
    exact (wrapper_partition nm io t1 t2 Hok H1 H2).
Qed.

Theorem wrapper_export_total xi : xinfo_ok xi d = true ->
  (exists p, elab_export_model2 xi d = Ok p) \/ elab_export_model2 xi d = Error EName.
Proof. intros Hxi. exact (pipeline_total2 xi d wrapper_wf_design wrapper_frag_ok2 Hxi). Qed.
End Wrapper.

(* ---------------- the bridge from Model/C19Series.v ---------------- *)
(* a module of the generator model, given the name and the unit identity the exporter knows it by *)
Definition named (mn dev : name) (m : module) : module :=
  {| m_name := mn; m_ports := m_ports m; m_sigs := m_sigs m;
     m_insts := map (fun x => {| i_name := i_name x; i_n := i_n x; i_of := TDev dev (inst_ports x); i_conns := i_conns x |}) (m_insts m);
     m_leaves := m_leaves m |}.

Lemma series_design_w1 nm io a b n : series_design nm io a b 1 n = series_design_code nm io a b n.
Proof. unfold series_design, series_design_code. rewrite Z.mul_1_r. reflexivity. Qed.

(* the design of the repaired code IS the module of Model/C19Series.v, for every width of the series ports *)
Lemma series_design_named u a b w n iname uname mn dev :
  series_design {| sn_mod := mn; sn_dev := dev; sn_i := iname; sn_units := uname |} (unit_io u) a b w n
  = {| d_mods := [named mn dev (series_module u a b w n iname uname)]; d_top := 0%nat |}.
Proof. reflexivity. Qed.

(* the design of the pinned code is the module of the pinned model *)
Lemma series_design_code_named u a b n iname uname mn dev :
  series_design_code {| sn_mod := mn; sn_dev := dev; sn_i := iname; sn_units := uname |} (unit_io u) a b n
  = {| d_mods := [named mn dev (series_module_pinned u a b n iname uname)]; d_top := 0%nat |}.
Proof. reflexivity. Qed.

Lemma wrapper_design_named u iname mn dev :
  wrapper_design {| sn_mod := mn; sn_dev := dev; sn_i := ""; sn_units := iname |} (unit_io u)
  = {| d_mods := [named mn dev (wrapper_module u iname)]; d_top := 0%nat |}.
Proof. reflexivity. Qed.

Lemma mem_cons_false s x l : mem s (x :: l) = false -> s <> x /\ mem s l = false.
Proof.
  unfold mem. cbn [existsb]. intros H. apply orb_false_elim in H. destruct H as [H1 H2]. split; [|exact H2].
  apply String.eqb_neq. exact H1.
Qed.

Theorem series_design_is_model u a b w n mn dev : wf_unit u = true -> 2 <= n -> a <> b ->
  assoc a (u_sigs u) = Some w -> assoc b (u_sigs u) = Some w -> mn <> "" ->
  exists iname uname,
    let nm := {| sn_mod := mn; sn_dev := dev; sn_i := iname; sn_units := uname |} in
    series_gen u a b n = Ok (series_module u a b w n iname uname) /\
    series_design nm (unit_io u) a b w n = {| d_mods := [named mn dev (series_module u a b w n iname uname)]; d_top := 0%nat |} /\
    (mem uname (map fst (unit_io u)) = false -> series_ok nm (unit_io u) a b w n = true) /\
    (u_buns u = [] -> series_ok nm (unit_io u) a b w n = true).
Proof.
  intros Hwf Hn Hab Ha Hb Hmn. destruct (series_gen_valid u a b n w w Hwf Hn Ha Hb) as [iname [uname [Hg [Hi [Hin Hun]]]]].
  exists iname, uname. cbv zeta. split; [exact Hg|]. split; [apply series_design_named|].
  destruct (mem_cons_false _ _ _ Hun) as [Hui Hunames].
  assert (mem uname (map fst (unit_io u)) = false -> series_ok {| sn_mod := mn; sn_dev := dev; sn_i := iname; sn_units := uname |} (unit_io u) a b w n = true) as G.
  { intros Huio. unfold series_ok. cbn [sn_mod sn_i sn_units].
    unfold wf_unit in Hwf. apply andb_prop in Hwf. destruct Hwf as [Hwf _]. apply andb_prop in Hwf. destruct Hwf as [Hwf _].
    apply andb_prop in Hwf. destruct Hwf as [Hwf _]. apply andb_prop in Hwf. destruct Hwf as [Hw Hnd].
    rewrite Hw, Hnd. cbn [andb].
    assert (String.eqb a b = false) as -> by (apply String.eqb_neq; exact Hab). cbn [negb andb].
    assert (forall c, assoc c (u_sigs u) = Some w -> assoc c (unit_io u) = Some w) as Hio.
    { intros c Hc. apply (assoc_In_nodup (unit_io u) c w Hnd). unfold unit_io. apply in_or_app. left. apply assoc_In. exact Hc. }
    rewrite (Hio a Ha), (Hio b Hb). rewrite Z.eqb_refl. cbn [andb]. rewrite Hi, Huio. cbn [negb andb].
    assert (String.eqb uname iname = false) as -> by (apply String.eqb_neq; exact Hui).
    assert (String.eqb mn "" = false) as -> by (apply String.eqb_neq; exact Hmn). cbn [negb andb]. lia. }
  split; [exact G|]. intros Hb0. apply G. unfold unit_io. rewrite Hb0. cbn [map concat]. rewrite app_nil_r.
  unfold unit_names in Hunames. rewrite Hb0 in Hunames. cbn [map] in Hunames. rewrite app_nil_r in Hunames. exact Hunames.
Qed.

(* ---------------- series ports wider than one bit: the module the PINNED generators.py built is not a valid design ---------------- *)
Theorem series_code_wide_rejected nm io a b w n : series_ok nm io a b w n = true -> 2 <= w ->
  wf_design (series_design_code nm io a b n) <> Ok tt.
Proof.
  intros Hok Hw2 H. destruct (series_ok_inv _ _ _ _ _ _ Hok) as [Hw [Hnd [Hab [Ha [Hb [Hi [Hu [Hui [Hm Hn]]]]]]]]].
  unfold wf_design in H. change (d_mods (series_design_code nm io a b n)) with [series_top nm io a b n (n - 1)] in H.
  change (d_top (series_design_code nm io a b n)) with 0%nat in H.
  cbn [List.length Nat.ltb Nat.leb check bind map WfDesign.nodup_names existsb negb andb wf_mods] in H.
  apply bind_ok in H. destruct H as [[] [Hmod _]].
  unfold wf_module in Hmod. apply bind_ok in Hmod. destruct Hmod as [[] [_ Hmod]].
  apply bind_ok in Hmod. destruct Hmod as [[] [_ Hmod]]. apply bind_ok in Hmod. destruct Hmod as [[] [_ Hmod]].
  pose proof (all_ok_In _ _ (series_inst nm io a b n (n - 1)) Hmod (or_introl eq_refl)) as Hinst.
  unfold wf_inst in Hinst. cbn [i_of series_inst target_ports bind] in Hinst.
  apply bind_ok in Hinst. destruct Hinst as [[] [_ Hinst]]. apply bind_ok in Hinst. destruct Hinst as [[] [Hc _]].
  destruct (In_number io (a, w) (assoc_In _ _ _ Ha) 0%N) as [id Hid].
  pose proof (all_ok_In _ _ (series_conn_w (N.of_nat (List.length io)) (n - 1) a b (id, (a, w))) Hc
                (in_map _ _ _ Hid)) as Hca.
  unfold wf_conn in Hca. cbn [series_conn_w fst snd] in Hca. rewrite Ha in Hca. cbn [ofopt bind] in Hca.
  assert (String.eqb a b = false) as Eab by (apply String.eqb_neq; exact Hab).
  rewrite Eab, String.eqb_refl in Hca.
  apply bind_ok in Hca. destruct Hca as [[] [_ Hca]]. cbn [is_nc] in Hca.
  apply bind_ok in Hca. destruct Hca as [[] [_ Hca]].
  cbn [xwidth map sum_results] in Hca.
  destruct (w <? 1) eqn:E1; [lia|]. destruct (n - 1 <? 1) eqn:E2; [lia|]. cbn [bind i_n series_inst] in Hca.
  apply check_ok in Hca. nia.
Qed.
