(* Proofs/C01FProofsEnd.v — the extended ResolvePortRefs model as a whole (step 1 ; step 2), its composition with
   ArrayFlattener, SliceResolver and the export (the C01E theorems for those are used as they are: they only need wfs),
   totality on acyclic designs, and agreement with the C01E model on frag_ok designs. *)
From Coq Require Import String.
Require Import Hdl21.Base.PyInt Hdl21.Spec.PySlice Hdl21.Model.Slice Hdl21.Model.Resolve Hdl21.Base.Design
               Hdl21.Spec.Nets Hdl21.Spec.WfDesign Hdl21.Base.Package Hdl21.Base.PrimTable Hdl21.Spec.PkgWf
               Hdl21.Spec.C01ENets Hdl21.Model.C01EElab Hdl21.Model.C01FElab Hdl21.Spec.C01FNets
               Hdl21.Proofs.ResolveProofs Hdl21.Proofs.C01EProofsGraph Hdl21.Proofs.C01EProofsBase Hdl21.Proofs.C01EProofsPass
               Hdl21.Proofs.C01EProofsSim Hdl21.Proofs.C01EProofsWfs Hdl21.Proofs.C01EProofsNames Hdl21.Proofs.C01EProofsSlices
               Hdl21.Proofs.C01EProofsArrays Hdl21.Proofs.C01EProofsExport Hdl21.Proofs.C01EProofsEnd
               Hdl21.Proofs.C01FProofsGroups Hdl21.Proofs.C01FProofsPlan Hdl21.Proofs.C01FProofsWfs1 Hdl21.Proofs.C01FProofsPortRefs
               Hdl21.Proofs.C01FProofsPortRefsD Hdl21.Proofs.C01FProofsReparent Hdl21.Proofs.C01FProofsReparentD Hdl21.Proofs.C01FProofsTotal.
Require Hdl21.Proofs.C01EProofsPortRefs Hdl21.Proofs.C01EProofsPortRefsD.
Open Scope Z_scope.

(* ------------------------------------------------------------------------------------------ step 1 ; step 2 *)
Lemma portrefs2_split xi d d2 : portrefs2_design xi d = Ok d2 ->
  exists d1, portrefs1_design xi d = Ok d1 /\ RPD d1 d2.
Proof.
  unfold portrefs2_design, portrefs1_design, map_modules. intros H. apply bind_ok in H. destruct H as [ms2 [Hms H]]. inversion H; subst d2. clear H. cbn [d_top d_mods].
  assert (exists ms1, traverse (fun m => km <- portrefs1_module d (ncnames xi m) m ;; Ok (snd km)) (d_mods d) = Ok ms1 /\ Forall2 RPM ms1 ms2) as [ms1 [H1 F]].
  { revert ms2 Hms. induction (d_mods d) as [|m l IH]; intros ms2 Hms; cbn [traverse] in *.
    - inversion Hms. exists []. split; [reflexivity|constructor].
    - apply bind_ok in Hms. destruct Hms as [m2 [Hm2 Hms]]. apply bind_ok in Hms. destruct Hms as [r2 [Hr2 Hms]]. inversion Hms; subst ms2.
      unfold portrefs2_module in Hm2. apply bind_ok in Hm2. destruct Hm2 as [km [Hkm Hrp]]. rewrite Hkm. cbn [bind].
      destruct (IH r2 Hr2) as [r1 [Hr1 F]]. rewrite Hr1. cbn [bind]. exists (snd km :: r1). split; [reflexivity|].
      constructor; [exists (ref_fuel (fst km)); exact Hrp|exact F]. }
  rewrite H1. cbn [bind]. eexists. split; [reflexivity|]. split; [reflexivity|exact F].
Qed.

Section PR2.
Variables (xi : xinfo) (d d2 : design).
Hypothesis Hwf : wf_design d = Ok tt.
Hypothesis Hfr : frag_ok2 d = true.
Hypothesis Hxi : xinfo_ok xi d = true.
Hypothesis Hpass : portrefs2_design xi d = Ok d2.

Lemma pr2_parts : exists d1, portrefs1_design xi d = Ok d1 /\ RPD d1 d2 /\ wfs1 d1.
Proof.
  destruct (portrefs2_split xi d d2 Hpass) as [d1 [H1 R]]. exists d1. split; [exact H1|]. split; [exact R|].
  apply (portrefs1_wfs1 xi d d1 Hwf (frag_ok2_nc_frag d Hfr) Hxi H1).
Qed.

Theorem portrefs2_wfs : wfs d2.
Proof. destruct pr2_parts as [d1 [H1 [R W1]]]. apply (rpd_wfs d1 d2 W1 R). Qed.

Theorem pr2_valid_fwd x : valid d x -> valid d2 x.
Proof.
  destruct pr2_parts as [d1 [H1 [R W1]]]. intros Hv. apply (rpd_valid_fwd d1 d2 R).
  apply (pr_valid_fwd xi d d1 Hwf (frag_ok2_nc_frag d Hfr) Hxi H1). exact Hv.
Qed.

Theorem portrefs2_same_net x y : valid d x -> valid d y -> (same_net d x y <-> same_net d2 x y).
Proof.
  destruct pr2_parts as [d1 [H1 [R W1]]]. intros Hx Hy.
  rewrite (portrefs_same_net xi d d1 Hwf (frag_ok2_nc_frag d Hfr) (step_total2 d Hwf Hfr) Hxi H1 x y Hx Hy).
  apply (reparent_same_net d1 d2 W1 R); apply (pr_valid_fwd xi d d1 Hwf (frag_ok2_nc_frag d Hfr) Hxi H1); assumption.
Qed.

Theorem portrefs2_dev x dev : valid d x -> dev_at d x = Ok dev -> dev_at d2 x = Ok dev.
Proof.
  destruct pr2_parts as [d1 [H1 [R W1]]]. intros Hv Hd. apply (reparent_dev d1 d2 R).
  - apply (pr_valid_fwd xi d d1 Hwf (frag_ok2_nc_frag d Hfr) Hxi H1). exact Hv.
  - apply (portrefs_dev xi d d1 Hwf (frag_ok2_nc_frag d Hfr) Hxi H1); assumption.
Qed.
End PR2.

Lemma portrefs2_module_insts d ncn m m2 x2 : portrefs2_module d ncn m = Ok m2 -> In x2 (m_insts m2) ->
  exists x, In x (m_insts m) /\ i_of x = i_of x2.
Proof.
  unfold portrefs2_module. intros H Hx2. apply bind_ok in H. destruct H as [km [Hkm Hrp]].
  destruct (portrefs1_module_inv _ _ _ _ Hkm) as [keys [allocs [names [insts1 [_ [_ [_ [F ->]]]]]]]]. cbn [fst snd] in Hrp.
  destruct (reparent_module_inv _ _ _ Hrp) as [_ [_ [_ [_ F2]]]]. destruct (Forall2_In_r _ _ _ x2 F2 Hx2) as [x1 [Hx1 Hr]].
  cbn [m1 m_insts] in Hx1. destruct (Forall2_In_r _ _ _ x1 F Hx1) as [x [Hx Hrw]]. exists x. split; [exact Hx|].
  apply reparent_inst_inv in Hr. apply rewrite_inst_inv in Hrw. destruct Hr as [_ [_ [Ho2 _]]]. destruct Hrw as [_ [_ [Ho1 _]]]. congruence.
Qed.

Lemma portrefs2_xinfo xi d d2 : portrefs2_design xi d = Ok d2 -> xinfo_ok xi d = true -> xinfo_ok xi d2 = true.
Proof.
  intros Hp Hx. apply (xinfo_ok_mono xi d d2 Hx). apply (map_modules_insts_sub _ _ _ Hp).
  intros m m' x' Hm Hx'. eapply portrefs2_module_insts; eassumption.
Qed.

Lemma portrefs2_module_name d ncn m m2 : portrefs2_module d ncn m = Ok m2 -> m_name m2 = m_name m.
Proof.
  unfold portrefs2_module. intros H. apply bind_ok in H. destruct H as [km [Hkm Hrp]].
  destruct (portrefs1_module_inv _ _ _ _ Hkm) as [keys [allocs [names [insts1 [_ [_ [_ [F ->]]]]]]]]. cbn [fst snd] in Hrp.
  destruct (reparent_module_inv _ _ _ Hrp) as [Hn _]. exact Hn.
Qed.

(* ------------------------------------------------------------------------------------------ totality *)
Theorem portrefs2_total xi d : wf_design d = Ok tt -> frag_ok2 d = true -> xinfo_ok xi d = true ->
  (exists d2, portrefs2_design xi d = Ok d2) \/ portrefs2_design xi d = Error EName.
Proof.
  intros Hwf Hfr Hxi. destruct (wf_design_inv _ Hwf) as [_ [_ Hmods]]. unfold portrefs2_design. apply map_modules_ok_or.
  intros k m Hk. destruct (all_keys_total d k m (Hmods k m Hk)) as [keys Hkeys]. pose proof (proj2 (nth_mod_nth _ _ _) Hk) as Hkm.
  assert (forall x ports pw, In x (m_insts m) -> target_ports d (i_of x) = Ok ports -> In pw ports -> 1 <= snd pw) as Hpw.
  { intros x ports pw Hx Hp Hin. eapply port_widths_pos; try eassumption. }
  pose proof (frag_ok2_module d k m Hfr Hkm) as Hfrag.
  destruct (portrefs_module_total d (ncnames xi m) k m (Hmods k m Hk) Hfrag Hpw keys Hkeys) as [[km' E1]|E1].
  - left. unfold portrefs2_module. rewrite E1. cbn [bind].
    destruct (portrefs1_module_inv _ _ _ _ E1) as [keys' [allocs [names [insts1 [Hkeys' [Hplan [Hnames [Hins ->]]]]]]]]. cbn [fst snd].
    rewrite Hkeys in Hkeys'. inversion Hkeys'; subst keys'.
    apply (reparent_module_total d (ncnames xi m) k m (Hmods k m Hk) Hfrag Hpw keys allocs names Hkeys Hplan Hnames insts1 Hins).
    pose proof (frag_ok2_acyclic d k m Hfr Hkm) as Ha. unfold acyclic_module in Ha. rewrite Hkeys in Ha. exact Ha.
  - right. unfold portrefs2_module. rewrite E1. reflexivity.
Qed.

(* ------------------------------------------------------------------------------------------ the end-to-end statement *)
Definition term_map2 (xi : xinfo) (d : design) (n : node) : node :=
  match portrefs2_design xi d with Ok d1 => phi d1 elem_rename n | Error _ => n end.

Theorem end_to_end2 xi d p : wf_design d = Ok tt -> frag_ok2 d = true -> xinfo_ok xi d = true -> elab_export_model2 xi d = Ok p ->
  exists tn pd, top_name d = Ok tn /\ design_of_pkg prims_ext p tn = Ok pd /\
    (forall x, valid d x -> valid pd (term_map2 xi d x)) /\
    (forall x y, valid d x -> valid d y -> (same_net pd (term_map2 xi d x) (term_map2 xi d y) <-> same_net d x y)) /\
    (forall x dev, valid d x -> dev_at d x = Ok dev -> dev_at pd (term_map2 xi d x) = Ok dev).
Proof.
  intros Hwf Hfr Hxi H. unfold elab_export_model2, elab_model2 in H.
  apply bind_ok in H. destruct H as [d3 [Hel Hex]]. apply bind_ok in Hel. destruct Hel as [d1 [H1 Hel]]. apply bind_ok in Hel. destruct Hel as [d2 [H2 H3]].
  pose proof (portrefs2_wfs xi d d1 Hwf Hfr Hxi H1) as W1.
  destruct (arrays_wfs d1 d2 W1 H2) as [W2 NA2]. destruct (slices_wfs d2 d3 W2 H3) as [W3 [NA3 R3]].
  pose proof (slices_xinfo xi d2 d3 H3 (arrays_xinfo xi d1 d2 H2 (portrefs2_xinfo xi d d1 H1 Hxi))) as Hxi3.
  destruct (export_sound xi d3 W3 NA3 R3 Hxi3) as [p' [tn [pd [Hp' [Htn [Hpd [Vex [Sex Dex]]]]]]]]. rewrite Hex in Hp'. inversion Hp'; subst p'.
  exists tn, pd. split.
  { rewrite <- Htn. unfold slices_design in H3. unfold arrays_design in H2. unfold portrefs2_design in H1.
    rewrite (top_name_keep _ _ _ H3); [|intros m m' Hm; apply slices_module_inv in Hm; tauto].
    rewrite (top_name_keep _ _ _ H2); [|intros m m' Hm; destruct (arrays_module_inv _ _ _ Hm) as [_ [_ [_ [_ [Hn _]]]]]; exact Hn].
    rewrite (top_name_keep _ _ _ H1); [reflexivity|]. intros m m' Hm. eapply portrefs2_module_name. exact Hm. }
  split; [exact Hpd|]. unfold term_map2. rewrite H1.
  assert (forall x, valid d x -> valid d3 (phi d1 elem_rename x)) as V03.
  { intros x Hx. apply (slices_valid d2 d3 W2 H3). apply (arrays_valid d1 d2 W1 H2). apply (pr2_valid_fwd xi d d1 Hwf Hfr Hxi H1). exact Hx. }
  split; [intros x Hx; apply Vex; apply V03; exact Hx|]. split.
  - intros x y Hx Hy.
    pose proof (pr2_valid_fwd xi d d1 Hwf Hfr Hxi H1 x Hx) as Hx1. pose proof (pr2_valid_fwd xi d d1 Hwf Hfr Hxi H1 y Hy) as Hy1.
    pose proof (arrays_valid d1 d2 W1 H2 x Hx1) as Hx2. pose proof (arrays_valid d1 d2 W1 H2 y Hy1) as Hy2.
    rewrite <- (Sex _ _ (slices_valid d2 d3 W2 H3 _ Hx2) (slices_valid d2 d3 W2 H3 _ Hy2)).
    rewrite <- (slices_same_net d2 d3 W2 H3 _ _ Hx2 Hy2).
    rewrite <- (arrays_same_net d1 d2 W1 H2 x y Hx1 Hy1).
    rewrite <- (portrefs2_same_net xi d d1 Hwf Hfr Hxi H1 x y Hx Hy). reflexivity.
  - intros x dev Hx Hd.
    pose proof (pr2_valid_fwd xi d d1 Hwf Hfr Hxi H1 x Hx) as Hx1. pose proof (arrays_valid d1 d2 W1 H2 x Hx1) as Hx2.
    apply Dex; [apply (slices_valid d2 d3 W2 H3); exact Hx2|]. apply (slices_dev d2 d3 W2 H3); [exact Hx2|].
    apply (arrays_dev d1 d2 W1 H2); [exact Hx1|]. apply (portrefs2_dev xi d d1 Hwf Hfr Hxi H1); assumption.
Qed.

Theorem pipeline_total2 xi d : wf_design d = Ok tt -> frag_ok2 d = true -> xinfo_ok xi d = true ->
  (exists p, elab_export_model2 xi d = Ok p) \/ elab_export_model2 xi d = Error EName.
Proof.
  intros Hwf Hfr Hxi. unfold elab_export_model2, elab_model2.
  destruct (portrefs2_total xi d Hwf Hfr Hxi) as [[d1 H1]|H1]; rewrite H1; cbn [bind]; [|right; reflexivity].
  pose proof (portrefs2_wfs xi d d1 Hwf Hfr Hxi H1) as W1.
  destruct (arrays_total d1 W1) as [[d2 H2]|H2]; rewrite H2; cbn [bind]; [|right; reflexivity].
  destruct (arrays_wfs d1 d2 W1 H2) as [W2 NA2]. destruct (slices_total d2 W2 NA2) as [d3 H3]. rewrite H3. cbn [bind].
  destruct (slices_wfs d2 d3 W2 H3) as [W3 [NA3 R3]].
  pose proof (slices_xinfo xi d2 d3 H3 (arrays_xinfo xi d1 d2 H2 (portrefs2_xinfo xi d d1 H1 Hxi))) as Hxi3.
  destruct (export_sound xi d3 W3 NA3 R3 Hxi3) as [p [_ [_ [Hp _]]]]. left. eauto.
Qed.

Theorem pipeline_pkg_wf2 xi d p : wf_design d = Ok tt -> frag_ok2 d = true -> xinfo_ok xi d = true ->
  elab_export_model2 xi d = Ok p -> wf_pkg prims_ext p = Ok tt.
Proof.
  intros Hwf Hfr Hxi H. unfold elab_export_model2, elab_model2 in H.
  apply bind_ok in H. destruct H as [d3 [Hel Hex]]. apply bind_ok in Hel. destruct Hel as [d1 [H1 Hel]]. apply bind_ok in Hel. destruct Hel as [d2 [H2 H3]].
  pose proof (portrefs2_wfs xi d d1 Hwf Hfr Hxi H1) as W1.
  destruct (arrays_wfs d1 d2 W1 H2) as [W2 NA2]. destruct (slices_wfs d2 d3 W2 H3) as [W3 [NA3 R3]].
  pose proof (slices_xinfo xi d2 d3 H3 (arrays_xinfo xi d1 d2 H2 (portrefs2_xinfo xi d d1 H1 Hxi))) as Hxi3.
  destruct (export_ok xi d3 W3 NA3 R3 Hxi3) as [st [pms [_ [Hinv [_ [_ [Hpms Hp]]]]]]]. rewrite Hex in Hp. inversion Hp; subst p.
  apply (export_pkg_wf xi d3 W3 NA3 R3 Hxi3 st pms Hinv Hpms).
Qed.

(* ------------------------------------------------------------------------------------------ nothing is lost: frag_ok designs *)
Lemma conn_frag_no_refs d m x c : conn_frag d m x c = true -> as_ref m (snd c) = None -> refs_in m (snd c) = [].
Proof.
  intros Hf Hr. unfold conn_frag in Hf. unfold refs_in. destruct (snd c) as [id w|p ix|ps] eqn:Ec.
  - cbn [sx_leaves flat_map]. unfold leaf_ref. cbn [fst]. unfold as_ref, leaf_at in Hr.
    destruct (assocN id (m_leaves m)) as [[s|i p|s]|]; try reflexivity. discriminate.
  - rewrite forallb_forall in Hf. induction (sx_leaves (XSlice p ix)) as [|lw l IH]; cbn [flat_map]; [reflexivity|].
    rewrite IH by (intros y Hy; apply Hf; right; exact Hy). specialize (Hf lw (or_introl eq_refl)). unfold leaf_kind in Hf. unfold leaf_ref.
    destruct (assocN (fst lw) (m_leaves m)) as [[s|i p0|s]|]; try reflexivity. discriminate.
  - rewrite forallb_forall in Hf. induction (sx_leaves (XConcat ps)) as [|lw l IH]; cbn [flat_map]; [reflexivity|].
    rewrite IH by (intros y Hy; apply Hf; right; exact Hy). specialize (Hf lw (or_introl eq_refl)). unfold leaf_kind in Hf. unfold leaf_ref.
    destruct (assocN (fst lw) (m_leaves m)) as [[s|i p0|s]|]; try reflexivity. discriminate.
Qed.

Section Agree.
Variables (d : design) (m : module).
Hypothesis Hfrag : forall x c, In x (m_insts m) -> In c (i_conns x) -> conn_frag d m x c = true.

Lemma conn_refs_as_ref x c : In x (m_insts m) -> In c (i_conns x) ->
  refs_in m (snd c) = match as_ref m (snd c) with Some q => [q] | None => [] end.
Proof.
  intros Hx Hc. destruct (as_ref m (snd c)) as [q|] eqn:E.
  - destruct (C01FProofsGroups.as_ref_shape _ _ _ E) as [id [w [Es Hl]]]. rewrite Es. unfold refs_in. cbn [sx_leaves flat_map]. unfold leaf_ref. cbn [fst].
    rewrite Hl. destruct q; reflexivity.
  - apply (conn_frag_no_refs d m x c (Hfrag x c Hx Hc) E).
Qed.

Lemma mentioned2_eq : mentioned2 m = mentioned m.
Proof.
  unfold mentioned2, mentioned. f_equal.
  assert (forall l : list inst, (forall x, In x l -> In x (m_insts m)) ->
            flat_map (fun x => flat_map (fun c => refs_in m (snd c)) (i_conns x)) l =
            flat_map (fun x => flat_map (fun c => match as_ref m (snd c) with Some q => [q] | None => [] end) (i_conns x)) l) as G.
  { induction l as [|x l IH]; intros Hl; cbn [flat_map]; [reflexivity|]. rewrite IH by (intros y Hy; apply Hl; right; exact Hy). f_equal.
    assert (forall cs : list (name * sx), (forall c, In c cs -> In c (i_conns x)) ->
              flat_map (fun c => refs_in m (snd c)) cs = flat_map (fun c => match as_ref m (snd c) with Some q => [q] | None => [] end) cs) as G2.
    { induction cs as [|c cs IH2]; intros Hcs; cbn [flat_map]; [reflexivity|]. rewrite IH2 by (intros y Hy; apply Hcs; right; exact Hy). f_equal.
      apply (conn_refs_as_ref x c (Hl x (or_introl eq_refl)) (Hcs c (or_introl eq_refl))). }
    apply G2. auto. }
  apply G. auto.
Qed.

Lemma seeds2_eq : seeds2 m = seeds m.
Proof. unfold seeds2, seeds, inst_seeds2, inst_seeds. rewrite mentioned2_eq. reflexivity. Qed.

(* the sources of a frag_ok module mention no reference: its groups do not depend on one another at all *)
Lemma frag_acyc keys q f : acyc m keys (S f) q = true.
Proof.
  cbn [acyc]. destruct (src m keys q) as [cx|] eqn:E; [|reflexivity].
  unfold src in E. destruct (gid m keys q) as [g|]; [|discriminate]. unfold group_res in E.
  destruct (pconn m (attr m keys g)) as [cx'|] eqn:Ep; [|discriminate].
  destruct (as_ref m cx') eqn:Er; [destruct (members m keys g); discriminate|]. destruct (as_nc m cx'); [discriminate|]. inversion E; subst cx'.
  unfold pconn in Ep. destruct (find_inst (m_insts m) (fst (attr m keys g))) as [x|] eqn:Ef; [|discriminate].
  destruct (find_inst_In _ _ _ Ef) as [Hx _]. pose proof (assoc_In _ _ _ Ep) as Hc.
  pose proof (conn_refs_as_ref x (snd (attr m keys g), cx) Hx Hc) as R. cbn [snd] in R. rewrite Er in R. rewrite R. reflexivity.
Qed.
End Agree.

Theorem frag_ok_frag_ok2 d : frag_ok d = true -> frag_ok2 d = true.
Proof.
  unfold frag_ok, frag_ok2. intros H. rewrite forallb_forall in *. intros m Hm. specialize (H m Hm). apply andb_true_intro. split.
  - rewrite forallb_forall in *. intros x Hx. specialize (H x Hx). rewrite forallb_forall in *. intros c Hc. specialize (H c Hc).
    unfold conn_frag in H. unfold conn_frag2. destruct (snd c); [exact H|reflexivity|reflexivity].
  - unfold acyclic_module. destruct (all_keys d m) as [keys|]; [|reflexivity]. apply forallb_forall. intros q _.
    unfold ref_fuel. apply (frag_acyc d m). intros x c Hx Hc. rewrite forallb_forall in H. specialize (H x Hx). rewrite forallb_forall in H. apply H. exact Hc.
Qed.

Lemma reparent_module_id d km m fuel : module_ok d km m -> reparent_module fuel m = Ok m.
Proof.
  intros [_ [_ [_ Hi]]]. unfold reparent_module.
  assert (traverse (reparent_inst m fuel) (m_insts m) = Ok (m_insts m)) as ->; [|cbn [bind]; destruct m; reflexivity].
  rewrite Forall_forall in Hi.
  assert (forall l : list inst, (forall x, In x l -> In x (m_insts m)) -> traverse (reparent_inst m fuel) l = Ok l) as G; [|apply G; auto].
  induction l as [|x l IH]; intros Hl; cbn [traverse]; [reflexivity|].
  rewrite IH by (intros y Hy; apply Hl; right; exact Hy).
  assert (reparent_inst m fuel x = Ok x) as ->; [|reflexivity].
  destruct (Hi x (Hl x (or_introl eq_refl))) as [_ [ports [_ [_ [Hc _]]]]]. unfold reparent_inst.
  assert (traverse (fun c : name * sx => e <- reparent m fuel (snd c) ;; Ok (fst c, e)) (i_conns x) = Ok (i_conns x)) as ->; [|cbn [bind]; destruct x; reflexivity].
  rewrite Forall_forall in Hc.
  assert (forall cs : list (name * sx), (forall c, In c cs -> In c (i_conns x)) ->
            traverse (fun c : name * sx => e <- reparent m fuel (snd c) ;; Ok (fst c, e)) cs = Ok cs) as G2; [|apply G2; auto].
  induction cs as [|c cs IH2]; intros Hcs; cbn [traverse]; [reflexivity|].
  rewrite IH2 by (intros y Hy; apply Hcs; right; exact Hy).
  assert (reparent m fuel (snd c) = Ok (snd c)) as ->; [|cbn [bind]; destruct c; reflexivity].
  destruct (Hc c (Hcs c (or_introl eq_refl))) as [w [cw [_ [_ [Hl' _]]]]]. rewrite reparent_unfold. apply sx_subst_id.
  intros id w0 Hin. rewrite Forall_forall in Hl'. destruct (Hl' _ Hin) as [s [Hs _]]. cbn [fst] in Hs. unfold rp_leaf, ref_leaf. rewrite Hs. reflexivity.
Qed.

Theorem portrefs2_module_agrees xi d k m : wf_design d = Ok tt -> frag_ok d = true -> xinfo_ok xi d = true -> nth_mod d k = Ok m ->
  portrefs2_module d (ncnames xi m) m = portrefs_module d (ncnames xi m) m.
Proof.
  intros Hwf Hfr Hxi Hk. destruct (wf_design_inv _ Hwf) as [_ [_ Hmods]]. pose proof (Hmods k m (proj1 (nth_mod_nth _ _ _) Hk)) as Hwm.
  pose proof (C01EProofsPortRefsD.frag_ok_module d k m Hfr Hk) as Hfrag.
  assert (forall x ports pw, In x (m_insts m) -> target_ports d (i_of x) = Ok ports -> In pw ports -> 1 <= snd pw) as Hpw.
  { intros x ports pw Hx Hp Hin. eapply port_widths_pos; try eassumption. }
  unfold portrefs2_module, portrefs1_module, pr_table2, portrefs_module, pr_table. rewrite (seeds2_eq d m Hfrag).
  destruct (all_keys d m) as [keys|e] eqn:Hkeys; cbn [bind]; [|reflexivity].
  destruct (plan d (ncnames xi m) m keys (seeds m) []) as [allocs|e] eqn:Hplan; cbn [bind]; [|reflexivity].
  destruct (alloc_names (map a_base allocs) (namespace m)) as [names|e] eqn:Hnames; cbn [bind fst snd]; [|reflexivity].
  destruct (traverse (rewrite_inst m keys (number_allocs (combine allocs names) (next_leaf m))) (m_insts m)) as [insts1|e] eqn:Hins; cbn [bind fst snd]; [|reflexivity].
  apply (reparent_module_id d k).
  apply (C01EProofsPortRefs.pr_module_ok d (ncnames xi m) k m Hwm Hfrag Hpw keys allocs names Hkeys Hplan Hnames insts1 (traverse_Forall2 _ _ _ Hins)).
Qed.

Theorem portrefs2_design_agrees xi d : wf_design d = Ok tt -> frag_ok d = true -> xinfo_ok xi d = true ->
  portrefs2_design xi d = portrefs_design xi d.
Proof.
  intros Hwf Hfr Hxi. unfold portrefs2_design, portrefs_design, map_modules.
  assert (forall l : list module, (forall m, In m l -> exists k, nth_mod d k = Ok m) ->
            traverse (fun m => portrefs2_module d (ncnames xi m) m) l = traverse (fun m => portrefs_module d (ncnames xi m) m) l) as G.
  { induction l as [|m l IH]; intros Hl; cbn [traverse]; [reflexivity|]. destruct (Hl m (or_introl eq_refl)) as [k Hk].
    rewrite (portrefs2_module_agrees xi d k m Hwf Hfr Hxi Hk). rewrite IH by (intros y Hy; apply Hl; right; exact Hy). reflexivity. }
  rewrite G; [reflexivity|]. intros m Hm. apply In_nth_error in Hm. destruct Hm as [k Hk]. exists k. apply nth_mod_nth. exact Hk.
Qed.

Theorem model2_agrees xi d : wf_design d = Ok tt -> frag_ok d = true -> xinfo_ok xi d = true ->
  elab_export_model2 xi d = elab_export_model xi d.
Proof.
  intros Hwf Hfr Hxi. unfold elab_export_model2, elab_model2, elab_export_model, elab_model.
  rewrite (portrefs2_design_agrees xi d Hwf Hfr Hxi). reflexivity.
Qed.
