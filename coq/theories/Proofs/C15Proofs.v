(* Proofs/C15Proofs.v — lemmas behind Props/C15.v.
   Part 1: the hierarchy walker (only `of` is rewritten; caches; idempotence)      — induction over the hierarchy
   Part 2: the PDK registry                                                         — invariant over histories
   Part 3: device selection: model vs specification, no escaping lookup failure     — general, from per-entry facts
   Part 4: the per-entry facts of the REGENERATED tables                            — vm_compute + forallb_forall *)
From Coq Require Import String Ascii.
Require Import Hdl21.Base.PyInt Hdl21.Spec.PdkSpec Hdl21.Model.PdkSelect Hdl21.Model.Walker Hdl21.Model.PdkRegistry
               Hdl21.Spec.C15Swap.
Require Import Hdl21Gen.PrimitivePorts Hdl21Gen.PdkTables_sample Hdl21Gen.PdkTables_sky130
               Hdl21Gen.PdkTables_gf180 Hdl21Gen.PdkTables_asap7.
Open Scope string_scope.
Open Scope list_scope.
Open Scope Z_scope.

(* ================================================================ Part 0: decidable equalities *)
Lemma opt_eqb_eq {A} (f : A -> A -> bool) (Hf : forall x y, f x y = true -> x = y) a b : opt_eqb f a b = true -> a = b.
Proof. destruct a, b; cbn; try discriminate; auto. intros H. f_equal. auto. Qed.

Lemma str_eqb_eq a b : String.eqb a b = true -> a = b.
Proof. apply String.eqb_eq. Qed.

Lemma pparams_eqb_eq a b : pparams_eqb a b = true -> a = b.
Proof.
  unfold pparams_eqb. intros H. repeat (apply andb_true_iff in H; destruct H as [H ?]).
  destruct a, b; cbn in *.
  apply (opt_eqb_eq _ str_eqb_eq) in H. apply str_eqb_eq in H6, H5, H4.
  apply (opt_eqb_eq _ pv_eqb_eq) in H3, H2, H1, H0. congruence.
Qed.

Lemma ckey_eqb_eq a b : ckey_eqb a b = true -> a = b.
Proof.
  unfold ckey_eqb. intros H. apply andb_true_iff in H. destruct H as [H1 H2].
  apply group_eqb_eq in H1. apply pparams_eqb_eq in H2. destruct a, b; cbn in *; congruence.
Qed.

Lemma ckey_eqb_refl a : ckey_eqb a a = true.
Proof. unfold ckey_eqb. rewrite group_eqb_refl, pparams_eqb_refl. reflexivity. Qed.

Lemma strs_eqb_eq a : forall b, strs_eqb a b = true -> a = b.
Proof.
  induction a as [|x a IH]; destruct b as [|y b]; cbn; try discriminate; auto.
  intros H. apply andb_true_iff in H. destruct H as [H1 H2]. apply str_eqb_eq in H1. f_equal; auto.
Qed.

Lemma strs_eqb_refl a : strs_eqb a a = true.
Proof. induction a; cbn; auto. rewrite String.eqb_refl. auto. Qed.

Lemma mem_In s l : mem s l = true <-> In s l.
Proof.
  unfold mem. rewrite existsb_exists. split.
  - intros [x [H1 H2]]. apply str_eqb_eq in H2. subst. exact H1.
  - intros H. exists s. split; [exact H|apply String.eqb_refl].
Qed.

(* ================================================================ Part 1: the walker *)
Definition cache_ext (c c' : list (ckey * call)) : Prop := forall key v, lookup key c = Some v -> lookup key c' = Some v.

Lemma cache_ext_refl c : cache_ext c c. Proof. intros key v H. exact H. Qed.
Lemma cache_ext_trans a b c : cache_ext a b -> cache_ext b c -> cache_ext a c.
Proof. intros H1 H2 key v H. auto. Qed.

(* every cached call is the one the selection builds for its key *)
Definition cache_ok (k : pdk) (c : list (ckey * call)) : Prop :=
  forall g prm v, lookup (g, prm) c = Some v -> conv_g k g prm = SOk (c_spec v).

Definition in_cache (c : list (ckey * call)) : ckey -> call -> Prop := fun key v => lookup key c = Some v.

Lemma module_call_spec k g prm st c st' : module_call k g prm st = SOk (c, st') ->
  cache_ext (cache st) (cache st') /\ lookup (g, prm) (cache st') = Some c /\
  (cache_ok k (cache st) -> cache_ok k (cache st')).
Proof.
  unfold module_call. destruct (lookup (g, prm) (cache st)) eqn:L.
  - intros H. inversion H; subst. split; [apply cache_ext_refl|]. split; [exact L|auto].
  - destruct (conv_g k g prm) as [cs|e] eqn:C; cbn [sbind]; [|discriminate].
    intros H. inversion H; subst. cbn [cache]. split; [|split].
    + intros key v Hk. cbn [lookup]. destruct (ckey_eqb key (g, prm)) eqn:E; [|exact Hk].
      apply ckey_eqb_eq in E. subst. congruence.
    + cbn [lookup]. rewrite ckey_eqb_refl. reflexivity.
    + intros Hok g' prm' v. cbn [lookup]. destruct (ckey_eqb (g', prm') (g, prm)) eqn:E.
      * apply ckey_eqb_eq in E. inversion E; subst. intros Hv. inversion Hv; subst. cbn [c_spec]. exact C.
      * apply Hok.
Qed.

Lemma rel_mono k (P Q : ckey -> call -> Prop) (HPQ : forall key c, P key c -> Q key c) :
  (forall t t', trel k P t t' -> trel k Q t t') /\
  (forall m m', mrel k P m m' -> mrel k Q m m') /\
  (forall l l', irel k P l l' -> irel k Q l l').
Proof.
  apply rel_mutind; intros; try (constructor; auto; fail).
  eapply TR_swap; eauto.
Qed.

Lemma in_cache_mono c c' : cache_ext c c' -> forall key v, in_cache c key v -> in_cache c' key v.
Proof. intros H key v. apply H. Qed.

(* the walk: only `of` changes, every swapped position holds the cached call of its key, caches only grow *)
Lemma visit_rel k :
  (forall t st t' st', visit_target k st t = SOk (t', st') ->
     cache_ext (cache st) (cache st') /\ trel k (in_cache (cache st')) t t' /\ (cache_ok k (cache st) -> cache_ok k (cache st'))) /\
  (forall m st m' st', visit_module k st m = SOk (m', st') ->
     cache_ext (cache st) (cache st') /\ mrel k (in_cache (cache st')) m m' /\ (cache_ok k (cache st) -> cache_ok k (cache st'))) /\
  (forall l st l' st', visit_insts k st l = SOk (l', st') ->
     cache_ext (cache st) (cache st') /\ irel k (in_cache (cache st')) l l' /\ (cache_ok k (cache st) -> cache_ok k (cache st'))).
Proof.
  apply design_mutind.
  - (* TMod *) intros m IH st t' st' H. cbn [visit_target] in H.
    destruct (visit_module k st m) as [[m1 st1]|e] eqn:E; cbn [sbind fst snd] in H; [|discriminate].
    inversion H; subst. destruct (IH _ _ _ E) as [A [B C]]. split; [exact A|]. split; [constructor; exact B|exact C].
  - (* TPrim *) intros p prm st t' st' H. cbn [visit_target] in H. destruct (group_of k p) as [g|] eqn:G.
    + destruct (module_call k g prm st) as [[c st1]|e] eqn:E; cbn [sbind fst snd] in H; [|discriminate].
      inversion H; subst. destruct (module_call_spec _ _ _ _ _ _ E) as [A [B C]].
      split; [exact A|]. split; [eapply TR_swap; [exact G|exact B]|exact C].
    + inversion H; subst. split; [apply cache_ext_refl|]. split; [constructor; exact G|auto].
  - (* TCall *) intros c st t' st' H. inversion H; subst. split; [apply cache_ext_refl|]. split; [constructor|auto].
  - (* TExt *) intros n st t' st' H. inversion H; subst. split; [apply cache_ext_refl|]. split; [constructor|auto].
  - (* Mod *) intros name l IH st m' st' H. cbn [visit_module] in H.
    destruct (visit_insts k st l) as [[l1 st1]|e] eqn:E; cbn [sbind fst snd] in H; [|discriminate].
    inversion H; subst. destruct (IH _ _ _ E) as [A [B C]]. split; [exact A|]. split; [constructor; exact B|exact C].
  - (* INil *) intros st l' st' H. inversion H; subst. split; [apply cache_ext_refl|]. split; [constructor|auto].
  - (* ICons *) intros n c t IHt r IHr st l' st' H. cbn [visit_insts] in H.
    destruct (visit_target k st t) as [[t1 st1]|e] eqn:E1; cbn [sbind fst snd] in H; [|discriminate].
    destruct (visit_insts k st1 r) as [[r1 st2]|e] eqn:E2; cbn [sbind fst snd] in H; [|discriminate].
    inversion H; subst. destruct (IHt _ _ _ E1) as [A1 [B1 C1]]. destruct (IHr _ _ _ E2) as [A2 [B2 C2]].
    split; [eapply cache_ext_trans; eauto|]. split; [|auto].
    constructor; [|exact B2].
    eapply (proj1 (rel_mono k _ _ (in_cache_mono _ _ A2))). exact B1.
Qed.

Definition start_state (k : pdk) (st : wst) : wst := if global_cache k then st else {| cache := []; next := next st |}.

Lemma cache_ok_nil k : cache_ok k []. Proof. intros g prm v H. discriminate. Qed.

Lemma compile_rel k st m m' st' : compile k st m = SOk (m', st') ->
  mrel k (in_cache (cache st')) m m' /\ cache_ext (cache (start_state k st)) (cache st') /\
  (cache_ok k (cache (start_state k st)) -> cache_ok k (cache st')).
Proof.
  unfold compile. fold (start_state k st). intros H.
  destruct (proj1 (proj2 (visit_rel k)) _ _ _ _ H) as [A [B C]]. auto.
Qed.

(* the swapped positions carry the relation's calls *)
Lemma swaps_rel k P :
  (forall t t', trel k P t t' -> forall key c, In (key, c) (swaps_t k t t') -> P key c) /\
  (forall m m', mrel k P m m' -> forall key c, In (key, c) (swaps_m k m m') -> P key c) /\
  (forall l l', irel k P l l' -> forall key c, In (key, c) (swaps_i k l l') -> P key c).
Proof.
  apply rel_mutind.
  - intros m m' _ IH key c. cbn [swaps_t]. apply IH.
  - intros p prm G key c. cbn [swaps_t In]. tauto.
  - intros p prm g c G HP key c'. cbn [swaps_t]. rewrite G. cbn [In]. intros [E|[]]. inversion E; subst. exact HP.
  - intros c key c'. cbn. tauto.
  - intros n key c. cbn. tauto.
  - intros name l l' _ IH key c. cbn [swaps_m]. apply IH.
  - intros key c. cbn. tauto.
  - intros n c t t' r r' _ IHt _ IHr key c'. cbn [swaps_i]. rewrite in_app_iff. intros [H|H]; eauto.
Qed.

(* after a compilation no mapped generic primitive is left ... *)
Lemma rel_ng k P :
  (forall t t', trel k P t t' -> ng_t k t' = true) /\
  (forall m m', mrel k P m m' -> ng_m k m' = true) /\
  (forall l l', irel k P l l' -> ng_i k l' = true).
Proof.
  apply rel_mutind; intros; cbn [ng_t ng_m ng_i]; auto.
  - rewrite H. reflexivity.
  - rewrite H0, H2. reflexivity.
Qed.

(* ... and a design without one is left as it is, with the walker state as it is *)
Lemma visit_ng k :
  (forall t st, ng_t k t = true -> visit_target k st t = SOk (t, st)) /\
  (forall m st, ng_m k m = true -> visit_module k st m = SOk (m, st)) /\
  (forall l st, ng_i k l = true -> visit_insts k st l = SOk (l, st)).
Proof.
  apply design_mutind.
  - intros m IH st H. cbn [ng_t] in H. cbn [visit_target]. rewrite (IH st H). reflexivity.
  - intros p prm st H. cbn [ng_t] in H. cbn [visit_target]. destruct (group_of k p); [discriminate|reflexivity].
  - reflexivity.
  - reflexivity.
  - intros name l IH st H. cbn [ng_m] in H. cbn [visit_module]. rewrite (IH st H). reflexivity.
  - reflexivity.
  - intros n c t IHt r IHr st H. cbn [ng_i] in H. apply andb_true_iff in H. destruct H as [H1 H2].
    cbn [visit_insts]. rewrite (IHt st H1). cbn [sbind fst snd]. rewrite (IHr st H2). reflexivity.
Qed.

(* hierarchy, names and connections: the instance view of related designs *)
Fixpoint names_conns (l : list (string * list (string * string) * target)) : list (string * list (string * string)) :=
  match l with [] => [] | (n, c, _) :: r => (n, c) :: names_conns r end.

Lemma names_conns_app a b : names_conns (a ++ b) = names_conns a ++ names_conns b.
Proof. induction a as [|[[n c] t] a IH]; cbn; [reflexivity|]. rewrite IH. reflexivity. Qed.

Lemma rel_names_conns k P :
  (forall t t', trel k P t t' -> names_conns (insts_t t) = names_conns (insts_t t')) /\
  (forall m m', mrel k P m m' -> names_conns (insts_m m) = names_conns (insts_m m')) /\
  (forall l l', irel k P l l' -> names_conns (insts_i l) = names_conns (insts_i l')).
Proof.
  apply rel_mutind; intros; cbn [insts_t insts_m insts_i names_conns]; auto.
  rewrite !names_conns_app. congruence.
Qed.

(* ================================================================ Part 2: the registry *)
(* every name is bound to a registered module of that name, the default is registered, every registered module's name is bound *)
Definition rinv2 (info : minfo) (st : rst) : Prop :=
  (forall s m, name_get s (r_names st) = Some m -> inb m (r_mods st) = true /\ fst (info m) = s) /\
  (forall d, r_default st = Some d -> inb d (r_mods st) = true) /\
  (forall m, inb m (r_mods st) = true -> exists m', name_get (fst (info m)) (r_names st) = Some m').

Lemma inb_cons m x l : inb m (x :: l) = N.eqb m x || inb m l.
Proof. reflexivity. Qed.

Lemma inb_single m x : inb m [x] = true -> m = x.
Proof. rewrite inb_cons. cbn. rewrite orb_false_r. apply N.eqb_eq. Qed.

Lemma rinv2_r0 info : rinv2 info r0.
Proof. repeat split; cbn; intros; discriminate. Qed.

Lemma register_inv info st m st' : rinv2 info st -> register info st m = Some st' ->
  rinv2 info st' /\ inb m (r_mods st') = true /\ (inb m (r_mods st) = true -> st' = st) /\
  (forall x, inb x (r_mods st) = true -> inb x (r_mods st') = true).
Proof.
  intros I. pose proof I as [I1 [I2 I3]]. unfold register. destruct (inb m (r_mods st)) eqn:E.
  - intros H. inversion H; subst. split; [exact I|]. split; [exact E|]. split; auto.
  - destruct (snd (info m)) eqn:V; [|discriminate]. intros H. inversion H; subst. unfold rinv2. cbn [r_mods r_names r_default].
    split; [|split; [|split]].
    + split; [|split].
      * intros s x. cbn [name_get]. destruct (String.eqb s (fst (info m))) eqn:S.
        -- intros Hx. inversion Hx; subst. rewrite inb_cons, N.eqb_refl. split; [reflexivity|].
           symmetry. apply String.eqb_eq. exact S.
        -- intros Hx. destruct (I1 _ _ Hx) as [A B]. rewrite inb_cons, A, orb_true_r. auto.
      * intros d Hd. rewrite inb_cons, (I2 _ Hd), orb_true_r. reflexivity.
      * intros x. rewrite inb_cons. cbn [name_get]. destruct (String.eqb (fst (info x)) (fst (info m))) eqn:S2; [eauto|].
        destruct (N.eqb x m) eqn:X.
        -- apply N.eqb_eq in X. subst. rewrite String.eqb_refl in S2. discriminate.
        -- cbn [orb]. apply I3.
    + rewrite inb_cons, N.eqb_refl. reflexivity.
    + discriminate.
    + intros x Hx. rewrite inb_cons, Hx, orb_true_r. reflexivity.
Qed.

Lemma rstep_inv info st o : rinv2 info st -> rinv2 info (snd (rstep info st o)).
Proof.
  intros I. destruct o; cbn [rstep].
  - destruct (register info st m) eqn:R; cbn [snd]; [|exact I]. apply (register_inv _ _ _ _ I R).
  - destruct (inb m (r_mods st)) eqn:E; cbn [snd]; [|exact I]. destruct I as [I1 [I2 I3]].
    unfold rinv2; cbn [r_mods r_names r_default]. split; [exact I1|]. split; [|exact I3].
    intros d Hd. inversion Hd; subst. exact E.
  - destruct (name_get s (r_names st)) eqn:E; cbn [snd]; [|exact I]. destruct I as [I1 [I2 I3]].
    unfold rinv2; cbn [r_mods r_names r_default]. split; [exact I1|]. split; [|exact I3].
    intros d Hd. inversion Hd; subst. apply (I1 _ _ E).
  - exact I.
  - destruct (default st); exact I.
  - destruct (name_get s (r_names st)); exact I.
  - destruct (register info st m) eqn:R; cbn [snd]; [|exact I]. apply (register_inv _ _ _ _ I R).
Qed.

Lemma rrun_snd info o r st : snd (rrun info st (o :: r)) = snd (rrun info (snd (rstep info st o)) r).
Proof. cbn [rrun]. destruct (rstep info st o) as [x st1]. cbn [snd]. destruct (rrun info st1 r). reflexivity. Qed.

Lemma rrun_inv info ops : forall st, rinv2 info st -> rinv2 info (snd (rrun info st ops)).
Proof.
  induction ops as [|o r IH]; intros st I; [exact I|]. rewrite rrun_snd. apply IH. apply rstep_inv. exact I.
Qed.

(* by module *)
Lemma compile_by_module info st m : rinv2 info st -> inb m (r_mods st) = true \/ snd (info m) = true ->
  exists st', rstep info st (OCompileMod m) = (ROk (Some m), st') /\ rinv2 info st' /\ inb m (r_mods st') = true /\
              (inb m (r_mods st) = true -> st' = st).
Proof.
  intros I H. cbn [rstep]. assert (R : exists st', register info st m = Some st').
  { unfold register. destruct (inb m (r_mods st)); [eauto|]. destruct H as [H|H]; [discriminate|]. rewrite H. eauto. }
  destruct R as [st' R]. rewrite R. exists st'. destruct (register_inv _ _ _ _ I R) as [A [B [C _]]]. auto.
Qed.

(* by name *)
Lemma compile_by_name info st m : rinv2 info st -> inb m (r_mods st) = true ->
  exists m', rstep info st (OCompileName (fst (info m))) = (ROk (Some m'), st) /\ fst (info m') = fst (info m) /\
             inb m' (r_mods st) = true.
Proof.
  intros [I1 [I2 I3]] H. destruct (I3 _ H) as [m' Hm]. exists m'. cbn [rstep]. rewrite Hm.
  destruct (I1 _ _ Hm). auto.
Qed.

Lemma compile_unknown_name info st s : name_get s (r_names st) = None -> rstep info st (OCompileName s) = (RRej, st).
Proof. intros H. cbn [rstep]. rewrite H. reflexivity. Qed.

(* by default *)
Lemma compile_by_default info st : rinv2 info st ->
  match default st with
  | Some m => rstep info st OCompileDefault = (ROk (Some m), st) /\ inb m (r_mods st) = true
  | None => rstep info st OCompileDefault = (RRej, st) /\ r_default st = None /\ List.length (r_mods st) <> 1%nat
  end.
Proof.
  intros [I1 [I2 I3]]. cbn [rstep]. unfold default. destruct (r_default st) as [d|] eqn:D.
  - split; [reflexivity|auto].
  - destruct (r_mods st) as [|m [|m2 r]] eqn:M.
    + split; [reflexivity|]. split; [reflexivity|]. cbn. discriminate.
    + split; [reflexivity|]. rewrite inb_cons, N.eqb_refl. reflexivity.
    + split; [reflexivity|]. split; [reflexivity|]. cbn. discriminate.
Qed.

(* one registered PDK: the three forms reach it *)
Lemma compile_same_pdk info st m : rinv2 info st -> r_mods st = [m] ->
  rstep info st OCompileDefault = (ROk (Some m), st) /\
  rstep info st (OCompileName (fst (info m))) = (ROk (Some m), st) /\
  rstep info st (OCompileMod m) = (ROk (Some m), st).
Proof.
  intros I M. assert (Hm : inb m (r_mods st) = true) by (rewrite M, inb_cons, N.eqb_refl; reflexivity).
  split; [|split].
  - pose proof (compile_by_default info st I) as D. destruct (default st) as [d|].
    + destruct D as [D1 D2]. rewrite M in D2. apply inb_single in D2. subst. exact D1.
    + destruct D as [_ [_ D]]. rewrite M in D. cbn in D. congruence.
  - destruct (compile_by_name info st m I Hm) as [m' [A [_ B]]]. rewrite M in B. apply inb_single in B. subst. exact A.
  - destruct (compile_by_module info st m I (or_introl Hm)) as [st' [A [_ [_ B]]]]. rewrite (B Hm) in A. exact A.
Qed.

(* a default set explicitly: default and by-module reach it; by-name reaches the module registered under its name *)
Lemma compile_explicit_default info st m : rinv2 info st -> r_default st = Some m ->
  rstep info st OCompileDefault = (ROk (Some m), st) /\ rstep info st (OCompileMod m) = (ROk (Some m), st).
Proof.
  intros I D. assert (Hm : inb m (r_mods st) = true) by (apply I; exact D). split.
  - cbn [rstep]. unfold default. rewrite D. reflexivity.
  - destruct (compile_by_module info st m I (or_introl Hm)) as [st' [A [_ [_ B]]]]. rewrite (B Hm) in A. exact A.
Qed.

(* ================================================================ Part 3: device selection *)
(* the table entry a walker's <group>_module selects (the first half of <group>_module_call) *)
Definition sel_entry (k : pdk) (g : group) (prm : pparams) : sel entry :=
  match k, g with
  | Sky130, GMos => sky_mos_module prm
  | Sky130, GRes => get_exact sky130_ress (pm_model prm)
  | Sky130, GCap => get_exact sky130_caps (pm_model prm)
  | Sky130, GDiode => get_exact sky130_diodes (pm_model prm)
  | Sky130, GBjt => get_exact sky130_bjts (pm_model prm)
  | Gf180, GMos => gf_mos_module prm
  | Gf180, GRes => get_exact gf180_ress (pm_model prm)
  | Gf180, GCap => get_exact gf180_caps (pm_model prm)
  | Gf180, GDiode => get_exact gf180_diodes (pm_model prm)
  | Gf180, GBjt => get_exact gf180_bjts (pm_model prm)
  | Asap7, GMos => of_opt (find (fun e => strs_eqb (fst e) [pm_tp prm; pm_vth prm]) asap7_mos_modules) ENoDevice
  | Sample, GMos =>
      of_opt (find (fun e => strs_eqb (fst e) [if String.eqb (pm_tp prm) "MosType.PMOS" then "MosType.PMOS" else "MosType.NMOS"])
                   sample_mos_modules) EEscape
  | _, _ => SErr EEscape
  end.

Lemma mkcall_ok e cls f cs : mkcall e cls f = SOk cs -> cs = (snd e, f) /\ dev_class (snd e) = cls.
Proof.
  unfold mkcall. destruct (String.eqb (dev_class (snd e)) cls) eqn:E; [|discriminate].
  intros H. inversion H. split; [reflexivity|apply String.eqb_eq; exact E].
Qed.

Lemma mkcall_same e cls f : dev_class (snd e) = cls -> mkcall e cls f = SOk (snd e, f).
Proof. intros H. unfold mkcall. rewrite H, String.eqb_refl. reflexivity. Qed.

Ltac step_bind H :=
  match type of H with
  | sbind ?r _ = SOk _ => let E := fresh "E" in destruct r eqn:E; cbn [sbind] in H; [|discriminate H]
  end.

Ltac fin_call H :=
  repeat (first [ step_bind H
                | match type of H with
                  | (if ?c then _ else _) = SOk _ => destruct c
                  | (match ?x with _ => _ end) = SOk _ => destruct x
                  end ]);
  try discriminate H; apply mkcall_ok in H; destruct H as [H _]; rewrite H; reflexivity.

(* the device of a built call is the device of the selected entry *)
Lemma conv_sel k g prm cs : conv_g k g prm = SOk cs -> exists e, sel_entry k g prm = SOk e /\ fst cs = snd e.
Proof.
  intros H. destruct k, g; cbn [conv_g sel_entry] in H |- *; try discriminate H;
    unfold sky130_call, gf180_call, asap7_call, sample_call in H; step_bind H;
    (eexists; split; [reflexivity|]); fin_call H.
Qed.

Lemma find_filter {A} (f : A -> bool) l : find f l = match filter f l with [] => None | x :: _ => Some x end.
Proof. induction l as [|a l IH]; cbn; [reflexivity|]. destruct (f a); [reflexivity|exact IH]. Qed.

Lemma of_opt_ok {A} (o : option A) e a : of_opt o e = SOk a -> o = Some a.
Proof. destruct o; cbn; intros H; inversion H; reflexivity. Qed.

Lemma get_exact_sound tbl m e : get_exact tbl m = SOk e -> In e tbl /\ exists s, m = Some s /\ strs_eqb (fst e) [s] = true.
Proof.
  unfold get_exact. destruct m as [s|]; [|discriminate]. intros H. apply of_opt_ok in H. apply find_some in H.
  destruct H as [H1 H2]. split; [exact H1|]. exists s. auto.
Qed.

Lemma subset_sound tbl prm e : In e (subset tbl (triple prm)) ->
  In e tbl /\ mem (pm_tp prm) (fst e) = true /\ mem (pm_fam prm) (fst e) = true /\ mem (pm_vth prm) (fst e) = true.
Proof.
  unfold subset, triple. rewrite filter_In. cbn [forallb]. intros [H1 H2].
  apply andb_true_iff in H2. destruct H2 as [A H2]. apply andb_true_iff in H2. destruct H2 as [B H2].
  apply andb_true_iff in H2. destruct H2 as [C _]. auto.
Qed.

Lemma mos_sound tbl prm e :
  (match pm_model prm with
   | Some m => by_model tbl m
   | None => match subset tbl (triple prm) with [] => SErr ENoDevice | x :: _ => SOk x end
   end = SOk e \/
   match pm_model prm with
   | Some m => by_model tbl m
   | None => match subset tbl (triple prm) with [] => SErr ENoDevice | [x] => SOk x | _ => SErr EAmbiguous end
   end = SOk e) ->
  In e tbl /\ match pm_model prm with
              | Some m => mem m (key_names (fst e))
              | None => mem (pm_tp prm) (fst e) && mem (pm_fam prm) (fst e) && mem (pm_vth prm) (fst e)
              end = true.
Proof.
  destruct (pm_model prm) as [m|].
  - intros [H|H]; unfold by_model in H; apply of_opt_ok in H; apply find_some in H; exact H.
  - intros H. assert (I : In e (subset tbl (triple prm))).
    { destruct (subset tbl (triple prm)) as [|x [|y r]]; destruct H as [H|H]; try discriminate H; inversion H; subst; cbn; auto. }
    apply subset_sound in I. destruct I as [A [B [C D]]]. rewrite B, C, D. auto.
Qed.

(* model => spec: the selected entry is in the PDK's table and satisfies the request *)
Lemma sel_sound k g prm e : sel_entry k g prm = SOk e -> (k = Sample -> mem (pm_tp prm) mos_types = true) ->
  In e (table k g) /\ satisfies k g prm e = true.
Proof.
  intros H HS. destruct k, g; cbn [sel_entry] in H; try discriminate H; cbn [table satisfies];
    try (apply get_exact_sound in H; destruct H as [H1 [s [H2 H3]]]; rewrite H2; auto; fail).
  - (* Sample *) apply of_opt_ok in H. apply find_some in H. destruct H as [H1 H2]. split; [exact H1|].
    specialize (HS eq_refl). unfold mos_types in HS. apply mem_In in HS. cbn [In] in HS.
    destruct HS as [HS|[HS|[]]]; rewrite <- HS in *; exact H2.
  - (* Sky130 Mos *) unfold sky_mos_module in H. apply (mos_sound sky130_xtors). left. exact H.
  - (* Gf180 Mos *) unfold gf_mos_module in H. apply (mos_sound gf180_xtors). right. exact H.
  - (* Asap7 *) apply of_opt_ok in H. apply find_some in H. exact H.
Qed.

(* spec => model *)
Lemma filter_ext' {A} (f g : A -> bool) l : (forall a, f a = g a) -> filter f l = filter g l.
Proof. intros H. induction l as [|a l IH]; cbn; [reflexivity|]. rewrite H, IH. reflexivity. Qed.

Lemma filter_false {A} (l : list A) : filter (fun _ => false) l = [].
Proof. induction l; auto. Qed.

Ltac unify_filters t :=
  let F := fresh "F" in
  match goal with |- context[filter ?f t] => set (F := filter f t) end;
  repeat match goal with |- context[filter ?f t] => change (filter f t) with F end;
  destruct F as [|? [|? ?]].

Lemma get_exact_complete tbl mo :
  match filter (fun e : entry => match mo with Some m => strs_eqb (fst e) [m] | None => false end) tbl with
  | [] => get_exact tbl mo = SErr ENoDevice
  | e :: _ => get_exact tbl mo = SOk e
  end.
Proof.
  destruct mo as [m|]; unfold get_exact.
  - induction tbl as [|a tbl IH]; cbn [filter find]; [reflexivity|]. destruct (strs_eqb (fst a) [m]); [reflexivity|exact IH].
  - rewrite filter_false. reflexivity.
Qed.

Lemma by_model_complete tbl m :
  match filter (fun e : entry => mem m (key_names (fst e))) tbl with
  | [] => by_model tbl m = SErr ENoDevice
  | e :: _ => by_model tbl m = SOk e
  end.
Proof.
  unfold by_model. induction tbl as [|a tbl IH]; cbn [filter find]; [reflexivity|].
  destruct (mem m (key_names (fst a))); [reflexivity|exact IH].
Qed.

Lemma subset_eq tbl prm :
  subset tbl (triple prm) = filter (fun e : entry => mem (pm_tp prm) (fst e) && mem (pm_fam prm) (fst e) && mem (pm_vth prm) (fst e)) tbl.
Proof. unfold subset, triple. apply filter_ext'. intros a. cbn [forallb]. rewrite andb_true_r, andb_assoc. reflexivity. Qed.

Lemma sel_complete k g prm : k <> Sample -> (exists p, group_of k p = Some g) ->
  match candidates k g prm with
  | [] => sel_entry k g prm = SErr ENoDevice
  | [e] => sel_entry k g prm = SOk e
  | e :: _ :: _ =>
      match k, g, pm_model prm with
      | Gf180, GMos, None => sel_entry k g prm = SErr EAmbiguous
      | _, _, _ => sel_entry k g prm = SOk e                  (* first match in table order *)
      end
  end.
Proof.
  intros HK [p HG]. unfold candidates.
  destruct k; [congruence| | |]; destruct g; try (destruct p; discriminate HG); cbn [table sel_entry];
    try (match goal with |- context[get_exact ?t _] => pose proof (get_exact_complete t (pm_model prm)) as G; revert G; unify_filters t; intros G; exact G end).
  - (* Sky130 Mos *) unfold sky_mos_module. destruct (pm_model prm) as [m|] eqn:M.
    + pose proof (by_model_complete sky130_xtors m) as G. unfold satisfies. rewrite M. revert G. unify_filters sky130_xtors; intros G; exact G.
    + rewrite subset_eq. unfold satisfies. rewrite M. unify_filters sky130_xtors; reflexivity.
  - (* Gf180 Mos *) unfold gf_mos_module. destruct (pm_model prm) as [m|] eqn:M.
    + pose proof (by_model_complete gf180_xtors m) as G. unfold satisfies. rewrite M. revert G. unify_filters gf180_xtors; intros G; exact G.
    + rewrite subset_eq. unfold satisfies. rewrite M. unify_filters gf180_xtors; reflexivity.
  - (* Asap7 *) rewrite find_filter. unify_filters asap7_mos_modules; reflexivity.
Qed.

(* ---------------------------------------------------------------- no internal lookup failure escapes *)
Definition has {B} (n : string) (t : list (string * B)) : bool := match assoc n t with Some _ => true | None => false end.

(* per-entry facts a walker relies on without checking: the default-size table it indexes has the device,
   and the device takes the parameter class the walker constructs *)
Definition entry_ok (k : pdk) (g : group) (e : entry) : bool :=
  let c := dev_class (snd e) in let n := dev_name (snd e) in
  match k, g with
  | Sky130, GMos => has n sky130_default_xtor_size && String.eqb c (if contains "20v" n then "Sky130Mos20VParams" else "MosParams")
  | Sky130, GRes => (String.eqb c "Sky130GenResParams" && has n sky130_default_gen_res_size)
                    || (String.eqb c "Sky130PrecResParams" && has n sky130_default_prec_res_L)
  | Sky130, GCap => (String.eqb c "Sky130MimParams" || String.eqb c "Sky130VarParams") && has n sky130_default_cap_sizes
  | Sky130, GDiode => String.eqb c "Sky130DiodeParams"
  | Sky130, GBjt => String.eqb c "Sky130BipolarParams"
  | Gf180, GMos => has n gf180_default_xtor_size && String.eqb c "MosParams"
  | Gf180, GRes => has n gf180_default_res_size && String.eqb c "GF180ResParams"
  | Gf180, GCap => String.eqb c "GF180CapParams"
  | Gf180, GDiode => has n gf180_default_diode_size && String.eqb c "GF180DiodeParams"
  | Gf180, GBjt => String.eqb c "GF180BipolarParams"
  | Asap7, GMos => String.eqb c "dict"
  | Sample, GMos => String.eqb c "SamplePdkMosParams"
  | _, _ => false
  end.

(* sizes as the primitives' parameter classes allow them: absent, a number (Prefixed / int), or a Literal;
   the diode area arithmetic and the sample PDK's positivity check need numbers *)
Definition scalar_ok (o : option pv) : bool := match o with None | Some (PNum _ _) | Some (PLit _) => true | _ => false end.
Definition num_ok (o : option pv) : bool := match o with None | Some (PNum _ _) => true | _ => false end.
Definition prm_wf (k : pdk) (g : group) (prm : pparams) : bool :=
  match k, g with
  | (Sky130 | Gf180), GDiode => num_ok (pm_w prm) && num_ok (pm_l prm)
  | (Sky130 | Gf180), GBjt => true
  | (Sky130 | Gf180), _ => scalar_ok (pm_w prm) && scalar_ok (pm_l prm)
  | Sample, _ => scalar_ok (pm_w prm) && scalar_ok (pm_l prm) && scalar_ok (pm_nf prm)
  | Asap7, _ => true
  end.

Lemma sky_sizes_ok prm e (t : list (string * size2)) : has (dev_name (snd e)) t = true ->
  scalar_ok (pm_w prm) = true -> scalar_ok (pm_l prm) = true -> exists wl, sky_sizes prm e t = SOk wl.
Proof.
  unfold sky_sizes, defaults2, has. destruct (assoc (dev_name (snd e)) t) as [[w l]|]; [|discriminate]. intros _.
  destruct (pm_w prm) as [[]|]; destruct (pm_l prm) as [[]|]; try discriminate; intros _ _; cbn; eauto.
Qed.

Lemma gf_sizes_ok prm e (t : list (string * size2)) : has (dev_name (snd e)) t = true ->
  (exists wl, gf_sizes prm e t = SOk wl) /\
  (num_ok (pm_w prm) = true -> num_ok (pm_l prm) = true -> exists a b c d, gf_sizes prm e t = SOk (PNum a b, PNum c d)).
Proof.
  unfold gf_sizes, defaults2, has. destruct (assoc (dev_name (snd e)) t) as [[w l]|]; [|discriminate]. intros _. split.
  - destruct (pm_w prm), (pm_l prm); cbn; eauto.
  - destruct (pm_w prm) as [[]|]; destruct (pm_l prm) as [[]|]; try discriminate; intros _ _; cbn; unfold num_of; eauto.
Qed.

Lemma to_int_cases o : (exists v, to_int o = SOk v) \/ to_int o = SErr EBadParam.
Proof. unfold to_int. destruct o as [[]|]; eauto. destruct ((0 <? d) && (n mod d =? 0)); eauto. Qed.

Lemma positive_cases o a b : scalar_ok o = true ->
  positive (or_dflt o (PNum a b)) = SOk tt \/ positive (or_dflt o (PNum a b)) = SErr EBadParam.
Proof.
  destruct o as [[]|]; try discriminate; intros _; cbn [or_dflt positive]; auto;
    match goal with |- context[if ?c then _ else _] => destruct c end; auto.
Qed.

Lemma has_of_opt {B} n (t : list (string * B)) e : has n t = true -> exists v, of_opt (assoc n t) e = SOk v.
Proof. unfold has. destruct (assoc n t); [intros _; cbn; eauto|discriminate]. Qed.

(* whenever a device is selected and the per-entry facts hold, the call is built (or a parameter VALUE is rejected
   by a descriptive ValueError) *)
Lemma conv_total k g prm e : sel_entry k g prm = SOk e -> entry_ok k g e = true -> prm_wf k g prm = true ->
  (exists f, conv_g k g prm = SOk (snd e, f)) \/ conv_g k g prm = SErr EBadParam.
Proof.
  intros H EO WF. destruct k, g; cbn [sel_entry] in H; try discriminate H; cbn [entry_ok] in EO; cbn [prm_wf] in WF; cbn [conv_g].
  - (* Sample *) unfold sample_call. rewrite H. cbn [sbind]. apply String.eqb_eq in EO.
    apply andb_true_iff in WF. destruct WF as [WF N3]. apply andb_true_iff in WF. destruct WF as [N1 N2].
    destruct (positive_cases _ 1 1000000 N1) as [P1|P1]; rewrite P1; cbn [sbind]; [|auto].
    destruct (positive_cases _ 1 1000000 N2) as [P2|P2]; rewrite P2; cbn [sbind]; [|auto].
    destruct (positive_cases _ 1 1 N3) as [P3|P3]; unfold one; rewrite P3; cbn [sbind]; [|auto].
    left. eexists. apply mkcall_same. exact EO.
  - (* Sky130 Mos *) unfold sky130_call. rewrite H. cbn [sbind]. apply andb_true_iff in EO. destruct EO as [D C].
    apply andb_true_iff in WF. destruct WF as [W1 W2]. destruct (sky_sizes_ok prm e _ D W1 W2) as [wl S]. rewrite S. cbn [sbind].
    apply String.eqb_eq in C. left. destruct (contains "20v" (dev_name (snd e))); eexists; apply mkcall_same; exact C.
  - (* Sky130 Res *) unfold sky130_call. rewrite H. cbn [sbind]. apply andb_true_iff in WF. destruct WF as [W1 W2].
    apply orb_true_iff in EO. destruct EO as [EO|EO]; apply andb_true_iff in EO; destruct EO as [C D].
    + rewrite C. destruct (sky_sizes_ok prm e _ D W1 W2) as [wl S]. rewrite S. cbn [sbind].
      left. eexists. apply mkcall_same. apply String.eqb_eq. exact C.
    + assert (C1 : String.eqb (dev_class (snd e)) "Sky130GenResParams" = false).
      { apply String.eqb_eq in C. rewrite C. reflexivity. }
      rewrite C1, C. destruct (has_of_opt _ _ EEscape D) as [v V]. rewrite V. cbn [sbind].
      left. eexists. apply mkcall_same. apply String.eqb_eq. exact C.
  - (* Sky130 Cap *) unfold sky130_call. rewrite H. cbn [sbind]. apply andb_true_iff in WF. destruct WF as [W1 W2].
    destruct (to_int_cases (pm_mult prm)) as [[v T]|T]; rewrite T; cbn [sbind]; [|auto].
    apply andb_true_iff in EO. destruct EO as [C D]. destruct (sky_sizes_ok prm e _ D W1 W2) as [wl S].
    apply orb_true_iff in C. destruct C as [C|C].
    + rewrite C, S. cbn [sbind]. left. eexists. apply mkcall_same. apply String.eqb_eq. exact C.
    + assert (C1 : String.eqb (dev_class (snd e)) "Sky130MimParams" = false).
      { apply String.eqb_eq in C. rewrite C. reflexivity. }
      rewrite C1, C, S. cbn [sbind]. left. eexists. apply mkcall_same. apply String.eqb_eq. exact C.
  - (* Sky130 Diode *) unfold sky130_call. rewrite H. cbn [sbind]. apply String.eqb_eq in EO.
    apply andb_true_iff in WF. destruct WF as [W1 W2].
    destruct (pm_w prm) as [[]|]; destruct (pm_l prm) as [[]|]; try discriminate; left; eexists; apply mkcall_same; exact EO.
  - (* Sky130 Bjt *) unfold sky130_call. rewrite H. cbn [sbind]. apply String.eqb_eq in EO.
    destruct (to_int_cases (pm_mult prm)) as [[v T]|T]; rewrite T; cbn [sbind]; [|auto].
    left. eexists. apply mkcall_same. exact EO.
  - (* Gf180 Mos *) unfold gf180_call. rewrite H. cbn [sbind]. apply andb_true_iff in EO. destruct EO as [D C].
    destruct (proj1 (gf_sizes_ok prm e _ D)) as [wl S]. rewrite S. cbn [sbind].
    left. eexists. apply mkcall_same. apply String.eqb_eq. exact C.
  - (* Gf180 Res *) unfold gf180_call. rewrite H. cbn [sbind]. apply andb_true_iff in EO. destruct EO as [D C].
    destruct (proj1 (gf_sizes_ok prm e _ D)) as [wl S]. rewrite S. cbn [sbind].
    left. eexists. apply mkcall_same. apply String.eqb_eq. exact C.
  - (* Gf180 Cap *) unfold gf180_call. rewrite H. cbn [sbind]. apply String.eqb_eq in EO.
    apply andb_true_iff in WF. destruct WF as [W1 W2].
    destruct (pm_w prm) as [[]|]; destruct (pm_l prm) as [[]|]; try discriminate; cbn [or_dflt one scale sbind];
      left; eexists; apply mkcall_same; exact EO.
  - (* Gf180 Diode *) unfold gf180_call. rewrite H. cbn [sbind]. apply andb_true_iff in EO. destruct EO as [D C].
    apply andb_true_iff in WF. destruct WF as [W1 W2].
    destruct (proj2 (gf_sizes_ok prm e _ D) W1 W2) as [a [b [c [d S]]]]. rewrite S. cbn [sbind fst snd].
    left. eexists. apply mkcall_same. apply String.eqb_eq. exact C.
  - (* Gf180 Bjt *) unfold gf180_call. rewrite H. cbn [sbind]. apply String.eqb_eq in EO.
    left. eexists. apply mkcall_same. exact EO.
  - (* Asap7 *) unfold asap7_call. rewrite H. cbn [sbind]. apply String.eqb_eq in EO. left. eexists. apply mkcall_same. exact EO.
Qed.

(* a failed selection is the walker's descriptive RuntimeError *)
Lemma conv_sel_err k g prm x : (exists p, group_of k p = Some g) -> sel_entry k g prm = SErr x -> conv_g k g prm = SErr x.
Proof.
  intros [p HG] H. destruct k, g; try (destruct p; discriminate HG); cbn [sel_entry] in H; cbn [conv_g];
    unfold sky130_call, gf180_call, asap7_call, sample_call; rewrite H; reflexivity.
Qed.

(* ================================================================ Part 4: facts of the regenerated tables *)
Definition all_kg : list (pdk * group) :=
  [(Sample, GMos); (Asap7, GMos);
   (Sky130, GMos); (Sky130, GRes); (Sky130, GCap); (Sky130, GDiode); (Sky130, GBjt);
   (Gf180, GMos); (Gf180, GRes); (Gf180, GCap); (Gf180, GDiode); (Gf180, GBjt)].

Definition mapped (k : pdk) (g : group) : bool := existsb (fun kg => match kg, k, g with
  | (Sample, GMos), Sample, GMos | (Asap7, GMos), Asap7, GMos => true
  | (Sky130, a), Sky130, b | (Gf180, a), Gf180, b => group_eqb a b
  | _, _, _ => false end) all_kg.

Lemma group_of_mapped k p g : group_of k p = Some g -> mapped k g = true.
Proof. destruct k, p; cbn [group_of]; intros H; inversion H; reflexivity. Qed.

Lemma table_unmapped k g : mapped k g = false -> table k g = [].
Proof. destruct k, g; cbn; try discriminate; reflexivity. Qed.

(* lift a checked per-entry boolean to every entry of every mapped table *)
Lemma tables_forall (f : pdk -> group -> entry -> bool) :
  forallb (fun kg => forallb (f (fst kg) (snd kg)) (table (fst kg) (snd kg))) all_kg = true ->
  forall k g e, In e (table k g) -> f k g e = true.
Proof.
  intros H k g e I. destruct (mapped k g) eqn:M; [|rewrite (table_unmapped _ _ M) in I; destruct I].
  rewrite forallb_forall in H.
  assert (IN : In (k, g) all_kg) by (destruct k, g; try discriminate M; cbn; tauto).
  specialize (H _ IN). cbn [fst snd] in H. rewrite forallb_forall in H. apply H. exact I.
Qed.

Lemma entries_ok : forall k g e, In e (table k g) -> entry_ok k g e = true.
Proof. apply tables_forall. vm_compute. reflexivity. Qed.

(* the sample PDK looks up exactly its two keys *)
Lemma sample_sel_ok prm : exists e, sel_entry Sample GMos prm = SOk e.
Proof. cbn [sel_entry]. destruct (String.eqb (pm_tp prm) "MosType.PMOS"); vm_compute; eauto. Qed.

(* ---------------------------------------------------------------- selection by model name *)
Definition entry_eqb (a b : entry) : bool :=
  strs_eqb (fst a) (fst b) && String.eqb (dev_name (snd a)) (dev_name (snd b))
  && strs_eqb (dev_ports (snd a)) (dev_ports (snd b)) && String.eqb (dev_class (snd a)) (dev_class (snd b)).

Lemma entry_eqb_eq a b : entry_eqb a b = true -> a = b.
Proof.
  destruct a as [ka [[na pa] ca]], b as [kb [[nb pb] cb]]. unfold entry_eqb, dev_name, dev_ports, dev_class. cbn [fst snd].
  intros H. repeat (apply andb_true_iff in H; destruct H as [H ?]).
  apply strs_eqb_eq in H, H1. apply str_eqb_eq in H0, H2. congruence.
Qed.

Definition model_prm (m : string) : pparams :=
  {| pm_model := Some m; pm_tp := ""; pm_fam := ""; pm_vth := ""; pm_w := None; pm_l := None; pm_nf := None; pm_mult := None |}.

Definition by_name_pdk (k : pdk) : bool := match k with Sky130 | Gf180 => true | _ => false end.

Lemma sel_entry_model k g prm m : by_name_pdk k = true -> pm_model prm = Some m -> sel_entry k g prm = sel_entry k g (model_prm m).
Proof.
  intros K H. destruct k; try discriminate K; destruct g; cbn [sel_entry]; unfold sky_mos_module, gf_mos_module; rewrite H; reflexivity.
Qed.

(* every model name of every key selects its own entry, and every entry has at least one model name *)
Definition names_check (k : pdk) (g : group) (e : entry) : bool :=
  if by_name_pdk k then
    negb (match key_names (fst e) with [] => true | _ => false end) &&
    forallb (fun m => match sel_entry k g (model_prm m) with SOk e' => entry_eqb e e' | SErr _ => false end) (key_names (fst e))
  else true.

Lemma names_checked : forall k g e, In e (table k g) -> names_check k g e = true.
Proof. apply tables_forall. vm_compute. reflexivity. Qed.

Lemma model_name_total k g e m prm : by_name_pdk k = true -> In e (table k g) -> In m (key_names (fst e)) ->
  pm_model prm = Some m -> sel_entry k g prm = SOk e.
Proof.
  intros K I M H. rewrite (sel_entry_model k g prm m K H). pose proof (names_checked k g e I) as C.
  unfold names_check in C. rewrite K in C. apply andb_true_iff in C. destruct C as [_ C].
  rewrite forallb_forall in C. specialize (C m M). destruct (sel_entry k g (model_prm m)) as [e'|]; [|discriminate].
  apply entry_eqb_eq in C. congruence.
Qed.

Lemma model_name_exists k g e : by_name_pdk k = true -> In e (table k g) -> exists m, In m (key_names (fst e)).
Proof.
  intros K I. pose proof (names_checked k g e I) as C. unfold names_check in C. rewrite K in C.
  apply andb_true_iff in C. destruct C as [C _]. destruct (key_names (fst e)) as [|m r]; [discriminate|]. exists m. left. reflexivity.
Qed.

(* ---------------------------------------------------------------- ports *)
Definition ports_ok (p : prim) (e : entry) : bool :=
  match prim_ports p with Some l => strs_eqb (dev_ports (snd e)) l | None => false end.

Definition model_of (e : entry) : string := hd "" (key_names (fst e)).

Definition prim_eqb (a b : prim) : bool := String.eqb (prim_name a) (prim_name b).
Definition pdk_eqb (a b : pdk) : bool :=
  match a, b with Sample, Sample | Sky130, Sky130 | Gf180, Gf180 | Asap7, Asap7 => true | _, _ => false end.

Definition is_exc (exc : list (pdk * prim * list string)) (k : pdk) (p : prim) (m : string) : bool :=
  existsb (fun x => pdk_eqb (fst (fst x)) k && prim_eqb (snd (fst x)) p && mem m (snd x)) exc.

Definition generic_prims : list prim := [Mos; PRes; TRes; PCap; TCap; Diode; Bipolar].

(* device ports are among the primitive's ports: then every device port is connected by the primitive's connections *)
Definition ports_sub (p : prim) (e : entry) : bool :=
  match prim_ports p with Some l => forallb (fun x => mem x l) (dev_ports (snd e)) | None => false end.

(* for every primitive mapped to the entry's table: `ok` holds exactly when the entry is not excepted *)
Definition ports_check (ok : prim -> entry -> bool) (exc : list (pdk * prim * list string)) (k : pdk) (g : group) (e : entry) : bool :=
  forallb (fun p => match group_of k p with
                    | Some g' => if group_eqb g g' then Bool.eqb (ok p e) (negb (is_exc exc k p (model_of e))) else true
                    | None => true end) generic_prims.

Lemma ports_lift ok exc :
  forallb (fun kg => forallb (ports_check ok exc (fst kg) (snd kg)) (table (fst kg) (snd kg))) all_kg = true ->
  forall k p g e, group_of k p = Some g -> In e (table k g) -> ok p e = negb (is_exc exc k p (model_of e)).
Proof.
  intros H k p g e G I. pose proof (tables_forall (ports_check ok exc) H k g e I) as C. unfold ports_check in C.
  rewrite forallb_forall in C. assert (IP : In p generic_prims).
  { destruct p; cbn; try tauto. destruct k; discriminate G. }
  specialize (C p IP). rewrite G, group_eqb_refl in C. apply Bool.eqb_prop in C. exact C.
Qed.

Lemma ports_sub_connected p e conns l : prim_ports p = Some l -> ports_sub p e = true -> ports_connected l conns = true ->
  ports_connected (dev_ports (snd e)) conns = true.
Proof.
  unfold ports_sub, ports_connected. intros H. rewrite H. intros S C. rewrite forallb_forall in *.
  intros x X. apply C. apply mem_In. apply S. exact X.
Qed.

(* every entry listed as an exception exists (the list names nothing that is not in the tables) *)
Definition exc_present (exc : list (pdk * prim * list string)) : bool :=
  forallb (fun x => let '(k, p, ms) := x in
    match group_of k p with
    | Some g => forallb (fun m => existsb (fun e => String.eqb (model_of e) m) (table k g)) ms
    | None => false end) exc.

(* ---------------------------------------------------------------- default sizes, device names *)
Definition defaults_check (k : pdk) (g : group) (e : entry) : bool :=
  match default_size k (snd e) with Some _ => true | None => false end.

Lemma defaults_checked : forall k g e, In e (table k g) -> defaults_check k g e = true.
Proof. apply tables_forall. vm_compute. reflexivity. Qed.

Definition device_check (k : pdk) (g : group) (e : entry) : bool := ident_ok (dev_name (snd e)) && nodupb (dev_ports (snd e)).

Lemma devices_checked : forall k g e, In e (table k g) -> device_check k g e = true.
Proof. apply tables_forall. vm_compute. reflexivity. Qed.

(* connections that name exactly the primitive's ports name exactly the device's ports when the lists agree *)
Lemma ports_ok_exact p e conns l : prim_ports p = Some l -> ports_ok p e = true -> conns_exact l conns = true ->
  conns_exact (dev_ports (snd e)) conns = true.
Proof. unfold ports_ok. intros H. rewrite H. intros E. apply strs_eqb_eq in E. rewrite E. auto. Qed.

(* ---------------------------------------------------------------- selection errors are the descriptive ones *)
Lemma sel_in k g prm e : sel_entry k g prm = SOk e -> In e (table k g).
Proof.
  intros H. destruct k, g; cbn [sel_entry] in H; try discriminate H; cbn [table];
    try (apply get_exact_sound in H; tauto).
  - apply of_opt_ok in H. apply find_some in H. tauto.
  - unfold sky_mos_module in H. apply (mos_sound sky130_xtors prm e). left. exact H.
  - unfold gf_mos_module in H. apply (mos_sound gf180_xtors prm e). right. exact H.
  - apply of_opt_ok in H. apply find_some in H. tauto.
Qed.

Lemma sel_err_desc k g prm x : sel_entry k g prm = SErr x -> mapped k g = true -> x = ENoDevice \/ x = EAmbiguous.
Proof.
  intros H M. destruct k, g; try discriminate M; cbn [sel_entry] in H;
    [destruct (sample_sel_ok prm) as [e E]; cbn [sel_entry] in E; rewrite E in H; discriminate H|..];
    unfold sky_mos_module, gf_mos_module, by_model, get_exact, of_opt in H;
    repeat match type of H with context[match ?x with _ => _ end] => destruct x end; inversion H; auto.
Qed.

Lemma witness_lift (tbl : list entry) m ports :
  existsb (fun e : entry => String.eqb (model_of e) m && strs_eqb (dev_ports (snd e)) ports) tbl = true ->
  exists e, In e tbl /\ model_of e = m /\ dev_ports (snd e) = ports.
Proof.
  intros H. apply existsb_exists in H. destruct H as [e [I H]]. apply andb_true_iff in H. destruct H as [A B].
  exists e. split; [exact I|]. split; [apply String.eqb_eq; exact A|apply strs_eqb_eq; exact B].
Qed.
