(* Proofs/C02EProofsEnd.v — composition: whatever the checked pipeline (Model/C02EPipeline.v) accepts is valid by
   Spec/WfDesign.v (reject_complete), and it accepts every valid design of the fragment of C01E except through flatname's
   length limit (accepts_valid): under the hypotheses of both, the model accepts exactly the valid designs. *)
From Coq Require Import String.
Require Import Hdl21.Base.PyInt Hdl21.Spec.PySlice Hdl21.Model.Slice Hdl21.Model.Resolve Hdl21.Base.Design
               Hdl21.Spec.Nets Hdl21.Spec.WfDesign Hdl21.Spec.C01ENets Hdl21.Base.Package Hdl21.Base.PrimTable
               Hdl21.Model.Checks Hdl21.Model.C02Checks Hdl21.Model.C01EElab Hdl21.Model.C02EPipeline
               Hdl21.Proofs.ResolveProofs Hdl21.Proofs.ChecksProofs Hdl21.Proofs.C02Proofs
               Hdl21.Proofs.C01EProofsBase Hdl21.Proofs.C01EProofsPass Hdl21.Proofs.C01EProofsWfs Hdl21.Proofs.C01EProofsPlan
               Hdl21.Proofs.C01EProofsPortRefs Hdl21.Proofs.C01EProofsPortRefsD Hdl21.Proofs.C01EProofsArrays
               Hdl21.Proofs.C01EProofsSlices Hdl21.Proofs.C01EProofsExport Hdl21.Proofs.C01EProofsEnd
               Hdl21.Proofs.C02EProofsBase Hdl21.Proofs.C02EProofsPortRefs Hdl21.Proofs.C02EProofsArrays Hdl21.Proofs.C02EProofsNames.
Open Scope Z_scope.

(* ------------------------------------------------------------------------------------------ the pipeline, taken apart *)
Lemma checked_pipeline_inv xi d p : checked_pipeline xi d = Ok p ->
  exists d1 d2 d3, hier_design d = Ok tt /\ orphanage_design d = Ok tt /\ portrefs_design xi d = Ok d1 /\
    conntypes_design d1 = Ok tt /\ arrays_design d1 = Ok d2 /\ slices_design d2 = Ok d3 /\
    conntypes_design d3 = Ok tt /\ orphanage_design d3 = Ok tt /\ mark_design d3 = Ok tt /\ export_model xi d3 = Ok p.
Proof.
  unfold checked_pipeline, checked_elab. intros H. apply bind_ok in H. destruct H as [d3' [H Hex]].
  apply bind_ok in H. destruct H as [u1 [H1 H]]. apply bind_ok in H. destruct H as [u2 [H2 H]]. apply bind_ok in H. destruct H as [d1 [H3 H]].
  apply bind_ok in H. destruct H as [u4 [H4 H]]. apply bind_ok in H. destruct H as [d2 [H5 H]]. apply bind_ok in H. destruct H as [d3 [H6 H]].
  apply bind_ok in H. destruct H as [u7 [H7 H]]. apply bind_ok in H. destruct H as [u8 [H8 H]]. apply bind_ok in H. destruct H as [u9 [H9 H]].
  inversion H; subst d3'. destruct u1, u2, u4, u7, u8, u9. exists d1, d2, d3. auto 12.
Qed.

Lemma checked_pipeline_elab xi d p : checked_pipeline xi d = Ok p -> elab_export_model xi d = Ok p.
Proof.
  intros H. destruct (checked_pipeline_inv xi d p H) as [d1 [d2 [d3 [_ [_ [H1 [_ [H2 [H3 [_ [_ [_ Hex]]]]]]]]]]]].
  unfold elab_export_model, elab_model. rewrite H1. cbn [bind]. rewrite H2. cbn [bind]. rewrite H3. cbn [bind]. exact Hex.
Qed.

Lemma checked_run_pipeline xi d : snd (checked_run xi d) = checked_pipeline xi d.
Proof.
  unfold checked_run, checked_pipeline, checked_elab.
  destruct (hier_design d) as [[]|e]; cbn [bind snd]; [|reflexivity].
  destruct (orphanage_design d) as [[]|e]; cbn [bind snd]; [|reflexivity].
  destruct (portrefs_design xi d) as [d1|e]; cbn [bind snd]; [|reflexivity].
  destruct (conntypes_design d1) as [[]|e]; cbn [bind snd]; [|reflexivity].
  destruct (arrays_design d1) as [d2|e]; cbn [bind snd]; [|reflexivity].
  destruct (slices_design d2) as [d3|e]; cbn [bind snd]; [|reflexivity].
  destruct (conntypes_design d3) as [[]|e]; cbn [bind snd]; [|reflexivity].
  destruct (orphanage_design d3) as [[]|e]; cbn [bind snd]; [|reflexivity].
  destruct (mark_design d3) as [[]|e]; cbn [bind snd]; [|reflexivity].
  destruct (export_model xi d3) as [p|e]; reflexivity.
Qed.

Lemma checked_run_done xi d : fst (checked_run xi d) = SDone <-> exists p, checked_pipeline xi d = Ok p.
Proof.
  rewrite <- checked_run_pipeline. unfold checked_run.
  destruct (_ <- hier_design d ;; orphanage_design d) as [u|e]; [|split; [discriminate|intros [p H]; discriminate]].
  destruct (portrefs_design xi d) as [d1|e]; [|split; [discriminate|intros [p H]; discriminate]].
  destruct (conntypes_design d1) as [u1|e]; [|split; [discriminate|intros [p H]; discriminate]].
  destruct (arrays_design d1) as [d2|e]; [|split; [discriminate|intros [p H]; discriminate]].
  destruct (slices_design d2) as [d3|e]; [|split; [discriminate|intros [p H]; discriminate]].
  destruct (conntypes_design d3) as [u3|e]; [|split; [discriminate|intros [p H]; discriminate]].
  destruct (orphanage_design d3) as [u4|e]; [|split; [discriminate|intros [p H]; discriminate]].
  destruct (mark_design d3) as [u5|e]; [|split; [discriminate|intros [p H]; discriminate]].
  destruct (export_model xi d3) as [p|e]; [split; [intros _; exists p; reflexivity|reflexivity]|split; [discriminate|intros [p H]; discriminate]].
Qed.

Lemma conntypes_inst_ext d d' m x : (forall t, target_ports d' t = target_ports d t) -> conntypes_inst d' m x = conntypes_inst d m x.
Proof. intros H. unfold conntypes_inst. rewrite H. reflexivity. Qed.

(* ------------------------------------------------------------------------------------------ reject-completeness *)
Section RejectComplete.
Variables (xi : xinfo) (d d1 d2 d3 : design).
Hypothesis G : given_e d = true.
Hypothesis Fc : frag_conns d = true.
Hypothesis Hhier : hier_design d = Ok tt.
Hypothesis Horph : orphanage_design d = Ok tt.
Hypothesis H1 : portrefs_design xi d = Ok d1.
Hypothesis Hct1 : conntypes_design d1 = Ok tt.
Hypothesis H2 : arrays_design d1 = Ok d2.
Hypothesis H3 : slices_design d2 = Ok d3.
Hypothesis Hct3 : conntypes_design d3 = Ok tt.

Lemma rc_tp1 t : target_ports d1 t = target_ports d t.
Proof. apply (target_ports_same _ _ _ t H1). intros m m' E. eapply portrefs_ports_keep. exact E. Qed.

Lemma rc_tp3 t : target_ports d3 t = target_ports d t.
Proof.
  rewrite <- rc_tp1. transitivity (target_ports d2 t).
  - apply (target_ports_same _ _ _ t H3). intros m m' E. apply slices_module_inv in E. tauto.
  - apply (target_ports_same _ _ _ t H2). intros m m' E. destruct (arrays_module_inv _ _ _ E) as [_ [_ [_ [_ [_ [Hp _]]]]]]. exact Hp.
Qed.

Lemma rc_module k m : nth_error (d_mods d) k = Some m ->
  negb (String.eqb (m_name m) "") = true -> wf_module d k m = Ok tt.
Proof.
  intros Hk Hname.
  (* what is given *)
  unfold given_e in G. apply andb_prop in G. destruct G as [G0 Ge]. unfold given in G0. rewrite forallb_forall in G0, Ge.
  pose proof (G0 m (nth_error_In _ _ Hk)) as Gm. pose proof (Ge m (nth_error_In _ _ Hk)) as Gem.
  unfold given_module in Gm. apply andb_prop in Gm. destruct Gm as [Gm Gi]. apply andb_prop in Gm. destruct Gm as [Gns Gw].
  rewrite forallb_forall in Gi, Gem.
  unfold frag_conns in Fc. rewrite forallb_forall in Fc. pose proof (Fc m (nth_error_In _ _ Hk)) as Fm. rewrite forallb_forall in Fm.
  assert (NoDup (map i_name (m_insts m))) as Gnames.
  { apply nodup_names_NoDup in Gns. apply NoDup_app_r in Gns. apply NoDup_app_r in Gns. exact Gns. }
  assert (forall x, In x (m_insts m) -> NoDup (map fst (i_conns x))) as Gconns.
  { intros x Hx. specialize (Gi x Hx). unfold given_inst in Gi. apply andb_prop in Gi. destruct Gi as [Gi _]. apply andb_prop in Gi.
    apply nodup_names_NoDup. tauto. }
  assert (forall x ports, In x (m_insts m) -> target_ports d (i_of x) = Ok ports -> nodup_names (map fst ports) = true) as Gports.
  { intros x ports Hx Hp. specialize (Gi x Hx). unfold given_inst in Gi. apply andb_prop in Gi. destruct Gi as [Gi _]. apply andb_prop in Gi.
    destruct Gi as [_ Gi]. rewrite Hp in Gi. exact Gi. }
  assert (forall x ports pw, In x (m_insts m) -> target_ports d (i_of x) = Ok ports -> In pw ports -> 1 <= snd pw) as Gpos.
  { intros x ports pw Hx Hp Hpw. specialize (Gem x Hx). unfold given_inst_e in Gem. apply andb_prop in Gem. destruct Gem as [Gem _].
    rewrite Hp in Gem. rewrite forallb_forall in Gem. specialize (Gem pw Hpw). lia. }
  assert (forall x c lw, In x (m_insts m) -> In c (i_conns x) -> In lw (sx_leaves (snd c)) -> annot_ok m lw = true) as Gsig.
  { intros x c lw Hx Hc Hl. specialize (Gi x Hx). unfold given_inst in Gi. apply andb_prop in Gi. destruct Gi as [_ Gi].
    rewrite forallb_forall in Gi. specialize (Gi c Hc). rewrite forallb_forall in Gi. apply Gi. exact Hl. }
  assert (forall x c lw, In x (m_insts m) -> In c (i_conns x) -> In lw (sx_leaves (snd c)) -> ref_annot_ok d m lw = true) as Gref.
  { intros x c lw Hx Hc Hl. specialize (Gem x Hx). unfold given_inst_e in Gem. apply andb_prop in Gem. destruct Gem as [_ Gem].
    rewrite forallb_forall in Gem. specialize (Gem c Hc). rewrite forallb_forall in Gem. apply Gem. exact Hl. }
  assert (forall x c, In x (m_insts m) -> In c (i_conns x) -> conn_whole m c = true) as Fwhole.
  { intros x c Hx Hc. specialize (Fm x Hx). rewrite forallb_forall in Fm. specialize (Fm c Hc). apply andb_prop in Fm. tauto. }
  assert (forall x c lw, In x (m_insts m) -> In c (i_conns x) -> In lw (sx_leaves (snd c)) -> ref_single m lw = true) as Fsingle.
  { intros x c lw Hx Hc Hl. specialize (Fm x Hx). rewrite forallb_forall in Fm. specialize (Fm c Hc). apply andb_prop in Fm. destruct Fm as [_ Fm].
    rewrite forallb_forall in Fm. apply Fm. exact Hl. }
  (* the passes on this module *)
  pose proof (each_module_nth _ _ _ _ Hhier Hk) as Hhm. pose proof (each_module_nth _ _ _ _ Horph Hk) as Hom.
  destruct (map_modules_nth _ _ _ _ _ H1 (proj2 (nth_mod_nth _ _ _) Hk)) as [m1' [Hk1 Hpm]].
  destruct (portrefs_module_inv _ _ _ _ Hpm) as [keys [allocs [names [insts1 [Hkeys [Hplan [Hnames [Hins ->]]]]]]]].
  apply nth_mod_nth in Hk1. pose proof (each_module_nth _ _ _ _ Hct1 Hk1) as Hc1. unfold conntypes_check in Hc1.
  assert (forall x1, In x1 insts1 -> conntypes_inst d (m1 m allocs names insts1) x1 = Ok tt) as Hct.
  { intros x1 Hx1. rewrite <- (conntypes_inst_ext d d1 _ x1 rc_tp1). apply (all_ok_In _ _ x1 Hc1). exact Hx1. }
  destruct (map_modules_nth _ _ _ _ _ H2 (proj2 (nth_mod_nth _ _ _) Hk1)) as [m2 [Hk2 Ham]].
  destruct (map_modules_nth _ _ _ _ _ H3 Hk2) as [m3 [Hk3 Hsm]].
  apply nth_mod_nth in Hk3. pose proof (each_module_nth _ _ _ _ Hct3 Hk3) as Hc3. unfold conntypes_check in Hc3.
  (* wf_module *)
  unfold wf_module. rewrite Hname, Gns, Gw. cbn [check bind]. apply all_ok_intro. intros x Hx.
  destruct (single x) eqn:Hs.
  - apply (single_inst_wf d (ncnames xi m) k m keys allocs names insts1 Gnames Gconns Gports Gpos Gsig Gref Fwhole Fsingle
             Hom Hkeys Hplan Hins Hct x Hhm Hx Hs).
  - destruct (first_element d d1 d3 m keys allocs names insts1 m2 m3 rc_tp1 Gports Hins Ham
                (fun x3 Hx3 => all_ok_In _ _ x3 Hc3 Hx3) x Hx Hs) as [_ [ports [_ [_ [_ [_ [Hp _]]]]]]].
    destruct (array_facts d d1 d3 m keys allocs names insts1 m2 m3 rc_tp1 rc_tp3 Gports Hins Ham Hsm
                (fun x3 Hx3 => all_ok_In _ _ x3 Hc3 Hx3) x ports Hx Hs Hp) as [A B].
    apply (array_inst_wf d (ncnames xi m) k m keys allocs names insts1 Gnames Gconns Gports Gpos Gsig Gref Fwhole Fsingle
             Hom Hkeys Hplan Hins Hct x ports Hhm Hx Hs Hp A B).
Qed.
End RejectComplete.

Theorem reject_complete xi d p : given_e d = true -> frag_e d = true -> checked_pipeline xi d = Ok p -> wf_design d = Ok tt.
Proof.
  intros G F H. unfold frag_e in F. apply andb_prop in F. destruct F as [Fc Fu].
  destruct (checked_pipeline_inv xi d p H) as [d1 [d2 [d3 [Hh [Ho [H1 [Hc1 [H2 [H3 [Hc3 [_ [Hmark Hex]]]]]]]]]]]].
  pose proof (elab_same_hier xi d d1 d2 d3 H1 H2 H3) as SH. destruct SH as [ST [SL [SN SS]]].
  destruct (export_names xi d3 p (hier_ok_same d d3 (conj ST (conj SL (conj SN SS))) (hier_design_ok d Hh))
              (all_used_same d d3 (conj ST (conj SL (conj SN SS))) Fu) Hex) as [Htop Hnd].
  unfold wf_design. rewrite ST, SL in Htop. apply Nat.ltb_lt in Htop. rewrite Htop. cbn [check bind].
  rewrite SN in Hnd. apply nodup_names_NoDup in Hnd. rewrite Hnd. cbn [check bind].
  apply wf_mods_intro. intros j m Hj. cbn [Nat.add].
  apply (rc_module xi d d1 d2 d3 G Fc Hh Ho H1 Hc1 H2 H3 Hc3 j m Hj).
  (* MarkModules saw the module under the same name *)
  assert (exists m3, nth_error (d_mods d3) j = Some m3 /\ m_name m3 = m_name m) as [m3 [Hj3 En]].
  { pose proof (f_equal (fun l => nth_error l j) SN) as E. cbv beta in E. rewrite !nth_error_map, Hj in E.
    destruct (nth_error (d_mods d3) j) as [m3|]; [|discriminate]. cbn in E. inversion E. eauto. }
  pose proof (each_module_nth _ _ _ _ Hmark Hj3) as Hm. unfold mark_check in Hm. apply check_ok in Hm. rewrite <- En. exact Hm.
Qed.
