(* Proofs/NamespaceProofs.v — lemmas behind Props/C18.v *)
Require Import Hdl21.Base.PyInt Hdl21.Spec.Namespace Hdl21.Model.Namespace.
From Coq Require Import String Ascii.
Require Import Hdl21Gen.Banned.
Open Scope list_scope.
Open Scope Z_scope.

Definition keys (l : assoc) : list name := map fst l.

(* ------------------------------------------------------------------ association lists *)
Lemma eqb_false_sym a b : String.eqb a b = false -> String.eqb b a = false.
Proof. rewrite String.eqb_sym. auto. Qed.

Lemma lookup_upd n v l m : lookup m (upd n v l) = if String.eqb m n then Some v else lookup m l.
Proof.
  induction l as [|[k w] t IH]; simpl.
  - reflexivity.
  - destruct (String.eqb n k) eqn:E.
    + apply String.eqb_eq in E. subst k. simpl. destruct (String.eqb m n); reflexivity.
    + simpl. destruct (String.eqb m k) eqn:E2.
      * apply String.eqb_eq in E2. subst k. rewrite (eqb_false_sym _ _ E). reflexivity.
      * apply IH.
Qed.

Lemma lookup_rem n l m : lookup m (rem n l) = if String.eqb m n then None else lookup m l.
Proof.
  induction l as [|[k w] t IH]; simpl.
  - destruct (String.eqb m n); reflexivity.
  - destruct (String.eqb n k) eqn:E.
    + apply String.eqb_eq in E. subst k. rewrite IH. destruct (String.eqb m n); reflexivity.
    + simpl. destruct (String.eqb m k) eqn:E2.
      * apply String.eqb_eq in E2. subst k. rewrite (eqb_false_sym _ _ E). reflexivity.
      * apply IH.
Qed.

Lemma lookup_in n l v : lookup n l = Some v -> In (n, v) l.
Proof.
  induction l as [|[k w] t IH]; simpl; [discriminate|].
  destruct (String.eqb n k) eqn:E; intros H.
  - apply String.eqb_eq in E. inversion H. subst. auto.
  - auto.
Qed.

Lemma lookup_none n l : lookup n l = None <-> ~ In n (keys l).
Proof.
  induction l as [|[k w] t IH]; simpl; [tauto|].
  destruct (String.eqb n k) eqn:E.
  - apply String.eqb_eq in E. subst. split; [discriminate|]. intros H. exfalso. apply H. auto.
  - apply String.eqb_neq in E. rewrite IH. split; intros H; [intros [C|C]; [congruence|tauto]|tauto].
Qed.

Lemma in_keys n v l : In (n, v) l -> In n (keys l).
Proof. intros H. unfold keys. change n with (fst (n, v)). apply in_map. exact H. Qed.

Lemma nodup_unique l : NoDup (keys l) -> forall n v w, In (n, v) l -> In (n, w) l -> v = w.
Proof.
  induction l as [|[k x] t IH]; simpl; intros ND n v w Hv Hw; [tauto|].
  inversion ND as [|? ? Hk ND']. subst.
  destruct Hv as [Hv|Hv], Hw as [Hw|Hw].
  - congruence.
  - inversion Hv. subst. exfalso. apply Hk. eapply in_keys. eauto.
  - inversion Hw. subst. exfalso. apply Hk. eapply in_keys. eauto.
  - eauto.
Qed.

Lemma filter_rem (P : name * value -> bool) n l : filter P (rem n l) = rem n (filter P l).
Proof.
  induction l as [|[k w] t IH]; simpl; [reflexivity|].
  destruct (String.eqb n k) eqn:E.
  - destruct (P (k, w)); simpl; [rewrite E|]; exact IH.
  - simpl. destruct (P (k, w)); simpl; [rewrite E; f_equal|]; exact IH.
Qed.

Lemma rem_notin n l : ~ In n (keys l) -> rem n l = l.
Proof.
  induction l as [|[k w] t IH]; simpl; intros H; [reflexivity|].
  destruct (String.eqb n k) eqn:E.
  - apply String.eqb_eq in E. subst. tauto.
  - f_equal. apply IH. tauto.
Qed.

Lemma upd_notin n v l : ~ In n (keys l) -> upd n v l = l ++ [(n, v)].
Proof.
  induction l as [|[k w] t IH]; simpl; intros H; [reflexivity|].
  destruct (String.eqb n k) eqn:E.
  - apply String.eqb_eq in E. subst. tauto.
  - f_equal. apply IH. tauto.
Qed.

Lemma keys_filter (P : name * value -> bool) n l : In n (keys (filter P l)) -> In n (keys l).
Proof.
  unfold keys. rewrite !in_map_iff. intros [e [H1 H2]]. apply filter_In in H2. exists e. tauto.
Qed.

Lemma keys_rem_sub n m l : In m (keys (rem n l)) -> In m (keys l) /\ m <> n.
Proof.
  induction l as [|[k w] t IH]; simpl; [tauto|].
  destruct (String.eqb n k) eqn:E.
  - intros H. apply IH in H. tauto.
  - simpl. apply String.eqb_neq in E. intros [H|H]; [subst; split; auto|]. apply IH in H. tauto.
Qed.

Lemma keys_rem_notin n l : ~ In n (keys (rem n l)).
Proof. intros H. apply keys_rem_sub in H. tauto. Qed.

Lemma nodup_rem n l : NoDup (keys l) -> NoDup (keys (rem n l)).
Proof.
  induction l as [|[k w] t IH]; simpl; intros ND; [constructor|].
  inversion ND as [|? ? Hk ND']. subst.
  destruct (String.eqb n k); [auto|]. simpl. constructor; [|auto].
  intros H. apply keys_rem_sub in H. tauto.
Qed.

Lemma keys_upd n v l : keys (upd n v l) = if has n l then keys l else keys l ++ [n].
Proof.
  unfold has. induction l as [|[k w] t IH]; simpl; [reflexivity|].
  destruct (String.eqb n k) eqn:E; simpl; [reflexivity|].
  rewrite IH. destruct (lookup n t); reflexivity.
Qed.

Lemma nodup_snoc {A} (l : list A) x : NoDup l -> ~ In x l -> NoDup (l ++ [x]).
Proof.
  induction l as [|y t IH]; simpl; intros ND H.
  - constructor; [tauto|constructor].
  - inversion ND as [|? ? Hy ND']. subst. constructor.
    + rewrite in_app_iff. simpl. intros [C|[C|C]]; [tauto| subst; tauto | tauto].
    + apply IH; tauto.
Qed.

Lemma nodup_upd n v l : NoDup (keys l) -> NoDup (keys (upd n v l)).
Proof.
  intros ND. rewrite keys_upd. unfold has. destruct (lookup n l) eqn:E; [exact ND|].
  apply lookup_none in E. apply nodup_snoc; assumption.
Qed.

Lemma in_upd e n v l : In e (upd n v l) -> e = (n, v) \/ In e l.
Proof.
  induction l as [|[k w] t IH]; simpl.
  - intros [H|H]; auto.
  - destruct (String.eqb n k) eqn:E; simpl.
    + apply String.eqb_eq in E. subst. intros [H|H]; auto.
    + intros [H|H]; auto. apply IH in H. tauto.
Qed.

Lemma in_rem e n l : In e (rem n l) -> In e l.
Proof.
  induction l as [|[k w] t IH]; simpl; [tauto|].
  destruct (String.eqb n k); simpl; intros H; [auto|]. destruct H; auto.
Qed.

Lemma lookup_filter_true (P : name * value -> bool) n l v :
  lookup n l = Some v -> P (n, v) = true -> lookup n (filter P l) = Some v.
Proof.
  induction l as [|[k w] t IH]; simpl; [discriminate|].
  destruct (String.eqb n k) eqn:E; intros H HP.
  - apply String.eqb_eq in E. inversion H. subst. rewrite HP. simpl. rewrite String.eqb_refl. reflexivity.
  - destruct (P (k, w)); simpl; [rewrite E|]; auto.
Qed.

Lemma has_filter (P : name * value -> bool) n l old :
  NoDup (keys l) -> lookup n l = Some old -> has n (filter P l) = P (n, old).
Proof.
  intros ND H. unfold has. destruct (P (n, old)) eqn:HP.
  - rewrite (lookup_filter_true P n l old H HP). reflexivity.
  - destruct (lookup n (filter P l)) as [w|] eqn:E; [|reflexivity].
    apply lookup_in in E. apply filter_In in E. destruct E as [E1 E2].
    apply lookup_in in H. rewrite (nodup_unique l ND n w old E1 H) in E2. congruence.
Qed.

Lemma has_filter_none (P : name * value -> bool) n l : lookup n l = None -> has n (filter P l) = false.
Proof.
  intros H. unfold has. destruct (lookup n (filter P l)) eqn:E; [|reflexivity].
  apply lookup_in, in_keys, keys_filter in E. apply lookup_none in H. tauto.
Qed.

Lemma has_false_notin n l : has n l = false -> ~ In n (keys l).
Proof. unfold has. intros H. apply lookup_none. destruct (lookup n l); [discriminate|reflexivity]. Qed.

Lemma filter_upd_in (P : name * value -> bool) n v l old :
  lookup n l = Some old -> P (n, old) = true -> P (n, v) = true -> filter P (upd n v l) = upd n v (filter P l).
Proof.
  induction l as [|[k w] t IH]; simpl; [discriminate|].
  destruct (String.eqb n k) eqn:E; intros H Ho Hv.
  - apply String.eqb_eq in E. inversion H. subst. simpl. rewrite Ho, Hv. simpl. rewrite String.eqb_refl. reflexivity.
  - simpl. destruct (P (k, w)); simpl; [rewrite E; f_equal|]; auto.
Qed.

Lemma filter_upd_out (P : name * value -> bool) n v l old :
  lookup n l = Some old -> P (n, old) = false -> P (n, v) = false -> filter P (upd n v l) = filter P l.
Proof.
  induction l as [|[k w] t IH]; simpl; [discriminate|].
  destruct (String.eqb n k) eqn:E; intros H Ho Hv.
  - apply String.eqb_eq in E. inversion H. subst. simpl. rewrite Ho, Hv. reflexivity.
  - simpl. destruct (P (k, w)); [f_equal|]; auto.
Qed.

(* the three ways `_add` rewrites the namespace, seen through one view's filter *)
Lemma scen_fresh (P : name * value -> bool) n v l :
  lookup n l = None ->
  filter P (upd n v l) = if P (n, v) then upd n v (filter P l) else rem n (filter P l).
Proof.
  intros H. pose proof (has_filter_none P n l H) as Hf. apply has_false_notin in Hf.
  apply lookup_none in H. rewrite (upd_notin n v l H), filter_app. simpl.
  destruct (P (n, v)).
  - rewrite (upd_notin n v _ Hf). reflexivity.
  - rewrite (rem_notin n _ Hf), app_nil_r. reflexivity.
Qed.

Lemma scen_same (P : name * value -> bool) n v l old :
  NoDup (keys l) -> lookup n l = Some old -> P (n, old) = P (n, v) ->
  filter P (upd n v l) = if P (n, v) then upd n v (filter P l) else rem n (filter P l).
Proof.
  intros ND H HP. destruct (P (n, v)) eqn:Hv.
  - apply (filter_upd_in P n v l old H HP Hv).
  - rewrite (filter_upd_out P n v l old H HP Hv).
    pose proof (has_filter P n l old ND H) as Hf. rewrite HP in Hf. apply has_false_notin in Hf.
    rewrite (rem_notin n _ Hf). reflexivity.
Qed.

Lemma scen_moved (P : name * value -> bool) n v l old :
  NoDup (keys l) -> lookup n l = Some old -> (P (n, v) = true -> P (n, old) = false) ->
  filter P (upd n v (rem n l)) = if P (n, v) then upd n v (filter P l) else rem n (filter P l).
Proof.
  intros ND H HP. rewrite (upd_notin n v _ (keys_rem_notin n l)), filter_app, filter_rem. simpl.
  destruct (P (n, v)) eqn:Hv.
  - pose proof (has_filter P n l old ND H) as Hf. rewrite (HP eq_refl) in Hf. apply has_false_notin in Hf.
    rewrite (rem_notin n _ Hf), (upd_notin n v _ Hf). reflexivity.
  - rewrite app_nil_r. reflexivity.
Qed.

(* ------------------------------------------------------------------ views *)
Lemma view_eqb_eq a b : view_eqb a b = true <-> a = b.
Proof. destruct a, b; simpl; split; intros H; try reflexivity; try discriminate. Qed.

Lemma view_eqb_refl a : view_eqb a a = true.
Proof. destruct a; reflexivity. Qed.

Lemma view_eqb_sym a b : view_eqb a b = view_eqb b a.
Proof. destruct a, b; reflexivity. Qed.

Lemma view_of_in c kd k : view_of c kd = Some k -> In k (views_of c).
Proof.
  destruct c, kd as [[|]| | | | | |]; simpl; intros H; inversion H; subst; simpl; tauto.
Qed.

Definition in_view (c : ctr) (k : view) (e : name * value) : bool :=
  match view_of c (v_kind (snd e)) with Some k' => view_eqb k' k | None => false end.

Definition entry_ok (c : ctr) (owned : list Z) (e : name * value) : Prop :=
  is_attr c (v_kind (snd e)) = true /\ v_name (snd e) = Some (fst e) /\ reserved c (fst e) = false /\ In (v_id (snd e)) owned.

(* the coherence invariant *)
Record Coh (c : ctr) (s : state) : Prop := {
  coh_nodup : NoDup (keys (st_ns s));
  coh_views : forall k, st_views s k = filter (in_view c k) (st_ns s);
  coh_entries : Forall (entry_ok c (st_owned s)) (st_ns s)
}.

Lemma coh_init c : Coh c init.
Proof. split; simpl; [constructor | reflexivity | constructor]. Qed.

Lemma entry_ok_mono c o1 o2 e : (forall x, In x o1 -> In x o2) -> entry_ok c o1 e -> entry_ok c o2 e.
Proof. unfold entry_ok. intuition. Qed.

Lemma coh_do_add c s n v s' : Coh c s -> do_add c s n v = Ok s' -> Coh c s'.
Proof.
  intros [ND HV HE] H. unfold do_add in H.
  destruct (st_elab s); [discriminate|].
  destruct (reserved c n) eqn:Hres; [discriminate|].
  destruct (view_of c (v_kind v)) as [k|] eqn:Hk; [|discriminate].
  set (v' := store_name v n) in *.
  set (stale := existsb (fun k' => negb (view_eqb k' k) && has n (st_views s k')) (views_of c)) in *.
  inversion H as [Hs']. clear H Hs'.
  assert (Hpv : forall k', in_view c k' (n, v') = view_eqb k k').
  { intros k'. unfold in_view. simpl. rewrite Hk. reflexivity. }
  assert (Hok' : entry_ok c (v_id v :: st_owned s) (n, v')).
  { unfold entry_ok. simpl. unfold is_attr. rewrite Hk. auto. }
  assert (HE' : Forall (entry_ok c (v_id v :: st_owned s)) (st_ns s)).
  { eapply Forall_impl; [|exact HE]. intros e. apply entry_ok_mono. simpl. auto. }
  assert (Hviews : forall k', (if view_eqb k' k then upd n v' (st_views s k) else rem n (st_views s k'))
                              = if in_view c k' (n, v') then upd n v' (st_views s k') else rem n (st_views s k')).
  { intros k'. rewrite Hpv, (view_eqb_sym k k'). destruct (view_eqb k' k) eqn:E; [|reflexivity].
    apply view_eqb_eq in E. subst. reflexivity. }
  destruct (lookup n (st_ns s)) as [old|] eqn:Hl.
  - (* the name is bound *)
    assert (Hold : entry_ok c (st_owned s) (n, old)).
    { rewrite Forall_forall in HE. apply HE. apply lookup_in. exact Hl. }
    destruct Hold as [Hattr _]. simpl in Hattr. unfold is_attr in Hattr.
    destruct (view_of c (v_kind old)) as [ko|] eqn:Hko; [|discriminate].
    assert (Hpo : forall k', in_view c k' (n, old) = view_eqb ko k').
    { intros k'. unfold in_view. simpl. rewrite Hko. reflexivity. }
    assert (Hhas : forall k', has n (st_views s k') = view_eqb ko k').
    { intros k'. rewrite HV, (has_filter _ n _ old ND Hl). apply Hpo. }
    destruct (view_eqb ko k) eqn:Esame.
    + (* same container: overwrite in place *)
      apply view_eqb_eq in Esame. subst ko.
      assert (Hst : stale = false).
      { unfold stale. destruct (existsb _ _) eqn:E; [|reflexivity]. apply existsb_exists in E.
        destruct E as [k' [_ E]]. rewrite Hhas, (view_eqb_sym k k') in E. destruct (view_eqb k' k); discriminate. }
      rewrite Hst. split; simpl.
      * apply nodup_upd. exact ND.
      * intros k'. rewrite Hviews, (HV k').
        symmetry. apply (scen_same _ n v' _ old ND Hl). rewrite Hpo, Hpv. reflexivity.
      * rewrite Forall_forall. intros e He. apply in_upd in He. destruct He as [->|He]; [exact Hok'|].
        rewrite Forall_forall in HE'. auto.
    + (* another container holds the name: it moves *)
      assert (Hst : stale = true).
      { unfold stale. apply existsb_exists. exists ko. split; [eapply view_of_in; eauto|].
        rewrite Esame, Hhas, view_eqb_refl. reflexivity. }
      rewrite Hst. split; simpl.
      * apply nodup_upd, nodup_rem. exact ND.
      * intros k'. rewrite Hviews, (HV k').
        symmetry. apply (scen_moved _ n v' _ old ND Hl). rewrite Hpo, Hpv. intros E.
        apply view_eqb_eq in E. subst k'. exact Esame.
      * rewrite Forall_forall. intros e He. apply in_upd in He. destruct He as [->|He]; [exact Hok'|].
        apply in_rem in He. rewrite Forall_forall in HE'. auto.
  - (* a fresh name *)
    assert (Hst : stale = false).
    { unfold stale. destruct (existsb _ _) eqn:E; [|reflexivity]. apply existsb_exists in E.
      destruct E as [k' [_ E]]. rewrite HV, (has_filter_none _ n _ Hl) in E. rewrite andb_false_r in E. discriminate. }
    rewrite Hst. split; simpl.
    + apply nodup_upd. exact ND.
    + intros k'. rewrite Hviews, (HV k'). symmetry. apply (scen_fresh _ n v' _ Hl).
    + rewrite Forall_forall. intros e He. apply in_upd in He. destruct He as [->|He]; [exact Hok'|].
      rewrite Forall_forall in HE'. auto.
Qed.

Lemma coh_step c s o s' : Coh c s -> step c s o = Ok s' -> Coh c s'.
Proof.
  intros HC H. destruct o as [n v|v on|n|]; simpl in H.
  - destruct (is_private n); [inversion H; subst; exact HC|].
    destruct (mem n (banned_names c)); [discriminate|].
    destruct (String.eqb n "name"%string); [destruct (v_kind v); inversion H; subst; exact HC|].
    destruct (is_bundle c && String.eqb n "roles"%string); [discriminate|].
    destruct (negb (is_attr c (v_kind v))); [discriminate|].
    eapply coh_do_add; eauto.
  - destruct (negb (is_attr c (v_kind v))); [discriminate|].
    destruct on as [n|], (v_name v) as [m|]; try discriminate; eapply coh_do_add; eauto.
  - discriminate.
  - inversion H. destruct HC as [A B C]. split; simpl; auto.
Qed.

Lemma coh_apply c s o : Coh c s -> Coh c (apply c s o).
Proof. intros H. unfold apply. destruct (step c s o) eqn:E; [eapply coh_step; eauto|exact H]. Qed.

Lemma coh_fold c ops : forall s, Coh c s -> Coh c (fold_left (apply c) ops s).
Proof. induction ops as [|o t IH]; simpl; intros s H; [exact H|]. apply IH, coh_apply, H. Qed.

(* ------------------------------------------------------------------ consequences of Coh *)
Lemma coh_lookup_view c s n v k :
  Coh c s -> (lookup n (st_views s k) = Some v <-> lookup n (st_ns s) = Some v /\ view_of c (v_kind v) = Some k).
Proof.
  intros [ND HV HE]. rewrite HV. split.
  - intros H. apply lookup_in, filter_In in H. destruct H as [H1 H2].
    unfold in_view in H2. simpl in H2. destruct (view_of c (v_kind v)) as [k'|] eqn:E; [|discriminate].
    apply view_eqb_eq in H2. subst k'. split; [|reflexivity].
    destruct (lookup n (st_ns s)) as [w|] eqn:El.
    + apply lookup_in in El. f_equal. eapply nodup_unique; eauto.
    + apply lookup_none in El. exfalso. apply El. eapply in_keys. eauto.
  - intros [H1 H2]. apply lookup_filter_true; [exact H1|]. unfold in_view. simpl. rewrite H2. apply view_eqb_refl.
Qed.

Lemma coh_entry c s n v : Coh c s -> lookup n (st_ns s) = Some v ->
  is_attr c (v_kind v) = true /\ v_name v = Some n /\ reserved c n = false /\ In (v_id v) (st_owned s).
Proof.
  intros [ND HV HE] H. rewrite Forall_forall in HE. apply (HE (n, v)). apply lookup_in. exact H.
Qed.

(* ------------------------------------------------------------------ refinement of the specification *)
Definition table_ok (c : ctr) : bool :=
  forallb (fun n => reserved c n) (banned_names c) && reserved c "name"%string && negb (mem "name"%string (banned_names c))
  && (negb (is_bundle c) || reserved c "roles"%string)
  && forallb (fun n => negb (is_private n)) (reserved_names c)
  && forallb (fun n => reserved c n) (public_attrs c).

Definition R (s : state) (a : astate) : Prop :=
  (forall n, lookup n (st_ns s) = a_map a n) /\ st_elab s = a_elab a.

Lemma mem_forallb (P : name -> bool) l n : forallb P l = true -> mem n l = true -> P n = true.
Proof.
  intros H M. unfold mem in M. apply existsb_exists in M. destruct M as [x [Hx E]].
  apply String.eqb_eq in E. subst. rewrite forallb_forall in H. auto.
Qed.

Lemma refine_do_add c s a n v : R s a ->
  match do_add c s n v, spec_insert c a n v with
  | Ok s', Accepted a' => R s' a'
  | Error _, Rejected => True
  | _, _ => False
  end.
Proof.
  intros [Hm He]. unfold do_add, spec_insert. rewrite <- He.
  destruct (st_elab s) eqn:Ee; [exact I|].
  destruct (reserved c n); [exact I|].
  unfold is_attr. destruct (view_of c (v_kind v)) as [k|]; simpl; [|exact I].
  split; simpl; [|congruence]. intros m. rewrite lookup_upd.
  destruct (String.eqb m n) eqn:E; [reflexivity|].
  destruct (existsb _ _); [rewrite lookup_rem, E|]; apply Hm.
Qed.

Lemma refine_step c s a o : table_ok c = true -> R s a ->
  match step c s o, spec_step c a o with
  | Ok s', Accepted a' => R s' a'
  | Error _, Rejected => True
  | _, _ => False
  end.
Proof.
  intros T HR. unfold table_ok in T.
  apply andb_true_iff in T. destruct T as [T Tpub].
  apply andb_true_iff in T. destruct T as [T Tpriv].
  apply andb_true_iff in T. destruct T as [T Troles].
  apply andb_true_iff in T. destruct T as [T Tnb].
  apply andb_true_iff in T. destruct T as [T Tname].
  apply negb_true_iff in Tnb.
  destruct o as [n v|v on|n|]; simpl.
  - destruct (is_private n); [exact HR|].
    destruct (mem n (banned_names c)) eqn:Eb.
    + assert (reserved c n = true) as Er by exact (mem_forallb (fun n => reserved c n) _ n T Eb).
      destruct (String.eqb n "name"%string) eqn:En.
      * apply String.eqb_eq in En. subst. rewrite Eb in Tnb. discriminate.
      * unfold spec_insert. destruct (a_elab a); [exact I|]. rewrite Er. exact I.
    + destruct (String.eqb n "name"%string); [destruct (v_kind v); try exact I; exact HR|].
      destruct (is_bundle c && String.eqb n "roles"%string) eqn:Ero.
      * apply andb_true_iff in Ero. destruct Ero as [Eb' Ero]. apply String.eqb_eq in Ero. subst.
        rewrite Eb' in Troles. simpl in Troles. unfold spec_insert. destruct (a_elab a); [exact I|]. rewrite Troles. exact I.
      * destruct (negb (is_attr c (v_kind v))) eqn:Ea.
        -- unfold spec_insert. destruct (a_elab a); [exact I|]. destruct (reserved c n); [exact I|]. rewrite Ea. exact I.
        -- apply refine_do_add. exact HR.
  - destruct (negb (is_attr c (v_kind v))) eqn:Ea.
    + destruct on as [n|], (v_name v) as [m|]; try exact I; unfold spec_insert.
      * destruct (a_elab a); [exact I|]. destruct (reserved c n); [exact I|]. rewrite Ea. exact I.
      * destruct (a_elab a); [exact I|]. destruct (reserved c m); [exact I|]. rewrite Ea. exact I.
    + destruct on, (v_name v); try exact I; apply refine_do_add; exact HR.
  - exact I.
  - destruct HR as [Hm He]. split; simpl; auto.
Qed.

Lemma refine_apply c s a o : table_ok c = true -> R s a ->
  R (apply c s o) (spec_apply c a o) /\ is_ok (step c s o) = accepted (spec_step c a o).
Proof.
  intros T HR. pose proof (refine_step c s a o T HR) as H. unfold apply, spec_apply.
  destruct (step c s o), (spec_step c a o); simpl; try tauto.
Qed.

Lemma refine_fold c ops : table_ok c = true -> forall s a, R s a ->
  R (fold_left (apply c) ops s) (fold_left (spec_apply c) ops a).
Proof.
  intros T. induction ops as [|o t IH]; simpl; intros s a HR; [exact HR|].
  apply IH. apply (refine_apply c s a o T HR).
Qed.

Lemma R_init : R init a_init.
Proof. split; reflexivity. Qed.

(* ------------------------------------------------------------------ class bodies *)
Definition class_keys_ok (c : ctr) (items : list (name * value)) : bool :=
  forallb (fun kv => negb (class_rejects_key c (fst kv)) &&
                     negb (is_bundle c && (String.eqb (fst kv) "roles"%string || String.eqb (fst kv) "Roles"%string))) items.

Opaque step.
Lemma class_body_procedural c items : forall s, class_keys_ok c items = true ->
  of_class_body c s items = run_strict c s (class_ops c items).
Proof.
  induction items as [|[k v] t IH]; simpl; intros s H; [reflexivity|].
  apply andb_true_iff in H. destruct H as [H Ht]. apply andb_true_iff in H. destruct H as [H1 H2].
  apply negb_true_iff in H1. apply negb_true_iff in H2. simpl in H1, H2. rewrite H1, H2.
  unfold class_ops. simpl. destruct (is_attr c (v_kind v)); simpl.
  - destruct (step c s (SetAttr k v)); simpl; [apply IH; exact Ht|reflexivity].
  - apply IH. exact Ht.
Qed.

Lemma class_body_bad_key c items : forall s, class_keys_ok c items = false -> exists e, of_class_body c s items = Error e.
Proof.
  induction items as [|[k v] t IH]; simpl; intros s H; [discriminate|].
  destruct (class_rejects_key c k) eqn:H1; [eauto|].
  destruct (is_bundle c && (String.eqb k "roles"%string || String.eqb k "Roles"%string)) eqn:H2; [eauto|].
  simpl in H. destruct (is_attr c (v_kind v)).
  - destruct (step c s (SetAttr k v)); simpl; [apply IH; exact H|eauto].
  - apply IH. exact H.
Qed.

Transparent step.
Lemma run_strict_fold c ops : forall s s', run_strict c s ops = Ok s' -> s' = fold_left (apply c) ops s.
Proof.
  induction ops as [|o t IH]; simpl; intros s s' H; [inversion H; reflexivity|].
  unfold apply. destruct (step c s o) as [s1|e]; simpl in H; [apply IH; exact H|discriminate].
Qed.

Lemma coh_run_strict c ops : forall s s', Coh c s -> run_strict c s ops = Ok s' -> Coh c s'.
Proof.
  intros s s' HC H. apply run_strict_fold in H. subst. apply coh_fold. exact HC.
Qed.

(* ------------------------------------------------------------------ one object per name *)
Notation get := Hdl21.Model.Namespace.get.   (* not String.get *)
Lemma coh_one_view c s n v : Coh c s -> get s n = Some v ->
  exists k, view_of c (v_kind v) = Some k /\ lookup n (st_views s k) = Some v /\
            forall k', k' <> k -> lookup n (st_views s k') = None.
Proof.
  intros HC H. unfold get in H. destruct (coh_entry c s n v HC H) as [Ha _].
  unfold is_attr in Ha. destruct (view_of c (v_kind v)) as [k|] eqn:Hk; [|discriminate].
  exists k. split; [reflexivity|]. split.
  - apply (coh_lookup_view c s n v k HC). auto.
  - intros k' Hne. destruct (lookup n (st_views s k')) as [w|] eqn:E; [|reflexivity].
    apply (coh_lookup_view c s n w k' HC) in E. destruct E as [E1 E2].
    rewrite H in E1. inversion E1. subst w. congruence.
Qed.

Lemma coh_unbound c s n : Coh c s -> get s n = None -> forall k, lookup n (st_views s k) = None.
Proof.
  intros HC H k. destruct (lookup n (st_views s k)) as [w|] eqn:E; [|reflexivity].
  apply (coh_lookup_view c s n w k HC) in E. unfold get in H. destruct E. congruence.
Qed.

Lemma coh_view_entry c s n v k : Coh c s -> lookup n (st_views s k) = Some v -> get s n = Some v.
Proof. intros HC H. apply (coh_lookup_view c s n v k HC) in H. unfold get. tauto. Qed.

Lemma coh_ports c s n v p d : c = CModule -> Coh c s -> get s n = Some v -> v_kind v = KSignal p d ->
  (lookup n (st_views s VPorts) = Some v <-> p = true) /\ (lookup n (st_views s VSignals) = Some v <-> p = false).
Proof.
  intros -> HC H Hk. unfold get in H. split; rewrite (coh_lookup_view CModule s n v _ HC), Hk; destruct p; simpl;
    split; intros; try tauto; try discriminate; try (destruct H0; discriminate); auto.
Qed.

(* ------------------------------------------------------------------ an accepted binding is the last one, others untouched *)
Lemma do_add_binds c s n v s' : do_add c s n v = Ok s' ->
  get s' n = Some (store_name v n) /\ forall m, m <> n -> get s' m = get s m.
Proof.
  unfold do_add. destruct (st_elab s); [discriminate|]. destruct (reserved c n); [discriminate|].
  destruct (view_of c (v_kind v)); [|discriminate]. intros H. inversion H. clear H. unfold get. simpl. split.
  - rewrite lookup_upd, String.eqb_refl. reflexivity.
  - intros m Hm. apply String.eqb_neq in Hm. rewrite lookup_upd, Hm.
    destruct (existsb _ _); [rewrite lookup_rem, Hm|]; reflexivity.
Qed.

(* ------------------------------------------------------------------ rejections *)
Lemma reserved_not_private c n : table_ok c = true -> reserved c n = true -> is_private n = false.
Proof.
  intros T H. unfold table_ok in T.
  apply andb_true_iff in T. destruct T as [T _]. apply andb_true_iff in T. destruct T as [_ Tpriv].
  apply negb_true_iff. exact (mem_forallb (fun n => negb (is_private n)) _ n Tpriv H).
Qed.

Lemma do_add_reserved c s n v : reserved c n = true -> exists e, do_add c s n v = Error e.
Proof. intros H. unfold do_add. destruct (st_elab s); [eauto|]. rewrite H. eauto. Qed.

Lemma do_add_elab c s n v : st_elab s = true -> exists e, do_add c s n v = Error e.
Proof. intros H. unfold do_add. rewrite H. eauto. Qed.

Lemma reject_reserved_setattr c s n v : table_ok c = true -> reserved c n = true ->
  (n = "name"%string -> v_kind v <> KStr) -> exists e, step c s (SetAttr n v) = Error e.
Proof.
  intros T H Hn. simpl. rewrite (reserved_not_private c n T H).
  destruct (mem n (banned_names c)); [eauto|].
  destruct (String.eqb n "name"%string) eqn:E.
  - apply String.eqb_eq in E. specialize (Hn E). destruct (v_kind v); eauto. congruence.
  - destruct (is_bundle c && String.eqb n "roles"%string); [eauto|].
    destruct (negb (is_attr c (v_kind v))); [eauto|]. apply do_add_reserved. exact H.
Qed.

Lemma reject_reserved_add c s v on n : reserved c n = true ->
  (on = Some n /\ v_name v = None) \/ (on = None /\ v_name v = Some n) -> exists e, step c s (Add v on) = Error e.
Proof.
  intros H Hn. simpl. destruct (negb (is_attr c (v_kind v))); [eauto|].
  destruct Hn as [[-> ->]|[-> ->]]; apply do_add_reserved; exact H.
Qed.

Lemma reject_nonhdl_setattr c s n v : is_attr c (v_kind v) = false -> is_private n = false -> n <> "name"%string ->
  exists e, step c s (SetAttr n v) = Error e.
Proof.
  intros H Hp Hn. simpl. rewrite Hp. destruct (mem n (banned_names c)); [eauto|].
  apply String.eqb_neq in Hn. rewrite Hn. destruct (is_bundle c && String.eqb n "roles"%string); [eauto|].
  rewrite H. simpl. eauto.
Qed.

Lemma reject_nonhdl_add c s v on : is_attr c (v_kind v) = false -> exists e, step c s (Add v on) = Error e.
Proof. intros H. simpl. rewrite H. simpl. eauto. Qed.

Lemma reject_after_elab c s o : st_elab s = true ->
  match o with
  | SetAttr n v => is_private n = false /\ n <> "name"%string
  | Add _ _ | Del _ => True
  | Elaborate => False
  end -> exists e, step c s o = Error e.
Proof.
  intros He Ho. destruct o as [n v|v on|n|]; simpl.
  - destruct Ho as [Hp Hn]. rewrite Hp. destruct (mem n (banned_names c)); [eauto|].
    apply String.eqb_neq in Hn. rewrite Hn. destruct (is_bundle c && String.eqb n "roles"%string); [eauto|].
    destruct (negb (is_attr c (v_kind v))); [eauto|]. apply do_add_elab. exact He.
  - destruct (negb (is_attr c (v_kind v))); [eauto|].
    destruct on, (v_name v); eauto; apply do_add_elab; exact He.
  - eauto.
  - tauto.
Qed.

Lemma public_unbound c s n : table_ok c = true -> Coh c s -> mem n (public_attrs c) = true -> get s n = None.
Proof.
  intros T HC H. unfold table_ok in T. apply andb_true_iff in T. destruct T as [_ Tpub].
  pose proof (mem_forallb (fun n => reserved c n) _ n Tpub H) as Hr. simpl in Hr.
  destruct (get s n) as [v|] eqn:E; [|reflexivity].
  destruct (coh_entry c s n v HC E) as [_ [_ [Hx _]]]. congruence.
Qed.
