(* Proofs/C01EProofsEnd.v — composition of the four steps (ResolvePortRefs, ArrayFlattener, SliceResolver, export read
   back as the netlisters read it) into the end-to-end statements, and the terminals of Spec/Nets.v are valid nodes. *)
From Coq Require Import String.
Require Import Hdl21.Base.PyInt Hdl21.Spec.PySlice Hdl21.Model.Slice Hdl21.Model.Resolve Hdl21.Base.Design
               Hdl21.Spec.Nets Hdl21.Spec.WfDesign Hdl21.Base.Package Hdl21.Base.PrimTable Hdl21.Spec.PkgWf
               Hdl21.Spec.C01ENets Hdl21.Model.C01EElab
               Hdl21.Proofs.ResolveProofs Hdl21.Proofs.C01EProofsGraph Hdl21.Proofs.C01EProofsBase Hdl21.Proofs.C01EProofsPass
               Hdl21.Proofs.C01EProofsSim Hdl21.Proofs.C01EProofsWfs Hdl21.Proofs.C01EProofsNames Hdl21.Proofs.C01EProofsSlices
               Hdl21.Proofs.C01EProofsArrays Hdl21.Proofs.C01EProofsExport Hdl21.Proofs.C01EProofsPlan Hdl21.Proofs.C01EProofsPortRefs
               Hdl21.Proofs.C01EProofsPortRefsD.
Open Scope Z_scope.

(* ---- xinfo_ok talks about the leaf devices only, and no pass changes what an instance is an instance of ---- *)
Lemma xinfo_ok_mono xi d d' : xinfo_ok xi d = true ->
  (forall m' x', In m' (d_mods d') -> In x' (m_insts m') -> exists m x, In m (d_mods d) /\ In x (m_insts m) /\ i_of x = i_of x') ->
  xinfo_ok xi d' = true.
Proof.
  unfold xinfo_ok. intros H Hsub. apply andb_prop in H. destruct H as [H1 H2]. rewrite H1. cbn [andb].
  apply forallb_forall. intros m' Hm'. apply forallb_forall. intros x' Hx'. destruct (Hsub m' x' Hm' Hx') as [m [x [Hm [Hx Ho]]]].
  rewrite forallb_forall in H2. specialize (H2 m Hm). rewrite forallb_forall in H2. specialize (H2 x Hx). rewrite Ho in H2. exact H2.
Qed.

Lemma map_modules_insts_sub f d d' : map_modules f d = Ok d' ->
  (forall m m' x', f m = Ok m' -> In x' (m_insts m') -> exists x, In x (m_insts m) /\ i_of x = i_of x') ->
  forall m' x', In m' (d_mods d') -> In x' (m_insts m') -> exists m x, In m (d_mods d) /\ In x (m_insts m) /\ i_of x = i_of x'.
Proof.
  intros H Hf m' x' Hm' Hx'. apply In_nth_error in Hm'. destruct Hm' as [k Hk].
  destruct (map_modules_nth_rev _ _ _ _ _ H Hk) as [m [Hkm Hfm]]. destruct (Hf m m' x' Hfm Hx') as [x [Hx Ho]].
  exists m, x. split; [eapply nth_error_In; exact Hkm|auto].
Qed.

Lemma portrefs_xinfo xi d d1 : portrefs_design xi d = Ok d1 -> xinfo_ok xi d = true -> xinfo_ok xi d1 = true.
Proof.
  intros Hp Hx. apply (xinfo_ok_mono xi d d1 Hx). apply (map_modules_insts_sub _ _ _ Hp).
  intros m m' x' Hm Hx'. destruct (portrefs_module_inv _ _ _ _ Hm) as [keys [allocs [names [insts1 [_ [_ [_ [F ->]]]]]]]].
  cbn [m1 m_insts] in Hx'. destruct (Forall2_In_r _ _ _ x' F Hx') as [x [Hxin Hr]]. exists x. split; [exact Hxin|].
  apply rewrite_inst_inv in Hr. symmetry. tauto.
Qed.

Lemma arrays_xinfo xi d d' : arrays_design d = Ok d' -> xinfo_ok xi d = true -> xinfo_ok xi d' = true.
Proof.
  intros Hp Hx. apply (xinfo_ok_mono xi d d' Hx). apply (map_modules_insts_sub _ _ _ Hp).
  intros m m' x' Hm Hx'. destruct (arrays_module_inv _ _ _ Hm) as [tbl [new [_ [Hn [_ [_ [_ [_ Hi]]]]]]]].
  destruct (am_back d m m' tbl new Hn Hi x' Hx') as [[Hin _]|[x [nm [ps [e [Hxin [_ [_ [_ Hei]]]]]]]]]; [eauto|].
  exists x. split; [exact Hxin|]. apply elem_inst_inv in Hei. symmetry. tauto.
Qed.

Lemma slices_xinfo xi d d' : slices_design d = Ok d' -> xinfo_ok xi d = true -> xinfo_ok xi d' = true.
Proof.
  intros Hp Hx. apply (xinfo_ok_mono xi d d' Hx). apply (map_modules_insts_sub _ _ _ Hp).
  intros m m' x' Hm Hx'. destruct (slices_module_inv _ _ Hm) as [_ [_ [_ [_ [_ F]]]]].
  destruct (Forall2_In_r _ _ _ x' F Hx') as [x [Hxin Hr]]. exists x. split; [exact Hxin|]. apply slices_inst_inv in Hr. symmetry. tauto.
Qed.

(* ---- the name of the top module ---- *)
Lemma top_name_keep f d d' : map_modules f d = Ok d' -> (forall m m', f m = Ok m' -> m_name m' = m_name m) -> top_name d' = top_name d.
Proof.
  intros H Hn. unfold top_name. rewrite (proj1 (map_modules_inv _ _ _ H)).
  destruct (nth_mod d (d_top d)) as [m|] eqn:E; cbn [bind].
  - destruct (map_modules_nth _ _ _ _ _ H E) as [m' [E' Hf]]. rewrite E'. cbn [bind]. rewrite (Hn _ _ Hf). reflexivity.
  - unfold nth_mod in *. destruct (nth_error (d_mods d') (d_top d)) as [m'|] eqn:E'.
    + exfalso. destruct (map_modules_nth_rev _ _ _ _ _ H E') as [m [Em _]]. rewrite Em in E. discriminate.
    + destruct (nth_error (d_mods d) (d_top d)); [discriminate|]. cbn [ofopt bind] in *. inversion E. reflexivity.
Qed.

(* ---- the terminal correspondence: the path and the instance of a node are renamed as ArrayFlattener renames them ---- *)
Definition term_map (xi : xinfo) (d : design) (n : node) : node :=
  match portrefs_design xi d with Ok d1 => phi d1 elem_rename n | Error _ => n end.

(* ---- the end-to-end statement ---- *)
Theorem end_to_end xi d p : wf_design d = Ok tt -> frag_ok d = true -> xinfo_ok xi d = true -> elab_export_model xi d = Ok p ->
  exists tn pd, top_name d = Ok tn /\ design_of_pkg prims_ext p tn = Ok pd /\
    (forall x, valid d x -> valid pd (term_map xi d x)) /\
    (forall x y, valid d x -> valid d y -> (same_net pd (term_map xi d x) (term_map xi d y) <-> same_net d x y)) /\
    (forall x dev, valid d x -> dev_at d x = Ok dev -> dev_at pd (term_map xi d x) = Ok dev).
Proof.
  intros Hwf Hfr Hxi H. unfold elab_export_model, elab_model in H.
  apply bind_ok in H. destruct H as [d3 [Hel Hex]]. apply bind_ok in Hel. destruct Hel as [d1 [H1 Hel]]. apply bind_ok in Hel. destruct Hel as [d2 [H2 H3]].
  pose proof (portrefs_wfs xi d d1 Hwf Hfr Hxi H1) as W1.
  destruct (arrays_wfs d1 d2 W1 H2) as [W2 NA2]. destruct (slices_wfs d2 d3 W2 H3) as [W3 [NA3 R3]].
  pose proof (slices_xinfo xi d2 d3 H3 (arrays_xinfo xi d1 d2 H2 (portrefs_xinfo xi d d1 H1 Hxi))) as Hxi3.
  destruct (export_sound xi d3 W3 NA3 R3 Hxi3) as [p' [tn [pd [Hp' [Htn [Hpd [Vex [Sex Dex]]]]]]]]. rewrite Hex in Hp'. inversion Hp'; subst p'.
  exists tn, pd. split.
  { rewrite <- Htn. unfold slices_design in H3. unfold arrays_design in H2. unfold portrefs_design in H1.
    rewrite (top_name_keep _ _ _ H3); [|intros m m' Hm; apply slices_module_inv in Hm; tauto].
    rewrite (top_name_keep _ _ _ H2); [|intros m m' Hm; destruct (arrays_module_inv _ _ _ Hm) as [_ [_ [_ [_ [Hn _]]]]]; exact Hn].
    rewrite (top_name_keep _ _ _ H1); [reflexivity|].
    intros m m' Hm. destruct (portrefs_module_inv _ _ _ _ Hm) as [keys [allocs [names [insts1 [_ [_ [_ [_ ->]]]]]]]]. reflexivity. }
  split; [exact Hpd|]. unfold term_map. rewrite H1.
  assert (forall x, valid d x -> valid d3 (phi d1 elem_rename x)) as V03.
  { intros x Hx. apply (slices_valid d2 d3 W2 H3). apply (arrays_valid d1 d2 W1 H2). apply (pr_valid_fwd xi d d1 Hwf Hfr Hxi H1). exact Hx. }
  split; [intros x Hx; apply Vex; apply V03; exact Hx|]. split.
  - intros x y Hx Hy.
    pose proof (pr_valid_fwd xi d d1 Hwf Hfr Hxi H1 x Hx) as Hx1. pose proof (pr_valid_fwd xi d d1 Hwf Hfr Hxi H1 y Hy) as Hy1.
    pose proof (arrays_valid d1 d2 W1 H2 x Hx1) as Hx2. pose proof (arrays_valid d1 d2 W1 H2 y Hy1) as Hy2.
    rewrite <- (Sex _ _ (slices_valid d2 d3 W2 H3 _ Hx2) (slices_valid d2 d3 W2 H3 _ Hy2)).
    rewrite <- (slices_same_net d2 d3 W2 H3 _ _ Hx2 Hy2).
    rewrite <- (arrays_same_net d1 d2 W1 H2 x y Hx1 Hy1).
    rewrite <- (portrefs_same_net xi d d1 Hwf Hfr Hxi H1 x y Hx Hy). reflexivity.
  - intros x dev Hx Hd.
    pose proof (pr_valid_fwd xi d d1 Hwf Hfr Hxi H1 x Hx) as Hx1. pose proof (arrays_valid d1 d2 W1 H2 x Hx1) as Hx2.
    apply Dex; [apply (slices_valid d2 d3 W2 H3); exact Hx2|]. apply (slices_dev d2 d3 W2 H3); [exact Hx2|].
    apply (arrays_dev d1 d2 W1 H2); [exact Hx1|]. apply (portrefs_dev xi d d1 Hwf Hfr Hxi H1); assumption.
Qed.

(* ---- the model rejects a valid design only when an invented name would exceed flatname's length limit ---- *)
Theorem pipeline_total xi d : wf_design d = Ok tt -> frag_ok d = true -> xinfo_ok xi d = true ->
  (exists p, elab_export_model xi d = Ok p) \/ elab_export_model xi d = Error EName.
Proof.
  intros Hwf Hfr Hxi. unfold elab_export_model, elab_model.
  destruct (portrefs_total xi d Hwf Hfr Hxi) as [[d1 H1]|H1]; rewrite H1; cbn [bind]; [|right; reflexivity].
  pose proof (portrefs_wfs xi d d1 Hwf Hfr Hxi H1) as W1.
  destruct (arrays_total d1 W1) as [[d2 H2]|H2]; rewrite H2; cbn [bind]; [|right; reflexivity].
  destruct (arrays_wfs d1 d2 W1 H2) as [W2 NA2]. destruct (slices_total d2 W2 NA2) as [d3 H3]. rewrite H3. cbn [bind].
  destruct (slices_wfs d2 d3 W2 H3) as [W3 [NA3 R3]].
  pose proof (slices_xinfo xi d2 d3 H3 (arrays_xinfo xi d1 d2 H2 (portrefs_xinfo xi d d1 H1 Hxi))) as Hxi3.
  destruct (export_sound xi d3 W3 NA3 R3 Hxi3) as [p [_ [_ [Hp _]]]]. left. eauto.
Qed.

(* ---- every terminal of Spec/Nets.v:terminals is a valid node, with the device the list records ---- *)
Lemma elems_ok x e : In e (elems x) -> elem_ok x e = true.
Proof.
  unfold elems, elem_ok. destruct (i_n x <=? 0) eqn:E; [intros [<-|[]]; reflexivity|].
  intros H. apply iota_in in H. destruct H as [k [Hk ->]]. lia.
Qed.

Lemma cat_results_In {A B} (f : A -> result (list B)) l r y : cat_results (map f l) = Ok r -> In y r ->
  exists x ys, In x l /\ f x = Ok ys /\ In y ys.
Proof.
  intros H Hy. apply cat_results_map_ok in H. destruct H as [rs [Hrs ->]]. apply in_concat in Hy. destruct Hy as [ys [Hys Hy]].
  apply traverse_Forall2 in Hrs. destruct (Forall2_In_r _ _ _ ys Hrs Hys) as [x [Hx Hfx]]. eauto.
Qed.

Lemma dev_terms_valid xi d : wf_design d = Ok tt -> xinfo_ok xi d = true ->
  forall fuel m p ts, vmod_at d p = Ok m -> dev_terms d fuel m p = Ok ts ->
  forall n dev, In (n, dev) ts -> valid d n /\ dev_at d n = Ok dev.
Proof.
  intros Hwf Hxi. destruct (wf_design_inv _ Hwf) as [_ [_ Hmods]].
  induction fuel as [|f IH]; intros m p ts Hm H n dev Hin; cbn [dev_terms] in H; [discriminate|].
  destruct (vmod_at_nth _ _ _ Hm) as [km Hkm]. pose proof (Hmods km m (proj1 (nth_mod_nth _ _ _) Hkm)) as Hwm.
  destruct (wf_module_inv _ _ _ Hwm) as [_ [Hnd [_ Hi]]].
  assert (NoDup (map i_name (m_insts m))) as Hndi by (unfold mod_names in Hnd; apply NoDup_app_r in Hnd; apply NoDup_app_r in Hnd; exact Hnd).
  destruct (cat_results_In _ _ _ _ H Hin) as [x [ys [Hx [Hfx Hy]]]]. cbv beta in Hfx.
  destruct (cat_results_In _ _ _ _ Hfx Hy) as [e [zs [He [Hfe Hz]]]]. cbv beta in Hfe.
  pose proof (find_inst_unique _ _ Hndi Hx) as Hfind. pose proof (elems_ok x e He) as Heok.
  destruct (i_of x) as [k|dv ps] eqn:Eo.
  - destruct (nth_mod d k) as [mk|] eqn:Ek; cbn [bind] in Hfe; [|discriminate].
    apply (IH mk ((i_name x, e) :: p) zs); [|exact Hfe|exact Hz].
    apply vmod_at_cons. exists m, x, k. auto.
  - inversion Hfe; subst zs. apply in_concat in Hz. destruct Hz as [l [Hl Hz]]. apply in_map_iff in Hl. destruct Hl as [pw [<- Hpw]].
    apply in_map_iff in Hz. destruct Hz as [n' [E Hn']]. inversion E; subst n' dev. unfold bits_of_port in Hn'. apply in_map_iff in Hn'.
    destruct Hn' as [k [<- Hk]]. apply iota_in in Hk. destruct Hk as [j [Hj ->]].
    destruct (xinfo_dev xi d km m x dv ps Hxi Hkm Hx Eo) as [v [ex [_ [_ [Hw1 [Hndp _]]]]]].
    assert (assoc (fst pw) ps = Some (snd pw)) as Ha by (destruct pw; apply assoc_nodup_In'; assumption).
    rewrite forallb_forall in Hw1. specialize (Hw1 pw Hpw).
    split.
    + exists m, x, (snd pw). split; [exact Hm|]. split; [exact Hfind|]. split; [exact Heok|].
      split; [unfold port_width, target_ports; rewrite Eo; cbn [bind]; rewrite Ha; reflexivity|lia].
    + cbn [dev_at]. rewrite Hm. cbn [bind]. rewrite Hfind. cbn [ofopt bind]. rewrite Eo. reflexivity.
Qed.

Theorem terminals_valid xi d ts : wf_design d = Ok tt -> xinfo_ok xi d = true -> terminals d = Ok ts ->
  forall n dev, In (n, dev) ts -> valid d n /\ dev_at d n = Ok dev.
Proof.
  intros Hwf Hxi H n dev Hin. unfold terminals in H. apply bind_ok in H. destruct H as [top [Ht H]]. apply bind_ok in H. destruct H as [devs [Hd H]].
  inversion H; subst ts. assert (vmod_at d [] = Ok top) as Hm by (unfold vmod_at; rewrite Ht; reflexivity).
  apply in_app_or in Hin. destruct Hin as [Hin|Hin]; [|eapply dev_terms_valid; eassumption].
  apply in_concat in Hin. destruct Hin as [l [Hl Hin]]. apply in_map_iff in Hl. destruct Hl as [pw [<- Hpw]].
  apply in_map_iff in Hin. destruct Hin as [n' [E Hn']]. inversion E; subst n' dev. unfold bits_of_port in Hn'. apply in_map_iff in Hn'.
  destruct Hn' as [k [<- Hk]]. apply iota_in in Hk. destruct Hk as [j [Hj ->]].
  destruct (wf_design_inv _ Hwf) as [_ [_ Hmods]]. pose proof (Hmods _ top (proj1 (nth_mod_nth _ _ _) Ht)) as Hwm.
  destruct (wf_module_inv _ _ _ Hwm) as [_ [Hnd [Hw _]]].
  assert (NoDup (map fst (m_ports top))) as Hndp by (unfold mod_names in Hnd; apply (NoDup_app_l _ _ Hnd)).
  split; [|reflexivity]. exists top, (snd pw). split; [exact Hm|]. split; [|lia].
  destruct pw as [s w]. cbn [fst snd]. unfold sig_width. rewrite (assoc_nodup_In' s w _ Hndp Hpw). reflexivity.
Qed.

(* ---- every package the model exports is well-formed (C06) ---- *)
Theorem pipeline_pkg_wf xi d p : wf_design d = Ok tt -> frag_ok d = true -> xinfo_ok xi d = true ->
  elab_export_model xi d = Ok p -> wf_pkg prims_ext p = Ok tt.
Proof.
  intros Hwf Hfr Hxi H. unfold elab_export_model, elab_model in H.
  apply bind_ok in H. destruct H as [d3 [Hel Hex]]. apply bind_ok in Hel. destruct Hel as [d1 [H1 Hel]]. apply bind_ok in Hel. destruct Hel as [d2 [H2 H3]].
  pose proof (portrefs_wfs xi d d1 Hwf Hfr Hxi H1) as W1.
  destruct (arrays_wfs d1 d2 W1 H2) as [W2 NA2]. destruct (slices_wfs d2 d3 W2 H3) as [W3 [NA3 R3]].
  pose proof (slices_xinfo xi d2 d3 H3 (arrays_xinfo xi d1 d2 H2 (portrefs_xinfo xi d d1 H1 Hxi))) as Hxi3.
  destruct (export_ok xi d3 W3 NA3 R3 Hxi3) as [st [pms [_ [Hinv [_ [_ [Hpms Hp]]]]]]]. rewrite Hex in Hp. inversion Hp; subst p.
  apply (export_pkg_wf xi d3 W3 NA3 R3 Hxi3 st pms Hinv Hpms).
Qed.
