(* Proofs/C06HeldProofs.v — held names vs. carried names (Model/C06Held.v) *)
Require Import Hdl21.Base.PyInt Hdl21.Model.C06Held.
From Coq Require Import String.

Lemma dict_set_keys_in d k o x : In x (map fst (dict_set d k o)) -> x = k \/ In x (map fst d).
Proof.
  induction d as [|[k' v] r IH]; cbn [dict_set map fst In].
  - intros [H|[]]; auto.
  - destruct (String.eqb k' k) eqn:E; cbn [map fst In]; intros [H|H]; auto.
    destruct (IH H); auto.
Qed.

Lemma dict_set_keys_nodup d k o : NoDup (map fst d) -> NoDup (map fst (dict_set d k o)).
Proof.
  induction d as [|[k' v] r IH]; cbn [dict_set map fst]; intros H.
  - constructor; [intros []|constructor].
  - inversion H as [|? ? Hn Hr]; subst.
    destruct (String.eqb k' k) eqn:E; cbn [map fst].
    + constructor; assumption.
    + constructor; [|apply IH; assumption].
      intros Hin. apply dict_set_keys_in in Hin. destruct Hin as [Hk|Hin]; [|contradiction].
      subst k'. rewrite String.eqb_refl in E. discriminate.
Qed.

Lemma hstep_keys_nodup st op : NoDup (map fst (h_ns st)) -> NoDup (map fst (h_ns (hstep st op))).
Proof. destruct op; cbn [hstep h_ns]; auto using dict_set_keys_nodup. Qed.

Lemma fold_keys_nodup ops : forall st, NoDup (map fst (h_ns st)) -> NoDup (map fst (h_ns (fold_left hstep ops st))).
Proof. induction ops as [|op r IH]; cbn [fold_left]; intros st H; auto using hstep_keys_nodup. Qed.

Lemma hrun_keys_nodup ops : NoDup (map fst (h_ns (hrun ops))).
Proof. apply fold_keys_nodup. constructor. Qed.

Lemma orphanage_export sel st : orphanage_ok st = true ->
  export_names sel st = map (fun ko => Some (fst ko)) (filter (fun ko => sel (snd ko)) (h_ns st)).
Proof.
  unfold orphanage_ok, export_names. intros H. rewrite forallb_forall in H.
  apply map_ext_in. intros ko Hin. apply filter_In in Hin. destruct Hin as [Hin _].
  specialize (H ko Hin). destruct (name_of (h_names st) (snd ko)) as [n|]; [|discriminate].
  apply String.eqb_eq in H. subst. reflexivity.
Qed.

Lemma nodup_filter_keys (f : string * objid -> bool) l : NoDup (map fst l) -> NoDup (map fst (filter f l)).
Proof.
  induction l as [|a r IH]; cbn [filter map]; intros H; [constructor|].
  inversion H as [|? ? Hn Hr]; subst. destruct (f a); cbn [map]; [|auto].
  constructor; [|auto]. intros Hin. apply Hn. apply in_map_iff in Hin. destruct Hin as [x [Hx Hin]].
  apply filter_In in Hin. apply in_map_iff. exists x. tauto.
Qed.

Lemma nodup_map_some (l : list string) : NoDup l -> NoDup (map Some l).
Proof.
  induction 1; cbn [map]; constructor; auto.
  intros Hin. apply in_map_iff in Hin. destruct Hin as [y [Hy Hin]]. inversion Hy; subst. contradiction.
Qed.

Lemma held_export_nodup sel ops : orphanage_ok (hrun ops) = true -> NoDup (export_names sel (hrun ops)).
Proof.
  intros H. rewrite (orphanage_export sel _ H).
  rewrite <- (map_map fst Some). apply nodup_map_some. apply nodup_filter_keys. apply hrun_keys_nodup.
Qed.

Lemma held_export_keys sel ops : orphanage_ok (hrun ops) = true ->
  export_names sel (hrun ops) = map Some (map fst (filter (fun ko => sel (snd ko)) (h_ns (hrun ops)))).
Proof. intros H. rewrite (orphanage_export sel _ H). rewrite map_map. reflexivity. Qed.
