(* Proofs/C01FProofsReparent.v — STEP 2 of the extended ResolvePortRefs model on one module
   (Model/C01FElab.v:reparent / reparent_module, the model of update_ref_deps): the leaves of an expression are replaced by
   expressions; the bits of the result are the bits of the original, mapped leaf-wise (sx_subst_bits).  For `reparent`:
   bit k of the result is bit k of the original if that is a signal bit, and if it is bit j of a reference to port q it is
   the signal bit that the chain of connections starting at (q, j) ends on (rtgt - a functional relation). *)
From Coq Require Import String.
Require Import Hdl21.Base.PyInt Hdl21.Spec.PySlice Hdl21.Model.Slice Hdl21.Model.Resolve Hdl21.Base.Design
               Hdl21.Spec.Nets Hdl21.Spec.WfDesign Hdl21.Spec.C01ENets Hdl21.Model.C01EElab Hdl21.Model.C01FElab Hdl21.Spec.C01FNets
               Hdl21.Proofs.ResolveProofs Hdl21.Proofs.C01EProofsGraph Hdl21.Proofs.C01EProofsBase Hdl21.Proofs.C01EProofsPass
               Hdl21.Proofs.C01EProofsWfs Hdl21.Proofs.C01FProofsWfs1.
Open Scope Z_scope.

(* ------------------------------------------------------------------------------------------ substitution of leaves *)
Lemma sx_subst_concat f ps : sx_subst f (XConcat ps) = (ps' <- traverse (sx_subst f) ps ;; Ok (XConcat ps')).
Proof.
  cbn [sx_subst]. f_equal. induction ps as [|p r IH]; cbn [traverse]; [reflexivity|].
  destruct (sx_subst f p); cbn [bind]; [|reflexivity]. rewrite IH. reflexivity.
Qed.

Lemma zlen_map {A B} (g : A -> B) l : zlen (map g l) = zlen l.
Proof. unfold zlen. rewrite map_length. reflexivity. Qed.

Section SubstBits.
Variable f : N -> Z -> result sx.
Variable G : bit -> bit.

Lemma sx_subst_bits e : forall e' bits, sx_subst f e = Ok e' -> xbits e = Ok bits ->
  (forall id w el, In (id, w) (sx_leaves e) -> f id w = Ok el -> xbits el = Ok (map G (sig_bits id w))) ->
  xbits e' = Ok (map G bits).
Proof.
  induction e as [id w|p ix IH|ps IH] using sx_ind'; intros e' bits Hs Hb Hl.
  - cbn [sx_subst] in Hs. cbn [xbits] in Hb. destruct (w <? 1); [discriminate|]. inversion Hb; subst bits.
    apply (Hl id w e'); [left; reflexivity|exact Hs].
  - cbn [sx_subst] in Hs. apply bind_ok in Hs. destruct Hs as [p' [Hp' Hs]]. inversion Hs; subst e'.
    cbn [xbits] in Hb. apply bind_ok in Hb. destruct Hb as [pb [Hpb Hb]]. apply bind_ok in Hb. destruct Hb as [idxs [Hi Hb]].
    cbn [xbits]. rewrite (IH p' pb Hp' Hpb Hl). cbn [bind]. rewrite zlen_map, Hi. cbn [bind]. rewrite select_map, Hb. reflexivity.
  - rewrite sx_subst_concat in Hs. apply bind_ok in Hs. destruct Hs as [ps' [Hps' Hs]]. inversion Hs; subst e'. clear Hs.
    cbn [xbits] in *. cbn [sx_leaves] in Hl.
    revert ps' bits Hps' Hb Hl. induction IH as [|p ps Hp _ IHps]; intros ps' bits Hps' Hb Hl; cbn [traverse map cat_results] in *.
    + inversion Hps'; subst ps'. inversion Hb; subst bits. reflexivity.
    + apply bind_ok in Hps'. destruct Hps' as [p' [Hp' Hps']]. apply bind_ok in Hps'. destruct Hps' as [r' [Hr' Hps']]. inversion Hps'; subst ps'.
      apply bind_ok in Hb. destruct Hb as [a [Ha Hb]]. apply bind_ok in Hb. destruct Hb as [b [Hb' Hb]]. inversion Hb; subst bits.
      cbn [map cat_results concat] in *.
      rewrite (Hp p' a Hp' Ha); [|intros id w el Hin; apply Hl; apply in_or_app; left; exact Hin]. cbn [bind].
      rewrite (IHps r' b Hr' Hb'); [|intros id w el Hin; apply Hl; apply in_or_app; right; exact Hin]. cbn [bind]. rewrite map_app. reflexivity.
Qed.

Lemma sx_subst_leaves (P : N * Z -> Prop) e : forall e', sx_subst f e = Ok e' ->
  (forall id w el, In (id, w) (sx_leaves e) -> f id w = Ok el -> Forall P (sx_leaves el)) -> Forall P (sx_leaves e').
Proof.
  induction e as [id w|p ix IH|ps IH] using sx_ind'; intros e' Hs Hl.
  - cbn [sx_subst] in Hs. apply (Hl id w e'); [left; reflexivity|exact Hs].
  - cbn [sx_subst] in Hs. apply bind_ok in Hs. destruct Hs as [p' [Hp' Hs]]. inversion Hs; subst e'. cbn [sx_leaves]. apply IH; assumption.
  - rewrite sx_subst_concat in Hs. apply bind_ok in Hs. destruct Hs as [ps' [Hps' Hs]]. inversion Hs; subst e'. clear Hs.
    cbn [sx_leaves] in *. revert ps' Hps' Hl. induction IH as [|p ps Hp _ IHps]; intros ps' Hps' Hl; cbn [traverse map concat] in *.
    + inversion Hps'; subst ps'. constructor.
    + apply bind_ok in Hps'. destruct Hps' as [p' [Hp' Hps']]. apply bind_ok in Hps'. destruct Hps' as [r' [Hr' Hps']]. inversion Hps'; subst ps'.
      cbn [map concat]. apply Forall_app. split.
      * apply Hp; [exact Hp'|]. intros id w el Hin. apply Hl. apply in_or_app. left. exact Hin.
      * apply IHps; [exact Hr'|]. intros id w el Hin. apply Hl. apply in_or_app. right. exact Hin.
Qed.

(* the substitution succeeds when it does on every leaf *)
Lemma sx_subst_total e : (forall id w, In (id, w) (sx_leaves e) -> exists el, f id w = Ok el) -> exists e', sx_subst f e = Ok e'.
Proof.
  induction e as [id w|p ix IH|ps IH] using sx_ind'; intros Hl.
  - cbn [sx_subst]. apply Hl. left. reflexivity.
  - cbn [sx_subst]. destruct (IH Hl) as [p' ->]. cbn [bind]. eauto.
  - rewrite sx_subst_concat. cbn [sx_leaves] in Hl.
    assert (exists ps', traverse (sx_subst f) ps = Ok ps') as [ps' ->]; [|cbn [bind]; eauto].
    induction IH as [|p ps Hp _ IHps]; cbn [traverse map concat] in *; [eauto|].
    destruct Hp as [p' ->]; [intros id w Hin; apply Hl; apply in_or_app; left; exact Hin|]. cbn [bind].
    destruct IHps as [r' ->]; [intros id w Hin; apply Hl; apply in_or_app; right; exact Hin|]. cbn [bind]. eauto.
Qed.
End SubstBits.

(* a substitution that leaves every leaf alone is the identity *)
Lemma sx_subst_id f e : (forall id w, In (id, w) (sx_leaves e) -> f id w = Ok (XSig id w)) -> sx_subst f e = Ok e.
Proof.
  induction e as [id w|p ix IH|ps IH] using sx_ind'; intros Hl.
  - cbn [sx_subst]. apply Hl. left. reflexivity.
  - cbn [sx_subst]. rewrite (IH Hl). reflexivity.
  - rewrite sx_subst_concat. cbn [sx_leaves] in Hl.
    assert (traverse (sx_subst f) ps = Ok ps) as ->; [|reflexivity].
    induction IH as [|p ps Hp _ IHps]; cbn [traverse map concat] in *; [reflexivity|].
    rewrite Hp by (intros id w Hin; apply Hl; apply in_or_app; left; exact Hin). cbn [bind].
    rewrite IHps by (intros id w Hin; apply Hl; apply in_or_app; right; exact Hin). reflexivity.
Qed.

(* ------------------------------------------------------------------------------------------ reparent *)
Definition rp_leaf (m : module) (fuel : nat) (id : N) (w : Z) : result sx :=
  match ref_leaf m id with
  | None => Ok (XSig id w)
  | Some q => match fuel with
              | O => Error EFuel
              | S f => cx <- ofopt EUnresolved (pconn m q) ;; reparent m f cx
              end
  end.

Lemma reparent_unfold m fuel e : reparent m fuel e = sx_subst (rp_leaf m fuel) e.
Proof. destruct fuel; reflexivity. Qed.

Lemma map_nth_iota {A} (bs : list A) (dflt : A) : map (fun j => nth (Z.to_nat j) bs dflt) (iota (Datatypes.length bs) 0 1) = bs.
Proof.
  apply nth_ext with (d := dflt) (d' := dflt); [rewrite map_length, iota_length; reflexivity|].
  intros n Hn. rewrite map_length, iota_length in Hn.
  set (g := fun j => nth (Z.to_nat j) bs dflt).
  rewrite (nth_indep (map g (iota (Datatypes.length bs) 0 1)) dflt (g 0)) by (rewrite map_length, iota_length; exact Hn).
  rewrite (map_nth g). unfold g. f_equal.
  pose proof (iota_nth (Datatypes.length bs) 0 1 n Hn) as E. apply nth_error_nth with (d := 0) in E. rewrite E. lia.
Qed.

Lemma pick_nth {A} (l : list A) i x dflt : pick l i = Ok x -> nth (Z.to_nat i) l dflt = x.
Proof.
  unfold pick. destruct (i <? 0); [discriminate|]. destruct (nth_error l (Z.to_nat i)) eqn:E; [|discriminate].
  intros H; inversion H; subst. apply nth_error_nth. exact E.
Qed.

Section RpModule.
Variables (d : design) (km : nat) (m : module).
Hypothesis Hok : module_ok1 d km m.

(* a port of a single instance of the module, its connection and the bits of that *)
Lemma key_conn i p x w : find_inst (m_insts m) i = Some x -> i_n x <= 0 -> port_width d x p = Ok w ->
  exists cx bits, pconn m (i, p) = Some cx /\ xbits cx = Ok bits /\ zlen bits = w /\ 1 <= w /\ Forall (leaf_ok1 d m) (sx_leaves cx).
Proof.
  intros Hf Hn Hw. destruct (find_inst_In _ _ _ Hf) as [Hx _]. destruct Hok as [_ [_ [_ Hi]]]. rewrite Forall_forall in Hi.
  destruct (Hi x Hx) as [_ [ports [Hp [_ [Hc Hall]]]]].
  assert (assoc p ports = Some w) as Hpw by (unfold port_width in Hw; rewrite Hp in Hw; cbn [bind] in Hw; apply ofopt_ok in Hw; exact Hw).
  destruct (assoc p (i_conns x)) as [cx|] eqn:Ea; [|exfalso; apply (Hall (p, w)); [apply assoc_In; exact Hpw|exact Ea]].
  rewrite Forall_forall in Hc. destruct (Hc (p, cx) (assoc_In _ _ _ Ea)) as [w' [cw [Hw' [Hw1 [Hl [Hcw Hcase]]]]]]. cbn [fst snd] in *.
  assert (w' = w) as -> by congruence. destruct (xwidth_ok_xbits _ _ Hcw) as [bits [Hb Hlen]].
  exists cx, bits. split; [unfold pconn; cbn [fst snd]; rewrite Hf; exact Ea|]. split; [exact Hb|]. split; [|split; [exact Hw1|exact Hl]].
  destruct Hcase as [->|[Hpos _]]; [exact Hlen|lia].
Qed.

(* the signal bit that the chain of connections starting at bit j of port q ends on *)
Inductive rtgt : key -> Z -> name * Z -> Prop :=
| rt_sig q j cx bits id' j' s : pconn m q = Some cx -> xbits cx = Ok bits -> pick bits j = Ok (id', j') ->
    assocN id' (m_leaves m) = Some (LSig s) -> rtgt q j (s, j')
| rt_ref q j cx bits id2 j2 i2 p2 b : pconn m q = Some cx -> xbits cx = Ok bits -> pick bits j = Ok (id2, j2) ->
    assocN id2 (m_leaves m) = Some (LRef i2 p2) -> rtgt (i2, p2) j2 b -> rtgt q j b.

Lemma rtgt_fun q j b : rtgt q j b -> forall b', rtgt q j b' -> b = b'.
Proof.
  induction 1 as [q j cx bits id' j' s Hp Hb Hk Hl|q j cx bits id2 j2 i2 p2 b Hp Hb Hk Hl _ IH]; intros b' H'.
  - inversion H' as [q0 j0 cx0 bits0 id0 j0' s0 Hp0 Hb0 Hk0 Hl0|q0 j0 cx0 bits0 id0 j0' i0 p0 b0 Hp0 Hb0 Hk0 Hl0 Hr0]; subst.
    + rewrite Hp in Hp0. inversion Hp0; subst cx0. rewrite Hb in Hb0. inversion Hb0; subst bits0. rewrite Hk in Hk0. inversion Hk0; subst.
      rewrite Hl in Hl0. inversion Hl0. reflexivity.
    + rewrite Hp in Hp0. inversion Hp0; subst cx0. rewrite Hb in Hb0. inversion Hb0; subst bits0. rewrite Hk in Hk0. inversion Hk0; subst.
      rewrite Hl in Hl0. discriminate.
  - inversion H' as [q0 j0 cx0 bits0 id0 j0' s0 Hp0 Hb0 Hk0 Hl0|q0 j0 cx0 bits0 id0 j0' i0 p0 b0 Hp0 Hb0 Hk0 Hl0 Hr0]; subst.
    + rewrite Hp in Hp0. inversion Hp0; subst cx0. rewrite Hb in Hb0. inversion Hb0; subst bits0. rewrite Hk in Hk0. inversion Hk0; subst.
      rewrite Hl in Hl0. discriminate.
    + rewrite Hp in Hp0. inversion Hp0; subst cx0. rewrite Hb in Hb0. inversion Hb0; subst bits0. rewrite Hk in Hk0. inversion Hk0; subst.
      rewrite Hl in Hl0. inversion Hl0; subst. apply IH. exact Hr0.
Qed.

(* what bit k of a re-parented expression is *)
Definition bit_rel (b b' : bit) : Prop :=
  (exists s, assocN (fst b) (m_leaves m) = Some (LSig s) /\ b' = b) \/
  (exists i p s', assocN (fst b) (m_leaves m) = Some (LRef i p) /\ assocN (fst b') (m_leaves m) = Some (LSig s') /\ rtgt (i, p) (snd b) (s', snd b')).

Theorem reparent_sem : forall fuel e e', reparent m fuel e = Ok e' -> Forall (leaf_ok1 d m) (sx_leaves e) ->
  forall bits, xbits e = Ok bits ->
  exists bits', xbits e' = Ok bits' /\ zlen bits' = zlen bits /\ Forall (leaf_ok m) (sx_leaves e') /\
    forall k b, pick bits k = Ok b -> exists b', pick bits' k = Ok b' /\ bit_rel b b'.
Proof.
  induction fuel as [|f IH]; intros e e' Hr Hl bits Hb; rewrite reparent_unfold in Hr.
  - (* no fuel: there is no reference leaf in e *)
    assert (forall id w, In (id, w) (sx_leaves e) -> ref_leaf m id = None) as Hnone.
    { intros id w Hin. destruct (ref_leaf m id) as [q|] eqn:E; [|reflexivity]. exfalso.
      assert (exists e1, sx_subst (rp_leaf m 0) (XSig id w) = Ok e1 \/ True) as _ by (exists e; right; exact I).
      (* the substitution would have failed on this leaf *)
      clear - Hr Hin E. revert e' Hr. induction e as [id0 w0|p ix IHp|ps IHps] using sx_ind'; intros e' Hr.
      - cbn [sx_leaves] in Hin. destruct Hin as [Hin|[]]. inversion Hin; subst. cbn [sx_subst] in Hr. unfold rp_leaf in Hr. rewrite E in Hr. discriminate.
      - cbn [sx_subst] in Hr. apply bind_ok in Hr. destruct Hr as [p' [Hp' _]]. apply (IHp Hin p' Hp').
      - rewrite sx_subst_concat in Hr. apply bind_ok in Hr. destruct Hr as [ps' [Hps' _]]. cbn [sx_leaves] in Hin.
        revert ps' Hps'. induction IHps as [|p ps Hp _ IH2]; intros ps' Hps'; cbn [map concat traverse] in *; [destruct Hin|].
        apply bind_ok in Hps'. destruct Hps' as [p' [Hp' Hps']]. apply bind_ok in Hps'. destruct Hps' as [r' [Hr' _]].
        apply in_app_or in Hin. destruct Hin as [Hin|Hin]; [apply (Hp Hin p' Hp')|apply (IH2 Hin r' Hr')]. }
    assert (sx_subst (rp_leaf m 0) e = Ok e) as Hid.
    { apply sx_subst_id. intros id w Hin. unfold rp_leaf. rewrite (Hnone id w Hin). reflexivity. }
    rewrite Hid in Hr. inversion Hr; subst e'. exists bits. split; [exact Hb|]. split; [reflexivity|]. split.
    + apply Forall_forall. intros [id w] Hin. rewrite Forall_forall in Hl. destruct (Hl _ Hin) as [H|[i [p [x [Hlf _]]]]]; [exact H|].
      exfalso. cbn [fst] in Hlf. pose proof (Hnone id w Hin) as Hn. unfold ref_leaf in Hn. rewrite Hlf in Hn. discriminate.
    + intros k [id j] Hk. exists (id, j). split; [exact Hk|]. left.
      destruct (xbits_inside _ _ Hb _ _ (pick_In _ _ _ Hk)) as [w [Hin _]]. rewrite leaves_sx_leaves in Hin.
      rewrite Forall_forall in Hl. destruct (Hl _ Hin) as [[s [Hs _]]|[i [p [x [Hlf _]]]]]; cbn [fst] in *.
      * exists s. auto.
      * exfalso. pose proof (Hnone id w Hin) as Hn. unfold ref_leaf in Hn. rewrite Hlf in Hn. discriminate.
  - (* the bit map of this level *)
    set (G := fun b : bit =>
                match ref_leaf m (fst b) with
                | None => b
                | Some q => match (cx <- ofopt EUnresolved (pconn m q) ;; e2 <- reparent m f cx ;; xbits e2) with
                            | Ok bs => nth (Z.to_nat (snd b)) bs b
                            | Error _ => b
                            end
                end).
    rewrite Forall_forall in Hl.
    (* every leaf of e: what it is replaced by *)
    assert (forall id w el, In (id, w) (sx_leaves e) -> rp_leaf m (S f) id w = Ok el ->
              xbits el = Ok (map G (sig_bits id w)) /\ Forall (leaf_ok m) (sx_leaves el) /\
              forall j, 0 <= j < w -> bit_rel (id, j) (G (id, j))) as Hleaf.
    { intros id w el Hin Hel. unfold rp_leaf in Hel. destruct (Hl _ Hin) as [[s [Hs Hsw]]|[i [p [x [Hlf [Hf [Hn Hw]]]]]]]; cbn [fst snd] in *.
      - assert (ref_leaf m id = None) as En by (unfold ref_leaf; rewrite Hs; reflexivity). rewrite En in Hel. inversion Hel; subst el.
        assert (forall j, G (id, j) = (id, j)) as HG by (intros j; unfold G; cbn [fst]; rewrite En; reflexivity).
        assert (1 <= w) as Hw1.
        { destruct Hok as [_ [_ [Hwd _]]]. rewrite forallb_forall in Hwd. unfold sig_width in Hsw.
          destruct (assoc s (m_ports m)) as [w0|] eqn:Ep.
          - inversion Hsw; subst w0. specialize (Hwd (s, w) (in_or_app _ _ _ (or_introl (assoc_In _ _ _ Ep)))). cbn [snd] in Hwd. lia.
          - specialize (Hwd (s, w) (in_or_app _ _ _ (or_intror (assoc_In _ _ _ Hsw)))). cbn [snd] in Hwd. lia. }
        split; [|split].
        + cbn [xbits]. destruct (w <? 1) eqn:E; [lia|]. f_equal. unfold sig_bits. rewrite map_map. apply map_ext. intros j. symmetry. apply HG.
        + constructor; [exists s; auto|constructor].
        + intros j Hj. rewrite HG. left. exists s. auto.
      - assert (ref_leaf m id = Some (i, p)) as En by (unfold ref_leaf; rewrite Hlf; reflexivity). rewrite En in Hel.
        destruct (key_conn i p x w Hf Hn Hw) as [cx [cbits [Hpc [Hcb [Hclen [Hw1 Hcl]]]]]].
        rewrite Hpc in Hel. cbn [ofopt bind] in Hel.
        destruct (IH cx el Hel Hcl cbits Hcb) as [bs [Hbs [Hblen [Hbl Hbk]]]].
        assert (forall j, 0 <= j < w -> G (id, j) = nth (Z.to_nat j) bs (id, j)) as HG.
        { intros j Hj. unfold G. cbn [fst snd]. rewrite En, Hpc. cbn [ofopt bind]. rewrite Hel. cbn [bind]. rewrite Hbs. reflexivity. }
        split; [|split].
        + rewrite Hbs. f_equal. unfold sig_bits. rewrite map_map.
          assert (Z.to_nat w = Datatypes.length bs) as El by (unfold zlen in *; lia). rewrite El.
          rewrite <- (map_nth_iota bs (id, 0)) at 1. apply map_ext_in. intros j Hj. apply iota_in in Hj. destruct Hj as [kk [Hkk ->]].
          rewrite HG by (unfold zlen in *; lia). apply nth_indep. lia.
        + exact Hbl.
        + intros j Hj. rewrite (HG j Hj). right. exists i, p. cbn [fst snd].
          cut (exists s', assocN (fst (nth (Z.to_nat j) bs (id, j))) (m_leaves m) = Some (LSig s') /\ rtgt (i, p) j (s', snd (nth (Z.to_nat j) bs (id, j)))).
          { intros [s' [A B]]. exists s'. auto. }
          destruct (pick_ok cbits j) as [[idc jc] [Hpk _]]; [lia|]. destruct (Hbk j (idc, jc) Hpk) as [b' [Hpb' Hrel]].
          rewrite (pick_nth bs j b' (id, j) Hpb').
          destruct Hrel as [[s [Hs ->]]|[i2 [p2 [s' [Hl2 [Hs' Hr2]]]]]]; cbn [fst snd] in *.
          * exists s. split; [exact Hs|]. eapply rt_sig; eassumption.
          * exists s'. split; [exact Hs'|]. eapply rt_ref; eassumption. }
    exists (map G bits). split; [|split; [apply zlen_map|split]].
    + apply (sx_subst_bits (rp_leaf m (S f)) G e e' bits Hr Hb). intros id w el Hin Hel. apply (Hleaf id w el Hin Hel).
    + apply (sx_subst_leaves (rp_leaf m (S f)) (leaf_ok m) e e' Hr). intros id w el Hin Hel. apply (Hleaf id w el Hin Hel).
    + intros k [id j] Hk. exists (G (id, j)). split; [rewrite pick_map, Hk; reflexivity|].
      destruct (xbits_inside _ _ Hb _ _ (pick_In _ _ _ Hk)) as [w [Hin Hj]]. rewrite leaves_sx_leaves in Hin.
      (* the substitution succeeded on this leaf *)
      assert (exists el, rp_leaf m (S f) id w = Ok el) as [el Hel].
      { clear - Hr Hin. revert e' Hr. induction e as [id0 w0|p ix IHp|ps IHps] using sx_ind'; intros e' Hr.
        - cbn [sx_leaves] in Hin. destruct Hin as [Hin|[]]. inversion Hin; subst. cbn [sx_subst] in Hr. eauto.
        - cbn [sx_subst] in Hr. apply bind_ok in Hr. destruct Hr as [p' [Hp' _]]. apply (IHp Hin p' Hp').
        - rewrite sx_subst_concat in Hr. apply bind_ok in Hr. destruct Hr as [ps' [Hps' _]]. cbn [sx_leaves] in Hin.
          revert ps' Hps'. induction IHps as [|p ps Hp _ IH2]; intros ps' Hps'; cbn [map concat traverse] in *; [destruct Hin|].
          apply bind_ok in Hps'. destruct Hps' as [p' [Hp' Hps']]. apply bind_ok in Hps'. destruct Hps' as [r' [Hr' _]].
          apply in_app_or in Hin. destruct Hin as [Hin|Hin]; [apply (Hp Hin p' Hp')|apply (IH2 Hin r' Hr')]. }
      apply (Hleaf id w el Hin Hel). exact Hj.
Qed.
End RpModule.
