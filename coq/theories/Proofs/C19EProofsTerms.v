(* Proofs/C19EProofsTerms.v — Spec/Nets.v:terminals of the Series design, for every n: exactly the bits of the stack's ports
   (device "") and the port bits of the n units (device = the unit); composition with the end-to-end theorem in the form
   Props/C01F.v:C01F_end_to_end_partial states it (same_net_pkg on `terminals d`). *)
Require Import Hdl21.Base.PyInt Hdl21.Spec.PySlice Hdl21.Model.Slice Hdl21.Model.Resolve Hdl21.Base.Design
               Hdl21.Spec.Nets Hdl21.Spec.WfDesign Hdl21.Spec.C01ENets Hdl21.Base.Package Hdl21.Base.PrimTable
               Hdl21.Model.C01EElab Hdl21.Model.C01FElab Hdl21.Spec.C01FNets Hdl21.Proofs.C01FProofsEnd
               Hdl21.Spec.C19Topology Hdl21.Model.C19Series Hdl21.Proofs.C19Proofs
               Hdl21.Model.C19EDesign Hdl21.Proofs.C19EProofsStep Hdl21.Proofs.C19EProofsTopo Hdl21.Proofs.C19EProofsWf
               Hdl21.Proofs.C19EProofsEnd.
From Coq Require String.
Open Scope string_scope.
Open Scope Z_scope.

Lemma cat_results_map_ok {A B} (f : A -> list B) l : cat_results (map (fun e => Ok (f e)) l) = Ok (concat (map f l)).
Proof. induction l as [|x t IH]; cbn [map cat_results concat bind]; [reflexivity|]. rewrite IH. reflexivity. Qed.

Lemma in_iota n x k : 0 <= k < Z.of_nat n -> In (x + k) (iota n x 1).
Proof. intros H. apply (nth_error_In _ (Z.to_nat k)). rewrite iota_nth by lia. f_equal. lia. Qed.

Lemma in_iota0 n y : In y (iota n 0 1) <-> 0 <= y < Z.of_nat n.
Proof.
  split.
  - intros H. apply iota_in in H. destruct H as [k [Hk ->]]. lia.
  - intros H. replace y with (0 + y) by lia. apply in_iota. exact H.
Qed.

Lemma in_bits_of_port mk w t : In t (bits_of_port mk w) <-> exists k, 0 <= k < w /\ t = mk k.
Proof.
  unfold bits_of_port. rewrite in_map_iff. split.
  - intros [k [<- Hk]]. apply in_iota0 in Hk. exists k. split; [lia|reflexivity].
  - intros [k [Hk ->]]. exists k. split; [reflexivity|]. apply in_iota0. lia.
Qed.

(* the terminal list one instance (element e) or the top module contributes *)
Lemma in_port_terms (mk : name -> Z -> node) (dev : name) io t dv :
  In (t, dv) (concat (map (fun pw : name * Z => map (fun nd => (nd, dev)) (bits_of_port (mk (fst pw)) (snd pw))) io)) <->
  dv = dev /\ exists p wp k, In (p, wp) io /\ 0 <= k < wp /\ t = mk p k.
Proof.
  rewrite in_concat. split.
  - intros [l [Hl Hin]]. apply in_map_iff in Hl. destruct Hl as [[p wp] [<- Hpw]]. cbn [fst snd] in Hin.
    apply in_map_iff in Hin. destruct Hin as [nd [E Hnd]]. injection E as <- <-. apply in_bits_of_port in Hnd.
    destruct Hnd as [k [Hk ->]]. split; [reflexivity|]. exists p, wp, k. auto.
  - intros [-> [p [wp [k [Hpw [Hk ->]]]]]].
    exists (map (fun nd => (nd, dev)) (bits_of_port (mk p) wp)). split.
    + apply in_map_iff. exists (p, wp). split; [reflexivity|exact Hpw].
    + apply in_map_iff. exists (mk p k). split; [reflexivity|]. apply in_bits_of_port. exists k. auto.
Qed.

Theorem series_terminals nm io a b w n : series_ok nm io a b w n = true ->
  exists ts, terminals (series_design nm io a b w n) = Ok ts /\
    forall t dev, In (t, dev) ts <-> (stack_port io t /\ dev = "") \/ (unit_port nm io n t /\ dev = sn_dev nm).
Proof.
  intros Hok. destruct (series_ok_inv _ _ _ _ _ _ Hok) as [_ [_ [_ [_ [_ [_ [_ [_ [_ Hn]]]]]]]]].
  set (d := series_design nm io a b w n). set (iw := (n - 1) * w).
  assert (dev_terms d 2 (series_top nm io a b n iw) [] =
          Ok (concat (map (fun e => concat (map (fun pw : name * Z => map (fun nd => (nd, sn_dev nm))
                     (bits_of_port (NPort [] (sn_units nm) e (fst pw)) (snd pw))) io)) (iota (Z.to_nat n) 0 1)) ++ [])) as Hdev.
  { cbn [dev_terms m_insts series_top map cat_results].
    change (i_of (series_inst nm io a b n iw)) with (TDev (sn_dev nm) io).
    change (i_name (series_inst nm io a b n iw)) with (sn_units nm).
    assert (elems (series_inst nm io a b n iw) = iota (Z.to_nat n) 0 1) as ->.
    { unfold elems. cbn [i_n series_inst]. destruct (n <=? 0) eqn:E; [lia|reflexivity]. }
    cbv beta iota.
    rewrite (cat_results_map_ok (fun e => concat (map (fun pw : name * Z => map (fun nd => (nd, sn_dev nm))
                     (bits_of_port (NPort [] (sn_units nm) e (fst pw)) (snd pw))) io))).
    reflexivity. }
  eexists. split.
  { unfold terminals. change (nth_mod d (d_top d)) with (Ok (series_top nm io a b n iw)). cbn [bind].
    change (S (Datatypes.length (d_mods d))) with 2%nat. rewrite Hdev. cbn [bind]. reflexivity. }
  intros t dev. cbn [m_ports series_top]. rewrite in_app_iff, app_nil_r.
  rewrite (in_port_terms (fun p k => NSig [] p k) "" io t dev). rewrite in_concat. split.
  - intros [[-> [p [wp [k [H1 [H2 ->]]]]]]|[l [Hl Hin]]].
    + left. split; [|reflexivity]. exists p, wp, k. auto.
    + apply in_map_iff in Hl. destruct Hl as [e [<- He]]. apply in_iota0 in He.
      apply (in_port_terms (fun p k => NPort [] (sn_units nm) e p k) (sn_dev nm) io t dev) in Hin.
      destruct Hin as [-> [p [wp [k [H1 [H2 ->]]]]]]. right. split; [|reflexivity]. exists e, p, wp, k.
      repeat split; try assumption; lia.
  - intros [[[p [wp [k [-> [H1 H2]]]]] ->]|[[e [p [wp [k [-> [H1 [H2 He]]]]]]] ->]].
    + left. split; [reflexivity|]. exists p, wp, k. auto.
    + right. eexists. split.
      * apply in_map_iff. exists e. split; [reflexivity|]. apply in_iota0. lia.
      * apply (in_port_terms (fun p k => NPort [] (sn_units nm) e p k) (sn_dev nm) io). split; [reflexivity|]. exists p, wp, k. auto.
Qed.

(* the end-to-end statement on `terminals d`, as Props/C01F.v:C01F_end_to_end_partial states it *)
Theorem series_exported_terminals nm io a b w n xi p ts :
  series_ok nm io a b w n = true ->
  let d := series_design nm io a b w n in
  xinfo_ok xi d = true -> elab_export_model2 xi d = Ok p -> terminals d = Ok ts ->
  (forall t dev, In (t, dev) ts <-> (stack_port io t /\ dev = "") \/ (unit_port nm io n t /\ dev = sn_dev nm)) /\
  (forall t1 t2 dev1 dev2, In (t1, dev1) ts -> In (t2, dev2) ts ->
     (same_net_pkg p (sn_mod nm) (term_map2 xi d t1) (term_map2 xi d t2) <-> series_node_key n a b t1 = series_node_key n a b t2)).
Proof.
  intros Hok d Hxi Hp Hts. subst d. destruct (series_terminals nm io a b w n Hok) as [ts' [Hts' Hin]].
  rewrite Hts in Hts'. injection Hts' as <-. split; [exact Hin|].
  destruct (series_exported nm io a b w n Hok xi p Hxi Hp) as [pd [Hpd [_ [Hs _]]]].
  intros t1 t2 dev1 dev2 H1 H2.
  assert (forall t dev, In (t, dev) ts -> stack_term nm io n t) as Hterm.
  { intros t dev H. apply Hin in H. destruct H as [[H _]|[H _]]; [left|right]; exact H. }
  rewrite <- (Hs t1 t2 (Hterm _ _ H1) (Hterm _ _ H2)). unfold same_net_pkg. split.
  - intros [pd' [Hpd' H]]. rewrite Hpd in Hpd'. injection Hpd' as <-. exact H.
  - intros H. exists pd. auto.
Qed.

(* ---- what the terminal correspondence term_map2 does to the terminal bits of a one-level design, for EVERY design:
        a bit of a port of the top module is left alone; a port bit of an instance of the top module keeps its port and
        its bit - only the (instance, element) pair is renamed (ArrayFlattener's element names) ---- *)
Lemma term_map2_top_sig xi d s k : term_map2 xi d (NSig [] s k) = NSig [] s k.
Proof.
  unfold term_map2. destruct (portrefs2_design xi d) as [d1|]; [|reflexivity].
  cbn [Hdl21.Proofs.C01EProofsSim.phi]. unfold Hdl21.Proofs.C01EProofsSim.tr_path.
  destruct (nth_mod d1 (d_top d1)); reflexivity.
Qed.

Lemma term_map2_top_port xi d i e p k : exists i' e', term_map2 xi d (NPort [] i e p k) = NPort [] i' e' p k.
Proof.
  unfold term_map2. destruct (portrefs2_design xi d) as [d1|]; [|eauto].
  cbn [Hdl21.Proofs.C01EProofsSim.phi]. destruct (vmod_at d1 []); [|eauto].
  unfold Hdl21.Proofs.C01EProofsSim.tr_path. destruct (nth_mod d1 (d_top d1)); eauto.
Qed.

(* in the exported package the stack's own port bits are the nodes NSig [] q k themselves: which unit terminals they carry *)
Theorem series_exported_port_nets nm io a b w n xi p :
  series_ok nm io a b w n = true ->
  let d := series_design nm io a b w n in
  xinfo_ok xi d = true -> elab_export_model2 xi d = Ok p ->
  exists pd, design_of_pkg prims_ext p (sn_mod nm) = Ok pd /\
    forall q wq k t, In (q, wq) io -> 0 <= k < wq -> stack_term nm io n t ->
      (same_net pd (term_map2 xi d t) (NSig [] q k) <-> series_node_key n a b t = KPort q k).
Proof.
  intros Hok d Hxi Hp. subst d. destruct (series_exported nm io a b w n Hok xi p Hxi Hp) as [pd [Hpd [_ [Hs _]]]].
  exists pd. split; [exact Hpd|]. intros q wq k t Hq Hk Ht.
  pose proof (Hs t (NSig [] q k) Ht (port_term nm io n q wq k Hq Hk)) as H.
  rewrite term_map2_top_sig in H. exact H.
Qed.
