(* Proofs/C01FProofsPortRefsD.v — STEP 1 of the extended ResolvePortRefs model on a whole design (adapted from
   Proofs/C01EProofsPortRefsD.v; no frag_ok): the result is wfs1; the only failure on a valid design is flatname's length
   limit; same_net is kept (a rewiring in the sense of C01EProofsGraph.rewire_meet: whole-connection references are replaced by
   the group's connection, implicit and private signals are new nodes that the retraction psi sends back to a port of the
   group they stand for; references inside slices / concatenations are left to step 2). *)
From Coq Require Import String.
Require Import Hdl21.Base.PyInt Hdl21.Spec.PySlice Hdl21.Model.Slice Hdl21.Model.Resolve Hdl21.Base.Design
               Hdl21.Spec.Nets Hdl21.Spec.WfDesign Hdl21.Spec.C01ENets Hdl21.Model.C01EElab Hdl21.Model.C01FElab Hdl21.Spec.C01FNets Hdl21.Proofs.FunGraph
               Hdl21.Proofs.ResolveProofs Hdl21.Proofs.C01EProofsGraph Hdl21.Proofs.C01EProofsBase Hdl21.Proofs.C01EProofsPass
               Hdl21.Proofs.C01EProofsSim Hdl21.Proofs.C01EProofsWfs Hdl21.Proofs.C01EProofsNames Hdl21.Proofs.C01EProofsSlices
               Hdl21.Proofs.C01EProofsArrays Hdl21.Proofs.C01EProofsExport
               Hdl21.Proofs.C01FProofsGroups Hdl21.Proofs.C01FProofsPlan Hdl21.Proofs.C01FProofsWfs1 Hdl21.Proofs.C01FProofsPortRefs.
Require Hdl21.Proofs.C01EProofsPortRefsD.
Open Scope Z_scope.

(* step 1 over a whole design (the model runs step 1 and step 2 module by module; both look at other modules only through
   their port lists, which neither changes, so "step 1 everywhere, then step 2 everywhere" is the same design) *)
Definition portrefs1_design (xi : xinfo) (d : design) : result design :=
  map_modules (fun m => km <- portrefs1_module d (ncnames xi m) m ;; Ok (snd km)) d.

Definition port_widths_pos := C01EProofsPortRefsD.port_widths_pos.
Definition vdown_skel := C01EProofsPortRefsD.vdown_skel.
Definition Forall2_flip {A B} := @C01EProofsPortRefsD.Forall2_flip A B.

Lemma portrefs1_module_inv d ncn m km' : portrefs1_module d ncn m = Ok km' ->
  exists keys allocs names insts1, all_keys d m = Ok keys /\ plan d ncn m keys (seeds2 m) [] = Ok allocs /\
    alloc_names (map a_base allocs) (namespace m) = Ok names /\
    Forall2 (fun x x1 => rewrite_inst m keys (number_allocs (combine allocs names) (next_leaf m)) x = Ok x1) (m_insts m) insts1 /\
    km' = (keys, m1 m allocs names insts1).
Proof.
  unfold portrefs1_module, pr_table2. intros H. apply bind_ok in H. destruct H as [[keys table] [Ht H]].
  apply bind_ok in Ht. destruct Ht as [keys' [Hk Ht]]. apply bind_ok in Ht. destruct Ht as [allocs [Ha Ht]].
  apply bind_ok in Ht. destruct Ht as [names [Hn Ht]]. inversion Ht; subst keys' table. cbn [fst snd] in H.
  apply bind_ok in H. destruct H as [insts1 [Hi H]]. inversion H; subst km'.
  exists keys, allocs, names, insts1. split; [exact Hk|]. split; [exact Ha|]. split; [exact Hn|]. split; [apply traverse_Forall2; exact Hi|reflexivity].
Qed.

Lemma portrefs1_step_inv d ncn m m1' : (km <- portrefs1_module d ncn m ;; Ok (snd km)) = Ok m1' ->
  exists keys allocs names insts1, all_keys d m = Ok keys /\ plan d ncn m keys (seeds2 m) [] = Ok allocs /\
    alloc_names (map a_base allocs) (namespace m) = Ok names /\
    Forall2 (fun x x1 => rewrite_inst m keys (number_allocs (combine allocs names) (next_leaf m)) x = Ok x1) (m_insts m) insts1 /\
    m1' = m1 m allocs names insts1.
Proof.
  intros H. apply bind_ok in H. destruct H as [km [Hkm H]]. inversion H; subst m1'.
  destruct (portrefs1_module_inv _ _ _ _ Hkm) as [keys [allocs [names [insts1 [H1 [H2 [H3 [H4 ->]]]]]]]]. exists keys, allocs, names, insts1. auto.
Qed.

Lemma frag_ok2_module d k m : frag_ok2 d = true -> nth_mod d k = Ok m -> forall x c, In x (m_insts m) -> In c (i_conns x) -> conn_frag2 d m x c = true.
Proof. intros H Hm x c Hx Hc. eapply frag_ok2_conn; eassumption. Qed.

Lemma module_ok1_keep d d' k m : (forall t ps, target_ports d t = Ok ps -> target_ports d' t = Ok ps) -> module_ok1 d k m -> module_ok1 d' k m.
Proof.
  intros Htp [H1 [H2 [H3 H4]]]. split; [exact H1|]. split; [exact H2|]. split; [exact H3|].
  eapply Forall_impl; [|exact H4]. intros x [Ho [ports [Hpt [Hnd [Hc Hall]]]]]. split; [exact Ho|]. exists ports.
  split; [apply Htp; exact Hpt|]. split; [exact Hnd|]. split; [|exact Hall].
  eapply Forall_impl; [|exact Hc]. intros c [w [cw [A [B [C D]]]]]. exists w, cw. split; [exact A|]. split; [exact B|]. split; [|exact D].
  eapply Forall_impl; [|exact C]. intros lw [Hl|[i [p [xq [Hl [Hf [Hn Hw]]]]]]]; [left; exact Hl|]. right. exists i, p, xq.
  split; [exact Hl|]. split; [exact Hf|]. split; [exact Hn|]. unfold port_width in *.
  destruct (target_ports d (i_of xq)) as [ps|] eqn:E; cbn [bind] in Hw; [|discriminate]. rewrite (Htp _ _ E). exact Hw.
Qed.

Lemma portrefs1_ports_keep d ncn : forall m m', (km <- portrefs1_module d ncn m ;; Ok (snd km)) = Ok m' -> m_ports m' = m_ports m.
Proof. intros m m' H. destruct (portrefs1_step_inv _ _ _ _ H) as [keys [allocs [names [insts1 [_ [_ [_ [_ ->]]]]]]]]. reflexivity. Qed.

(* the acyclicity half of frag_ok2 plays no part in step 1: only the no-connect half is used *)
Definition nc_frag (d : design) : Prop :=
  forall k m, nth_mod d k = Ok m -> forall x c, In x (m_insts m) -> In c (i_conns x) -> conn_frag2 d m x c = true.

Lemma frag_ok2_nc_frag d : frag_ok2 d = true -> nc_frag d.
Proof. intros H k m Hm. apply (frag_ok2_module d k m H Hm). Qed.

Theorem portrefs1_wfs1 xi d d1 : wf_design d = Ok tt -> nc_frag d -> xinfo_ok xi d = true ->
  portrefs1_design xi d = Ok d1 -> wfs1 d1.
Proof.
  intros Hwf Hfr Hxi Hpass. destruct (wf_design_inv _ Hwf) as [Htop [Hnd Hmods]]. unfold portrefs1_design in Hpass.
  assert (forall t ps, target_ports d t = Ok ps -> target_ports d1 t = Ok ps) as Htp.
  { intros t ps. apply (target_ports_keep _ _ _ t Hpass). intros m m' H. eapply portrefs1_ports_keep. exact H. }
  split; [|split].
  - rewrite (map_modules_length _ _ _ Hpass). rewrite (proj1 (map_modules_inv _ _ _ Hpass)). exact Htop.
  - rewrite (map_modules_names _ _ _ Hpass); [exact Hnd|]. intros m m' H. destruct (portrefs1_step_inv _ _ _ _ H) as [keys [allocs [names [insts1 [_ [_ [_ [_ ->]]]]]]]]. reflexivity.
  - intros k m1' Hk. destruct (map_modules_nth_rev _ _ _ _ _ Hpass Hk) as [m [Hkm Hm]].
    destruct (portrefs1_step_inv _ _ _ _ Hm) as [keys [allocs [names [insts1 [Hkeys [Hplan [Hnames [Hins ->]]]]]]]].
    apply (module_ok1_keep d d1 k _ Htp).
    refine (pr_module_ok d (ncnames xi m) k m (Hmods k m Hkm) (Hfr k m (proj2 (nth_mod_nth _ _ _) Hkm)) _ keys allocs names Hkeys Hplan Hnames insts1 Hins).
    intros x ports pw Hx Hp Hin. eapply port_widths_pos; try eassumption. apply nth_mod_nth. exact Hkm.
Qed.

(* ------------------------------------------------------------------------------------------ the only failure is the name length limit *)
Section PRTotal.
Variables (d : design) (ncn : list (N * name)) (km : nat) (m : module).
Hypothesis Hwm : wf_module d km m = Ok tt.
Hypothesis Hfrag : forall x c, In x (m_insts m) -> In c (i_conns x) -> conn_frag2 d m x c = true.
Hypothesis Hpw : forall x ports pw, In x (m_insts m) -> target_ports d (i_of x) = Ok ports -> In pw ports -> 1 <= snd pw.

Lemma all_keys_total : exists keys, all_keys d m = Ok keys.
Proof.
  unfold all_keys.
  assert (forall l : list inst, (forall x, In x l -> exists ps, target_ports d (i_of x) = Ok ps) ->
            exists keys, cat_results (map (fun x => if single x then ps <- target_ports d (i_of x) ;; Ok (map (fun pw : name * Z => (i_name x, fst pw)) ps)
                                                  else Ok []) l) = Ok keys) as G.
  { induction l as [|x l IH]; intros H; cbn [map cat_results]; [eauto|].
    destruct IH as [keys Hk]; [intros y Hy; apply H; right; exact Hy|]. rewrite Hk.
    destruct (single x); [destruct (H x (or_introl eq_refl)) as [ps ->]|]; cbn [bind]; eauto. }
  apply G. intros x Hx. destruct (wf_module_inv _ _ _ Hwm) as [_ [_ [_ Hi]]]. destruct (wf_inst_inv _ _ _ _ (Hi x Hx)) as [_ [ports [Hp _]]]. eauto.
Qed.

Variable keys : list key.
Hypothesis Hkeys : all_keys d m = Ok keys.

Lemma group_res_total q g : In q (mentioned2 m) -> In q keys -> gid m keys q = Some g -> exists gr, group_res m keys g = Ok gr.
Proof.
  intros Hq Hqk Hg. destruct (gid_spec d km m keys Hwm Hkeys q g Hqk Hg) as [Hgk Cg].
  pose proof (gid_idem d km m keys Hwm Hkeys q g Hqk Hg) as Hgg.
  destruct (attr_spec d km m keys Hwm Hkeys g Hgk) as [Hrk Cr]. unfold group_res.
  destruct (pconn m (attr m keys g)) as [cx|] eqn:Ep; [|eauto].
  destruct (as_ref m cx) eqn:Er.
  - destruct (members m keys g) as [|x t] eqn:Em; [|eauto]. exfalso.
    assert (In g (members m keys g)) as Hin by (apply members_In; auto). rewrite Em in Hin. destruct Hin.
  - destruct (as_nc m cx) as [site|] eqn:En; [|eauto]. exfalso.
    apply (root_not_nc d km m Hwm Hfrag Hpw keys Hkeys q (attr m keys g) cx site Hq Hrk); [|exact Ep|exact En].
    eapply c_trans; [apply c_sym; exact Cg|exact Cr].
Qed.

Lemma plan_total : forall ss done, Forall (seed_ok m keys) ss -> (forall q, In (SRef q) ss -> In q (mentioned2 m)) ->
  exists allocs, plan d ncn m keys ss done = Ok allocs.
Proof.
  induction ss as [|s r IH]; intros done Hok Hment; cbn [plan]; [eauto|]. inversion Hok as [|? ? Hs Hr]; subst.
  assert (forall q, In (SRef q) r -> In q (mentioned2 m)) as Hment' by (intros q Hq; apply Hment; right; exact Hq).
  destruct s as [q|x p site].
  - cbn [seed_ok] in Hs. destruct (gid_total d km m keys Hwm Hkeys q Hs) as [g Hg]. rewrite Hg. cbn [ofopt bind].
    destruct (kmem g done); [apply IH; assumption|].
    destruct (group_res_total q g (Hment q (or_introl eq_refl)) Hs Hg) as [gr Hgr]. rewrite Hgr. cbn [bind].
    destruct gr as [cx|o namer]; [apply IH; assumption|].
    destruct (gid_spec d km m keys Hwm Hkeys q g Hs Hg) as [Hgk _].
    destruct (group_res_fresh d km m Hwm keys Hkeys g o namer Hgk (gid_idem d km m keys Hwm Hkeys q g Hs Hg) Hgr) as [_ [_ [Hnk _]]].
    destruct (key_width_keys d km m keys Hwm Hkeys namer Hnk) as [w Hw]. rewrite Hw. cbn [bind].
    destruct (IH (g :: done) Hr Hment') as [rest ->]. cbn [bind]. eauto.
  - cbn [seed_ok] in Hs. destruct Hs as [Hx [cx [Hc _]]].
    destruct (wf_module_inv _ _ _ Hwm) as [_ [_ [_ Hi]]]. destruct (wf_inst_inv _ _ _ _ (Hi x Hx)) as [_ [ports [Hp [_ [Hwc _]]]]].
    destruct (wf_conn_inv _ _ _ _ _ (Hwc _ Hc)) as [w [Hw _]]. cbn [fst] in Hw.
    assert (port_width d x p = Ok w) as -> by (unfold port_width; rewrite Hp; cbn [bind]; rewrite Hw; reflexivity). cbn [bind].
    destruct (IH done Hr Hment') as [rest ->]. cbn [bind]. eauto.
Qed.

Lemma seeds_mentioned q : In (SRef q) (seeds2 m) -> In q (mentioned2 m).
Proof.
  unfold seeds2. intros H. apply in_flat_map in H. destruct H as [x [_ H]]. unfold inst_seeds2 in H. apply in_app_or in H. destruct H as [H|H].
  - apply in_map_iff in H. destruct H as [q' [E H]]. inversion E; subst q'. apply filter_In in H. tauto.
  - apply in_flat_map in H. destruct H as [c [_ H]]. destruct (as_nc m (snd c)); [destruct H as [E|[]]; discriminate|destruct H].
Qed.

Theorem portrefs_module_total : (exists m', portrefs1_module d ncn m = Ok m') \/ portrefs1_module d ncn m = Error EName.
Proof.
  unfold portrefs1_module, pr_table2. rewrite Hkeys. cbn [bind].
  destruct (plan_total (seeds2 m) [] (pr_seeds_ok d km m Hwm Hfrag Hpw keys Hkeys) seeds_mentioned) as [allocs Hplan]. rewrite Hplan. cbn [bind].
  destruct (alloc_names (map a_base allocs) (namespace m)) as [names|e] eqn:Hnames; cbn [bind fst snd].
  2:{ right. rewrite (alloc_names_err _ _ _ Hnames). reflexivity. }
  left. destruct (traverse_total (rewrite_inst m keys (number_allocs (combine allocs names) (next_leaf m))) (m_insts m)) as [is ->]; [|cbn [bind]; eauto].
  intros x Hx. unfold rewrite_inst.
  destruct (traverse_total (rewrite_conn m keys (number_allocs (combine allocs names) (next_leaf m)) x) (i_conns x)) as [cs ->]; [|cbn [bind]; eauto].
  intros c Hc. destruct (pr_rewrite_conn d ncn km m Hwm Hfrag Hpw keys allocs names Hkeys Hplan Hnames x c Hx Hc) as [e [He _]]. eauto.
Qed.
End PRTotal.

Theorem portrefs1_total xi d : wf_design d = Ok tt -> nc_frag d -> xinfo_ok xi d = true ->
  (exists d1, portrefs1_design xi d = Ok d1) \/ portrefs1_design xi d = Error EName.
Proof.
  intros Hwf Hfr Hxi. destruct (wf_design_inv _ Hwf) as [_ [_ Hmods]]. unfold portrefs1_design. apply map_modules_ok_or.
  intros k m Hk. destruct (all_keys_total d k m (Hmods k m Hk)) as [keys Hkeys].
  assert ((exists m', portrefs1_module d (ncnames xi m) m = Ok m') \/ portrefs1_module d (ncnames xi m) m = Error EName) as [[km' E1]|E1].
  { refine (portrefs_module_total d (ncnames xi m) k m (Hmods k m Hk) (Hfr k m (proj2 (nth_mod_nth _ _ _) Hk)) _ keys Hkeys).
    intros x ports pw Hx Hp Hin. eapply port_widths_pos; try eassumption. apply nth_mod_nth. exact Hk. }
  - left. rewrite E1. cbn [bind]. eauto.
  - right. rewrite E1. reflexivity.
Qed.

(* ------------------------------------------------------------------------------------------ same_net is kept *)
Section PRSem.
Variables (xi : xinfo) (d d1 : design).
Hypothesis Hwf : wf_design d = Ok tt.
Hypothesis Hfr : nc_frag d.
Hypothesis Hstep : forall x, valid d x -> exists y, Nets.step d x = Ok y /\ valid d y.
Hypothesis Hxi : xinfo_ok xi d = true.
Hypothesis Hpass : portrefs1_design xi d = Ok d1.

Definition PR (m m' : module) : Prop :=
  exists k, nth_mod d k = Ok m /\ nth_mod d1 k = Ok m' /\ (km <- portrefs1_module d (ncnames xi m) m ;; Ok (snd km)) = Ok m'.

Lemma pr_wfs1 : wfs1 d1.
Proof. eapply portrefs1_wfs1; eassumption. Qed.

Lemma pr_nth k m : nth_mod d k = Ok m -> exists m', nth_mod d1 k = Ok m' /\ PR m m'.
Proof.
  intros Hk. destruct (map_modules_nth _ _ _ _ _ Hpass Hk) as [m' [Hk' Hf]]. exists m'. split; [exact Hk'|]. exists k. auto.
Qed.

Lemma pr_nth_rev k m' : nth_mod d1 k = Ok m' -> exists m, nth_mod d k = Ok m /\ PR m m'.
Proof.
  intros Hk. apply nth_mod_nth in Hk. destruct (map_modules_nth_rev _ _ _ _ _ Hpass Hk) as [m [Hkm Hf]]. exists m.
  split; [apply nth_mod_nth; exact Hkm|]. exists k. split; [apply nth_mod_nth; exact Hkm|]. split; [apply nth_mod_nth; exact Hk|exact Hf].
Qed.

Lemma pr_top : d_top d1 = d_top d.
Proof. apply (map_modules_inv _ _ _ Hpass). Qed.

(* the parts of the pass on one module *)
Lemma pr_parts m m' : PR m m' -> exists k keys allocs names insts1,
  nth_mod d k = Ok m /\ wf_module d k m = Ok tt /\
  (forall x c, In x (m_insts m) -> In c (i_conns x) -> conn_frag2 d m x c = true) /\
  (forall x ports pw, In x (m_insts m) -> target_ports d (i_of x) = Ok ports -> In pw ports -> 1 <= snd pw) /\
  all_keys d m = Ok keys /\ plan d (ncnames xi m) m keys (seeds2 m) [] = Ok allocs /\
  alloc_names (map a_base allocs) (namespace m) = Ok names /\
  Forall2 (fun x x1 => rewrite_inst m keys (number_allocs (combine allocs names) (next_leaf m)) x = Ok x1) (m_insts m) insts1 /\
  m' = m1 m allocs names insts1.
Proof.
  intros [k [Hk [Hk' Hm]]]. destruct (portrefs1_step_inv _ _ _ _ Hm) as [keys [allocs [names [insts1 [H1 [H2 [H3 [H4 H5]]]]]]]].
  destruct (wf_design_inv _ Hwf) as [_ [_ Hmods]].
  exists k, keys, allocs, names, insts1. split; [exact Hk|]. split; [apply Hmods; apply nth_mod_nth; exact Hk|].
  split; [apply (Hfr k m Hk)|]. split; [|auto 10].
  intros x ports pw Hx Hp Hin. eapply port_widths_pos; eassumption.
Qed.

Lemma pr_find_fwd m m' i x : PR m m' -> find_inst (m_insts m) i = Some x ->
  exists x', find_inst (m_insts m') i = Some x' /\ i_n x' = i_n x /\ i_of x' = i_of x.
Proof.
  intros HR Hf. destruct (pr_parts m m' HR) as [k [keys [allocs [names [insts1 [_ [_ [_ [_ [_ [_ [_ [F ->]]]]]]]]]]]]].
  destruct (find_inst_Forall2 _ _ _ i x F) as [x' [Hf' Hr]]; [intros a b H; apply rewrite_inst_inv in H; symmetry; tauto|exact Hf|].
  exists x'. split; [exact Hf'|]. apply rewrite_inst_inv in Hr. tauto.
Qed.

Lemma pr_find_bwd m m' i x' : PR m m' -> find_inst (m_insts m') i = Some x' ->
  exists x, find_inst (m_insts m) i = Some x /\ i_n x = i_n x' /\ i_of x = i_of x'.
Proof.
  intros HR Hf. destruct (pr_parts m m' HR) as [k [keys [allocs [names [insts1 [_ [_ [_ [_ [_ [_ [_ [F ->]]]]]]]]]]]]].
  cbn [m1 m_insts] in Hf. destruct (find_inst_Forall2 _ _ _ i x' (Forall2_flip _ _ _ F)) as [x [Hf' Hr]]; [intros a b H; apply rewrite_inst_inv in H; tauto|exact Hf|].
  exists x. split; [exact Hf'|]. apply rewrite_inst_inv in Hr. split; symmetry; tauto.
Qed.

Lemma pr_vmod_fwd p m : vmod_at d p = Ok m -> exists m', vmod_at d1 p = Ok m' /\ PR m m'.
Proof.
  unfold vmod_at. rewrite pr_top. destruct (nth_mod d (d_top d)) as [top|] eqn:Et; cbn [bind]; [|discriminate].
  destruct (pr_nth _ _ Et) as [top' [Ht' Rt]]. rewrite Ht'. cbn [bind]. intros H.
  apply (vdown_skel PR d d1 pr_find_fwd pr_nth (rev p) top top' m Rt H).
Qed.

Lemma pr_vmod_bwd p m' : vmod_at d1 p = Ok m' -> exists m, vmod_at d p = Ok m /\ PR m m'.
Proof.
  unfold vmod_at. rewrite pr_top. destruct (nth_mod d1 (d_top d)) as [top'|] eqn:Et; cbn [bind]; [|discriminate].
  destruct (pr_nth_rev _ _ Et) as [top [Ht Rt]]. rewrite Ht. cbn [bind]. intros H.
  destruct (vdown_skel (fun a b => PR b a) d1 d (fun m m' i x R Hf => pr_find_bwd m' m i x R Hf) pr_nth_rev (rev p) top' top m' Rt H) as [m [Hm R]].
  eauto.
Qed.

Lemma pr_target_ports t ps : target_ports d t = Ok ps -> target_ports d1 t = Ok ps.
Proof. apply (target_ports_keep _ _ _ t Hpass). intros m m' H. eapply portrefs1_ports_keep. exact H. Qed.

Lemma pr_port_width_fwd x x' port w : i_of x' = i_of x -> port_width d x port = Ok w -> port_width d1 x' port = Ok w.
Proof.
  intros Ho. unfold port_width. rewrite Ho. destruct (target_ports d (i_of x)) as [ps|] eqn:Et; cbn [bind]; [|discriminate].
  rewrite (pr_target_ports _ _ Et). tauto.
Qed.

Lemma pr_port_width_bwd k m x x' port w : nth_mod d k = Ok m -> In x (m_insts m) -> i_of x' = i_of x ->
  port_width d1 x' port = Ok w -> port_width d x port = Ok w.
Proof.
  intros Hk Hx Ho. destruct (wf_design_inv _ Hwf) as [_ [_ Hmods]].
  destruct (wf_module_inv _ _ _ (Hmods k m (proj1 (nth_mod_nth _ _ _) Hk))) as [_ [_ [_ Hi]]].
  destruct (wf_inst_inv _ _ _ _ (Hi x Hx)) as [_ [ports [Hp _]]].
  unfold port_width. rewrite Ho, (pr_target_ports _ _ Hp), Hp. tauto.
Qed.

(* ---- the retraction ---- *)
Definition pr_an (m : module) : option (list alloc * list name) :=
  match all_keys d m with
  | Ok keys =>
      match plan d (ncnames xi m) m keys (seeds2 m) [] with
      | Ok allocs => match alloc_names (map a_base allocs) (namespace m) with Ok names => Some (allocs, names) | Error _ => None end
      | Error _ => None
      end
  | Error _ => None
  end.

Definition psi (n : node) : node :=
  match n with
  | NSig p s k =>
      match vmod_at d p with
      | Ok m =>
          match sig_width m s with
          | Some _ => n
          | None => match pr_an m with
                    | Some an => match owner_node d m (fst an) (snd an) p s k with Some n' => n' | None => n end
                    | None => n
                    end
          end
      | Error _ => n
      end
  | _ => n
  end.

Let ec0 := ec (Nets.step d) (valid d).
Let ec1 := ec (Nets.step d1) (valid d1).

Lemma local_tgt_d1 m' x1 e port k : port_width d1 x1 port = port_width d x1 port ->
  local_tgt d1 m' x1 e port k = local_tgt d m' x1 e port k.
Proof. intros H. apply (local_tgt_ext d d1 m' m' x1 e port k eq_refl H). Qed.

(* valid nodes stay valid *)
Lemma pr_valid_fwd x : valid d x -> valid d1 x.
Proof.
  destruct x as [p s k|p i e port k|p s k]; cbn [valid]; [| |tauto].
  - intros [m [w [Hm [Hs Hk]]]]. destruct (pr_vmod_fwd p m Hm) as [m' [Hm' HR]]. exists m', w. split; [exact Hm'|]. split; [|exact Hk].
    destruct (pr_parts m m' HR) as [k0 [keys [allocs [names [insts1 [_ [_ [_ [_ [_ [_ [_ [_ ->]]]]]]]]]]]]].
    rewrite m1_sig_width. apply sigw1_old. exact Hs.
  - intros [m [x [w [Hm [Hf [He [Hw Hk]]]]]]]. destruct (pr_vmod_fwd p m Hm) as [m' [Hm' HR]].
    destruct (pr_find_fwd m m' i x HR Hf) as [x' [Hf' [Hn' Ho']]]. exists m', x', w. split; [exact Hm'|]. split; [exact Hf'|].
    split; [unfold elem_ok in *; rewrite Hn'; exact He|]. split; [apply (pr_port_width_fwd x x' port w Ho' Hw)|exact Hk].
Qed.

Lemma psi_id x : valid d x -> psi x = x.
Proof.
  destruct x as [p s k|p i e port k|p s k]; cbn [valid psi]; try reflexivity.
  intros [m [w [Hm [Hs Hk]]]]. rewrite Hm, Hs. reflexivity.
Qed.

Lemma pr_an_parts m allocs names keys : all_keys d m = Ok keys -> plan d (ncnames xi m) m keys (seeds2 m) [] = Ok allocs ->
  alloc_names (map a_base allocs) (namespace m) = Ok names -> pr_an m = Some (allocs, names).
Proof. intros H1 H2 H3. unfold pr_an. rewrite H1, H2, H3. reflexivity. Qed.

Lemma psi_valid u : valid d1 u -> valid d (psi u).
Proof.
  destruct u as [p s k|p i e port k|p s k]; cbn [valid psi]; [| |tauto].
  - intros [m' [w1 [Hm' [Hs' Hk]]]]. destruct (pr_vmod_bwd p m' Hm') as [m [Hm HR]]. rewrite Hm.
    destruct (pr_parts m m' HR) as [k0 [keys [allocs [names [insts1 [Hk0 [Hwm [Hfrag [Hpw [Hkeys [Hplan [Hnames [Hins ->]]]]]]]]]]]]].
    rewrite m1_sig_width in Hs'. destruct (sig_width m s) as [w0|] eqn:Es.
    + cbn [valid]. exists m, w0. split; [exact Hm|]. split; [exact Es|]. rewrite (sigw1_old m allocs names s w0 Es) in Hs'. inversion Hs'; subst. exact Hk.
    + rewrite (pr_an_parts m allocs names keys Hkeys Hplan Hnames). cbn [fst snd].
      destruct (fresh_sig_entry m allocs names s w1 Es Hs') as [id [a [Ht Haw]]].
      destruct (owner_valid d (ncnames xi m) k0 m Hwm Hfrag Hpw keys allocs names Hkeys Hplan Hnames p id a s k Ht ltac:(lia))
        as [i [e [port [kk [x [w [Hon [Hf [He [Hw Hkk]]]]]]]]]].
      rewrite Hon. cbn [valid]. exists m, x, w. auto.
  - intros [m' [x' [w [Hm' [Hf' [He' [Hw' Hk]]]]]]]. destruct (pr_vmod_bwd p m' Hm') as [m [Hm HR]].
    destruct (pr_find_bwd m m' i x' HR Hf') as [x [Hf [Hn Ho]]].
    destruct (pr_parts m m' HR) as [k0 [_ [_ [_ [_ [Hk0 _]]]]]]. destruct (find_inst_In _ _ _ Hf) as [Hx _].
    exists m, x, w. split; [exact Hm|]. split; [exact Hf|]. split; [unfold elem_ok in *; rewrite Hn; exact He'|].
    split; [apply (pr_port_width_bwd k0 m x x' port w Hk0 Hx (eq_sym Ho) Hw')|exact Hk].
Qed.

(* ---- references chain port bits together in the old graph ---- *)
Section Chain.
Variables (p : path) (m : module) (k0 : nat) (keys : list key).
Hypothesis Hm : vmod_at d p = Ok m.
Hypothesis Hwm : wf_module d k0 m = Ok tt.
Hypothesis Hkeys : all_keys d m = Ok keys.

Definition kbit (q : key) (j : Z) : node := NPort p (fst q) 0 (snd q) j.

Lemma kbit_valid q j w : In q keys -> key_width d m q = Ok w -> 0 <= j < w -> valid d (kbit q j).
Proof.
  intros Hq Hw Hj. apply (keys_In d k0 m keys Hwm Hkeys) in Hq. destruct Hq as [x [w' [Hf [Hs Hw']]]].
  unfold key_width in Hw. rewrite Hf in Hw. cbn [ofopt bind] in Hw. cbn [kbit valid]. exists m, x, w.
  split; [exact Hm|]. split; [exact Hf|]. split; [unfold elem_ok; unfold single in Hs; rewrite Hs; reflexivity|]. auto.
Qed.

Lemma kbit_step q q' j w : In q keys -> key_width d m q = Ok w -> 0 <= j < w -> next m q = Some q' ->
  Nets.step d (kbit q j) = Ok (kbit q' j).
Proof.
  intros Hq Hw Hj Hn. pose proof Hq as Hq2. apply (keys_In d k0 m keys Hwm Hkeys) in Hq2. destruct Hq2 as [x [w' [Hf [Hs Hw']]]].
  destruct (next_wf d k0 m keys Hwm Hkeys q q' x Hf Hn) as [w1 [wl [Hw1 [_ [_ [Hwl1 [Hcase [id [Ha Hl]]]]]]]]].
  rewrite Hw' in Hw1. inversion Hw1; subst w1. unfold key_width in Hw. rewrite Hf in Hw. cbn [ofopt bind] in Hw. assert (w' = w) as -> by congruence.
  assert (wl = w) as -> by (unfold single in Hs; destruct Hcase as [H|[H _]]; [exact H|lia]).
  unfold kbit. rewrite (step_port d p (fst q) 0 (snd q) j m x (vmod_at_mod_at _ _ _ Hm) Hf).
  assert (xbits (XSig id w) = Ok (sig_bits id w)) as Hb by (cbn [xbits]; destruct (w <? 1) eqn:E; [lia|reflexivity]).
  assert (elem_ok x 0 = true) as He by (unfold elem_ok; unfold single in Hs; rewrite Hs; reflexivity).
  destruct (conn_bit_some d x 0 (snd q) j _ _ w Ha Hb Hw' Hj He) as [Hcb _]; [left; apply sig_bits_len; lia|].
  rewrite sig_bits_len in Hcb by lia. unfold conn_index in Hcb. rewrite Z.eqb_refl in Hcb.
  assert (pick (sig_bits id w) j = Ok (id, j)) as Hp.
  { unfold sig_bits. rewrite pick_map. destruct (pick_ok (iota (Z.to_nat w) 0 1) j) as [y [Hy Hny]]; [unfold zlen; rewrite iota_length; lia|].
    rewrite Hy. rewrite iota_nth in Hny by lia. inversion Hny; subst y. f_equal. f_equal. lia. }
  unfold local_tgt. rewrite Hcb, Hp. cbn [bind]. rewrite Hl. reflexivity.
Qed.

Lemma chain_iter n : forall q j w, In q keys -> key_width d m q = Ok w -> 0 <= j < w -> ec0 (kbit q j) (kbit (Nat.iter n (nxt m) q) j).
Proof.
  induction n as [|n IH]; intros q j w Hq Hw Hj; simpl; [apply ec_refl|].
  eapply ec_trans; [apply (IH q j w Hq Hw Hj)|].
  destruct (iter_keys d k0 m keys Hwm Hkeys n q Hq) as [Hz Hzw]. set (z := Nat.iter n (nxt m) q) in *. rewrite Hw in Hzw.
  unfold nxt. destruct (next m z) as [z'|] eqn:En; [|apply ec_refl].
  apply ec_step; [eapply kbit_valid; eassumption|eapply kbit_step; eassumption].
Qed.

Lemma chain_conn a b j w : In a keys -> In b keys -> key_width d m a = Ok w -> 0 <= j < w -> conn key (nxt m) a b -> ec0 (kbit a j) (kbit b j).
Proof.
  intros Ha Hb Hw Hj C. pose proof (conn_width d k0 m keys Hwm Hkeys a b Ha Hb C) as Hwb. rewrite Hw in Hwb.
  apply conn_meet in C. destruct C as [n1 [n2 E]].
  eapply ec_trans; [apply (chain_iter n1 a j w Ha Hw Hj)|]. rewrite E. apply ec_sym. apply (chain_iter n2 b j w Hb (eq_sym Hwb) Hj).
Qed.
End Chain.

(* ---- every old connection is still joined by the new ones ---- *)
Lemma pr_sem_fwd x y : valid d x -> Nets.step d x = Ok y -> ec1 x y.
Proof.
  intros Hv Hs. destruct x as [p s k|p i e port k|p s k]; [| |destruct Hv].
  - (* a signal bit steps the same way: ports and hierarchy are unchanged *)
    pose proof (pr_valid_fwd _ Hv) as Hv1. destruct Hv as [m [w [Hm [Hsw Hk]]]]. destruct p as [|[i e] p0].
    + cbn [Nets.step] in Hs. inversion Hs; subst. apply ec_refl.
    + rewrite (step_sig_up d i e p0 s k m (vmod_at_mod_at _ _ _ Hm)) in Hs. inversion Hs; subst y; clear Hs.
      destruct (pr_vmod_fwd _ m Hm) as [m' [Hm' HR]]. apply ec_step; [exact Hv1|].
      rewrite (step_sig_up d1 i e p0 s k m' (vmod_at_mod_at _ _ _ Hm')).
      destruct (pr_parts m m' HR) as [k0 [keys [allocs [names [insts1 [_ [_ [_ [_ [_ [_ [_ [_ ->]]]]]]]]]]]]]. reflexivity.
  - pose proof (pr_valid_fwd _ Hv) as Hv1. destruct Hv as [m [x [w [Hm [Hf [He [Hw Hk]]]]]]].
    rewrite (step_port d p i e port k m x (vmod_at_mod_at _ _ _ Hm) Hf) in Hs.
    destruct (local_tgt d m x e port k) as [t0|] eqn:Et0; cbn [bind] in Hs; [|discriminate]. inversion Hs; subst y; clear Hs.
    destruct (pr_vmod_fwd _ m Hm) as [m' [Hm' HR]].
    destruct (pr_parts m m' HR) as [k0 [keys [allocs [names [insts1 [Hk0 [Hwm [Hfrag [Hpw [Hkeys [Hplan [Hnames [Hins ->]]]]]]]]]]]]].
    destruct (find_inst_In _ _ _ Hf) as [Hx _]. destruct (Forall2_In_l _ _ _ x Hins Hx) as [x1 [Hx1 Hr]].
    destruct (rewrite_inst_inv m keys allocs names x x1 Hr) as [Hn1 [Hnn1 [Ho1 _]]].
    assert (find_inst (m_insts (m1 m allocs names insts1)) i = Some x1) as Hf1.
    { destruct (find_inst_Forall2 _ _ _ i x Hins) as [x1' [Hf1' Hr']]; [intros a b H; apply rewrite_inst_inv in H; symmetry; tauto|exact Hf|].
      rewrite Hr in Hr'. inversion Hr'; subst x1'. exact Hf1'. }
    pose proof (pr_fwd d (ncnames xi m) k0 m Hwm Hfrag Hpw keys allocs names Hkeys Hplan Hnames insts1 Hins x x1 e port k w t0 Hx Hr He Hw Hk Et0) as F.
    assert (forall xa xa1 pa, i_of xa1 = i_of xa -> In xa (m_insts m) -> port_width d1 xa1 pa = port_width d xa1 pa) as Hpwe.
    { intros xa xa1 pa Hoa Hxa. destruct (wf_module_inv _ _ _ Hwm) as [_ [_ [_ Hi]]]. destruct (wf_inst_inv _ _ _ _ (Hi xa Hxa)) as [_ [ports [Hp _]]].
      unfold port_width. rewrite Hoa, (pr_target_ports _ _ Hp), Hp. reflexivity. }
    destruct t0 as [s j|i' p' j|]; cbn [ltgt_node].
    + apply ec_step; [exact Hv1|]. rewrite (step_port d1 p i e port k _ x1 (vmod_at_mod_at _ _ _ Hm') Hf1).
      rewrite (local_tgt_d1 _ x1 e port k (Hpwe x x1 port Ho1 Hx)), F. reflexivity.
    + destruct F as [F|[xq [xq1 [t1 [wq [Hfq [Hsq [Hrq [Hwq [Hj [Hns [F1 F2]]]]]]]]]]]].
      { apply ec_step; [exact Hv1|]. rewrite (step_port d1 p i e port k _ x1 (vmod_at_mod_at _ _ _ Hm') Hf1).
        rewrite (local_tgt_d1 _ x1 e port k (Hpwe x x1 port Ho1 Hx)), F. reflexivity. }
      destruct (find_inst_In _ _ _ Hfq) as [Hxq _]. destruct (rewrite_inst_inv m keys allocs names xq xq1 Hrq) as [_ [Hnnq [Hoq _]]].
      assert (find_inst (m_insts (m1 m allocs names insts1)) i' = Some xq1) as Hfq1.
      { destruct (find_inst_Forall2 _ _ _ i' xq Hins) as [x1' [Hf1' Hr']]; [intros a b H; apply rewrite_inst_inv in H; symmetry; tauto|exact Hfq|].
        rewrite Hrq in Hr'. inversion Hr'; subst x1'. exact Hf1'. }
      assert (valid d (NPort p i' 0 p' j)) as Hvy.
      { exists m, xq, wq. split; [exact Hm|]. split; [exact Hfq|]. split; [unfold elem_ok; unfold single in Hsq; rewrite Hsq; reflexivity|]. auto. }
      eapply ec_trans; [apply ec_step; [exact Hv1|]|apply ec_sym; apply ec_step; [apply pr_valid_fwd; exact Hvy|]].
      * rewrite (step_port d1 p i e port k _ x1 (vmod_at_mod_at _ _ _ Hm') Hf1).
        rewrite (local_tgt_d1 _ x1 e port k (Hpwe x x1 port Ho1 Hx)), F1. reflexivity.
      * rewrite (step_port d1 p i' 0 p' j _ xq1 (vmod_at_mod_at _ _ _ Hm') Hfq1).
        rewrite (local_tgt_d1 _ xq1 0 p' j (Hpwe xq xq1 p' Hoq Hxq)), F2. cbn [bind]. destruct t1; [reflexivity|reflexivity|congruence].
    + apply ec_refl.
Qed.

(* ---- every new connection joins only what the old ones joined ---- *)
Lemma pr_sem_bwd u v : valid d1 u -> Nets.step d1 u = Ok v -> ec0 (psi u) (psi v).
Proof.
  intros Hv1 Hs. pose proof (psi_valid _ Hv1) as Hvp. destruct u as [p s k|p i e port k|p s k]; [| |destruct Hv1].
  - destruct Hv1 as [m' [w1 [Hm' [Hs' Hk]]]]. destruct p as [|[i e] p0].
    + cbn [Nets.step] in Hs. inversion Hs; subst. apply ec_refl.
    + rewrite (step_sig_up d1 i e p0 s k m' (vmod_at_mod_at _ _ _ Hm')) in Hs. inversion Hs; subst v; clear Hs.
      destruct (is_port m' s) eqn:Ep; [|apply ec_refl].
      destruct (pr_vmod_bwd _ m' Hm') as [m [Hm HR]].
      destruct (pr_parts m m' HR) as [k0 [keys [allocs [names [insts1 [_ [_ [_ [_ [_ [_ [_ [_ ->]]]]]]]]]]]]].
      assert (is_port m s = true) as Ep0 by exact Ep.
      assert (exists w0, sig_width m s = Some w0) as [w0 Hw0].
      { unfold is_port in Ep0. unfold sig_width. destruct (assoc s (m_ports m)); [eauto|discriminate]. }
      assert (psi (NSig (((i, e) : pelem) :: p0) s k) = NSig (((i, e) : pelem) :: p0) s k) as Epsi by (cbn [psi]; rewrite Hm, Hw0; reflexivity).
      rewrite Epsi in *. cbn [psi]. apply ec_step; [exact Hvp|].
      rewrite (step_sig_up d i e p0 s k m (vmod_at_mod_at _ _ _ Hm)), Ep0. reflexivity.
  - cbn [psi] in *. destruct Hv1 as [m' [x1 [w [Hm' [Hf1 [He1 [Hw1 Hk]]]]]]].
    destruct (pr_vmod_bwd _ m' Hm') as [m [Hm HR]].
    destruct (pr_parts m m' HR) as [k0 [keys [allocs [names [insts1 [Hk0 [Hwm [Hfrag [Hpw [Hkeys [Hplan [Hnames [Hins ->]]]]]]]]]]]]].
    cbn [m1 m_insts] in Hf1.
    destruct (find_inst_Forall2 _ _ _ i x1 (Forall2_flip _ _ _ Hins)) as [x [Hf Hr]]; [intros a b H; apply rewrite_inst_inv in H; tauto|exact Hf1|].
    cbv beta in Hr. destruct (find_inst_In _ _ _ Hf) as [Hx _]. destruct (rewrite_inst_inv m keys allocs names x x1 Hr) as [Hn1 [Hnn1 [Ho1 _]]].
    assert (forall xa xa1 pa, i_of xa1 = i_of xa -> In xa (m_insts m) -> port_width d1 xa1 pa = port_width d xa1 pa) as Hpwe.
    { intros xa xa1 pa Hoa Hxa. destruct (wf_module_inv _ _ _ Hwm) as [_ [_ [_ Hi]]]. destruct (wf_inst_inv _ _ _ _ (Hi xa Hxa)) as [_ [ports [Hp _]]].
      unfold port_width. rewrite Hoa, (pr_target_ports _ _ Hp), Hp. reflexivity. }
    assert (port_width d x port = Ok w) as Hw.
    { rewrite (Hpwe x x1 port Ho1 Hx) in Hw1. unfold port_width in *. rewrite Ho1 in Hw1. exact Hw1. }
    assert (elem_ok x e = true) as He by (unfold elem_ok in *; rewrite <- Hnn1; exact He1).
    rewrite (step_port d1 p i e port k _ x1 (vmod_at_mod_at _ _ _ Hm') Hf1) in Hs.
    rewrite (local_tgt_d1 _ x1 e port k (Hpwe x x1 port Ho1 Hx)) in Hs.
    destruct (pr_bwd d (ncnames xi m) k0 m Hwm Hfrag Hpw keys allocs names Hkeys Hplan Hnames insts1 Hins p x x1 e port k w Hx Hr He Hw Hk)
      as [t1 [Hlt1 [Hns Hcases]]].
    rewrite Hlt1 in Hs. cbn [bind] in Hs. inversion Hs; subst v; clear Hs.
    assert (forall i0 e0 p0 k0', ltgt_node p i0 e0 p0 k0' t1 = ltgt_node p i e port k t1) as Hnode by (intros; destruct t1; [reflexivity|reflexivity|congruence]).
    assert (forall xa ea pa ka wa, find_inst (m_insts m) (i_name xa) = Some xa -> elem_ok xa ea = true -> port_width d xa pa = Ok wa -> 0 <= ka < wa ->
              local_tgt d m xa ea pa ka = Ok t1 ->
              Nets.step d (NPort p (i_name xa) ea pa ka) = Ok (ltgt_node p i e port k t1) /\ psi (ltgt_node p i e port k t1) = ltgt_node p i e port k t1) as Hold.
    { intros xa ea pa ka wa Hfa Hea Hwa Hka Hlt. split.
      - rewrite (step_port d p _ ea pa ka m xa (vmod_at_mod_at _ _ _ Hm) Hfa), Hlt. cbn [bind]. rewrite Hnode. reflexivity.
      - destruct (find_inst_In _ _ _ Hfa) as [Hxa _].
        destruct (local_tgt_total2 d k0 m xa ea pa ka wa Hwm (fun c Hc => Hfrag xa c Hxa Hc) Hxa Hea Hwa Hka) as [t [Ht Hval]].
        rewrite Hlt in Ht. inversion Ht; subst t. destruct t1 as [s j|i' p' j|]; [|reflexivity|congruence].
        destruct Hval as [ws [Hws _]]. cbn [ltgt_node psi]. rewrite Hm, Hws. reflexivity. }
    assert (i = i_name x) as Ei by (destruct (find_inst_In _ _ _ Hf) as [_ H]; symmetry; exact H).
    destruct Hcases as [Hsame|[[s1 [j1 [-> [Hnone Hown]]]]|[q [jj [wq [Ht0 [Hqk [Hkw [Hjj Hsub]]]]]]]]].
    + subst i. destruct (Hold x e port k w Hf He Hw Hk Hsame) as [Hst Hps]. rewrite Hps. apply ec_step; [exact Hvp|exact Hst].
    + cbn [ltgt_node psi]. rewrite Hm, Hnone, (pr_an_parts m allocs names keys Hkeys Hplan Hnames). cbn [fst snd]. rewrite Hown. subst i. apply ec_refl.
    + (* through the port referred to *)
      assert (Nets.step d (NPort p i e port k) = Ok (kbit p q jj)) as Hst.
      { rewrite (step_port d p i e port k m x (vmod_at_mod_at _ _ _ Hm) Hf), Ht0. reflexivity. }
      eapply ec_trans; [apply ec_step; [exact Hvp|exact Hst]|].
      destruct Hsub as [[r [xr [Hrk [Cr [Hfxr Hltr]]]]]|[o [s1 [-> [Hnone [Hok [Co Hown]]]]]]].
      * eapply ec_trans; [apply (chain_conn p m k0 keys Hm Hwm Hkeys q r jj wq Hqk Hrk Hkw Hjj Cr)|].
        pose proof (conn_width d k0 m keys Hwm Hkeys q r Hqk Hrk Cr) as Hwr. rewrite Hkw in Hwr. symmetry in Hwr.
        assert (fst r = i_name xr) as Er by (destruct (find_inst_In _ _ _ Hfxr) as [_ H]; symmetry; exact H).
        assert (port_width d xr (snd r) = Ok wq) as Hwr2 by (unfold key_width in Hwr; rewrite Hfxr in Hwr; cbn [ofopt bind] in Hwr; exact Hwr).
        assert (elem_ok xr 0 = true) as Her.
        { apply (keys_In d k0 m keys Hwm Hkeys) in Hrk. destruct Hrk as [xr' [w' [Hfxr' [Hsr _]]]]. rewrite Hfxr in Hfxr'. inversion Hfxr'; subst xr'.
          unfold elem_ok. unfold single in Hsr. rewrite Hsr. reflexivity. }
        rewrite Er in Hfxr. destruct (Hold xr 0 (snd r) jj wq Hfxr Her Hwr2 Hjj Hltr) as [Hstr Hps]. rewrite Hps.
        unfold kbit. rewrite Er. apply ec_step; [|exact Hstr].
        exists m, xr, wq. split; [exact Hm|]. split; [exact Hfxr|]. auto.
      * cbn [ltgt_node psi]. rewrite Hm, Hnone, (pr_an_parts m allocs names keys Hkeys Hplan Hnames). cbn [fst snd]. rewrite Hown.
        apply (chain_conn p m k0 keys Hm Hwm Hkeys q o jj wq Hqk Hok Hkw Hjj Co).
Qed.

Theorem portrefs_dev x dev : valid d x -> dev_at d x = Ok dev -> dev_at d1 x = Ok dev.
Proof.
  destruct x as [p s k|p i e port k|p s k]; cbn [valid dev_at]; [tauto| |tauto].
  intros [m [x [w [Hm [Hf _]]]]]. rewrite Hm. cbn [bind]. rewrite Hf. cbn [ofopt bind].
  destruct (pr_vmod_fwd p m Hm) as [m' [Hm' HR]]. destruct (pr_find_fwd m m' i x HR Hf) as [x' [Hf' [_ Ho]]].
  rewrite Hm'. cbn [bind]. rewrite Hf'. cbn [ofopt bind]. rewrite Ho. tauto.
Qed.

Theorem portrefs_same_net x y : valid d x -> valid d y -> (same_net d x y <-> same_net d1 x y).
Proof.
  intros Hx Hy. rewrite !same_net_meet_r.
  apply (rewire_meet node (Nets.step d) (Nets.step d1) (valid d) (valid d1) psi
           Hstep (wfs1_step_total d1 pr_wfs1) pr_valid_fwd psi_id pr_sem_fwd pr_sem_bwd x y Hx Hy).
Qed.
End PRSem.
