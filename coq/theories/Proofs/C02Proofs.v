(* Proofs/C02Proofs.v — lemmas for Props/C02.v *)
Require Import Hdl21.Base.PyInt Hdl21.Spec.PySlice Hdl21.Model.Slice Hdl21.Model.Resolve Hdl21.Base.Design
               Hdl21.Spec.WfDesign Hdl21.Model.Checks Hdl21.Model.C02Checks Hdl21.Proofs.ChecksProofs
               Hdl21.Proofs.ResolveProofs.

(* ================= orphanage ================= *)
Section oconn_ind'.
  Variable P : oconn -> Prop.
  Hypothesis Hown : forall o, P (OOwned o).
  Hypothesis Hsl : forall p, P p -> P (OSlice p).
  Hypothesis Hcat : forall ps, Forall P ps -> P (OConcat ps).
  Hypothesis Hnc : P ONoConn.
  Hypothesis Href : forall o, P (ORef o).
  Hypothesis Hanon : forall ms, Forall P ms -> P (OAnon ms).
  Fixpoint oconn_ind' (c : oconn) : P c :=
    let go := fix go (ps : list oconn) : Forall P ps :=
                match ps with [] => Forall_nil _ | p :: ps' => Forall_cons _ (oconn_ind' p) (go ps') end in
    match c with
    | OOwned o => Hown o
    | OSlice p => Hsl p (oconn_ind' p)
    | OConcat ps => Hcat ps (go ps)
    | ONoConn => Hnc
    | ORef o => Href o
    | OAnon ms => Hanon ms (go ms)
    end.
End oconn_ind'.

Lemma owned_by_spec m o : owned_by m o = true <-> o = Some m.
Proof.
  unfold owned_by. destruct o as [k|].
  - rewrite Nat.eqb_eq. split; [intros ->; reflexivity|intros H; inversion H; reflexivity].
  - split; discriminate.
Qed.

Lemma forallb_owners m ps :
  Forall (fun c => orphan_ok m c = true <-> (forall o, In o (owners c) -> o = Some m)) ps ->
  (forallb (orphan_ok m) ps = true <-> (forall o, In o (concat (map owners ps)) -> o = Some m)).
Proof.
  induction 1 as [|p ps Hp _ IH]; cbn [forallb map concat].
  - split; [intros _ o []|reflexivity].
  - rewrite andb_true_iff, Hp, IH. split.
    + intros [A B] o Ho. apply in_app_or in Ho. destruct Ho; auto.
    + intros H. split; intros o Ho; apply H; apply in_or_app; auto.
Qed.

Lemma orphan_ok_spec m c : orphan_ok m c = true <-> (forall o, In o (owners c) -> o = Some m).
Proof.
  induction c as [o|p IH|ps IH| |o|ms IH] using oconn_ind'; cbn [orphan_ok owners].
  - rewrite owned_by_spec. split; [intros -> o' [<-|[]]; reflexivity|intros H; apply H; left; reflexivity].
  - exact IH.
  - apply forallb_owners. exact IH.
  - split; [intros _ o []|reflexivity].
  - rewrite owned_by_spec. split; [intros -> o' [<-|[]]; reflexivity|intros H; apply H; left; reflexivity].
  - apply forallb_owners. exact IH.
Qed.

Lemma orphanage_module_spec m attrs insts :
  orphanage_module m attrs insts = true <->
  (forall o, In o attrs -> o = Some m) /\
  (forall conns c o, In conns insts -> In c conns -> In o (owners c) -> o = Some m).
Proof.
  unfold orphanage_module. rewrite andb_true_iff, !forallb_forall. split.
  - intros [A B]. split.
    + intros o Ho. apply owned_by_spec. apply A. exact Ho.
    + intros conns c o Hi Hc Ho. specialize (B conns Hi). rewrite forallb_forall in B.
      specialize (B c Hc). rewrite orphan_ok_spec in B. apply B. exact Ho.
  - intros [A B]. split.
    + intros o Ho. apply owned_by_spec. apply A. exact Ho.
    + intros conns Hi. apply forallb_forall. intros c Hc. apply orphan_ok_spec. intros o Ho. eapply B; eauto.
Qed.

(* ================= no-connect groups ================= *)
Lemma noconn_group_spec i p followed :
  (forall f, In f followed -> f <> []) ->
  (handle_group_ok (noconn_group i p followed) = true <-> followed = []).
Proof.
  intros Hne. unfold handle_group_ok, noconn_group.
  assert (E : existsb is_gnc (GRef i p :: GNoConn :: concat followed) = true) by reflexivity.
  rewrite E. unfold zlen. cbn [Datatypes.length]. split.
  - intros H. destruct followed as [|f rest]; [reflexivity|]. exfalso.
    assert (Hf : f <> []) by (apply Hne; left; reflexivity).
    destruct f as [|g f']; [congruence|]. cbn [concat app Datatypes.length] in H. lia.
  - intros ->. cbn. reflexivity.
Qed.

(* ================= which entries of a pass list visit modules ================= *)
Lemma effective_from_spec l : forall seen k e b,
  nth_error (effective_from seen l) k = Some (e, b) ->
  nth_error l k = Some e /\
  (b = true <-> (~ In (cache_of e) seen /\
                 forall j e', (j < k)%nat -> nth_error l j = Some e' -> cache_of e' <> cache_of e)).
Proof.
  induction l as [|a l IH]; intros seen k e b H.
  - destruct k; discriminate.
  - destruct k as [|k]; cbn [effective_from nth_error] in H |- *.
    + inversion H; subst. split; [reflexivity|]. split.
      * intros Hb. apply negb_true_iff in Hb. split.
        -- intros Hin. assert (existsb (Z.eqb (cache_of e)) seen = true).
           { apply existsb_exists. exists (cache_of e). split; [exact Hin|apply Z.eqb_refl]. }
           congruence.
        -- intros j e' Hj. lia.
      * intros [Hn _]. apply negb_true_iff. destruct (existsb (Z.eqb (cache_of e)) seen) eqn:E; [|reflexivity].
        apply existsb_exists in E. destruct E as [y [Hy Ey]]. apply Z.eqb_eq in Ey. subst y. contradiction.
    + destruct (IH _ _ _ _ H) as [H1 H2]. split; [exact H1|]. rewrite H2. split.
      * intros [Hn Hall]. split.
        -- intros Hin. apply Hn. right. exact Hin.
        -- intros j e' Hj He'. destruct j as [|j]; cbn [nth_error] in He'.
           ++ inversion He'; subst. intros Heq. apply Hn. left. exact Heq.
           ++ apply (Hall j e'); [lia|exact He'].
      * intros [Hn Hall]. split.
        -- intros [Heq|Hin]; [|contradiction]. apply (Hall 0%nat a); [lia|reflexivity|exact Heq].
        -- intros j e' Hj He'. apply (Hall (S j) e'); [lia|exact He'].
Qed.

Lemma effective_spec l k e b :
  nth_error (effective l) k = Some (e, b) ->
  nth_error l k = Some e /\
  (b = true <-> forall j e', (j < k)%nat -> nth_error l j = Some e' -> cache_of e' <> cache_of e).
Proof.
  intros H. destruct (effective_from_spec l [] k e b H) as [H1 H2]. split; [exact H1|].
  rewrite H2. split; [intros [_ A]; exact A|intros A; split; [intros []|exact A]].
Qed.

Lemma effective_from_nth l : forall seen k e, nth_error l k = Some e ->
  exists b, nth_error (effective_from seen l) k = Some (e, b).
Proof.
  induction l as [|a l IH]; intros seen k e H; destruct k; try discriminate; cbn [effective_from nth_error] in *.
  - inversion H; subst. eauto.
  - apply IH. exact H.
Qed.

Lemma last_pos_spec {f} l : forall k, 0 <= k ->
  (last_pos f l k = -1 /\ forall x, In x l -> f x = false) \/
  (exists i x, last_pos f l k = k + Z.of_nat i /\ nth_error l i = Some x /\ f x = true /\
               forall j y, (i < j)%nat -> nth_error l j = Some y -> f y = false).
Proof.
  induction l as [|a l IH]; intros k Hk; cbn [last_pos].
  - left. split; [reflexivity|intros x []].
  - destruct (IH (k + 1) ltac:(lia)) as [[Hr Hall]|[i [x [Hr [Hn [Hf Hlater]]]]]].
    + rewrite Hr. cbn. destruct (f a) eqn:Fa.
      * right. exists 0%nat, a. split; [lia|]. split; [reflexivity|]. split; [exact Fa|].
        intros j y Hj Hy. destruct j; [lia|]. cbn [nth_error] in Hy. apply Hall. eapply nth_error_In; eauto.
      * left. split; [reflexivity|]. intros x [<-|Hx]; [exact Fa|apply Hall; exact Hx].
    + rewrite Hr. destruct (0 <=? k + 1 + Z.of_nat i) eqn:E; [|lia].
      right. exists (S i), x. split; [lia|]. split; [exact Hn|]. split; [exact Hf|].
      intros j y Hj Hy. destruct j; [lia|]. cbn [nth_error] in Hy. apply (Hlater j y); [lia|exact Hy].
Qed.

Definition rewriting_kinds : list String.string :=
  ["InstBundleElabPass"; "ResolvePortRefs"; "BundleFlattener"; "ArrayFlattener"; "SliceResolver"]%list.

(* checks_after_rewrites, declaratively: after EVERY entry of a rewriting kind there is a later entry of the
   checking kind that no earlier entry shadows (shares its class-level cache with) *)
Theorem checks_after_rewrites_sound l k : checks_after_rewrites l k = true ->
  forall rk, In rk rewriting_kinds -> forall i e, nth_error l i = Some e -> kind_of e = rk ->
  exists j e', (i < j)%nat /\ nth_error l j = Some e' /\ kind_of e' = k /\
    (forall j' e'', (j' < j)%nat -> nth_error l j' = Some e'' -> cache_of e'' <> cache_of e').
Proof.
  unfold checks_after_rewrites. cbv zeta. intros H rk Hrk i e Hi Hk.
  rewrite forallb_forall in H. specialize (H rk Hrk). apply Z.ltb_lt in H.
  unfold last_of_kind, last_effective_of_kind in H.
  destruct (effective_from_nth l [] i e Hi) as [b Hb]. fold (effective l) in Hb.
  destruct (@last_pos_spec (fun x => String.eqb (kind_of (fst x)) rk) (effective l) 0 ltac:(lia))
    as [[_ Hall]|[i1 [x1 [Hr1 [Hn1 [Hf1 Hlater1]]]]]].
  { exfalso. specialize (Hall (e, b) (nth_error_In _ _ Hb)). cbn [fst] in Hall. rewrite Hk, String.eqb_refl in Hall. discriminate. }
  assert (Hi1 : (i <= i1)%nat).
  { destruct (le_lt_dec i i1) as [L|L]; [exact L|]. exfalso.
    specialize (Hlater1 i (e, b) L Hb). cbn [fst] in Hlater1. rewrite Hk, String.eqb_refl in Hlater1. discriminate. }
  destruct (@last_pos_spec (fun x => String.eqb (kind_of (fst x)) k && snd x) (effective l) 0 ltac:(lia))
    as [[Hr2 _]|[i2 [[e2 b2] [Hr2 [Hn2 [Hf2 _]]]]]].
  { exfalso. lia. }
  cbn [fst snd] in Hf2. apply andb_prop in Hf2. destruct Hf2 as [Hk2 Hb2]. apply String.eqb_eq in Hk2. subst b2.
  destruct (effective_spec l i2 e2 true Hn2) as [Hl2 He2].
  exists i2, e2. split; [lia|]. split; [exact Hl2|]. split; [exact Hk2|]. apply He2. reflexivity.
Qed.

(* ================= acceptance by the modelled checks implies validity ================= *)
Lemma unit_ok (r : result unit) : is_ok r = true -> r = Ok tt.
Proof. destruct r as [[]|e]; [reflexivity|discriminate]. Qed.

Lemma all_ok_intro {A} (f : A -> result unit) l : (forall x, In x l -> f x = Ok tt) -> all_ok f l = Ok tt.
Proof.
  unfold all_ok. intros H. assert (X : exists r, traverse f l = Ok r).
  { induction l as [|a l IH]; cbn [traverse]; [eauto|]. rewrite (H a (or_introl eq_refl)). cbn [bind].
    destruct IH as [r Hr]; [intros x Hx; apply H; right; exact Hx|]. rewrite Hr. cbn [bind]. eauto. }
  destruct X as [r ->]. reflexivity.
Qed.

Lemma check_true b e : b = true -> check b e = Ok tt.
Proof. intros ->. reflexivity. Qed.

Lemma in_fst_assoc {A} (l : list (name * A)) p : In p (map fst l) <-> exists v, assoc p l = Some v.
Proof.
  induction l as [|[a b] l IH]; cbn [map fst assoc In].
  - split; [intros []|intros [v H]; discriminate].
  - destruct (String.eqb p a) eqn:E.
    + apply String.eqb_eq in E. subst. split; eauto.
    + rewrite IH. split; [intros [H|H]; [subst; rewrite String.eqb_refl in E; discriminate|exact H]|auto].
Qed.

Lemma assoc_in_nodup {A} (l : list (name * A)) p v :
  nodup_names (map fst l) = true -> In (p, v) l -> assoc p l = Some v.
Proof.
  induction l as [|[a b] l IH]; cbn [map fst nodup_names assoc In]; [intros _ []|].
  intros H Hin. apply andb_prop in H. destruct H as [H1 H2]. destruct Hin as [Heq|Hin].
  - inversion Heq; subst. rewrite String.eqb_refl. reflexivity.
  - destruct (String.eqb p a) eqn:E; [|apply IH; assumption]. exfalso.
    apply String.eqb_eq in E. subst a. apply negb_true_iff in H1.
    assert (existsb (String.eqb p) (map fst l) = true).
    { apply existsb_exists. exists p. split; [apply in_map_iff; exists (p, v); auto|apply String.eqb_refl]. }
    congruence.
Qed.

Lemma conn_widths_spec l : forall cws,
  traverse (fun c : name * sx => w <- xwidth (snd c) ;; Ok (fst c, w)) l = Ok cws ->
  map fst cws = map fst l /\
  (forall c, In c l -> exists cw, xwidth (snd c) = Ok cw /\ In (fst c, cw) cws).
Proof.
  induction l as [|a l IH]; intros cws H; cbn [traverse] in H.
  - inversion H; subst. split; [reflexivity|intros c []].
  - destruct (xwidth (snd a)) as [w|e] eqn:Ew; cbn [bind] in H; [|discriminate].
    destruct (traverse _ l) as [r|e] eqn:Et; cbn [bind] in H; [|discriminate].
    inversion H; subst. destruct (IH r eq_refl) as [I1 I2]. split.
    + cbn [map fst]. rewrite I1. reflexivity.
    + intros c [<-|Hc].
      * exists w. split; [exact Ew|left; reflexivity].
      * destruct (I2 c Hc) as [cw [A B]]. exists cw. split; [exact A|right; exact B].
Qed.

Lemma oconn_leaves self m e : orphan_ok self (oconn_of self m e) = true ->
  forall lw, In lw (sx_leaves e) -> leaf_owner self m lw = Some self.
Proof.
  induction e as [id w|p ix IH|ps IH] using sx_ind'; cbn [oconn_of orphan_ok sx_leaves].
  - intros H lw [<-|[]]. apply owned_by_spec. exact H.
  - exact IH.
  - intros H lw Hin. induction IH as [|p ps Hp _ IHps]; cbn [map forallb concat] in *; [destruct Hin|].
    apply andb_prop in H. destruct H as [A B]. apply in_app_or in Hin. destruct Hin as [Hin|Hin].
    + apply Hp; assumption.
    + apply IHps; assumption.
Qed.

Lemma leaf_owner_inv self m lw : leaf_owner self m lw = Some self ->
  exists s w, assocN (fst lw) (m_leaves m) = Some (LSig s) /\ sig_width m s = Some w.
Proof.
  unfold leaf_owner. intros H. destruct (assocN (fst lw) (m_leaves m)) as [[s|i p|site]|]; try discriminate H.
  destruct (sig_width m s) as [w|] eqn:Es; [|discriminate H]. exists s, w. split; [reflexivity|exact Es].
Qed.

Lemma wf_conn_accepted d self m x ports cws c :
  target_ports d (i_of x) = Ok ports ->
  nodup_names (map fst cws) = true ->
  forallb (annot_ok m) (sx_leaves (snd c)) = true ->
  orphan_ok self (oconn_of self m (snd c)) = true ->
  (forall cw, In (fst c, cw) cws -> exists w, assoc (fst c) ports = Some w /\
        ((cw =? w) || ((0 <? i_n x) && (cw =? i_n x * w))) = true) ->
  (exists cw, xwidth (snd c) = Ok cw /\ In (fst c, cw) cws) ->
  wf_conn d m x ports c = Ok tt.
Proof.
  intros Hp Nc Han Horph Hw [cw [Hx Hin]]. destruct (Hw cw Hin) as [w [Hassoc Hwidth]].
  pose proof (oconn_leaves self m (snd c) Horph) as Hleaves.
  unfold wf_conn. rewrite Hassoc. cbn [ofopt bind].
  rewrite (all_ok_intro (wf_leaf d m) (sx_leaves (snd c))).
  2:{ intros lw Hlw. destruct (leaf_owner_inv self m lw (Hleaves lw Hlw)) as [s [w' [A B]]].
      unfold wf_leaf. rewrite A. cbn [ofopt bind]. rewrite B. cbn [ofopt bind]. apply check_true.
      rewrite forallb_forall in Han. specialize (Han lw Hlw). unfold annot_ok in Han. rewrite A, B in Han. exact Han. }
  cbn [bind].
  assert (Hnc : is_nc m (snd c) = None).
  { unfold is_nc. destruct (snd c) as [id w0| |] eqn:Ec; try reflexivity.
    destruct (leaf_owner_inv self m (id, w0)) as [s [w' [A _]]].
    { apply Hleaves. left. reflexivity. }
    cbn [fst] in A. rewrite A. reflexivity. }
  rewrite Hnc.
  assert (Hin' : has_nc_inside m (snd c) = false).
  { unfold has_nc_inside. destruct (existsb _ (sx_leaves (snd c))) eqn:E; [|reflexivity]. exfalso.
    apply existsb_exists in E. destruct E as [lw [Hlw Hb]].
    destruct (leaf_owner_inv self m lw (Hleaves lw Hlw)) as [s [w' [A _]]]. rewrite A in Hb. discriminate. }
  rewrite Hin'. cbn [negb check bind]. rewrite Hx. cbn [bind]. apply check_true. exact Hwidth.
Qed.

Lemma wf_inst_accepted d self m x :
  given_inst d m x = true -> inst_accepts d self m x = true -> wf_inst d self m x = Ok tt.
Proof.
  unfold given_inst, inst_accepts. intros G A.
  apply andb_prop in G. destruct G as [G G3]. apply andb_prop in G. destruct G as [G1 G2].
  apply andb_prop in A. destruct A as [A A3]. apply andb_prop in A. destruct A as [A1 A2].
  destruct (target_ports d (i_of x)) as [ports|e] eqn:Ep; [|discriminate].
  unfold conn_widths in A3. destruct (traverse _ (i_conns x)) as [cws|e] eqn:Ec; [|discriminate].
  destruct (conn_widths_spec _ _ Ec) as [Hkeys Hcw].
  assert (Ncws : nodup_names (map fst cws) = true) by (rewrite Hkeys; exact G1).
  rewrite forallb_forall in A2, G3.
  (* the two facts every branch provides *)
  assert (Hboth : (forall c cw, In c (i_conns x) -> In (fst c, cw) cws -> exists w, assoc (fst c) ports = Some w /\
                       ((cw =? w) || ((0 <? i_n x) && (cw =? i_n x * w))) = true) /\
                  (forall p w, assoc p ports = Some w -> exists e, assoc p (i_conns x) = Some e)).
  { destruct (0 <? i_n x) eqn:En.
    - apply andb_prop in A3. destruct A3 as [B1 B2]. rewrite forallb_forall in B1.
      split.
      + intros c cw Hc Hin. specialize (B1 _ Hin). unfold array_conn_ok in B1. cbn [fst snd] in B1.
        destruct (assoc (fst c) ports) as [w|]; [|discriminate]. exists w. split; [reflexivity|].
        cbn [andb]. exact B1.
      + intros p w Hp. apply check_instance_spec in B2; [|exact G2|rewrite map_map; cbn [fst]; exact Ncws].
        destruct B2 as [B2 _]. specialize (B2 p w Hp).
        assert (In p (map fst (i_conns x))).
        { rewrite <- Hkeys. assert (In p (map fst (map (fun c : name * Z => (fst c, match assoc (fst c) ports with Some w0 => w0 | None => snd c end)) cws))).
          { apply in_fst_assoc. eauto. }
          rewrite map_map in H. cbn [fst] in H. exact H. }
        apply in_fst_assoc in H. exact H.
    - apply check_instance_spec in A3; [|exact G2|exact Ncws]. destruct A3 as [B1 B2]. split.
      + intros c cw Hc Hin.
        assert (Hp : In (fst c) (map fst ports)).
        { apply B2. apply in_map_iff. exists (fst c, cw). split; [reflexivity|exact Hin]. }
        apply in_fst_assoc in Hp. destruct Hp as [w Hw]. exists w. split; [exact Hw|].
        pose proof (B1 _ _ Hw) as Hc1. rewrite (assoc_in_nodup cws (fst c) cw Ncws Hin) in Hc1.
        inversion Hc1; subst. rewrite Z.eqb_refl. reflexivity.
      + intros p w Hp. specialize (B1 p w Hp).
        assert (In p (map fst (i_conns x))) by (rewrite <- Hkeys; apply in_fst_assoc; eauto).
        apply in_fst_assoc in H. exact H. }
  destruct Hboth as [Hw Hconn].
  unfold wf_inst.
  assert (C1 : match i_of x with TMod k => check (k <? self)%nat ECycle | TDev _ _ => Ok tt end = Ok tt).
  { destruct (i_of x); [apply check_true; exact A1|reflexivity]. }
  rewrite C1. cbn [bind]. rewrite Ep. cbn [bind]. rewrite G1. cbn [check bind].
  rewrite (all_ok_intro (wf_conn d m x ports) (i_conns x)).
  2:{ intros c Hc. apply wf_conn_accepted with (self := self) (cws := cws);
        [exact Ep|exact Ncws|apply G3; exact Hc|apply A2; exact Hc|intros cw Hin; apply (Hw c cw Hc Hin)|apply Hcw; exact Hc]. }
  cbn [bind]. apply all_ok_intro. intros pw Hpw.
  destruct (Hconn (fst pw) (snd pw)) as [e He].
  { apply assoc_in_nodup; [exact G2|destruct pw; exact Hpw]. }
  rewrite He. reflexivity.
Qed.

Lemma wf_module_accepted d self m :
  given_module d m = true -> module_accepts d self m = true -> wf_module d self m = Ok tt.
Proof.
  unfold given_module, module_accepts. intros G A.
  apply andb_prop in G. destruct G as [G G3]. apply andb_prop in G. destruct G as [G1 G2].
  apply andb_prop in A. destruct A as [A1 A2].
  unfold wf_module. rewrite A1, G1, G2. cbn [check bind].
  rewrite forallb_forall in G3, A2. apply all_ok_intro. intros x Hx. apply wf_inst_accepted; auto.
Qed.

Lemma wf_mods_accepted d ms : forall k,
  forallb (given_module d) ms = true -> mods_accept d k ms = true -> wf_mods d k ms = Ok tt.
Proof.
  induction ms as [|m ms IH]; intros k G A; cbn [wf_mods]; [reflexivity|].
  cbn [forallb mods_accept] in G, A. apply andb_prop in G. destruct G as [G1 G2].
  apply andb_prop in A. destruct A as [A1 A2].
  rewrite (wf_module_accepted d k m G1 A1). cbn [bind]. apply IH; assumption.
Qed.

Theorem wf_reject_complete d : given d = true -> model_accepts d = true -> wf_design d = Ok tt.
Proof.
  unfold given, model_accepts, wf_design. intros G A.
  apply andb_prop in A. destruct A as [A A3]. apply andb_prop in A. destruct A as [A1 A2].
  rewrite A1, A2. cbn [check bind]. apply wf_mods_accepted; assumption.
Qed.
