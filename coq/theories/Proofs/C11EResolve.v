(* Proofs/C11EResolve.v — C11E: what the slice resolver (Model/Resolve.v: list_bits / list_flat / resolve, the model of
   hdl21/elab/passes/slices.py) emits is PROPER: signals of width >= 1 and unit-step slices b .. t-1 of a w-bit signal with
   0 <= b < t <= w that are NOT the whole signal.  The full-width slice - the known non-fixed-point of the round trip,
   Props/C11.v:C11_full_width_slice_not_fixed - is never emitted:
     - _list_slice returns the parent itself when the slice has unit step and the parent's width (`list_flat`, first branch);
     - a unit-step slice of a Signal that is kept has another width than the Signal;
     - the bit-at-a-time fall-back (_list_bits) returns the Signal itself when it is one bit wide, else one-bit slices of a
       signal that is wider than one bit.
   Lifted to SliceResolver over a design (Model/C01EElab.v:slices_design). *)
Require Import Hdl21.Base.PyInt Hdl21.Spec.PySlice Hdl21.Model.Slice Hdl21.Model.Resolve Hdl21.Base.Design
               Hdl21.Spec.Nets Hdl21.Spec.WfDesign Hdl21.Spec.C01ENets Hdl21.Model.Arrays Hdl21.Model.C01EElab
               Hdl21.Proofs.SliceProofs Hdl21.Proofs.ResolveProofs Hdl21.Proofs.ArraysProofs Hdl21.Proofs.ExportProofs
               Hdl21.Proofs.C01EProofsGraph Hdl21.Proofs.C01EProofsBase Hdl21.Proofs.C01EProofsSim Hdl21.Proofs.C01EProofsWfs
               Hdl21.Proofs.C01EProofsPass Hdl21.Proofs.C01EProofsSlices.

Definition flat_proper (f : flat) : bool :=
  match f with
  | FSig _ w => 1 <=? w
  | FSl _ w b t => (0 <=? b) && (b <? t) && (t <=? w) && negb ((b =? 0) && (t =? w))
  end.

Lemma flat_proper_wf f : flat_proper f = true -> flat_wf f = true.
Proof. destruct f as [id w|id w b t]; cbn [flat_proper flat_wf]; intros H; [exact H|]. apply andb_prop in H. tauto. Qed.

Lemma sig_bit_flats_proper id w : 1 <= w -> Forall (fun f => flat_proper f = true) (sig_bit_flats id w).
Proof.
  intros Hw. unfold sig_bit_flats. destruct (w =? 1) eqn:E.
  - constructor; [reflexivity|constructor].
  - apply Forall_forall. intros f Hf. apply in_map_iff in Hf. destruct Hf as [k [<- Hk]].
    apply iota_in in Hk. destruct Hk as [j [Hj ->]]. cbn [flat_proper]. lia.
Qed.

Lemma list_bits_proper x : forall l, list_bits x = Ok l -> Forall (fun f => flat_proper f = true) l.
Proof.
  induction x as [id w|p ix IH|ps IH] using sx_ind'; cbn [list_bits]; intros l H.
  - destruct (w <? 1) eqn:E; [discriminate|]. inversion H; subst. apply sig_bit_flats_proper. lia.
  - binv H. eapply select_Forall; [|exact H]. apply IH. reflexivity.
  - eapply cat_results_Forall; [exact H|]. intros y ly Hy Hly. rewrite Forall_forall in IH. exact (IH y Hy ly Hly).
Qed.

Lemma list_flat_proper x : forall l, list_flat x = Ok l -> Forall (fun f => flat_proper f = true) l.
Proof.
  induction x as [id w|p ix IH|ps IH] using sx_ind'; cbn [list_flat]; intros l H.
  - destruct (w <? 1) eqn:E; [discriminate|]. inversion H; subst. constructor; [cbn [flat_proper]; lia|constructor].
  - binv H. destruct ((Slice.step a0 =? 1) && (width a0 =? a)) eqn:Efull; [apply IH; exact H|].
    destruct (is_sig p) as [[id w]|] eqn:Es.
    + destruct p as [id' w'| |]; try discriminate. cbn [is_sig] in Es. inversion Es; subst.
      destruct (Slice.step a0 =? 1) eqn:Es1.
      * inversion H; subst. constructor; [|constructor].
        cbn [xwidth] in E. destruct (w <? 1) eqn:Ew; [discriminate|]. inversion E; subst a.
        assert (Hs1 : Slice.step a0 = 1) by lia.
        destruct (inner_bits_step1 w ix a0 ltac:(lia) E0 Hs1) as [_ [Hb0 [Hbw Hw1]]].
        pose proof (slice_inner_step1 _ _ _ E0 Hs1) as Ht.
        cbn [flat_proper]. lia.
      * binv H. eapply select_Forall; [|exact H]. eapply (list_bits_proper (XSig id w)). exact E1.
    + binv H. eapply select_Forall; [|exact H]. eapply list_bits_proper. exact E1.
  - eapply cat_results_Forall; [exact H|]. intros y ly Hy Hly. rewrite Forall_forall in IH. exact (IH y Hy ly Hly).
Qed.

(* _resolve_sliceable never hands out a full-width slice *)
Theorem resolve_proper cx r : resolve cx = Ok r -> Forall (fun f => flat_proper f = true) (resolved_flats r).
Proof.
  destruct cx as [id w|p ix|ps]; cbn [resolve]; intros H.
  - destruct (w <? 1) eqn:E; [discriminate|]. inversion H; subst. cbn [resolved_flats]. constructor; [cbn [flat_proper]; lia|constructor].
  - binv H. pose proof (list_flat_proper _ _ E) as P. destruct a as [|f [|f2 l]]; [discriminate| |]; inversion H; subst; exact P.
  - destruct ps as [|p0 ps]; [discriminate|]. binv H. inversion H; subst. exact (list_flat_proper _ _ E).
Qed.

(* ------------------------------------------------------------------------------------------ SliceResolver over a design *)
Definition conn_proper (cx : sx) : Prop :=
  exists r, cx = resolved_sx r /\ Forall (fun f => flat_proper f = true) (resolved_flats r) /\ resolved_flats r <> [].

Definition proper_design (d : design) : Prop :=
  forall k m x c, nth_error (d_mods d) k = Some m -> In x (m_insts m) -> In c (i_conns x) -> conn_proper (snd c).

Lemma slices_conn_proper c c' bits : slices_conn c = Ok c' -> xbits (snd c) = Ok bits -> bits <> [] -> conn_proper (snd c').
Proof.
  intros Hc Hb Hne. destruct (resolve_spec _ _ Hb Hne) as [r [Hr [Hfb _]]].
  assert (resolved_flats r <> []) as Hnn.
  { intros E. rewrite E in Hfb. unfold flats_bits in Hfb. cbn in Hfb. congruence. }
  pose proof (resolve_proper _ _ Hr) as P.
  unfold slices_conn in Hc. destruct (snd c) as [id w|p ix|ps] eqn:Ec.
  - inversion Hc; subst c'. rewrite Ec. cbn [resolve] in Hr. destruct (w <? 1); [discriminate|]. inversion Hr; subst r.
    exists (RSingle (FSig id w)). split; [reflexivity|]. split; assumption.
  - rewrite Hr in Hc. cbn [bind] in Hc. inversion Hc; subst c'. cbn [snd]. exists r. auto.
  - rewrite Hr in Hc. cbn [bind] in Hc. inversion Hc; subst c'. cbn [snd]. exists r. auto.
Qed.

Theorem slices_proper d d' : wfs d -> slices_design d = Ok d' -> proper_design d'.
Proof.
  intros Hwfs Hpass. pose proof Hwfs as [_ [_ Hmods]].
  intros k m' x' c' Hk Hx' Hc'.
  destruct (map_modules_nth_rev _ _ _ _ _ Hpass Hk) as [m [Hkm Hm]]. destruct (Hmods k m Hkm) as [_ [_ [_ Hi]]].
  destruct (slices_module_inv _ _ Hm) as [_ [_ [_ [_ [_ F]]]]].
  destruct (Forall2_In_r _ _ _ x' F Hx') as [x [Hx Hxx]]. rewrite Forall_forall in Hi. destruct (Hi x Hx) as [_ [ports [_ [_ [Hc _]]]]].
  destruct (slices_inst_inv _ _ Hxx) as [_ [_ [_ Fc]]]. destruct (Forall2_In_r _ _ _ c' Fc Hc') as [c [Hcin Hcc]].
  rewrite Forall_forall in Hc. destruct (Hc c Hcin) as [w [cw [_ [Hw1 [_ [Hcw Hcase]]]]]].
  destruct (conn_width_bits _ _ _ _ Hcw Hw1 Hcase) as [bits [Hb [_ Hne]]].
  exact (slices_conn_proper c c' bits Hcc Hb Hne).
Qed.
