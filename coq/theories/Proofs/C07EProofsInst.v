(* Proofs/C07EProofsInst.v — the hypotheses of the abstract pass manager (Props/C07.v, Section C07) discharged for the
   concrete instance of Model/C07EConcrete.v, and the canonical content of a module computed module by module:

     cframe               no concrete body changes the port list of its module (frame_bundle and frame_flat at once)
     cbf_eff, cmk_eff     the flattening and the marking entry of Hdl21Gen.DefaultPasses are effective entries
     ckids_wf             a design listed in completion order (hier_design) is a well-formed DAG of the manager
     canon_is_elab_mod    the content the manager computes for module m after k entries - reading its children through
                          VIEWS only - is what the per-module functions compute when they are handed the whole written
                          design d:  canon (ckids d) k m = run_stages d m (effective entries below k) (cinit d m) *)
From Coq Require Import String.
Require Import Hdl21.Base.PyInt Hdl21.Spec.PySlice Hdl21.Model.Slice Hdl21.Model.Resolve Hdl21.Base.Design
               Hdl21.Spec.WfDesign Hdl21.Base.Package Hdl21.Model.Checks Hdl21.Model.C02Checks Hdl21.Model.C01EElab
               Hdl21.Model.C02EPipeline Hdl21.Model.C07EConcrete
               Hdl21.Proofs.C01EProofsBase Hdl21.Proofs.C01EProofsPass Hdl21.Proofs.C01EProofsArrays Hdl21.Proofs.C01EProofsPortRefsD
               Hdl21.Proofs.C01EProofsSlices Hdl21.Proofs.C02EProofsBase Hdl21.Proofs.C02EProofsNames
               Hdl21.Proofs.C07EProofsExt.
Require Hdl21.Proofs.C07Proofs.
Module PP := Hdl21.Proofs.C07Proofs.
Open Scope Z_scope.

(* ------------------------------------------------------------------------------------------ frames *)
Lemma lift_ports f c : (forall m m', f m = Ok m' -> m_ports m' = m_ports m) -> cbio (lift f c) = cbio c.
Proof.
  intros H. unfold lift. destruct (cc_err c); [reflexivity|]. destruct (f (cc_mod c)) as [m'|e] eqn:E; [|reflexivity].
  unfold cbio, cok. cbn [cc_mod]. apply (H _ _ E).
Qed.

Lemma lift_ext f g c : f (cc_mod c) = g (cc_mod c) -> lift f c = lift g c.
Proof. intros H. unfold lift. rewrite H. reflexivity. Qed.

Theorem cframe ck xi k m vs c : cbio (cbody ck xi k m vs c) = cbio c.
Proof. unfold cbody. apply lift_ports. intros m0 m' E. apply (kind_fn_keeps _ _ _ _ _ _ _ E). Qed.

Lemma cframe_b ck xi : forall k m vs c, (k < cbf)%nat -> cbio (cbody ck xi k m vs c) = cbio c.
Proof. intros. apply cframe. Qed.
Lemma cframe_f ck xi : forall k m vs c, (cbf < k)%nat -> cbio (cbody ck xi k m vs c) = cbio c.
Proof. intros. apply cframe. Qed.

Lemma cbf_eff : PM.eff ccaches cbf = true.
Proof. vm_compute. reflexivity. Qed.
Lemma cmk_eff : PM.eff ccaches cmk = true.
Proof. vm_compute. reflexivity. Qed.

(* ------------------------------------------------------------------------------------------ the DAG *)
Lemma mod_kids_In m j : In j (mod_kids m) <-> exists x, In x (m_insts m) /\ i_of x = TMod j.
Proof.
  unfold mod_kids. rewrite in_flat_map. split.
  - intros [x [Hx Hj]]. exists x. split.
    + apply in_app_or in Hx. destruct Hx as [Hx|Hx]; apply filter_In in Hx; tauto.
    + unfold inst_kid in Hj. destruct (i_of x); [destruct Hj as [->|[]]; reflexivity|destruct Hj].
  - intros [x [Hx Ho]]. exists x. split.
    + apply in_or_app. destruct (single x) eqn:Es; [left|right]; apply filter_In; split; try assumption. rewrite Es. reflexivity.
    + unfold inst_kid. rewrite Ho. left. reflexivity.
Qed.

Lemma ckids_kids d m md : nth_error (d_mods d) m = Some md -> PM.kids (ckids d) m = mod_kids md.
Proof.
  intros H. unfold PM.kids, ckids. apply nth_error_nth. rewrite nth_error_map, H. reflexivity.
Qed.

Lemma ckids_kids_none d m : nth_error (d_mods d) m = None -> PM.kids (ckids d) m = [].
Proof.
  intros H. unfold PM.kids, ckids. apply nth_overflow. rewrite map_length. apply nth_error_None. exact H.
Qed.

Lemma ckids_length d : Datatypes.length (ckids d) = Datatypes.length (d_mods d).
Proof. unfold ckids. apply map_length. Qed.

Lemma ckids_WF d : hier_design d = Ok tt -> PP.WF (ckids d).
Proof.
  intros H m c Hc. destruct (nth_error (d_mods d) m) as [md|] eqn:E.
  - rewrite (ckids_kids d m md E) in Hc. apply mod_kids_In in Hc. destruct Hc as [x [Hx Ho]].
    apply (hier_design_ok d H m md x c E Hx Ho).
  - rewrite (ckids_kids_none d m E) in Hc. destruct Hc.
Qed.

Lemma wf_from_intro : forall (l : PM.design) i, (forall j ks, nth_error l j = Some ks -> forall c, In c ks -> (c < i + j)%nat) ->
  PM.wf_from i l = true.
Proof.
  induction l as [|ks l IH]; intros i H; cbn [PM.wf_from]; [reflexivity|]. apply andb_true_intro. split.
  - apply forallb_forall. intros c Hc. apply Nat.ltb_lt. pose proof (H 0%nat ks eq_refl c Hc). lia.
  - apply IH. intros j ks' Hj c Hc. pose proof (H (S j) ks' Hj c Hc). lia.
Qed.

Theorem ckids_wf d : hier_design d = Ok tt -> PM.wf_design (ckids d) = true.
Proof.
  intros H. unfold PM.wf_design. apply wf_from_intro. intros j ks Hj c Hc. cbn [Nat.add].
  apply (ckids_WF d H j c). unfold PM.kids. rewrite (nth_error_nth _ _ _ Hj). exact Hc.
Qed.

(* ------------------------------------------------------------------------------------------ what the stages keep *)
Lemma same_targets_refl m : same_targets m m.
Proof. intros t. tauto. Qed.

Lemma kind_fn_targets ck xi kind self d m m' : kind_fn ck xi kind self d m = Ok m' -> same_targets m m'.
Proof.
  assert (forall f, (if ck then chk_mod f m else Ok m) = Ok m' -> m' = m) as Hc.
  { intros f H. destruct ck; [apply chk_mod_ok in H; tauto|inversion H; reflexivity]. }
  unfold kind_fn. intros H.
  destruct (String.eqb kind "Orphanage"); [apply Hc in H; subst; apply same_targets_refl|].
  destruct (String.eqb kind "InstBundleElabPass"); [inversion H; subst; apply same_targets_refl|].
  destruct (String.eqb kind "ResolvePortRefs"); [eapply portrefs_targets; exact H|].
  destruct (String.eqb kind "ConnTypes"); [apply Hc in H; subst; apply same_targets_refl|].
  destruct (String.eqb kind "BundleFlattener"); [inversion H; subst; apply same_targets_refl|].
  destruct (String.eqb kind "ArrayFlattener"); [eapply arrays_targets; exact H|].
  destruct (String.eqb kind "SliceResolver"); [eapply slices_targets; exact H|].
  destruct (String.eqb kind "MarkModules"); [apply Hc in H; subst; apply same_targets_refl|discriminate].
Qed.

(* a content that belongs to the written module m0: same ports, same name, instantiates the same things *)
Definition of_mod (m0 : module) (c : ccont) : Prop :=
  m_ports (cc_mod c) = m_ports m0 /\ m_name (cc_mod c) = m_name m0 /\ same_targets m0 (cc_mod c).

Lemma of_mod_cok m0 : of_mod m0 (cok m0).
Proof. unfold of_mod, cok. cbn [cc_mod]. split; [reflexivity|]. split; [reflexivity|apply same_targets_refl]. Qed.

Lemma lift_of_mod ck xi kind self d m0 c : of_mod m0 c -> of_mod m0 (lift (kind_fn ck xi kind self d) c).
Proof.
  intros [Hp [Hn Ht]]. unfold lift. destruct (cc_err c); [split; [|split]; assumption|].
  destruct (kind_fn ck xi kind self d (cc_mod c)) as [m'|e] eqn:E; [|split; [|split]; assumption].
  unfold of_mod, cok. cbn [cc_mod]. destruct (kind_fn_keeps _ _ _ _ _ _ _ E) as [Kp Kn].
  split; [congruence|]. split; [congruence|]. eapply same_targets_trans; [exact Ht|]. eapply kind_fn_targets. exact E.
Qed.

Lemma run_stages_of_mod ck xi d self m0 : forall ks c, of_mod m0 c -> of_mod m0 (run_stages ck xi d self ks c).
Proof.
  unfold run_stages. induction ks as [|k ks IH]; intros c H; cbn [fold_left]; [exact H|].
  apply IH. unfold stage_fn. apply lift_of_mod. exact H.
Qed.

Lemma run_stages_app ck xi d self ks1 ks2 c :
  run_stages ck xi d self (ks1 ++ ks2) c = run_stages ck xi d self ks2 (run_stages ck xi d self ks1 c).
Proof. unfold run_stages. apply fold_left_app. Qed.

Lemma eff_stages_S k : eff_stages (S k) = eff_stages k ++ (if PM.eff ccaches k then [k] else []).
Proof. unfold eff_stages. rewrite seq_S, filter_app. cbn [Nat.add filter]. reflexivity. Qed.

(* ------------------------------------------------------------------------------------------ views of the canonical content *)
Section Canon.
Variables (ck : bool) (xi : xinfo) (d : design).
Hypothesis Hh : hier_design d = Ok tt.

Notation kd := (ckids d).
Notation ccanon := (PP.canon ccont ports ports (cinit d) cbio cbio (cbody ck xi) ccaches cbf kd).
Notation ccview := (PP.cview ccont ports ports (cinit d) cbio cbio (cbody ck xi) ccaches cbf kd).

Lemma ccanon_S k m : PM.eff ccaches k = true ->
  ccanon (S k) m = cbody ck xi k m (map (ccview k) (PM.kids kd m)) (ccanon k m).
Proof.
  intros E. apply (PP.canon_S ccont ports ports (cinit d) cbio cbio (cbody ck xi) caddc ccaches cbf 0%nat
                     (cframe_b ck xi) (cframe_f ck xi) kd k m (ckids_WF d Hh) E).
Qed.

Lemma ccanon_ports k m : cbio (ccanon k m) = cbio (cinit d m).
Proof.
  induction k as [|k IH]; [reflexivity|]. destruct (PM.eff ccaches k) eqn:E.
  - rewrite (ccanon_S k m E), cframe. exact IH.
  - rewrite (PP.canon_skip ccont ports ports (cinit d) cbio cbio (cbody ck xi) ccaches cbf kd k m E). exact IH.
Qed.

(* whatever the entry, the view of child j shows the written port list of module j *)
Lemma ccview_ports k j : vports (ccview k j) = cbio (cinit d j).
Proof.
  unfold PP.cview, PP.cv, vports. cbn [PM.v_flat PM.v_bundle]. destruct (cbf <=? k)%nat; [|reflexivity]. apply ccanon_ports.
Qed.

Lemma find_view_map k (l : list nat) j : In j l -> find_view j (map (ccview k) l) = Some (ccview k j).
Proof.
  induction l as [|a l IH]; intros H; [destruct H|]. cbn [map find_view].
  assert (PM.v_mid (ccview k a) = a) as Ea by reflexivity. rewrite Ea.
  destruct (Nat.eqb a j) eqn:E; [apply Nat.eqb_eq in E; subst; reflexivity|].
  apply IH. destruct H as [->|H]; [rewrite Nat.eqb_refl in E; discriminate|exact H].
Qed.

(* the design made of the views of m's children agrees with the written design on everything m instantiates *)
Lemma views_agree k m m0 c : nth_error (d_mods d) m = Some m0 -> of_mod m0 c ->
  agree (vdesign (map (ccview k) (PM.kids kd m))) d (cc_mod c).
Proof.
  intros Hm [_ [_ Ht]] x Hx. destruct (i_of x) as [j|dev ps] eqn:Eo; [|reflexivity].
  destruct (proj2 (Ht (TMod j)) (ex_intro _ x (conj Hx Eo))) as [x0 [Hx0 Eo0]].
  assert (In j (mod_kids m0)) as Hj by (apply mod_kids_In; eauto).
  assert (j < m)%nat as Hlt by (apply (hier_design_ok d Hh m m0 x0 j Hm Hx0 Eo0)).
  rewrite (ckids_kids d m m0 Hm).
  rewrite (vdesign_target _ j _ (find_view_map k _ j Hj)), ccview_ports.
  assert (j < Datatypes.length (d_mods d))%nat as Hn.
  { assert (m < Datatypes.length (d_mods d))%nat by (apply nth_error_Some; congruence). lia. }
  destruct (nth_error (d_mods d) j) as [mj|] eqn:Ej; [|apply nth_error_None in Ej; lia].
  cbn [target_ports]. unfold nth_mod, cinit. rewrite Ej. reflexivity.
Qed.

Lemma cbody_real k m m0 c : nth_error (d_mods d) m = Some m0 -> of_mod m0 c ->
  cbody ck xi k m (map (ccview k) (PM.kids kd m)) c = lift (stage_fn ck xi d k m) c.
Proof.
  intros Hm Hc. change (lift (kind_fn ck xi (kind_at k) m (vdesign (map (ccview k) (PM.kids kd m)))) c = lift (stage_fn ck xi d k m) c).
  apply lift_ext. unfold stage_fn. apply (kind_fn_ext ck xi (kind_at k) m _ d (cc_mod c) (views_agree k m m0 c Hm Hc)).
Qed.

(* THE BRIDGE, per module: the manager's canonical content is the per-module pipeline over the written design *)
Theorem canon_is_run_stages k m m0 : nth_error (d_mods d) m = Some m0 ->
  ccanon k m = run_stages ck xi d m (eff_stages k) (cinit d m).
Proof.
  intros Hm. induction k as [|k IH]; [reflexivity|].
  rewrite eff_stages_S, run_stages_app, <- IH. destruct (PM.eff ccaches k) eqn:E.
  - rewrite (ccanon_S k m E). unfold run_stages at 1. cbn [fold_left]. apply (cbody_real k m m0 _ Hm).
    rewrite IH. apply run_stages_of_mod. unfold cinit. rewrite Hm. apply of_mod_cok.
  - rewrite (PP.canon_skip ccont ports ports (cinit d) cbio cbio (cbody ck xi) ccaches cbf kd k m E). reflexivity.
Qed.

Corollary canon_is_elab_mod m m0 : nth_error (d_mods d) m = Some m0 -> ccanon cP m = elab_mod ck xi d m.
Proof. intros Hm. apply (canon_is_run_stages cP m m0 Hm). Qed.
End Canon.
