(* Proofs/C17RoundProofs.v — C17 (strengthening round): a nearest double EXISTS for every decimal, and is computed by
   [round_dbl] (Model/C17Float.v): scale the value to units of 2^-1076, pick the binade from the bit length of the integer
   part, round the mantissa half-even on quotient and remainders, renormalise 2^53, overflow beyond 2^1024 - 2^970.
   Together with uniqueness (Proofs/C17NearestProofs.v) the specification predicate [nearest_double m e] is a function. *)
Require Import Hdl21.Base.PyInt Hdl21.Spec.SimSpec Hdl21.Model.C17Float Hdl21.Proofs.C17NearestProofs.
Open Scope Z_scope.

(* ---------------------------------------------------------------- round-half-even of (q + r/b) / (2H), on integers *)
Definition pick_up (H rem r M0 : Z) : bool :=
  if rem <? H then false else if (H <? rem) || (0 <? r) then true else Z.odd M0.

Lemma even_succ' M : Z.even (M + 1) = Z.odd M.
Proof. replace (M + 1) with (Z.succ M) by lia. apply Z.even_succ. Qed.
Lemma odd_even M : Z.odd M = negb (Z.even M).
Proof. rewrite <- Z.negb_even. reflexivity. Qed.

(* V = (M0 * 2H + rem) * b + r lies in the rounding interval of M1 = M0 or M0 + 1 on the grid 2H; the interval's ends are
   (2 M1 - 1) H and (2 M1 + 1) H; an end is attained only with an even M1 *)
Lemma half_even_interval b r H M0 rem V M1 :
  0 < b -> 0 <= r < b -> 0 < H -> 0 <= rem < 2 * H -> V = (M0 * (2 * H) + rem) * b + r ->
  M1 = (if pick_up H rem r M0 then M0 + 1 else M0) ->
  (V < (2 * M1 + 1) * H * b \/ (V = (2 * M1 + 1) * H * b /\ Z.even M1 = true)) /\
  ((2 * M1 - 1) * H * b < V \/ (V = (2 * M1 - 1) * H * b /\ Z.even M1 = true)) /\
  M0 * (2 * H) * b <= V < (M0 + 1) * (2 * H) * b.
Proof.
  intros Hb Hr HH Hrem HV HM. set (p := H * b). assert (0 < p) as Pp by (unfold p; nia).
  assert (V = 2 * M0 * p + (rem * b + r)) as HV' by (unfold p; rewrite HV; ring).
  assert (0 <= rem * b + r < 2 * p) as Rng by (unfold p; nia).
  assert (forall M, (2 * M + 1) * H * b = 2 * M * p + p) as E1 by (intros; unfold p; ring).
  assert (forall M, (2 * M - 1) * H * b = 2 * M * p - p) as E2 by (intros; unfold p; ring).
  assert (M0 * (2 * H) * b = 2 * M0 * p) as E3 by (unfold p; ring).
  assert ((M0 + 1) * (2 * H) * b = 2 * M0 * p + 2 * p) as E4 by (unfold p; ring).
  rewrite !E1, !E2, E3, E4. clear E1 E2 E3 E4.
  split; [|split; [|lia]]; unfold pick_up in HM.
  - destruct (rem <? H) eqn:C1.
    + subst M1. left. assert (rem * b + r < p) by (unfold p; nia). lia.
    + destruct ((H <? rem) || (0 <? r)) eqn:C2.
      * subst M1. left. lia.
      * assert (rem = H /\ r = 0) as [-> ->] by lia. assert (H * b + 0 = p) as Q by (unfold p; lia). rewrite Q in *.
        destruct (Z.odd M0) eqn:O; subst M1.
        -- left. lia.
        -- right. split; [lia|]. rewrite odd_even in O. destruct (Z.even M0); [reflexivity|discriminate].
  - destruct (rem <? H) eqn:C1.
    + subst M1. left. lia.
    + destruct ((H <? rem) || (0 <? r)) eqn:C2.
      * subst M1. left. assert (p < rem * b + r) by (unfold p; nia). lia.
      * assert (rem = H /\ r = 0) as [-> ->] by lia. assert (H * b + 0 = p) as Q by (unfold p; lia). rewrite Q in *.
        destruct (Z.odd M0) eqn:O; subst M1.
        -- right. split; [lia|]. rewrite even_succ'. exact O.
        -- left. lia.
Qed.

(* ---------------------------------------------------------------- the binade from the bit length *)
Lemma binade q s : 0 <= q -> s = Z.max 2 (Z.log2 q - 52) ->
  q / 2 ^ s < 2 ^ 53 /\ (2 < s -> 2 ^ 52 <= q / 2 ^ s).
Proof.
  intros Hq Hs. assert (2 <= s) as S2 by lia. assert (0 < 2 ^ s) as Ps by (apply p2_pos; lia).
  destruct (Z.eq_dec q 0) as [->|NZ].
  - rewrite Z.div_0_l by lia. split; [apply p2_pos; lia|]. intros S. exfalso. change (Z.log2 0) with 0 in Hs. lia.
  - pose proof (Z.log2_spec q ltac:(lia)) as [L1 L2]. pose proof (Z.log2_nonneg q) as L0. split.
    + apply Z.div_lt_upper_bound; [exact Ps|]. rewrite <- Z.pow_add_r by lia.
      eapply Z.lt_le_trans; [exact L2|]. apply Z.pow_le_mono_r; lia.
    + intros S. apply Z.div_le_lower_bound; [exact Ps|]. rewrite <- Z.pow_add_r by lia.
      eapply Z.le_trans; [|exact L1]. apply Z.pow_le_mono_r; lia.
Qed.

(* ---------------------------------------------------------------- near_abs from the conditions at the denominator 2^1076 *)
Lemma near_abs_intro m e M E :
  canonical M E = true ->
  let a := fst (scale10 m e) in let b := snd (scale10 m e) in
  (a * 2 ^ 1076 < hiB M E * b \/ (a * 2 ^ 1076 = hiB M E * b /\ Z.even M = true)) ->
  (loB M E * b < a * 2 ^ 1076 \/ (a * 2 ^ 1076 = loB M E * b /\ Z.even M = true)) ->
  near_abs m e M E = true.
Proof.
  intros C a b HI LO. pose proof (canonical_spec M E C) as CS. unfold near_abs. rewrite C. cbn [andb].
  apply andb_true_iff. split.
  - rewrite cmp_dec_bin_norm by lia. fold (hiB M E). fold a. fold b.
    destruct HI as [HI|[HI EV]]; [apply Z.compare_lt_iff in HI; rewrite HI; reflexivity|].
    apply Z.compare_eq_iff in HI. rewrite HI. exact EV.
  - unfold loB in LO. destruct ((M =? 2 ^ 52) && (-1074 <? E)) eqn:EB; rewrite cmp_dec_bin_norm by lia; fold a; fold b.
    + destruct LO as [LO|[LO EV]]; [apply Z.compare_gt_iff in LO; rewrite LO; reflexivity|].
      apply Z.compare_eq_iff in LO. rewrite LO. exact EV.
    + destruct LO as [LO|[LO EV]]; [apply Z.compare_gt_iff in LO; rewrite LO; reflexivity|].
      apply Z.compare_eq_iff in LO. rewrite LO. exact EV.
Qed.

(* ---------------------------------------------------------------- round_abs *)
(* what round_abs a b returns, with the facts the specification needs: V = a * 2^1076 *)
Lemma round_abs_ref_spec a b : 0 <= a -> 0 < b ->
  match round_abs_ref a b with
  | Some (M, E) =>
      canonical M E = true /\
      (a * 2 ^ 1076 < hiB M E * b \/ (a * 2 ^ 1076 = hiB M E * b /\ Z.even M = true)) /\
      (loB M E * b < a * 2 ^ 1076 \/ (a * 2 ^ 1076 = loB M E * b /\ Z.even M = true))
  | None => B (2 ^ 54 - 1) 970 * b <= a * 2 ^ 1076
  end.
Proof.
  intros Ha Hb. unfold round_abs_ref.
  set (V := a * 2 ^ 1076). assert (0 <= V) as HV0 by (unfold V; pose proof (p2_pos 1076 ltac:(lia)); nia).
  set (q := V / b). set (r := V mod b).
  assert (0 <= q) as Hq by (apply Z.div_pos; lia).
  assert (0 <= r < b) as Hr by (apply Z.mod_pos_bound; lia).
  assert (V = q * b + r) as HVq by (unfold q, r; rewrite (Z.div_mod V b) at 1 by lia; ring).
  set (s := Z.max 2 (Z.log2 q - 52)). assert (2 <= s) as S2 by lia.
  set (H := 2 ^ (s - 1)). assert (0 < H) as HH by (apply p2_pos; lia).
  assert (2 * H = 2 ^ s) as GH by (unfold H; rewrite <- (Z.pow_succ_r 2) by lia; f_equal; lia).
  set (M0 := q / (2 * H)). set (rem := q mod (2 * H)).
  assert (0 <= rem < 2 * H) as Hrem by (apply Z.mod_pos_bound; lia).
  assert (q = M0 * (2 * H) + rem) as Hqm by (unfold M0, rem; rewrite (Z.div_mod q (2 * H)) at 1 by lia; ring).
  assert (0 <= M0) as HM0 by (apply Z.div_pos; lia).
  destruct (binade q s Hq eq_refl) as [BU BL]. rewrite <- GH in BU, BL. fold M0 in BU, BL.
  clearbody M0 rem s. clearbody q r. clearbody V.
  change (2 ^ 53) with 9007199254740992 in *. change (2 ^ 52) with 4503599627370496 in *.
  fold (pick_up H rem r M0).
  set (M1 := if pick_up H rem r M0 then M0 + 1 else M0).
  assert (V = (M0 * (2 * H) + rem) * b + r) as HV1 by (rewrite <- Hqm; exact HVq).
  destruct (half_even_interval b r H M0 rem V M1 Hb Hr HH Hrem HV1 eq_refl) as [HI [LO [XL XU]]].
  assert (M0 <= M1 <= M0 + 1) as HM1 by (unfold M1; destruct (pick_up H rem r M0); lia).
  (* the grid in the units of hiB / loB *)
  assert (forall M, hiB M (s - 1076) = (2 * M + 1) * H) as EH
    by (intros; unfold hiB, B, H; f_equal; f_equal; lia).
  assert (forall M, B (2 * M - 1) (s - 1076 - 1) = (2 * M - 1) * H) as EL
    by (intros; unfold B, H; f_equal; f_equal; lia).
  destruct (M1 =? 9007199254740992) eqn:RN; cbn [fst snd].
  - (* the mantissa overflowed: 2^52 in the next binade *)
    assert (M1 = 9007199254740992) as M1v by lia. assert (M0 = 9007199254740991) as M0v by lia.
    destruct (2047 <? s + 1) eqn:OV.
    + (* infinity *)
      unfold B. change (2 ^ 54 - 1) with 18014398509481983. replace (970 + 1076) with 2046 by lia.
      assert (2 ^ 2046 <= H) as W by (unfold H; apply Z.pow_le_mono_r; lia).
      pose proof (p2_pos 2046 ltac:(lia)) as W0. remember (2 ^ 2046) as w eqn:Ew. clear Ew.
      assert (18014398509481983 * H * b <= V) as K by (rewrite M1v in LO; lia).
      assert (18014398509481983 * w * b <= 18014398509481983 * H * b) by (apply Z.mul_le_mono_nonneg_r; lia). lia.
    + split; [unfold canonical; change (2 ^ 52) with 4503599627370496; change (2 ^ 53) with 9007199254740992; lia|].
      assert (hiB 4503599627370496 (s + 1 - 1076) = 9007199254740993 * (2 * H)) as EH2.
      { unfold hiB, B. rewrite GH. f_equal. f_equal. lia. }
      assert (loB 4503599627370496 (s + 1 - 1076) = 18014398509481983 * H) as EL2.
      { unfold loB. change (2 ^ 52) with 4503599627370496.
        assert ((4503599627370496 =? 4503599627370496) && (-1074 <? s + 1 - 1076) = true) as -> by lia.
        unfold B, H. f_equal. f_equal. lia. }
      rewrite EH2, EL2. split.
      * left. rewrite M0v in XU. lia.
      * rewrite M1v in LO. destruct LO as [LO|[LO _]]; [left; lia|right; split; [lia|reflexivity]].
  - assert (M1 < 9007199254740992) as M1b by lia.
    destruct (2047 <? s) eqn:OV.
    + (* infinity: the integer part alone is beyond the threshold *)
      unfold B. change (2 ^ 54 - 1) with 18014398509481983. replace (970 + 1076) with 2046 by lia.
      assert (4503599627370496 <= M0) as N by (apply BL; lia).
      assert (2 ^ 2047 <= H) as W by (unfold H; apply Z.pow_le_mono_r; lia).
      assert (2 ^ 2047 = 2 * 2 ^ 2046) as W2 by (rewrite <- (Z.pow_succ_r 2) by lia; f_equal).
      pose proof (p2_pos 2046 ltac:(lia)) as W3. rewrite W2 in W. remember (2 ^ 2046) as w eqn:Ew. clear Ew W2.
      assert (4503599627370496 * (2 * (2 * w)) <= M0 * (2 * H)) as K1 by (apply Z.mul_le_mono_nonneg; lia).
      assert (4503599627370496 * (2 * (2 * w)) * b <= M0 * (2 * H) * b) as K2 by (apply Z.mul_le_mono_nonneg_r; lia).
      lia.
    + split; [|split].
      * unfold canonical. change (2 ^ 52) with 4503599627370496. change (2 ^ 53) with 9007199254740992.
        destruct (Z.eq_dec s 2) as [S|S]; [lia|]. assert (4503599627370496 <= M0) by (apply BL; lia). lia.
      * rewrite EH. exact HI.
      * unfold loB. change (2 ^ 52) with 4503599627370496.
        destruct ((M1 =? 4503599627370496) && (-1074 <? s - 1076)) eqn:BD.
        -- (* the lowest mantissa of a normal binade: it was not rounded up, the interval below is half as wide *)
           assert (M1 = 4503599627370496 /\ 2 < s) as [M1v S] by lia.
           assert (4503599627370496 <= M0) as N by (apply BL; lia). assert (M0 = M1) as M0v by lia.
           left. unfold B. replace (s - 1076 - 2 + 1076) with (s - 2) by lia.
           assert (H = 2 * 2 ^ (s - 2)) as HQ by (unfold H; rewrite <- (Z.pow_succ_r 2) by lia; f_equal; lia).
           pose proof (p2_pos (s - 2) ltac:(lia)) as Pq. set (h := 2 ^ (s - 2)) in *.
           rewrite M0v, HQ in XL. rewrite M1v in *. nia.
        -- rewrite EL. exact LO.
Qed.

Lemma round_abs_fast a b : 0 < b -> round_abs a b = round_abs_ref a b.
Proof.
  intros Hb. unfold round_abs, round_abs_ref.
  rewrite (Z.shiftl_mul_pow2 a 1076) by lia.
  change (fst (Z.div_eucl (a * 2 ^ 1076) b)) with ((a * 2 ^ 1076) / b).
  change (snd (Z.div_eucl (a * 2 ^ 1076) b)) with ((a * 2 ^ 1076) mod b).
  set (q := (a * 2 ^ 1076) / b). set (s := Z.max 2 (Z.log2 q - 52)). assert (2 <= s) as S2 by lia.
  rewrite (Z.shiftl_mul_pow2 1 (s - 1)) by lia. rewrite Z.mul_1_l.
  assert (2 * 2 ^ (s - 1) = 2 ^ s) as GH by (rewrite <- (Z.pow_succ_r 2) by lia; f_equal; lia).
  rewrite GH. rewrite (Z.shiftr_div_pow2 q s) by lia. rewrite (Z.shiftl_mul_pow2 (q / 2 ^ s) s) by lia.
  assert (q - q / 2 ^ s * 2 ^ s = q mod 2 ^ s) as -> by (rewrite (Z.mod_eq q (2 ^ s)) by (pose proof (p2_pos s ltac:(lia)); lia); ring).
  reflexivity.
Qed.

Lemma round_abs_spec a b : 0 <= a -> 0 < b ->
  match round_abs a b with
  | Some (M, E) =>
      canonical M E = true /\
      (a * 2 ^ 1076 < hiB M E * b \/ (a * 2 ^ 1076 = hiB M E * b /\ Z.even M = true)) /\
      (loB M E * b < a * 2 ^ 1076 \/ (a * 2 ^ 1076 = loB M E * b /\ Z.even M = true))
  | None => B (2 ^ 54 - 1) 970 * b <= a * 2 ^ 1076
  end.
Proof. intros Ha Hb. rewrite (round_abs_fast a b Hb). exact (round_abs_ref_spec a b Ha Hb). Qed.

Theorem round_dbl_nearest m e : nearest_double m e (round_dbl m e) = true.
Proof.
  unfold round_dbl. pose proof (scale10_den_pos (Z.abs m) e) as Pb.
  assert (0 <= fst (scale10 (Z.abs m) e)) as Pa.
  { unfold scale10. destruct (0 <=? e) eqn:E; cbn [fst]; [|lia]. pose proof (p10_pos e ltac:(lia)). nia. }
  pose proof (round_abs_spec _ _ Pa Pb) as S.
  destruct (round_abs (fst (scale10 (Z.abs m) e)) (snd (scale10 (Z.abs m) e))) as [[M E]|].
  - destruct S as [C [HI LO]]. cbn [nearest_double]. rewrite Bool.eqb_reflx. cbn [andb].
    apply near_abs_intro; assumption.
  - cbn [nearest_double]. rewrite Bool.eqb_reflx. cbn [andb].
    rewrite cmp_dec_bin_norm by lia.
    destruct (Z.compare_spec (fst (scale10 (Z.abs m) e) * 2 ^ 1076) (B (2 ^ 54 - 1) 970 * snd (scale10 (Z.abs m) e))); try reflexivity. lia.
Qed.

Theorem nearest_double_exists m e : exists d, nearest_double m e d = true.
Proof. exists (round_dbl m e). apply round_dbl_nearest. Qed.

(* the specification predicate is the graph of round_dbl *)
Theorem nearest_double_iff m e d : nearest_double m e d = true <-> d = round_dbl m e.
Proof.
  split; [intros H; exact (nearest_double_unique m e d _ H (round_dbl_nearest m e))|intros ->; apply round_dbl_nearest].
Qed.
