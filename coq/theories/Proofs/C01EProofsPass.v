(* Proofs/C01EProofsPass.v — what all module-by-module passes (map_modules) share. *)
Require Import Hdl21.Base.PyInt Hdl21.Spec.PySlice Hdl21.Model.Slice Hdl21.Model.Resolve Hdl21.Base.Design
               Hdl21.Spec.Nets Hdl21.Spec.WfDesign Hdl21.Spec.C01ENets Hdl21.Model.C01EElab
               Hdl21.Proofs.ResolveProofs Hdl21.Proofs.C01EProofsGraph Hdl21.Proofs.C01EProofsBase
               Hdl21.Proofs.C01EProofsSim Hdl21.Proofs.C01EProofsWfs.

Lemma Forall2_nth {A B} (R : A -> B -> Prop) l l' : Forall2 R l l' ->
  forall k a, nth_error l k = Some a -> exists b, nth_error l' k = Some b /\ R a b.
Proof.
  induction 1 as [|x y l l' Hxy _ IH]; intros k a Hk; [destruct k; discriminate|].
  destruct k as [|k]; cbn [nth_error] in *; [inversion Hk; subst; eauto|]. apply IH. exact Hk.
Qed.

Lemma Forall2_nth_rev {A B} (R : A -> B -> Prop) l l' : Forall2 R l l' ->
  forall k b, nth_error l' k = Some b -> exists a, nth_error l k = Some a /\ R a b.
Proof.
  induction 1 as [|x y l l' Hxy _ IH]; intros k b Hk; [destruct k; discriminate|].
  destruct k as [|k]; cbn [nth_error] in *; [inversion Hk; subst; eauto|]. apply IH. exact Hk.
Qed.

Lemma Forall2_length' {A B} (R : A -> B -> Prop) l l' : Forall2 R l l' -> Datatypes.length l = Datatypes.length l'.
Proof. induction 1; cbn [Datatypes.length]; congruence. Qed.

Lemma Forall2_map_eq {A B C} (R : A -> B -> Prop) (f : A -> C) (g : B -> C) l l' :
  Forall2 R l l' -> (forall a b, R a b -> f a = g b) -> map f l = map g l'.
Proof. induction 1 as [|x y l l' Hxy _ IH]; intros H; cbn [map]; [reflexivity|]. rewrite (H _ _ Hxy), IH by exact H. reflexivity. Qed.

Lemma find_inst_Forall2 (R : inst -> inst -> Prop) l l' i x : Forall2 R l l' -> (forall a b, R a b -> i_name a = i_name b) ->
  find_inst l i = Some x -> exists x', find_inst l' i = Some x' /\ R x x'.
Proof.
  intros H Hn. induction H as [|a b l l' Hab _ IH]; cbn [find_inst]; [discriminate|].
  rewrite <- (Hn _ _ Hab). destruct (String.eqb (i_name a) i); [intros E; inversion E; subst; eauto|exact IH].
Qed.

Lemma assoc_Forall2 {A B} (R : name * A -> name * B -> Prop) l l' k v : Forall2 R l l' -> (forall a b, R a b -> fst a = fst b) ->
  assoc k l = Some v -> exists v', assoc k l' = Some v' /\ R (k, v) (k, v').
Proof.
  intros H Hn. induction H as [|[ka va] [kb vb] l l' Hab _ IH]; cbn [assoc]; [discriminate|].
  pose proof (Hn _ _ Hab) as E. cbn [fst] in E. subst kb.
  destruct (String.eqb k ka) eqn:Ek; [|exact IH]. apply String.eqb_eq in Ek. subst ka. intros Ev; inversion Ev; subst. eauto.
Qed.

Lemma assoc_Forall2_none {A B} (R : name * A -> name * B -> Prop) l l' k : Forall2 R l l' -> (forall a b, R a b -> fst a = fst b) ->
  assoc k l' = None -> assoc k l = None.
Proof.
  intros H Hn. induction H as [|[ka va] [kb vb] l l' Hab _ IH]; cbn [assoc]; [reflexivity|].
  pose proof (Hn _ _ Hab) as E. cbn [fst] in E. subst kb. destruct (String.eqb k ka); [discriminate|exact IH].
Qed.

(* ---- map_modules ---- *)
Lemma map_modules_inv f d d' : map_modules f d = Ok d' ->
  d_top d' = d_top d /\ Forall2 (fun m m' => f m = Ok m') (d_mods d) (d_mods d').
Proof.
  unfold map_modules. intros H. apply bind_ok in H. destruct H as [ms [Hms H]]. inversion H; subst. cbn [d_top d_mods].
  split; [reflexivity|]. apply traverse_Forall2. exact Hms.
Qed.

Lemma map_modules_nth f d d' k m : map_modules f d = Ok d' -> nth_mod d k = Ok m -> exists m', nth_mod d' k = Ok m' /\ f m = Ok m'.
Proof.
  intros H Hk. destruct (map_modules_inv _ _ _ H) as [_ F]. apply nth_mod_nth in Hk.
  destruct (Forall2_nth _ _ _ F k m Hk) as [m' [Hk' Hf]]. exists m'. split; [apply nth_mod_nth; exact Hk'|exact Hf].
Qed.

Lemma map_modules_nth_rev f d d' k m' : map_modules f d = Ok d' -> nth_error (d_mods d') k = Some m' ->
  exists m, nth_error (d_mods d) k = Some m /\ f m = Ok m'.
Proof. intros H Hk. destruct (map_modules_inv _ _ _ H) as [_ F]. apply (Forall2_nth_rev _ _ _ F k m' Hk). Qed.

(* a pass that keeps the port lists keeps every port width *)
Lemma target_ports_keep f d d' t : map_modules f d = Ok d' -> (forall m m', f m = Ok m' -> m_ports m' = m_ports m) ->
  forall ps, target_ports d t = Ok ps -> target_ports d' t = Ok ps.
Proof.
  intros H Hp ps. unfold target_ports. destruct t as [k|dv ports]; [|tauto].
  destruct (nth_mod d k) as [m|] eqn:Ek; cbn [bind]; [|discriminate].
  destruct (map_modules_nth _ _ _ _ _ H Ek) as [m' [Hk' Hf]]. rewrite Hk'. cbn [bind]. rewrite (Hp _ _ Hf). tauto.
Qed.

Lemma port_width_keep f d d' x x' port w : map_modules f d = Ok d' -> (forall m m', f m = Ok m' -> m_ports m' = m_ports m) ->
  i_of x' = i_of x -> port_width d x port = Ok w -> port_width d' x' port = Ok w.
Proof.
  intros H Hp Ho. unfold port_width. rewrite Ho. destruct (target_ports d (i_of x)) as [ps|] eqn:Et; cbn [bind]; [|discriminate].
  rewrite (target_ports_keep _ _ _ _ H Hp ps Et). tauto.
Qed.

Lemma map_modules_names f d d' : map_modules f d = Ok d' -> (forall m m', f m = Ok m' -> m_name m' = m_name m) ->
  map m_name (d_mods d') = map m_name (d_mods d).
Proof.
  intros H Hn. destruct (map_modules_inv _ _ _ H) as [_ F]. symmetry. eapply Forall2_map_eq; [exact F|].
  intros a b Hab. symmetry. apply Hn. exact Hab.
Qed.

Lemma map_modules_length f d d' : map_modules f d = Ok d' -> Datatypes.length (d_mods d') = Datatypes.length (d_mods d).
Proof. intros H. destruct (map_modules_inv _ _ _ H) as [_ F]. symmetry. eapply Forall2_length'. exact F. Qed.

Lemma map_modules_total f d : (forall k m, nth_error (d_mods d) k = Some m -> exists m', f m = Ok m') -> exists d', map_modules f d = Ok d'.
Proof.
  intros H. unfold map_modules. assert (exists ms, traverse f (d_mods d) = Ok ms) as [ms ->]; [|cbn [bind]; eauto].
  induction (d_mods d) as [|m l IH]; cbn [traverse]; [eauto|].
  destruct (H 0%nat m eq_refl) as [m' ->]. cbn [bind]. destruct IH as [ms ->]; [intros k; apply (H (S k))|]. cbn [bind]. eauto.
Qed.

Lemma traverse_total {A B} (f : A -> result B) l : (forall x, In x l -> exists y, f x = Ok y) -> exists r, traverse f l = Ok r.
Proof.
  induction l as [|x l IH]; intros H; cbn [traverse]; [eauto|].
  destruct (H x (or_introl eq_refl)) as [y ->]. cbn [bind]. destruct IH as [r ->]; [intros z Hz; apply H; right; exact Hz|]. cbn [bind]. eauto.
Qed.

(* ---- the local target from the bits of the connection ---- *)
Lemma local_tgt_intro d m x e port k w cx bits id j s :
  assoc port (i_conns x) = Some cx -> xbits cx = Ok bits -> port_width d x port = Ok w -> 0 <= k < w ->
  elem_ok x e = true -> (zlen bits = w \/ (0 < i_n x /\ zlen bits = i_n x * w)) ->
  pick bits (conn_index x (zlen bits) w e k) = Ok (id, j) -> assocN id (m_leaves m) = Some (LSig s) ->
  local_tgt d m x e port k = Ok (LtSig s j).
Proof.
  intros Ha Hb Hw Hk He Hc Hp Hl. destruct (conn_bit_some d x e port k cx bits w Ha Hb Hw Hk He Hc) as [Hcb _].
  unfold local_tgt. rewrite Hcb, Hp. cbn [bind]. rewrite Hl. reflexivity.
Qed.

Lemma Forall2_In_r {A B} (R : A -> B -> Prop) l l' b : Forall2 R l l' -> In b l' -> exists a, In a l /\ R a b.
Proof.
  induction 1 as [|x y l l' Hxy _ IH]; intros Hin; [destruct Hin|].
  destruct Hin as [<-|Hin]; [exists x; split; [left; reflexivity|exact Hxy]|].
  destruct (IH Hin) as [a [Ha Hab]]. exists a. split; [right; exact Ha|exact Hab].
Qed.

Lemma Forall2_In_l {A B} (R : A -> B -> Prop) l l' a : Forall2 R l l' -> In a l -> exists b, In b l' /\ R a b.
Proof.
  induction 1 as [|x y l l' Hxy _ IH]; intros Hin; [destruct Hin|].
  destruct Hin as [<-|Hin]; [exists y; split; [left; reflexivity|exact Hxy]|].
  destruct (IH Hin) as [b [Hb Hab]]. exists b. split; [right; exact Hb|exact Hab].
Qed.

Lemma leaf_ok_keep m m' lw : m_leaves m' = m_leaves m -> m_ports m' = m_ports m -> m_sigs m' = m_sigs m -> leaf_ok m lw -> leaf_ok m' lw.
Proof. intros Hl Hp Hs [s [H1 H2]]. exists s. unfold sig_width in *. rewrite Hl, Hp, Hs. auto. Qed.

Lemma conn_width_bits cx cw w n : xwidth cx = Ok cw -> 1 <= w -> (cw = w \/ (0 < n /\ cw = n * w)) ->
  exists bits, xbits cx = Ok bits /\ zlen bits = cw /\ bits <> [].
Proof.
  intros Hcw Hw Hc. destruct (xwidth_ok_xbits _ _ Hcw) as [bits [Hb Hl]]. exists bits. split; [exact Hb|]. split; [exact Hl|].
  intros E. subst bits. unfold zlen in Hl. cbn in Hl. destruct Hc as [Hc|[Hn Hc]]; nia.
Qed.

Lemma Forall2_impl' {A B} (R R' : A -> B -> Prop) l l' : (forall a b, R a b -> R' a b) -> Forall2 R l l' -> Forall2 R' l l'.
Proof. intros H. induction 1; constructor; auto. Qed.

Lemma filter_all {A} (P : A -> bool) l : (forall x, In x l -> P x = true) -> filter P l = l.
Proof. induction l as [|x l IH]; intros H; cbn [filter]; [reflexivity|]. rewrite (H x (or_introl eq_refl)). f_equal. apply IH. intros y Hy. apply H. right. exact Hy. Qed.

Lemma filter_none {A} (P : A -> bool) l : (forall x, In x l -> P x = false) -> filter P l = [].
Proof. induction l as [|x l IH]; intros H; cbn [filter]; [reflexivity|]. rewrite (H x (or_introl eq_refl)). apply IH. intros y Hy. apply H. right. exact Hy. Qed.

Lemma combine_In_l' {A B} (l : list A) (r : list B) x : Datatypes.length l = Datatypes.length r -> In x l -> exists y, In (x, y) (combine l r).
Proof.
  revert r. induction l as [|a l IH]; intros [|b r] Hlen Hin; cbn in *; try discriminate; [destruct Hin|].
  destruct Hin as [<-|Hin]; [exists b; left; reflexivity|]. destruct (IH r ltac:(lia) Hin) as [y Hy]. exists y. right. exact Hy.
Qed.

Lemma map_snd_combine' {A B} (l : list A) (r : list B) : Datatypes.length l = Datatypes.length r -> map snd (combine l r) = r.
Proof.
  revert r. induction l as [|a l IH]; intros [|b r] Hlen; cbn in *; try discriminate; [reflexivity|]. f_equal. apply IH. lia.
Qed.

Lemma map_fst_combine' {A B} (l : list A) (r : list B) : Datatypes.length l = Datatypes.length r -> map fst (combine l r) = l.
Proof.
  revert r. induction l as [|a l IH]; intros [|b r] Hlen; cbn in *; try discriminate; [reflexivity|]. f_equal. apply IH. lia.
Qed.

Lemma forallb_map' {A B} (f : A -> B) (P : B -> bool) l : forallb P (map f l) = forallb (fun x => P (f x)) l.
Proof. induction l as [|x l IH]; cbn [map forallb]; [reflexivity|]. rewrite IH. reflexivity. Qed.
