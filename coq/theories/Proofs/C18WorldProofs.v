(* Proofs/C18WorldProofs.v — lemmas behind Props/C18W.v (containers sharing live objects) *)
Require Import Hdl21.Base.PyInt Hdl21.Spec.Namespace Hdl21.Model.Namespace Hdl21.Proofs.NamespaceProofs.
Require Import Hdl21.Spec.C18World Hdl21.Model.C18World.
From Coq Require Import String Ascii.
Open Scope list_scope.
Open Scope Z_scope.
Notation get := Hdl21.Model.Namespace.get.
Arguments bind_name : simpl never.

(* ------------------------------------------------------------------ identifiers *)
Lemma ctr_eqb_eq a b : ctr_eqb a b = true <-> a = b.
Proof. destruct a, b; simpl; split; intros H; try reflexivity; discriminate. Qed.

Lemma cid_eqb_eq a b : cid_eqb a b = true <-> a = b.
Proof.
  destruct a as [c i], b as [d j]. unfold cid_eqb. simpl. rewrite andb_true_iff, ctr_eqb_eq, Z.eqb_eq.
  split; [intros [-> ->]; reflexivity | intros H; inversion H; auto].
Qed.

Lemma cid_eqb_refl a : cid_eqb a a = true.
Proof. apply cid_eqb_eq. reflexivity. Qed.

Lemma kind_eqb_eq a b : kind_eqb a b = true <-> a = b.
Proof.
  destruct a as [p d| | | | | |], b as [q e| | | | | |]; simpl; split; intros H; try reflexivity; try discriminate.
  - apply andb_true_iff in H. destruct H as [H H2]. apply Bool.eqb_prop in H. subst.
    destruct d, e; try discriminate; reflexivity.
  - inversion H. rewrite Bool.eqb_reflx. destruct e; reflexivity.
Qed.

Lemma kind_eqb_refl a : kind_eqb a a = true.
Proof. apply kind_eqb_eq. reflexivity. Qed.

Lemma same_class_refl a : same_class a a = true.
Proof. destruct a; simpl; try reflexivity. Qed.

Lemma cupd_same {S} (f : cid -> S) ci s : cupd f ci s ci = s.
Proof. unfold cupd. rewrite cid_eqb_refl. reflexivity. Qed.

Lemma cupd_other {S} (f : cid -> S) ci cj s : cj <> ci -> cupd f ci s cj = f cj.
Proof.
  intros H. unfold cupd. destruct (cid_eqb cj ci) eqn:E; [|reflexivity]. apply cid_eqb_eq in E. congruence.
Qed.

Lemma hupd_same h x o : hupd h x o x = Some o.
Proof. unfold hupd. rewrite Z.eqb_refl. reflexivity. Qed.

Lemma hupd_other h x o y : y <> x -> hupd h x o y = h y.
Proof. intros H. unfold hupd. apply Z.eqb_neq in H. rewrite H. reflexivity. Qed.

(* ------------------------------------------------------------------ shape of one container edit *)
Definition op_value (o : op) : option value :=
  match o with SetAttr _ v | Add v _ => Some v | _ => None end.

Lemma step_shape c s o s' : step c s o = Ok s' ->
  match bind_name o with
  | Some n => exists v, op_value o = Some v /\ do_add c s n v = Ok s'
  | None => st_ns s' = st_ns s /\ st_views s' = st_views s
  end.
Proof.
  destruct o as [n v|v on|n|]; unfold bind_name; simpl; intros H.
  - destruct (is_private n) eqn:Ep; simpl; [inversion H; auto|].
    destruct (mem n (banned_names c)); [discriminate|].
    destruct (String.eqb n "name"%string) eqn:En; simpl.
    + destruct (v_kind v); inversion H; auto.
    + destruct (is_bundle c && String.eqb n "roles"%string); [discriminate|].
      destruct (negb (is_attr c (v_kind v))); [discriminate|]. eauto.
  - destruct (negb (is_attr c (v_kind v))); [discriminate|].
    destruct on as [n|], (v_name v) as [m|]; try discriminate; eauto.
  - discriminate.
  - inversion H. simpl. auto.
Qed.

(* ------------------------------------------------------------------ every container stays coherent *)
Definition CohW (w : cworld) : Prop := forall ci, Coh (fst ci) (w_st w ci).

Lemma cohw_init : CohW cw_init.
Proof. intros ci. apply coh_init. Qed.

Lemma cohw_cupd w ci s' h : CohW w -> Coh (fst ci) s' -> CohW (W (cupd (w_st w) ci s') h).
Proof.
  intros HC Hs cj. simpl. unfold cupd. destruct (cid_eqb cj ci) eqn:E; [|apply HC].
  apply cid_eqb_eq in E. subst. exact Hs.
Qed.

Lemma cstp_coh c s o s' : Coh c s -> cstp c s o = Some s' -> Coh c s'.
Proof.
  unfold cstp. intros HC H. destruct (step c s o) eqn:E; [|discriminate]. inversion H. subst. eapply coh_step; eauto.
Qed.

Lemma cohw_step w o w' : CohW w -> wmstep w o = Some w' -> CohW w'.
Proof.
  intros HC H. unfold wmstep in H. destruct o as [x k nm|ci n x|ci x on|x p|x d|x on|ci n|ci]; simpl in H.
  - destruct (w_heap w x); inversion H. intros ci. apply HC.
  - destruct (w_heap w x) as [ob|]; [|discriminate]. unfold store in H.
    destruct (cstp (fst ci) (w_st w ci) _) as [s'|] eqn:E; [|discriminate]. inversion H.
    apply cohw_cupd; [exact HC|]. eapply cstp_coh; [apply HC|exact E].
  - destruct (w_heap w x) as [ob|]; [|discriminate]. unfold store in H.
    destruct (cstp (fst ci) (w_st w ci) _) as [s'|] eqn:E; [|discriminate]. inversion H.
    apply cohw_cupd; [exact HC|]. eapply cstp_coh; [apply HC|exact E].
  - destruct (w_heap w x) as [[k nm pm pb]|]; [|discriminate]. destruct k; inversion H. intros ci. apply HC.
  - destruct (w_heap w x) as [[k nm pm pb]|]; [|discriminate]. destruct k; inversion H. intros ci. apply HC.
  - destruct (w_heap w x) as [[k nm pm pb]|]; [|discriminate]. destruct (has_name_attr k); inversion H. intros ci. apply HC.
  - unfold onctr in H. destruct (cstp (fst ci) (w_st w ci) _) as [s'|] eqn:E; [|discriminate]. inversion H.
    apply cohw_cupd; [exact HC|]. eapply cstp_coh; [apply HC|exact E].
  - unfold onctr in H. destruct (cstp (fst ci) (w_st w ci) _) as [s'|] eqn:E; [|discriminate]. inversion H.
    apply cohw_cupd; [exact HC|]. eapply cstp_coh; [apply HC|exact E].
Qed.

Lemma cohw_apply w o : CohW w -> CohW (wmapply w o).
Proof.
  intros HC. unfold wmapply, wapply. destruct (wstep cstp w o) eqn:E; [|exact HC]. eapply cohw_step; eauto.
Qed.

Lemma cohw_fold ops : forall w, CohW w -> CohW (wmfold w ops).
Proof.
  induction ops as [|o t IH]; simpl; intros w H; [exact H|]. apply IH. apply cohw_apply. exact H.
Qed.

(* ------------------------------------------------------------------ frames *)
(* an operation that does not touch object x leaves x as it is *)
Lemma heap_frame w o w' x : wmstep w o = Some w' -> touches o x = false -> w_heap w' x = w_heap w x.
Proof.
  intros H T. unfold wmstep in H. destruct o as [y k nm|ci n y|ci y on|y p|y d|y on|ci n|ci]; simpl in H, T.
  - destruct (w_heap w y); inversion H. simpl. apply hupd_other. apply Z.eqb_neq in T. congruence.
  - destruct (w_heap w y) as [ob|]; [|discriminate]. unfold store in H.
    destruct (cstp _ _ _); [|discriminate]. inversion H. simpl.
    destruct (bind_name _); [|reflexivity]. apply hupd_other. apply Z.eqb_neq in T. congruence.
  - destruct (w_heap w y) as [ob|]; [|discriminate]. unfold store in H.
    destruct (cstp _ _ _); [|discriminate]. inversion H. simpl.
    destruct (bind_name _); [|reflexivity]. apply hupd_other. apply Z.eqb_neq in T. congruence.
  - destruct (w_heap w y) as [[k nm pm pb]|]; [|discriminate]. destruct k; inversion H. simpl.
    apply hupd_other. apply Z.eqb_neq in T. congruence.
  - destruct (w_heap w y) as [[k nm pm pb]|]; [|discriminate]. destruct k; inversion H. simpl.
    apply hupd_other. apply Z.eqb_neq in T. congruence.
  - destruct (w_heap w y) as [[k nm pm pb]|]; [|discriminate]. destruct (has_name_attr k); inversion H. simpl.
    apply hupd_other. apply Z.eqb_neq in T. congruence.
  - unfold onctr in H. destruct (cstp _ _ _); inversion H. reflexivity.
  - unfold onctr in H. destruct (cstp _ _ _); inversion H. reflexivity.
Qed.

(* one accepted container edit, seen from key n of the same container *)
Lemma cstp_get c s o s' n : cstp c s o = Some s' ->
  match bind_name o with Some m => String.eqb m n = false | None => True end -> get s' n = get s n.
Proof.
  unfold cstp. destruct (step c s o) as [s1|] eqn:E; [|discriminate]. intros H B. inversion H. subst s1.
  apply step_shape in E. destruct (bind_name o) as [m|].
  - destruct E as [v [_ E]]. apply do_add_binds in E. destruct E as [_ E]. apply E.
    apply String.eqb_neq in B. congruence.
  - destruct E as [E _]. unfold get. rewrite E. reflexivity.
Qed.

(* an operation that does not bind key n of container ci leaves get(n) of ci as it is *)
Lemma get_frame w o w' ci n : wmstep w o = Some w' -> binds_here (w_heap w) o ci n = false -> wget w' ci n = wget w ci n.
Proof.
  intros H B. unfold wmstep in H. unfold binds_here, wbind in B. unfold wget.
  destruct o as [y k nm|cj m y|cj y on|y p|y d|y on|cj m|cj]; simpl in H.
  - destruct (w_heap w y); inversion H. reflexivity.
  - destruct (w_heap w y) as [ob|]; [|discriminate]. unfold store in H.
    destruct (cstp _ _ _) as [s'|] eqn:E; [|discriminate]. inversion H. simpl.
    unfold cupd. destruct (cid_eqb ci cj) eqn:Ec; [|reflexivity]. apply cid_eqb_eq in Ec. subst cj.
    apply (cstp_get _ _ _ _ n E). destruct (bind_name _) as [m'|]; [|exact I]. simpl in B.
    rewrite cid_eqb_refl in B. exact B.
  - destruct (w_heap w y) as [ob|]; [|discriminate]. unfold store in H.
    destruct (cstp _ _ _) as [s'|] eqn:E; [|discriminate]. inversion H. simpl.
    unfold cupd. destruct (cid_eqb ci cj) eqn:Ec; [|reflexivity]. apply cid_eqb_eq in Ec. subst cj.
    apply (cstp_get _ _ _ _ n E). destruct (bind_name _) as [m'|]; [|exact I]. simpl in B.
    rewrite cid_eqb_refl in B. exact B.
  - destruct (w_heap w y) as [[k nm pm pb]|]; [|discriminate]. destruct k; inversion H. reflexivity.
  - destruct (w_heap w y) as [[k nm pm pb]|]; [|discriminate]. destruct k; inversion H. reflexivity.
  - destruct (w_heap w y) as [[k nm pm pb]|]; [|discriminate]. destruct (has_name_attr k); inversion H. reflexivity.
  - unfold onctr in H. destruct (cstp _ _ _) as [s'|] eqn:E; [|discriminate]. inversion H. simpl.
    unfold cupd. destruct (cid_eqb ci cj) eqn:Ec; [|reflexivity]. apply cid_eqb_eq in Ec. subst cj.
    apply (cstp_get _ _ _ _ n E). exact I.
  - unfold onctr in H. destruct (cstp _ _ _) as [s'|] eqn:E; [|discriminate]. inversion H. simpl.
    unfold cupd. destruct (cid_eqb ci cj) eqn:Ec; [|reflexivity]. apply cid_eqb_eq in Ec. subst cj.
    apply (cstp_get _ _ _ _ n E). exact I.
Qed.

Lemma in_sync_frame (h h' : heap) ci n v : h' (v_id v) = h (v_id v) -> in_syncb h' ci n v = in_syncb h ci n v.
Proof. intros H. unfold in_syncb. rewrite H. reflexivity. Qed.

(* ------------------------------------------------------------------ an accepted add re-sorts, renames and re-parents *)
Definition op_obj (o : wop) : option Z :=
  match o with WSet _ _ x | WAdd _ x _ => Some x | _ => None end.

Lemma adopt_in_sync (h : heap) ci m x ob :
  in_syncb (hupd h x (adopt ci m ob)) ci m (V x (o_kind ob) (Some m)) = true.
Proof.
  unfold in_syncb. simpl. rewrite hupd_same. destruct ci as [c i]. unfold adopt. simpl.
  destruct c; simpl; rewrite kind_eqb_refl, String.eqb_refl, Z.eqb_refl; reflexivity.
Qed.

Lemma store_post w ci o x ob w' m : store cstp w ci o x ob = Some w' -> op_value o = Some (snap x ob) ->
  bind_name o = Some m ->
  wget w' ci m = Some (V x (o_kind ob) (Some m)) /\ in_sync w' ci m (V x (o_kind ob) (Some m)) /\
  w_heap w' x = Some (adopt ci m ob).
Proof.
  unfold store. intros H Hv Hb. destruct (cstp (fst ci) (w_st w ci) o) as [s'|] eqn:E; [|discriminate].
  inversion H. clear H. unfold cstp in E. destruct (step (fst ci) (w_st w ci) o) as [s1|] eqn:Es; [|discriminate].
  inversion E. subst s1. apply step_shape in Es. rewrite Hb in *. destruct Es as [v [Hv' Ha]].
  rewrite Hv in Hv'. inversion Hv'. subst v. apply do_add_binds in Ha. destruct Ha as [Ha _].
  unfold wget, in_sync. simpl. rewrite cupd_same. repeat split.
  - exact Ha.
  - apply adopt_in_sync.
  - apply hupd_same.
Qed.

Lemma add_post w o w' ci m : wmstep w o = Some w' -> wbind (w_heap w) o = Some (ci, m) ->
  exists x ob, op_obj o = Some x /\ w_heap w x = Some ob /\
    wget w' ci m = Some (V x (o_kind ob) (Some m)) /\ in_sync w' ci m (V x (o_kind ob) (Some m)) /\
    w_heap w' x = Some (adopt ci m ob).
Proof.
  intros H B. unfold wmstep in H. destruct o as [y k nm|cj n y|cj y on|y p|y d|y on|cj n|cj]; simpl in B; try discriminate; simpl in H.
  - destruct (w_heap w y) as [ob|] eqn:Eh; [|discriminate].
    destruct (bind_name (SetAttr n (snap y ob))) as [m'|] eqn:Eb; [|discriminate]. simpl in B. inversion B. subst cj m'.
    exists y, ob. split; [reflexivity|]. split; [exact Eh|]. eapply store_post; eauto.
  - destruct (w_heap w y) as [ob|] eqn:Eh; [|discriminate].
    destruct (bind_name (Add (snap y ob) on)) as [m'|] eqn:Eb; [|discriminate]. simpl in B. inversion B. subst cj m'.
    exists y, ob. split; [reflexivity|]. split; [exact Eh|]. eapply store_post; eauto.
Qed.

(* an entry that was in sync stays listed and in sync as long as nobody touches its object or re-binds its key *)
Lemma sync_quiet post : forall w ci n v, wget w ci n = Some v -> in_sync w ci n v ->
  quiet w post ci n (v_id v) = true ->
  wget (wmfold w post) ci n = Some v /\ in_sync (wmfold w post) ci n v.
Proof.
  induction post as [|o t IH]; simpl; intros w ci n v Hg Hs Hq; [auto|].
  apply andb_true_iff in Hq. destruct Hq as [Hq Ht]. apply andb_true_iff in Hq. destruct Hq as [Hx Hb].
  apply negb_true_iff in Hx. apply negb_true_iff in Hb.
  apply IH; [| |exact Ht]; unfold wmapply, wapply; destruct (wstep cstp w o) as [w'|] eqn:E; auto.
  - rewrite (get_frame w o w' ci n E Hb). exact Hg.
  - unfold in_sync. rewrite (in_sync_frame (w_heap w) (w_heap w') ci n v); [exact Hs|].
    apply (heap_frame w o w' (v_id v) E Hx).
Qed.

(* ------------------------------------------------------------------ in-sync entries: the live object decides the view *)
Lemma in_sync_live w ci n v : in_sync w ci n v ->
  exists ob, w_heap w (v_id v) = Some ob /\ o_kind ob = v_kind v /\ o_name ob = Some n /\ parent_of (fst ci) ob = Some (snd ci).
Proof.
  unfold in_sync, in_syncb. destruct (w_heap w (v_id v)) as [ob|]; [|discriminate]. intros H.
  apply andb_true_iff in H. destruct H as [H H3]. apply andb_true_iff in H. destruct H as [H1 H2].
  exists ob. split; [reflexivity|]. apply kind_eqb_eq in H1. split; [exact H1|]. split.
  - unfold opt_name_eqb in H2. destruct (o_name ob); [|discriminate]. apply String.eqb_eq in H2. subst. reflexivity.
  - unfold opt_z_eqb in H3. destruct (parent_of (fst ci) ob); [|discriminate]. apply Z.eqb_eq in H3. subst. reflexivity.
Qed.

Lemma live_port_iff w i n v ob p d : CohW w -> wget w (CModule, i) n = Some v -> in_sync w (CModule, i) n v ->
  w_heap w (v_id v) = Some ob -> o_kind ob = KSignal p d ->
  (lookup n (st_views (w_st w (CModule, i)) VPorts) = Some v <-> p = true) /\
  (lookup n (st_views (w_st w (CModule, i)) VSignals) = Some v <-> p = false).
Proof.
  intros HC Hg Hs Hh Hk. destruct (in_sync_live _ _ _ _ Hs) as [ob' [Hh' [Hk' _]]].
  rewrite Hh in Hh'. inversion Hh'. subst ob'.
  apply (coh_ports CModule (w_st w (CModule, i)) n v p d eq_refl (HC (CModule, i)) Hg). congruence.
Qed.

(* ------------------------------------------------------------------ entries denote live objects of their class *)
Definition entries_live (w : cworld) : Prop :=
  forall ci n v, wget w ci n = Some v ->
    exists ob, w_heap w (v_id v) = Some ob /\ same_class (o_kind ob) (v_kind v) = true.

Lemma same_class_sym a b : same_class a b = same_class b a.
Proof. destruct a as [p d| | | | | |], b as [q e| | | | | |]; simpl; try reflexivity. Qed.

(* after an accepted operation, an entry is either the one just stored or was there before *)
Lemma get_cases w o w' ci n v : wmstep w o = Some w' -> wget w' ci n = Some v ->
  (exists x ob, op_obj o = Some x /\ w_heap w x = Some ob /\ v = V x (o_kind ob) (Some n) /\
                w_heap w' x = Some (adopt ci n ob)) \/
  (wget w ci n = Some v).
Proof.
  intros H Hg. destruct (binds_here (w_heap w) o ci n) eqn:B.
  - left. unfold binds_here in B. destruct (wbind (w_heap w) o) as [[cj m]|] eqn:Eb; [|discriminate].
    apply andb_true_iff in B. destruct B as [B1 B2]. apply cid_eqb_eq in B1. apply String.eqb_eq in B2. subst cj m.
    destruct (add_post w o w' ci n H Eb) as [x [ob [H1 [H2 [H3 [_ H5]]]]]].
    exists x, ob. rewrite Hg in H3. inversion H3. auto.
  - right. rewrite <- (get_frame w o w' ci n H B). exact Hg.
Qed.

Lemma entries_live_step w o w' : entries_live w -> wmstep w o = Some w' -> entries_live w'.
Proof.
  intros HL H ci n v Hg. destruct (get_cases w o w' ci n v H Hg) as [[x [ob [H1 [H2 [H3 H4]]]]]|Hold].
  - subst v. simpl. exists (adopt ci n ob). split; [exact H4|]. unfold adopt. destruct (fst ci); simpl; apply same_class_refl.
  - destruct (HL ci n v Hold) as [ob [Hh Hc]].
    destruct (touches o (v_id v)) eqn:T.
    + (* the object is the one the operation works on: its class is kept *)
      unfold wmstep in H. destruct o as [y k nm|cj m y|cj y on|y p|y d|y on|cj m|cj]; simpl in H, T; try discriminate;
        apply Z.eqb_eq in T; subst y; rewrite Hh in H.
      * discriminate.
      * unfold store in H. destruct (cstp _ _ _); [|discriminate]. inversion H. simpl.
        destruct (bind_name _); [|eauto]. rewrite hupd_same. eexists. split; [reflexivity|].
        unfold adopt. destruct (fst cj); simpl; exact Hc.
      * unfold store in H. destruct (cstp _ _ _); [|discriminate]. inversion H. simpl.
        destruct (bind_name _); [|eauto]. rewrite hupd_same. eexists. split; [reflexivity|].
        unfold adopt. destruct (fst cj); simpl; exact Hc.
      * destruct ob as [k nm pm pb]. destruct k; inversion H. simpl. rewrite hupd_same. eexists. split; [reflexivity|].
        simpl in *. destruct (v_kind v); try discriminate; reflexivity.
      * destruct ob as [k nm pm pb]. destruct k; inversion H. simpl. rewrite hupd_same. eexists. split; [reflexivity|].
        simpl in *. destruct (v_kind v); try discriminate; reflexivity.
      * destruct ob as [k nm pm pb]. destruct (has_name_attr k); inversion H. simpl. rewrite hupd_same.
        eexists. split; [reflexivity|]. exact Hc.
    + exists ob. split; [|exact Hc]. rewrite (heap_frame w o w' (v_id v) H T). exact Hh.
Qed.

Lemma entries_live_init : entries_live cw_init.
Proof. intros ci n v H. unfold wget in H. simpl in H. discriminate. Qed.

Lemma entries_live_fold ops : forall w, entries_live w -> entries_live (wmfold w ops).
Proof.
  induction ops as [|o t IH]; simpl; intros w H; [exact H|]. apply IH. unfold wmapply, wapply.
  destruct (wstep cstp w o) as [w'|] eqn:E; [|exact H]. eapply entries_live_step; eauto.
Qed.

(* ------------------------------------------------------------------ histories of the round-1 shape: everything is in sync *)
Definition lin_inv (w : cworld) (used : list Z) : Prop :=
  forall ci n v, wget w ci n = Some v -> in_sync w ci n v /\ In (v_id v) used.

Lemma existsb_eqb_false x l : existsb (Z.eqb x) l = false -> ~ In x l.
Proof.
  intros H C. assert (existsb (Z.eqb x) l = true) as T; [|congruence].
  apply existsb_exists. exists x. split; [exact C|apply Z.eqb_refl].
Qed.

Lemma lin_step_touch w o w' used x : lin_inv w used -> wmstep w o = Some w' -> ~ In x used ->
  (forall y, touches o y = true -> y = x) ->
  lin_inv w' (match op_obj o with Some _ => x :: used | None => used end).
Proof.
  intros HI H Hx Ht ci n v Hg. destruct (get_cases w o w' ci n v H Hg) as [[y [ob [H1 [H2 [H3 H4]]]]]|Hold].
  - subst v. rewrite H1. split.
    + unfold in_sync, in_syncb. simpl. rewrite H4. destruct ci as [c i]. unfold adopt. simpl.
      destruct c; simpl; rewrite kind_eqb_refl, String.eqb_refl, Z.eqb_refl; reflexivity.
    + simpl. left. symmetry. apply Ht. destruct o; simpl in H1; inversion H1; simpl; apply Z.eqb_refl.
  - destruct (HI ci n v Hold) as [Hs Hu]. split.
    + unfold in_sync. rewrite (in_sync_frame (w_heap w) (w_heap w') ci n v); [exact Hs|].
      apply (heap_frame w o w' (v_id v) H). destruct (touches o (v_id v)) eqn:T; [|reflexivity].
      apply Ht in T. congruence.
    + destruct (op_obj o); simpl; auto.
Qed.

Lemma lin_inv_mono w u1 u2 : (forall x, In x u1 -> In x u2) -> lin_inv w u1 -> lin_inv w u2.
Proof. intros Hm HI ci n v Hg. destruct (HI ci n v Hg). auto. Qed.

Lemma lin_step_untouched w o w' used : lin_inv w used -> wmstep w o = Some w' -> (forall y, touches o y = false) ->
  lin_inv w' used.
Proof.
  intros HI H Ht ci n v Hg. destruct (get_cases w o w' ci n v H Hg) as [[y [ob [H1 _]]]|Hold].
  - destruct o; simpl in H1; inversion H1; subst; specialize (Ht y); simpl in Ht; rewrite Z.eqb_refl in Ht; discriminate.
  - destruct (HI ci n v Hold) as [Hs Hu]. split; [|exact Hu].
    unfold in_sync. rewrite (in_sync_frame (w_heap w) (w_heap w') ci n v); [exact Hs|].
    apply (heap_frame w o w' (v_id v) H). apply Ht.
Qed.

Lemma linear_in_sync ops : forall w used, lin_inv w used -> linear used ops = true ->
  exists used', lin_inv (wmfold w ops) used'.
Proof.
  induction ops as [|o t IH]; simpl; intros w used HI HL; [eauto|].
  unfold wmapply, wapply.
  destruct o as [x k nm|ci n x|ci x on|x p|x d|x on|ci n|ci].
  - (* a new object: no entry denotes it *)
    destruct (wstep cstp w (WNew x k nm)) as [w'|] eqn:E; [|eapply IH; eauto].
    apply (IH w' used); [|exact HL]. intros cj m v Hg.
    destruct (get_cases w _ w' cj m v E Hg) as [[y [ob [H1 _]]]|Hold]; [simpl in H1; discriminate|].
    destruct (HI cj m v Hold) as [Hs Hu]. split; [|exact Hu].
    unfold in_sync. rewrite (in_sync_frame (w_heap w) (w_heap w') cj m v); [exact Hs|].
    apply (heap_frame w _ w' (v_id v) E). simpl. destruct (x =? v_id v) eqn:Ex; [|reflexivity].
    apply Z.eqb_eq in Ex. subst x. unfold wmstep in E. simpl in E.
    unfold in_sync, in_syncb in Hs. destruct (w_heap w (v_id v)); discriminate.
  - apply andb_true_iff in HL. destruct HL as [Hx HL]. apply negb_true_iff in Hx. apply existsb_eqb_false in Hx.
    destruct (wstep cstp w (WSet ci n x)) as [w'|] eqn:E.
    + apply (IH w' (x :: used)); [|exact HL].
      apply (lin_step_touch w _ w' used x HI E Hx). intros y T. simpl in T. apply Z.eqb_eq in T. auto.
    + apply (IH w (x :: used)); [|exact HL]. eapply lin_inv_mono; [|exact HI]. simpl. auto.
  - apply andb_true_iff in HL. destruct HL as [Hx HL]. apply negb_true_iff in Hx. apply existsb_eqb_false in Hx.
    destruct (wstep cstp w (WAdd ci x on)) as [w'|] eqn:E.
    + apply (IH w' (x :: used)); [|exact HL].
      apply (lin_step_touch w _ w' used x HI E Hx). intros y T. simpl in T. apply Z.eqb_eq in T. auto.
    + apply (IH w (x :: used)); [|exact HL]. eapply lin_inv_mono; [|exact HI]. simpl. auto.
  - apply andb_true_iff in HL. destruct HL as [Hx HL]. apply negb_true_iff in Hx. apply existsb_eqb_false in Hx.
    destruct (wstep cstp w (WVis x p)) as [w'|] eqn:E; [|eapply IH; eauto].
    apply (IH w' used); [|exact HL].
    apply (lin_step_touch w _ w' used x HI E Hx). intros y T. simpl in T. apply Z.eqb_eq in T. auto.
  - apply andb_true_iff in HL. destruct HL as [Hx HL]. apply negb_true_iff in Hx. apply existsb_eqb_false in Hx.
    destruct (wstep cstp w (WDir x d)) as [w'|] eqn:E; [|eapply IH; eauto].
    apply (IH w' used); [|exact HL].
    apply (lin_step_touch w _ w' used x HI E Hx). intros y T. simpl in T. apply Z.eqb_eq in T. auto.
  - apply andb_true_iff in HL. destruct HL as [Hx HL]. apply negb_true_iff in Hx. apply existsb_eqb_false in Hx.
    destruct (wstep cstp w (WName x on)) as [w'|] eqn:E; [|eapply IH; eauto].
    apply (IH w' used); [|exact HL].
    apply (lin_step_touch w _ w' used x HI E Hx). intros y T. simpl in T. apply Z.eqb_eq in T. auto.
  - destruct (wstep cstp w (WDel ci n)) as [w'|] eqn:E; [|eapply IH; eauto].
    apply (IH w' used); [|exact HL]. apply (lin_step_untouched w _ w' used HI E). reflexivity.
  - destruct (wstep cstp w (WElab ci)) as [w'|] eqn:E; [|eapply IH; eauto].
    apply (IH w' used); [|exact HL]. apply (lin_step_untouched w _ w' used HI E). reflexivity.
Qed.

Lemma lin_inv_init : lin_inv cw_init [].
Proof. intros ci n v H. unfold wget in H. simpl in H. discriminate. Qed.

(* ------------------------------------------------------------------ the concrete world refines the specification world *)
Definition RW (w : cworld) (a : aworld) : Prop :=
  (forall ci, R (w_st w ci) (w_st a ci)) /\ (forall x, w_heap w x = w_heap a x).

Lemma RW_init : RW cw_init aw_init.
Proof. split; intros; [apply R_init|reflexivity]. Qed.

Lemma refine_cstp c s a o : table_ok c = true -> R s a ->
  match cstp c s o, astp c a o with
  | Some s', Some a' => R s' a'
  | None, None => True
  | _, _ => False
  end.
Proof.
  intros T HR. pose proof (refine_step c s a o T HR) as H. unfold cstp, astp.
  destruct (step c s o), (spec_step c a o); auto.
Qed.

Lemma RW_cupd w a ci s' a' h h' : RW w a -> R s' a' -> (forall x, h x = h' x) ->
  RW (W (cupd (w_st w) ci s') h) (W (cupd (w_st a) ci a') h').
Proof.
  intros [HR HH] Hs Hh. split; simpl; [|exact Hh]. intros cj. unfold cupd. destruct (cid_eqb cj ci); auto.
Qed.

Lemma hupd_ext h h' x o : (forall y, h y = h' y) -> forall y, hupd h x o y = hupd h' x o y.
Proof. intros H y. unfold hupd. destruct (y =? x); auto. Qed.

Lemma refine_wstep w a o : (forall c, table_ok c = true) -> RW w a ->
  match wmstep w o, wspec_step a o with
  | Some w', Some a' => RW w' a'
  | None, None => True
  | _, _ => False
  end.
Proof.
  intros T HRW. pose proof HRW as [HR HH]. unfold wmstep, wspec_step.
  destruct o as [x k nm|ci n x|ci x on|x p|x d|x on|ci n|ci]; simpl.
  - rewrite <- (HH x). destruct (w_heap w x); [exact I|]. split; simpl; [exact HR|]. apply hupd_ext. exact HH.
  - rewrite <- (HH x). destruct (w_heap w x) as [ob|]; [|exact I]. unfold store.
    pose proof (refine_cstp (fst ci) _ _ (SetAttr n (snap x ob)) (T (fst ci)) (HR ci)) as H.
    destruct (cstp _ _ _), (astp _ _ _); try tauto.
    apply RW_cupd; [exact HRW|exact H|]. destruct (bind_name _); [apply hupd_ext|]; exact HH.
  - rewrite <- (HH x). destruct (w_heap w x) as [ob|]; [|exact I]. unfold store.
    pose proof (refine_cstp (fst ci) _ _ (Add (snap x ob) on) (T (fst ci)) (HR ci)) as H.
    destruct (cstp _ _ _), (astp _ _ _); try tauto.
    apply RW_cupd; [exact HRW|exact H|]. destruct (bind_name _); [apply hupd_ext|]; exact HH.
  - rewrite <- (HH x). destruct (w_heap w x) as [[k nm pm pb]|]; [|exact I].
    destruct k; try exact I. split; simpl; [exact HR|]. apply hupd_ext. exact HH.
  - rewrite <- (HH x). destruct (w_heap w x) as [[k nm pm pb]|]; [|exact I].
    destruct k; try exact I. split; simpl; [exact HR|]. apply hupd_ext. exact HH.
  - rewrite <- (HH x). destruct (w_heap w x) as [[k nm pm pb]|]; [|exact I].
    destruct (has_name_attr k); [|exact I]. split; simpl; [exact HR|]. apply hupd_ext. exact HH.
  - unfold onctr. pose proof (refine_cstp (fst ci) _ _ (Del n) (T (fst ci)) (HR ci)) as H.
    destruct (cstp _ _ _), (astp _ _ _); try tauto; apply RW_cupd; solve [exact HRW|exact H|exact HH].
  - unfold onctr, cstp, astp. simpl. apply RW_cupd; [exact HRW| |exact HH].
    destruct (HR ci) as [Hm He]. split; simpl; auto.
Qed.

Lemma refine_wfold ops : (forall c, table_ok c = true) -> forall w a, RW w a ->
  RW (wmfold w ops) (wfold astp a ops).
Proof.
  intros T. induction ops as [|o t IH]; simpl; intros w a H; [exact H|]. apply IH.
  pose proof (refine_wstep w a o T H) as Hs. unfold wmapply, wapply. unfold wmstep, wspec_step in Hs.
  destruct (wstep cstp w o), (wstep astp a o); try tauto.
Qed.

(* ------------------------------------------------------------------ an operation on another container leaves this one alone *)
Definition target (o : wop) : option cid :=
  match o with WSet ci _ _ | WAdd ci _ _ | WDel ci _ | WElab ci => Some ci | _ => None end.

Lemma ctr_frame w o w' ci : wmstep w o = Some w' -> target o <> Some ci -> w_st w' ci = w_st w ci.
Proof.
  intros H T. unfold wmstep in H. destruct o as [y k nm|cj m y|cj y on|y p|y d|y on|cj m|cj]; simpl in H, T.
  - destruct (w_heap w y); inversion H. reflexivity.
  - destruct (w_heap w y) as [ob|]; [|discriminate]. unfold store in H.
    destruct (cstp _ _ _); [|discriminate]. inversion H. simpl. apply cupd_other. congruence.
  - destruct (w_heap w y) as [ob|]; [|discriminate]. unfold store in H.
    destruct (cstp _ _ _); [|discriminate]. inversion H. simpl. apply cupd_other. congruence.
  - destruct (w_heap w y) as [[k nm pm pb]|]; [|discriminate]. destruct k; inversion H. reflexivity.
  - destruct (w_heap w y) as [[k nm pm pb]|]; [|discriminate]. destruct k; inversion H. reflexivity.
  - destruct (w_heap w y) as [[k nm pm pb]|]; [|discriminate]. destruct (has_name_attr k); inversion H. reflexivity.
  - unfold onctr in H. destruct (cstp _ _ _); [|discriminate]. inversion H. simpl. apply cupd_other. congruence.
  - unfold onctr in H. destruct (cstp _ _ _); [|discriminate]. inversion H. simpl. apply cupd_other. congruence.
Qed.

Lemma refine_accept w a o : (forall c, table_ok c = true) -> RW w a -> is_some (wmstep w o) = is_some (wspec_step a o).
Proof.
  intros T H. pose proof (refine_wstep w a o T H) as Hs. destruct (wmstep w o), (wspec_step a o); simpl; tauto.
Qed.
