(* Proofs/C01EProofsExport.v — export_model on an elaborated design (wfs, no arrays, resolved connections):
   it succeeds; read as the netlisters read it (Base/Package.v:read_target) every exported target gives back exactly the
   bits of the connection; the package read as a design (design_of_pkg) has the same nets; the package is well-formed. *)
From Coq Require Import String.
Require Import Hdl21.Base.PyInt Hdl21.Spec.PySlice Hdl21.Model.Slice Hdl21.Model.Resolve Hdl21.Base.Design
               Hdl21.Spec.Nets Hdl21.Spec.WfDesign Hdl21.Base.Package Hdl21.Base.PrimTable Hdl21.Spec.PkgWf
               Hdl21.Spec.C01ENets Hdl21.Model.Export Hdl21.Model.C01EElab
               Hdl21.Proofs.SliceProofs Hdl21.Proofs.ResolveProofs Hdl21.Proofs.ArraysProofs Hdl21.Proofs.ExportProofs
               Hdl21.Proofs.C01EProofsGraph Hdl21.Proofs.C01EProofsBase Hdl21.Proofs.C01EProofsSim Hdl21.Proofs.C01EProofsWfs
               Hdl21.Proofs.C01EProofsPass Hdl21.Proofs.C01EProofsNames Hdl21.Proofs.C01EProofsSlices Hdl21.Proofs.C01EProofsArrays
               Hdl21.Proofs.C01EProofsDfs.
Open Scope Z_scope.

(* ------------------------------------------------------------------------------------------ one connection *)
Definition lname (m : module) (id : N) : name := match leaf_name m id with Ok s => s | Error _ => "" end.

Lemma seq_results_ok {A} (l : list A) : seq_results (map Ok l) = Ok l.
Proof. induction l as [|x l IH]; cbn [map seq_results]; [reflexivity|]. rewrite IH. reflexivity. Qed.

Lemma slice_inner_unit w b t : 0 <= b -> b < t -> t <= w ->
  slice_inner w (Sl (Some b) (Some t) None) = Ok {| top := t; bot := b; Slice.step := 1; width := t - b |}.
Proof.
  intros Hb Hbt Htw. unfold slice_inner, step_of. change (1 =? 0) with false. cbv iota.
  unfold py_start_stop. change (0 <? 1) with true. cbv iota. unfold norm_pos, clamp.
  assert ((b <? 0) = false) as -> by lia. assert ((t <? 0) = false) as -> by lia.
  replace (Z.max 0 (Z.min w b)) with b by lia. replace (Z.max 0 (Z.min w t)) with t by lia.
  unfold py_len. change (0 <? 1) with true. cbv iota. assert ((b <? t) = true) as -> by lia.
  replace ((t - b - 1) / 1 + 1) with (t - b) by (rewrite Z.div_1_r; lia).
  assert ((t - b <? 1) = false) as -> by lia. change (0 <? 1) with true. cbv iota. f_equal. f_equal; lia.
Qed.

Lemma export_flat m f : flat_wf f = true -> leaf_ok m (flat_leaf f) ->
  export_target (leaf_name m) (flat_sx f) = Ok (flat_ptarget (lname m) f).
Proof.
  intros Hwf [s [Hl _]]. assert (leaf_name m (fst (flat_leaf f)) = Ok s) as Hn by (unfold leaf_name; rewrite Hl; reflexivity).
  destruct f as [id w|id w b t]; cbn [flat_sx export_target flat_ptarget flat_leaf fst flat_wf] in *.
  - unfold lname. rewrite Hn. reflexivity.
  - rewrite slice_inner_unit by lia. cbn [bind Slice.step top bot]. unfold lname. rewrite Hn. reflexivity.
Qed.

Lemma export_resolved_ok m r : Forall (fun f => flat_wf f = true) (resolved_flats r) ->
  Forall (fun f => leaf_ok m (flat_leaf f)) (resolved_flats r) ->
  export_target (leaf_name m) (resolved_sx r) = Ok (export_resolved (lname m) r).
Proof.
  destruct r as [f|fs]; cbn [resolved_flats resolved_sx export_resolved]; intros Hwf Hl.
  - inversion Hwf; inversion Hl; subst. apply export_flat; assumption.
  - cbn [export_target]. rewrite map_map.
    assert (map (fun x => export_target (leaf_name m) (flat_sx x)) fs = map Ok (map (flat_ptarget (lname m)) fs)) as ->.
    { rewrite map_map. apply map_ext_in. intros f Hf. rewrite Forall_forall in Hwf, Hl. apply export_flat; auto. }
    rewrite seq_results_ok. reflexivity.
Qed.

(* the declared signals of the exported module: internal signals, then ports *)
Definition psigs (m : module) : list (name * Z) := m_sigs m ++ m_ports m.

Lemma sig_width_psigs m s w : NoDup (mod_names m) -> sig_width m s = Some w -> assoc s (psigs m) = Some w.
Proof.
  intros Hnd. unfold sig_width, psigs. rewrite assoc_app. destruct (assoc s (m_ports m)) as [wp|] eqn:Ep.
  - intros H; inversion H; subst. assert (assoc s (m_sigs m) = None) as ->; [|reflexivity].
    apply assoc_notin_None. intros Hin. unfold mod_names in Hnd. rewrite app_assoc in Hnd. apply NoDup_app_l in Hnd.
    apply (NoDup_app_disj _ _ s Hnd); [|exact Hin]. apply assoc_In in Ep. apply (in_map fst) in Ep. exact Ep.
  - intros ->. reflexivity.
Qed.

Lemma flat_declared_of_leaf m f : NoDup (mod_names m) -> flat_wf f = true -> leaf_ok m (flat_leaf f) ->
  flat_declared (psigs m) (lname m) f.
Proof.
  intros Hnd Hwf [s [Hl Hw]]. split; [exact Hwf|].
  assert (lname m (fst (flat_leaf f)) = s) as Hn by (unfold lname, leaf_name; rewrite Hl; reflexivity).
  destruct f as [id w|id w b t]; cbn [flat_leaf fst snd] in *; rewrite Hn; apply sig_width_psigs; assumption.
Qed.

(* what the netlisters read from an exported connection *)
Theorem export_conn_read m cx : NoDup (mod_names m) -> conn_resolved cx -> Forall (leaf_ok m) (sx_leaves cx) ->
  exists t bits, export_target (leaf_name m) cx = Ok t /\ xbits cx = Ok bits /\
                 read_target (psigs m) t = Ok (map (named (lname m)) bits).
Proof.
  intros Hnd [r [-> Hwf]] Hl. rewrite sx_leaves_resolved in Hl.
  assert (Forall (fun f => leaf_ok m (flat_leaf f)) (resolved_flats r)) as Hl'.
  { apply Forall_forall. intros f Hf. rewrite Forall_forall in Hl. apply Hl. apply in_map. exact Hf. }
  exists (export_resolved (lname m) r), (flats_bits (resolved_flats r)).
  split; [apply export_resolved_ok; assumption|]. split; [apply xbits_resolved; exact Hwf|].
  apply export_read. apply Forall_forall. intros f Hf. rewrite Forall_forall in Hwf, Hl'. apply flat_declared_of_leaf; auto.
Qed.

(* ------------------------------------------------------------------------------------------ xinfo_ok, taken apart *)
Lemma ports_eqb_eq a : forall b, ports_eqb a b = true -> a = b.
Proof.
  induction a as [|[n w] a IH]; intros [|[n' w'] b]; cbn [ports_eqb fst snd]; intros H; try discriminate; [reflexivity|].
  apply andb_prop in H. destruct H as [H H3]. apply andb_prop in H. destruct H as [H1 H2].
  apply String.eqb_eq in H1. apply Z.eqb_eq in H2. rewrite (IH b H3). subst. reflexivity.
Qed.

Lemma xinfo_dev xi d k m x dev ports : xinfo_ok xi d = true -> nth_mod d k = Ok m -> In x (m_insts m) -> i_of x = TDev dev ports ->
  exists v e, assoc dev (x_devs xi) = Some v /\ dev_string v = dev /\
    forallb (fun pw : name * Z => 1 <=? snd pw) ports = true /\ NoDup (map fst ports) /\
    dev_decl v = Some e /\ ext_ports e = ports /\
    (forall e', dv_ext v = Some e' -> px_domain e' = dv_dom v /\ px_name e' = dv_name v).
Proof.
  unfold xinfo_ok. intros H Hm Hx Ho. apply andb_prop in H. destruct H as [_ H]. rewrite forallb_forall in H.
  apply nth_mod_nth in Hm. apply nth_error_In in Hm. specialize (H m Hm). rewrite forallb_forall in H. specialize (H x Hx).
  rewrite Ho in H. unfold dev_ok in H. destruct (assoc dev (x_devs xi)) as [v|]; [|discriminate].
  repeat (apply andb_prop in H; destruct H as [H ?]).
  destruct (dev_decl v) as [e|] eqn:Ed; [|discriminate]. exists v, e. split; [reflexivity|].
  split; [apply String.eqb_eq; exact H|]. split; [assumption|]. split; [apply nodup_names_NoDup; assumption|]. split; [exact Ed|].
  split; [apply ports_eqb_eq; assumption|]. intros e' He'. rewrite He' in H1. apply andb_prop in H1. destruct H1 as [A B].
  split; apply String.eqb_eq; assumption.
Qed.

Lemma xinfo_consistent xi d dev1 v1 dev2 v2 : xinfo_ok xi d = true -> assoc dev1 (x_devs xi) = Some v1 -> assoc dev2 (x_devs xi) = Some v2 ->
  dv_dom v1 = dv_dom v2 -> dv_name v1 = dv_name v2 ->
  match dv_ext v1, dv_ext v2 with Some e, Some f => ext_ports e = ext_ports f | None, None => True | _, _ => False end.
Proof.
  unfold xinfo_ok. intros H H1 H2 Ed En. apply andb_prop in H. destruct H as [H _]. rewrite forallb_forall in H.
  specialize (H _ (assoc_In _ _ _ H1)). rewrite forallb_forall in H. specialize (H _ (assoc_In _ _ _ H2)). cbn [snd] in H.
  unfold same_decl in H. rewrite Ed, En, !String.eqb_refl in H. cbn [andb negb orb] in H.
  destruct (dv_ext v1), (dv_ext v2); try discriminate; [apply ports_eqb_eq; exact H|exact I].
Qed.

(* ------------------------------------------------------------------------------------------ module names identify modules *)
Lemma NoDup_map_nth_inj {A B} (f : A -> B) l i j a b : NoDup (map f l) -> nth_error l i = Some a -> nth_error l j = Some b -> f a = f b -> i = j.
Proof.
  intros Hnd Ha Hb E. rewrite NoDup_nth_error in Hnd. apply Hnd.
  - rewrite map_length. apply nth_error_Some. congruence.
  - rewrite !nth_error_map, Ha, Hb. cbn. f_equal. exact E.
Qed.

Section ExportPass.
Variable xi : xinfo.
Variable d : design.
Hypothesis Hwfs : wfs d.
Hypothesis Hna : no_arrays d.
Hypothesis Hres : resolved_design d.
Hypothesis Hxi : xinfo_ok xi d = true.

Lemma ex_names_inj k1 k2 m1 m2 : nth_mod d k1 = Ok m1 -> nth_mod d k2 = Ok m2 -> m_name m1 = m_name m2 -> k1 = k2.
Proof.
  intros H1 H2 E. destruct Hwfs as [_ [Hnd _]]. apply nth_mod_nth in H1. apply nth_mod_nth in H2.
  eapply NoDup_map_nth_inj; eassumption.
Qed.

Lemma ex_module_ok k m : nth_mod d k = Ok m -> module_ok d k m.
Proof. intros H. destruct Hwfs as [_ [_ Hm]]. apply Hm. apply nth_mod_nth. exact H. Qed.

Lemma ex_hier : forall k m x k', nth_mod d k = Ok m -> In x (m_insts m) -> i_of x = TMod k' ->
  (k' < k)%nat /\ exists m', nth_mod d k' = Ok m'.
Proof.
  intros k m x k' Hm Hx Ho. destruct (ex_module_ok k m Hm) as [_ [_ [_ Hi]]]. rewrite Forall_forall in Hi.
  destruct (Hi x Hx) as [Hlt [ports [Hp _]]]. rewrite Ho in *. split; [exact Hlt|]. unfold target_ports in Hp.
  destruct (nth_mod d k') as [m'|]; [eauto|discriminate].
Qed.

Lemma ex_devs : forall k m x dev ports, nth_mod d k = Ok m -> In x (m_insts m) -> i_of x = TDev dev ports ->
  exists v, assoc dev (x_devs xi) = Some v.
Proof. intros k m x dev ports Hm Hx Ho. destruct (xinfo_dev xi d k m x dev ports Hxi Hm Hx Ho) as [v [e [H _]]]. eauto. Qed.

(* one instance *)
Definition conn_exported (m : module) (c : name * sx) (pc : name * ptarget) : Prop :=
  fst pc = fst c /\ exists bits, xbits (snd c) = Ok bits /\ read_target (psigs m) (snd pc) = Ok (map (named (lname m)) bits).

Lemma ex_inst k m x : nth_mod d k = Ok m -> In x (m_insts m) ->
  exists pi, export_inst xi d m x = Ok pi /\ pi_name pi = i_name x /\
    Forall2 (conn_exported m) (i_conns x) (pi_conns pi) /\
    match i_of x with
    | TMod k' => exists mk, nth_mod d k' = Ok mk /\ pi_ref pi = PLocal (m_name mk) /\ pi_params pi = []
    | TDev dev _ => exists v, assoc dev (x_devs xi) = Some v /\ pi_ref pi = PExt (dv_dom v) (dv_name v) /\ pi_params pi = dv_params v
    end.
Proof.
  intros Hm Hx. pose proof (ex_module_ok k m Hm) as Hok. destruct Hok as [_ [Hnd [_ Hi]]]. rewrite Forall_forall in Hi.
  destruct (Hi x Hx) as [_ [ports [Hp [_ [Hc _]]]]]. unfold export_inst.
  assert (single x = true) as Hs.
  { pose proof (Hna k m (proj1 (nth_mod_nth _ _ _) Hm)) as H. rewrite forallb_forall in H. apply H. exact Hx. }
  rewrite Hs. cbn [check bind].
  assert (exists cs, traverse (fun c : name * sx => t <- export_target (leaf_name m) (snd c) ;; Ok (fst c, t)) (i_conns x) = Ok cs /\
            Forall2 (conn_exported m) (i_conns x) cs) as [cs [Hcs Fcs]].
  { assert (forall c, In c (i_conns x) -> exists pc, (t <- export_target (leaf_name m) (snd c) ;; Ok (fst c, t)) = Ok pc /\ conn_exported m c pc) as Hall.
    { intros c Hcin. rewrite Forall_forall in Hc. destruct (Hc c Hcin) as [w [cw [_ [_ [Hl _]]]]].
      destruct (export_conn_read m (snd c) Hnd (Hres k m x c (proj1 (nth_mod_nth _ _ _) Hm) Hx Hcin) Hl) as [t [bits [Ht [Hb Hr]]]].
      exists (fst c, t). rewrite Ht. cbn [bind]. split; [reflexivity|]. split; [reflexivity|]. exists bits. auto. }
    clear Hc. induction (i_conns x) as [|c l IH]; cbn [traverse]; [exists []; split; [reflexivity|constructor]|].
    destruct (Hall c (or_introl eq_refl)) as [pc [Hpc Hce]]. rewrite Hpc. cbn [bind].
    destruct IH as [cs [Hcs Fcs]]; [intros c' Hc'; apply Hall; right; exact Hc'|]. rewrite Hcs. cbn [bind].
    exists (pc :: cs). split; [reflexivity|constructor; assumption]. }
  destruct (i_of x) as [k'|dev dports] eqn:Eo.
  - destruct (ex_hier k m x k' Hm Hx Eo) as [_ [mk Hmk]]. rewrite Hmk. cbn [bind]. rewrite Hcs. cbn [bind].
    eexists. split; [reflexivity|]. cbn. split; [reflexivity|]. split; [exact Fcs|]. exists mk. auto.
  - destruct (ex_devs k m x dev dports Hm Hx Eo) as [v Hv]. rewrite Hv. cbn [ofopt bind]. rewrite Hcs. cbn [bind].
    eexists. split; [reflexivity|]. cbn. split; [reflexivity|]. split; [exact Fcs|]. exists v. auto.
Qed.

Definition inst_exported (m : module) (x : inst) (pi : pinst) : Prop :=
  export_inst xi d m x = Ok pi /\ pi_name pi = i_name x /\ Forall2 (conn_exported m) (i_conns x) (pi_conns pi).

Lemma ex_module k m : nth_mod d k = Ok m ->
  exists pm, export_module xi d m = Ok pm /\ pm_name pm = m_name m /\ pm_sigs pm = psigs m /\
    map fst (pm_ports pm) = map fst (m_ports m) /\ Forall2 (inst_exported m) (m_insts m) (pm_insts pm).
Proof.
  intros Hm. destruct (ex_module_ok k m Hm) as [Hn _]. unfold export_module.
  assert (negb (String.eqb (m_name m) "") = true) as ->.
  { apply negb_true_iff. apply not_true_is_false. intros E. apply String.eqb_eq in E. contradiction. }
  cbn [check bind].
  assert (exists is, traverse (export_inst xi d m) (m_insts m) = Ok is /\ Forall2 (inst_exported m) (m_insts m) is) as [is [His Fis]].
  { assert (forall x, In x (m_insts m) -> exists pi, inst_exported m x pi) as Hall.
    { intros x Hx. destruct (ex_inst k m x Hm Hx) as [pi [H1 [H2 [H3 _]]]]. exists pi. split; auto. }
    induction (m_insts m) as [|x l IH]; cbn [traverse]; [exists []; split; [reflexivity|constructor]|].
    destruct (Hall x (or_introl eq_refl)) as [pi Hpi]. rewrite (proj1 Hpi). cbn [bind].
    destruct IH as [is [His Fis]]; [intros y Hy; apply Hall; right; exact Hy|]. rewrite His. cbn [bind].
    exists (pi :: is). split; [reflexivity|constructor; assumption]. }
  rewrite His. cbn [bind]. eexists. split; [reflexivity|]. cbn. split; [reflexivity|]. split; [reflexivity|].
  split; [rewrite map_map; reflexivity|exact Fis].
Qed.

Definition mod_exported (k : nat) (pm : pmodule) : Prop := exists m, nth_mod d k = Ok m /\ export_module xi d m = Ok pm.

Lemma ex_mods : forall order seen, NoDup order -> (forall k, In k order -> exists m, nth_mod d k = Ok m) ->
  (forall k m, In k order -> nth_mod d k = Ok m -> ~ In (m_name m) seen) ->
  exists pms, export_mods xi d order seen = Ok pms /\ Forall2 mod_exported order pms.
Proof.
  induction order as [|k r IH]; intros seen Hnd Hm Hseen; cbn [export_mods]; [exists []; split; [reflexivity|constructor]|].
  destruct (Hm k (or_introl eq_refl)) as [m Hk]. rewrite Hk. cbn [bind].
  assert (negb (C01EElab.smem (m_name m) seen) = true) as ->.
  { apply negb_true_iff. apply not_true_is_false. intros E. unfold C01EElab.smem in E. apply existsb_eqb_In in E.
    apply (Hseen k m (or_introl eq_refl) Hk). exact E. }
  cbn [check bind]. destruct (ex_module k m Hk) as [pm [Hpm _]]. rewrite Hpm. cbn [bind].
  inversion Hnd as [|? ? Hnk Hnd']; subst.
  destruct (IH (m_name m :: seen) Hnd' (fun j Hj => Hm j (or_intror Hj))) as [pms [Hpms F]].
  { intros j mj Hj Hmj [E|Hin]; [|apply (Hseen j mj (or_intror Hj) Hmj Hin)].
    apply Hnk. rewrite (ex_names_inj k j m mj Hk Hmj E). exact Hj. }
  rewrite Hpms. cbn [bind]. exists (pm :: pms). split; [reflexivity|]. constructor; [exists m; auto|exact F].
Qed.

(* the export succeeds *)
Theorem export_ok : exists st pms, dfs xi d (S (Datatypes.length (d_mods d))) (d_top d) ([], []) = Ok st /\
  visit_inv xi d st /\ In (d_top d) (fst st) /\
  export_mods xi d (fst st) [] = Ok pms /\ Forall2 mod_exported (fst st) pms /\
  export_model xi d = Ok {| pk_domain := ""; pk_exts := snd st; pk_mods := pms |}.
Proof.
  assert (visit_inv xi d ([], [])) as Hinit.
  { constructor; cbn [fst snd]; try (intros; contradiction); try reflexivity; [constructor| |].
    - intros a k Ha. destruct a; discriminate.
    - intros k m x dev ports v e []. }
  destruct Hwfs as [Htop _].
  assert (exists m, nth_mod d (d_top d) = Ok m) as Hm.
  { unfold nth_mod. destruct (nth_error (d_mods d) (d_top d)) eqn:E; [cbn [ofopt]; eauto|]. apply nth_error_None in E. lia. }
  destruct (dfs_spec xi d ex_hier ex_devs (S (Datatypes.length (d_mods d))) (d_top d) ([], []) ltac:(lia) Hm Hinit) as [st [Hd [Hi [_ Hin]]]].
  destruct (ex_mods (fst st) [] (vi_nodup _ _ _ Hi) (vi_mods _ _ _ Hi) (fun _ _ _ _ H => H)) as [pms [Hp F]].
  exists st, pms. repeat (split; [assumption|]). unfold export_model. rewrite Hd. cbn [bind]. rewrite Hp. reflexivity.
Qed.
End ExportPass.
