(* Proofs/C01EProofsExport.v — export_model on an elaborated design (wfs, no arrays, resolved connections):
   it succeeds; read as the netlisters read it (Base/Package.v:read_target) every exported target gives back exactly the
   bits of the connection; the package read as a design (design_of_pkg) has the same nets; the package is well-formed. *)
From Coq Require Import String.
Require Import Hdl21.Base.PyInt Hdl21.Spec.PySlice Hdl21.Model.Slice Hdl21.Model.Resolve Hdl21.Base.Design
               Hdl21.Spec.Nets Hdl21.Spec.WfDesign Hdl21.Base.Package Hdl21.Base.PrimTable Hdl21.Spec.PkgWf
               Hdl21.Spec.C01ENets Hdl21.Model.Export Hdl21.Model.C01EElab
               Hdl21.Proofs.SliceProofs Hdl21.Proofs.ResolveProofs Hdl21.Proofs.ArraysProofs Hdl21.Proofs.ExportProofs
               Hdl21.Proofs.C01EProofsGraph Hdl21.Proofs.C01EProofsBase Hdl21.Proofs.C01EProofsSim Hdl21.Proofs.C01EProofsWfs
               Hdl21.Proofs.C01EProofsPass Hdl21.Proofs.C01EProofsNames Hdl21.Proofs.C01EProofsSlices Hdl21.Proofs.C01EProofsArrays
               Hdl21.Proofs.C01EProofsDfs Hdl21.Proofs.PkgWfProofs.
Open Scope Z_scope.

(* ------------------------------------------------------------------------------------------ one connection *)
Definition lname (m : module) (id : N) : name := match leaf_name m id with Ok s => s | Error _ => "" end.

Lemma seq_results_ok {A} (l : list A) : seq_results (map Ok l) = Ok l.
Proof. induction l as [|x l IH]; cbn [map seq_results]; [reflexivity|]. rewrite IH. reflexivity. Qed.

Lemma slice_inner_unit w b t : 0 <= b -> b < t -> t <= w ->
  slice_inner w (Sl (Some b) (Some t) None) = Ok {| top := t; bot := b; Slice.step := 1; width := t - b |}.
Proof.
  intros Hb Hbt Htw. unfold slice_inner, step_of. change (1 =? 0) with false. cbv iota.
  unfold py_start_stop. change (0 <? 1) with true. cbv iota. unfold norm_pos, clamp.
  assert ((b <? 0) = false) as -> by lia. assert ((t <? 0) = false) as -> by lia.
  replace (Z.max 0 (Z.min w b)) with b by lia. replace (Z.max 0 (Z.min w t)) with t by lia.
  unfold py_len. change (0 <? 1) with true. cbv iota. assert ((b <? t) = true) as -> by lia.
  replace ((t - b - 1) / 1 + 1) with (t - b) by (rewrite Z.div_1_r; lia).
  assert ((t - b <? 1) = false) as -> by lia. change (0 <? 1) with true. cbv iota. f_equal. f_equal; lia.
Qed.

Lemma export_flat m f : flat_wf f = true -> leaf_ok m (flat_leaf f) ->
  export_target (leaf_name m) (flat_sx f) = Ok (flat_ptarget (lname m) f).
Proof.
  intros Hwf [s [Hl _]]. assert (leaf_name m (fst (flat_leaf f)) = Ok s) as Hn by (unfold leaf_name; rewrite Hl; reflexivity).
  destruct f as [id w|id w b t]; cbn [flat_sx export_target flat_ptarget flat_leaf fst flat_wf] in *.
  - unfold lname. rewrite Hn. reflexivity.
  - rewrite slice_inner_unit by lia. cbn [bind Slice.step top bot]. unfold lname. rewrite Hn. reflexivity.
Qed.

Lemma export_resolved_ok m r : Forall (fun f => flat_wf f = true) (resolved_flats r) ->
  Forall (fun f => leaf_ok m (flat_leaf f)) (resolved_flats r) ->
  export_target (leaf_name m) (resolved_sx r) = Ok (export_resolved (lname m) r).
Proof.
  destruct r as [f|fs]; cbn [resolved_flats resolved_sx export_resolved]; intros Hwf Hl.
  - inversion Hwf; inversion Hl; subst. apply export_flat; assumption.
  - cbn [export_target]. rewrite map_map.
    assert (map (fun x => export_target (leaf_name m) (flat_sx x)) fs = map Ok (map (flat_ptarget (lname m)) fs)) as ->.
    { rewrite map_map. apply map_ext_in. intros f Hf. rewrite Forall_forall in Hwf, Hl. apply export_flat; auto. }
    rewrite seq_results_ok. reflexivity.
Qed.

(* the declared signals of the exported module: internal signals, then ports *)
Definition psigs (m : module) : list (name * Z) := m_sigs m ++ m_ports m.

Lemma sig_width_psigs m s w : NoDup (mod_names m) -> sig_width m s = Some w -> assoc s (psigs m) = Some w.
Proof.
  intros Hnd. unfold sig_width, psigs. rewrite assoc_app. destruct (assoc s (m_ports m)) as [wp|] eqn:Ep.
  - intros H; inversion H; subst. assert (assoc s (m_sigs m) = None) as ->; [|reflexivity].
    apply assoc_notin_None. intros Hin. unfold mod_names in Hnd. rewrite app_assoc in Hnd. apply NoDup_app_l in Hnd.
    apply (NoDup_app_disj _ _ s Hnd); [|exact Hin]. apply assoc_In in Ep. apply (in_map fst) in Ep. exact Ep.
  - intros ->. reflexivity.
Qed.

Lemma flat_declared_of_leaf m f : NoDup (mod_names m) -> flat_wf f = true -> leaf_ok m (flat_leaf f) ->
  flat_declared (psigs m) (lname m) f.
Proof.
  intros Hnd Hwf [s [Hl Hw]]. split; [exact Hwf|].
  assert (lname m (fst (flat_leaf f)) = s) as Hn by (unfold lname, leaf_name; rewrite Hl; reflexivity).
  destruct f as [id w|id w b t]; cbn [flat_leaf fst snd] in *; rewrite Hn; apply sig_width_psigs; assumption.
Qed.

(* what the netlisters read from an exported connection *)
Theorem export_conn_read m cx : NoDup (mod_names m) -> conn_resolved cx -> Forall (leaf_ok m) (sx_leaves cx) ->
  exists t bits, export_target (leaf_name m) cx = Ok t /\ xbits cx = Ok bits /\
                 read_target (psigs m) t = Ok (map (named (lname m)) bits).
Proof.
  intros Hnd [r [-> Hwf]] Hl. rewrite sx_leaves_resolved in Hl.
  assert (Forall (fun f => leaf_ok m (flat_leaf f)) (resolved_flats r)) as Hl'.
  { apply Forall_forall. intros f Hf. rewrite Forall_forall in Hl. apply Hl. apply in_map. exact Hf. }
  exists (export_resolved (lname m) r), (flats_bits (resolved_flats r)).
  split; [apply export_resolved_ok; assumption|]. split; [apply xbits_resolved; exact Hwf|].
  apply export_read. apply Forall_forall. intros f Hf. rewrite Forall_forall in Hwf, Hl'. apply flat_declared_of_leaf; auto.
Qed.

(* ------------------------------------------------------------------------------------------ xinfo_ok, taken apart *)
Lemma ports_eqb_eq a : forall b, ports_eqb a b = true -> a = b.
Proof.
  induction a as [|[n w] a IH]; intros [|[n' w'] b]; cbn [ports_eqb fst snd]; intros H; try discriminate; [reflexivity|].
  apply andb_prop in H. destruct H as [H H3]. apply andb_prop in H. destruct H as [H1 H2].
  apply String.eqb_eq in H1. apply Z.eqb_eq in H2. rewrite (IH b H3). subst. reflexivity.
Qed.

Lemma xinfo_dev xi d k m x dev ports : xinfo_ok xi d = true -> nth_mod d k = Ok m -> In x (m_insts m) -> i_of x = TDev dev ports ->
  exists v e, assoc dev (x_devs xi) = Some v /\ dev_string v = dev /\
    forallb (fun pw : name * Z => 1 <=? snd pw) ports = true /\ NoDup (map fst ports) /\
    dev_decl v = Some e /\ ext_ports e = ports /\
    (forall e', dv_ext v = Some e' -> px_domain e' = dv_dom v /\ px_name e' = dv_name v).
Proof.
  unfold xinfo_ok. intros H Hm Hx Ho. apply andb_prop in H. destruct H as [_ H]. rewrite forallb_forall in H.
  apply nth_mod_nth in Hm. apply nth_error_In in Hm. specialize (H m Hm). rewrite forallb_forall in H. specialize (H x Hx).
  rewrite Ho in H. unfold dev_ok in H. destruct (assoc dev (x_devs xi)) as [v|]; [|discriminate].
  repeat (apply andb_prop in H; destruct H as [H ?]).
  destruct (dev_decl v) as [e|] eqn:Ed; [|discriminate]. exists v, e. split; [reflexivity|].
  split; [apply String.eqb_eq; exact H|]. split; [assumption|]. split; [apply nodup_names_NoDup; assumption|]. split; [exact Ed|].
  split; [apply ports_eqb_eq; assumption|]. intros e' He'. rewrite He' in H1. apply andb_prop in H1. destruct H1 as [A B].
  split; apply String.eqb_eq; assumption.
Qed.

Lemma xinfo_consistent xi d dev1 v1 dev2 v2 : xinfo_ok xi d = true -> assoc dev1 (x_devs xi) = Some v1 -> assoc dev2 (x_devs xi) = Some v2 ->
  dv_dom v1 = dv_dom v2 -> dv_name v1 = dv_name v2 ->
  match dv_ext v1, dv_ext v2 with Some e, Some f => ext_ports e = ext_ports f | None, None => True | _, _ => False end.
Proof.
  unfold xinfo_ok. intros H H1 H2 Ed En. apply andb_prop in H. destruct H as [H _]. rewrite forallb_forall in H.
  specialize (H _ (assoc_In _ _ _ H1)). rewrite forallb_forall in H. specialize (H _ (assoc_In _ _ _ H2)). cbn [snd] in H.
  unfold same_decl in H. rewrite Ed, En, !String.eqb_refl in H. cbn [andb negb orb] in H.
  destruct (dv_ext v1), (dv_ext v2); try discriminate; [apply ports_eqb_eq; exact H|exact I].
Qed.

(* ------------------------------------------------------------------------------------------ module names identify modules *)
Lemma NoDup_map_nth_inj {A B} (f : A -> B) l i j a b : NoDup (map f l) -> nth_error l i = Some a -> nth_error l j = Some b -> f a = f b -> i = j.
Proof.
  intros Hnd Ha Hb E. rewrite NoDup_nth_error in Hnd. apply Hnd.
  - rewrite map_length. apply nth_error_Some. congruence.
  - rewrite !nth_error_map, Ha, Hb. cbn. f_equal. exact E.
Qed.

Section ExportPass.
Variable xi : xinfo.
Variable d : design.
Hypothesis Hwfs : wfs d.
Hypothesis Hna : no_arrays d.
Hypothesis Hres : resolved_design d.
Hypothesis Hxi : xinfo_ok xi d = true.

Lemma ex_names_inj k1 k2 m1 m2 : nth_mod d k1 = Ok m1 -> nth_mod d k2 = Ok m2 -> m_name m1 = m_name m2 -> k1 = k2.
Proof.
  intros H1 H2 E. destruct Hwfs as [_ [Hnd _]]. apply nth_mod_nth in H1. apply nth_mod_nth in H2.
  eapply NoDup_map_nth_inj; eassumption.
Qed.

Lemma ex_module_ok k m : nth_mod d k = Ok m -> module_ok d k m.
Proof. intros H. destruct Hwfs as [_ [_ Hm]]. apply Hm. apply nth_mod_nth. exact H. Qed.

Lemma ex_hier : forall k m x k', nth_mod d k = Ok m -> In x (m_insts m) -> i_of x = TMod k' ->
  (k' < k)%nat /\ exists m', nth_mod d k' = Ok m'.
Proof.
  intros k m x k' Hm Hx Ho. destruct (ex_module_ok k m Hm) as [_ [_ [_ Hi]]]. rewrite Forall_forall in Hi.
  destruct (Hi x Hx) as [Hlt [ports [Hp _]]]. rewrite Ho in *. split; [exact Hlt|]. unfold target_ports in Hp.
  destruct (nth_mod d k') as [m'|]; [eauto|discriminate].
Qed.

Lemma ex_devs : forall k m x dev ports, nth_mod d k = Ok m -> In x (m_insts m) -> i_of x = TDev dev ports ->
  exists v, assoc dev (x_devs xi) = Some v.
Proof. intros k m x dev ports Hm Hx Ho. destruct (xinfo_dev xi d k m x dev ports Hxi Hm Hx Ho) as [v [e [H _]]]. eauto. Qed.

(* one instance *)
Definition conn_exported (m : module) (c : name * sx) (pc : name * ptarget) : Prop :=
  fst pc = fst c /\ exists bits, xbits (snd c) = Ok bits /\ read_target (psigs m) (snd pc) = Ok (map (named (lname m)) bits).

Lemma ex_inst k m x : nth_mod d k = Ok m -> In x (m_insts m) ->
  exists pi, export_inst xi d m x = Ok pi /\ pi_name pi = i_name x /\
    Forall2 (conn_exported m) (i_conns x) (pi_conns pi) /\
    match i_of x with
    | TMod k' => exists mk, nth_mod d k' = Ok mk /\ pi_ref pi = PLocal (m_name mk) /\ pi_params pi = []
    | TDev dev _ => exists v, assoc dev (x_devs xi) = Some v /\ pi_ref pi = PExt (dv_dom v) (dv_name v) /\ pi_params pi = dv_params v
    end.
Proof.
  intros Hm Hx. pose proof (ex_module_ok k m Hm) as Hok. destruct Hok as [_ [Hnd [_ Hi]]]. rewrite Forall_forall in Hi.
  destruct (Hi x Hx) as [_ [ports [Hp [_ [Hc _]]]]]. unfold export_inst.
  assert (single x = true) as Hs.
  { pose proof (Hna k m (proj1 (nth_mod_nth _ _ _) Hm)) as H. rewrite forallb_forall in H. apply H. exact Hx. }
  rewrite Hs. cbn [check bind].
  assert (exists cs, traverse (fun c : name * sx => t <- export_target (leaf_name m) (snd c) ;; Ok (fst c, t)) (i_conns x) = Ok cs /\
            Forall2 (conn_exported m) (i_conns x) cs) as [cs [Hcs Fcs]].
  { assert (forall c, In c (i_conns x) -> exists pc, (t <- export_target (leaf_name m) (snd c) ;; Ok (fst c, t)) = Ok pc /\ conn_exported m c pc) as Hall.
    { intros c Hcin. rewrite Forall_forall in Hc. destruct (Hc c Hcin) as [w [cw [_ [_ [Hl _]]]]].
      destruct (export_conn_read m (snd c) Hnd (Hres k m x c (proj1 (nth_mod_nth _ _ _) Hm) Hx Hcin) Hl) as [t [bits [Ht [Hb Hr]]]].
      exists (fst c, t). rewrite Ht. cbn [bind]. split; [reflexivity|]. split; [reflexivity|]. exists bits. auto. }
    clear Hc. induction (i_conns x) as [|c l IH]; cbn [traverse]; [exists []; split; [reflexivity|constructor]|].
    destruct (Hall c (or_introl eq_refl)) as [pc [Hpc Hce]]. rewrite Hpc. cbn [bind].
    destruct IH as [cs [Hcs Fcs]]; [intros c' Hc'; apply Hall; right; exact Hc'|]. rewrite Hcs. cbn [bind].
    exists (pc :: cs). split; [reflexivity|constructor; assumption]. }
  destruct (i_of x) as [k'|dev dports] eqn:Eo.
  - destruct (ex_hier k m x k' Hm Hx Eo) as [_ [mk Hmk]]. rewrite Hmk. cbn [bind]. rewrite Hcs. cbn [bind].
    eexists. split; [reflexivity|]. cbn. split; [reflexivity|]. split; [exact Fcs|]. exists mk. auto.
  - destruct (ex_devs k m x dev dports Hm Hx Eo) as [v Hv]. rewrite Hv. cbn [ofopt bind]. rewrite Hcs. cbn [bind].
    eexists. split; [reflexivity|]. cbn. split; [reflexivity|]. split; [exact Fcs|]. exists v. auto.
Qed.

Definition inst_exported (m : module) (x : inst) (pi : pinst) : Prop :=
  export_inst xi d m x = Ok pi /\ pi_name pi = i_name x /\ Forall2 (conn_exported m) (i_conns x) (pi_conns pi).

Lemma ex_module k m : nth_mod d k = Ok m ->
  exists pm, export_module xi d m = Ok pm /\ pm_name pm = m_name m /\ pm_sigs pm = psigs m /\
    map fst (pm_ports pm) = map fst (m_ports m) /\ Forall2 (inst_exported m) (m_insts m) (pm_insts pm).
Proof.
  intros Hm. destruct (ex_module_ok k m Hm) as [Hn _]. unfold export_module.
  assert (negb (String.eqb (m_name m) "") = true) as ->.
  { apply negb_true_iff. apply not_true_is_false. intros E. apply String.eqb_eq in E. contradiction. }
  cbn [check bind].
  assert (exists is, traverse (export_inst xi d m) (m_insts m) = Ok is /\ Forall2 (inst_exported m) (m_insts m) is) as [is [His Fis]].
  { assert (forall x, In x (m_insts m) -> exists pi, inst_exported m x pi) as Hall.
    { intros x Hx. destruct (ex_inst k m x Hm Hx) as [pi [H1 [H2 [H3 _]]]]. exists pi. split; auto. }
    induction (m_insts m) as [|x l IH]; cbn [traverse]; [exists []; split; [reflexivity|constructor]|].
    destruct (Hall x (or_introl eq_refl)) as [pi Hpi]. rewrite (proj1 Hpi). cbn [bind].
    destruct IH as [is [His Fis]]; [intros y Hy; apply Hall; right; exact Hy|]. rewrite His. cbn [bind].
    exists (pi :: is). split; [reflexivity|constructor; assumption]. }
  rewrite His. cbn [bind]. eexists. split; [reflexivity|]. cbn. split; [reflexivity|]. split; [reflexivity|].
  split; [rewrite map_map; reflexivity|exact Fis].
Qed.

Definition mod_exported (k : nat) (pm : pmodule) : Prop := exists m, nth_mod d k = Ok m /\ export_module xi d m = Ok pm.

Lemma ex_mods : forall order seen, NoDup order -> (forall k, In k order -> exists m, nth_mod d k = Ok m) ->
  (forall k m, In k order -> nth_mod d k = Ok m -> ~ In (m_name m) seen) ->
  exists pms, export_mods xi d order seen = Ok pms /\ Forall2 mod_exported order pms.
Proof.
  induction order as [|k r IH]; intros seen Hnd Hm Hseen; cbn [export_mods]; [exists []; split; [reflexivity|constructor]|].
  destruct (Hm k (or_introl eq_refl)) as [m Hk]. rewrite Hk. cbn [bind].
  assert (negb (C01EElab.smem (m_name m) seen) = true) as ->.
  { apply negb_true_iff. apply not_true_is_false. intros E. unfold C01EElab.smem in E. apply existsb_eqb_In in E.
    apply (Hseen k m (or_introl eq_refl) Hk). exact E. }
  cbn [check bind]. destruct (ex_module k m Hk) as [pm [Hpm _]]. rewrite Hpm. cbn [bind].
  inversion Hnd as [|? ? Hnk Hnd']; subst.
  destruct (IH (m_name m :: seen) Hnd' (fun j Hj => Hm j (or_intror Hj))) as [pms [Hpms F]].
  { intros j mj Hj Hmj [E|Hin]; [|apply (Hseen j mj (or_intror Hj) Hmj Hin)].
    apply Hnk. rewrite (ex_names_inj k j m mj Hk Hmj E). exact Hj. }
  rewrite Hpms. cbn [bind]. exists (pm :: pms). split; [reflexivity|]. constructor; [exists m; auto|exact F].
Qed.

(* the export succeeds *)
Theorem export_ok : exists st pms, dfs xi d (S (Datatypes.length (d_mods d))) (d_top d) ([], []) = Ok st /\
  visit_inv xi d st /\ In (d_top d) (fst st) /\
  export_mods xi d (fst st) [] = Ok pms /\ Forall2 mod_exported (fst st) pms /\
  export_model xi d = Ok {| pk_domain := ""; pk_exts := snd st; pk_mods := pms |}.
Proof.
  assert (visit_inv xi d ([], [])) as Hinit.
  { constructor; cbn [fst snd]; try (intros; contradiction); try reflexivity; [constructor| |].
    - intros a k Ha. destruct a; discriminate.
    - intros k m x dev ports v e []. }
  destruct Hwfs as [Htop _].
  assert (exists m, nth_mod d (d_top d) = Ok m) as Hm.
  { unfold nth_mod. destruct (nth_error (d_mods d) (d_top d)) eqn:E; [cbn [ofopt]; eauto|]. apply nth_error_None in E. lia. }
  destruct (dfs_spec xi d ex_hier ex_devs (S (Datatypes.length (d_mods d))) (d_top d) ([], []) ltac:(lia) Hm Hinit) as [st [Hd [Hi [_ Hin]]]].
  destruct (ex_mods (fst st) [] (vi_nodup _ _ _ Hi) (vi_mods _ _ _ Hi) (fun _ _ _ _ H => H)) as [pms [Hp F]].
  exists st, pms. repeat (split; [assumption|]). unfold export_model. rewrite Hd. cbn [bind]. rewrite Hp. reflexivity.
Qed.
End ExportPass.

(* ------------------------------------------------------------------------------------------ reading the package back *)
Lemma find_pmod_spec ms nm : forall k0 a pm, NoDup (map pm_name ms) -> nth_error ms a = Some pm -> pm_name pm = nm ->
  find_pmod ms nm k0 = Some (k0 + a)%nat.
Proof.
  induction ms as [|m ms IH]; intros k0 a pm Hnd Ha Hn; [destruct a; discriminate|]. cbn [find_pmod].
  cbn [map] in Hnd. inversion Hnd as [|? ? Hm Hnd']; subst.
  destruct a as [|a]; cbn [nth_error] in Ha.
  - inversion Ha; subst. rewrite String.eqb_refl. f_equal. lia.
  - destruct (String.eqb (pm_name m) (pm_name pm)) eqn:E.
    + exfalso. apply String.eqb_eq in E. apply Hm. rewrite E. apply in_map. eapply nth_error_In. exact Ha.
    + rewrite (IH (S k0) a pm Hnd' Ha eq_refl). f_equal. lia.
Qed.

Lemma index_of_ge s sigs : forall k0 idx, index_of s sigs k0 = Some idx -> (k0 <= idx)%N.
Proof.
  induction sigs as [|[s' w'] sigs IH]; intros k0 idx H; cbn [index_of] in H; [discriminate|].
  destruct (String.eqb s s'); [inversion H; lia|]. apply IH in H. lia.
Qed.

Lemma index_of_some s sigs : forall k0 w, assoc s sigs = Some w ->
  exists idx, index_of s sigs k0 = Some idx /\ assocN idx (number_leaves sigs k0) = Some (LSig s).
Proof.
  induction sigs as [|[s' w'] sigs IH]; intros k0 w H; cbn [assoc index_of number_leaves] in *; [discriminate|].
  destruct (String.eqb s s') eqn:E.
  - apply String.eqb_eq in E. subst s'. exists k0. split; [reflexivity|]. cbn [assocN]. rewrite N.eqb_refl. reflexivity.
  - destruct (IH (k0 + 1)%N w H) as [idx [Hi Hl]]. exists idx. split; [exact Hi|]. cbn [assocN].
    pose proof (index_of_ge _ _ _ _ Hi). assert (N.eqb idx k0 = false) as -> by (apply N.eqb_neq; lia). exact Hl.
Qed.

Definition bit_readback (sigs : list (name * Z)) (sb : sbit) (b : bit) : Prop :=
  snd b = snd sb /\ assocN (fst b) (number_leaves sigs 0%N) = Some (LSig (fst sb)).

Lemma xbits_onebit id w j : 0 <= j < w -> xbits (XSlice (XSig id w) (Idx j)) = Ok [(id, j)].
Proof.
  intros Hj. cbn [xbits]. destruct (w <? 1) eqn:E; [lia|]. cbn [bind]. rewrite sig_bits_len by lia.
  unfold sel. assert ((- w <=? j) && (j <? w) = true) as -> by lia. cbn [bind]. rewrite Z.mod_small by lia.
  unfold select. cbn [traverse]. unfold sig_bits. rewrite pick_map.
  destruct (pick_ok (iota (Z.to_nat w) 0 1) j) as [x [Hp Hn]]; [unfold zlen; rewrite iota_length; lia|].
  rewrite Hp. rewrite iota_nth in Hn by lia. inversion Hn; subst. cbn [bind]. f_equal. f_equal. f_equal. lia.
Qed.

Lemma target_sx_spec sigs t sbits : read_target sigs t = Ok sbits ->
  exists cx bits', target_sx sigs t = Ok cx /\ xbits cx = Ok bits' /\ Forall2 (bit_readback sigs) sbits bits'.
Proof.
  intros Hr. unfold target_sx. rewrite Hr. cbn [bind]. pose proof (read_inside sigs t sbits Hr) as Hin. clear Hr.
  assert (exists parts bits', traverse (sbit_sx sigs) sbits = Ok parts /\ cat_results (map xbits parts) = Ok bits' /\
            Forall2 (bit_readback sigs) sbits bits') as [parts [bits' [Hp [Hb F]]]].
  { induction sbits as [|[s j] l IH]; cbn [traverse]; [exists [], []; repeat split; constructor|].
    destruct (Hin s j (or_introl eq_refl)) as [w [Hw Hj]]. destruct (index_of_some s sigs 0%N w Hw) as [idx [Hi Hl]].
    unfold sbit_sx at 1. cbn [fst snd]. rewrite Hi, Hw. cbn [ofopt bind].
    destruct IH as [parts [bits' [Hp [Hb F]]]]; [intros s' k' H'; apply Hin; right; exact H'|]. rewrite Hp. cbn [bind].
    exists (XSlice (XSig idx w) (Idx j) :: parts), ((idx, j) :: bits'). split; [reflexivity|]. cbn [map cat_results].
    rewrite xbits_onebit by exact Hj. cbn [bind]. rewrite Hb. cbn [bind app]. split; [reflexivity|].
    constructor; [split; [reflexivity|exact Hl]|exact F]. }
  rewrite Hp. cbn [bind]. exists (XConcat parts), bits'. split; [reflexivity|]. split; [exact Hb|exact F].
Qed.

Fixpoint pos_of (k : nat) (l : list nat) (a : nat) : option nat :=
  match l with [] => None | j :: r => if Nat.eqb k j then Some a else pos_of k r (S a) end.

Lemma pos_of_nth k : forall l a b, pos_of k l a = Some b -> exists c, b = (a + c)%nat /\ nth_error l c = Some k.
Proof.
  induction l as [|j r IH]; intros a b H; cbn [pos_of] in H; [discriminate|].
  destruct (Nat.eqb k j) eqn:E.
  - apply Nat.eqb_eq in E. subst. inversion H; subst. exists 0%nat. split; [lia|reflexivity].
  - destruct (IH _ _ H) as [c [Hb Hc]]. exists (S c). split; [lia|exact Hc].
Qed.

Lemma nth_pos_of k : forall l a c, NoDup l -> nth_error l c = Some k -> pos_of k l a = Some (a + c)%nat.
Proof.
  induction l as [|j r IH]; intros a c Hnd Hc; [destruct c; discriminate|]. cbn [pos_of]. inversion Hnd as [|? ? Hj Hnd']; subst.
  destruct c as [|c]; cbn [nth_error] in Hc.
  - inversion Hc; subst. rewrite Nat.eqb_refl. f_equal. lia.
  - destruct (Nat.eqb k j) eqn:E; [apply Nat.eqb_eq in E; subst; exfalso; apply Hj; eapply nth_error_In; exact Hc|].
    rewrite (IH (S a) c Hnd' Hc). f_equal. lia.
Qed.

Section Readback.
Variable xi : xinfo.
Variable d : design.
Hypothesis Hwfs : wfs d.
Hypothesis Hna : no_arrays d.
Hypothesis Hres : resolved_design d.
Hypothesis Hxi : xinfo_ok xi d = true.
Variable st : visit.
Variable pms : list pmodule.
Hypothesis Hinv : visit_inv xi d st.
Hypothesis Htop : In (d_top d) (fst st).
Hypothesis Hpms : Forall2 (mod_exported xi d) (fst st) pms.

Let order := fst st.
Let p := {| pk_domain := ""; pk_exts := snd st; pk_mods := pms |}.
Let mu (k : nat) : option nat := pos_of k order 0.

Lemma rb_pm_at a k : nth_error order a = Some k ->
  exists m pm, nth_mod d k = Ok m /\ nth_error pms a = Some pm /\ export_module xi d m = Ok pm.
Proof.
  intros Ha. destruct (Forall2_nth _ _ _ Hpms a k Ha) as [pm [Hpm [m [Hm He]]]]. exists m, pm. auto.
Qed.

Lemma rb_names_nodup : NoDup (map pm_name pms).
Proof.
  apply NoDup_nth_error. intros i j Hi Hij. rewrite map_length in Hi. rewrite !nth_error_map in Hij.
  destruct (nth_error pms i) as [pi|] eqn:Ei; [|apply nth_error_None in Ei; lia].
  destruct (nth_error pms j) as [pj|] eqn:Ej; [|discriminate]. cbn in Hij. inversion Hij as [En].
  destruct (Forall2_nth_rev _ _ _ Hpms i pi Ei) as [ki [Hki [mi [Hmi Hei]]]].
  destruct (Forall2_nth_rev _ _ _ Hpms j pj Ej) as [kj [Hkj [mj [Hmj Hej]]]].
  destruct (ex_module xi d Hwfs Hna Hres Hxi ki mi Hmi) as [pi' [Hpi' [Hni _]]].
  destruct (ex_module xi d Hwfs Hna Hres Hxi kj mj Hmj) as [pj' [Hpj' [Hnj _]]].
  rewrite Hei in Hpi'. inversion Hpi'; subst pi'. rewrite Hej in Hpj'. inversion Hpj'; subst pj'.
  assert (ki = kj) as Ek by (eapply (ex_names_inj d Hwfs); try eassumption; congruence). subst kj.
  pose proof (vi_nodup _ _ _ Hinv) as Hnd. rewrite NoDup_nth_error in Hnd. apply Hnd; [apply nth_error_Some; congruence|]. congruence.
Qed.

Lemma rb_find_local a k m : nth_error order a = Some k -> nth_mod d k = Ok m -> find_pmod pms (m_name m) 0 = Some a.
Proof.
  intros Ha Hm. destruct (rb_pm_at a k Ha) as [m' [pm [Hm' [Hpm He]]]]. rewrite Hm in Hm'. inversion Hm'; subst m'.
  destruct (ex_module xi d Hwfs Hna Hres Hxi k m Hm) as [pm' [Hpm' [Hn _]]]. rewrite He in Hpm'. inversion Hpm'; subst pm'.
  rewrite (find_pmod_spec pms (m_name m) 0 a pm rb_names_nodup Hpm Hn). reflexivity.
Qed.

(* the declaration an external reference resolves to *)
Lemma rb_ext_lookup k m x dev ports v : In k order -> nth_mod d k = Ok m -> In x (m_insts m) -> i_of x = TDev dev ports ->
  assoc dev (x_devs xi) = Some v ->
  exists e, ext_lookup prims_ext p (dv_dom v) (dv_name v) = Some e /\ ext_ports e = ports /\ dev_string v = dev.
Proof.
  intros Hk Hm Hx Ho Hv. destruct (xinfo_dev xi d k m x dev ports Hxi Hm Hx Ho) as [v' [e [Hv' [Hds [_ [_ [Hdecl [Hports Hdn]]]]]]]].
  rewrite Hv in Hv'. inversion Hv'; subst v'. unfold ext_lookup. cbn [pk_exts p].
  destruct (find_ext (snd st) (dv_dom v) (dv_name v)) as [e2|] eqn:Ef.
  - (* a declaration of the package under this (domain, name): it is this device's, up to its ports *)
    assert (In e2 (snd st) /\ px_domain e2 = dv_dom v /\ px_name e2 = dv_name v) as [Hin [Hd2 Hn2]].
    { clear - Ef. induction (snd st) as [|y l IH]; cbn [find_ext] in Ef; [discriminate|].
      destruct (String.eqb (px_domain y) (dv_dom v) && String.eqb (px_name y) (dv_name v)) eqn:E.
      - inversion Ef; subst. apply andb_prop in E. destruct E as [E1 E2]. apply String.eqb_eq in E1. apply String.eqb_eq in E2.
        split; [left; reflexivity|auto].
      - destruct (IH Ef) as [H1 H2]. split; [right; exact H1|exact H2]. }
    destruct (vi_exts_from _ _ _ Hinv e2 Hin) as [k2 [m2 [x2 [dev2 [ports2 [v2 [Hm2 [Hx2 [Ho2 [Hv2 He2]]]]]]]]]].
    destruct (xinfo_dev xi d k2 m2 x2 dev2 ports2 Hxi Hm2 Hx2 Ho2) as [v2' [e2' [Hv2' [_ [_ [_ [Hdecl2 [Hports2 Hdn2]]]]]]]].
    rewrite Hv2 in Hv2'. inversion Hv2'; subst v2'. destruct (Hdn2 e2 He2) as [Hd2' Hn2'].
    pose proof (xinfo_consistent xi d dev v dev2 v2 Hxi Hv Hv2 ltac:(congruence) ltac:(congruence)) as Hc.
    rewrite He2 in Hc. destruct (dv_ext v) as [e1|] eqn:E1; [|destruct Hc].
    exists e2. split; [reflexivity|]. split; [|exact Hds]. unfold dev_decl in Hdecl. rewrite E1 in Hdecl. inversion Hdecl; subst e1. congruence.
  - destruct (dv_ext v) as [e1|] eqn:E1.
    + (* its own declaration was collected by the traversal *)
      exfalso. pose proof (vi_covers _ _ _ Hinv k m x dev ports v e1 Hk Hm Hx Ho Hv E1) as Hc. destruct (Hdn e1 eq_refl) as [Hd1 Hn1].
      clear - Hc Ef Hd1 Hn1. unfold ext_mem in Hc. apply existsb_exists in Hc. destruct Hc as [y [Hy E]].
      apply andb_prop in E. destruct E as [Ea Eb]. apply String.eqb_eq in Ea. apply String.eqb_eq in Eb.
      induction (snd st) as [|z l IH]; [destruct Hy|]. cbn [find_ext] in Ef.
      destruct (String.eqb (px_domain z) (dv_dom v) && String.eqb (px_name z) (dv_name v)) eqn:E; [discriminate|].
      destruct Hy as [->|Hy]; [|apply IH; assumption].
      rewrite <- Ea, <- Eb, Hd1, Hn1, !String.eqb_refl in E. discriminate.
    + unfold dev_decl in Hdecl. rewrite E1 in Hdecl. exists e. auto.
Qed.

Definition conn_readback (m : module) (c c' : name * sx) : Prop :=
  fst c' = fst c /\ exists bits bits', xbits (snd c) = Ok bits /\ xbits (snd c') = Ok bits' /\
    Forall2 (bit_readback (psigs m)) (map (named (lname m)) bits) bits'.

Definition inst_readback (m : module) (x x' : inst) : Prop :=
  i_name x' = i_name x /\ i_n x' = 0 /\ tgt_rel mu (i_of x) (i_of x') /\ Forall2 (conn_readback m) (i_conns x) (i_conns x').

Definition mod_readback (m m' : module) : Prop :=
  m_name m' = m_name m /\ m_ports m' = m_ports m /\ m_sigs m' = m_sigs m /\ m_leaves m' = number_leaves (psigs m) 0%N /\
  Forall2 (inst_readback m) (m_insts m) (m_insts m').

Lemma rb_inst a k m x pi pm : nth_error order a = Some k -> nth_mod d k = Ok m -> In x (m_insts m) ->
  inst_exported xi d m x pi -> pm_sigs pm = psigs m ->
  exists x', pinst_inst prims_ext p pm pi = Ok x' /\ inst_readback m x x'.
Proof.
  intros Ha Hm Hx [Hex [Hname Fc]] Hsigs. unfold pinst_inst.
  destruct (ex_inst xi d Hwfs Hna Hres Hxi k m x Hm Hx) as [pi' [Hpi' [_ [_ Href]]]]. rewrite Hex in Hpi'. inversion Hpi'; subst pi'.
  assert (exists t, pinst_target prims_ext p pi = Ok t /\ tgt_rel mu (i_of x) t) as [t [Ht Hrel]].
  { unfold pinst_target. destruct (i_of x) as [k'|dev ports] eqn:Eo.
    - destruct Href as [mk [Hmk [Hr _]]]. rewrite Hr.
      destruct (vi_closed _ _ _ Hinv a k Ha k') as [b [Hb Hnb]]; [exists m, x; auto|].
      cbn [pk_mods p]. rewrite (rb_find_local b k' mk Hnb Hmk). cbn [ofopt bind]. exists (TMod b). split; [reflexivity|].
      cbn [tgt_rel]. unfold mu. rewrite (nth_pos_of k' order 0 b (vi_nodup _ _ _ Hinv) Hnb). reflexivity.
    - destruct Href as [v [Hv [Hr Hp]]]. rewrite Hr.
      destruct (rb_ext_lookup k m x dev ports v (nth_error_In _ _ Ha) Hm Hx Eo Hv) as [e [He [Hports Hds]]].
      unfold ext_lookup in He. rewrite He. cbn [ofopt bind]. eexists. split; [reflexivity|]. cbn [tgt_rel].
      split; [rewrite Hp; symmetry; exact Hds|symmetry; exact Hports]. }
  rewrite Ht. cbn [bind].
  assert (exists cs, traverse (fun c : name * ptarget => x0 <- target_sx (pm_sigs pm) (snd c) ;; Ok (fst c, x0)) (pi_conns pi) = Ok cs /\
            Forall2 (conn_readback m) (i_conns x) cs) as [cs [Hcs Fcs]].
  { clear - Fc Hsigs. induction Fc as [|c pc l pl [Hfst [bits [Hb Hr]]] _ IH]; cbn [traverse]; [exists []; split; [reflexivity|constructor]|].
    rewrite Hsigs. destruct (target_sx_spec _ _ _ Hr) as [cx [bits' [Hcx [Hb' F]]]]. rewrite Hcx. cbn [bind].
    destruct IH as [cs [Hcs Fcs]]. rewrite Hsigs in Hcs. rewrite Hcs. cbn [bind]. exists ((fst pc, cx) :: cs). split; [reflexivity|].
    constructor; [|exact Fcs]. split; [exact Hfst|]. exists bits, bits'. auto. }
  rewrite Hcs. cbn [bind]. eexists. split; [reflexivity|]. split; [exact Hname|]. split; [reflexivity|]. split; [exact Hrel|exact Fcs].
Qed.

Lemma assoc_nodup_In {A} k (v : A) l : NoDup (map fst l) -> In (k, v) l -> assoc k l = Some v.
Proof.
  induction l as [|[k' v'] l IH]; cbn [map fst assoc]; intros Hnd Hin; [destruct Hin|]. inversion Hnd as [|? ? Hn Hnd']; subst.
  destruct Hin as [E|Hin]; [inversion E; subst; rewrite String.eqb_refl; reflexivity|].
  destruct (String.eqb k k') eqn:E; [|apply IH; assumption]. apply String.eqb_eq in E. subst. exfalso. apply Hn.
  apply (in_map fst) in Hin. exact Hin.
Qed.

Lemma rb_module a k : nth_error order a = Some k ->
  exists m pm m', nth_mod d k = Ok m /\ nth_error pms a = Some pm /\ pm_name pm = m_name m /\
                  pmodule_module prims_ext p pm = Ok m' /\ mod_readback m m'.
Proof.
  intros Ha. destruct (rb_pm_at a k Ha) as [m [pm [Hm [Hpm He]]]]. exists m, pm.
  destruct (ex_module xi d Hwfs Hna Hres Hxi k m Hm) as [pm' [Hpm' [Hn [Hsigs [Hports Fi]]]]]. rewrite He in Hpm'. inversion Hpm'; subst pm'.
  pose proof (ex_module_ok d Hwfs k m Hm) as [_ [Hnd _]].
  assert (NoDup (map fst (m_ports m))) as Hndp by (unfold mod_names in Hnd; apply (NoDup_app_l _ _ Hnd)).
  unfold pmodule_module.
  assert (exists is, traverse (pinst_inst prims_ext p pm) (pm_insts pm) = Ok is /\ Forall2 (inst_readback m) (m_insts m) is) as [is [His Fis]].
  { assert (forall x pi, In x (m_insts m) -> inst_exported xi d m x pi -> exists x', pinst_inst prims_ext p pm pi = Ok x' /\ inst_readback m x x') as Hone.
    { intros x pi Hx Hpi. eapply rb_inst; eassumption. }
    clear - Fi Hone. induction Fi as [|x pi l pl Hxp _ IH]; cbn [traverse]; [exists []; split; [reflexivity|constructor]|].
    destruct (Hone x pi (or_introl eq_refl) Hxp) as [x' [Hx' Hr]]. rewrite Hx'. cbn [bind].
    destruct IH as [is [His Fis]]; [intros y py Hy; apply Hone; right; exact Hy|]. rewrite His. cbn [bind].
    exists (x' :: is). split; [reflexivity|constructor; assumption]. }
  rewrite His. cbn [bind].
  assert (traverse (fun pd : name * Z => w <- ofopt EMissing (assoc (fst pd) (pm_sigs pm)) ;; Ok (fst pd, w)) (pm_ports pm) = Ok (m_ports m)) as Hpt.
  { assert (pm_ports pm = map (fun pw : name * Z => (fst pw, port_dir xi m (fst pw))) (m_ports m)) as ->.
    { unfold export_module in He. destruct (check _ _); cbn [bind] in He; [|discriminate]. destruct (traverse _ _); cbn [bind] in He; [|discriminate].
      inversion He; reflexivity. }
    rewrite Hsigs.
    assert (forall pw, In pw (m_ports m) -> assoc (fst pw) (psigs m) = Some (snd pw)) as Hw.
    { intros [n w] Hin. cbn [fst snd]. apply sig_width_psigs; [exact Hnd|]. unfold sig_width. rewrite (assoc_nodup_In n w _ Hndp Hin). reflexivity. }
    clear - Hw. induction (m_ports m) as [|[n w] l IH]; cbn [map traverse]; [reflexivity|]. cbn [fst].
    pose proof (Hw (n, w) (or_introl eq_refl)) as Q. cbn [fst snd] in Q. rewrite Q. cbn [ofopt bind snd]. rewrite IH; [reflexivity|]. intros pw Hpw. apply Hw. right. exact Hpw. }
  rewrite Hpt. cbn [bind]. eexists. split; [exact Hm|]. split; [exact Hpm|]. split; [exact Hn|]. split; [reflexivity|].
  split; [exact Hn|]. split; [reflexivity|]. split; [|split; [rewrite Hsigs; reflexivity|exact Fis]].
  (* the signals that are not ports *)
  cbn [m_sigs]. rewrite Hsigs. unfold psigs. rewrite filter_app.
  assert (forall n, assoc n (pm_ports pm) = None <-> ~ In n (map fst (m_ports m))) as Hnone.
  { intros n. rewrite <- Hports. split; [apply assoc_None_notin|apply assoc_notin_None]. }
  rewrite filter_all.
  2:{ intros [n w] Hin. cbn [fst]. assert (assoc n (pm_ports pm) = None) as ->; [|reflexivity]. apply Hnone. intros Hp.
      unfold mod_names in Hnd. rewrite app_assoc in Hnd. apply NoDup_app_l in Hnd. apply (NoDup_app_disj _ _ n Hnd Hp). apply (in_map fst) in Hin. exact Hin. }
  rewrite filter_none; [apply app_nil_r|].
  intros [n w] Hin. cbn [fst]. destruct (assoc n (pm_ports pm)) eqn:E; [reflexivity|]. exfalso. apply Hnone in E. apply E.
  apply (in_map fst) in Hin. exact Hin.
Qed.

Lemma Forall2_pick {A B} (R : A -> B -> Prop) l l' k a : Forall2 R l l' -> pick l k = Ok a -> exists b, pick l' k = Ok b /\ R a b.
Proof.
  intros F. unfold pick. destruct (k <? 0); [discriminate|]. destruct (nth_error l (Z.to_nat k)) as [a'|] eqn:E; [|discriminate].
  intros H; inversion H; subst. destruct (Forall2_nth _ _ _ F _ _ E) as [b [Hb Hab]]. rewrite Hb. eauto.
Qed.

Lemma rb_design : exists tn pd atop, top_name d = Ok tn /\ design_of_pkg prims_ext p tn = Ok pd /\
  d_top pd = atop /\ nth_error order atop = Some (d_top d) /\
  Datatypes.length (d_mods pd) = Datatypes.length order /\
  forall a k, nth_error order a = Some k -> exists m m', nth_mod d k = Ok m /\ nth_mod pd a = Ok m' /\ mod_readback m m'.
Proof.
  destruct (In_nth_error _ _ Htop) as [atop Hatop].
  destruct (rb_module atop (d_top d) Hatop) as [mt [pmt [mt' [Hmt [Hpmt [Hnt _]]]]]].
  exists (m_name mt). unfold top_name. rewrite Hmt. cbn [bind]. unfold design_of_pkg. cbn [pk_mods p].
  destruct (traverse_total (pmodule_module prims_ext p) pms) as [ms Hms].
  { intros pm Hin. apply In_nth_error in Hin. destruct Hin as [a Ha].
    destruct (Forall2_nth_rev _ _ _ Hpms a pm Ha) as [k [Hk _]]. destruct (rb_module a k Hk) as [m [pm' [m' [_ [Hpm' [_ [Hr _]]]]]]].
    rewrite Ha in Hpm'. inversion Hpm'; subst pm'. eauto. }
  rewrite Hms. cbn [bind]. rewrite (rb_find_local atop (d_top d) mt Hatop Hmt). cbn [ofopt bind].
  eexists. exists atop. split; [reflexivity|]. split; [reflexivity|]. cbn [d_top d_mods]. split; [reflexivity|]. split; [exact Hatop|].
  apply traverse_Forall2 in Hms. split.
  { rewrite <- (Forall2_length' _ _ _ Hms). symmetry. apply (Forall2_length' _ _ _ Hpms). }
  intros a k Ha. destruct (rb_module a k Ha) as [m [pm [m' [Hm [Hpm [_ [Hr Hrb]]]]]]].
  destruct (Forall2_nth _ _ _ Hms a pm Hpm) as [m2 [Hm2 Hr2]]. rewrite Hr in Hr2. inversion Hr2; subst m2.
  exists m, m'. split; [exact Hm|]. split; [apply nth_mod_nth; exact Hm2|exact Hrb].
Qed.

Section RbSim.
Variables (pd : design) (atop : nat).
Hypothesis Hpd_top : d_top pd = atop.
Hypothesis Hatop : nth_error order atop = Some (d_top d).
Hypothesis Hpd : forall a k, nth_error order a = Some k -> exists m m', nth_mod d k = Ok m /\ nth_mod pd a = Ok m' /\ mod_readback m m'.

Let MR (m m' : module) : Prop := exists a k, nth_error order a = Some k /\ nth_mod d k = Ok m /\ nth_mod pd a = Ok m' /\ mod_readback m m'.
Let rho (m : module) (ie : pelem) : pelem := ie.

Lemma rs_top : mu (d_top d) = Some (d_top pd).
Proof. unfold mu. rewrite (nth_pos_of _ order 0 atop (vi_nodup _ _ _ Hinv) Hatop). rewrite Hpd_top. reflexivity. Qed.

Lemma rs_desc : forall k k' m, mu k = Some k' -> nth_mod d k = Ok m -> exists m', nth_mod pd k' = Ok m' /\ MR m m'.
Proof.
  intros k k' m Hk Hm. unfold mu in Hk. destruct (pos_of_nth _ _ _ _ Hk) as [c [-> Hc]]. cbn [Nat.add].
  destruct (Hpd c k Hc) as [m2 [m' [Hm2 [Hm' Hrb]]]]. rewrite Hm in Hm2. inversion Hm2; subst m2.
  exists m'. split; [exact Hm'|]. exists c, k. auto.
Qed.

Lemma rs_ports : forall m m', MR m m' -> m_ports m = m_ports m'.
Proof. intros m m' [a [k [_ [_ [_ [_ [H _]]]]]]]. symmetry. exact H. Qed.

Lemma rs_sigs : forall m m' s w, MR m m' -> sig_width m s = Some w -> sig_width m' s = Some w.
Proof. intros m m' s w [a [k [_ [_ [_ [_ [Hp [Hs _]]]]]]]] H. rewrite (sig_width_keep m m' s Hp Hs). exact H. Qed.

Lemma rs_find m m' i x : MR m m' -> find_inst (m_insts m) i = Some x ->
  exists x', find_inst (m_insts m') i = Some x' /\ inst_readback m x x'.
Proof.
  intros [a [k [_ [_ [_ [_ [_ [_ [_ F]]]]]]]]] Hf.
  apply (find_inst_Forall2 (inst_readback m) _ _ i x F); [|exact Hf]. intros y y' [H _]. symmetry. exact H.
Qed.

Lemma rs_single_inst m m' i x : MR m m' -> find_inst (m_insts m) i = Some x -> i_n x <= 0.
Proof.
  intros [a [k [Ha [Hm _]]]] Hf. pose proof (Hna k m (proj1 (nth_mod_nth _ _ _) Hm)) as H. rewrite forallb_forall in H.
  destruct (find_inst_In _ _ _ Hf) as [Hin _]. specialize (H x Hin). unfold single in H. lia.
Qed.

Lemma rs_inst : forall m m' i e x, MR m m' -> find_inst (m_insts m) i = Some x -> elem_ok x e = true ->
  exists x', find_inst (m_insts m') (fst (rho m (i, e))) = Some x' /\ elem_ok x' (snd (rho m (i, e))) = true /\
             tgt_rel mu (i_of x) (i_of x').
Proof.
  intros m m' i e x R Hf He. destruct (rs_find m m' i x R Hf) as [x' [Hf' [_ [Hn [Ht _]]]]]. exists x'. cbn [rho fst snd].
  split; [exact Hf'|]. split; [|exact Ht]. pose proof (rs_single_inst m m' i x R Hf) as Hs. unfold elem_ok in *. rewrite Hn.
  destruct (i_n x <=? 0) eqn:E; [exact He|lia].
Qed.

Lemma rs_single : forall m m' i x, MR m m' -> find_inst (m_insts m) i = Some x -> i_n x <= 0 -> snd (rho m (i, 0)) = 0.
Proof. reflexivity. Qed.

Lemma rs_inj : forall m m' i e x j f y, MR m m' -> find_inst (m_insts m) i = Some x -> elem_ok x e = true ->
  find_inst (m_insts m) j = Some y -> elem_ok y f = true -> rho m (i, e) = rho m (j, f) -> i = j /\ e = f.
Proof. intros m m' i e x0 j f y0 _ _ _ _ _ E. inversion E. auto. Qed.

Lemma rs_port_width x x' port w : tgt_rel mu (i_of x) (i_of x') -> port_width d x port = Ok w -> port_width pd x' port = Ok w.
Proof.
  unfold port_width, target_ports. destruct (i_of x) as [k|dv ps], (i_of x') as [k'|dv' ps']; cbn [tgt_rel]; try tauto.
  - intros Hk. destruct (nth_mod d k) as [mk|] eqn:Ek; cbn [bind]; [|discriminate].
    destruct (rs_desc _ _ _ Hk Ek) as [mk' [Hk' R]]. rewrite Hk'. cbn [bind]. rewrite (rs_ports _ _ R). tauto.
  - intros [_ ->]. tauto.
Qed.

Lemma rs_val : forall pth m i e x port k w t, vmod_at d pth = Ok m -> find_inst (m_insts m) i = Some x ->
  elem_ok x e = true -> port_width d x port = Ok w -> 0 <= k < w -> local_tgt d m x e port k = Ok t -> ltgt_valid d m t.
Proof.
  intros pth m i e x0 port k w t Hm Hf He Hw Hk Ht.
  destruct (wfs_module _ _ _ Hwfs Hm) as [km [Hkm Hok]]. destruct (find_inst_In _ _ _ Hf) as [Hxin _].
  destruct (wfs_local_tgt d km m x0 e port k w Hok Hxin He Hw Hk) as [cx [bits [id [j [s [ws [_ [_ [_ [_ [_ [Hs [Hj Hlt]]]]]]]]]]]]].
  rewrite Hlt in Ht. inversion Ht; subst t. cbn. eauto.
Qed.

Lemma rs_loc : forall m m' i e x x' port k w t, MR m m' ->
  find_inst (m_insts m) i = Some x -> elem_ok x e = true ->
  find_inst (m_insts m') (fst (rho m (i, e))) = Some x' ->
  port_width d x port = Ok w -> 0 <= k < w ->
  local_tgt d m x e port k = Ok t -> ltgt_valid d m t ->
  local_tgt pd m' x' (snd (rho m (i, e))) port k = Ok (map_lt rho m t).
Proof.
  intros m m' i e x x' port k w t R Hf He Hf' Hw Hk Ht _. cbn [rho fst snd] in *.
  destruct (rs_find m m' i x R Hf) as [x2 [Hf2 [_ [Hn [Htr Fc]]]]]. rewrite Hf' in Hf2. inversion Hf2; subst x2.
  pose proof (rs_single_inst m m' i x R Hf) as Hsx.
  destruct R as [a [km [Ha [Hm [Hm' [_ [_ [_ [Hlv _]]]]]]]]].
  pose proof (ex_module_ok d Hwfs km m Hm) as Hok. destruct (find_inst_In _ _ _ Hf) as [Hxin _].
  destruct (wfs_local_tgt d km m x e port k w Hok Hxin He Hw Hk) as [cx [bits [id [j [s [ws [Hac [Hb [Hc [Hpk [Hl [_ [_ Hlt]]]]]]]]]]]]].
  rewrite Hlt in Ht. inversion Ht; subst t. cbn [map_lt].
  assert (zlen bits = w) as Hlen by (destruct Hc as [Hc|[Hc _]]; [exact Hc|lia]).
  unfold conn_index in Hpk. rewrite Hlen, Z.eqb_refl in Hpk.
  destruct (assoc_Forall2 _ _ _ port cx Fc (fun c c' H => eq_sym (proj1 H)) Hac) as [cx' [Hac' [_ [bits0 [bits' [Hb0 [Hb' F]]]]]]]. cbn [snd] in *.
  rewrite Hb in Hb0. inversion Hb0; subst bits0.
  assert (pick (map (named (lname m)) bits) k = Ok (named (lname m) (id, j))) as Hpk2 by (rewrite pick_map, Hpk; reflexivity).
  destruct (Forall2_pick _ _ _ k _ F Hpk2) as [[idx j'] [Hpk' [Hj' Hleaf]]]. cbn [fst snd named] in Hj', Hleaf. subst j'.
  assert (lname m id = s) as Hs by (unfold lname, leaf_name; rewrite Hl; reflexivity). rewrite Hs in Hleaf.
  assert (zlen bits' = w) as Hlen'.
  { unfold zlen in *. rewrite <- (Forall2_length' _ _ _ F), map_length. exact Hlen. }
  apply (local_tgt_intro pd m' x' e port k w cx' bits' idx j s Hac' Hb' (rs_port_width x x' port w Htr Hw) Hk).
  - unfold elem_ok in *. rewrite Hn. destruct (i_n x <=? 0) eqn:E; [exact He|lia].
  - left. exact Hlen'.
  - unfold conn_index. rewrite Hlen', Z.eqb_refl. exact Hpk'.
  - rewrite Hlv. exact Hleaf.
Qed.

Theorem readback_valid x : valid d x -> valid pd x.
Proof.
  intros H. rewrite <- (phi_id d rho (fun _ _ => eq_refl) x).
  exact (valid_tr d pd mu rho MR rs_top rs_desc rs_ports rs_sigs rs_inst rs_single rs_inj rs_loc rs_val (wfs_step_total d Hwfs) x H).
Qed.

Theorem readback_same_net x y : valid d x -> valid d y -> (same_net d x y <-> same_net pd x y).
Proof.
  intros Hx Hy.
  rewrite <- (phi_id d rho (fun _ _ => eq_refl) x) at 2. rewrite <- (phi_id d rho (fun _ _ => eq_refl) y) at 2.
  exact (sim_same_net d pd mu rho MR rs_top rs_desc rs_ports rs_sigs rs_inst rs_single rs_inj rs_loc rs_val (wfs_step_total d Hwfs) x y Hx Hy).
Qed.
Theorem readback_dev x dev : valid d x -> dev_at d x = Ok dev -> dev_at pd x = Ok dev.
Proof.
  intros Hv Hd. rewrite <- (phi_id d rho (fun _ _ => eq_refl) x).
  exact (sim_dev d pd mu rho MR rs_top rs_desc rs_ports rs_sigs rs_inst rs_single rs_inj rs_loc rs_val (wfs_step_total d Hwfs) x dev Hv Hd).
Qed.
End RbSim.

(* ---- the package is well-formed (C06) ---- *)
Lemma pm_ports_read m pm : export_module xi d m = Ok pm -> NoDup (mod_names m) ->
  traverse (fun pd : name * Z => w <- ofopt EMissing (assoc (fst pd) (pm_sigs pm)) ;; Ok (fst pd, w)) (pm_ports pm) = Ok (m_ports m).
Proof.
  intros He Hnd. assert (NoDup (map fst (m_ports m))) as Hndp by (unfold mod_names in Hnd; apply (NoDup_app_l _ _ Hnd)).
  unfold export_module in He. destruct (check _ _); cbn [bind] in He; [|discriminate]. destruct (traverse _ _); cbn [bind] in He; [|discriminate].
  inversion He; subst pm. cbn [pm_ports pm_sigs]. fold (psigs m).
  assert (forall pw, In pw (m_ports m) -> assoc (fst pw) (psigs m) = Some (snd pw)) as Hw.
  { intros [n w] Hin. cbn [fst snd]. apply sig_width_psigs; [exact Hnd|]. unfold sig_width. rewrite (assoc_nodup_In n w _ Hndp Hin). reflexivity. }
  clear - Hw. induction (m_ports m) as [|[n w] l IH]; cbn [map traverse]; [reflexivity|]. cbn [fst].
  pose proof (Hw (n, w) (or_introl eq_refl)) as Q. cbn [fst snd] in Q. rewrite Q. cbn [ofopt bind snd]. rewrite IH; [reflexivity|].
  intros pw Hpw. apply Hw. right. exact Hpw.
Qed.

Lemma wf_pmods_intro prims pk : forall ms earlier,
  (forall a pm, nth_error ms a = Some pm -> wf_pmodule prims pk (earlier ++ firstn a ms) pm = Ok tt) ->
  wf_pmods prims pk earlier ms = Ok tt.
Proof.
  induction ms as [|m0 ms IH]; intros earlier H; cbn [wf_pmods]; [reflexivity|].
  pose proof (H 0%nat m0 eq_refl) as H0. cbn [firstn] in H0. rewrite app_nil_r in H0. rewrite H0. cbn [bind]. apply IH.
  intros a pm Ha. specialize (H (S a) pm Ha). cbn [firstn] in H. rewrite <- app_assoc. exact H.
Qed.

Lemma nth_error_firstn {A} (l : list A) a b : (b < a)%nat -> nth_error (firstn a l) b = nth_error l b.
Proof.
  revert a b. induction l as [|x l IH]; intros a b H; [destruct a, b; reflexivity|].
  destruct a as [|a]; [lia|]. destruct b as [|b]; [reflexivity|]. cbn [firstn nth_error]. apply IH. lia.
Qed.

Lemma NoDup_firstn {A} (l : list A) a : NoDup l -> NoDup (firstn a l).
Proof.
  revert a. induction l as [|x l IH]; intros a H; [destruct a; constructor|]. destruct a as [|a]; [constructor|]. cbn [firstn]. inversion H; subst.
  constructor; [|apply IH; assumption]. intros Hin. apply H2. clear - Hin. revert a Hin. induction l as [|y l IHl]; intros a Hin; [destruct a; destruct Hin|].
  destruct a as [|a]; [destruct Hin|]. cbn [firstn] in Hin. destruct Hin as [->|Hin]; [left; reflexivity|right; eapply IHl; exact Hin].
Qed.

Lemma firstn_map {A B} (f : A -> B) l a : firstn a (map f l) = map f (firstn a l).
Proof. revert a. induction l as [|x l IH]; intros [|a]; cbn [firstn map]; [reflexivity|reflexivity|reflexivity|]. rewrite IH. reflexivity. Qed.

Lemma In_firstn_nth {A} (l : list A) a x : In x (firstn a l) -> exists b, (b < a)%nat /\ nth_error l b = Some x.
Proof.
  revert a. induction l as [|y l IH]; intros a H; [destruct a; destruct H|]. destruct a as [|a]; [destruct H|]. cbn [firstn] in H.
  destruct H as [->|H]; [exists 0%nat; split; [lia|reflexivity]|]. destruct (IH a H) as [b [Hb Hn]]. exists (S b). split; [lia|exact Hn].
Qed.

Theorem export_pkg_wf : wf_pkg prims_ext p = Ok tt.
Proof.
  unfold wf_pkg. cbn [pk_exts pk_mods p]. rewrite (vi_exts_nodup _ _ _ Hinv). cbn [check bind].
  assert (forallb (fun x : pext => nodup_names (map (fun pwd : name * Z * Z => fst (fst pwd)) (px_ports x)) &&
                                   forallb (fun pwd : name * Z * Z => 1 <=? snd (fst pwd)) (px_ports x)) (snd st) = true) as ->.
  { apply forallb_forall. intros e He. destruct (vi_exts_from _ _ _ Hinv e He) as [k [m [x [dev [ports [v [Hm [Hx [Ho [Hv Hev]]]]]]]]]].
    destruct (xinfo_dev xi d k m x dev ports Hxi Hm Hx Ho) as [v' [e' [Hv' [_ [Hw [Hnd [Hdecl [Hports _]]]]]]]]. rewrite Hv in Hv'. inversion Hv'; subst v'.
    unfold dev_decl in Hdecl. rewrite Hev in Hdecl. inversion Hdecl; subst e'. unfold ext_ports in Hports.
    apply andb_true_intro. split.
    - apply nodup_names_NoDup. rewrite <- Hports, map_map in Hnd. exact Hnd.
    - rewrite <- Hports, forallb_map' in Hw. exact Hw. }
  cbn [check bind]. apply wf_pmods_intro. cbn [app]. intros a pm Ha.
  destruct (Forall2_nth_rev _ _ _ Hpms a pm Ha) as [k [Hk [m [Hm He]]]].
  destruct (ex_module xi d Hwfs Hna Hres Hxi k m Hm) as [pm' [Hpm' [Hn [Hsigs [Hports Fi]]]]]. rewrite He in Hpm'. inversion Hpm'; subst pm'.
  pose proof (ex_module_ok d Hwfs k m Hm) as Hok. destruct Hok as [Hne [Hnd [Hw Hi]]].
  unfold wf_pmodule. rewrite Hn.
  assert (negb (String.eqb (m_name m) "") = true) as -> by (apply negb_true_iff; apply not_true_is_false; intros E; apply String.eqb_eq in E; contradiction).
  cbn [check bind].
  assert (negb (existsb (fun m' : pmodule => String.eqb (pm_name m') (m_name m)) (firstn a pms)) = true) as ->.
  { apply negb_true_iff. apply not_true_is_false. intros E. apply existsb_exists in E. destruct E as [pm2 [Hin E]]. apply String.eqb_eq in E.
    destruct (In_firstn_nth _ _ _ Hin) as [b [Hb Hnb]]. pose proof rb_names_nodup as Hnn. rewrite NoDup_nth_error in Hnn.
    assert (b = a); [|lia]. apply Hnn; [rewrite map_length; apply nth_error_Some; congruence|]. rewrite !nth_error_map, Hnb, Ha. cbn. congruence. }
  cbn [check bind]. rewrite Hsigs.
  assert (NoDup (map fst (psigs m))) as Hnds.
  { unfold psigs. rewrite map_app. unfold mod_names in Hnd. rewrite app_assoc in Hnd. apply NoDup_app_l in Hnd.
    apply NoDup_app_intro; [apply (NoDup_app_r _ _ Hnd)|apply (NoDup_app_l _ _ Hnd)|]. intros x H1 H2. apply (NoDup_app_disj _ _ x Hnd H2 H1). }
  rewrite (proj2 (nodup_names_NoDup _) Hnds). cbn [check bind]. rewrite Hports.
  assert (NoDup (map fst (m_ports m))) as Hndp by (unfold mod_names in Hnd; apply (NoDup_app_l _ _ Hnd)).
  rewrite (proj2 (nodup_names_NoDup _) Hndp). cbn [check bind].
  assert (map pi_name (pm_insts pm) = map i_name (m_insts m)) as ->.
  { symmetry. eapply Forall2_map_eq; [exact Fi|]. intros x pi [_ [H _]]. symmetry. exact H. }
  assert (NoDup (map i_name (m_insts m))) as Hndi by (unfold mod_names in Hnd; apply NoDup_app_r in Hnd; apply NoDup_app_r in Hnd; exact Hnd).
  rewrite (proj2 (nodup_names_NoDup _) Hndi). cbn [check bind].
  assert (forallb (fun sw : name * Z => 1 <=? snd sw) (psigs m) = true) as ->.
  { unfold psigs. rewrite forallb_app in *. apply andb_prop in Hw. destruct Hw as [-> ->]. reflexivity. }
  cbn [check bind].
  assert (forallb (fun pd : name * Z => match assoc (fst pd) (psigs m) with Some _ => true | None => false end) (pm_ports pm) = true) as ->.
  { apply forallb_forall. intros pd Hpd. apply (in_map fst) in Hpd. rewrite Hports in Hpd. apply in_map_iff in Hpd. destruct Hpd as [[n w] [E Hin]]. cbn [fst] in E. rewrite <- E.
    rewrite (sig_width_psigs m n w Hnd); [reflexivity|]. unfold sig_width. rewrite (assoc_nodup_In n w _ Hndp Hin). reflexivity. }
  cbn [check bind]. apply all_ok_intro. intros pi Hpi. destruct (Forall2_In_r _ _ _ pi Fi Hpi) as [x [Hx [Hex [Hname Fc]]]].
  rewrite Forall_forall in Hi. destruct (Hi x Hx) as [Hlt [ports [Hp [Hcnd [Hc Hall]]]]].
  destruct (ex_inst xi d Hwfs Hna Hres Hxi k m x Hm Hx) as [pi' [Hpi' [_ [_ Href]]]]. rewrite Hex in Hpi'. inversion Hpi'; subst pi'.
  unfold wf_pinst.
  assert (ref_ports prims_ext p (firstn a pms) (pi_ref pi) = Ok ports) as ->.
  { unfold ref_ports. destruct (i_of x) as [k'|dev dports] eqn:Eo.
    - destruct Href as [mk [Hmk [-> _]]].
      destruct (vi_closed _ _ _ Hinv a k Hk k') as [b [Hb Hnb]]; [exists m, x; auto|].
      destruct (rb_pm_at b k' Hnb) as [mk2 [pmk [Hmk2 [Hpmk Hek]]]]. rewrite Hmk in Hmk2. inversion Hmk2; subst mk2.
      destruct (ex_module xi d Hwfs Hna Hres Hxi k' mk Hmk) as [pmk' [Hpmk' [Hnk _]]]. rewrite Hek in Hpmk'. inversion Hpmk'; subst pmk'.
      assert (NoDup (map pm_name (firstn a pms))) as Hndf by (rewrite <- firstn_map; apply NoDup_firstn; exact rb_names_nodup).
      rewrite (find_pmod_spec (firstn a pms) (m_name mk) 0 b pmk Hndf); [|rewrite nth_error_firstn by exact Hb; exact Hpmk|exact Hnk].
      cbn [ofopt bind Nat.add]. rewrite nth_error_firstn by exact Hb. rewrite Hpmk. cbn [ofopt bind].
      unfold target_ports in Hp. rewrite Hmk in Hp. cbn [bind] in Hp. inversion Hp; subst ports.
      apply pm_ports_read; [exact Hek|]. apply (ex_module_ok d Hwfs k' mk Hmk).
    - destruct Href as [v [Hv [-> _]]]. destruct (rb_ext_lookup k m x dev dports v (nth_error_In _ _ Hk) Hm Hx Eo Hv) as [e [Hel [Hports' _]]].
      rewrite Hel. cbn [ofopt bind]. cbn [target_ports] in Hp. inversion Hp; subst ports. unfold ext_ports in Hports'. rewrite Hports'. reflexivity. }
  cbn [bind].
  assert (map fst (pi_conns pi) = map fst (i_conns x)) as ->.
  { symmetry. eapply Forall2_map_eq; [exact Fc|]. intros c pc [H _]. symmetry. exact H. }
  rewrite (proj2 (nodup_names_NoDup _) Hcnd). cbn [check bind].
  assert (single x = true) as Hs.
  { pose proof (Hna k m (proj1 (nth_mod_nth _ _ _) Hm)) as H. rewrite forallb_forall in H. apply H. exact Hx. }
  rewrite (all_ok_intro (wf_pconn pm ports) (pi_conns pi)).
  2:{ intros pc Hpc. destruct (Forall2_In_r _ _ _ pc Fc Hpc) as [c [Hcin [Hfst [bits [Hb Hr]]]]].
      rewrite Forall_forall in Hc. destruct (Hc c Hcin) as [w [cw [Hpw [_ [_ [Hcw Hcase]]]]]].
      unfold wf_pconn. rewrite Hfst, Hpw. cbn [ofopt bind]. rewrite Hsigs, Hr. cbn [bind].
      pose proof (xwidth_xbits (snd c)) as W. rewrite Hb in W. rewrite Hcw in W. inversion W as [Hz].
      unfold check. unfold zlen in *. rewrite map_length. unfold single in Hs. assert (cw = w) by (destruct Hcase as [E|[E _]]; [exact E|lia]).
      assert (Z.of_nat (Datatypes.length bits) =? w = true) as -> by lia. reflexivity. }
  cbn [bind]. apply all_ok_intro. intros pw Hpw. specialize (Hall pw Hpw).
  destruct (assoc (fst pw) (i_conns x)) as [cx|] eqn:Ea; [|congruence].
  destruct (assoc_Forall2 _ _ _ (fst pw) cx Fc (fun c pc H => eq_sym (proj1 H)) Ea) as [t [Ht _]]. rewrite Ht. reflexivity.
Qed.
End Readback.

(* ------------------------------------------------------------------------------------------ the export step, end to end *)
Theorem export_sound xi d : wfs d -> no_arrays d -> resolved_design d -> xinfo_ok xi d = true ->
  exists p tn pd, export_model xi d = Ok p /\ top_name d = Ok tn /\ design_of_pkg prims_ext p tn = Ok pd /\
    (forall x, valid d x -> valid pd x) /\
    (forall x y, valid d x -> valid d y -> (same_net d x y <-> same_net pd x y)) /\
    (forall x dev, valid d x -> dev_at d x = Ok dev -> dev_at pd x = Ok dev).
Proof.
  intros Hwfs Hna Hres Hxi.
  destruct (export_ok xi d Hwfs Hna Hres Hxi) as [st [pms [_ [Hinv [Htop [_ [Hpms Hex]]]]]]].
  destruct (rb_design xi d Hwfs Hna Hres Hxi st pms Hinv Htop Hpms) as [tn [pd [atop [Htn [Hpd [Hpt [Hat [_ Hall]]]]]]]].
  eexists. exists tn, pd. split; [exact Hex|]. split; [exact Htn|]. split; [exact Hpd|]. split.
  - intros x. apply (readback_valid xi d Hwfs Hna st Hinv pd atop Hpt Hat Hall).
  - split.
    + intros x y. apply (readback_same_net xi d Hwfs Hna st Hinv pd atop Hpt Hat Hall).
    + intros x dev. apply (readback_dev xi d Hwfs Hna st Hinv pd atop Hpt Hat Hall).
Qed.
