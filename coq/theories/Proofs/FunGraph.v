(* Proofs/FunGraph.v — functional graphs.  "Being on one net" is the equivalence closure of the
   one-step relation y = f x; it coincides with "the orbits of x and y meet" (conn_meet), and on a
   finite closed node set the meeting is decided by looking at orbits cut after |nodes| steps
   (pigeonhole), which is what Spec/Nets.v computes. *)
From Coq Require Import List Arith Lia Bool.
Import ListNotations.

Section FG.
Variable A : Type.
Variable f : A -> A.

Inductive conn : A -> A -> Prop :=
| c_refl x : conn x x
| c_step x : conn x (f x)
| c_sym x y : conn x y -> conn y x
| c_trans x y z : conn x y -> conn y z -> conn x z.

Definition meet x y := exists m n, Nat.iter m f x = Nat.iter n f y.

Lemma iter_add m n x : Nat.iter (m + n) f x = Nat.iter m f (Nat.iter n f x).
Proof. induction m; simpl; congruence. Qed.

Lemma iter_comm m x : Nat.iter m f (f x) = f (Nat.iter m f x).
Proof. induction m; simpl; congruence. Qed.

Lemma meet_trans x y z : meet x y -> meet y z -> meet x z.
Proof.
  intros [m [n H1]] [p [q H2]].
  exists (p + m), (n + q).
  rewrite iter_add, H1, <- iter_add, Nat.add_comm, iter_add, H2, <- iter_add. reflexivity.
Qed.

Theorem conn_meet x y : conn x y <-> meet x y.
Proof.
  split.
  - induction 1 as [x|x|x y _ IH|x y z _ IH1 _ IH2].
    + exists 0, 0; reflexivity.
    + exists 1, 0; reflexivity.
    + destruct IH as [m [n H']]; exists n, m; auto.
    + eapply meet_trans; eauto.
  - intros [m [n H]].
    assert (forall k z, conn z (Nat.iter k f z)) as Hk.
    { induction k; intros z; simpl; [apply c_refl|]. eapply c_trans; [apply IHk|apply c_step]. }
    eapply c_trans; [apply Hk|]. rewrite H. apply c_sym, Hk.
Qed.

(* ---------- finite closed node sets: pigeonhole ---------- *)
Variable eqb : A -> A -> bool.
Hypothesis eqb_eq : forall a b, eqb a b = true <-> a = b.
Variable nodes : list A.
Hypothesis closed : forall x, In x nodes -> In (f x) nodes.
Let N := length nodes.

Lemma eq_dec : forall a b : A, {a = b} + {a <> b}.
Proof.
  intros a b. destruct (eqb a b) eqn:E.
  - left. apply eqb_eq. exact E.
  - right. intros H. apply eqb_eq in H. congruence.
Qed.

Lemma it_in k x : In x nodes -> In (Nat.iter k f x) nodes.
Proof. induction k; simpl; auto. Qed.

Lemma not_NoDup_split (l : list A) : ~ NoDup l -> exists a l1 l2 l3, l = l1 ++ a :: l2 ++ a :: l3.
Proof.
  induction l as [|a l IH]; intros H.
  - exfalso; apply H; constructor.
  - destruct (in_dec eq_dec a l) as [Hin|Hnin].
    + apply in_split in Hin. destruct Hin as [l2 [l3 ->]]. exists a, [], l2, l3. reflexivity.
    + destruct IH as [b [l1 [l2 [l3 ->]]]].
      * intros ND. apply H. constructor; auto.
      * exists b, (a :: l1), l2, l3. reflexivity.
Qed.

Lemma repeat_exists x : In x nodes -> exists i j, i < j <= N /\ Nat.iter i f x = Nat.iter j f x.
Proof.
  intros Hx.
  set (L := map (fun k => Nat.iter k f x) (seq 0 (S N))).
  assert (Hincl : incl L nodes).
  { intros y Hy. apply in_map_iff in Hy. destruct Hy as [k [<- _]]. apply it_in; auto. }
  assert (Hnd : ~ NoDup L).
  { intros ND. pose proof (NoDup_incl_length ND Hincl) as H. unfold L in H. rewrite map_length, seq_length in H. unfold N in *. lia. }
  apply not_NoDup_split in Hnd.
  destruct Hnd as [a [l1 [l2 [l3 HL]]]].
  exists (length l1), (length l1 + S (length l2)).
  assert (Hlen : length L = S N) by (unfold L; rewrite map_length, seq_length; reflexivity).
  rewrite HL in Hlen. rewrite !app_length in Hlen. simpl in Hlen. rewrite app_length in Hlen. simpl in Hlen.
  split; [lia|].
  assert (Hnth : forall k, k < S N -> nth k L x = Nat.iter k f x).
  { intros k Hk. unfold L.
    rewrite nth_indep with (d' := (fun k => Nat.iter k f x) 0) by (rewrite map_length, seq_length; lia).
    rewrite (map_nth (fun k => Nat.iter k f x)). rewrite seq_nth by lia. reflexivity. }
  rewrite <- (Hnth (length l1)) by lia. rewrite <- (Hnth (length l1 + S (length l2))) by lia.
  rewrite HL.
  rewrite app_nth2 by lia. replace (length l1 - length l1) with 0 by lia. simpl.
  rewrite app_nth2 by lia. replace (length l1 + S (length l2) - length l1) with (S (length l2)) by lia. simpl.
  rewrite app_nth2 by lia. replace (length l2 - length l2) with 0 by lia. reflexivity.
Qed.

(* every iterate equals one of the first N *)
Lemma orbit_bounded x : In x nodes -> forall m, exists m', m' < N /\ Nat.iter m' f x = Nat.iter m f x.
Proof.
  intros Hx. destruct (repeat_exists x Hx) as [i [j [Hij Heq]]].
  induction m as [m IH] using lt_wf_ind.
  destruct (lt_dec m j) as [Hlt|Hge].
  - destruct (lt_dec m N); [exists m; auto|].
    assert (m = N) by lia. assert (j = N) by lia. subst j.
    exists i. split; [lia|]. rewrite Heq. subst m. reflexivity.
  - destruct (IH ((m - j) + i)) as [m' [Hm' E]]; [lia|].
    exists m'. split; auto. rewrite E.
    transitivity (Nat.iter (m - j) f (Nat.iter i f x)); [apply iter_add|].
    rewrite Heq. rewrite <- iter_add. f_equal. lia.
Qed.

(* the orbit list computed by Spec/Nets.v: x, f x, f (f x), ... cut at a fixed point or after `fuel` steps *)
Fixpoint orbitf (fuel : nat) (x : A) : list A :=
  match fuel with
  | O => [x]
  | S k => if eqb (f x) x then [x] else x :: orbitf k (f x)
  end.

Lemma orbitf_sound fuel : forall x y, In y (orbitf fuel x) -> exists m, y = Nat.iter m f x.
Proof.
  induction fuel as [|k IH]; intros x y H; simpl in H.
  - destruct H as [<-|[]]. exists 0. reflexivity.
  - destruct (eqb (f x) x).
    + destruct H as [<-|[]]. exists 0. reflexivity.
    + destruct H as [<-|H]; [exists 0; reflexivity|].
      destruct (IH _ _ H) as [m ->]. exists (S m). simpl. apply iter_comm.
Qed.

Lemma fixed_iter x m : f x = x -> Nat.iter m f x = x.
Proof. intros H. induction m; simpl; congruence. Qed.

Lemma orbitf_complete fuel : forall x m, m <= fuel -> In (Nat.iter m f x) (orbitf fuel x).
Proof.
  induction fuel as [|k IH]; intros x m Hm; simpl.
  - assert (m = 0) by lia. subst. left. reflexivity.
  - destruct (eqb (f x) x) eqn:E.
    + apply eqb_eq in E. left. symmetry. apply fixed_iter. exact E.
    + destruct m as [|m]; [left; reflexivity|]. right.
      simpl. rewrite <- iter_comm. apply IH. lia.
Qed.

Definition meets (a b : list A) : bool := existsb (fun x => existsb (eqb x) b) a.

Theorem meets_iff fuel x y : N <= fuel -> In x nodes -> In y nodes ->
  (meets (orbitf fuel x) (orbitf fuel y) = true <-> conn x y).
Proof.
  intros Hf Hx Hy. rewrite conn_meet. unfold meets, meet. split.
  - intros H. apply existsb_exists in H. destruct H as [a [Ha H]].
    apply existsb_exists in H. destruct H as [b [Hb H]]. apply eqb_eq in H. subst b.
    destruct (orbitf_sound _ _ _ Ha) as [m ->]. destruct (orbitf_sound _ _ _ Hb) as [n Hn]. eauto.
  - intros [m [n E]].
    destruct (orbit_bounded x Hx m) as [m' [Hm' Em]].
    destruct (orbit_bounded y Hy n) as [n' [Hn' En]].
    apply existsb_exists. exists (Nat.iter m' f x). split; [apply orbitf_complete; lia|].
    apply existsb_exists. exists (Nat.iter n' f y). split; [apply orbitf_complete; lia|].
    apply eqb_eq. congruence.
Qed.

End FG.

(* ---------- rewiring: the criterion every net-preserving rewriting pass is an instance of ---------- *)
Section Rewire.
Variable A : Type.
Variable f f' : A -> A.

Lemma conn_sub : (forall x, conn A f x (f' x)) -> forall x y, conn A f' x y -> conn A f x y.
Proof.
  intros H x y C. induction C as [x|x|x y _ IH|x y z _ IH1 _ IH2].
  - apply c_refl.
  - apply H.
  - apply c_sym. exact IH.
  - eapply c_trans; eauto.
Qed.

Lemma conn_sub_sym : (forall x, conn A f' x (f x)) -> forall x y, conn A f x y -> conn A f' x y.
Proof.
  intros H x y C. induction C as [x|x|x y _ IH|x y z _ IH1 _ IH2].
  - apply c_refl.
  - apply H.
  - apply c_sym. exact IH.
  - eapply c_trans; eauto.
Qed.

(* If every new connection joins nodes the old connections already joined, and every old connection is
   still joined by the new ones, the two graphs have the same nets. *)
Theorem rewire_same_nets :
  (forall x, conn A f x (f' x)) -> (forall x, conn A f' x (f x)) ->
  forall x y, conn A f x y <-> conn A f' x y.
Proof.
  intros H1 H2 x y. split.
  - apply (conn_sub_sym H2).
  - apply conn_sub. exact H1.
Qed.
End Rewire.
