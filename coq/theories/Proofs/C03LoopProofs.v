(* Proofs/C03LoopProofs.v — the bit walker of untie_source_loops selects Python's selection. *)
Require Import Hdl21.Base.PyInt Hdl21.Spec.PySlice Hdl21.Model.Slice Hdl21.Model.Resolve
               Hdl21.Proofs.SliceProofs Hdl21.Proofs.ResolveProofs Hdl21.Model.C03Loop.

(* ---------- pick on cons / app / select ---------- *)
Lemma pick_cons {A} (x : A) l i :
  pick (x :: l) i = if i <? 0 then Error EOutOfBounds else if i =? 0 then Ok x else pick l (i - 1).
Proof.
  unfold pick. destruct (i <? 0) eqn:E; [reflexivity|]. destruct (i =? 0) eqn:E0.
  - assert (i = 0) as -> by lia. reflexivity.
  - assert (i - 1 <? 0 = false) as -> by lia.
    replace (Z.to_nat i) with (S (Z.to_nat (i - 1))) by lia. reflexivity.
Qed.

Lemma pick_nil {A} i : pick (@nil A) i = Error EOutOfBounds.
Proof. unfold pick. destruct (i <? 0); [reflexivity|]. destruct (Z.to_nat i); reflexivity. Qed.

Lemma pick_neg {A} (l : list A) i : i < 0 -> pick l i = Error EOutOfBounds.
Proof. intros H. unfold pick. assert (i <? 0 = true) as -> by lia. reflexivity. Qed.

Lemma zlen_cons {A} (x : A) l : zlen (x :: l) = zlen l + 1.
Proof. unfold zlen. cbn [length]. lia. Qed.

Lemma zlen_nonneg {A} (l : list A) : 0 <= zlen l.
Proof. unfold zlen. lia. Qed.

Lemma pick_app {A} (a b : list A) : forall i,
  pick (a ++ b) i = if i <? zlen a then pick a i else pick b (i - zlen a).
Proof.
  induction a as [|x a IH]; intros i; cbn [app].
  - change (zlen (@nil A)) with 0. rewrite Z.sub_0_r. destruct (i <? 0) eqn:E; [|reflexivity].
    rewrite pick_nil. apply pick_neg. lia.
  - rewrite zlen_cons. rewrite !pick_cons. pose proof (zlen_nonneg a) as Hn.
    destruct (i <? 0) eqn:E.
    + assert (i <? zlen a + 1 = true) as -> by lia. reflexivity.
    + destruct (i =? 0) eqn:E0.
      * assert (i <? zlen a + 1 = true) as -> by lia. reflexivity.
      * rewrite IH. replace (i - 1 - zlen a) with (i - (zlen a + 1)) by lia.
        destruct (i - 1 <? zlen a) eqn:E1.
        -- assert (i <? zlen a + 1 = true) as -> by lia. reflexivity.
        -- assert (i <? zlen a + 1 = false) as -> by lia. reflexivity.
Qed.

(* element i of a selection is the element of the parent at the i-th selected position *)
Lemma select_pick {A} (l : list A) : forall idxs r, select l idxs = Ok r ->
  forall i, pick r i = (j <- pick idxs i ;; pick l j).
Proof.
  unfold select. induction idxs as [|k ks IH]; cbn [traverse]; intros r H i.
  - inversion H. rewrite !pick_nil. reflexivity.
  - destruct (pick l k) as [x|e] eqn:Ek; cbn [bind] in H; [|discriminate].
    destruct (traverse (pick l) ks) as [r'|e] eqn:Et; cbn [bind] in H; [|discriminate].
    inversion H; subst r; clear H. rewrite !pick_cons.
    destruct (i <? 0); [reflexivity|]. destruct (i =? 0); [cbn [bind]; symmetry; exact Ek|].
    apply IH. reflexivity.
Qed.

(* ---------- the walk inside one source ---------- *)
Lemma walk_pick x : forall bs, xbits x = Ok bs -> forall idx, walk x idx = pick bs idx.
Proof.
  induction x as [id w|p ix IH|ps IH] using sx_ind'; intros bs H idx.
  - cbn [xbits] in H. cbn [walk]. destruct (w <? 1) eqn:E; [discriminate|]. inversion H; subst bs; clear H.
    unfold sig_bits. rewrite pick_map. unfold pick.
    destruct (idx <? 0) eqn:En.
    + assert ((0 <=? idx) && (idx <? w) = false) as -> by lia. reflexivity.
    + destruct ((0 <=? idx) && (idx <? w)) eqn:Er.
      * rewrite (iota_nth (Z.to_nat w) 0 1 (Z.to_nat idx)) by lia. do 2 f_equal. lia.
      * destruct (nth_error (iota (Z.to_nat w) 0 1) (Z.to_nat idx)) eqn:Enth; [|reflexivity].
        assert (nth_error (iota (Z.to_nat w) 0 1) (Z.to_nat idx) <> None) as Hne by congruence.
        apply nth_error_Some in Hne. rewrite iota_length in Hne. lia.
  - cbn [xbits] in H. cbn [walk].
    destruct (xbits p) as [pb|e] eqn:Ep; cbn [bind] in H; [|discriminate].
    pose proof (xwidth_xbits p) as Hw. rewrite Ep in Hw. rewrite Hw. cbn [bind].
    pose proof (slice_inner_sel (zlen pb) ix (zlen_nonneg pb)) as S.
    destruct (slice_inner (zlen pb) ix) as [r|e].
    + destruct S as [S _]. rewrite S in H. cbn [bind] in H. cbn [bind].
      rewrite (select_pick pb _ _ H idx).
      destruct (pick (inner_bits r) idx) as [j|e]; cbn [bind]; [|reflexivity].
      apply (IH pb eq_refl).
    + destruct S as [e' S]. rewrite S in H. discriminate.
  - rewrite walk_concat. cbn [xbits] in H. revert bs H idx.
    induction IH as [|p ps Hp _ IHps]; cbn [map cat_results walk_parts]; intros bs H idx.
    + inversion H. rewrite pick_nil. reflexivity.
    + destruct (xbits p) as [a|e] eqn:Ep; cbn [bind] in H; [|discriminate].
      destruct (cat_results (map xbits ps)) as [b|e] eqn:Eb; cbn [bind] in H; [|discriminate].
      inversion H; subst bs; clear H.
      pose proof (xwidth_xbits p) as Hw. rewrite Ep in Hw. rewrite Hw. cbn [bind].
      rewrite pick_app. destruct (idx <? zlen a); [apply (Hp a eq_refl)|apply (IHps b eq_refl)].
Qed.

Lemma walk_is_spec x idx : src_ok x = true -> walk x idx = walk_spec x idx.
Proof.
  unfold src_ok, walk_spec. destruct (xbits x) as [bs|e] eqn:E; [|discriminate]. intros _.
  cbn [bind]. apply (walk_pick x bs E).
Qed.

(* ---------- across references ---------- *)
Lemma lookup_In e : forall id x, lookup e id = Some x -> In x (map snd e).
Proof.
  induction e as [|[j y] e IH]; cbn [lookup map snd]; intros id x H; [discriminate|].
  destruct (N.eqb j id); [inversion H; left; reflexivity|right; eapply IH; eauto].
Qed.

Lemma env_ok_lookup e id x : env_ok e = true -> lookup e id = Some x -> src_ok x = true.
Proof.
  intros He Hl. unfold env_ok in He. rewrite forallb_forall in He.
  apply lookup_In in Hl. apply in_map_iff in Hl. destruct Hl as [p [<- Hp]]. apply He. exact Hp.
Qed.

Lemma chase_model_spec e : env_ok e = true -> forall fuel a, chase_model e fuel a = chase_spec e fuel a.
Proof.
  intros He. unfold chase_model, chase_spec. induction fuel as [|f IH]; intros a; cbn [chase].
  - reflexivity.
  - destruct (lookup e (fst a)) as [src|] eqn:El; [|reflexivity].
    rewrite (walk_is_spec src (snd a) (env_ok_lookup e _ _ He El)).
    destruct (walk_spec src (snd a)); cbn [bind]; [apply IH|reflexivity].
Qed.

Lemma traverse_ext {A B} (f g : A -> result B) l : (forall x, f x = g x) -> traverse f l = traverse g l.
Proof. intros H. induction l as [|x xs IH]; cbn [traverse]; [reflexivity|]. rewrite H, IH. reflexivity. Qed.

Lemma source_dests_model_spec e fuel src : env_ok e = true -> src_ok src = true ->
  source_dests walk e fuel src = source_dests walk_spec e fuel src.
Proof.
  intros He Hs. unfold source_dests. destruct (xwidth src); cbn [bind]; [|reflexivity].
  apply traverse_ext. intros k. rewrite (walk_is_spec src k Hs).
  destruct (walk_spec src k); cbn [bind]; [apply (chase_model_spec e He)|reflexivity].
Qed.

(* a bit that arrives has arrived for every larger fuel too: the answer does not depend on the bound *)
Lemma chase_stable step e : forall fuel a b, chase step e fuel a = Ok (DBit b) ->
  forall n, chase step e (fuel + n) a = Ok (DBit b).
Proof.
  induction fuel as [|f IH]; intros a b H n; cbn [chase] in H.
  - destruct (lookup e (fst a)) eqn:El; [discriminate|].
    destruct (0 + n)%nat; cbn [chase]; rewrite El; exact H.
  - cbn [Nat.add chase]. destruct (lookup e (fst a)) eqn:El; [|exact H].
    destruct (step s (snd a)) as [c|err]; cbn [bind] in *; [|discriminate]. apply IH. exact H.
Qed.

(* what arrives is a Signal: not a reference *)
Lemma chase_arrives_signal step e : forall fuel a b, chase step e fuel a = Ok (DBit b) -> lookup e (fst b) = None.
Proof.
  induction fuel as [|f IH]; intros a b H; cbn [chase] in H.
  - destruct (lookup e (fst a)) eqn:El; [discriminate|]. inversion H; subst. exact El.
  - destruct (lookup e (fst a)) eqn:El; [|inversion H; subst; exact El].
    destruct (step s (snd a)) as [c|err]; cbn [bind] in *; [|discriminate]. eapply IH; eauto.
Qed.

(* every step of the walk stays inside the leaf it names *)
Lemma walk_inside x idx id k : src_ok x = true -> walk x idx = Ok (id, k) ->
  exists w, In (id, w) (leaves x) /\ 0 <= k < w.
Proof.
  intros Hs H. rewrite (walk_is_spec x idx Hs) in H. unfold walk_spec in H.
  destruct (xbits x) as [bs|e] eqn:E; cbn [bind] in H; [|discriminate].
  apply pick_In in H. exact (xbits_inside x bs E id k H).
Qed.


Lemma chase_inside e : env_ok e = true -> forall fuel a b, chase_model e fuel a = Ok (DBit b) ->
  b = a \/ exists w, In (fst b, w) (concat (map (fun p => leaves (snd p)) e)) /\ 0 <= snd b < w.
Proof.
  intros He. unfold chase_model. induction fuel as [|f IH]; intros a b H; cbn [chase] in H.
  - destruct (lookup e (fst a)); [discriminate|]. inversion H. left; reflexivity.
  - destruct (lookup e (fst a)) as [src|] eqn:El; [|inversion H; left; reflexivity].
    destruct (walk src (snd a)) as [c|err] eqn:Ew; cbn [bind] in H; [|discriminate].
    destruct (IH c b H) as [->|R]; [|right; exact R].
    right. destruct c as [id k]. destruct (walk_inside src (snd a) id k (env_ok_lookup e _ _ He El) Ew) as [w [Hin Hk]].
    exists w. split; [|exact Hk]. cbn [fst]. apply in_concat. exists (leaves src). split; [|exact Hin].
    apply lookup_In in El. apply in_map_iff in El. destruct El as [p [<- Hp]].
    apply in_map_iff. exists p. split; [reflexivity|exact Hp].
Qed.
