(* Proofs/C01FProofsWfs1.v — (1) the step of Spec/Nets.v is total on the valid nodes of a valid design of the EXTENDED
   fragment (frag_ok2: only the no-connect half of frag_ok is needed for that);
   (2) the invariant BETWEEN the two steps of the extended ResolvePortRefs model (Model/C01FElab.v): after step 1 every
   port is connected, no no-connect is left, every leaf is a declared signal or a reference to a port of a single instance
   (references are left only inside slices / concatenations, but the invariant does not need to say so). *)
From Coq Require Import String.
Require Import Hdl21.Base.PyInt Hdl21.Spec.PySlice Hdl21.Model.Slice Hdl21.Model.Resolve Hdl21.Base.Design
               Hdl21.Spec.Nets Hdl21.Spec.WfDesign Hdl21.Spec.C01ENets Hdl21.Model.C01EElab Hdl21.Model.C01FElab Hdl21.Spec.C01FNets
               Hdl21.Proofs.ResolveProofs Hdl21.Proofs.C01EProofsGraph Hdl21.Proofs.C01EProofsBase Hdl21.Proofs.C01EProofsWfs.
Open Scope Z_scope.

(* ------------------------------------------------------------------------------------------ step_total for frag_ok2 *)
Lemma frag_ok2_conn d k m x c : frag_ok2 d = true -> nth_mod d k = Ok m -> In x (m_insts m) -> In c (i_conns x) ->
  conn_frag2 d m x c = true.
Proof.
  unfold frag_ok2. intros H Hm Hx Hc. apply nth_mod_nth in Hm. apply nth_error_In in Hm.
  rewrite forallb_forall in H. specialize (H m Hm). apply andb_prop in H. destruct H as [H _]. rewrite forallb_forall in H. specialize (H x Hx).
  rewrite forallb_forall in H. apply H. exact Hc.
Qed.

Lemma frag_ok2_acyclic d k m : frag_ok2 d = true -> nth_mod d k = Ok m -> acyclic_module d m = true.
Proof.
  unfold frag_ok2. intros H Hm. apply nth_mod_nth in Hm. apply nth_error_In in Hm.
  rewrite forallb_forall in H. specialize (H m Hm). apply andb_prop in H. tauto.
Qed.

Lemma local_tgt_total2 d k m x e port kk w :
  wf_module d k m = Ok tt -> (forall c, In c (i_conns x) -> conn_frag2 d m x c = true) ->
  In x (m_insts m) -> elem_ok x e = true -> port_width d x port = Ok w -> 0 <= kk < w ->
  exists t, local_tgt d m x e port kk = Ok t /\ ltgt_valid d m t.
Proof.
  intros Hwf Hfrag Hx He Hw Hk.
  destruct (wf_module_inv _ _ _ Hwf) as [_ [_ [_ Hin]]]. specialize (Hin x Hx).
  destruct (wf_inst_inv _ _ _ _ Hin) as [_ [ports [Hp [_ [Hc _]]]]].
  unfold local_tgt.
  destruct (assoc port (i_conns x)) as [cx|] eqn:Ea.
  2:{ unfold conn_bit. rewrite Ea. cbn [bind]. exists LtSelf. split; [reflexivity|exact I]. }
  pose proof (assoc_In _ _ _ Ea) as Hcin. specialize (Hc _ Hcin). specialize (Hfrag _ Hcin).
  destruct (wf_conn_inv _ _ _ _ _ Hc) as [w' [Hw' [Hl Hnc]]]. cbn [fst snd] in *.
  assert (w' = w) as ->.
  { unfold port_width in Hw. rewrite Hp in Hw. cbn [bind] in Hw. apply ofopt_ok in Hw. congruence. }
  destruct (is_nc m cx) as [site|] eqn:Enc.
  - destruct (is_nc_shape _ _ _ Enc) as [id [wl [-> Hlf]]].
    unfold conn_frag2 in Hfrag. cbn [snd fst] in Hfrag. rewrite Hlf, Hw in Hfrag. assert (wl = w) as -> by lia.
    assert (xbits (XSig id w) = Ok (sig_bits id w)) as Hb by (cbn [xbits]; destruct (w <? 1) eqn:E; [lia|reflexivity]).
    destruct (conn_bit_some d x e port kk _ _ w Ea Hb Hw Hk He) as [Hcb Hidx]; [left; apply sig_bits_len; lia|].
    rewrite Hcb. destruct (pick_ok _ _ Hidx) as [[id' j] [Hpk _]]. rewrite Hpk. cbn [bind].
    apply pick_In in Hpk. unfold sig_bits in Hpk. apply in_map_iff in Hpk. destruct Hpk as [j' [Hj' _]]. inversion Hj'; subst id'.
    rewrite Hlf. cbn [ofopt bind]. exists LtSelf. split; [reflexivity|exact I].
  - destruct Hnc as [_ [cw [Hcw Hcase]]].
    destruct (xwidth_ok_xbits _ _ Hcw) as [bits [Hb Hlen]].
    destruct (conn_bit_some d x e port kk _ _ w Ea Hb Hw Hk He) as [Hcb Hidx]; [rewrite Hlen; exact Hcase|].
    rewrite Hcb. destruct (pick_ok _ _ Hidx) as [[id j] [Hpk _]]. rewrite Hpk. cbn [bind].
    apply pick_In in Hpk. destruct (xbits_inside _ _ Hb _ _ Hpk) as [wl [Hlv Hj]]. rewrite leaves_sx_leaves in Hlv.
    destruct (wf_leaf_inv _ _ _ (Hl _ Hlv)) as [lf [Hlf Hkind]]. cbn [fst snd] in *. rewrite Hlf. cbn [ofopt bind].
    destruct lf as [s|i' p'|s].
    + exists (LtSig s j). split; [reflexivity|]. cbn. eauto.
    + destruct Hkind as [x' [Hx' [Hn' Hw'']]]. exists (LtPort i' p' j). split; [reflexivity|]. cbn. exists x', wl. auto.
    + exists LtSelf. split; [reflexivity|exact I].
Qed.

Lemma step_from_local d :
  (forall p m x i e port k w, vmod_at d p = Ok m -> find_inst (m_insts m) i = Some x -> elem_ok x e = true ->
     port_width d x port = Ok w -> 0 <= k < w -> exists t, local_tgt d m x e port k = Ok t /\ ltgt_valid d m t) ->
  forall x, valid d x -> exists y, Nets.step d x = Ok y /\ valid d y.
Proof.
  intros Hloc x Hv.
  destruct x as [p s k|p i e port k|p s k]; [| |destruct Hv].
  - destruct Hv as [m [w [Hm [Hs Hk]]]]. destruct p as [|[i e] p'].
    + exists (NSig [] s k). split; [reflexivity|]. exists m, w. auto.
    + rewrite (step_sig_up d i e p' s k m (vmod_at_mod_at _ _ _ Hm)).
      destruct (is_port m s) eqn:Ep.
      * exists (NPort p' i e s k). split; [reflexivity|].
        apply vmod_at_cons in Hm. destruct Hm as [m0 [x [kx [H0 [Hf [He [Ho Hk']]]]]]].
        exists m0, x, w. repeat split; try assumption; try lia.
        unfold port_width, target_ports. rewrite Ho, Hk'. cbn [bind].
        unfold is_port in Ep. unfold sig_width in Hs. destruct (assoc s (m_ports m)); [|discriminate]. rewrite Hs. reflexivity.
      * exists (NSig ((i, e) :: p') s k). split; [reflexivity|]. exists m, w. auto.
  - destruct Hv as [m [x [w [Hm [Hf [He [Hw Hk]]]]]]].
    destruct (Hloc p m x i e port k w Hm Hf He Hw Hk) as [t [Ht Hval]].
    rewrite (step_port d p i e port k m x (vmod_at_mod_at _ _ _ Hm) Hf), Ht. cbn [bind].
    exists (ltgt_node p i e port k t). split; [reflexivity|].
    destruct t as [s j|i' p' j|]; cbn [ltgt_node ltgt_valid] in *.
    + destruct Hval as [w' [Hs Hj]]. exists m, w'. auto.
    + destruct Hval as [x' [w' [Hx' [Hn' [Hw' Hj]]]]]. exists m, x', w'. repeat split; try assumption; try lia.
      unfold elem_ok. destruct (i_n x' <=? 0) eqn:E; lia.
    + exists m, x, w. auto.
Qed.

Theorem step_total2 d : wf_design d = Ok tt -> frag_ok2 d = true ->
  forall x, valid d x -> exists y, Nets.step d x = Ok y /\ valid d y.
Proof.
  intros Hwf Hfr. destruct (wf_design_inv _ Hwf) as [_ [_ Hmods]]. apply step_from_local.
  intros p m x i e port k w Hm Hf He Hw Hk.
  destruct (vmod_at_nth _ _ _ Hm) as [km Hkm]. pose proof (Hmods km m (proj1 (nth_mod_nth _ _ _) Hkm)) as Hwm.
  destruct (find_inst_In _ _ _ Hf) as [Hxin _].
  apply (local_tgt_total2 d km m x e port k w Hwm); try assumption.
  intros c Hc. eapply frag_ok2_conn; eassumption.
Qed.

(* ------------------------------------------------------------------------------------------ the invariant after step 1 *)
Definition leaf_ok1 (d : design) (m : module) (lw : N * Z) : Prop :=
  leaf_ok m lw \/
  exists i p x, assocN (fst lw) (m_leaves m) = Some (LRef i p) /\ find_inst (m_insts m) i = Some x /\ i_n x <= 0 /\
                port_width d x p = Ok (snd lw).

Definition conn_ok1 (d : design) (m : module) (x : inst) (ports : list (name * Z)) (c : name * sx) : Prop :=
  exists w cw, assoc (fst c) ports = Some w /\ 1 <= w /\ Forall (leaf_ok1 d m) (sx_leaves (snd c)) /\
               xwidth (snd c) = Ok cw /\ (cw = w \/ (0 < i_n x /\ cw = i_n x * w)).

Definition inst_ok1 (d : design) (self : nat) (m : module) (x : inst) : Prop :=
  match i_of x with TMod j => (j < self)%nat | TDev _ _ => True end /\
  exists ports, target_ports d (i_of x) = Ok ports /\ NoDup (map fst (i_conns x)) /\
                Forall (conn_ok1 d m x ports) (i_conns x) /\
                (forall pw, In pw ports -> assoc (fst pw) (i_conns x) <> None).

Definition module_ok1 (d : design) (self : nat) (m : module) : Prop :=
  m_name m <> "" /\ NoDup (mod_names m) /\
  forallb (fun pw : name * Z => 1 <=? snd pw) (m_ports m ++ m_sigs m) = true /\
  Forall (inst_ok1 d self m) (m_insts m).

Definition wfs1 (d : design) : Prop :=
  (d_top d < Datatypes.length (d_mods d))%nat /\ NoDup (map m_name (d_mods d)) /\
  forall k m, nth_error (d_mods d) k = Some m -> module_ok1 d k m.

(* what a leaf bit is, as a local target *)
Definition leaf_tgt (lf : leaf) (j : Z) : option ltgt :=
  match lf with LSig s => Some (LtSig s j) | LRef i p => Some (LtPort i p j) | LNc _ => None end.

Lemma leaf_ok_ok1 d m lw : leaf_ok m lw -> leaf_ok1 d m lw.
Proof. intros H. left. exact H. Qed.

Lemma module_ok_ok1 d k m : module_ok d k m -> module_ok1 d k m.
Proof.
  intros [H1 [H2 [H3 H4]]]. split; [exact H1|]. split; [exact H2|]. split; [exact H3|].
  eapply Forall_impl; [|exact H4]. intros x [Ho [ports [Hp [Hnd [Hc Hall]]]]]. split; [exact Ho|]. exists ports.
  split; [exact Hp|]. split; [exact Hnd|]. split; [|exact Hall].
  eapply Forall_impl; [|exact Hc]. intros c [w [cw [A [B [C D]]]]]. exists w, cw. split; [exact A|]. split; [exact B|]. split; [|exact D].
  eapply Forall_impl; [|exact C]. intros lw. apply leaf_ok_ok1.
Qed.

Lemma wfs1_module d p m : wfs1 d -> vmod_at d p = Ok m -> exists k, nth_mod d k = Ok m /\ module_ok1 d k m.
Proof.
  intros [_ [_ Hm]] H. destruct (vmod_at_nth _ _ _ H) as [k Hk]. exists k. split; [exact Hk|]. apply Hm. apply nth_mod_nth. exact Hk.
Qed.

Lemma local_tgt_leaf d m x e port k w cx bits id j lf t :
  assoc port (i_conns x) = Some cx -> xbits cx = Ok bits -> port_width d x port = Ok w -> 0 <= k < w ->
  elem_ok x e = true -> (zlen bits = w \/ (0 < i_n x /\ zlen bits = i_n x * w)) ->
  pick bits (conn_index x (zlen bits) w e k) = Ok (id, j) -> assocN id (m_leaves m) = Some lf -> leaf_tgt lf j = Some t ->
  local_tgt d m x e port k = Ok t.
Proof.
  intros Ha Hb Hw Hk He Hc Hp Hl Ht. destruct (conn_bit_some d x e port k cx bits w Ha Hb Hw Hk He Hc) as [Hcb _].
  unfold local_tgt. rewrite Hcb, Hp. cbn [bind]. rewrite Hl. cbn [ofopt bind].
  destruct lf; cbn [leaf_tgt] in Ht; inversion Ht; reflexivity.
Qed.

(* the local target of a port bit after step 1: a signal bit or a bit of a port of a single instance *)
Lemma wfs1_local_tgt d k m x e port kk w : module_ok1 d k m -> In x (m_insts m) -> elem_ok x e = true ->
  port_width d x port = Ok w -> 0 <= kk < w ->
  exists cx bits id j lf t, assoc port (i_conns x) = Some cx /\ xbits cx = Ok bits /\
    (zlen bits = w \/ (0 < i_n x /\ zlen bits = i_n x * w)) /\
    pick bits (conn_index x (zlen bits) w e kk) = Ok (id, j) /\
    assocN id (m_leaves m) = Some lf /\ leaf_tgt lf j = Some t /\ t <> LtSelf /\ ltgt_valid d m t /\
    local_tgt d m x e port kk = Ok t.
Proof.
  intros [_ [_ [_ Hi]]] Hx He Hw Hk. rewrite Forall_forall in Hi. destruct (Hi x Hx) as [_ [ports [Hp [_ [Hc Hall]]]]].
  assert (assoc port ports = Some w) as Hpw.
  { unfold port_width in Hw. rewrite Hp in Hw. cbn [bind] in Hw. apply ofopt_ok in Hw. exact Hw. }
  destruct (assoc port (i_conns x)) as [cx|] eqn:Ea.
  2:{ exfalso. apply (Hall (port, w)); [apply assoc_In; exact Hpw|exact Ea]. }
  rewrite Forall_forall in Hc. destruct (Hc (port, cx) (assoc_In _ _ _ Ea)) as [w' [cw [Hw' [_ [Hl [Hcw Hcase]]]]]]. cbn [fst snd] in *.
  assert (w' = w) as -> by congruence.
  destruct (xwidth_ok_xbits _ _ Hcw) as [bits [Hb Hlen]].
  destruct (conn_bit_some d x e port kk _ _ w Ea Hb Hw Hk He) as [Hcb Hidx]; [rewrite Hlen; exact Hcase|].
  destruct (pick_ok _ _ Hidx) as [[id j] [Hpk _]].
  pose proof (pick_In _ _ _ Hpk) as Hin. destruct (xbits_inside _ _ Hb _ _ Hin) as [wl [Hlv Hj]]. rewrite leaves_sx_leaves in Hlv.
  rewrite Forall_forall in Hl. destruct (Hl _ Hlv) as [[s [Hs Hsw]]|[i [p [xq [Hs [Hfq [Hnq Hwq]]]]]]]; cbn [fst snd] in *.
  - exists cx, bits, id, j, (LSig s), (LtSig s j). split; [reflexivity|]. split; [exact Hb|]. split; [rewrite Hlen; exact Hcase|].
    split; [exact Hpk|]. split; [exact Hs|]. split; [reflexivity|]. split; [discriminate|]. split; [cbn; exists wl; split; [exact Hsw|lia]|].
    eapply local_tgt_leaf; try eassumption; [rewrite Hlen; exact Hcase|reflexivity].
  - exists cx, bits, id, j, (LRef i p), (LtPort i p j). split; [reflexivity|]. split; [exact Hb|]. split; [rewrite Hlen; exact Hcase|].
    split; [exact Hpk|]. split; [exact Hs|]. split; [reflexivity|]. split; [discriminate|].
    split; [cbn; exists xq, wl; repeat split; try assumption; lia|].
    eapply local_tgt_leaf; try eassumption; [rewrite Hlen; exact Hcase|reflexivity].
Qed.

Corollary wfs1_step_total d : wfs1 d -> forall x, valid d x -> exists y, Nets.step d x = Ok y /\ valid d y.
Proof.
  intros H. apply step_from_local. intros p m x i e port k w Hm Hf He Hw Hk.
  destruct (wfs1_module d p m H Hm) as [km [_ Hok]]. destruct (find_inst_In _ _ _ Hf) as [Hxin _].
  destruct (wfs1_local_tgt d km m x e port k w Hok Hxin He Hw Hk) as [cx [bits [id [j [lf [t [_ [_ [_ [_ [_ [_ [_ [Hv Ht]]]]]]]]]]]]]].
  exists t. auto.
Qed.
