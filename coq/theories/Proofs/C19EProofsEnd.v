(* Proofs/C19EProofsEnd.v — the chain / end / parallel statements carried over to the exported package. *)
Require Import Hdl21.Base.PyInt Hdl21.Spec.PySlice Hdl21.Model.Slice Hdl21.Model.Resolve Hdl21.Base.Design
               Hdl21.Spec.Nets Hdl21.Spec.WfDesign Hdl21.Spec.C01ENets Hdl21.Base.Package Hdl21.Base.PrimTable
               Hdl21.Model.C01EElab Hdl21.Model.C01FElab Hdl21.Spec.C01FNets Hdl21.Proofs.C01FProofsEnd
               Hdl21.Spec.C19Topology Hdl21.Model.C19Series Hdl21.Proofs.C19Proofs
               Hdl21.Model.C19EDesign Hdl21.Proofs.C19EProofsStep Hdl21.Proofs.C19EProofsTopo Hdl21.Proofs.C19EProofsWf.
From Coq Require String.
Open Scope string_scope.
Open Scope Z_scope.

(* on terminal bits, the package has exactly the nets of the written design *)
Theorem series_exported_same_net nm io a b w n xi p :
  series_ok nm io a b w n = true ->
  let d := series_design nm io a b w n in
  xinfo_ok xi d = true -> elab_export_model2 xi d = Ok p ->
  exists pd, design_of_pkg prims_ext p (sn_mod nm) = Ok pd /\
    forall t1 t2, stack_term nm io n t1 -> stack_term nm io n t2 ->
      (same_net pd (term_map2 xi d t1) (term_map2 xi d t2) <-> same_net d t1 t2).
Proof.
  intros Hok d Hxi Hp. subst d. destruct (series_exported nm io a b w n Hok xi p Hxi Hp) as [pd [Hpd [_ [Hs _]]]].
  exists pd. split; [exact Hpd|]. intros t1 t2 H1 H2. rewrite (Hs t1 t2 H1 H2).
  symmetry. exact (series_partition nm io a b w n t1 t2 Hok H1 H2).
Qed.

(* chain net c, bit j of the exported package: exactly b[j] of units_c and a[j] of units_{c+1} *)
Theorem series_exported_chain nm io a b w n xi p c j :
  series_ok nm io a b w n = true ->
  let d := series_design nm io a b w n in
  xinfo_ok xi d = true -> elab_export_model2 xi d = Ok p -> 0 <= c < n - 1 -> 0 <= j < w ->
  let tm := term_map2 xi d in
  let ub := NPort [] (sn_units nm) c b j in
  let ua := NPort [] (sn_units nm) (c + 1) a j in
  exists pd, design_of_pkg prims_ext p (sn_mod nm) = Ok pd /\
    same_net pd (tm ub) (tm ua) /\
    (forall t, stack_term nm io n t -> (same_net pd (tm t) (tm ub) <-> t = ub \/ t = ua)) /\
    (forall t, stack_port io t -> ~ same_net pd (tm t) (tm ub)).
Proof.
  intros Hok d Hxi Hp Hc Hj tm ub ua. subst d. subst tm.
  destruct (series_exported_same_net nm io a b w n xi p Hok Hxi Hp) as [pd [Hpd Hs]].
  destruct (series_chain_nets nm io a b w n c j Hok Hc Hj) as [Tb [Ta [Hsn [Hall Hnp]]]].
  exists pd. split; [exact Hpd|]. split; [|split].
  - apply (Hs _ _ Tb Ta). exact Hsn.
  - intros t Ht. rewrite (Hs t ub Ht Tb). exact (Hall t Ht).
  - intros t Ht H. apply (Hnp t Ht). apply (Hs t _ (or_introl Ht) Tb). exact H.
Qed.
