(* Proofs/C01EProofsNames.v — freshness of the names the passes invent (ElabPass.flatname): a new name is not in the
   namespace it was told to avoid, successive names are distinct, and the only failure is the length limit. *)
From Coq Require Import String.
Require Import Hdl21.Base.PyInt Hdl21.Base.Design Hdl21.Spec.Nets Hdl21.Model.C01EElab
               Hdl21.Proofs.C01EProofsBase.
Require Hdl21.Spec.BundleSpec Hdl21.Model.BundleFlat Hdl21.Proofs.BundleProofs Hdl21Gen.C10Tables.
Open Scope Z_scope.

Lemma maxlen_nonneg : 0 <= maxlen.
Proof. vm_compute. discriminate. Qed.

Lemma flatname_fresh segs avoid n : flatname segs avoid maxlen = Ok n -> ~ In n avoid.
Proof.
  unfold flatname, Hdl21.Model.BundleFlat.flatname. intros H.
  apply Hdl21.Proofs.BundleProofs.flatname_loop_spec in H. destruct H as [k [_ [Hf _]]].
  apply Hdl21.Proofs.BundleProofs.smem_false. exact Hf.
Qed.

Lemma flatname_err segs avoid e : flatname segs avoid maxlen = Error e -> e = EName.
Proof.
  unfold flatname. intros H. pose proof (Hdl21.Proofs.BundleProofs.flatname_no_fuel segs avoid maxlen maxlen_nonneg) as NF.
  unfold Hdl21.Model.BundleFlat.flatname in *.
  destruct (Hdl21.Proofs.BundleProofs.flatname_loop_err _ _ _ _ _ H) as [->| ->]; [reflexivity|]. exfalso. apply NF. exact H.
Qed.

Lemma name_elems_spec arr : forall n k avoid nms, name_elems arr n k avoid = Ok nms ->
  Datatypes.length nms = n /\ NoDup nms /\ forall nm, In nm nms -> ~ In nm avoid.
Proof.
  induction n as [|n IH]; intros k avoid nms H; cbn [name_elems] in H.
  - inversion H; subst. split; [reflexivity|]. split; [constructor|]. intros nm [].
  - binv H. inversion H; subst. destruct (IH _ _ _ E0) as [Hl [Hnd Hav]]. pose proof (flatname_fresh _ _ _ E) as Hf.
    split; [cbn; congruence|]. split.
    + constructor; [|exact Hnd]. intros Hin. apply (Hav _ Hin). apply in_or_app. right. left. reflexivity.
    + intros nm [<-|Hin]; [exact Hf|]. intros Hin2. apply (Hav _ Hin). apply in_or_app. left. exact Hin2.
Qed.

Lemma name_elems_err arr : forall n k avoid e, name_elems arr n k avoid = Error e -> e = EName.
Proof.
  induction n as [|n IH]; intros k avoid e H; cbn [name_elems] in H; [discriminate|].
  destruct (flatname [arr; dec k] avoid maxlen) as [nm|e'] eqn:E; cbn [bind] in H.
  - destruct (name_elems arr n (N.succ k) (avoid ++ [nm])) as [r|e'] eqn:E2; cbn [bind] in H; [discriminate|].
    inversion H; subst. eapply IH. exact E2.
  - inversion H; subst. eapply flatname_err. exact E.
Qed.

Lemma remove_name_In n l s : In s (remove_name n l) <-> In s l /\ s <> n.
Proof.
  unfold remove_name. rewrite filter_In. rewrite negb_true_iff. split; intros [H1 H2]; split; try assumption.
  - intros E. subst. rewrite String.eqb_refl in H2. discriminate.
  - apply not_true_is_false. intros E. apply String.eqb_eq in E. contradiction.
Qed.

(* names of the Instances that replace the arrays: pairwise distinct and outside every set K of names that stay in
   the namespace (ports, signals, single instances) *)
Lemma array_names_spec : forall arrs avoid tbl, array_names arrs avoid = Ok tbl ->
  NoDup (map i_name arrs) -> (forall x, In x arrs -> In (i_name x) avoid) ->
  Forall2 (fun x nms => Datatypes.length nms = Z.to_nat (i_n x)) arrs tbl /\
  NoDup (concat tbl) /\
  forall K : list name, (forall s, In s K -> In s avoid) -> (forall x, In x arrs -> ~ In (i_name x) K) ->
                        forall nm, In nm (concat tbl) -> ~ In nm K.
Proof.
  induction arrs as [|x r IH]; intros avoid tbl H Hnd Hav; cbn [array_names] in H.
  - inversion H; subst. split; [constructor|]. split; [constructor|]. intros K _ _ nm [].
  - binv H. inversion H; subst. rename a into nms, a0 into rest. cbn [map] in Hnd. inversion Hnd as [|? ? Hx Hnd']; subst.
    destruct (name_elems_spec _ _ _ _ _ E) as [Hl [Hn Hf]].
    assert (forall y, In y r -> In (i_name y) (remove_name (i_name x) avoid ++ nms)) as Hav'.
    { intros y Hy. apply in_or_app. left. apply remove_name_In. split; [apply Hav; right; exact Hy|].
      intros Eq. apply Hx. rewrite <- Eq. apply in_map. exact Hy. }
    destruct (IH _ _ E0 Hnd' Hav') as [F [Hnd2 HK]].
    split; [constructor; [exact Hl|exact F]|]. split.
    + cbn [concat]. apply NoDup_app_intro; try assumption.
      intros nm Hin1 Hin2. apply (HK nms) in Hin2; [contradiction| |].
      * intros s Hs. apply in_or_app. right. exact Hs.
      * intros y Hy Hin. apply (Hf _ Hin). apply remove_name_In. split; [apply Hav; right; exact Hy|].
        intros Eq. apply Hx. rewrite <- Eq. apply in_map. exact Hy.
    + intros K HKa HKn nm Hin. cbn [concat] in Hin. apply in_app_or in Hin. destruct Hin as [Hin|Hin].
      * intros HinK. apply (Hf _ Hin). apply remove_name_In. split; [apply HKa; exact HinK|].
        intros Eq. subst nm. apply (HKn x (or_introl eq_refl)). exact HinK.
      * apply (HK K); [| |exact Hin].
        -- intros s Hs. apply in_or_app. left. apply remove_name_In. split; [apply HKa; exact Hs|].
           intros Eq. subst s. apply (HKn x (or_introl eq_refl)). exact Hs.
        -- intros y Hy. apply HKn. right. exact Hy.
Qed.

Lemma array_names_err : forall arrs avoid e, array_names arrs avoid = Error e -> e = EName.
Proof.
  induction arrs as [|x r IH]; intros avoid e H; cbn [array_names] in H; [discriminate|].
  destruct (name_elems _ _ _ _) as [nms|e'] eqn:E; cbn [bind] in H.
  - destruct (array_names r _) as [rest|e'] eqn:E2; cbn [bind] in H; [discriminate|]. inversion H; subst. eapply IH. exact E2.
  - inversion H; subst. eapply name_elems_err. exact E.
Qed.
