(* Proofs/C07EProofsChain.v — "pass by pass over the whole design" = "module by module through all passes".

   The pipeline models of C01E / C02E are whole-design functions: every stage maps a per-module function over all modules
   and hands the NEXT stage the rewritten design.  Because no stage changes a port list (kind_fn_keeps) and a per-module
   function reads other modules only through their port lists (Proofs/C07EProofsExt.v), every stage can be handed the
   WRITTEN design instead (stage lemmas), and then the stages commute with the modules (chain_per_module):

     checked_elab_chain   checked_elab xi d = hier_design d ;; chain of the ten entries with checks, over d
     elab_model_chain     elab_model xi d   =                  chain of the ten entries without checks, over d
     chain_per_module     chain fs ms = Ok ms'  <->  module by module, ms'[j] = (fs composed) j ms[j]
     pm_run_stages        the per-module composition is Model/C07EConcrete.v:run_stages (the `lift`ed bodies) *)
From Coq Require Import String.
Require Import Hdl21.Base.PyInt Hdl21.Spec.PySlice Hdl21.Model.Slice Hdl21.Model.Resolve Hdl21.Base.Design
               Hdl21.Spec.WfDesign Hdl21.Base.Package Hdl21.Model.Checks Hdl21.Model.C02Checks Hdl21.Model.C01EElab
               Hdl21.Model.C02EPipeline Hdl21.Model.C07EConcrete
               Hdl21.Proofs.C01EProofsBase Hdl21.Proofs.C01EProofsPass Hdl21.Proofs.C02EProofsBase
               Hdl21.Proofs.C07EProofsExt Hdl21.Proofs.C07EProofsInst.
Open Scope Z_scope.

(* ------------------------------------------------------------------------------------------ indexed traversal *)
Fixpoint itrav (f : nat -> module -> result module) (k : nat) (ms : list module) : result (list module) :=
  match ms with
  | [] => Ok []
  | m :: r => m' <- f k m ;; r' <- itrav f (S k) r ;; Ok (m' :: r')
  end.

Lemma itrav_traverse f : forall ms k, traverse f ms = itrav (fun _ => f) k ms.
Proof. induction ms as [|m r IH]; intros k; cbn [traverse itrav]; [reflexivity|]. rewrite (IH (S k)). reflexivity. Qed.

Lemma itrav_ext_in f g : forall ms k, (forall m j, In m ms -> f j m = g j m) -> itrav f k ms = itrav g k ms.
Proof.
  induction ms as [|m r IH]; intros k H; cbn [itrav]; [reflexivity|]. rewrite (H m k (or_introl eq_refl)).
  rewrite (IH (S k)); [reflexivity|]. intros m' j Hin. apply H. right. exact Hin.
Qed.

Lemma itrav_id : forall ms k, itrav (fun _ m => Ok m) k ms = Ok ms.
Proof. induction ms as [|m r IH]; intros k; cbn [itrav bind]; [reflexivity|]. rewrite IH. reflexivity. Qed.

Lemma each_from_itrav f : forall ms k, each_from f k ms = (_ <- itrav (fun j m => chk_mod (f j) m) k ms ;; Ok tt).
Proof.
  induction ms as [|m r IH]; intros k; cbn [each_from itrav bind]; [reflexivity|]. unfold chk_mod at 1.
  destruct (f k m) as [[]|e]; cbn [bind]; [|reflexivity]. rewrite IH. destruct (itrav _ (S k) r); reflexivity.
Qed.

Lemma itrav_chk_id f : forall ms k l, itrav (fun j m => chk_mod (f j) m) k ms = Ok l -> l = ms.
Proof.
  induction ms as [|m r IH]; intros k l H; cbn [itrav] in H; [inversion H; reflexivity|].
  apply bind_ok in H. destruct H as [m' [Hm H]]. apply bind_ok in H. destruct H as [r' [Hr H]]. inversion H; subst.
  apply chk_mod_ok in Hm. destruct Hm as [-> _]. rewrite (IH _ _ Hr). reflexivity.
Qed.

Lemma itrav_nth f : forall ms k l, itrav f k ms = Ok l ->
  Datatypes.length l = Datatypes.length ms /\
  forall j m, nth_error ms j = Some m -> exists m', nth_error l j = Some m' /\ f (k + j)%nat m = Ok m'.
Proof.
  induction ms as [|m r IH]; intros k l H; cbn [itrav] in H.
  - inversion H; subst. split; [reflexivity|]. intros j m Hj. destruct j; discriminate.
  - apply bind_ok in H. destruct H as [m' [Hm H]]. apply bind_ok in H. destruct H as [r' [Hr H]]. inversion H; subst.
    destruct (IH _ _ Hr) as [Hl Hn]. split; [cbn [Datatypes.length]; congruence|].
    intros j m0 Hj. destruct j as [|j]; cbn [nth_error] in *.
    + inversion Hj; subst. exists m'. rewrite Nat.add_0_r. auto.
    + destruct (Hn j m0 Hj) as [m1 [H1 H2]]. exists m1. split; [exact H1|]. replace (k + S j)%nat with (S k + j)%nat by lia. exact H2.
Qed.

Lemma itrav_nth_rev f : forall ms k l, itrav f k ms = Ok l ->
  forall j m', nth_error l j = Some m' -> exists m, nth_error ms j = Some m /\ f (k + j)%nat m = Ok m'.
Proof.
  intros ms k l H j m' Hj. destruct (itrav_nth f ms k l H) as [Hl Hn].
  destruct (nth_error ms j) as [m|] eqn:E.
  - destruct (Hn j m E) as [m1 [H1 H2]]. rewrite Hj in H1. inversion H1; subst. eauto.
  - exfalso. apply nth_error_None in E. assert (j < Datatypes.length l)%nat by (apply nth_error_Some; congruence). lia.
Qed.

Lemma itrav_total f : forall ms k, (forall j m, nth_error ms j = Some m -> exists m', f (k + j)%nat m = Ok m') ->
  exists l, itrav f k ms = Ok l.
Proof.
  induction ms as [|m r IH]; intros k H; cbn [itrav]; [eauto|].
  destruct (H 0%nat m eq_refl) as [m' Hm]. rewrite Nat.add_0_r in Hm. rewrite Hm. cbn [bind].
  destruct (IH (S k)) as [l Hl].
  { intros j m0 Hj. destruct (H (S j) m0 Hj) as [m1 H1]. exists m1. replace (S k + j)%nat with (k + S j)%nat by lia. exact H1. }
  rewrite Hl. cbn [bind]. eauto.
Qed.

Lemma itrav_ports f : (forall j m m', f j m = Ok m' -> m_ports m' = m_ports m) ->
  forall ms k l, itrav f k ms = Ok l -> map m_ports l = map m_ports ms.
Proof.
  intros Hf. induction ms as [|m r IH]; intros k l H; cbn [itrav] in H; [inversion H; reflexivity|].
  apply bind_ok in H. destruct H as [m' [Hm H]]. apply bind_ok in H. destruct H as [r' [Hr H]]. inversion H; subst.
  cbn [map]. rewrite (Hf _ _ _ Hm), (IH _ _ Hr). reflexivity.
Qed.

Lemma nth_error_ext {A} : forall (l l' : list A), Datatypes.length l' = Datatypes.length l ->
  (forall j a, nth_error l j = Some a -> nth_error l' j = Some a) -> l' = l.
Proof.
  induction l as [|a l IH]; intros l' Hl H; destruct l' as [|a' l']; try discriminate; [reflexivity|].
  pose proof (H 0%nat a eq_refl) as H0. cbn in H0. inversion H0; subst. f_equal. apply IH; [cbn in Hl; lia|].
  intros j b Hj. apply (H (S j) b Hj).
Qed.

(* ------------------------------------------------------------------------------------------ stages and modules commute *)
Definition sfn := nat -> module -> result module.

Fixpoint chain (fs : list sfn) (ms : list module) : result (list module) :=
  match fs with
  | [] => Ok ms
  | f :: r => ms' <- itrav f 0 ms ;; chain r ms'
  end.

(* all the stages on module number j *)
Fixpoint pm (fs : list sfn) (j : nat) (m : module) : result module :=
  match fs with
  | [] => Ok m
  | f :: r => m' <- f j m ;; pm r j m'
  end.

Theorem chain_per_module : forall fs ms ms', chain fs ms = Ok ms' <->
  (Datatypes.length ms' = Datatypes.length ms /\
   forall j m, nth_error ms j = Some m -> exists m', nth_error ms' j = Some m' /\ pm fs j m = Ok m').
Proof.
  induction fs as [|f r IH]; intros ms ms'; cbn [chain pm].
  - split.
    + intros H. inversion H; subst. split; [reflexivity|]. intros j m Hj. eauto.
    + intros [Hl H]. f_equal. symmetry. apply nth_error_ext; [exact Hl|].
      intros j a Hj. destruct (H j a Hj) as [m' [H1 H2]]. inversion H2; subst. exact H1.
  - split.
    + intros H. apply bind_ok in H. destruct H as [l1 [H1 H2]]. apply IH in H2. destruct H2 as [Hl2 Hn2].
      destruct (itrav_nth _ _ _ _ H1) as [Hl1 Hn1]. split; [congruence|].
      intros j m Hj. destruct (Hn1 j m Hj) as [m1 [Hj1 Hf]]. destruct (Hn2 j m1 Hj1) as [m' [Hj' Hp]].
      exists m'. split; [exact Hj'|]. cbn [Nat.add] in Hf. rewrite Hf. exact Hp.
    + intros [Hl H]. destruct (itrav_total f ms 0) as [l1 H1].
      { intros j m Hj. destruct (H j m Hj) as [m' [_ Hp]]. cbn [Nat.add]. destruct (f j m) as [m1|]; [eauto|discriminate]. }
      rewrite H1. cbn [bind]. apply IH. destruct (itrav_nth _ _ _ _ H1) as [Hl1 _]. split; [congruence|].
      intros j m1 Hj1. destruct (itrav_nth_rev _ _ _ _ H1 j m1 Hj1) as [m [Hj Hf]]. cbn [Nat.add] in Hf.
      destruct (H j m Hj) as [m' [Hj' Hp]]. rewrite Hf in Hp. exists m'. auto.
Qed.

(* the per-module composition is the `lift`ed bodies of the manager *)
Lemma cont_result_lift f c : cont_result (lift f c) = (m <- cont_result c ;; f m).
Proof.
  unfold lift, cont_result. destruct (cc_err c) as [e|] eqn:E; cbn [bind]; [rewrite E; reflexivity|].
  destruct (f (cc_mod c)); reflexivity.
Qed.

Lemma bind_assoc {A B C} (r : result A) (f : A -> result B) (g : B -> result C) :
  (y <- (x <- r ;; f x) ;; g y) = (x <- r ;; y <- f x ;; g y).
Proof. destruct r; reflexivity. Qed.

Lemma pm_run_stages ck xi d self : forall ks c,
  cont_result (run_stages ck xi d self ks c) = (m <- cont_result c ;; pm (map (stage_fn ck xi d) ks) self m).
Proof.
  unfold run_stages. induction ks as [|k ks IH]; intros c; cbn [fold_left map pm].
  - destruct (cont_result c); reflexivity.
  - rewrite IH, cont_result_lift, bind_assoc. reflexivity.
Qed.

Lemma cont_result_cok c m : cont_result c = Ok m <-> c = cok m.
Proof.
  unfold cont_result, cok. destruct c as [cm [e|]]; cbn [cc_err cc_mod]; split; intros H; try discriminate; inversion H; reflexivity.
Qed.

(* ------------------------------------------------------------------------------------------ the stages over the written design *)
Lemma design_eta (d : design) : d = {| d_mods := d_mods d; d_top := d_top d |}.
Proof. destruct d; reflexivity. Qed.

Section Stages.
Variables (xi : xinfo) (d : design).

Definition D (l : list module) : design := {| d_mods := l; d_top := d_top d |}.
Definition PK (l : list module) : Prop := map m_ports l = map m_ports (d_mods d).

Lemma PK_target l t : PK l -> target_ports (D l) t = target_ports d t.
Proof.
  intros H. destruct t as [k|dev ps]; [|reflexivity]. cbn [target_ports]. unfold nth_mod, D. cbn [d_mods].
  pose proof (f_equal (fun x => nth_error x k) H) as E. cbv beta in E. rewrite !nth_error_map in E.
  destruct (nth_error l k) as [a|], (nth_error (d_mods d) k) as [b|]; cbn [option_map] in E; try discriminate; [|reflexivity].
  inversion E as [E']. cbn [ofopt bind]. rewrite E'. reflexivity.
Qed.

Lemma PK_agree l m : PK l -> agree (D l) d m.
Proof. intros H x _. apply PK_target. exact H. Qed.

Lemma PK_step ck kind l l' : PK l -> itrav (fun j m => kind_fn ck xi kind j d m) 0 l = Ok l' -> PK l'.
Proof.
  intros H E. unfold PK. rewrite <- H. eapply itrav_ports; [|exact E].
  intros j m m' Hk. apply (kind_fn_keeps _ _ _ _ _ _ _ Hk).
Qed.

Notation F ck kind := (fun (j : nat) (m : module) => kind_fn ck xi kind j d m).

Lemma st_orphanage l : orphanage_design (D l) = (_ <- itrav (F true "Orphanage") 0 l ;; Ok tt).
Proof. unfold orphanage_design, each_module. cbn [D d_mods]. apply each_from_itrav. Qed.

Lemma st_mark l : mark_design (D l) = (_ <- itrav (F true "MarkModules") 0 l ;; Ok tt).
Proof. unfold mark_design, each_module. cbn [D d_mods]. apply each_from_itrav. Qed.

Lemma st_conntypes l : PK l -> conntypes_design (D l) = (_ <- itrav (F true "ConnTypes") 0 l ;; Ok tt).
Proof.
  intros H. unfold conntypes_design, each_module. cbn [D d_mods]. rewrite each_from_itrav.
  rewrite (itrav_ext_in _ (F true "ConnTypes")); [reflexivity|].
  intros m j _. change (kind_fn true xi "ConnTypes" j d m) with (chk_mod (conntypes_check d j) m).
  unfold chk_mod. rewrite (conntypes_check_ext _ d j m (PK_agree l m H)). reflexivity.
Qed.

Lemma st_portrefs ck l : PK l -> portrefs_design xi (D l) = (l' <- itrav (F ck "ResolvePortRefs") 0 l ;; Ok (D l')).
Proof.
  intros H. unfold portrefs_design, map_modules. cbn [D d_mods d_top]. rewrite (itrav_traverse _ l 0).
  rewrite (itrav_ext_in _ (F ck "ResolvePortRefs")); [reflexivity|].
  intros m j _. change (kind_fn ck xi "ResolvePortRefs" j d m) with (portrefs_module d (ncnames xi m) m).
  apply portrefs_module_ext. apply (PK_agree l m H).
Qed.

Lemma st_arrays ck l : PK l -> arrays_design (D l) = (l' <- itrav (F ck "ArrayFlattener") 0 l ;; Ok (D l')).
Proof.
  intros H. unfold arrays_design, map_modules. cbn [D d_mods d_top]. rewrite (itrav_traverse _ l 0).
  rewrite (itrav_ext_in _ (F ck "ArrayFlattener")); [reflexivity|].
  intros m j _. change (kind_fn ck xi "ArrayFlattener" j d m) with (arrays_module d m).
  apply arrays_module_ext. apply (PK_agree l m H).
Qed.

Lemma st_slices ck l : slices_design (D l) = (l' <- itrav (F ck "SliceResolver") 0 l ;; Ok (D l')).
Proof. unfold slices_design, map_modules. cbn [D d_mods d_top]. rewrite (itrav_traverse _ l 0). reflexivity. Qed.

Lemma st_skip kind l : kind = "InstBundleElabPass"%string \/ kind = "BundleFlattener"%string -> itrav (F true kind) 0 l = Ok l.
Proof. intros [-> | ->]; apply itrav_id. Qed.

Lemma st_off kind l : In kind ["Orphanage"; "InstBundleElabPass"; "ConnTypes"; "BundleFlattener"; "MarkModules"]%string ->
  itrav (F false kind) 0 l = Ok l.
Proof. intros H. cbn [In] in H. repeat (destruct H as [<-|H]; [apply itrav_id|]). destruct H. Qed.

(* the ten entries of Elaborator.default by kind *)
Definition kinds10 : list string :=
  ["Orphanage"; "InstBundleElabPass"; "ResolvePortRefs"; "ConnTypes"; "BundleFlattener"; "ArrayFlattener"; "SliceResolver";
   "ConnTypes"; "Orphanage"; "MarkModules"]%string.
Definition fns (ck : bool) : list sfn := map (fun kind => F ck kind) kinds10.

Ltac chk_stage H Hpk :=
  match goal with
  | |- context [itrav ?f 0 ?l] =>
      destruct (itrav f 0 l) as [?l'|?e] eqn:H; cbn [bind]; [apply itrav_chk_id in H; subst|reflexivity]
  end.

Theorem checked_elab_chain : checked_elab xi d = (_ <- hier_design d ;; l <- chain (fns true) (d_mods d) ;; Ok (D l)).
Proof.
  unfold checked_elab. destruct (hier_design d) as [[]|e]; cbn [bind]; [|reflexivity].
  assert (PK (d_mods d)) as P0 by reflexivity.
  assert (d = D (d_mods d)) as Ed by (unfold D; apply design_eta).
  unfold fns, kinds10. cbn [map chain].
  rewrite Ed at 1. rewrite st_orphanage.
  destruct (itrav (F true "Orphanage") 0 (d_mods d)) as [l0|e] eqn:H0; cbn [bind]; [|reflexivity].
  apply itrav_chk_id in H0. subst l0.
  rewrite (st_skip "InstBundleElabPass" _ (or_introl eq_refl)). cbn [bind].
  rewrite Ed at 1. rewrite (st_portrefs true _ P0).
  destruct (itrav (F true "ResolvePortRefs") 0 (d_mods d)) as [l1|e] eqn:H1; cbn [bind]; [|reflexivity].
  pose proof (PK_step _ _ _ _ P0 H1) as P1.
  rewrite (st_conntypes _ P1).
  destruct (itrav (F true "ConnTypes") 0 l1) as [l1'|e] eqn:H2; cbn [bind]; [|reflexivity].
  apply itrav_chk_id in H2. subst l1'.
  rewrite (st_skip "BundleFlattener" _ (or_intror eq_refl)). cbn [bind].
  rewrite (st_arrays true _ P1).
  destruct (itrav (F true "ArrayFlattener") 0 l1) as [l2|e] eqn:H3; cbn [bind]; [|reflexivity].
  pose proof (PK_step _ _ _ _ P1 H3) as P2.
  rewrite (st_slices true).
  destruct (itrav (F true "SliceResolver") 0 l2) as [l3|e] eqn:H4; cbn [bind]; [|reflexivity].
  pose proof (PK_step _ _ _ _ P2 H4) as P3.
  rewrite (st_conntypes _ P3).
  destruct (itrav (F true "ConnTypes") 0 l3) as [l3'|e] eqn:H5; cbn [bind]; [|reflexivity].
  apply itrav_chk_id in H5. subst l3'.
  rewrite st_orphanage.
  destruct (itrav (F true "Orphanage") 0 l3) as [l3'|e] eqn:H6; cbn [bind]; [|reflexivity].
  apply itrav_chk_id in H6. subst l3'.
  rewrite st_mark.
  destruct (itrav (F true "MarkModules") 0 l3) as [l3'|e] eqn:H7; cbn [bind]; [|reflexivity].
  apply itrav_chk_id in H7. subst l3'. reflexivity.
Qed.

Theorem elab_model_chain : elab_model xi d = (l <- chain (fns false) (d_mods d) ;; Ok (D l)).
Proof.
  unfold elab_model.
  assert (PK (d_mods d)) as P0 by reflexivity.
  assert (d = D (d_mods d)) as Ed by (unfold D; apply design_eta).
  unfold fns, kinds10. cbn [map chain].
  rewrite (st_off "Orphanage") by (cbn; tauto). cbn [bind].
  rewrite (st_off "InstBundleElabPass") by (cbn; tauto). cbn [bind].
  rewrite Ed at 1. rewrite (st_portrefs false _ P0).
  destruct (itrav (F false "ResolvePortRefs") 0 (d_mods d)) as [l1|e] eqn:H1; cbn [bind]; [|reflexivity].
  pose proof (PK_step _ _ _ _ P0 H1) as P1.
  rewrite (st_off "ConnTypes") by (cbn; tauto). cbn [bind].
  rewrite (st_off "BundleFlattener") by (cbn; tauto). cbn [bind].
  rewrite (st_arrays false _ P1).
  destruct (itrav (F false "ArrayFlattener") 0 l1) as [l2|e] eqn:H3; cbn [bind]; [|reflexivity].
  rewrite (st_slices false).
  destruct (itrav (F false "SliceResolver") 0 l2) as [l3|e] eqn:H4; cbn [bind]; [|reflexivity].
  rewrite (st_off "ConnTypes") by (cbn; tauto). cbn [bind].
  rewrite (st_off "Orphanage") by (cbn; tauto). cbn [bind].
  rewrite (st_off "MarkModules") by (cbn; tauto). cbn [bind]. reflexivity.
Qed.

(* without the checks, the checking / bundle entries do nothing: only the three rewriting passes remain *)
Definition off_kinds : list string := ["Orphanage"; "InstBundleElabPass"; "ConnTypes"; "BundleFlattener"; "MarkModules"]%string.
Definition is_off (kind : string) : bool := existsb (String.eqb kind) off_kinds.
Definition rw3 : list string := ["ResolvePortRefs"; "ArrayFlattener"; "SliceResolver"]%string.

Lemma is_off_In kind : is_off kind = true -> In kind off_kinds.
Proof. unfold is_off. intros H. apply existsb_exists in H. destruct H as [x [Hx E]]. apply String.eqb_eq in E. subst. exact Hx. Qed.

Lemma chain_filter_off : forall ks l,
  chain (map (fun kind => F false kind) ks) l = chain (map (fun kind => F false kind) (filter (fun k => negb (is_off k)) ks)) l.
Proof.
  induction ks as [|k ks IH]; intros l; cbn [map filter chain]; [reflexivity|].
  destruct (is_off k) eqn:E; cbn [negb].
  - rewrite (st_off k l (is_off_In k E)). cbn [bind]. apply IH.
  - cbn [map chain]. destruct (itrav (F false k) 0 l); cbn [bind]; [apply IH|reflexivity].
Qed.

Theorem elab_model_chain3 : elab_model xi d = (l <- chain (map (fun kind => F false kind) rw3) (d_mods d) ;; Ok (D l)).
Proof.
  unfold elab_model.
  assert (PK (d_mods d)) as P0 by reflexivity.
  assert (d = D (d_mods d)) as Ed by (unfold D; apply design_eta).
  unfold rw3. cbn [map chain].
  rewrite Ed at 1. rewrite (st_portrefs false _ P0).
  destruct (itrav (F false "ResolvePortRefs") 0 (d_mods d)) as [l1|e] eqn:H1; cbn [bind]; [|reflexivity].
  pose proof (PK_step _ _ _ _ P0 H1) as P1.
  rewrite (st_arrays false _ P1).
  destruct (itrav (F false "ArrayFlattener") 0 l1) as [l2|e] eqn:H3; cbn [bind]; [|reflexivity].
  rewrite (st_slices false).
  destruct (itrav (F false "SliceResolver") 0 l2) as [l3|e] eqn:H4; cbn [bind]; reflexivity.
Qed.
End Stages.

(* ------------------------------------------------------------------------------------------ the regenerated table *)
(* the kinds of the effective entries of Hdl21Gen.DefaultPasses, in order: what the manager really runs *)
Definition tree_kinds : list string := map kind_at (eff_stages cP).

Fixpoint kinds_eqb (a b : list string) : bool :=
  match a, b with
  | [], [] => true
  | x :: a', y :: b' => String.eqb x y && kinds_eqb a' b'
  | _, _ => false
  end.
Lemma kinds_eqb_eq : forall a b, kinds_eqb a b = true -> a = b.
Proof.
  induction a as [|x a IH]; intros [|y b] H; cbn [kinds_eqb] in H; try discriminate; [reflexivity|].
  apply andb_prop in H. destruct H as [H1 H2]. apply String.eqb_eq in H1. subst. f_equal. apply IH. exact H2.
Qed.

(* the two facts about the table the bridge theorems need (boolean; Props/C07ETable.v proves them for the tree under test,
   the correspondence run evaluates them on every run):
     checked_list_ok    the effective entries are exactly the ten kinds of Elaborator.default, in order
     unchecked_list_ok  among the effective entries the rewriting passes are ResolvePortRefs, ArrayFlattener, SliceResolver,
                        in this order, and every other entry is a checking / bundle / marking entry *)
Definition checked_list_ok : bool := kinds_eqb tree_kinds kinds10.
Definition unchecked_list_ok : bool := kinds_eqb (filter (fun k => negb (is_off k)) tree_kinds) rw3.
Definition list_ok (ck : bool) : bool := if ck then checked_list_ok else unchecked_list_ok.

Lemma fns_stage_fn ck xi d : map (stage_fn ck xi d) (eff_stages cP) = map (fun kind j m => kind_fn ck xi kind j d m) tree_kinds.
Proof. unfold tree_kinds. rewrite map_map. reflexivity. Qed.

(* module j of the written design, through the whole list: the manager's `elab_mod` *)
Theorem pm_elab_mod ck xi d j m : nth_error (d_mods d) j = Some m ->
  cont_result (elab_mod ck xi d j) = pm (map (fun kind j m => kind_fn ck xi kind j d m) tree_kinds) j m.
Proof.
  intros Hj. unfold elab_mod. rewrite pm_run_stages, fns_stage_fn. unfold cinit. rewrite Hj. reflexivity.
Qed.

(* THE BRIDGE, whole design: the pipeline accepts and returns d3 iff, module by module, d3 holds what the manager's
   per-module composition returns *)
Definition per_module (ck : bool) (xi : xinfo) (d d3 : design) : Prop :=
  d_top d3 = d_top d /\ Datatypes.length (d_mods d3) = Datatypes.length (d_mods d) /\
  forall j m, nth_error (d_mods d) j = Some m -> exists m3, nth_error (d_mods d3) j = Some m3 /\ elab_mod ck xi d j = cok m3.

Lemma chain_D_per_module ck xi d d3 :
  (l <- chain (map (fun kind j m => kind_fn ck xi kind j d m) tree_kinds) (d_mods d) ;; Ok (D d l)) = Ok d3 <-> per_module ck xi d d3.
Proof.
  split.
  - intros H. apply bind_ok in H. destruct H as [l [Hc H]]. inversion H; subst d3. unfold D, per_module. cbn [d_mods d_top].
    apply chain_per_module in Hc. destruct Hc as [Hl Hn]. split; [reflexivity|]. split; [exact Hl|].
    intros j m Hj. destruct (Hn j m Hj) as [m' [Hj' Hp]]. exists m'. split; [exact Hj'|].
    apply cont_result_cok. rewrite (pm_elab_mod ck xi d j m Hj). exact Hp.
  - intros [Ht [Hl Hn]].
    assert (chain (map (fun kind j m => kind_fn ck xi kind j d m) tree_kinds) (d_mods d) = Ok (d_mods d3)) as Hc.
    { apply chain_per_module. split; [exact Hl|]. intros j m Hj. destruct (Hn j m Hj) as [m3 [Hj3 He]]. exists m3. split; [exact Hj3|].
      rewrite <- (pm_elab_mod ck xi d j m Hj). apply cont_result_cok. exact He. }
    rewrite Hc. cbn [bind]. unfold D. rewrite <- Ht. destruct d3; reflexivity.
Qed.

Theorem checked_elab_per_module xi d d3 : checked_list_ok = true -> hier_design d = Ok tt ->
  (checked_elab xi d = Ok d3 <-> per_module true xi d d3).
Proof.
  intros Hk Hh. rewrite <- chain_D_per_module. apply kinds_eqb_eq in Hk. rewrite Hk.
  rewrite checked_elab_chain, Hh. cbn [bind]. unfold fns. reflexivity.
Qed.

Theorem elab_model_per_module xi d d3 : unchecked_list_ok = true -> (elab_model xi d = Ok d3 <-> per_module false xi d d3).
Proof.
  intros Hk. rewrite <- chain_D_per_module. apply kinds_eqb_eq in Hk. rewrite (chain_filter_off xi d tree_kinds), Hk.
  rewrite elab_model_chain3. reflexivity.
Qed.

Lemma checked_elab_unchecked xi d d3 : checked_elab xi d = Ok d3 -> elab_model xi d = Ok d3.
Proof.
  unfold checked_elab, elab_model. intros H.
  apply bind_ok in H. destruct H as [u1 [_ H]]. apply bind_ok in H. destruct H as [u2 [_ H]]. apply bind_ok in H. destruct H as [d1 [H1 H]].
  apply bind_ok in H. destruct H as [u4 [_ H]]. apply bind_ok in H. destruct H as [d2 [H2 H]]. apply bind_ok in H. destruct H as [d3' [H3 H]].
  apply bind_ok in H. destruct H as [u7 [_ H]]. apply bind_ok in H. destruct H as [u8 [_ H]]. apply bind_ok in H. destruct H as [u9 [_ H]].
  inversion H; subst d3'. rewrite H1. cbn [bind]. rewrite H2. cbn [bind]. exact H3.
Qed.

(* with the ten-entry list, the rewriting entries are the three passes: the first table fact implies the second *)
Lemma checked_list_unchecked : checked_list_ok = true -> unchecked_list_ok = true.
Proof. unfold checked_list_ok, unchecked_list_ok. intros H. apply kinds_eqb_eq in H. rewrite H. reflexivity. Qed.
