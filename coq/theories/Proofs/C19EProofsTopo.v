(* Proofs/C19EProofsTopo.v — the net partition of the Series design IS the documented topology (Spec/C19Topology.v):
   same_net (Spec/Nets.v orbits meet) on terminal bits <-> same series_key; then the chain / end / parallel statements. *)
Require Import Hdl21.Base.PyInt Hdl21.Spec.PySlice Hdl21.Model.Slice Hdl21.Model.Resolve Hdl21.Base.Design
               Hdl21.Spec.Nets Hdl21.Spec.WfDesign Hdl21.Spec.C01ENets
               Hdl21.Spec.C19Topology Hdl21.Model.C19Series Hdl21.Proofs.ResolveProofs Hdl21.Proofs.C19Proofs
               Hdl21.Model.C19EDesign Hdl21.Proofs.C19EProofsStep.
From Coq Require String.
Open Scope string_scope.
Open Scope Z_scope.

Lemma divmod_unique w e c k j : 0 <= k < w -> 0 <= j < w -> e * w + k = c * w + j -> e = c /\ k = j.
Proof.
  intros Hk Hj H. destruct (Z.lt_trichotomy e c) as [L|[L|L]].
  - assert ((e + 1) * w <= c * w) by (apply Z.mul_le_mono_nonneg_r; lia). lia.
  - subst. lia.
  - assert ((c + 1) * w <= e * w) by (apply Z.mul_le_mono_nonneg_r; lia). lia.
Qed.

(* ---------------- series_key, case by case ---------------- *)
Lemma key_port n a b e q k p j : a <> b ->
  (series_key n a b e q k = KPort p j <->
   k = j /\ ((q = a /\ e = 0 /\ p = a) \/ (q = b /\ e = n - 1 /\ p = b) \/ (q <> a /\ q <> b /\ p = q))).
Proof.
  intros Hab. unfold series_key.
  destruct (String.eqb q a) eqn:Ea; [apply String.eqb_eq in Ea|apply String.eqb_neq in Ea].
  - subst q. destruct (e =? 0) eqn:E0.
    + split.
      * intros H. injection H as H1 H2. split; [exact H2|]. left. split; [reflexivity|]. split; [lia|]. symmetry; exact H1.
      * intros [Hk [[_ [_ Hp]]|[[Hq _]|[Hq _]]]]; [subst; reflexivity|congruence|congruence].
    + split; [discriminate|]. intros [Hk [[_ [He _]]|[[Hq _]|[Hq _]]]]; [lia|congruence|congruence].
  - destruct (String.eqb q b) eqn:Eb; [apply String.eqb_eq in Eb|apply String.eqb_neq in Eb].
    + subst q. destruct (e =? n - 1) eqn:E0.
      * split.
        -- intros H. injection H as H1 H2. split; [exact H2|]. right. left. split; [reflexivity|]. split; [lia|]. symmetry; exact H1.
        -- intros [Hk [[Hq _]|[[_ [_ Hp]]|[_ [Hq _]]]]]; [congruence|subst; reflexivity|congruence].
      * split; [discriminate|]. intros [Hk [[Hq _]|[[_ [He _]]|[_ [Hq _]]]]]; [congruence|lia|congruence].
    + split.
      * intros H. injection H as H1 H2. split; [exact H2|]. right. right. split; [exact Ea|]. split; [exact Eb|]. symmetry; exact H1.
      * intros [Hk [[Hq _]|[[Hq _]|[_ [_ Hp]]]]]; [congruence|congruence|subst; reflexivity].
Qed.

Lemma key_chain n a b e q k c j : a <> b ->
  (series_key n a b e q k = KChain c j <->
   k = j /\ ((q = b /\ e = c /\ e <> n - 1) \/ (q = a /\ e = c + 1 /\ e <> 0))).
Proof.
  intros Hab. unfold series_key.
  destruct (String.eqb q a) eqn:Ea; [apply String.eqb_eq in Ea|apply String.eqb_neq in Ea].
  - subst q. destruct (e =? 0) eqn:E0.
    + split; [discriminate|]. intros [Hk [[Hq _]|[_ [_ He]]]]; [congruence|lia].
    + split.
      * intros H. injection H as H1 H2. split; [exact H2|]. right. split; [reflexivity|]. split; lia.
      * intros [Hk [[Hq _]|[_ [He _]]]]; [congruence|]. subst. f_equal. lia.
  - destruct (String.eqb q b) eqn:Eb; [apply String.eqb_eq in Eb|apply String.eqb_neq in Eb].
    + subst q. destruct (e =? n - 1) eqn:E0.
      * split; [discriminate|]. intros [Hk [[_ [_ He]]|[Hq _]]]; [lia|congruence].
      * split.
        -- intros H. injection H as H1 H2. split; [exact H2|]. left. split; [reflexivity|]. split; lia.
        -- intros [Hk [[_ [He _]]|[Hq _]]]; [|congruence]. subst. reflexivity.
    + split; [discriminate|]. intros [Hk [[Hq _]|[Hq _]]]; congruence.
Qed.

(* ---------------- root = the node of the key ---------------- *)
Lemma series_root_key nm io a b w n x : series_ok nm io a b w n = true -> stack_term nm io n x ->
  series_root nm a b w n x = key_node nm w (series_node_key n a b x).
Proof.
  intros Hok Hx. destruct (series_ok_inv _ _ _ _ _ _ Hok) as [_ [_ [Hab _]]].
  destruct Hx as [[p [wp [k [-> _]]]]|[e [p [wp [k [-> _]]]]]]; [reflexivity|].
  cbn [series_root series_node_key]. unfold series_key.
  destruct (String.eqb p b) eqn:Eb; destruct (String.eqb p a) eqn:Ea.
  - apply String.eqb_eq in Eb. apply String.eqb_eq in Ea. congruence.
  - destruct (e =? n - 1); reflexivity.
  - destruct (e =? 0); reflexivity.
  - reflexivity.
Qed.

(* the keys of terminal bits: KPort of a port of the unit, or a chain key with a bit below w *)
Definition key_good (io : list (name * Z)) (w : Z) (key : netkey) : Prop :=
  match key with KPort p j => In p (map fst io) | KChain c j => 0 <= j < w end.

Lemma series_key_good nm io a b w n x : series_ok nm io a b w n = true -> stack_term nm io n x ->
  key_good io w (series_node_key n a b x).
Proof.
  intros Hok Hx. destruct (series_ok_inv _ _ _ _ _ _ Hok) as [_ [Hnd [Hab [Ha [Hb _]]]]].
  destruct Hx as [[p [wp [k [-> [Hin _]]]]]|[e [p [wp [k [-> [Hin [Hk _]]]]]]]].
  - cbn. apply (in_map fst) in Hin. exact Hin.
  - cbn [series_node_key]. unfold series_key.
    destruct (String.eqb p a) eqn:Ea; [apply String.eqb_eq in Ea|]; [|destruct (String.eqb p b) eqn:Eb; [apply String.eqb_eq in Eb|]].
    + subst p. pose proof (assoc_In_nodup io a wp Hnd Hin) as A. rewrite Ha in A. injection A as ->.
      destruct (e =? 0); cbn; [apply (in_map fst) in Hin; exact Hin|exact Hk].
    + subst p. pose proof (assoc_In_nodup io b wp Hnd Hin) as A. rewrite Hb in A. injection A as ->.
      destruct (e =? n - 1); cbn; [apply (in_map fst) in Hin; exact Hin|exact Hk].
    + cbn. apply (in_map fst) in Hin. exact Hin.
Qed.

Lemma key_node_inj nm io w k1 k2 : ~ In (sn_i nm) (map fst io) -> key_good io w k1 -> key_good io w k2 ->
  key_node nm w k1 = key_node nm w k2 -> k1 = k2.
Proof.
  intros Hi G1 G2 H. destruct k1 as [p j|c j]; destruct k2 as [q l|c' l]; cbn in *.
  - injection H as -> ->. reflexivity.
  - injection H as -> _. contradiction.
  - injection H as H1 _. rewrite <- H1 in G2. contradiction.
  - injection H as H. destruct (divmod_unique w c c' j l G1 G2 H) as [-> ->]. reflexivity.
Qed.

(* ---------------- THE PARTITION: one net <-> one key ---------------- *)
Theorem series_partition nm io a b w n x y :
  series_ok nm io a b w n = true -> stack_term nm io n x -> stack_term nm io n y ->
  (same_net (series_design nm io a b w n) x y <-> series_node_key n a b x = series_node_key n a b y).
Proof.
  intros Hok Hx Hy. rewrite (series_same_net nm io a b w n x y Hok Hx Hy).
  rewrite (series_root_key nm io a b w n x Hok Hx), (series_root_key nm io a b w n y Hok Hy).
  destruct (series_ok_inv _ _ _ _ _ _ Hok) as [_ [_ [_ [_ [_ [Hi _]]]]]].
  split.
  - apply (key_node_inj nm io w _ _ Hi); eapply series_key_good; eassumption.
  - intros ->. reflexivity.
Qed.

(* ---------------- terminals used in the statements ---------------- *)
Lemma unit_term nm io n e p wp k : In (p, wp) io -> 0 <= k < wp -> 0 <= e < n ->
  stack_term nm io n (NPort [] (sn_units nm) e p k).
Proof. intros. right. exists e, p, wp, k. auto. Qed.

Lemma port_term nm io n p wp k : In (p, wp) io -> 0 <= k < wp -> stack_term nm io n (NSig [] p k).
Proof. intros. left. exists p, wp, k. auto. Qed.

(* chain net c, bit j: exactly b[j] of unit c and a[j] of unit c+1 *)
Theorem series_chain_nets nm io a b w n c j :
  series_ok nm io a b w n = true -> 0 <= c < n - 1 -> 0 <= j < w ->
  let d := series_design nm io a b w n in
  let ub := NPort [] (sn_units nm) c b j in
  let ua := NPort [] (sn_units nm) (c + 1) a j in
  stack_term nm io n ub /\ stack_term nm io n ua /\ same_net d ub ua /\
  (forall t, stack_term nm io n t -> (same_net d t ub <-> t = ub \/ t = ua)) /\
  (forall t, stack_port io t -> ~ same_net d t ub).
Proof.
  intros Hok Hc Hj d ub ua. destruct (series_ok_inv _ _ _ _ _ _ Hok) as [_ [_ [Hab [Ha [Hb _]]]]].
  assert (stack_term nm io n ub) as Tb by (apply (unit_term nm io n c b w j); [apply assoc_In; exact Hb|lia|lia]).
  assert (stack_term nm io n ua) as Ta by (apply (unit_term nm io n (c + 1) a w j); [apply assoc_In; exact Ha|lia|lia]).
  assert (series_node_key n a b ub = KChain c j) as Kb.
  { cbn [series_node_key ub]. apply (key_chain n a b c b j c j Hab). split; [reflexivity|]. left. repeat split; lia. }
  assert (series_node_key n a b ua = KChain c j) as Ka.
  { cbn [series_node_key ua]. apply (key_chain n a b (c + 1) a j c j Hab). split; [reflexivity|]. right. repeat split; lia. }
  assert (forall t, stack_term nm io n t -> (same_net d t ub <-> t = ub \/ t = ua)) as Hall.
  { intros t Ht. unfold d. rewrite (series_partition nm io a b w n t ub Hok Ht Tb). rewrite Kb. split.
    - destruct Ht as [[p [wp [k [-> _]]]]|[e [p [wp [k [-> _]]]]]]; cbn [series_node_key]; [discriminate|].
      intros H. apply (key_chain n a b e p k c j Hab) in H. destruct H as [-> [[-> [-> _]]|[-> [-> _]]]]; [left|right]; reflexivity.
    - intros [->| ->]; assumption. }
  split; [exact Tb|]. split; [exact Ta|]. split.
  { unfold d. apply (series_partition nm io a b w n ub ua Hok Tb Ta). rewrite Kb, Ka. reflexivity. }
  split; [exact Hall|].
  intros t Hp Hs. assert (stack_term nm io n t) as Ht by (left; exact Hp).
  apply (Hall t Ht) in Hs. destruct Hp as [p [wp [k [-> _]]]]. destruct Hs; discriminate.
Qed.

(* the ends: a[j] of unit 0 is on the stack's a[j]; b[j] of unit n-1 on the stack's b[j]; nothing else is *)
Theorem series_end_nets nm io a b w n j :
  series_ok nm io a b w n = true -> 0 <= j < w ->
  let d := series_design nm io a b w n in
  (forall t, stack_term nm io n t -> (same_net d t (NSig [] a j) <-> t = NSig [] a j \/ t = NPort [] (sn_units nm) 0 a j)) /\
  (forall t, stack_term nm io n t -> (same_net d t (NSig [] b j) <-> t = NSig [] b j \/ t = NPort [] (sn_units nm) (n - 1) b j)).
Proof.
  intros Hok Hj d. destruct (series_ok_inv _ _ _ _ _ _ Hok) as [_ [_ [Hab [Ha [Hb [_ [_ [_ [_ Hn]]]]]]]]].
  assert (stack_term nm io n (NSig [] a j)) as Pa by (apply (port_term nm io n a w j); [apply assoc_In; exact Ha|lia]).
  assert (stack_term nm io n (NSig [] b j)) as Pb by (apply (port_term nm io n b w j); [apply assoc_In; exact Hb|lia]).
  split; intros t Ht; unfold d.
  - rewrite (series_partition nm io a b w n t _ Hok Ht Pa). change (series_node_key n a b (NSig [] a j)) with (KPort a j). split.
    + destruct Ht as [[p [wp [k [-> _]]]]|[e [p [wp [k [-> _]]]]]]; cbn [series_node_key].
      * intros H. injection H as -> ->. left. reflexivity.
      * intros H. apply (key_port n a b e p k a j Hab) in H.
        destruct H as [-> [[-> [-> _]]|[[-> [_ Hp]]|[Hq [_ Hp]]]]]; [right; reflexivity|congruence|congruence].
    + intros [->| ->]; [reflexivity|]. cbn [series_node_key]. apply (key_port n a b 0 a j a j Hab).
      split; [reflexivity|]. left. repeat split; reflexivity.
  - rewrite (series_partition nm io a b w n t _ Hok Ht Pb). change (series_node_key n a b (NSig [] b j)) with (KPort b j). split.
    + destruct Ht as [[p [wp [k [-> _]]]]|[e [p [wp [k [-> _]]]]]]; cbn [series_node_key].
      * intros H. injection H as -> ->. left. reflexivity.
      * intros H. apply (key_port n a b e p k b j Hab) in H.
        destruct H as [-> [[-> [_ Hp]]|[[-> [-> _]]|[_ [Hq Hp]]]]]; [congruence|right; reflexivity|congruence].
    + intros [->| ->]; [reflexivity|]. cbn [series_node_key]. apply (key_port n a b (n - 1) b j b j Hab).
      split; [reflexivity|]. right. left. repeat split; reflexivity.
Qed.

(* every other port: bit j of p of EVERY unit is on the stack's p[j], and nothing else is *)
Theorem series_parallel_nets nm io a b w n p wp j :
  series_ok nm io a b w n = true -> In (p, wp) io -> p <> a -> p <> b -> 0 <= j < wp ->
  let d := series_design nm io a b w n in
  forall t, stack_term nm io n t ->
    (same_net d t (NSig [] p j) <-> t = NSig [] p j \/ exists e, 0 <= e < n /\ t = NPort [] (sn_units nm) e p j).
Proof.
  intros Hok Hin Hpa Hpb Hj d t Ht. destruct (series_ok_inv _ _ _ _ _ _ Hok) as [_ [_ [Hab _]]].
  assert (stack_term nm io n (NSig [] p j)) as Pp by (apply (port_term nm io n p wp j); assumption).
  unfold d. rewrite (series_partition nm io a b w n t _ Hok Ht Pp). change (series_node_key n a b (NSig [] p j)) with (KPort p j). split.
  - destruct Ht as [[q [wq [k [-> _]]]]|[e [q [wq [k [-> [_ [_ He]]]]]]]]; cbn [series_node_key].
    + intros H. injection H as -> ->. left. reflexivity.
    + intros H. apply (key_port n a b e q k p j Hab) in H.
      destruct H as [-> [[_ [_ Hp]]|[[_ [_ Hp]]|[_ [_ Hp]]]]]; [congruence|congruence|].
      subst q. right. exists e. split; [exact He|reflexivity].
  - intros [->|[e [He ->]]]; [reflexivity|]. cbn [series_node_key]. apply (key_port n a b e p j p j Hab).
    split; [reflexivity|]. right. right. repeat split; assumption.
Qed.

(* ---------------- Wrapper ---------------- *)
Theorem wrapper_partition nm io x y :
  wrapper_ok nm io = true -> wrapper_term nm io x -> wrapper_term nm io y ->
  (same_net (wrapper_design nm io) x y <-> wrapper_node_key x = wrapper_node_key y).
Proof.
  intros Hok Hx Hy. rewrite (wrapper_same_net nm io x y Hok Hx Hy).
  destruct Hx as [[p [wp [k [-> _]]]]|[p [wp [k [-> _]]]]]; destruct Hy as [[q [wq [l [-> _]]]]|[q [wq [l [-> _]]]]];
    cbn [wrapper_root wrapper_node_key wrapper_key]; split; intros H; injection H as -> ->; reflexivity.
Qed.
