(* Proofs/C16EProofsNets.v — flatten_pkg keeps the bit-level nets of Spec/Nets.v: composition of
     Proofs/C16EProofsBridge.v (Spec/Nets.v = Spec/C16Flat.v on wf whole-signal packages), on the hierarchical package and on the
     flat one, with Props/C16.v:C16_nets_preserved_bits (the tree theorem) through Proofs/C16EProofsRefine.v. *)
Require Import Hdl21.Base.PyInt Hdl21.Spec.PySlice Hdl21.Model.Slice Hdl21.Model.Resolve Hdl21.Base.Design
               Hdl21.Spec.Nets Hdl21.Spec.WfDesign Hdl21.Base.Package Hdl21.Base.PrimTable Hdl21.Spec.PkgWf Hdl21.Spec.C01ENets
               Hdl21.Spec.C16Flat Hdl21.Model.C16Flatten Hdl21.Corr.C16 Hdl21.Model.C16EPkg
               Hdl21.Proofs.FunGraph Hdl21.Proofs.PkgWfProofs Hdl21.Proofs.C01EProofsBase Hdl21.Proofs.C01EProofsGraph
               Hdl21.Proofs.C01EProofsPass Hdl21.Proofs.C01EProofsSim Hdl21.Proofs.C01EProofsExport Hdl21.Proofs.C16Proofs
               Hdl21.Proofs.C16EProofsRefine Hdl21.Proofs.C16EProofsBridge.
From Coq Require Import String.
Open Scope string_scope.
Open Scope list_scope.
Open Scope Z_scope.

(* ---------------------------------------------------------------------------------------------- walk succeeded => the tree exists *)
Lemma traverse_total {A B} (g : A -> result B) l : (forall a, In a l -> exists b, g a = Ok b) -> exists r, traverse g l = Ok r.
Proof.
  induction l as [|a l IH]; intros H; [exists []; reflexivity|]. cbn [traverse].
  destruct (H a (or_introl eq_refl)) as [b Hb]. rewrite Hb. cbn [bind].
  destruct IH as [r Hr]; [intros a' Ha'; apply H; right; exact Ha'|]. rewrite Hr. cbn [bind]. eauto.
Qed.

Lemma pcollect_ok_each {A} (fp : A -> result pwout) l : forall r, pcollect fp l = Ok r -> forall a, In a l -> exists r', fp a = Ok r'.
Proof.
  induction l as [|a l IH]; intros r H a' Ha'; [destruct Ha'|]. cbn [pcollect] in H.
  apply bind_ok in H. destruct H as [r1 [H1 H]]. apply bind_ok in H. destruct H as [r2 [H2 _]].
  destruct Ha' as [<-|Ha']; [eauto|]. eapply IH; eauto.
Qed.

Lemma pwalk_ok_tree p : forall f path m env r, pwalk p f path m env = Ok r -> exists M, hmod_of_pkg p f m = Ok M.
Proof.
  induction f as [|f IH]; intros path m env r H; [discriminate|]. cbn [pwalk] in H.
  apply bind_ok in H. destruct H as [mports [Hp H]]. cbn [hmod_of_pkg].
  match goal with |- exists M, bind (traverse ?g ?l) _ = _ => destruct (traverse_total g l) as [body Hb] end.
  - intros i Hi. destruct (pcollect_ok_each _ _ _ H i Hi) as [r' Hr']. apply bind_ok in Hr'. destruct Hr' as [nc [_ Hr']].
    destruct (pi_ref i) as [nm|dom nm].
    + apply bind_ok in Hr'. destruct Hr' as [m' [Hm' Hr']]. rewrite Hm'. cbn [bind]. apply bind_ok in Hr'. destruct Hr' as [r2 [Hr2 _]].
      destruct (IH _ _ _ _ Hr2) as [M' HM']. rewrite HM'. cbn [bind]. eauto.
    + apply bind_ok in Hr'. destruct Hr' as [tg [Htg Hr']]. rewrite Htg. cbn [bind]. destruct tg; [discriminate|eauto].
  - rewrite Hb. cbn [bind]. unfold pm_port_widths in Hp. rewrite Hp. cbn [bind]. eauto.
Qed.

Lemma hmod_of_pkg_intro p f m body ports : Forall2 (inst_rel p f) (pm_insts m) body -> pm_port_widths m = Ok ports ->
  hmod_of_pkg p (S f) m = Ok {| h_ports := ports; h_sigs := pm_internal m; h_body := body |}.
Proof.
  intros HF Hp. cbn [hmod_of_pkg]. unfold inst_rel in HF. rewrite (Forall2_traverse _ _ _ HF). cbn [bind].
  unfold pm_port_widths in Hp. rewrite Hp. reflexivity.
Qed.

(* ---------------------------------------------------------------------------------------------- the flat package, read as a tree *)
Lemma has_key_in {A} s (l : list (name * A)) : has_key s l = true <-> In s (map fst l).
Proof.
  rewrite has_key_assoc. split.
  - intros [v Hv]. apply assoc_In in Hv. apply (in_map fst) in Hv. exact Hv.
  - intros Hin. destruct (assoc s l) as [v|] eqn:E; [eauto|]. exfalso. apply assoc_None_notin in E. exact (E Hin).
Qed.

Lemma port_widths_names m mports : pm_port_widths m = Ok mports -> map fst mports = map fst (pm_ports m).
Proof.
  unfold pm_port_widths. revert mports. induction (pm_ports m) as [|[n d] l IH]; intros r H; cbn [traverse] in H; [inversion H; reflexivity|].
  apply bind_ok in H. destruct H as [y [Hy H]]. apply bind_ok in H. destruct H as [ys [Hys H]]. inversion H; subst; clear H.
  apply bind_ok in Hy. destruct Hy as [w [_ Hy]]. inversion Hy; subst. cbn [map fst]. f_equal. apply IH. exact Hys.
Qed.

Lemma flat_body_gen p q0 nodes : pk_exts q0 = pk_exts p -> Forall (pnode_ok p) nodes ->
  traverse (fun i =>
                let conns := map pconn_hconn (pi_conns i) in
                match pi_ref i with
                | PLocal nm =>
                    m' <- ofopt EMissing (find_pmodule (pk_mods q0) nm) ;;
                    M' <- hmod_of_pkg q0 1 m' ;;
                    Ok (ISub (pi_name i) (h_ports M') (h_sigs M') (h_body M') conns)
                | PExt _ _ =>
                    tg <- pinst_target prims_ext q0 i ;;
                    match tg with
                    | TDev dev ps => Ok (ILeaf (pi_name i) dev ps conns)
                    | TMod _ => Error EBadKind
                    end
                end) (map pnode_inst nodes) = Ok (map finst_hinst (map an_finst (map fst nodes))).
Proof.
  intros Hex Hnodes. match goal with |- traverse ?g _ = _ => set (G := g) end.
  induction Hnodes as [|n l Hn _ IH]; [reflexivity|].
  cbn [map]. cbn [traverse]. rewrite IH. clear IH.
  assert (G (pnode_inst n) = Ok (finst_hinst (an_finst (fst n)))) as ->; [|reflexivity].
  unfold G. cbv zeta. destruct Hn as [He [Ht [_ _]]]. unfold is_ext in He.
  cbn [pnode_inst pi_ref pi_name pi_conns]. destruct (pi_ref (snd n)) as [nm|dom nm] eqn:Er; [discriminate|].
  assert (pinst_target prims_ext q0 (pnode_inst n) = pinst_target prims_ext p (snd n)) as ->.
  { unfold pinst_target. cbn [pnode_inst pi_ref pi_params]. rewrite Er, Hex. reflexivity. }
  rewrite Ht. cbn [bind]. f_equal. unfold finst_hinst, an_finst. cbn [fi_name fi_dev fi_dports fi_conns]. f_equal.
  rewrite !map_map. apply map_ext. intros c. reflexivity.
Qed.

Section FlatTree.
Variables (p : package) (top : name) (hm : pmodule) (t : hmod) (nodes : list pnode).
Let f := flat_fmod t nodes.
Let fm := flat_pmodule top hm (h_ports t) nodes.
Let q := one_module p fm.
Hypothesis Hnodes : Forall (pnode_ok p) nodes.
Hypothesis Hports : pm_port_widths hm = Ok (h_ports t).
Hypothesis Hnd : NoDup (map fst (pm_sigs fm)).

Lemma fm_sigs : pm_sigs fm = f_sigs f ++ h_ports t.
Proof. reflexivity. Qed.

Lemma flat_port_widths : pm_port_widths fm = Ok (h_ports t).
Proof.
  unfold pm_port_widths. change (pm_ports fm) with (pm_ports hm). unfold pm_port_widths in Hports.
  assert (forall pn w, In (pn, w) (h_ports t) -> assoc pn (pm_sigs fm) = Some w) as X.
  { intros pn w Hin. apply assoc_nodup_In; [exact Hnd|]. rewrite fm_sigs. apply in_or_app. right. exact Hin. }
  revert X Hports. generalize (h_ports t). induction (pm_ports hm) as [|[n d] l IH]; intros r X H; cbn [traverse] in *; [exact H|].
  apply bind_ok in H. destruct H as [y [Hy H]]. apply bind_ok in H. destruct H as [ys [Hys H]]. inversion H; subst; clear H.
  cbn [fst] in *. apply bind_ok in Hy. destruct Hy as [w [_ Hy]]. inversion Hy; subst; clear Hy.
  rewrite (X n w (or_introl eq_refl)). cbn [ofopt bind]. rewrite (IH ys); [reflexivity| |exact Hys].
  intros pn w' Hin. apply X. right. exact Hin.
Qed.

Lemma flat_internal : pm_internal fm = f_sigs f.
Proof.
  unfold pm_internal. rewrite fm_sigs. change (pm_ports fm) with (pm_ports hm). rewrite filter_app.
  pose proof (port_widths_names _ _ Hports) as En. rewrite fm_sigs, map_app in Hnd.
  rewrite (filter_none _ (h_ports t)).
  - rewrite app_nil_r. apply filter_all. intros [s w] Hin. cbn [fst]. apply negb_true_iff.
    destruct (has_key s (pm_ports hm)) eqn:E; [|reflexivity]. exfalso. apply has_key_in in E. rewrite <- En in E.
    apply (NoDup_app_disj _ _ s Hnd); [apply (in_map fst) in Hin; exact Hin|exact E].
  - intros [s w] Hin. cbn [fst]. apply negb_false_iff. apply has_key_in. rewrite <- En. apply (in_map fst) in Hin. exact Hin.
Qed.

Lemma flat_tree : hmod_of_pkg q (pkg_fuel q) fm = Ok (fmod_hmod f).
Proof.
  unfold pkg_fuel. change (S (Datatypes.length (pk_mods q))) with 2%nat. unfold q.
  rewrite (hmod_of_pkg_intro (one_module p fm) 1 fm (map finst_hinst (f_insts f)) (h_ports t)).
  - unfold fmod_hmod. rewrite flat_internal. reflexivity.
  - change (pm_insts fm) with (map pnode_inst nodes). unfold f, flat_fmod. rewrite build_insts.
    exact (traverse_Forall2 _ _ _ (flat_body_gen p (one_module p fm) nodes eq_refl Hnodes)).
  - exact flat_port_widths.
Qed.

Lemma flat_no_other : existsb has_other (h_body (fmod_hmod f)) = false.
Proof.
  unfold fmod_hmod. cbn [h_body]. induction (f_insts f) as [|fi l IH]; [reflexivity|]. cbn [map existsb]. rewrite IH, orb_false_r.
  unfold finst_hinst. cbn [has_other]. induction (fi_conns fi) as [|c cs IHc]; [reflexivity|]. cbn [map existsb]. rewrite IHc. reflexivity.
Qed.
End FlatTree.

(* ---------------------------------------------------------------------------------------------- composition *)
Definition pkg_tree (p : package) (top : name) : result hmod :=
  hm <- ofopt EMissing (find_pmodule (pk_mods p) top) ;; hmod_of_pkg p (pkg_fuel p) hm.

Definition pkg_is_flat (p : package) (top : name) : bool :=
  match find_pmodule (pk_mods p) top with Some hm => pm_is_flat hm | None => false end.

(* the hierarchy read from the package has unique instance names per module and sub-module connections naming ports of the
   sub-module (Spec/C16Flat.v:wf_hier - what wf_pkg says about the modules reachable from the top) *)
Definition tree_wf (p : package) (top : name) : bool :=
  match pkg_tree p top with Ok t => wf_hier t | Error _ => false end.

(* x is a bit of a terminal of the hierarchy: of a port of the top module or of a connected port of a leaf device *)
Definition term_bit (p : package) (top : name) (x : node) : Prop :=
  match pkg_tree p top with Ok t => In (fst (cv x)) (C16Flat.terminals t) | Error _ => False end.

Lemma cv_trn x : match x with NNc _ _ _ => False | _ => True end -> cv (trn x) = (tr (fst (cv x)), snd (cv x)).
Proof. destruct x as [pth s k|pth i e port k|]; [reflexivity|reflexivity|tauto]. Qed.

Theorem nets_preserved_pkg p top q pd qd :
  wf_pkg prims_ext p = Ok tt -> tree_wf p top = true -> pkg_is_flat p top = false ->
  flatten_pkg p top = Ok q -> wf_pkg prims_ext q = Ok tt ->
  design_of_pkg prims_ext p top = Ok pd -> design_of_pkg prims_ext q (flat_top p top) = Ok qd ->
  forall x y, valid pd x -> valid pd y -> term_bit p top x -> term_bit p top y -> valid qd (trn x) -> valid qd (trn y) ->
    (same_net pd x y <-> same_net qd (trn x) (trn y)).
Proof.
  intros Hwfp Htw Hnf Hfl Hwfq Hpd Hqd x y Vx Vy Tx Ty Vx' Vy'.
  unfold flatten_pkg in Hfl. unfold pkg_is_flat in Hnf. unfold tree_wf, pkg_tree in Htw. unfold term_bit, pkg_tree in Tx, Ty. unfold flat_top in Hqd.
  destruct (find_pmodule (pk_mods p) top) as [hm|] eqn:Hfind; [|discriminate]. cbn [ofopt bind] in *. rewrite Hnf in Hfl, Hqd.
  apply bind_ok in Hfl. destruct Hfl as [mports [Hmp Hfl]]. apply bind_ok in Hfl. destruct Hfl as [r [Hr Hfl]].
  destruct (pwalk_ok_tree _ _ _ _ _ _ Hr) as [t Ht]. rewrite Ht in Htw, Tx, Ty.
  pose proof (flatten_pkg_refines p top hm t Hfind Ht) as Href.
  assert (flatten_pkg p top = Ok q) as Hfl'.
  { unfold flatten_pkg. rewrite Hfind. cbn [ofopt bind]. rewrite Hnf, Hmp. cbn [bind]. rewrite Hr. cbn [bind]. exact Hfl. }
  destruct (flatten t) as [[|f]|e] eqn:Eft.
  - destruct Href as [_ Hf]. congruence.
  - destruct Href as [nodes [Hq [_ [Ef [Hnodes [Hsigs _]]]]]]. rewrite Hfl' in Hq. inversion Hq; subst q; clear Hq.
    assert (existsb has_other (h_body t) = false) as Hno.
    { destruct (existsb has_other (h_body t)) eqn:E; [|reflexivity]. exfalso.
      destruct (flatten_inv _ _ Eft) as [_ [_ [_ [_ [_ Hif]]]]].
      destruct (flatten_rejects_other t Hif E) as [e He]. congruence. }
    set (fm := flat_pmodule top hm (h_ports t) nodes) in *.
    assert (pm_port_widths hm = Ok (h_ports t)) as Hpw.
    { unfold pkg_fuel in Ht. destruct (hmod_of_pkg_inv _ _ _ _ Ht) as [body [ports [_ [Hp ->]]]]. exact Hp. }
    assert (NoDup (map fst (pm_sigs fm))) as Hnd.
    { pose proof Hwfq as H0. unfold wf_pkg in H0. apply bind_ok in H0. destruct H0 as [u1 [_ H1]]. apply bind_ok in H1. destruct H1 as [u2 [_ H2]].
      cbn [one_module pk_mods wf_pmods] in H2. apply bind_ok in H2. destruct H2 as [u3 [H3 _]]. unfold wf_pmodule in H3.
      apply bind_ok in H3. destruct H3 as [u4 [_ H4]]. apply bind_ok in H4. destruct H4 as [u5 [_ H5]]. apply bind_ok in H5. destruct H5 as [u6 [H6 _]].
      destruct u6. apply check_ok in H6. apply nodup_names_NoDup. exact H6. }
    pose proof (flat_tree p top hm t nodes Hnodes Hpw Hnd) as Hft. fold fm in Hft.
    assert (find_pmodule (pk_mods (one_module p fm)) (flat_name_of top) = Some fm) as Hffind.
    { cbn [one_module pk_mods find_pmodule]. change (pm_name fm) with (flat_name_of top). rewrite String.eqb_refl. reflexivity. }
    pose proof (flat_no_other t nodes) as Hfno.
    rewrite (bridge_same_net p top pd hm t Hwfp Hpd Hfind Ht Hno x y Vx Vy).
    rewrite (bridge_same_net (one_module p fm) (flat_name_of top) qd fm _ Hwfq Hqd Hffind Hft Hfno (trn x) (trn y) Vx' Vy').
    assert (forall z, valid pd z -> match z with NNc _ _ _ => False | _ => True end) as NN by (intros [| |]; cbn [valid]; tauto).
    rewrite (cv_trn x (NN x Vx)), (cv_trn y (NN y Vy)).
    destruct (cv x) as [a k] eqn:Ea. destruct (cv y) as [b k'] eqn:Eb. cbn [fst snd] in *.
    change (hstep_bit t) with (fun nk : hnode * Z => (hstep t (fst nk), snd nk)).
    change (hstep_bit (fmod_hmod (flat_fmod t nodes))) with (fun nk : hnode * Z => (hstep (fmod_hmod (flat_fmod t nodes)) (fst nk), snd nk)).
    rewrite !conn_bits. rewrite <- Ef.
    destruct (flatten_inv _ _ Eft) as [tn [cl [Hw [Hc [-> _]]]]].
    rewrite (nets_preserved t tn cl Htw Hw Hc a b Tx Ty). reflexivity.
  - congruence.
Qed.
