(* Proofs/C18YProofs.v — lemmas behind Props/C18Y.v (second strengthening round: Signal directions; class bodies with
   plain data followed by edits) *)
Require Import Hdl21.Base.PyInt Hdl21.Spec.Namespace Hdl21.Model.Namespace Hdl21.Proofs.NamespaceProofs.
Require Import Hdl21.Spec.C18World Hdl21.Model.C18World Hdl21.Proofs.C18WorldProofs.
From Coq Require Import String Ascii.
Open Scope list_scope.
Open Scope Z_scope.
Notation get := Hdl21.Model.Namespace.get.

(* ------------------------------------------------------------------ the view of a signal is decided by `vis` alone *)
Lemma view_of_dir c p d d' : view_of c (KSignal p d) = view_of c (KSignal p d').
Proof. destruct c, p; reflexivity. Qed.

Lemma view_of_signal_module p d : view_of CModule (KSignal p d) = Some (if p then VPorts else VSignals).
Proof. destruct p; reflexivity. Qed.

(* `x.direction = d` : no container changes, no other object changes, the object keeps visibility, name and parents *)
Lemma wdir_effect w x d w' : wmstep w (WDir x d) = Some w' ->
  (forall ci, w_st w' ci = w_st w ci) /\
  (forall y, y <> x -> w_heap w' y = w_heap w y) /\
  exists p d0 nm pm pb, w_heap w x = Some (Ob (KSignal p d0) nm pm pb) /\ w_heap w' x = Some (Ob (KSignal p d) nm pm pb).
Proof.
  unfold wmstep. simpl. destruct (w_heap w x) as [[k nm pm pb]|] eqn:E; [|discriminate].
  destruct k as [p d0| | | | | |]; try discriminate. intros H. inversion H. simpl. repeat split.
  - intros y Hy. apply hupd_other. exact Hy.
  - exists p, d0, nm, pm, pb. split; [reflexivity|apply hupd_same].
Qed.

(* `x.vis = ..` keeps the direction: a directed port turned internal is an internal signal WITH a direction *)
Lemma wvis_effect w x q w' : wmstep w (WVis x q) = Some w' ->
  (forall ci, w_st w' ci = w_st w ci) /\
  exists p d nm pm pb, w_heap w x = Some (Ob (KSignal p d) nm pm pb) /\ w_heap w' x = Some (Ob (KSignal q d) nm pm pb).
Proof.
  unfold wmstep. simpl. destruct (w_heap w x) as [[k nm pm pb]|] eqn:E; [|discriminate].
  destruct k as [p d0| | | | | |]; try discriminate. intros H. inversion H. simpl. split; [reflexivity|].
  exists p, d0, nm, pm, pb. split; [reflexivity|apply hupd_same].
Qed.

(* ------------------------------------------------------------------ names no operation binds stay unbound *)
Definition op_key (o : op) : option name :=
  match o with SetAttr n _ => Some n | _ => None end.

Lemma spec_apply_other_key c a m v n : m <> n -> a_map (spec_apply c a (SetAttr m v)) n = a_map a n.
Proof.
  intros Hn. unfold spec_apply, spec_step. destruct (is_private m); [reflexivity|].
  destruct (String.eqb m "name"%string); [destruct (v_kind v); reflexivity|].
  unfold spec_insert. destruct (a_elab a); [reflexivity|]. destruct (reserved c m); [reflexivity|].
  destruct (negb (is_attr c (v_kind v))); [reflexivity|]. simpl.
  destruct (String.eqb n m) eqn:E; [|reflexivity]. apply String.eqb_eq in E. congruence.
Qed.

Lemma spec_fold_setattrs_unbound c (kvs : list (name * value)) n : forall a,
  a_map a n = None -> (forall kv, In kv kvs -> fst kv <> n) ->
  a_map (fold_left (spec_apply c) (map (fun kv => SetAttr (fst kv) (snd kv)) kvs) a) n = None.
Proof.
  induction kvs as [|[k v] t IH]; simpl; intros a Ha Hk; [exact Ha|].
  apply IH; [|intros kv Hin; apply Hk; right; exact Hin].
  rewrite spec_apply_other_key; [exact Ha|]. apply (Hk (k, v)). left. reflexivity.
Qed.
