(* Proofs/C02EProofsPortRefs.v — one ARBITRARY module that passed Orphanage, ResolvePortRefs and ConnTypes in the checked
   pipeline (Model/C02EPipeline.v): every fault class that lives in a single module's connections is excluded.
     orphan / foreign Signal or Instance      <- Orphanage              (orph_leaf)
     reference to a non-existent port         <- create_source          (ref_target: plan_any, meets_fixed)
     no-connect that is also referenced       <- handle_noconn          (nc_unreferenced)
     width through a reference                <- ConnTypes on the group's resolved connection (ref_facts: res_next)
     width / missing / extra / unknown port / index  <- ConnTypes.check_instance (single_facts, added_referenced)
   The array cases take what ArrayFlattener and PostFlattenConnTypes establish as hypotheses (array_inst_wf);
   Proofs/C02EProofsArrays.v supplies them. *)
From Coq Require Import String.
Require Import Hdl21.Base.PyInt Hdl21.Spec.PySlice Hdl21.Model.Slice Hdl21.Model.Resolve Hdl21.Base.Design
               Hdl21.Spec.WfDesign Hdl21.Model.Checks Hdl21.Model.C02Checks Hdl21.Model.C01EElab Hdl21.Model.C02EPipeline
               Hdl21.Proofs.FunGraph Hdl21.Proofs.ResolveProofs Hdl21.Proofs.ChecksProofs Hdl21.Proofs.C02Proofs
               Hdl21.Proofs.C01EProofsBase Hdl21.Proofs.C01EProofsPass Hdl21.Proofs.C01EProofsGroups Hdl21.Proofs.C01EProofsPlan
               Hdl21.Proofs.C01EProofsPortRefs Hdl21.Proofs.C02EProofsBase Hdl21.Proofs.C02EProofsPlan.
Open Scope Z_scope.

(* ------------------------------------------------------------------------------------------ small facts *)
Lemma ct_width_xwidth m e w : ct_width m e = Ok w -> xwidth e = Ok w.
Proof. unfold ct_width. destruct (leaf_at m e) as [[s|i p|s]|]; try discriminate; auto. Qed.

Lemma ct_widths_assoc (g : sx -> result Z) : forall l cws,
  traverse (fun c : name * sx => w <- g (snd c) ;; Ok (fst c, w)) l = Ok cws ->
  map fst cws = map fst l /\
  forall p, match assoc p l with
            | Some e => exists w, g e = Ok w /\ assoc p cws = Some w
            | None => assoc p cws = None
            end.
Proof.
  induction l as [|[k e] l IH]; intros cws H; cbn [traverse] in H.
  - inversion H; subst. split; [reflexivity|]. intros p. reflexivity.
  - cbn [fst snd] in H. apply bind_ok in H. destruct H as [[k' w] [H1 H]]. apply bind_ok in H1. destruct H1 as [w1 [Hg H1]]. inversion H1; subst k' w1.
    apply bind_ok in H. destruct H as [r [Hr H]]. inversion H; subst cws. destruct (IH r Hr) as [I1 I2]. split.
    + cbn [map fst]. rewrite I1. reflexivity.
    + intros p. cbn [assoc]. destruct (String.eqb p k); [exists w; split; [exact Hg|reflexivity]|apply I2].
Qed.

Lemma orphan_leaves self m e : orphan_ok self (oconn_e self m e) = true ->
  forall lw, In lw (sx_leaves e) -> orphan_ok self (leaf_oconn self m (fst lw)) = true.
Proof.
  induction e as [id w|p ix IH|ps IH] using sx_ind'; cbn [oconn_e orphan_ok sx_leaves].
  - intros H lw [<-|[]]. exact H.
  - exact IH.
  - intros H lw Hin. induction IH as [|p ps Hp _ IHps]; cbn [map forallb concat] in *; [destruct Hin|].
    apply andb_prop in H. destruct H as [A B]. apply in_app_or in Hin. destruct Hin as [Hin|Hin]; [apply Hp|apply IHps]; assumption.
Qed.

Lemma zlen_nonneg {A} (l : list A) : 0 <= zlen l.
Proof. unfold zlen. lia. Qed.

Lemma refs_to_nonneg m i p : 0 <= refs_to m i p.
Proof. unfold refs_to. apply zlen_nonneg. Qed.

Section PRAny.
Variables (d : design) (ncn : list (N * name)) (self : nat) (m : module).
Variables (keys : list key) (allocs : list alloc) (names : list name) (insts1 : list inst).
Let table := number_allocs (combine allocs names) (next_leaf m).

(* given: what Python guarantees and the printer's annotations *)
Hypothesis Gnames : NoDup (map i_name (m_insts m)).
Hypothesis Gconns : forall x, In x (m_insts m) -> NoDup (map fst (i_conns x)).
Hypothesis Gports : forall x ports, In x (m_insts m) -> target_ports d (i_of x) = Ok ports -> nodup_names (map fst ports) = true.
Hypothesis Gpos : forall x ports pw, In x (m_insts m) -> target_ports d (i_of x) = Ok ports -> In pw ports -> 1 <= snd pw.
Hypothesis Gsig : forall x c lw, In x (m_insts m) -> In c (i_conns x) -> In lw (sx_leaves (snd c)) -> annot_ok m lw = true.
Hypothesis Gref : forall x c lw, In x (m_insts m) -> In c (i_conns x) -> In lw (sx_leaves (snd c)) -> ref_annot_ok d m lw = true.
(* the fragment *)
Hypothesis Fwhole : forall x c, In x (m_insts m) -> In c (i_conns x) -> conn_whole m c = true.
Hypothesis Fsingle : forall x c lw, In x (m_insts m) -> In c (i_conns x) -> In lw (sx_leaves (snd c)) -> ref_single m lw = true.
(* the passes that succeeded *)
Hypothesis Horph : orphanage_check self m = Ok tt.
Hypothesis Hkeys : all_keys d m = Ok keys.
Hypothesis Hplan : plan d ncn m keys (seeds m) [] = Ok allocs.
Hypothesis Hins : Forall2 (fun x x1 => rewrite_inst m keys table x = Ok x1) (m_insts m) insts1.
Hypothesis Hct : forall x1, In x1 insts1 -> conntypes_inst d (m1 m allocs names insts1) x1 = Ok tt.

Let KN := Datatypes.length keys.

(* ---- lookups ---- *)
Lemma pa_find x : In x (m_insts m) -> find_inst (m_insts m) (i_name x) = Some x.
Proof. apply find_inst_unique. exact Gnames. Qed.

Lemma pa_assoc x c : In x (m_insts m) -> In c (i_conns x) -> assoc (fst c) (i_conns x) = Some (snd c).
Proof. intros Hx Hc. destruct c as [p cx]. apply assoc_nodup_In'; [apply Gconns; exact Hx|exact Hc]. Qed.

Lemma pa_pconn x c : In x (m_insts m) -> In c (i_conns x) -> pconn m (i_name x, fst c) = Some (snd c).
Proof. intros Hx Hc. unfold pconn. cbn [fst snd]. rewrite (pa_find x Hx). apply pa_assoc; assumption. Qed.

Lemma pa_rewrite x c : In x (m_insts m) -> In c (i_conns x) -> exists e, rewrite_conn m keys table x c = Ok (fst c, e).
Proof.
  intros Hx Hc. destruct (Forall2_In_l _ _ _ x Hins Hx) as [x1 [_ Hr]]. destruct (rewrite_inst_inv _ _ _ _ _ _ Hr) as [_ [_ [_ [cs [_ Fc]]]]].
  destruct (Forall2_In_l _ _ _ c Fc Hc) as [c1 [_ Hc1]]. pose proof (rewrite_conn_fst _ _ _ _ _ _ _ Hc1) as E.
  exists (snd c1). rewrite <- E. destruct c1. exact Hc1.
Qed.

(* ---- Orphanage ---- *)
Lemma orph_leaf x c lw : In x (m_insts m) -> In c (i_conns x) -> In lw (sx_leaves (snd c)) ->
  match assocN (fst lw) (m_leaves m) with
  | Some (LSig s) => exists w, sig_width m s = Some w
  | Some (LRef i _) => exists y, find_inst (m_insts m) i = Some y
  | Some (LNc _) => True
  | None => False
  end.
Proof.
  intros Hx Hc Hl. unfold orphanage_check in Horph. apply check_ok in Horph. unfold orphanage_module in Horph.
  apply andb_prop in Horph. destruct Horph as [_ H]. rewrite forallb_forall in H.
  specialize (H _ (in_map (fun x0 => map (fun c0 : name * sx => oconn_e self m (snd c0)) (i_conns x0)) _ _ Hx)).
  rewrite forallb_forall in H. specialize (H _ (in_map (fun c0 : name * sx => oconn_e self m (snd c0)) _ _ Hc)).
  pose proof (orphan_leaves self m (snd c) H lw Hl) as Ho. unfold leaf_oconn in Ho.
  destruct (assocN (fst lw) (m_leaves m)) as [[s|i p|s]|]; cbn [orphan_ok owned_by] in Ho.
  - destruct (sig_width m s) as [w|]; [eauto|discriminate].
  - destruct (find_inst (m_insts m) i) as [y|]; [eauto|discriminate].
  - exact I.
  - discriminate.
Qed.

(* ---- ConnTypes on a single instance, read back through the rewriting ---- *)
Lemma single_facts y : In y (m_insts m) -> single y = true ->
  exists ports, target_ports d (i_of y) = Ok ports /\
    (forall c, In c (i_conns y) -> exists w e, assoc (fst c) ports = Some w /\
                                             rewrite_conn m keys table y c = Ok (fst c, e) /\ xwidth e = Ok w) /\
    (forall p w, assoc p ports = Some w -> assoc p (i_conns y) = None -> exists e, In (p, e) (added_conns table y)).
Proof.
  intros Hy Hs. destruct (Forall2_In_l _ _ _ y Hins Hy) as [y1 [Hy1 Hr]].
  destruct (rewrite_inst_inv _ _ _ _ _ _ Hr) as [_ [Hn [Ho [cs [Hcs Fc]]]]].
  pose proof (Hct y1 Hy1) as H. unfold conntypes_inst in H. assert (single y1 = true) as Hs1 by (unfold single in *; rewrite Hn; exact Hs).
  rewrite Hs1, Ho in H. apply bind_ok in H. destruct H as [ports [Hp H]]. apply bind_ok in H. destruct H as [cws [Hcw H]].
  apply check_ok in H. destruct (check_instance_sound ports cws (Gports y ports Hy Hp) H) as [A B].
  destruct (ct_widths_assoc _ _ _ Hcw) as [Hkeys1 Hlook].
  assert (forall a b, rewrite_conn m keys table y a = Ok b -> fst a = fst b) as Hfst by (intros a b E; symmetry; eapply rewrite_conn_fst; exact E).
  exists ports. split; [exact Hp|]. split.
  - intros c Hc. destruct (pa_rewrite y c Hy Hc) as [e He].
    destruct (assoc_Forall2 _ _ _ (fst c) (snd c) Fc Hfst (pa_assoc y c Hy Hc)) as [e' [Ha' Hr']]. cbn beta in Hr'. rewrite <- surjective_pairing in Hr'.
    assert (e' = e) as -> by (pose proof (eq_trans (eq_sym He) Hr') as X; inversion X; reflexivity).
    assert (assoc (fst c) (i_conns y1) = Some e) as Ha1 by (rewrite Hcs, assoc_app, Ha'; reflexivity).
    pose proof (Hlook (fst c)) as L. rewrite Ha1 in L. destruct L as [w [Hw Hcws]].
    assert (In (fst c) (map fst ports)) as Hin.
    { apply B. rewrite Hkeys1. apply (in_map fst) in Hc. rewrite Hcs, map_app. apply in_or_app. left.
      rewrite <- (Forall2_map_eq _ fst fst _ _ Fc Hfst). exact Hc. }
    apply in_fst_assoc in Hin. destruct Hin as [wp Hwp]. pose proof (A _ _ Hwp) as E. rewrite Hcws in E. inversion E; subst wp.
    exists w, e. split; [exact Hwp|]. split; [exact He|]. eapply ct_width_xwidth. exact Hw.
  - intros p w Hw Hnone. pose proof (A _ _ Hw) as E. pose proof (Hlook p) as L.
    destruct (assoc p (i_conns y1)) as [e|] eqn:Ea; [|rewrite L in E; discriminate].
    assert (assoc p cs = None) as Hn'.
    { apply assoc_notin_None. rewrite <- (Forall2_map_eq _ fst fst _ _ Fc Hfst). apply assoc_None_notin. exact Hnone. }
    rewrite Hcs, assoc_app, Hn' in Ea. exists e. apply assoc_In. exact Ea.
Qed.

Lemma single_port y c : In y (m_insts m) -> single y = true -> In c (i_conns y) -> exists w, port_width d y (fst c) = Ok w.
Proof.
  intros Hy Hs Hc. destruct (single_facts y Hy Hs) as [ports [Hp [A _]]]. destruct (A c Hc) as [w [_ [Hw _]]].
  exists w. unfold port_width. rewrite Hp. cbn [bind]. rewrite Hw. reflexivity.
Qed.

(* ---- groups: a fixed point of nxt is the root of every group that meets it ---- *)
Lemma gid_meets q g : gid m keys q = Some g ->
  meets key key_eqb (orbitf key (nxt m) key_eqb KN g) (orbitf key (nxt m) key_eqb KN q) = true.
Proof. unfold gid. intros H. apply find_some in H. destruct H as [_ H]. exact H. Qed.

Lemma attr_of_fixed q g : gid m keys q = Some g -> nxt m q = q -> attr m keys g = q.
Proof. intros Hg Hfix. unfold attr. apply (meets_fixed key (nxt m) key_eqb key_eqb_eq KN g q Hfix). apply gid_meets. exact Hg. Qed.

Lemma seed_gok q y : In q (mentioned m) -> find_inst (m_insts m) (fst q) = Some y -> exists g, gid m keys q = Some g /\ gok d m keys g.
Proof.
  intros Hq Hf. destruct (plan_any d ncn m keys _ _ _ Hplan) as [P1 _].
  destruct (P1 q (seed_of_mentioned m q y Hq Hf)) as [g [Hg [[]|Hok]]]. eauto.
Qed.

(* a table entry for a group belongs to a resolved group and has the width of the port it was copied from *)
Lemma table_group e g : find_group table g = Some e ->
  exists o namer, group_res m keys g = Ok (GFresh o namer) /\ key_width d m namer = Ok (a_width (snd (fst e))).
Proof.
  intros H. unfold find_group in H. apply find_some in H. destruct H as [Hin Hk]. destruct e as [[id a] nm]. cbn [fst snd] in *.
  destruct (a_kind a) as [g' o|i p] eqn:Ek; [|discriminate]. apply key_eqb_eq in Hk. subst g'.
  apply number_allocs_spec in Hin. destruct Hin as [_ Hin]. apply in_combine_l in Hin.
  destruct (plan_any d ncn m keys _ _ _ Hplan) as [_ P2]. destruct (P2 a g o Hin Ek) as [q [namer [_ [_ [Hgr Hw]]]]]. eauto.
Qed.

(* ---- a reference names an existing port of a single instance ---- *)
Lemma ref_target x c q : In x (m_insts m) -> In c (i_conns x) -> as_ref m (snd c) = Some q ->
  exists y w, find_inst (m_insts m) (fst q) = Some y /\ single y = true /\ port_width d y (snd q) = Ok w /\ In q keys /\ In q (mentioned m).
Proof.
  intros Hx Hc Hr. destruct (as_ref_shape _ _ _ Hr) as [id [wl [E Hl]]].
  assert (In (id, wl) (sx_leaves (snd c))) as Hin by (rewrite E; left; reflexivity).
  pose proof (orph_leaf x c (id, wl) Hx Hc Hin) as Ho. cbn [fst] in Ho. rewrite Hl in Ho. destruct Ho as [y Hy].
  pose proof (Fsingle x c (id, wl) Hx Hc Hin) as Hs. unfold ref_single in Hs. cbn [fst] in Hs. rewrite Hl, Hy in Hs.
  assert (In q (mentioned m)) as Hq by (apply pr_mentioned; eauto).
  destruct (find_inst_In _ _ _ Hy) as [Hyin Hyn].
  assert (exists w, port_width d y (snd q) = Ok w) as [w Hw].
  { destruct (assoc (snd q) (i_conns y)) as [cy|] eqn:Ea.
    - apply (single_port y (snd q, cy) Hyin Hs). apply assoc_In. exact Ea.
    - destruct (seed_gok q y Hq Hy) as [g [Hg [gr [Hgr Hok]]]].
      assert (pconn m q = None) as Hp by (unfold pconn; rewrite Hy; exact Ea).
      assert (nxt m q = q) as Hfix by (apply nxt_fixed_of_next; unfold next; rewrite Hp; reflexivity).
      unfold group_res in Hgr. rewrite (attr_of_fixed q g Hg Hfix), Hp in Hgr. inversion Hgr; subst gr.
      destruct Hok as [w Hw]. unfold key_width in Hw. rewrite Hy in Hw. cbn [ofopt bind] in Hw. eauto. }
  exists y, w. split; [exact Hy|]. split; [exact Hs|]. split; [exact Hw|]. split; [|exact Hq].
  apply (keys_In_nd d m keys Gnames Hkeys). exists y, w. auto.
Qed.

Lemma keys_closed_any q : In q keys -> In (nxt m q) keys.
Proof.
  intros Hq. unfold nxt. destruct (next m q) as [q'|] eqn:En; [|exact Hq].
  apply (keys_In_nd d m keys Gnames Hkeys) in Hq. destruct Hq as [x [w [Hf _]]]. destruct (find_inst_In _ _ _ Hf) as [Hx _].
  unfold next, pconn in En. rewrite Hf in En. destruct (assoc (snd q) (i_conns x)) as [cx|] eqn:Ea; [|discriminate].
  destruct (ref_target x (snd q, cx) q' Hx (assoc_In _ _ _ Ea) En) as [_ [_ [_ [_ [_ [H _]]]]]]. exact H.
Qed.

Lemma gid_next_any q q' : In q keys -> next m q = Some q' -> gid m keys q = gid m keys q'.
Proof.
  intros Hq Hn. assert (nxt m q = q') as E by (unfold nxt; rewrite Hn; reflexivity).
  assert (In q' keys) as Hq' by (rewrite <- E; apply keys_closed_any; exact Hq).
  assert (forall a b, In a keys -> In b keys ->
            (meets key key_eqb (orbitf key (nxt m) key_eqb KN a) (orbitf key (nxt m) key_eqb KN b) = true <-> conn key (nxt m) a b)) as MC.
  { intros a b Ha Hb. apply (meets_iff key (nxt m) key_eqb key_eqb_eq keys keys_closed_any); [apply Nat.le_refl|exact Ha|exact Hb]. }
  assert (conn key (nxt m) q q') as C by (rewrite <- E; apply c_step).
  unfold gid. apply find_ext_in. intros k Hk. fold KN.
  destruct (meets key key_eqb (orbitf key (nxt m) key_eqb KN k) (orbitf key (nxt m) key_eqb KN q)) eqn:E1;
  destruct (meets key key_eqb (orbitf key (nxt m) key_eqb KN k) (orbitf key (nxt m) key_eqb KN q')) eqn:E2; try reflexivity; exfalso.
  - apply MC in E1; [|exact Hk|exact Hq]. assert (conn key (nxt m) k q') as C2 by (eapply c_trans; eassumption).
    apply MC in C2; [congruence|exact Hk|exact Hq'].
  - apply MC in E2; [|exact Hk|exact Hq']. assert (conn key (nxt m) k q) as C2 by (eapply c_trans; [exact E2|apply c_sym; exact C]).
    apply MC in C2; [congruence|exact Hk|exact Hq].
Qed.

Lemma res_next q q' : In q keys -> next m q = Some q' -> res m keys table q = res m keys table q'.
Proof. intros Hq Hn. unfold res. rewrite (gid_next_any q q' Hq Hn). reflexivity. Qed.

(* ---- what a reference stands for has the width of the port it names ---- *)
Lemma ref_facts x c q : In x (m_insts m) -> In c (i_conns x) -> as_ref m (snd c) = Some q ->
  exists y w e, find_inst (m_insts m) (fst q) = Some y /\ single y = true /\ port_width d y (snd q) = Ok w /\
                rewrite_conn m keys table x c = Ok (fst c, e) /\ res m keys table q = Ok e /\ xwidth e = Ok w.
Proof.
  intros Hx Hc Hr. destruct (ref_target x c q Hx Hc Hr) as [y [w [Hy [Hs [Hw [Hqk Hqm]]]]]].
  destruct (pa_rewrite x c Hx Hc) as [e He]. assert (res m keys table q = Ok e) as Hres.
  { unfold rewrite_conn in He. rewrite Hr in He. apply bind_ok in He. destruct He as [e' [H1 H2]]. inversion H2; subst e'. exact H1. }
  exists y, w, e. split; [exact Hy|]. split; [exact Hs|]. split; [exact Hw|]. split; [exact He|]. split; [exact Hres|].
  destruct (find_inst_In _ _ _ Hy) as [Hyin Hyn].
  assert (exists ports, target_ports d (i_of y) = Ok ports /\ assoc (snd q) ports = Some w) as [ports [Hp Hpw]].
  { unfold port_width in Hw. destruct (target_ports d (i_of y)) as [ps|]; cbn [bind] in Hw; [|discriminate]. apply ofopt_ok in Hw. eauto. }
  assert (1 <= w) as Hpos by (apply (Gpos y ports (snd q, w) Hyin Hp); apply assoc_In; exact Hpw).
  destruct (seed_gok q y Hqm Hy) as [g [Hg [gr [Hgr Hok]]]].
  destruct (assoc (snd q) (i_conns y)) as [cy|] eqn:Ea.
  - (* the port has a connection of its own: ConnTypes saw its rewritten form *)
    assert (In (snd q, cy) (i_conns y)) as Hcy by (apply assoc_In; exact Ea).
    destruct (single_facts y Hyin Hs) as [ports' [Hp' [A _]]]. rewrite Hp in Hp'. inversion Hp'; subst ports'.
    destruct (A _ Hcy) as [w' [e' [Hw' [He' Hx']]]]. cbn [fst snd] in *. rewrite Hpw in Hw'. inversion Hw'; subst w'.
    assert (pconn m q = Some cy) as Hpc by (unfold pconn; rewrite Hy; exact Ea).
    destruct (as_ref m cy) as [q1|] eqn:Er.
    + assert (next m q = Some q1) as Hn by (unfold next; rewrite Hpc; exact Er).
      unfold rewrite_conn in He'. cbn [snd fst] in He'. rewrite Er in He'. apply bind_ok in He'. destruct He' as [e1 [H1 H2]]. inversion H2; subst e1.
      rewrite (res_next q q1 Hqk Hn), H1 in Hres. inversion Hres; subst e'. exact Hx'.
    + assert (nxt m q = q) as Hfix by (apply nxt_fixed_of_next; unfold next; rewrite Hpc; exact Er).
      unfold group_res in Hgr. rewrite (attr_of_fixed q g Hg Hfix), Hpc, Er in Hgr.
      destruct (as_nc m cy) as [site|] eqn:Enc; [discriminate|]. inversion Hgr; subst gr.
      unfold rewrite_conn in He'. cbn [snd fst] in He'. rewrite Er, Enc in He'. inversion He'; subst e'.
      unfold res in Hres. rewrite Hg in Hres. cbn [ofopt bind] in Hres. unfold group_res in Hres. rewrite (attr_of_fixed q g Hg Hfix), Hpc, Er, Enc in Hres.
      cbn [bind] in Hres. inversion Hres; subst e. exact Hx'.
  - (* the port is connected to nothing: it is the root of its group, the implicit signal is copied from it *)
    assert (pconn m q = None) as Hpc by (unfold pconn; rewrite Hy; exact Ea).
    assert (nxt m q = q) as Hfix by (apply nxt_fixed_of_next; unfold next; rewrite Hpc; reflexivity).
    unfold res in Hres. rewrite Hg in Hres. cbn [ofopt bind] in Hres. unfold group_res in Hres. rewrite (attr_of_fixed q g Hg Hfix), Hpc in Hres.
    cbn [bind] in Hres. apply bind_ok in Hres. destruct Hres as [en [Hen Hres]]. apply ofopt_ok in Hen. inversion Hres; subst e.
    destruct (table_group en g Hen) as [o [namer [Hgr' Hkw]]]. unfold group_res in Hgr'. rewrite (attr_of_fixed q g Hg Hfix), Hpc in Hgr'.
    inversion Hgr'; subst o namer. unfold key_width in Hkw. rewrite Hy in Hkw. cbn [ofopt bind] in Hkw. rewrite Hw in Hkw. inversion Hkw as [Haw].
    cbn [xwidth]. rewrite <- Haw. destruct (w <? 1) eqn:El; [lia|reflexivity].
Qed.

(* ---- a no-connected port is referred to by nothing ---- *)
Lemma refs_to_pos_inv_any i p : 0 < refs_to m i p -> exists x c, In x (m_insts m) /\ In c (i_conns x) /\ as_ref m (snd c) = Some (i, p).
Proof.
  unfold refs_to. intros H.
  destruct (filter _ _) as [|lw l] eqn:Ef; [unfold zlen in H; cbn in H; lia|].
  assert (In lw (lw :: l)) as Hin by (left; reflexivity). rewrite <- Ef in Hin. apply filter_In in Hin. destruct Hin as [Hin Hl].
  apply in_concat in Hin. destruct Hin as [l1 [Hl1 Hin]]. apply in_map_iff in Hl1. destruct Hl1 as [x [<- Hx]].
  apply in_concat in Hin. destruct Hin as [l2 [Hl2 Hin]]. apply in_map_iff in Hl2. destruct Hl2 as [c [<- Hc]].
  destruct (assocN (fst lw) (m_leaves m)) as [[s|i' p'|s]|] eqn:El; try discriminate.
  apply andb_prop in Hl. destruct Hl as [E1 E2]. apply String.eqb_eq in E1. apply String.eqb_eq in E2. subst i' p'.
  exists x, c. split; [exact Hx|]. split; [exact Hc|].
  pose proof (Fwhole x c Hx Hc) as Hfr. unfold conn_whole in Hfr. destruct (snd c) as [id w|pp ix|ps] eqn:Ec.
  - cbn [sx_leaves] in Hin. destruct Hin as [<-|[]]. cbn [fst] in El. unfold as_ref, leaf_at. rewrite El. reflexivity.
  - exfalso. rewrite forallb_forall in Hfr. specialize (Hfr lw Hin). unfold leaf_whole_ok in Hfr. rewrite El in Hfr. discriminate.
  - exfalso. rewrite forallb_forall in Hfr. specialize (Hfr lw Hin). unfold leaf_whole_ok in Hfr. rewrite El in Hfr. discriminate.
Qed.

Lemma nc_unreferenced x c site : In x (m_insts m) -> In c (i_conns x) -> as_nc m (snd c) = Some site -> refs_to m (i_name x) (fst c) = 0.
Proof.
  intros Hx Hc Hnc. pose proof (refs_to_nonneg m (i_name x) (fst c)) as H0.
  destruct (Z.eq_dec (refs_to m (i_name x) (fst c)) 0) as [E|E]; [exact E|]. exfalso.
  destruct (refs_to_pos_inv_any (i_name x) (fst c) ltac:(lia)) as [x' [c' [Hx' [Hc' Hr']]]].
  set (q := (i_name x, fst c)) in *.
  assert (In q (mentioned m)) as Hq by (apply pr_mentioned; eauto).
  destruct (seed_gok q x Hq (pa_find x Hx)) as [g [Hg [gr [Hgr _]]]].
  assert (as_ref m (snd c) = None) as Er.
  { unfold as_nc in Hnc. unfold as_ref. destruct (leaf_at m (snd c)) as [[s|i p|s]|]; try discriminate; reflexivity. }
  assert (nxt m q = q) as Hfix by (apply nxt_fixed_of_next; unfold next, q; rewrite (pa_pconn x c Hx Hc); exact Er).
  unfold group_res in Hgr. rewrite (attr_of_fixed q g Hg Hfix) in Hgr. unfold q in Hgr. rewrite (pa_pconn x c Hx Hc), Er, Hnc in Hgr. discriminate.
Qed.

(* ---- an unconnected port that ConnTypes found connected was given the implicit signal of a group: it is referred to ---- *)
Lemma next_referenced z t : next m z = Some t -> 0 < refs_to m (fst t) (snd t).
Proof.
  unfold next, pconn. destruct (find_inst (m_insts m) (fst z)) as [x|] eqn:Ef; [|discriminate].
  destruct (assoc (snd z) (i_conns x)) as [cx|] eqn:Ea; [|discriminate]. intros Hr.
  destruct (find_inst_In _ _ _ Ef) as [Hx _]. apply (refs_to_pos m x (snd z, cx) t Hx (assoc_In _ _ _ Ea) Hr).
Qed.

Lemma mentioned_referenced q : In q (mentioned m) -> 0 < refs_to m (fst q) (snd q).
Proof. intros H. apply pr_mentioned in H. destruct H as [x [c [Hx [Hc Hr]]]]. apply (refs_to_pos m x c q Hx Hc Hr). Qed.

Lemma iter_referenced n s t : Nat.iter n (nxt m) s = t -> s = t \/ 0 < refs_to m (fst t) (snd t).
Proof.
  intros H. destruct (iter_image key (nxt m) key_eqb key_eqb_eq n s t H) as [E|[z [Hz Hne]]]; [left; exact E|right].
  apply (next_referenced z t). apply nxt_image; assumption.
Qed.

Lemma added_referenced y p e : In y (m_insts m) -> In (p, e) (added_conns table y) -> 0 < refs_to m (i_name y) p.
Proof.
  intros Hy Hin. unfold added_conns in Hin. apply in_flat_map in Hin. destruct Hin as [[[id a] nm] [Ht Hin]].
  unfold added_one in Hin. cbn [fst snd] in Hin. destruct (a_kind a) as [g o|i0 p0] eqn:Ek; [|destruct Hin].
  destruct (String.eqb (fst o) (i_name y) && single y && match assoc (snd o) (i_conns y) with None => true | Some _ => false end) eqn:Eb; [|destruct Hin].
  destruct Hin as [E|[]]. inversion E; subst p e. apply andb_prop in Eb. destruct Eb as [Eb Enone]. apply andb_prop in Eb. destruct Eb as [Eo Es].
  apply String.eqb_eq in Eo. destruct (assoc (snd o) (i_conns y)) eqn:Ea; [discriminate|].
  assert (pconn m o = None) as Hpo by (unfold pconn; rewrite Eo, (pa_find y Hy); exact Ea).
  assert (nxt m o = o) as Hfo by (apply nxt_fixed_of_next; unfold next; rewrite Hpo; reflexivity).
  apply number_allocs_spec in Ht. destruct Ht as [_ Ht]. apply in_combine_l in Ht.
  destruct (plan_any d ncn m keys _ _ _ Hplan) as [_ P2]. destruct (P2 a g o Ht Ek) as [q [namer [Hseed [Hg [Hgr _]]]]].
  rewrite <- Eo. unfold group_res in Hgr. destruct (pconn m (attr m keys g)) as [cx|] eqn:Epr.
  - (* the cycle rule names the group's first member: it has a connection *)
    exfalso. destruct (as_ref m cx) as [q1|] eqn:Er.
    + destruct (members m keys g) as [|x0 t0]; [discriminate|]. inversion Hgr; subst o.
      unfold attr in Epr. rewrite (fixed_iter key (nxt m) g _ Hfo) in Epr. congruence.
    + destruct (as_nc m cx); discriminate.
  - inversion Hgr; subst o namer. unfold attr in *. fold KN in Hfo, Hpo |- *.
    destruct (iter_referenced KN g _ eq_refl) as [Egr|Hpos]; [|exact Hpos].
    (* the group identifier is itself the unconnected port: the reference that was taken leads to it *)
    rewrite <- Egr in Hfo |- *. pose proof (gid_meets q g Hg) as Hm. rewrite (orbitf_fixed key (nxt m) key_eqb key_eqb_eq KN g Hfo) in Hm.
    unfold meets in Hm. cbn [existsb] in Hm. rewrite orb_false_r in Hm. apply existsb_exists in Hm. destruct Hm as [b [Hb Hgb]].
    apply key_eqb_eq in Hgb. subst b. destruct (orbitf_le key (nxt m) key_eqb key_eqb_eq KN q g Hb) as [n [_ En]].
    destruct (iter_referenced n q g (eq_sym En)) as [Eq|Hpos]; [|exact Hpos].
    rewrite <- Eq. apply mentioned_referenced. apply seed_is_mentioned. exact Hseed.
Qed.

(* ---- leaves of a connection that is neither a reference nor a no-connect: declared Signals ---- *)
Lemma plain_leaves x c : In x (m_insts m) -> In c (i_conns x) -> as_ref m (snd c) = None -> as_nc m (snd c) = None ->
  forall lw, In lw (sx_leaves (snd c)) -> exists s, assocN (fst lw) (m_leaves m) = Some (LSig s) /\ sig_width m s = Some (snd lw).
Proof.
  intros Hx Hc Hr Hn lw Hl. pose proof (orph_leaf x c lw Hx Hc Hl) as Ho. pose proof (Gsig x c lw Hx Hc Hl) as Ga. unfold annot_ok in Ga.
  pose proof (Fwhole x c Hx Hc) as Hw. unfold conn_whole in Hw.
  destruct (assocN (fst lw) (m_leaves m)) as [[s|i p|site]|] eqn:El.
  - destruct Ho as [w Hs]. rewrite Hs in Ga. exists s. split; [reflexivity|]. rewrite Hs. f_equal. lia.
  - exfalso. destruct (snd c) as [id w|pp ix|ps] eqn:Ec.
    + cbn [sx_leaves] in Hl. destruct Hl as [<-|[]]. cbn [fst] in El. unfold as_ref, leaf_at in Hr. rewrite El in Hr. discriminate.
    + rewrite forallb_forall in Hw. specialize (Hw lw Hl). unfold leaf_whole_ok in Hw. rewrite El in Hw. discriminate.
    + rewrite forallb_forall in Hw. specialize (Hw lw Hl). unfold leaf_whole_ok in Hw. rewrite El in Hw. discriminate.
  - exfalso. destruct (snd c) as [id w|pp ix|ps] eqn:Ec.
    + cbn [sx_leaves] in Hl. destruct Hl as [<-|[]]. cbn [fst] in El. unfold as_nc, leaf_at in Hn. rewrite El in Hn. discriminate.
    + rewrite forallb_forall in Hw. specialize (Hw lw Hl). unfold leaf_whole_ok in Hw. rewrite El in Hw. discriminate.
    + rewrite forallb_forall in Hw. specialize (Hw lw Hl). unfold leaf_whole_ok in Hw. rewrite El in Hw. discriminate.
  - destruct Ho.
Qed.

(* ---- one connection is valid by the specification, given the port and the width of what ConnTypes / ArrayFlattener saw ---- *)
Lemma wf_conn_any x ports c w : In x (m_insts m) -> In c (i_conns x) -> assoc (fst c) ports = Some w ->
  (forall e, rewrite_conn m keys table x c = Ok (fst c, e) -> as_nc m (snd c) = None ->
     exists cw, xwidth e = Ok cw /\ (cw = w \/ (0 < i_n x /\ cw = i_n x * w))) ->
  wf_conn d m x ports c = Ok tt.
Proof.
  intros Hx Hc Hw Hwidth. unfold wf_conn. rewrite Hw. cbn [ofopt bind]. rewrite <- as_nc_is_nc.
  destruct (as_ref m (snd c)) as [q|] eqn:Er.
  - (* a reference *)
    destruct (ref_facts x c q Hx Hc Er) as [y [wq [e [Hy [Hs [Hwq [He [_ Hxe]]]]]]]].
    destruct (as_ref_shape _ _ _ Er) as [id [wl [E Hl]]].
    assert (as_nc m (snd c) = None) as Enc by (unfold as_nc, leaf_at; rewrite E, Hl; reflexivity).
    assert (In (id, wl) (sx_leaves (snd c))) as Hin by (rewrite E; left; reflexivity).
    pose proof (Gref x c (id, wl) Hx Hc Hin) as Ga. unfold ref_annot_ok in Ga. cbn [fst snd] in Ga. rewrite Hl, Hy, Hwq in Ga.
    assert (wq = wl) as -> by lia.
    destruct (Hwidth e He Enc) as [cw [Hcw Hcase]]. rewrite Hxe in Hcw. inversion Hcw; subst cw.
    rewrite (all_ok_intro (wf_leaf d m) (sx_leaves (snd c))).
    2:{ rewrite E. intros lw [<-|[]]. unfold wf_leaf. cbn [fst snd]. rewrite Hl. cbn [ofopt bind]. rewrite Hy. cbn [ofopt bind]. rewrite Hwq. cbn [bind].
        unfold single in Hs. rewrite Hs. cbn [check bind]. rewrite Z.eqb_refl. reflexivity. }
    cbn [bind]. rewrite Enc.
    assert (has_nc_inside m (snd c) = false) as ->.
    { unfold has_nc_inside. rewrite E. cbn [sx_leaves existsb fst]. rewrite Hl. reflexivity. }
    cbn [negb check bind]. rewrite E. cbn [xwidth].
    assert (1 <= wl) as Hpos.
    { destruct (find_inst_In _ _ _ Hy) as [Hyin _]. unfold port_width in Hwq. destruct (target_ports d (i_of y)) as [ps|] eqn:Ep; cbn [bind] in Hwq; [|discriminate].
      apply ofopt_ok in Hwq. apply (Gpos y ps (snd q, wl) Hyin Ep). apply assoc_In. exact Hwq. }
    destruct (wl <? 1) eqn:El; [lia|]. cbn [bind]. unfold check.
    assert ((wl =? w) || (0 <? i_n x) && (wl =? i_n x * w) = true) as -> by lia. reflexivity.
  - destruct (as_nc m (snd c)) as [site|] eqn:Enc.
    + (* a no-connect *)
      destruct (is_nc_shape m (snd c) site) as [id [wl [E Hl]]]; [rewrite <- as_nc_is_nc; exact Enc|].
      rewrite (all_ok_intro (wf_leaf d m) (sx_leaves (snd c))).
      2:{ rewrite E. intros lw [<-|[]]. unfold wf_leaf. cbn [fst]. rewrite Hl. reflexivity. }
      cbn [bind]. rewrite (nc_unreferenced x c site Hx Hc Enc). reflexivity.
    + (* Signals, slices, concatenations *)
      pose proof (plain_leaves x c Hx Hc Er Enc) as Hlv.
      rewrite (all_ok_intro (wf_leaf d m) (sx_leaves (snd c))).
      2:{ intros lw Hl. destruct (Hlv lw Hl) as [s [H1 H2]]. unfold wf_leaf. rewrite H1. cbn [ofopt bind]. rewrite H2. cbn [ofopt bind].
          unfold check. rewrite Z.eqb_refl. reflexivity. }
      cbn [bind].
      assert (has_nc_inside m (snd c) = false) as ->.
      { unfold has_nc_inside. apply not_true_is_false. intros Ex. apply existsb_exists in Ex. destruct Ex as [lw [Hl Hb]].
        destruct (Hlv lw Hl) as [s [H1 _]]. rewrite H1 in Hb. discriminate. }
      cbn [negb check bind].
      destruct (pa_rewrite x c Hx Hc) as [e He]. assert (e = snd c) as ->.
      { unfold rewrite_conn in He. rewrite Er, Enc in He. inversion He as [He']. rewrite He'. reflexivity. }
      destruct (Hwidth (snd c) He eq_refl) as [cw [Hcw Hcase]]. rewrite Hcw. cbn [bind]. unfold check.
      assert ((cw =? w) || (0 <? i_n x) && (cw =? i_n x * w) = true) as -> by lia. reflexivity.
Qed.

Lemma hier_inst_ok x : hier_module self m = Ok tt -> In x (m_insts m) ->
  match i_of x with TMod k => check (k <? self)%nat ECycle | TDev _ _ => Ok tt end = Ok tt.
Proof. intros H Hx. unfold hier_module in H. apply (all_ok_In _ _ x H Hx). Qed.

(* ---- a single instance ---- *)
Theorem single_inst_wf x : hier_module self m = Ok tt -> In x (m_insts m) -> single x = true -> wf_inst d self m x = Ok tt.
Proof.
  intros Hh Hx Hs. destruct (single_facts x Hx Hs) as [ports [Hp [A B]]]. unfold wf_inst.
  rewrite (hier_inst_ok x Hh Hx). cbn [bind]. rewrite Hp. cbn [bind].
  rewrite (proj2 (nodup_names_NoDup _) (Gconns x Hx)). cbn [check bind].
  rewrite (all_ok_intro (wf_conn d m x ports) (i_conns x)).
  2:{ intros c Hc. destruct (A c Hc) as [w [e [Hw [He Hxe]]]]. apply (wf_conn_any x ports c w Hx Hc Hw).
      intros e' He' _. rewrite He in He'. inversion He'; subst e'. exists w. split; [exact Hxe|left; reflexivity]. }
  cbn [bind]. apply all_ok_intro. intros pw Hpw.
  assert (assoc (fst pw) ports = Some (snd pw)) as Hpa.
  { apply assoc_nodup_In'; [apply nodup_names_NoDup; apply (Gports x ports Hx Hp)|destruct pw; exact Hpw]. }
  destruct (assoc (fst pw) (i_conns x)) as [cx|] eqn:Ea; [reflexivity|].
  destruct (B _ _ Hpa Ea) as [e He]. pose proof (added_referenced x (fst pw) e Hx He) as Hpos.
  unfold check. assert ((0 <? refs_to m (i_name x) (fst pw)) = true) as -> by lia. reflexivity.
Qed.

(* ---- an instance array: ArrayFlattener gives every connection a port and a width w or n*w (on the rewritten
        connection), PostFlattenConnTypes finds every port of the elements connected ---- *)
Theorem array_inst_wf x ports : hier_module self m = Ok tt -> In x (m_insts m) -> single x = false ->
  target_ports d (i_of x) = Ok ports ->
  (forall c e, In c (i_conns x) -> rewrite_conn m keys table x c = Ok (fst c, e) ->
     exists w cw, assoc (fst c) ports = Some w /\ xwidth e = Ok cw /\ (cw = w \/ cw = i_n x * w)) ->
  (forall pw, In pw ports -> assoc (fst pw) (i_conns x) <> None) ->
  wf_inst d self m x = Ok tt.
Proof.
  intros Hh Hx Hs Hp A B. unfold wf_inst.
  rewrite (hier_inst_ok x Hh Hx). cbn [bind]. rewrite Hp. cbn [bind].
  rewrite (proj2 (nodup_names_NoDup _) (Gconns x Hx)). cbn [check bind].
  assert (0 < i_n x) as Hn by (unfold single in Hs; lia).
  rewrite (all_ok_intro (wf_conn d m x ports) (i_conns x)).
  2:{ intros c Hc. destruct (pa_rewrite x c Hx Hc) as [e He]. destruct (A c e Hc He) as [w [cw [Hw [Hcw Hcase]]]].
      apply (wf_conn_any x ports c w Hx Hc Hw). intros e' He' _. rewrite He in He'. inversion He'; subst e'.
      exists cw. split; [exact Hcw|]. destruct Hcase as [->| ->]; [left; reflexivity|right; split; [exact Hn|reflexivity]]. }
  cbn [bind]. apply all_ok_intro. intros pw Hpw. specialize (B pw Hpw).
  destruct (assoc (fst pw) (i_conns x)); [reflexivity|congruence].
Qed.
End PRAny.
