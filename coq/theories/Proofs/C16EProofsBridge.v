(* Proofs/C16EProofsBridge.v — on a package accepted by wf_pkg whose reachable instance connections are all whole signals, the
   bit-level net semantics of Spec/Nets.v (the package read by Base/Package.v:design_of_pkg, as the netlisters read it) and the
   signal-level semantics of Spec/C16Flat.v (the package read as a tree by Corr/C16.v:hmod_of_pkg), lifted to bits, are the
   same relation on valid nodes:  same_net pd x y  <->  conn (hstep_bit t) (conv x) (conv y).
   (The correspondence run validated this per case - code 3 of Corr/C16.v; here it is a theorem.) *)
Require Import Hdl21.Base.PyInt Hdl21.Spec.PySlice Hdl21.Model.Slice Hdl21.Model.Resolve Hdl21.Base.Design
               Hdl21.Spec.Nets Hdl21.Spec.WfDesign Hdl21.Base.Package Hdl21.Base.PrimTable Hdl21.Spec.PkgWf Hdl21.Spec.C01ENets
               Hdl21.Spec.C16Flat Hdl21.Model.C16Flatten Hdl21.Corr.C16 Hdl21.Model.C16EPkg
               Hdl21.Proofs.FunGraph Hdl21.Proofs.PkgWfProofs Hdl21.Proofs.C01EProofsBase Hdl21.Proofs.C01EProofsGraph Hdl21.Proofs.C01EProofsPass Hdl21.Proofs.ResolveProofs
               Hdl21.Proofs.C01EProofsSim Hdl21.Proofs.C01EProofsExport Hdl21.Proofs.C16Proofs Hdl21.Proofs.C16EProofsRefine.
From Coq Require Import String.
Open Scope string_scope.
Open Scope list_scope.
Open Scope Z_scope.

(* ---------------------------------------------------------------------------------------------- small list facts *)
Lemma find_pmod_nth ms nm : forall k0 k, find_pmod ms nm k0 = Some k ->
  exists a pm, k = (k0 + a)%nat /\ nth_error ms a = Some pm /\ find_pmodule ms nm = Some pm.
Proof.
  induction ms as [|m ms IH]; intros k0 k H; cbn [find_pmod find_pmodule] in *; [discriminate|].
  destruct (String.eqb (pm_name m) nm).
  - inversion H; subst. exists 0%nat, m. split; [lia|]. split; reflexivity.
  - destruct (IH _ _ H) as [a [pm [-> [Hn Hf]]]]. exists (S a), pm. split; [lia|]. split; assumption.
Qed.

Lemma find_pmod_shift ms nm : forall k0 k, find_pmod ms nm k0 = Some k -> forall j, find_pmod ms nm j = Some (j + (k - k0))%nat.
Proof.
  induction ms as [|m ms IH]; intros k0 k H j; cbn [find_pmod] in *; [discriminate|].
  destruct (String.eqb (pm_name m) nm).
  - inversion H; subst. f_equal. lia.
  - rewrite (IH _ _ H (S j)). f_equal. destruct (find_pmod_nth ms nm _ _ H) as [a [_ [-> _]]]. lia.
Qed.

Lemma find_pmod_app pre post nm : forall k0 k, find_pmod pre nm k0 = Some k -> find_pmod (pre ++ post) nm k0 = Some k.
Proof.
  induction pre as [|m pre IH]; intros k0 k H; cbn [find_pmod app] in *; [discriminate|].
  destruct (String.eqb (pm_name m) nm); [exact H|]. apply IH. exact H.
Qed.

Lemma nth_error_app_l {A} (a b : list A) k x : nth_error a k = Some x -> nth_error (a ++ b) k = Some x.
Proof. intros H. rewrite nth_error_app1; [exact H|]. apply nth_error_Some. congruence. Qed.

Lemma Forall2_nth_l {A B} (R : A -> B -> Prop) la lb : Forall2 R la lb -> forall k b, nth_error lb k = Some b ->
  exists a, nth_error la k = Some a /\ R a b.
Proof.
  induction 1 as [|a b la lb Hr _ IH]; intros k y Hk; [destruct k; discriminate|].
  destruct k as [|k]; cbn [nth_error] in *; [inversion Hk; subst; eauto|]. apply IH. exact Hk.
Qed.

Lemma assoc_filter_keep {A} (g : name * A -> bool) s (l : list (name * A)) v :
  assoc s l = Some v -> (forall x, fst x = s -> g x = true) -> assoc s (filter g l) = Some v.
Proof.
  induction l as [|[k w] l IH]; intros H Hg; cbn [assoc filter] in *; [discriminate|].
  destruct (String.eqb s k) eqn:E.
  - apply String.eqb_eq in E. subst k. rewrite (Hg (s, w) eq_refl). cbn [assoc]. rewrite String.eqb_refl. exact H.
  - destruct (g (k, w)); [cbn [assoc]; rewrite E|]; apply IH; assumption.
Qed.

Lemma F2_length {A B} (R : A -> B -> Prop) la lb : Forall2 R la lb -> Datatypes.length la = Datatypes.length lb.
Proof. induction 1; cbn [Datatypes.length]; congruence. Qed.

Lemma has_key_assoc {A} s (l : list (name * A)) : has_key s l = true <-> exists v, assoc s l = Some v.
Proof. unfold has_key. destruct (assoc s l); split; eauto; try discriminate. intros [v H]; discriminate. Qed.

Lemma assoc_traverse_pair {A B} (g : A -> result B) (l : list (name * A)) r s :
  traverse (fun c => x <- g (snd c) ;; Ok (fst c, x)) l = Ok r ->
  match assoc s r with
  | Some y => exists a, assoc s l = Some a /\ g a = Ok y
  | None => assoc s l = None
  end.
Proof.
  revert r. induction l as [|[k a] l IH]; intros r H; cbn [traverse] in H.
  - inversion H; subst. reflexivity.
  - apply bind_ok in H. destruct H as [y [Hy H]]. apply bind_ok in H. destruct H as [ys [Hys H]]. inversion H; subst; clear H.
    cbn [fst snd] in Hy. apply bind_ok in Hy. destruct Hy as [b [Hb Hy]]. inversion Hy; subst; clear Hy.
    cbn [assoc]. destruct (String.eqb s k); [exists a; split; [reflexivity|exact Hb]|]. apply IH. exact Hys.
Qed.

(* ---------------------------------------------------------------------------------------------- reading a package, inverted *)
Lemma design_of_pkg_inv prims p top pd : design_of_pkg prims p top = Ok pd ->
  Forall2 (fun pm m => pmodule_module prims p pm = Ok m) (pk_mods p) (d_mods pd) /\ find_pmod (pk_mods p) top 0 = Some (d_top pd).
Proof.
  unfold design_of_pkg. intros H. apply bind_ok in H. destruct H as [ms [Hms H]]. apply bind_ok in H. destruct H as [k [Hk H]].
  inversion H; subst; clear H. cbn [d_mods d_top]. split; [apply traverse_Forall2; exact Hms|]. apply ofopt_ok in Hk. exact Hk.
Qed.

Lemma pmodule_module_inv prims p pm m : pmodule_module prims p pm = Ok m ->
  Forall2 (fun pi x => pinst_inst prims p pm pi = Ok x) (pm_insts pm) (m_insts m) /\ pm_port_widths pm = Ok (m_ports m) /\
  m_leaves m = number_leaves (pm_sigs pm) 0%N /\
  m_sigs m = filter (fun sw => match assoc (fst sw) (pm_ports pm) with Some _ => false | None => true end) (pm_sigs pm).
Proof.
  unfold pmodule_module. intros H. apply bind_ok in H. destruct H as [is [His H]]. apply bind_ok in H. destruct H as [ports [Hp H]].
  inversion H; subst; clear H. cbn [m_insts m_ports m_leaves m_sigs]. split; [apply traverse_Forall2; exact His|].
  split; [exact Hp|]. split; reflexivity.
Qed.

Lemma pinst_inst_inv prims p pm pi x : pinst_inst prims p pm pi = Ok x ->
  i_name x = pi_name pi /\ i_n x = 0 /\ pinst_target prims p pi = Ok (i_of x) /\
  traverse (fun c => y <- target_sx (pm_sigs pm) (snd c) ;; Ok (fst c, y)) (pi_conns pi) = Ok (i_conns x).
Proof.
  unfold pinst_inst. intros H. apply bind_ok in H. destruct H as [t [Ht H]]. apply bind_ok in H. destruct H as [cs [Hcs H]].
  inversion H; subst; clear H. cbn [i_name i_n i_of i_conns]. auto.
Qed.

Lemma inst_rel_name p f pi h : inst_rel p f pi h -> iname h = pi_name pi.
Proof.
  unfold inst_rel. cbv beta zeta. destruct (pi_ref pi); intros H.
  - apply bind_ok in H. destruct H as [m' [_ H]]. apply bind_ok in H. destruct H as [M' [_ H]]. inversion H; reflexivity.
  - apply bind_ok in H. destruct H as [t [_ H]]. destruct t; [discriminate|]. inversion H; reflexivity.
Qed.

Lemma inst_rel_conns p f pi h : inst_rel p f pi h -> iconns h = map pconn_hconn (pi_conns pi).
Proof.
  unfold inst_rel. cbv beta zeta. destruct (pi_ref pi); intros H.
  - apply bind_ok in H. destruct H as [m' [_ H]]. apply bind_ok in H. destruct H as [M' [_ H]]. inversion H; reflexivity.
  - apply bind_ok in H. destruct H as [t [_ H]]. destruct t; [discriminate|]. inversion H; reflexivity.
Qed.

Lemma joint_find prims p pm f : forall pis xs hs,
  Forall2 (fun pi x => pinst_inst prims p pm pi = Ok x) pis xs -> Forall2 (inst_rel p f) pis hs ->
  forall i x, find_inst xs i = Some x ->
  exists pi h, In pi pis /\ pinst_inst prims p pm pi = Ok x /\ inst_rel p f pi h /\ find_hinst hs i = Some h /\ pi_name pi = i.
Proof.
  induction pis as [|pi pis IH]; intros xs hs F1 F2 i x Hf; inversion F1; subst; inversion F2; subst; [discriminate|].
  cbn [find_inst find_hinst] in *. destruct (pinst_inst_inv _ _ _ _ _ H1) as [Hn _]. rewrite (inst_rel_name _ _ _ _ H2), <- Hn.
  destruct (String.eqb (i_name y) i) eqn:E.
  - inversion Hf; subst. exists pi, y0. apply String.eqb_eq in E. split; [left; reflexivity|]. repeat split; try assumption. congruence.
  - destruct (IH _ _ H3 H5 i x Hf) as [pi' [h [Hin R]]]. exists pi', h. split; [right; exact Hin|exact R].
Qed.

Lemma assoc_pconn port conns : assoc port (map pconn_hconn conns) =
  match assoc port conns with Some (PSig s) => Some (CSig s) | Some _ => Some COther | None => None end.
Proof.
  induction conns as [|[k t] l IH]; [reflexivity|]. cbn [map assoc pconn_hconn fst snd].
  destruct (String.eqb port k); [destruct t; reflexivity|exact IH].
Qed.

(* ---------------------------------------------------------------------------------------------- no slice / concatenation reachable *)
Lemma no_other_down : forall l M M', existsb has_other (h_body M) = false -> C16Flat.mod_down M l = Some M' -> existsb has_other (h_body M') = false.
Proof.
  induction l as [|i l IH]; intros M M' H Hd; cbn [C16Flat.mod_down] in Hd; [inversion Hd; subst; exact H|].
  destruct (find_hinst (h_body M) i) as [x|] eqn:Ef; [|discriminate]. destruct (sub_mod x) as [M1|] eqn:Es; [|discriminate].
  apply (IH M1 M'); [|exact Hd].
  assert (In x (h_body M)) as Hin. { clear -Ef. induction (h_body M) as [|y b IH]; cbn [find_hinst] in Ef; [discriminate|]. destruct (String.eqb (iname y) i); [inversion Ef; left; reflexivity|right; auto]. }
  assert (has_other x = false) as Hx.
  { destruct (has_other x) eqn:E; [|reflexivity]. exfalso. assert (existsb has_other (h_body M) = true) as X by (apply existsb_exists; eauto). congruence. }
  destruct x; [discriminate|]. cbn [sub_mod] in Es. inversion Es; subst. cbn [h_body]. cbn [has_other] in Hx. apply orb_false_iff in Hx. apply Hx.
Qed.

Lemma find_hinst_In l i x : find_hinst l i = Some x -> In x l.
Proof. induction l as [|y b IH]; cbn [find_hinst]; [discriminate|]. destruct (String.eqb (iname y) i); [intros H; inversion H; left; reflexivity|right; auto]. Qed.

Lemma no_other_conn M x port c : existsb has_other (h_body M) = false -> In x (h_body M) -> assoc port (iconns x) = Some c -> exists s, c = CSig s.
Proof.
  intros H Hin Ha. destruct c as [s|]; [eauto|]. exfalso.
  assert (has_other x = true) as Hx.
  { apply assoc_in in Ha. destruct x; cbn [has_other iconns] in *; [|apply orb_true_iff; left]; apply existsb_exists; exists (port, COther); split; auto. }
  assert (existsb has_other (h_body M) = true) as X by (apply existsb_exists; eauto). congruence.
Qed.

(* ---------------------------------------------------------------------------------------------- the setting *)
Section Bridge.
Variable p : package.
Variable top : name.
Variable pd : design.
Variable hm : pmodule.
Variable t : hmod.
Hypothesis Hwf : wf_pkg prims_ext p = Ok tt.
Hypothesis Hpd : design_of_pkg prims_ext p top = Ok pd.
Hypothesis Hfind : find_pmodule (pk_mods p) top = Some hm.
Hypothesis Ht : hmod_of_pkg p (pkg_fuel p) hm = Ok t.
Hypothesis Hno : existsb has_other (h_body t) = false.

(* a module of the package, as the design reads it and as the tree reads it *)
Definition mrel (pm : pmodule) (m : module) (M : hmod) : Prop :=
  In pm (pk_mods p) /\ pmodule_module prims_ext p pm = Ok m /\ exists f, hmod_of_pkg p (S f) pm = Ok M.

Lemma nth_mod_pm k m : nth_mod pd k = Ok m -> exists pm, nth_error (pk_mods p) k = Some pm /\ pmodule_module prims_ext p pm = Ok m.
Proof.
  intros H. apply nth_mod_nth in H. destruct (design_of_pkg_inv _ _ _ _ Hpd) as [F _].
  exact (Forall2_nth_l _ _ _ F _ _ H).
Qed.

Lemma mrel_top : exists m, nth_mod pd (d_top pd) = Ok m /\ mrel hm m t.
Proof.
  destruct (design_of_pkg_inv _ _ _ _ Hpd) as [F Hk]. destruct (find_pmod_nth _ _ _ _ Hk) as [a [pm [Ea [Hn Hf]]]].
  rewrite Hfind in Hf. inversion Hf; subst pm. cbn [Nat.add] in Ea. subst a.
  destruct (Forall2_nth _ _ _ F _ _ Hn) as [m [Hm Hr]]. exists m. split; [apply nth_mod_nth; exact Hm|].
  split; [eapply nth_error_In; exact Hn|]. split; [exact Hr|]. exists (Datatypes.length (pk_mods p)). exact Ht.
Qed.

(* one level down: the instance found by name in the design's module and in the tree's module come from the same pinst *)
Lemma mrel_inst pm m M i x : mrel pm m M -> find_inst (m_insts m) i = Some x ->
  exists pi h f, In pi (pm_insts pm) /\ pinst_inst prims_ext p pm pi = Ok x /\ inst_rel p f pi h /\
      find_hinst (h_body M) i = Some h /\ pi_name pi = i.
Proof.
  intros [Hin [Hm [f HM]]] Hf. destruct (pmodule_module_inv _ _ _ _ Hm) as [F1 _].
  destruct (hmod_of_pkg_inv _ _ _ _ HM) as [body [ports [F2 [_ ->]]]]. cbn [h_body].
  destruct (joint_find _ _ _ _ _ _ _ F1 F2 i x Hf) as [pi [h R]]. exists pi, h, f. exact R.
Qed.

Lemma mrel_sub pm m M i x k m' : mrel pm m M -> find_inst (m_insts m) i = Some x -> i_of x = TMod k -> nth_mod pd k = Ok m' ->
  exists pm' M' h, mrel pm' m' M' /\ find_hinst (h_body M) i = Some h /\ sub_mod h = Some M' /\
      (exists conns, h = ISub i (h_ports M') (h_sigs M') (h_body M') conns).
Proof.
  intros R Hf Ho Hk. destruct (mrel_inst _ _ _ _ _ R Hf) as [pi [h [f [Hpi [Hx [Hr [Hh Hn]]]]]]].
  destruct (pinst_inst_inv _ _ _ _ _ Hx) as [_ [_ [Htg _]]]. rewrite Ho in Htg.
  unfold pinst_target in Htg. unfold inst_rel in Hr. cbv beta zeta in Hr. destruct (pi_ref pi) as [nm|dom nm].
  - apply bind_ok in Htg. destruct Htg as [k' [Hk' Htg]]. inversion Htg; subst k'. apply ofopt_ok in Hk'.
    destruct (find_pmod_nth _ _ _ _ Hk') as [a [pm' [Ea [Hnth Hfp]]]]. cbn [Nat.add] in Ea. subst a.
    rewrite Hfp in Hr. cbn [ofopt bind] in Hr. apply bind_ok in Hr. destruct Hr as [M' [HM' Hr]]. inversion Hr; subst h; clear Hr.
    destruct (nth_mod_pm _ _ Hk) as [pm'' [Hnth' Hm']]. rewrite Hnth in Hnth'. inversion Hnth'; subst pm''.
    exists pm', M', (ISub (pi_name pi) (h_ports M') (h_sigs M') (h_body M') (map pconn_hconn (pi_conns pi))).
    split; [|split; [exact Hh|split; [destruct M'; reflexivity|rewrite Hn; eauto]]].
    split; [eapply nth_error_In; exact Hnth|]. split; [exact Hm'|]. destruct f as [|f]; [discriminate|]. eauto.
  - apply bind_ok in Htg. destruct Htg as [xx [_ Htg]]. discriminate.
Qed.

(* descending a valid path *)
Lemma mrel_down : forall l pm0 m0 M0 m, mrel pm0 m0 M0 -> vdown pd m0 l = Ok m ->
  exists pm M, mrel pm m M /\ C16Flat.mod_down M0 (map fst l) = Some M /\ Forall (fun pe => snd pe = 0) l.
Proof.
  induction l as [|[i e] l IH]; intros pm0 m0 M0 m R H; cbn [vdown] in H.
  - inversion H; subst. exists pm0, M0. split; [exact R|]. split; [reflexivity|constructor].
  - destruct (find_inst (m_insts m0) i) as [x|] eqn:Ef; cbn [ofopt bind] in H; [|discriminate].
    destruct (elem_ok x e) eqn:Ee; [|discriminate]. destruct (i_of x) as [k|] eqn:Eo; [|discriminate].
    destruct (nth_mod pd k) as [m1|] eqn:Ek; cbn [bind] in H; [|discriminate].
    destruct (mrel_sub _ _ _ _ _ _ _ R Ef Eo Ek) as [pm1 [M1 [h [R1 [Hh [Hs _]]]]]].
    destruct (IH _ _ _ _ R1 H) as [pm [M [RR [Hd Hz]]]]. exists pm, M. split; [exact RR|]. split.
    + cbn [map fst C16Flat.mod_down]. rewrite Hh, Hs. exact Hd.
    + constructor; [|exact Hz]. cbn [snd].
      destruct (mrel_inst _ _ _ _ _ R Ef) as [pi [h' [f [_ [Hx _]]]]]. destruct (pinst_inst_inv _ _ _ _ _ Hx) as [_ [Hn0 _]].
      unfold elem_ok in Ee. rewrite Hn0 in Ee. cbn in Ee. lia.
Qed.

Lemma mrel_at path m : vmod_at pd path = Ok m ->
  exists pm M, mrel pm m M /\ C16Flat.mod_at t (map fst path) = Some M /\ Forall (fun pe => snd pe = 0) path.
Proof.
  unfold vmod_at. destruct mrel_top as [mt [Hmt Rt]]. rewrite Hmt. cbn [bind]. intros H.
  destruct (mrel_down _ _ _ _ _ Rt H) as [pm [M [R [Hd Hz]]]]. exists pm, M. split; [exact R|]. split.
  - unfold C16Flat.mod_at. rewrite <- map_rev. exact Hd.
  - apply Forall_rev in Hz. rewrite rev_involutive in Hz. exact Hz.
Qed.

(* what wf_pkg says about a module of the package *)
Lemma mrel_wf pm m M : mrel pm m M -> exists pre post, pk_mods p = pre ++ pm :: post /\
  (forall i, In i (pm_insts pm) -> exists ports, ref_ports prims_ext p pre (pi_ref i) = Ok ports /\
        (forall c, In c (pi_conns i) -> conn_closed pm ports c) /\
        (forall pw, In pw ports -> exists tg, assoc (fst pw) (pi_conns i) = Some tg)).
Proof.
  intros [Hin _]. apply in_split in Hin. destruct Hin as [pre [post E]]. exists pre, post. split; [exact E|].
  destruct (wf_pkg_closed _ _ Hwf pre pm post E) as [_ [_ H]]. exact H.
Qed.

Lemma ref_ports_target pre pm post pi x ports : pk_mods p = pre ++ pm :: post ->
  pinst_inst prims_ext p pm pi = Ok x -> ref_ports prims_ext p pre (pi_ref pi) = Ok ports -> target_ports pd (i_of x) = Ok ports.
Proof.
  intros E Hx Hr. destruct (pinst_inst_inv _ _ _ _ _ Hx) as [_ [_ [Htg _]]]. unfold pinst_target in Htg. unfold ref_ports in Hr.
  destruct (pi_ref pi) as [nm|dom nm].
  - apply bind_ok in Hr. destruct Hr as [k [Hk Hr]]. apply bind_ok in Hr. destruct Hr as [m' [Hm' Hr]]. apply ofopt_ok in Hk. apply ofopt_ok in Hm'.
    pose proof (find_pmod_app pre (pm :: post) nm _ _ Hk) as Hk2. rewrite <- E in Hk2. rewrite Hk2 in Htg. cbn [ofopt bind] in Htg.
    inversion Htg as [Ho]. cbn [target_ports].
    pose proof (nth_error_app_l pre (pm :: post) k m' Hm') as Hn. rewrite <- E in Hn.
    destruct (design_of_pkg_inv _ _ _ _ Hpd) as [F _]. destruct (Forall2_nth _ _ _ F _ _ Hn) as [mm [Hmm Hr2]].
    assert (nth_mod pd k = Ok mm) as -> by (apply nth_mod_nth; exact Hmm). cbn [bind].
    destruct (pmodule_module_inv _ _ _ _ Hr2) as [_ [Hpw _]]. unfold pm_port_widths in Hpw. rewrite Hpw in Hr. exact Hr.
  - apply bind_ok in Hr. destruct Hr as [ex [Hex Hr]]. apply ofopt_ok in Hex. unfold ext_lookup in Hex. rewrite Hex in Htg.
    cbn [ofopt bind] in Htg. inversion Htg as [Ho]. cbn [target_ports]. exact Hr.
Qed.

Lemma read_psig sigs s bits : read_target sigs (PSig s) = Ok bits ->
  exists w, assoc s sigs = Some w /\ 1 <= w /\ bits = map (pair s) (iota (Z.to_nat w) 0 1).
Proof.
  unfold read_target. cbn [read_target_msb]. intros H. apply bind_ok in H. destruct H as [r [Hr H]]. inversion H; subst; clear H.
  apply bind_ok in Hr. destruct Hr as [w [Hw Hr]]. apply ofopt_ok in Hw. destruct (w <? 1) eqn:E; [discriminate|]. inversion Hr; subst.
  exists w. split; [exact Hw|]. split; [lia|]. apply rev_involutive.
Qed.

(* a port bit of an instance: its connection is a whole signal of the port's width, and the step lands on bit k of that signal *)
Lemma port_local pm m M i x e port k w : mrel pm m M -> existsb has_other (h_body M) = false ->
  find_inst (m_insts m) i = Some x -> port_width pd x port = Ok w -> 0 <= k < w ->
  exists s h, find_hinst (h_body M) i = Some h /\ assoc port (iconns h) = Some (CSig s) /\
              local_tgt pd m x e port k = Ok (LtSig s k) /\ assoc s (pm_sigs pm) = Some w.
Proof.
  intros R HnoM Hf Hpw Hk. destruct (mrel_inst _ _ _ _ _ R Hf) as [pi [h [f [Hpi [Hx [Hr [Hh Hn]]]]]]].
  destruct (mrel_wf _ _ _ R) as [pre [post [E Hw]]]. destruct (Hw pi Hpi) as [ports [Href [Hclosed Hconn]]].
  pose proof (ref_ports_target _ _ _ _ _ _ E Hx Href) as Htp.
  unfold port_width in Hpw. rewrite Htp in Hpw. cbn [bind] in Hpw. apply ofopt_ok in Hpw.
  destruct (Hconn (port, w) (assoc_In _ _ _ Hpw)) as [tg Htg]. cbn [fst] in Htg.
  destruct (Hclosed (port, tg) (assoc_In _ _ _ Htg)) as [w' [bits [Hw' [Hread [Hlen _]]]]]. cbn [fst snd] in *.
  rewrite Hpw in Hw'. assert (w' = w) as Ew by congruence. rewrite Ew in Hlen. clear Ew Hw'.
  pose proof (inst_rel_conns _ _ _ _ Hr) as Hic.
  assert (assoc port (iconns h) = match tg with PSig s => Some (CSig s) | _ => Some COther end) as Hah.
  { rewrite Hic, assoc_pconn, Htg. destruct tg; reflexivity. }
  destruct tg as [s| |]; cbv iota in Hah;
    try (destruct (no_other_conn M h port COther HnoM (find_hinst_In _ _ _ Hh) Hah) as [s9 Hs9]; discriminate).
  destruct (read_psig _ _ _ Hread) as [ws [Hws [Hws1 Hbits]]].
  assert (ws = w) as ->.
  { rewrite Hbits in Hlen. unfold zlen in Hlen. rewrite map_length, iota_length in Hlen. lia. }
  exists s, h. split; [exact Hh|]. split; [exact Hah|]. split; [|exact Hws].
  destruct (pinst_inst_inv _ _ _ _ _ Hx) as [_ [Hn0 [_ Hcs]]].
  pose proof (assoc_traverse_pair (target_sx (pm_sigs pm)) (pi_conns pi) (i_conns x) port Hcs) as Hax.
  destruct (assoc port (i_conns x)) as [cx|] eqn:Ecx; [|congruence].
  destruct Hax as [tg' [Htg' Hcx]]. rewrite Htg in Htg'. inversion Htg'; subst tg'; clear Htg'.
  destruct (target_sx_spec _ _ _ Hread) as [cx' [bits' [Hcx' [Hxb F]]]]. rewrite Hcx in Hcx'. inversion Hcx'; subst cx'; clear Hcx'.
  assert (zlen bits' = w) as Hlen'. { unfold zlen in *. rewrite <- (F2_length _ _ _ F). exact Hlen. }
  assert (pick bits k = Ok (s, k)) as Hpick.
  { rewrite Hbits, pick_map. destruct (pick_ok (iota (Z.to_nat w) 0 1) k) as [y [Hp Hy]]; [unfold zlen; rewrite iota_length; lia|].
    rewrite Hp. rewrite iota_nth in Hy by lia. inversion Hy; subst. f_equal. f_equal. lia. }
  destruct (Forall2_pick _ _ _ _ _ F Hpick) as [b [Hb [Hb1 Hb2]]]. cbn [fst snd] in Hb1, Hb2.
  unfold local_tgt, conn_bit. rewrite Ecx, Hxb. cbn [bind]. unfold port_width. rewrite Htp. cbn [bind]. rewrite Hpw. cbn [ofopt bind].
  assert ((k <? 0) || (w <=? k) = false) as -> by lia. rewrite Hlen', Z.eqb_refl, Hb. cbn [bind]. destruct b as [id j]. cbn [fst snd] in *. subst j.
  destruct R as [_ [Hm _]]. destruct (pmodule_module_inv _ _ _ _ Hm) as [_ [_ [Hl _]]]. rewrite Hl, Hb2. reflexivity.
Qed.

(* the width of a declared signal, as the design sees it *)
Lemma sig_width_pm pm m s w : pmodule_module prims_ext p pm = Ok m -> assoc s (pm_sigs pm) = Some w -> sig_width m s = Some w.
Proof.
  intros Hm Hs. destruct (pmodule_module_inv _ _ _ _ Hm) as [_ [Hpw [_ Hsg]]]. unfold sig_width.
  unfold pm_port_widths in Hpw.
  assert (forall l r, traverse (fun pd0 : name * Z => w0 <- ofopt EMissing (assoc (fst pd0) (pm_sigs pm));; Ok (fst pd0, w0)) l = Ok r ->
          match assoc s r with Some w' => w' = w /\ (exists d, assoc s l = Some d) | None => assoc s l = None end) as X.
  { induction l as [|[n d] l IH]; intros r H; cbn [traverse] in H; [inversion H; reflexivity|].
    apply bind_ok in H. destruct H as [y [Hy H]]. apply bind_ok in H. destruct H as [ys [Hys H]]. inversion H; subst; clear H.
    cbn [fst] in Hy. apply bind_ok in Hy. destruct Hy as [w0 [Hw0 Hy]]. inversion Hy; subst; clear Hy. apply ofopt_ok in Hw0.
    cbn [assoc]. destruct (String.eqb s n) eqn:E; [apply String.eqb_eq in E; subst n; split; [congruence|eauto]|]. apply IH. exact Hys. }
  specialize (X _ _ Hpw). destruct (assoc s (m_ports m)) as [w'|]; [destruct X as [-> _]; reflexivity|].
  rewrite Hsg. apply assoc_filter_keep; [exact Hs|]. intros [n ww] Hn. cbn [fst] in *. subst n. rewrite X. reflexivity.
Qed.


(* every port of a sub-module instance is connected (wf_pkg), so the tree's up-step and the design's up-step agree *)
Lemma sub_connected pm0 m0 M0 i x k' m h s : mrel pm0 m0 M0 -> find_inst (m_insts m0) i = Some x -> i_of x = TMod k' ->
  nth_mod pd k' = Ok m -> find_hinst (h_body M0) i = Some h -> is_port m s = true -> has_key s (iconns h) = true.
Proof.
  intros R Hf Ho Hk Hh Hp. destruct (mrel_inst _ _ _ _ _ R Hf) as [pi [h' [f [Hpi [Hx [Hr [Hh' Hn]]]]]]].
  rewrite Hh in Hh'. inversion Hh'; subst h'; clear Hh'.
  destruct (mrel_wf _ _ _ R) as [pre [post [E Hw]]]. destruct (Hw pi Hpi) as [ports [Href [_ Hconn]]].
  pose proof (ref_ports_target _ _ _ _ _ _ E Hx Href) as Htp. rewrite Ho in Htp. cbn [target_ports] in Htp. rewrite Hk in Htp. cbn [bind] in Htp.
  inversion Htp; subst ports; clear Htp. unfold is_port in Hp. destruct (assoc s (m_ports m)) as [w0|] eqn:Ea; [|discriminate].
  destruct (Hconn (s, w0) (assoc_In _ _ _ Ea)) as [tg Htg]. cbn [fst] in Htg.
  rewrite (inst_rel_conns _ _ _ _ Hr). apply has_key_assoc. rewrite assoc_pconn, Htg. destruct tg; eauto.
Qed.

(* ---------------------------------------------------------------------------------------------- nodes *)
Definition cv (n : node) : hnode * Z :=
  match n with
  | NSig pth s k => (HSig (map fst pth) s, k)
  | NPort pth i _ port k => (HPort (map fst pth) i port, k)
  | NNc pth _ k => (HSig ("" :: "" :: map fst pth) "", k)
  end.

Lemma mod_at_no_other hp M : C16Flat.mod_at t hp = Some M -> existsb has_other (h_body M) = false.
Proof. unfold C16Flat.mod_at. apply no_other_down. exact Hno. Qed.

Theorem bridge_step x : valid pd x -> exists y, Nets.step pd x = Ok y /\ valid pd y /\ cv y = hstep_bit t (cv x).
Proof.
  destruct x as [pth s k|pth i e port k|pth site k]; cbn [valid]; [| |tauto].
  - intros [m [w [Hm [Hs Hk]]]]. destruct pth as [|[i e] pth'].
    + exists (NSig [] s k). split; [reflexivity|]. split; [cbn [valid]; eauto|]. reflexivity.
    + pose proof Hm as Hm2. apply vmod_at_cons in Hm2. destruct Hm2 as [m0 [x [k' [Hm0 [Hf [He [Ho Hk']]]]]]].
      rewrite (step_sig_up pd i e pth' s k m (vmod_at_mod_at _ _ _ Hm)).
      destruct (mrel_at _ _ Hm0) as [pm0 [M0 [R0 [HM0 _]]]].
      destruct (mrel_sub _ _ _ _ _ _ _ R0 Hf Ho Hk') as [pm' [M' [h [R' [Hh [_ [conns Eh]]]]]]].
      assert (h_ports M' = m_ports m) as Eports.
      { destruct R' as [_ [Hmm [f HM']]]. destruct (pmodule_module_inv _ _ _ _ Hmm) as [_ [Hpw _]].
        destruct (hmod_of_pkg_inv _ _ _ _ HM') as [body [ports [_ [Hpw' ->]]]]. cbn [h_ports]. congruence. }
      assert (hstep t (HSig (i :: map fst pth') s) = if has_key s (m_ports m) && has_key s conns then HPort (map fst pth') i s else HSig (i :: map fst pth') s) as Hst.
      { cbn [hstep]. unfold inst_at. rewrite HM0, Hh, Eh, Eports. reflexivity. }
      unfold hstep_bit. cbn [cv fst snd map]. rewrite Hst.
      destruct (is_port m s) eqn:Ep.
      * exists (NPort pth' i e s k). split; [reflexivity|]. split.
        -- cbn [valid]. unfold is_port in Ep. destruct (assoc s (m_ports m)) as [w0|] eqn:Ea; [|discriminate].
           exists m0, x, w0. split; [exact Hm0|]. split; [exact Hf|]. split; [exact He|]. split.
           ++ unfold port_width. rewrite Ho. cbn [target_ports]. rewrite Hk'. cbn [bind]. rewrite Ea. reflexivity.
           ++ unfold sig_width in Hs. rewrite Ea in Hs. inversion Hs; subst. exact Hk.
        -- pose proof (sub_connected _ _ _ _ _ _ _ _ s R0 Hf Ho Hk' Hh Ep) as Hc. rewrite Eh in Hc. cbn [iconns] in Hc. rewrite Hc.
           unfold is_port in Ep. unfold has_key. destruct (assoc s (m_ports m)); [reflexivity|discriminate].
      * exists (NSig ((i, e) :: pth') s k). split; [reflexivity|]. split; [cbn [valid]; eauto|].
        unfold is_port in Ep. unfold has_key at 1. destruct (assoc s (m_ports m)); [discriminate|]. reflexivity.
  - intros [m [x [w [Hm [Hf [He [Hpw Hk]]]]]]].
    destruct (mrel_at _ _ Hm) as [pm [M [R [HM _]]]]. pose proof (mod_at_no_other _ _ HM) as HnoM.
    destruct (port_local _ _ _ _ _ e _ _ _ R HnoM Hf Hpw Hk) as [s [h [Hh [Hah [Hl Hs]]]]].
    rewrite (step_port pd pth i e port k m x (vmod_at_mod_at _ _ _ Hm) Hf), Hl. cbn [bind ltgt_node].
    exists (NSig pth s k). split; [reflexivity|]. split.
    + cbn [valid]. exists m, w. split; [exact Hm|]. split; [|exact Hk]. destruct R as [_ [Hmm _]]. exact (sig_width_pm _ _ _ _ Hmm Hs).
    + unfold hstep_bit. cbn [cv fst snd hstep]. unfold inst_at. rewrite HM, Hh, Hah. reflexivity.
Qed.

Lemma valid_zero x : valid pd x ->
  match x with NSig pth _ _ => Forall (fun pe => snd pe = 0) pth | NPort pth _ e _ _ => Forall (fun pe => snd pe = 0) pth /\ e = 0 | NNc _ _ _ => False end.
Proof.
  destruct x as [pth s k|pth i e port k|pth site k]; cbn [valid]; [| |tauto].
  - intros [m [w [Hm _]]]. destruct (mrel_at _ _ Hm) as [_ [_ [_ [_ Hz]]]]. exact Hz.
  - intros [m [x [w [Hm [Hf [He _]]]]]]. destruct (mrel_at _ _ Hm) as [pm [M [R [_ Hz]]]]. split; [exact Hz|].
    destruct (mrel_inst _ _ _ _ _ R Hf) as [pi [h' [f [_ [Hx _]]]]]. destruct (pinst_inst_inv _ _ _ _ _ Hx) as [_ [Hn0 _]].
    unfold elem_ok in He. rewrite Hn0 in He. cbn in He. lia.
Qed.

Lemma zero_path_inj : forall a b : path, Forall (fun pe => snd pe = 0) a -> Forall (fun pe => snd pe = 0) b -> map fst a = map fst b -> a = b.
Proof.
  induction a as [|[i e] a IH]; intros [|[j f] b] Ha Hb E; cbn [map] in E; try discriminate; [reflexivity|].
  inversion Ha; subst. inversion Hb; subst. cbn [fst snd] in *. inversion E; subst. f_equal. apply IH; assumption.
Qed.

Lemma cv_inj x y : valid pd x -> valid pd y -> cv x = cv y -> x = y.
Proof.
  intros Vx Vy E. pose proof (valid_zero x Vx) as Zx. pose proof (valid_zero y Vy) as Zy.
  destruct x as [p1 s1 k1|p1 i1 e1 q1 k1|]; destruct y as [p2 s2 k2|p2 i2 e2 q2 k2|]; try tauto; cbn [cv] in E; inversion E; subst.
  - f_equal. apply zero_path_inj; assumption.
  - destruct Zx as [Zx ->]. destruct Zy as [Zy ->]. f_equal. apply zero_path_inj; assumption.
Qed.

(* ---------------------------------------------------------------------------------------------- the two readings agree *)
Theorem bridge_same_net x y : valid pd x -> valid pd y ->
  (same_net pd x y <-> conn (hnode * Z) (hstep_bit t) (cv x) (cv y)).
Proof.
  intros Vx Vy. rewrite same_net_meet_r.
  rewrite (sim_meet node (hnode * Z) (Nets.step pd) (fun n => Ok (hstep_bit t n)) (valid pd) cv).
  - rewrite conn_meet. unfold meet_r, meet.
    assert (forall n a, iter_r (fun n0 => Ok (hstep_bit t n0)) n a = Ok (Nat.iter n (hstep_bit t) a)) as X.
    { induction n as [|n IH]; intros a; cbn [iter_r]; [reflexivity|]. cbn [bind]. rewrite IH. f_equal.
      rewrite iter_comm. reflexivity. }
    split.
    + intros [m [n [z [H1 H2]]]]. exists m, n. rewrite X in H1, H2. congruence.
    + intros [m [n E]]. exists m, n, (Nat.iter m (hstep_bit t) (cv x)). rewrite !X. split; [reflexivity|]. rewrite E. reflexivity.
  - intros a Va. destruct (bridge_step a Va) as [b [Hb [Vb _]]]. eauto.
  - intros a b Va Hab. destruct (bridge_step a Va) as [b' [Hb' [_ Hc]]]. rewrite Hab in Hb'. inversion Hb'; subst b'. rewrite Hc. reflexivity.
  - exact cv_inj.
  - exact Vx.
  - exact Vy.
Qed.
End Bridge.
